/-
  Rbgp.Api.Proofs — lemmas for C17 (see Props.lean for the readable statements).
-/
import Rbgp.Api.Model
import Rbgp.Api.Spec
namespace Rbgp.Api
open Rbgp.Api.Spec

/-! ## lists -/

theorem snoc_induction {α} {P : List α → Prop} (hnil : P [])
    (hsnoc : ∀ l x, P l → P (l ++ [x])) : ∀ l, P l := by
  have h : ∀ l : List α, P l.reverse := by
    intro l
    induction l with
    | nil => simpa using hnil
    | cons x l ih => simpa using hsnoc _ x ih
  intro l
  simpa using h l.reverse

/-! ## big-endian fields -/

theorem beN_length (k n : Nat) : (beN k n).length = k := by
  induction k generalizing n with
  | zero => rfl
  | succ k ih => simp [beN, ih]

theorem beN_lt (k n : Nat) : ∀ b ∈ beN k n, b < 256 := by
  induction k generalizing n with
  | zero => simp [beN]
  | succ k ih =>
      intro b hb
      simp only [beN, List.mem_append, List.mem_singleton] at hb
      rcases hb with hb | hb
      · exact ih _ b hb
      · omega

theorem ofBe_append (a b : Bytes) : ofBe (a ++ b) = ofBe a * 256 ^ b.length + ofBe b := by
  unfold ofBe
  induction b using snoc_induction with
  | hnil => simp
  | hsnoc bs x ih =>
      rw [← List.append_assoc, List.foldl_append, List.foldl_append]
      simp only [List.foldl_cons, List.foldl_nil, List.length_append, List.length_singleton]
      rw [List.foldl_append] at ih
      rw [ih, Nat.pow_succ]
      rw [Nat.add_mul, Nat.mul_assoc, Nat.add_assoc]
      simp [List.foldl_append]

theorem ofBe_singleton (x : Nat) : ofBe [x] = x := by simp [ofBe]

theorem ofBe_beN (k n : Nat) : ofBe (beN k n) = n % 256 ^ k := by
  induction k generalizing n with
  | zero => simp [beN, ofBe, Nat.mod_one]
  | succ k ih =>
      simp only [beN]
      rw [ofBe_append, ih, ofBe_singleton]
      simp only [List.length_singleton, Nat.pow_one]
      rw [Nat.pow_succ]
      have h := Nat.mod_mul_right_div_self n 256 (256 ^ k)
      -- n % (256 * 256^k) = 256 * (n/256 % 256^k) + n % 256
      have h2 : n % (256 ^ k * 256) = (n / 256 % 256 ^ k) * 256 + n % 256 := by
        rw [Nat.mul_comm (256 ^ k) 256, Nat.mod_mul, Nat.mul_comm, Nat.add_comm]
      omega

theorem ofBe_lt (bs : Bytes) (h : ∀ b ∈ bs, b < 256) : ofBe bs < 256 ^ bs.length := by
  induction bs using snoc_induction with
  | hnil => simp [ofBe]
  | hsnoc bs x ih =>
      rw [ofBe_append, ofBe_singleton]
      simp only [List.length_append, List.length_singleton, Nat.pow_succ]
      have hx : x < 256 := h x (by simp)
      have := ih (fun b hb => h b (by simp [hb]))
      have : (ofBe bs + 1) * 256 ≤ 256 ^ bs.length * 256 := Nat.mul_le_mul_right _ this
      omega

theorem beN_ofBe (bs : Bytes) (h : ∀ b ∈ bs, b < 256) : beN bs.length (ofBe bs) = bs := by
  induction bs using snoc_induction with
  | hnil => simp [beN]
  | hsnoc bs x ih =>
      have hx : x < 256 := h x (by simp)
      have hbs : ∀ b ∈ bs, b < 256 := fun b hb => h b (by simp [hb])
      simp only [List.length_append, List.length_singleton, beN]
      rw [ofBe_append, ofBe_singleton]
      simp only [List.length_singleton, Nat.pow_one]
      have h1 : (ofBe bs * 256 + x) / 256 = ofBe bs := by omega
      have h2 : (ofBe bs * 256 + x) % 256 = x := by omega
      rw [h1, h2, ih hbs]

theorem beN_ofBe' (k : Nat) (bs : Bytes) (hk : bs.length = k) (h : ∀ b ∈ bs, b < 256) :
    beN k (ofBe bs) = bs := by
  subst hk; exact beN_ofBe bs h

/-! ## chunked values -/

def AllB (bs : Bytes) : Prop := ∀ b ∈ bs, b < 256

theorem allB_of_isBytes {bs : Bytes} (h : Rbgp.Api.isBytes bs = true) : AllB bs := by
  intro b hb
  simp only [Rbgp.Api.isBytes, List.all_eq_true, decide_eq_true_eq] at h
  exact h b hb

theorem AllB.take {bs : Bytes} (h : AllB bs) (n : Nat) : AllB (bs.take n) :=
  fun b hb => h b (List.mem_of_mem_take hb)
theorem AllB.drop {bs : Bytes} (h : AllB bs) (n : Nat) : AllB (bs.drop n) :=
  fun b hb => h b (List.mem_of_mem_drop hb)
theorem AllB.tail {x : Nat} {bs : Bytes} (h : AllB (x :: bs)) : AllB bs :=
  fun b hb => h b (List.mem_cons_of_mem _ hb)
theorem AllB.head {x : Nat} {bs : Bytes} (h : AllB (x :: bs)) : x < 256 := h x (by simp)
theorem AllB.append {a b : Bytes} (ha : AllB a) (hb : AllB b) : AllB (a ++ b) := by
  intro x hx
  rcases List.mem_append.mp hx with h | h
  · exact ha x h
  · exact hb x h

theorem exists_four {bs : Bytes} (h : 4 ≤ bs.length) : ∃ a b c d rest, bs = a :: b :: c :: d :: rest := by
  match bs, h with
  | a :: b :: c :: d :: rest, _ => exact ⟨a, b, c, d, rest, rfl⟩

theorem u32s_length (n : Nat) (bs : Bytes) (h : n * 4 ≤ bs.length) : (u32s n bs).length = n := by
  induction n generalizing bs with
  | zero => simp [u32s]
  | succ n ih =>
      obtain ⟨a, b, c, d, rest, rfl⟩ := exists_four (bs := bs) (by omega)
      simp only [u32s, List.length_cons]
      rw [ih rest (by simp only [List.length_cons] at h; omega)]

theorem u32s_flatMap (n : Nat) (bs : Bytes) (h : n * 4 ≤ bs.length) (hb : AllB bs) :
    (u32s n bs).flatMap (beN 4) = bs.take (n * 4) := by
  induction n generalizing bs with
  | zero => simp [u32s]
  | succ n ih =>
      obtain ⟨a, b, c, d, rest, rfl⟩ := exists_four (bs := bs) (by omega)
      have hr : AllB rest := hb.tail.tail.tail.tail
      have h4 : beN 4 (ofBe [a, b, c, d]) = [a, b, c, d] :=
        beN_ofBe' 4 [a, b, c, d] rfl (fun x hx => hb x (by
          simp only [List.mem_cons, List.not_mem_nil, or_false] at hx
          rcases hx with h | h | h | h <;> simp [h]))
      simp only [u32s, List.flatMap_cons, h4]
      rw [ih rest (by simp only [List.length_cons] at h; omega) hr]
      have : (n + 1) * 4 = n * 4 + 4 := by omega
      rw [this]
      simp [List.take_succ_cons]

theorem u32s_lt (n : Nat) (bs : Bytes) (hb : AllB bs) : ∀ x ∈ u32s n bs, x < 4294967296 := by
  induction n generalizing bs with
  | zero => simp [u32s]
  | succ n ih =>
      match bs, hb with
      | [], _ => simp [u32s]
      | [_], _ => simp [u32s]
      | [_, _], _ => simp [u32s]
      | [_, _, _], _ => simp [u32s]
      | a :: b :: c :: d :: rest, hb =>
          intro x hx
          simp only [u32s, List.mem_cons] at hx
          rcases hx with hx | hx
          · subst hx
            have := ofBe_lt [a, b, c, d] (fun x hx => hb x (by
              simp only [List.mem_cons, List.not_mem_nil, or_false] at hx
              rcases hx with h | h | h | h <;> simp [h]))
            simpa using this
          · exact ih rest hb.tail.tail.tail.tail x hx

/-! ## AS_PATH walks -/

def encSeg (s : Nat × List Nat) : Bytes := [s.1 % 256, s.2.length % 256] ++ s.2.flatMap (beN 4)

theorem asPathToSegs_spec (bs : Bytes) (h : segsOk bs = true) (hb : AllB bs) :
    ∃ segs, asPathToSegs bs = .ok segs ∧ segs.flatMap encSeg = bs ∧
      ∀ s ∈ segs, (1 ≤ s.1 ∧ s.1 ≤ 4) ∧ s.2.length ≤ 255 := by
  fun_induction segsOk bs with
  | case1 => exact ⟨[], by simp [asPathToSegs], rfl, by simp⟩
  | case2 => simp at h
  | case3 t l rest hc ih =>
      obtain ⟨ht1, ht4, hl⟩ := hc
      have hrest : AllB rest := hb.tail.tail
      have hl256 : l < 256 := hb.tail.head
      have ht256 : t < 256 := hb.head
      obtain ⟨segs, h1, h2, h3⟩ := ih h (hrest.drop _)
      refine ⟨(t, u32s l rest) :: segs, ?_, ?_, ?_⟩
      · rw [asPathToSegs]; simp [hl, h1, Out.map]
      · simp only [List.flatMap_cons, encSeg, h2]
        rw [u32s_length l rest hl, u32s_flatMap l rest hl hrest]
        rw [Nat.mod_eq_of_lt ht256, Nat.mod_eq_of_lt hl256]
        simp [List.take_append_drop]
      · intro s hs
        rcases List.mem_cons.mp hs with rfl | hs
        · refine ⟨⟨ht1, ht4⟩, ?_⟩
          simp only [u32s_length l rest hl]; omega
        · exact h3 s hs
  | case4 t l rest hc => simp at h

theorem segments_eq (bs : Bytes) : Spec.segments bs = segsOk bs := by
  fun_induction segsOk bs with
  | case1 => simp [Spec.segments]
  | case2 => simp [Spec.segments]
  | case3 t l rest hc ih => rw [Spec.segments]; simp [hc, ih]
  | case4 t l rest hc => rw [Spec.segments]; simp [hc]

theorem segmentsNonEmpty_eq (bs : Bytes) : Spec.segmentsNonEmpty bs = segs4Ok bs := by
  fun_induction segs4Ok bs with
  | case1 => simp [Spec.segmentsNonEmpty]
  | case2 => simp [Spec.segmentsNonEmpty]
  | case3 t l rest hc ih => rw [Spec.segmentsNonEmpty]; simp [hc, ih]
  | case4 t l rest hc => rw [Spec.segmentsNonEmpty]; simp [hc]

theorem aigpTlvs_eq (bs : Bytes) : Spec.aigpTlvs bs = aigpOk bs := by
  fun_induction aigpOk bs with
  | case1 => simp [Spec.aigpTlvs]
  | case2 => simp [Spec.aigpTlvs]
  | case3 => simp [Spec.aigpTlvs]
  | case4 t l1 l2 rest hc ih => rw [Spec.aigpTlvs]; simp [hc, ih]
  | case5 t l1 l2 rest hc => rw [Spec.aigpTlvs]; simp [hc]

theorem flatMap_beN4_length (ns : List Nat) : (ns.flatMap (beN 4)).length = ns.length * 4 := by
  induction ns with
  | nil => rfl
  | cons n ns ih => simp [List.flatMap_cons, beN_length, ih]; omega

theorem flatMap_beN_allB (k : Nat) (ns : List Nat) : AllB (ns.flatMap (beN k)) := by
  intro b hb
  rcases List.mem_flatMap.mp hb with ⟨n, _, hn⟩
  exact beN_lt k n b hn

theorem segsOk_enc (segs : List (Nat × List Nat))
    (h : ∀ s ∈ segs, (1 ≤ s.1 ∧ s.1 ≤ 4) ∧ s.2.length ≤ 255) : segsOk (segs.flatMap encSeg) = true := by
  induction segs with
  | nil => simp [segsOk]
  | cons s tl ih =>
      obtain ⟨⟨h1, h4⟩, hl⟩ := h s (by simp)
      have ht : s.1 % 256 = s.1 := Nat.mod_eq_of_lt (by omega)
      have hlen : s.2.length % 256 = s.2.length := Nat.mod_eq_of_lt (by omega)
      simp only [List.flatMap_cons, encSeg, ht, hlen, List.cons_append, List.nil_append, List.append_assoc]
      rw [segsOk]
      have hp : (s.2.flatMap (beN 4)).length = s.2.length * 4 := flatMap_beN4_length _
      have hle : s.2.length * 4 ≤ (s.2.flatMap (beN 4) ++ tl.flatMap encSeg).length := by
        rw [List.length_append, hp]; omega
      simp only [h1, h4, hle, and_self, if_true]
      rw [← hp, List.drop_left]
      exact ih (fun s hs => h s (List.mem_cons_of_mem _ hs))

theorem encSeg_allB (segs : List (Nat × List Nat)) : AllB (segs.flatMap encSeg) := by
  intro b hb
  rcases List.mem_flatMap.mp hb with ⟨s, _, hs⟩
  simp only [encSeg, List.cons_append, List.nil_append, List.mem_cons] at hs
  rcases hs with rfl | rfl | hs
  · exact Nat.mod_lt _ (by omega)
  · exact Nat.mod_lt _ (by omega)
  · exact flatMap_beN_allB 4 _ b hs

/-- consumers of a well-formed AS_PATH value never hit an `unwrap`/`unreachable!` -/
theorem asPathLengthLoop_ok (bs : Bytes) (acc : Nat) (h : segsOk bs = true) :
    ∃ n, asPathLengthLoop bs acc = .ok n := by
  fun_induction segsOk bs generalizing acc with
  | case1 => exact ⟨acc, by simp [asPathLengthLoop]⟩
  | case2 => simp at h
  | case3 t l rest hc ih =>
      obtain ⟨ht1, ht4, _⟩ := hc
      rw [asPathLengthLoop]
      have : t = 1 ∨ t = 2 ∨ t = 3 ∨ t = 4 := by omega
      rcases this with rfl | rfl | rfl | rfl <;> simp <;> exact ih _ h
  | case4 t l rest hc => simp at h

theorem asPathOriginLoop_ok (bs : Bytes) (st : Nat × Nat × Nat) (h : segsOk bs = true) :
    ∃ r, asPathOriginLoop bs st = .ok r := by
  fun_induction segsOk bs generalizing st with
  | case1 => exact ⟨st, by simp [asPathOriginLoop]⟩
  | case2 => simp at h
  | case3 t l rest hc ih =>
      obtain ⟨_, _, hl⟩ := hc
      rw [asPathOriginLoop]
      simp only [hl, if_true]
      exact ih _ h
  | case4 t l rest hc => simp at h

theorem downgrade2_ok (bs : Bytes) (h : segsOk bs = true) : ∃ r, downgrade2 bs = .ok r := by
  fun_induction segsOk bs with
  | case1 => exact ⟨[], by simp [downgrade2]⟩
  | case2 => simp at h
  | case3 t l rest hc ih =>
      obtain ⟨_, _, hl⟩ := hc
      obtain ⟨r, hr⟩ := ih h
      rw [downgrade2]
      simp [hl, hr, Out.map]
  | case4 t l rest hc => simp at h

theorem hasWide_ok (bs : Bytes) (h : segsOk bs = true) : ∃ r, hasWide bs = .ok r := by
  fun_induction segsOk bs with
  | case1 => exact ⟨false, by simp [hasWide]⟩
  | case2 => simp at h
  | case3 t l rest hc ih =>
      obtain ⟨_, _, hl⟩ := hc
      obtain ⟨r, hr⟩ := ih h
      rw [hasWide]
      simp only [hl, if_true, hr]
      split <;> simp
  | case4 t l rest hc => simp at h

theorem stripConfed_ok (bs : Bytes) (h : segsOk bs = true) : ∃ r, stripConfed bs = .ok r := by
  fun_induction segsOk bs with
  | case1 => exact ⟨[], by simp [stripConfed]⟩
  | case2 => simp at h
  | case3 t l rest hc ih =>
      obtain ⟨_, _, hl⟩ := hc
      obtain ⟨r, hr⟩ := ih h
      rw [stripConfed]
      simp only [hl, if_true, hr]
      split <;> simp [Out.map]
  | case4 t l rest hc => simp at h

/-! ## the `Out` monad -/

@[simp] theorem Out.bind_ok' {α β} (a : α) (f : α → Out β) : (Out.ok a >>= f) = f a := rfl
@[simp] theorem Out.bind_err' {α β} (f : α → Out β) : ((Out.err : Out α) >>= f) = Out.err := rfl
@[simp] theorem Out.bind_panic' {α β} (f : α → Out β) : ((Out.panic : Out α) >>= f) = Out.panic := rfl
@[simp] theorem Out.pure_eq {α} (a : α) : (pure a : Out α) = Out.ok a := rfl
@[simp] theorem Out.map_ok {α β} (f : α → β) (a : α) : Out.map f (Out.ok a) = Out.ok (f a) := rfl
@[simp] theorem Out.void_ok {α} (a : α) : (Out.ok a).void = Out.ok () := rfl
@[simp] theorem unwrapO_some {α} (a : α) : unwrapO (some a) = Out.ok a := rfl
@[simp] theorem unwrapO_none {α} : unwrapO (none : Option α) = Out.panic := rfl
@[simp] theorem okOr_some {α} (a : α) : okOr (some a) = Out.ok a := rfl
@[simp] theorem okOr_none {α} : okOr (none : Option α) = Out.err := rfl
@[simp] theorem okOrErr_eq {α} (o : Option α) : okOrErr o = okOr o := rfl

/-! ## more chunk lemmas -/

theorem chunksN_flatten (k n : Nat) (bs : Bytes) : (chunksN k n bs).flatten = bs.take (n * k) := by
  induction n generalizing bs with
  | zero => simp [chunksN]
  | succ n ih =>
      simp only [chunksN, List.flatten_cons, ih]
      have : (n + 1) * k = k + n * k := by rw [Nat.add_mul]; omega
      rw [this, List.take_add]

theorem chunksN_length (k n : Nat) (bs : Bytes) (h : n * k ≤ bs.length) :
    ∀ c ∈ chunksN k n bs, c.length = k := by
  induction n generalizing bs with
  | zero => simp [chunksN]
  | succ n ih =>
      intro c hc
      have hk : (n + 1) * k = n * k + k := by rw [Nat.add_mul]; omega
      simp only [chunksN, List.mem_cons] at hc
      rcases hc with rfl | hc
      · simp only [List.length_take]; omega
      · exact ih (bs.drop k) (by simp only [List.length_drop]; omega) c hc

theorem mapM_map_some {α β} (f : α → β) (g : β → Option α) (l : List α)
    (h : ∀ c ∈ l, g (f c) = some c) : (l.map f).mapM g = some l := by
  induction l with
  | nil => rfl
  | cons x xs ih =>
      have hx := h x (by simp)
      have hxs := ih (fun c hc => h c (List.mem_cons_of_mem _ hc))
      simp [List.mapM_cons, hx, hxs]

theorem take_full {α} (l : List α) (n : Nat) (h : l.length ≤ n) : l.take n = l :=
  List.take_of_length_le h

theorem triples_flatMap (n : Nat) (bs : Bytes) (h : n * 12 ≤ bs.length) (hb : AllB bs) :
    (triples n bs).flatMap (fun t => beN 4 t.1 ++ beN 4 t.2.1 ++ beN 4 t.2.2) = bs.take (n * 12) := by
  induction n generalizing bs with
  | zero => simp [triples]
  | succ n ih =>
      have hlen : 12 ≤ bs.length := by omega
      simp only [triples, List.flatMap_cons]
      rw [ih (bs.drop 12) (by simp only [List.length_drop]; omega) (hb.drop _)]
      have e1 : beN 4 (ofBe (bs.take 4)) = bs.take 4 :=
        beN_ofBe' 4 _ (by simp only [List.length_take]; omega) (hb.take _)
      have e2 : beN 4 (ofBe ((bs.drop 4).take 4)) = (bs.drop 4).take 4 :=
        beN_ofBe' 4 _ (by simp only [List.length_take, List.length_drop]; omega) ((hb.drop _).take _)
      have e3 : beN 4 (ofBe ((bs.drop 8).take 4)) = (bs.drop 8).take 4 :=
        beN_ofBe' 4 _ (by simp only [List.length_take, List.length_drop]; omega) ((hb.drop _).take _)
      rw [e1, e2, e3]
      have hk : (n + 1) * 12 = 4 + (4 + (4 + n * 12)) := by omega
      rw [hk, List.take_add, List.take_add, List.take_add]
      simp [List.drop_drop, List.append_assoc]

/-! ## round trip `attr_from_api (attr_to_api a) = a` -/

@[simp] theorem need_eq_none (c : Bool) (s : String) (k : Option String) :
    need c s k = none ↔ c = true ∧ k = none := by
  unfold need; cases c <;> simp

/-- flags are exactly the RFC flags of the attribute's code (recognised codes only) -/
def flagsCanon (a : Attribute) : Prop := ∀ f, canonicalFlags a.code = some f → a.flags = f

/-- `attr_from_api (attr_to_api a) = Ok(a)` for the code with repairs `fx` -/
def RT (fx : Fixes) (a : Attribute) : Prop := ∃ x, toApi fx a = .ok x ∧ fromApi fx x = .ok a

theorem any_false_of_forall {α} (l : List α) (p : α → Bool) (h : ∀ x ∈ l, p x = false) : l.any p = false := by
  simp only [List.any_eq_false]
  intro x hx; simp [h x hx]

theorem specBytes_allB {bs : Bytes} (h : Spec.isBytes bs = true) : AllB bs := by
  intro b hb
  simp only [Spec.isBytes, List.all_eq_true, decide_eq_true_eq] at h
  exact h b hb

theorem rt_val (code flags v : Nat) (hcode : code = 1 ∨ code = 4 ∨ code = 5 ∨ code = 9)
    (hwf : WF ⟨code, flags, .val v⟩) (hc : flagsCanon ⟨code, flags, .val v⟩) :
    RT current ⟨code, flags, .val v⟩ := by
  rcases hcode with rfl | rfl | rfl | rfl
  · have hf : flags = 0x40 := hc 0x40 (by simp [canonicalFlags])
    subst hf
    simp [WF, wfClause, classOf, valClause] at hwf
    refine ⟨.origin v, by simp [toApi, Attribute.value], ?_⟩
    simp [fromApi, current, newWithValue, canonicalFlags]; omega
  · have hf : flags = 0x80 := hc 0x80 (by simp [canonicalFlags])
    subst hf
    exact ⟨.med v, by simp [toApi, Attribute.value], by simp [fromApi, newWithValue, canonicalFlags]⟩
  · have hf : flags = 0x40 := hc 0x40 (by simp [canonicalFlags])
    subst hf
    exact ⟨.localPref v, by simp [toApi, Attribute.value], by simp [fromApi, newWithValue, canonicalFlags]⟩
  · have hf : flags = 0x80 := hc 0x80 (by simp [canonicalFlags])
    subst hf
    exact ⟨.originatorId (.ip4 v), by simp [toApi, Attribute.value],
      by simp [fromApi, AStr.parse4, newWithValue, canonicalFlags]⟩

theorem rt_aspath (flags : Nat) (b : Bytes) (hwf : WF ⟨2, flags, .bin b⟩)
    (hc : flagsCanon ⟨2, flags, .bin b⟩) : RT current ⟨2, flags, .bin b⟩ := by
  have hf : flags = 0x40 := hc 0x40 (by simp [canonicalFlags])
  subst hf
  simp [WF, wfClause, classOf, binClause] at hwf
  obtain ⟨_, hbytes, hseg⟩ := hwf
  rw [segments_eq] at hseg
  obtain ⟨segs, h1, h2, h3⟩ := asPathToSegs_spec b hseg (specBytes_allB hbytes)
  refine ⟨.asPath segs, by simp [toApi, Attribute.binary, h1], ?_⟩
  have hany : segs.any (fun s => !(decide (1 ≤ s.1 ∧ s.1 ≤ 4)) || decide (s.2.length > 255)) = false := by
    apply any_false_of_forall
    intro s hs
    obtain ⟨⟨a1, a4⟩, al⟩ := h3 s hs
    simp [a1, a4]; omega
  simp only [fromApi, current, hany]
  rw [show (segs.flatMap fun s => [s.1 % 256, s.2.length % 256] ++ s.2.flatMap (beN 4)) = b from h2]
  simp [newWithBin, canonicalFlags]

theorem rt_atomic (flags : Nat) (b : Bytes) (hwf : WF ⟨6, flags, .bin b⟩)
    (hc : flagsCanon ⟨6, flags, .bin b⟩) : RT current ⟨6, flags, .bin b⟩ := by
  have hf : flags = 0x40 := hc 0x40 (by simp [canonicalFlags])
  subst hf
  simp [WF, wfClause, classOf, binClause] at hwf
  obtain ⟨_, _, hlen⟩ := hwf
  subst hlen
  exact ⟨.atomicAggregate, by simp [toApi], by simp [fromApi, newWithBin, canonicalFlags]⟩

theorem rt_aggregator (flags : Nat) (b : Bytes) (hwf : WF ⟨7, flags, .bin b⟩)
    (hc : flagsCanon ⟨7, flags, .bin b⟩) : RT current ⟨7, flags, .bin b⟩ := by
  have hf : flags = 0xC0 := hc 0xC0 (by simp [canonicalFlags])
  subst hf
  simp [WF, wfClause, classOf, binClause] at hwf
  obtain ⟨_, hbytes, hlen⟩ := hwf
  have hb := specBytes_allB hbytes
  refine ⟨.aggregator (ofBe (b.take 4)) (.ip4 (ofBe (b.drop 4))), by simp [toApi, Attribute.binary, hlen], ?_⟩
  have e1 : beN 4 (ofBe (b.take 4)) = b.take 4 :=
    beN_ofBe' 4 _ (by simp only [List.length_take]; omega) (hb.take _)
  have e2 : beN 4 (ofBe (b.drop 4)) = b.drop 4 :=
    beN_ofBe' 4 _ (by simp only [List.length_drop]; omega) (hb.drop _)
  simp [fromApi, AStr.parse4, e1, e2, newWithBin, canonicalFlags]

theorem rt_u32list (code flags : Nat) (b : Bytes) (hcode : code = 8 ∨ code = 10)
    (hwf : WF ⟨code, flags, .bin b⟩) (hc : flagsCanon ⟨code, flags, .bin b⟩) :
    RT current ⟨code, flags, .bin b⟩ := by
  rcases hcode with rfl | rfl
  · have hf : flags = 0xC0 := hc 0xC0 (by simp [canonicalFlags])
    subst hf
    simp [WF, wfClause, classOf, binClause] at hwf
    obtain ⟨_, hbytes, hlen⟩ := hwf
    have hb := specBytes_allB hbytes
    refine ⟨.communities (u32s (b.length / 4) b), by simp [toApi, Attribute.binary], ?_⟩
    have h4 : b.length / 4 * 4 = b.length := by omega
    have := u32s_flatMap (b.length / 4) b (by omega) hb
    rw [h4, List.take_length] at this
    simp [fromApi, this, newWithBin, canonicalFlags]
  · have hf : flags = 0x80 := hc 0x80 (by simp [canonicalFlags])
    subst hf
    simp [WF, wfClause, classOf, binClause] at hwf
    obtain ⟨_, hbytes, hlen⟩ := hwf
    have hb := specBytes_allB hbytes
    refine ⟨.clusterList ((u32s (b.length / 4) b).map .ip4), by simp [toApi, Attribute.binary], ?_⟩
    have h4 : b.length / 4 * 4 = b.length := by omega
    have := u32s_flatMap (b.length / 4) b (by omega) hb
    rw [h4, List.take_length] at this
    have hm : ((u32s (b.length / 4) b).map AStr.ip4).mapM AStr.parse4 = some (u32s (b.length / 4) b) :=
      mapM_map_some _ _ _ (fun c _ => rfl)
    simp [fromApi, hm, this, newWithBin, canonicalFlags]

theorem rt_large (flags : Nat) (b : Bytes) (hwf : WF ⟨32, flags, .bin b⟩)
    (hc : flagsCanon ⟨32, flags, .bin b⟩) : RT current ⟨32, flags, .bin b⟩ := by
  have hf : flags = 0xC0 := hc 0xC0 (by simp [canonicalFlags])
  subst hf
  simp [WF, wfClause, classOf, binClause] at hwf
  obtain ⟨_, hbytes, hlen⟩ := hwf
  have hb := specBytes_allB hbytes
  refine ⟨.largeCommunities (triples (b.length / 12) b), by simp [toApi, Attribute.binary], ?_⟩
  have h12 : b.length / 12 * 12 = b.length := by omega
  have := triples_flatMap (b.length / 12) b (by omega) hb
  rw [h12, List.take_length] at this
  simp only [fromApi]
  rw [this]
  simp [newWithBin, canonicalFlags]

theorem writeExtcom_show (c : Bytes) (hlen : c.length = 8) :
    writeExtcom (showExtcom current c) = some c := by
  unfold showExtcom
  simp only [current, if_true]
  split
  · assumption
  · match c, hlen with
    | ty :: rest, hlen => simp [writeExtcom, hlen]

theorem rt_extcom (flags : Nat) (b : Bytes) (hwf : WF ⟨16, flags, .bin b⟩)
    (hc : flagsCanon ⟨16, flags, .bin b⟩) : RT current ⟨16, flags, .bin b⟩ := by
  have hf : flags = 0xC0 := hc 0xC0 (by simp [canonicalFlags])
  subst hf
  simp [WF, wfClause, classOf, binClause] at hwf
  obtain ⟨_, hbytes, hlen⟩ := hwf
  refine ⟨.extCommunities ((chunksN 8 (b.length / 8) b).map (showExtcom current)),
    by simp [toApi, Attribute.binary], ?_⟩
  have h8 : b.length / 8 * 8 = b.length := by omega
  have hm : ((chunksN 8 (b.length / 8) b).map (showExtcom current)).mapM writeExtcom
      = some (chunksN 8 (b.length / 8) b) :=
    mapM_map_some _ _ _ (fun c hcm => writeExtcom_show c (chunksN_length 8 _ b (by omega) c hcm))
  have hfl := chunksN_flatten 8 (b.length / 8) b
  rw [h8, List.take_length] at hfl
  simp [fromApi, hm, hfl, newWithBin, canonicalFlags]

/-- codes that reach the last (`Unknown`) arm of `attr_to_api` and are stored by the decoder -/
def rawCode (code : Nat) : Prop :=
  code ≠ 1 ∧ code ≠ 2 ∧ code ≠ 3 ∧ code ≠ 4 ∧ code ≠ 5 ∧ code ≠ 6 ∧ code ≠ 7 ∧ code ≠ 8 ∧ code ≠ 9 ∧
  code ≠ 10 ∧ code ≠ 16 ∧ code ≠ 32 ∧ code ≠ 17 ∧ code ≠ 18 ∧ code ≠ 23 ∧ code ≠ 29 ∧ code ≠ 40

theorem rt_known_raw (code flags : Nat) (d : Data) (hcode : code = 14 ∨ code = 15 ∨ code = 26)
    (hwf : WF ⟨code, flags, d⟩) (hc : flagsCanon ⟨code, flags, d⟩) : RT current ⟨code, flags, d⟩ := by
  have hf : flags = 0x80 := hc 0x80 (by rcases hcode with rfl | rfl | rfl <;> simp [canonicalFlags])
  subst hf
  cases d with
  | val v => rcases hcode with rfl | rfl | rfl <;> simp [WF, wfClause, classOf, valClause] at hwf
  | raw b => rcases hcode with rfl | rfl | rfl <;> simp [WF, wfClause, classOf] at hwf
  | bin b =>
      refine ⟨.unknown 0x80 code b, ?_, ?_⟩
      · rcases hcode with rfl | rfl | rfl <;> simp [toApi, Attribute.binary]
      · rcases hcode with rfl | rfl | rfl
        · simp [fromApi, current, canonicalFlags, typedCode]
        · simp [fromApi, current, canonicalFlags, typedCode]
        · simp [WF, wfClause, classOf, binClause, aigpTlvs_eq] at hwf
          simp [fromApi, current, canonicalFlags, typedCode, hwf.2.2]

theorem rt_unknown (code flags : Nat) (d : Data) (hr : rawCode code) (h14 : code ≠ 14) (h15 : code ≠ 15)
    (h26 : code ≠ 26) (hwf : WF ⟨code, flags, d⟩) : RT current ⟨code, flags, d⟩ := by
  obtain ⟨n1, n2, n3, n4, n5, n6, n7, n8, n9, n10, n16, n32, n17, n18, n23, n29, n40⟩ := hr
  have hcf : canonicalFlags code = none := by simp [canonicalFlags, *]
  have hcl : classOf code = none := by simp [classOf, *]
  simp only [WF, wfClause, hcl, need_eq_none, Bool.and_eq_true, decide_eq_true_eq] at hwf
  obtain ⟨⟨hcode, hflags⟩, hd⟩ := hwf
  cases d with
  | val v => simp at hd
  | bin b => simp at hd
  | raw b =>
      simp only [need_eq_none, Bool.and_eq_true, beq_iff_eq, and_true] at hd
      obtain ⟨⟨ho, ht⟩, _⟩ := hd
      refine ⟨.unknown flags code b, by simp [toApi, Attribute.binary, *], ?_⟩
      have hmod : code % 256 = code := Nat.mod_eq_of_lt hcode
      have hnot : ¬ (code > 255 ∨ flags > 255) := by omega
      simp [fromApi, current, hmod, hnot, hcf, ho, ht]

/-- what the decoder stores: never NEXT_HOP / MP_* (consumed by the UPDATE parser) nor AS4_* (discarded
    on a four-octet-AS session) -/
def storable (code : Nat) : Prop := code ≠ 3 ∧ code ≠ 14 ∧ code ≠ 15 ∧ code ≠ 17 ∧ code ≠ 18

/-- **round trip**: every well-formed stored attribute of a modelled code whose flags byte is the
    canonical one is converted to its API form without panic and converted back to itself. -/
theorem roundtrip_attr (a : Attribute) (hwf : WF a) (hm : modelledCode a.code = true)
    (hs : a.code ≠ 3 ∧ a.code ≠ 17 ∧ a.code ≠ 18) (hc : flagsCanon a) : RT current a := by
  obtain ⟨code, flags, d⟩ := a
  simp only [modelledCode, decide_eq_true_eq] at hm
  obtain ⟨m23, m29, m40⟩ := hm
  obtain ⟨s3, s17, s18⟩ := hs
  simp only at s3 s17 s18 m23 m29 m40
  by_cases h1 : code = 1 ∨ code = 4 ∨ code = 5 ∨ code = 9
  · cases d with
    | val v => exact rt_val code flags v h1 hwf hc
    | bin b => rcases h1 with rfl | rfl | rfl | rfl <;> simp [WF, wfClause, classOf, binClause] at hwf
    | raw b => rcases h1 with rfl | rfl | rfl | rfl <;> simp [WF, wfClause, classOf] at hwf
  by_cases h2 : code = 2 ∨ code = 6 ∨ code = 7 ∨ code = 8 ∨ code = 10 ∨ code = 16 ∨ code = 32
  · cases d with
    | val v =>
        rcases h2 with rfl | rfl | rfl | rfl | rfl | rfl | rfl <;>
          simp [WF, wfClause, classOf, valClause] at hwf
    | raw b =>
        rcases h2 with rfl | rfl | rfl | rfl | rfl | rfl | rfl <;> simp [WF, wfClause, classOf] at hwf
    | bin b =>
        rcases h2 with rfl | rfl | rfl | rfl | rfl | rfl | rfl
        · exact rt_aspath flags b hwf hc
        · exact rt_atomic flags b hwf hc
        · exact rt_aggregator flags b hwf hc
        · exact rt_u32list 8 flags b (Or.inl rfl) hwf hc
        · exact rt_u32list 10 flags b (Or.inr rfl) hwf hc
        · exact rt_extcom flags b hwf hc
        · exact rt_large flags b hwf hc
  by_cases h3 : code = 14 ∨ code = 15 ∨ code = 26
  · exact rt_known_raw code flags d h3 hwf hc
  · have hr : rawCode code := by unfold rawCode; omega
    exact rt_unknown code flags d hr (by omega) (by omega) (by omega) hwf

/-! ## the wire decoder establishes `WF` -/

theorem allB_specBytes {bs : Bytes} (h : AllB bs) : Spec.isBytes bs = true := by
  simp only [Spec.isBytes, List.all_eq_true, decide_eq_true_eq]
  exact h

def dataClause (code : Nat) : Data → Option String
  | .raw _ => some "recognised-attribute-opaque"
  | .val v => valClause code v
  | .bin bs => binClause code bs

theorem decodeData_wf (code : Nat) (bs : Bytes) (d : Data) (hb : AllB bs)
    (h : decodeData code bs = some d) : dataClause code d = none := by
  have hbs := allB_specBytes hb
  by_cases h1 : code = 1
  · subst h1
    simp only [decodeData, if_true] at h
    match bs, h with
    | [v], h =>
        simp only [] at h
        split at h
        · simp at h
        · simp only [Option.some.injEq] at h; subst h
          simp [dataClause, valClause]; omega
  by_cases h4 : code = 4 ∨ code = 5 ∨ code = 9
  · have hlen : bs.length = 4 ∧ d = .val (ofBe bs) := by
      rcases h4 with rfl | rfl | rfl <;> (simp [decodeData] at h; exact ⟨h.1, h.2.symm⟩)
    obtain ⟨hl, rfl⟩ := hlen
    have := ofBe_lt bs hb
    rw [hl] at this
    rcases h4 with rfl | rfl | rfl <;> simp [dataClause, valClause] <;> omega
  by_cases h2 : code = 2
  · subst h2
    simp [decodeData] at h
    obtain ⟨hs, rfl⟩ := h
    simp [dataClause, binClause, hbs, segments_eq, hs]
  by_cases h6 : code = 6
  · subst h6
    simp [decodeData] at h
    obtain ⟨hs, rfl⟩ := h
    simp [dataClause, binClause, Spec.isBytes]
  by_cases h7 : code = 7
  · subst h7
    simp [decodeData] at h
    split at h
    · rename_i h6'
      obtain ⟨_, h⟩ := h
      simp only [Option.some.injEq] at h; subst h
      have hb' : AllB (beN 4 (ofBe (List.take 2 bs)) ++ List.drop 2 bs) :=
        AllB.append (beN_lt 4 _) (hb.drop _)
      simp [dataClause, binClause, allB_specBytes hb', beN_length, h6']
    · rename_i h6'
      obtain ⟨hs, h⟩ := h
      simp only [Option.some.injEq] at h; subst h
      simp [dataClause, binClause, hbs, hs h6']
  by_cases h8 : code = 8 ∨ code = 10 ∨ code = 16 ∨ code = 32 ∨ code = 18
  · rcases h8 with rfl | rfl | rfl | rfl | rfl <;>
    · simp [decodeData] at h
      obtain ⟨hs, rfl⟩ := h
      simp [dataClause, binClause, hbs, hs]
  by_cases h17 : code = 17
  · subst h17
    simp [decodeData] at h
    obtain ⟨⟨hl2, hl6⟩, hs, rfl⟩ := h
    simp [dataClause, binClause, hbs, segmentsNonEmpty_eq, hs, hl2]; omega
  by_cases h3 : code = 3
  · subst h3
    simp [decodeData] at h
    obtain ⟨hs, rfl⟩ := h
    simp [dataClause, binClause, hbs, hs]
  by_cases h26 : code = 26
  · subst h26
    simp [decodeData] at h
    obtain ⟨hs, rfl⟩ := h
    simp [dataClause, binClause, hbs, aigpTlvs_eq, hs]
  · have hd : d = .bin bs := by
      have : ¬ (code = 4 ∨ code = 5 ∨ code = 9) := h4
      have h810 : ¬ (code = 8 ∨ code = 10) := by omega
      have h16 : code ≠ 16 := by omega
      have h32 : code ≠ 32 := by omega
      have h18 : code ≠ 18 := by omega
      simp [decodeData, *] at h
      exact h.symm
    subst hd
    have h810 : ¬ (code = 8 ∨ code = 10) := by omega
    have h1459 : ¬ (code = 1 ∨ code = 4 ∨ code = 5 ∨ code = 9) := by omega
    have h16 : code ≠ 16 := by omega
    have h32 : code ≠ 32 := by omega
    have h18 : code ≠ 18 := by omega
    simp [dataClause, binClause, hbs, *]

theorem wfClause_known (a : Attribute) (cls : Nat) (hcl : classOf a.code = some cls) :
    wfClause a = need (decide (a.code < 256) && decide (a.flags < 256)) "code-or-flags-out-of-range"
      (need (flagsOk cls a.flags) "flag-class-wrong" (dataClause a.code a.data)) := by
  unfold wfClause
  rw [hcl]
  cases a.data <;> rfl

theorem canon_class (code f : Nat) (h : canonicalFlags code = some f) :
    ∃ cls, classOf code = some cls ∧ ∀ flags, classBits flags = classBits f → flagsOk cls flags = true := by
  unfold canonicalFlags at h
  split at h
  · rename_i hc
    simp only [Option.some.injEq] at h; subst h
    refine ⟨1, ?_, ?_⟩
    · rcases hc with rfl | rfl | rfl | rfl | rfl <;> simp [classOf]
    · intro flags hf; simp only [classBits] at hf; simp [flagsOk]; omega
  · split at h
    · rename_i hc
      simp only [Option.some.injEq] at h; subst h
      refine ⟨2, ?_, ?_⟩
      · rcases hc with rfl | rfl | rfl | rfl | rfl | rfl | rfl <;> simp [classOf]
      · intro flags hf; simp only [classBits] at hf; simp [flagsOk]; omega
    · split at h
      · rename_i hc
        simp only [Option.some.injEq] at h; subst h
        refine ⟨3, ?_, ?_⟩
        · rcases hc with rfl | rfl | rfl | rfl | rfl | rfl | rfl | rfl <;> simp [classOf]
        · intro flags hf; simp only [classBits] at hf; simp [flagsOk]; omega
      · simp at h

theorem canon_none_class (code : Nat) (h : canonicalFlags code = none) : classOf code = none := by
  unfold canonicalFlags at h
  split at h
  · simp at h
  · split at h
    · simp at h
    · split at h
      · simp at h
      · rename_i h1 h2 h3
        simp only [classOf, List.mem_cons, List.not_mem_nil, or_false]
        rw [if_neg (by omega), if_neg (by omega), if_neg (by omega)]

/-- **decode_wf**: whatever the UPDATE parser stores satisfies the structural invariants `WF`,
    carries the wire flags verbatim, and is never NEXT_HOP / MP_* / AS4_*. -/
theorem decode_wf (code flags : Nat) (bs : Bytes) (a : Attribute) (hc : code < 256) (hf : flags < 256)
    (hb : AllB bs) (h : decodeAttr code flags bs = .stored a) :
    WF a ∧ a.code = code ∧ a.flags = flags ∧
      (code ≠ 3 ∧ code ≠ 14 ∧ code ≠ 15 ∧ code ≠ 17 ∧ code ≠ 18) := by
  unfold decodeAttr at h
  split at h
  · rename_i expected hcan
    obtain ⟨cls, hcl, hfl⟩ := canon_class code expected hcan
    split at h
    · simp at h
    · rename_i hbits
      split at h
      · rename_i d hd
        split at h
        · simp at h
        · split at h
          · simp at h
          · rename_i n1 n2
            simp only [Decoded.stored.injEq] at h; subst h
            refine ⟨?_, rfl, rfl, by omega⟩
            simp only [WF]
            rw [wfClause_known _ cls hcl]
            simp only [need_eq_none, Bool.and_eq_true, decide_eq_true_eq]
            exact ⟨⟨hc, hf⟩, hfl flags (by simpa using hbits), decodeData_wf code bs d hb hd⟩
      · split at h <;> simp at h
  · rename_i hcan
    have hcl := canon_none_class code hcan
    split at h
    · simp at h
    · rename_i hopt
      split at h
      · rename_i htr
        simp only [Decoded.stored.injEq] at h; subst h
        refine ⟨?_, rfl, rfl, ?_⟩
        · simp only [WF, wfClause, hcl, need_eq_none, Bool.and_eq_true, decide_eq_true_eq, beq_iff_eq]
          refine ⟨⟨hc, hf⟩, ⟨⟨?_, ?_⟩, allB_specBytes hb⟩, trivial⟩ <;> omega
        · simp only [canonicalFlags] at hcan
          split at hcan
          · simp at hcan
          · split at hcan
            · simp at hcan
            · split at hcan
              · simp at hcan
              · omega
      · simp at h

/-! ## what `attr_from_api` accepts is well-formed -/

theorem canon_lt (code f : Nat) (h : canonicalFlags code = some f) : code < 256 ∧ f < 256 := by
  unfold canonicalFlags at h
  split at h
  · simp only [Option.some.injEq] at h; omega
  · split at h
    · simp only [Option.some.injEq] at h; omega
    · split at h
      · simp only [Option.some.injEq] at h; omega
      · simp at h

/-- a value built by `Attribute::new_with_bin` / `new_with_value` is well-formed as soon as its data is -/
theorem wf_canon (code f : Nat) (d : Data) (hcan : canonicalFlags code = some f)
    (hd : dataClause code d = none) : WF ⟨code, f, d⟩ ∧ flagsCanon ⟨code, f, d⟩ := by
  obtain ⟨cls, hcl, hfl⟩ := canon_class code f hcan
  obtain ⟨h1, h2⟩ := canon_lt code f hcan
  refine ⟨?_, ?_⟩
  · simp only [WF]
    rw [wfClause_known _ cls hcl]
    simp only [need_eq_none, Bool.and_eq_true, decide_eq_true_eq]
    exact ⟨⟨h1, h2⟩, hfl f rfl, hd⟩
  · intro f' hf'
    simp only at hf'
    rw [hcan] at hf'
    simp only [Option.some.injEq] at hf'
    exact hf'

theorem modelIsBytes_allB {bs : Bytes} (h : Rbgp.Api.isBytes bs = true) : AllB bs := allB_of_isBytes h

theorem flatMap_len4 (l : List Nat) : (l.flatMap (beN 4)).length % 4 = 0 := by
  rw [flatMap_beN4_length]; omega

theorem ite_bind_eq_some {α} (b v : Nat) (f : Nat → Option α) (c : α) :
    ((if b < v then none else some v).bind f = some c) ↔ (v ≤ b ∧ f v = some c) := by
  split
  · simp; omega
  · simp; omega

theorem parse4_bind_eq_some {α} (s : AStr) (f : Nat → Option α) (c : α) :
    (s.parse4.bind f = some c) ↔ ∃ n, s = .ip4 n ∧ f n = some c := by
  cases s <;> simp [AStr.parse4]

theorem AllB.cons {x : Nat} {l : Bytes} (hx : x < 256) (hl : AllB l) : AllB (x :: l) := by
  intro b hb
  rcases List.mem_cons.mp hb with rfl | hb
  · exact hx
  · exact hl b hb

theorem boolBit_lt (b : Bool) (v : Nat) (h : v < 200) : boolBit b v < 200 := by
  unfold boolBit; split <;> omega
theorem boolBit_le (b : Bool) (v : Nat) : boolBit b v ≤ v := by
  unfold boolBit; split <;> omega

theorem writeExtcom_len (e : ExtCom) (c : Bytes) (hr : e.inRange = true) (h : writeExtcom e = some c) :
    c.length = 8 ∧ AllB c := by
  cases e with
  | missing => simp [writeExtcom] at h
  | other => simp [writeExtcom] at h
  | unknown ty v =>
      simp only [writeExtcom] at h
      split at h
      · simp at h
      · rename_i hl
        simp only [Option.some.injEq] at h; subst h
        simp only [ExtCom.inRange, Bool.and_eq_true] at hr
        exact ⟨by omega, modelIsBytes_allB hr.2⟩
  | twoOctetAs t sub a la =>
      simp [writeExtcom, ensure, ite_bind_eq_some] at h
      obtain ⟨h1, h2, rfl⟩ := h
      have := boolBit_lt (!t) 64 (by omega)
      exact ⟨by simp [beN_length], AllB.cons (by omega) (AllB.cons (by omega) (AllB.append (beN_lt _ _) (beN_lt _ _)))⟩
  | ipv4 t sub addr la =>
      simp [writeExtcom, ensure, ite_bind_eq_some, parse4_bind_eq_some] at h
      obtain ⟨h1, n, rfl, h2, rfl⟩ := h
      have := boolBit_lt (!t) 64 (by omega)
      exact ⟨by simp [beN_length], AllB.cons (by omega) (AllB.cons (by omega) (AllB.append (beN_lt _ _) (beN_lt _ _)))⟩
  | fourOctetAs t sub a la =>
      simp [writeExtcom, ensure, ite_bind_eq_some] at h
      obtain ⟨h1, h2, rfl⟩ := h
      have := boolBit_lt (!t) 64 (by omega)
      exact ⟨by simp [beN_length], AllB.cons (by omega) (AllB.cons (by omega) (AllB.append (beN_lt _ _) (beN_lt _ _)))⟩
  | mup sub a b =>
      simp [writeExtcom, ensure, ite_bind_eq_some] at h
      obtain ⟨h1, h2, rfl⟩ := h
      exact ⟨by simp [beN_length], AllB.cons (by omega) (AllB.cons (by omega) (AllB.append (beN_lt _ _) (beN_lt _ _)))⟩
  | trafficRate a r =>
      simp [writeExtcom, ensure, ite_bind_eq_some] at h
      obtain ⟨h1, rfl⟩ := h
      exact ⟨by simp [beN_length], AllB.cons (by omega) (AllB.cons (by omega) (AllB.append (beN_lt _ _) (beN_lt _ _)))⟩
  | trafficAction t s =>
      simp [writeExtcom] at h
      subst h
      have h1 := boolBit_le t 1
      have h2 := boolBit_le s 2
      refine ⟨rfl, ?_⟩
      intro b hb
      simp only [List.mem_cons, List.not_mem_nil, or_false] at hb
      rcases hb with rfl | rfl | rfl | rfl | rfl | rfl | rfl | rfl <;> omega
  | redirect2 a l =>
      simp [writeExtcom, ensure, ite_bind_eq_some] at h
      obtain ⟨h1, rfl⟩ := h
      exact ⟨by simp [beN_length], AllB.cons (by omega) (AllB.cons (by omega) (AllB.append (beN_lt _ _) (beN_lt _ _)))⟩
  | trafficRemark d =>
      simp [writeExtcom] at h
      subst h
      refine ⟨rfl, ?_⟩
      intro b hb
      simp only [List.mem_cons, List.not_mem_nil, or_false] at hb
      rcases hb with rfl | rfl | rfl | rfl | rfl | rfl | rfl | rfl <;> omega
  | redirectIp4 addr l =>
      simp [writeExtcom, ensure, ite_bind_eq_some, parse4_bind_eq_some] at h
      obtain ⟨n, rfl, h2, rfl⟩ := h
      exact ⟨by simp [beN_length], AllB.cons (by omega) (AllB.cons (by omega) (AllB.append (beN_lt _ _) (beN_lt _ _)))⟩
  | redirect4 a l =>
      simp [writeExtcom, ensure, ite_bind_eq_some] at h
      obtain ⟨h1, rfl⟩ := h
      exact ⟨by simp [beN_length], AllB.cons (by omega) (AllB.cons (by omega) (AllB.append (beN_lt _ _) (beN_lt _ _)))⟩
theorem binClause_c8 (bs : Bytes) (hb : Spec.isBytes bs = true) (hl : bs.length % 4 = 0) :
    binClause 8 bs = none := by simp [binClause, hb, hl]
theorem binClause_c10 (bs : Bytes) (hb : Spec.isBytes bs = true) (hl : bs.length % 4 = 0) :
    binClause 10 bs = none := by simp [binClause, hb, hl]
theorem binClause_c16 (bs : Bytes) (hb : Spec.isBytes bs = true) (hl : bs.length % 8 = 0) :
    binClause 16 bs = none := by simp [binClause, hb, hl]
theorem binClause_c32 (bs : Bytes) (hb : Spec.isBytes bs = true) (hl : bs.length % 12 = 0) :
    binClause 32 bs = none := by simp [binClause, hb, hl]
theorem binClause_c7 (bs : Bytes) (hb : Spec.isBytes bs = true) (hl : bs.length = 8) :
    binClause 7 bs = none := by simp [binClause, hb, hl]
theorem binClause_c2 (bs : Bytes) (hb : Spec.isBytes bs = true) (hs : segsOk bs = true) :
    binClause 2 bs = none := by simp [binClause, hb, segments_eq, hs]
theorem binClause_c3 (bs : Bytes) (hb : Spec.isBytes bs = true) (hl : bs.length = 4 ∨ bs.length = 16) :
    binClause 3 bs = none := by
  simp [binClause, hb, hl]

theorem flatMap3_len (l : List (Nat × Nat × Nat)) :
    (l.flatMap fun t => beN 4 t.1 ++ beN 4 t.2.1 ++ beN 4 t.2.2).length % 12 = 0 := by
  induction l with
  | nil => rfl
  | cons t ts ih =>
      rw [List.flatMap_cons, List.length_append]
      simp only [List.length_append, beN_length]
      omega

theorem mapM_some_forall {α β} (f : α → Option β) (P : β → Prop) (l : List α) (cs : List β)
    (h : l.mapM f = some cs) (hp : ∀ e ∈ l, ∀ c, f e = some c → P c) : ∀ c ∈ cs, P c := by
  induction l generalizing cs with
  | nil => simp at h; subst h; simp
  | cons e es ih =>
      simp only [List.mapM_cons, Option.bind_eq_bind, Option.pure_def] at h
      cases hfe : f e with
      | none => simp [hfe] at h
      | some x =>
          cases hes : es.mapM f with
          | none => simp [hfe, hes] at h
          | some xs =>
              simp [hfe, hes] at h
              subst h
              intro c hc
              rcases List.mem_cons.mp hc with rfl | hc
              · exact hp e (by simp) _ hfe
              · exact ih xs hes (fun e' he' => hp e' (List.mem_cons_of_mem _ he')) c hc

theorem flatten_len8 (cs : List Bytes) (h : ∀ c ∈ cs, c.length = 8 ∧ AllB c) :
    cs.flatten.length % 8 = 0 ∧ AllB cs.flatten := by
  induction cs with
  | nil => exact ⟨rfl, by intro b hb; simp at hb⟩
  | cons c cs ih =>
      obtain ⟨h1, h2⟩ := ih (fun c' hc' => h c' (List.mem_cons_of_mem _ hc'))
      obtain ⟨hc1, hc2⟩ := h c (by simp)
      refine ⟨?_, ?_⟩
      · simp only [List.flatten_cons, List.length_append]; omega
      · simp only [List.flatten_cons]; exact AllB.append hc2 h2

/-- **from_api_wf**: whatever `attr_from_api` accepts satisfies the invariants of wire-decoded values,
    and carries the canonical flags of its code. -/
theorem from_api_wf (x : ApiAttr) (a : Attribute) (hr : x.inRange = true)
    (h : fromApi current x = .ok a) : WF a ∧ flagsCanon a := by
  cases x with
  | missing => simp [fromApi] at h
  | other => simp [fromApi] at h
  | origin o =>
      simp only [fromApi, current] at h
      split at h
      · simp at h
      · rename_i ho
        have ho' : o ≤ 2 := by simp at ho; omega
        simp [newWithValue, canonicalFlags] at h; subst h
        exact wf_canon 1 0x40 _ (by simp [canonicalFlags]) (by simp [dataClause, valClause]; omega)
  | med m =>
      simp [fromApi, newWithValue, canonicalFlags] at h; subst h
      simp only [ApiAttr.inRange, u32, decide_eq_true_eq] at hr
      exact wf_canon 4 0x80 _ (by simp [canonicalFlags]) (by simp [dataClause, valClause]; omega)
  | localPref m =>
      simp [fromApi, newWithValue, canonicalFlags] at h; subst h
      simp only [ApiAttr.inRange, u32, decide_eq_true_eq] at hr
      exact wf_canon 5 0x40 _ (by simp [canonicalFlags]) (by simp [dataClause, valClause]; omega)
  | atomicAggregate =>
      simp [fromApi, newWithBin, canonicalFlags] at h; subst h
      exact wf_canon 6 0x40 _ (by simp [canonicalFlags]) (by simp [dataClause, binClause, Spec.isBytes])
  | nextHop s =>
      simp only [fromApi, current] at h
      cases s with
      | ip4 n =>
          simp [AStr.parse4, newWithBin, canonicalFlags] at h; subst h
          exact wf_canon 3 0x40 _ (by simp [canonicalFlags])
            (binClause_c3 _ (allB_specBytes (beN_lt 4 n)) (Or.inl (beN_length 4 n)))
      | ip6 n =>
          simp [AStr.parse4, AStr.parse6, newWithBin, canonicalFlags] at h; subst h
          exact wf_canon 3 0x40 _ (by simp [canonicalFlags])
            (binClause_c3 _ (allB_specBytes (beN_lt 16 n)) (Or.inr (beN_length 16 n)))
      | bad k => simp [AStr.parse4, AStr.parse6] at h
  | aggregator asn addr =>
      simp only [fromApi] at h
      cases addr with
      | ip4 n =>
          simp [AStr.parse4, newWithBin, canonicalFlags] at h; subst h
          exact wf_canon 7 0xC0 _ (by simp [canonicalFlags])
            (binClause_c7 _ (allB_specBytes (AllB.append (beN_lt 4 asn) (beN_lt 4 n)))
              (by simp [beN_length]))
      | ip6 n => simp [AStr.parse4] at h
      | bad k => simp [AStr.parse4] at h
  | communities l =>
      simp [fromApi, newWithBin, canonicalFlags] at h; subst h
      exact wf_canon 8 0xC0 _ (by simp [canonicalFlags])
        (binClause_c8 _ (allB_specBytes (flatMap_beN_allB 4 l)) (flatMap_len4 l))
  | originatorId s =>
      simp only [fromApi] at h
      cases s with
      | ip4 n =>
          simp [AStr.parse4, newWithValue, canonicalFlags] at h; subst h
          simp only [ApiAttr.inRange, AStr.inRange, u32, decide_eq_true_eq] at hr
          exact wf_canon 9 0x80 _ (by simp [canonicalFlags]) (by simp [dataClause, valClause]; omega)
      | ip6 n => simp [AStr.parse4] at h
      | bad k => simp [AStr.parse4] at h
  | clusterList ids =>
      simp only [fromApi] at h
      split at h
      · simp at h
      · rename_i l hl
        simp [newWithBin, canonicalFlags] at h; subst h
        exact wf_canon 10 0x80 _ (by simp [canonicalFlags])
          (binClause_c10 _ (allB_specBytes (flatMap_beN_allB 4 l)) (flatMap_len4 l))
  | largeCommunities l =>
      simp only [fromApi, okOrErr_eq, newWithBin, canonicalFlags] at h
      simp at h; subst h
      have hb : AllB (l.flatMap fun t => beN 4 t.1 ++ beN 4 t.2.1 ++ beN 4 t.2.2) := by
        intro b hb
        rcases List.mem_flatMap.mp hb with ⟨t, _, ht⟩
        simp only [List.mem_append] at ht
        rcases ht with (ht | ht) | ht <;> exact beN_lt 4 _ b ht
      have e : (l.flatMap fun t => beN 4 t.1 ++ (beN 4 t.2.1 ++ beN 4 t.2.2))
          = (l.flatMap fun t => beN 4 t.1 ++ beN 4 t.2.1 ++ beN 4 t.2.2) := by
        simp only [List.append_assoc]
      rw [e]
      exact wf_canon 32 0xC0 _ (by simp [canonicalFlags])
        (binClause_c32 _ (allB_specBytes hb) (flatMap3_len l))
  | extCommunities l =>
      simp only [fromApi] at h
      split at h
      · simp at h
      · rename_i cs hcs
        simp [newWithBin, canonicalFlags] at h; subst h
        simp only [ApiAttr.inRange, List.all_eq_true] at hr
        have hall : ∀ c ∈ cs, c.length = 8 ∧ AllB c :=
          mapM_some_forall writeExtcom _ l cs hcs (fun e he c hc => writeExtcom_len e c (hr e he) hc)
        obtain ⟨h8, hb⟩ := flatten_len8 cs hall
        exact wf_canon 16 0xC0 _ (by simp [canonicalFlags])
          (binClause_c16 _ (allB_specBytes hb) h8)
  | asPath segs =>
      simp only [fromApi, current] at h
      split at h
      · simp at h
      · rename_i hany
        simp [newWithBin, canonicalFlags] at h; subst h
        have hsegs : ∀ s ∈ segs, (1 ≤ s.1 ∧ s.1 ≤ 4) ∧ s.2.length ≤ 255 := by
          intro s hs
          simp only [true_and, List.any_eq_true, not_exists, not_and, Bool.or_eq_true,
            Bool.not_eq_true', decide_eq_false_iff_not, decide_eq_true_eq, not_or] at hany
          have := hany s hs
          omega
        have hok := segsOk_enc segs hsegs
        have hb := encSeg_allB segs
        exact wf_canon 2 0x40 _ (by simp [canonicalFlags])
          (by
            have e : (segs.flatMap fun s => s.1 % 256 :: s.2.length % 256 :: s.2.flatMap (beN 4))
                = segs.flatMap encSeg := rfl
            rw [e]
            exact binClause_c2 _ (allB_specBytes hb) hok)
  | unknown f t v =>
      simp only [fromApi, current, if_true] at h
      split at h
      · simp at h
      · rename_i hlt
        have ht : t % 256 = t := Nat.mod_eq_of_lt (by omega)
        rw [ht] at h
        simp only [ApiAttr.inRange, Bool.and_eq_true] at hr
        have hv := allB_specBytes (modelIsBytes_allB hr.2)
        split at h
        · rename_i fl hcan
          split at h
          · simp at h
          · rename_i hty
            simp only [typedCode, decide_eq_true_eq, not_or] at hty
            obtain ⟨n1, n2, n3, n4, n5, n6, n7, n8, n9, n10, n16, n32, n23, n29, n17, n18⟩ := hty
            split at h
            · simp at h
            · rename_i haigp
              simp only [Out.ok.injEq] at h; subst h
              exact wf_canon t fl _ hcan (by
                have a1 : ¬ (t = 1 ∨ t = 4 ∨ t = 5 ∨ t = 9) := by omega
                have a2 : ¬ (t = 8 ∨ t = 10) := by omega
                by_cases h26 : t = 26
                · subst h26
                  have : aigpOk v = true := by
                    cases hh : aigpOk v with
                    | true => rfl
                    | false => exact absurd ⟨rfl, hh⟩ haigp
                  simp [dataClause, binClause, hv, aigpTlvs_eq, this]
                · simp [dataClause, binClause, hv, *])
        · rename_i hcan
          split at h
          · rename_i hbits
            simp only [Out.ok.injEq] at h; subst h
            have hcl := canon_none_class t hcan
            refine ⟨?_, ?_⟩
            · simp only [WF, wfClause, hcl, need_eq_none, Bool.and_eq_true, decide_eq_true_eq, beq_iff_eq]
              exact ⟨⟨by omega, by omega⟩, ⟨⟨hbits.1, hbits.2⟩, hv⟩, trivial⟩
            · intro f' hf'; simp only at hf'; rw [hcan] at hf'; simp at hf'
          · simp at h

/-! ## consumers never panic on well-formed values -/

theorem wf_class (a : Attribute) (h : WF a) :
    (∃ cls, classOf a.code = some cls ∧ dataClause a.code a.data = none) ∨
    (classOf a.code = none ∧ ∃ b, a.data = .raw b) := by
  cases hcl : classOf a.code with
  | some cls =>
      left
      simp only [WF] at h
      rw [wfClause_known a cls hcl] at h
      simp only [need_eq_none] at h
      exact ⟨cls, rfl, h.2.2⟩
  | none =>
      right
      simp only [WF, wfClause, hcl, need_eq_none] at h
      refine ⟨rfl, ?_⟩
      cases hd : a.data with
      | raw b => exact ⟨b, rfl⟩
      | val v => rw [hd] at h; simp at h
      | bin b => rw [hd] at h; simp at h

theorem wf_val_of_code (a : Attribute) (h : WF a) (hc : a.code = 1 ∨ a.code = 4 ∨ a.code = 5 ∨ a.code = 9) :
    ∃ v, a.data = .val v := by
  rcases wf_class a h with ⟨cls, _, hd⟩ | ⟨hcl, _⟩
  · cases hdat : a.data with
    | val v => exact ⟨v, rfl⟩
    | raw b => rw [hdat] at hd; simp [dataClause] at hd
    | bin b =>
        rw [hdat] at hd
        rcases hc with hc | hc | hc | hc <;> simp [dataClause, binClause, hc] at hd
  · rcases hc with hc | hc | hc | hc <;> simp [classOf, hc] at hcl

theorem wf_binary_of_code (a : Attribute) (h : WF a)
    (hc : ¬ (a.code = 1 ∨ a.code = 4 ∨ a.code = 5 ∨ a.code = 9)) : ∃ b, a.binary = some b := by
  rcases wf_class a h with ⟨cls, _, hd⟩ | ⟨_, b, hb⟩
  · cases hdat : a.data with
    | val v =>
        rw [hdat] at hd
        have h1 : a.code ≠ 1 := by omega
        have h4 : ¬ (a.code = 4 ∨ a.code = 5 ∨ a.code = 9) := by omega
        simp [dataClause, valClause, h1, h4] at hd
    | raw b => exact ⟨b, by simp [Attribute.binary, hdat]⟩
    | bin b => exact ⟨b, by simp [Attribute.binary, hdat]⟩
  · exact ⟨b, by simp [Attribute.binary, hb]⟩

theorem wf_aspath (a : Attribute) (h : WF a) (hc : a.code = 2) : ∃ b, a.data = .bin b ∧ segsOk b = true := by
  rcases wf_class a h with ⟨cls, _, hd⟩ | ⟨hcl, _⟩
  · cases hdat : a.data with
    | val v => rw [hdat] at hd; simp [dataClause, valClause, hc] at hd
    | raw b => rw [hdat] at hd; simp [dataClause] at hd
    | bin b =>
        rw [hdat] at hd
        simp [dataClause, binClause, hc, segments_eq] at hd
        exact ⟨b, rfl, hd.2⟩
  · simp [classOf, hc] at hcl

theorem wf_aggregator (a : Attribute) (h : WF a) (hc : a.code = 7) : ∃ b, a.data = .bin b ∧ b.length = 8 := by
  rcases wf_class a h with ⟨cls, _, hd⟩ | ⟨hcl, _⟩
  · cases hdat : a.data with
    | val v => rw [hdat] at hd; simp [dataClause, valClause, hc] at hd
    | raw b => rw [hdat] at hd; simp [dataClause] at hd
    | bin b =>
        rw [hdat] at hd
        simp [dataClause, binClause, hc] at hd
        exact ⟨b, rfl, hd.2⟩
  · simp [classOf, hc] at hcl

theorem encodeAttr_ok (a : Attribute) (h : WF a) : ∃ b, encodeAttr a = .ok b := by
  unfold encodeAttr
  by_cases h1 : a.code = 1
  · obtain ⟨v, hv⟩ := wf_val_of_code a h (Or.inl h1)
    simp [h1, Attribute.value, hv]
  · by_cases h4 : a.code = 4 ∨ a.code = 5 ∨ a.code = 9
    · obtain ⟨v, hv⟩ := wf_val_of_code a h (Or.inr h4)
      simp [h1, h4, Attribute.value, hv]
    · obtain ⟨b, hb⟩ := wf_binary_of_code a h (by omega)
      simp [h1, h4, hb]

theorem asPathLength_ok (a : Attribute) (h : WF a) (hc : a.code = 2) : ∃ n, asPathLength a = .ok n := by
  obtain ⟨b, hb, hs⟩ := wf_aspath a h hc
  obtain ⟨n, hn⟩ := asPathLengthLoop_ok b 0 hs
  exact ⟨n, by simp [asPathLength, hc, Attribute.binary, hb, hn]⟩

theorem asPathOrigin_ok (a : Attribute) (h : WF a) (hc : a.code = 2) : ∃ r, asPathOrigin a = .ok r := by
  obtain ⟨b, hb, hs⟩ := wf_aspath a h hc
  obtain ⟨r, hr⟩ := asPathOriginLoop_ok b (0, 0, 0) hs
  unfold asPathOrigin
  simp only [Attribute.binary, hb, unwrapO_some, Out.bind_ok']
  split
  · exact ⟨none, rfl⟩
  · simp [hr]

theorem asPathPrepend_ok (a : Attribute) (asn : Nat) (h : WF a) (hc : a.code = 2) :
    ∃ a', asPathPrepend a asn = .ok a' ∧ ∃ b, a'.binary = some b := by
  obtain ⟨b, hb, hs⟩ := wf_aspath a h hc
  unfold asPathPrepend
  simp only [hc, ne_eq, not_true_eq_false, if_false, Attribute.binary, hb, unwrapO_some, Out.bind_ok']
  match b, hs with
  | [], _ => exact ⟨_, rfl, _, rfl⟩
  | [x], hs => simp [segsOk] at hs
  | t :: l :: rest, _ =>
      simp only [Out.pure_eq]
      split
      · exact ⟨_, rfl, t :: (l + 1) :: (beN 4 asn ++ rest), rfl⟩
      · exact ⟨_, rfl, 2 :: 1 :: (beN 4 asn ++ t :: l :: rest), rfl⟩

theorem encode2Use_ok (a : Attribute) (h : WF a) : encode2Use a = .ok () := by
  unfold encode2Use
  by_cases h2 : a.code = 2
  · obtain ⟨b, hb, hs⟩ := wf_aspath a h h2
    obtain ⟨d, hd⟩ := downgrade2_ok b hs
    obtain ⟨w, hw⟩ := hasWide_ok b hs
    obtain ⟨s, hs'⟩ := stripConfed_ok b hs
    rw [if_pos h2]
    simp only [Attribute.binary, hb, unwrapO_some, Out.bind_ok', hd, hw]
    have e1 : ∃ x, encodeAttr { a with data := .bin d, flags := 0x40 } = .ok x := by
      simp [encodeAttr, h2, Attribute.binary]
    obtain ⟨x, hx⟩ := e1
    simp only [hx, Out.bind_ok']
    cases w with
    | false => simp
    | true =>
        simp only [if_true, hs', Out.bind_ok']
        have e2 : ∃ y, encodeAttr { code := 17, flags := 0xC0, data := .bin s } = .ok y := by
          simp [encodeAttr, Attribute.binary]
        obtain ⟨y, hy⟩ := e2
        simp [hy]
  · by_cases h7 : a.code = 7
    · obtain ⟨b, hb, hl⟩ := wf_aggregator a h h7
      simp [h2, h7, Attribute.binary, hb, hl]
    · obtain ⟨b, hb⟩ := encodeAttr_ok a h
      simp [h2, h7, hb]
theorem wf_originIgp : WF originIgp := by
  simp [WF, wfClause, originIgp, classOf, flagsOk, valClause]

theorem wf_baseAsPath : WF baseAsPath := by
  simp [WF, wfClause, baseAsPath, classOf, flagsOk, binClause, Spec.isBytes, beN, Spec.segments]

theorem pathAttrs_wf (a : Attribute) (h : WF a) : ∀ x ∈ pathAttrs a, WF x := by
  intro x hx
  simp only [pathAttrs, List.mem_append, List.mem_singleton] at hx
  rcases hx with (rfl | hx) | hx
  · exact h
  · split at hx
    · simp at hx
    · simp only [List.mem_singleton] at hx; subst hx; exact wf_originIgp
  · split at hx
    · simp at hx
    · simp only [List.mem_singleton] at hx; subst hx; exact wf_baseAsPath

theorem findCode_some (c : Nat) (L : List Attribute) (x : Attribute) (h : findCode c L = some x) :
    x ∈ L ∧ x.code = c := by
  unfold findCode at h
  have := List.find?_some h
  exact ⟨List.mem_of_find?_eq_some h, by simpa using this⟩

theorem needVal_ok (c : Nat) (hc : c = 1 ∨ c = 4 ∨ c = 5 ∨ c = 9) (L : List Attribute)
    (h : ∀ x ∈ L, WF x) : needVal c L = .ok () := by
  unfold needVal
  cases hf : findCode c L with
  | none => rfl
  | some x =>
      obtain ⟨hm, hcx⟩ := findCode_some c L x hf
      obtain ⟨v, hv⟩ := wf_val_of_code x (h x hm) (by rw [hcx]; exact hc)
      simp [Attribute.value, hv]

theorem needLen_ok (L : List Attribute) (h : ∀ x ∈ L, WF x) : needLen L = .ok () := by
  unfold needLen
  cases hf : findCode 2 L with
  | none => rfl
  | some x =>
      obtain ⟨hm, hcx⟩ := findCode_some 2 L x hf
      obtain ⟨n, hn⟩ := asPathLength_ok x (h x hm) hcx
      simp [hn]

theorem cmpUse_ok (L : List Attribute) (h : ∀ x ∈ L, WF x) : cmpUse L = .ok () := by
  unfold cmpUse
  simp [needVal_ok 5 (by omega) L h, needLen_ok L h, needVal_ok 1 (by omega) L h,
    needVal_ok 9 (by omega) L h]

theorem polUse_ok (L : List Attribute) (h : ∀ x ∈ L, WF x) : ∃ b, polUse L = .ok b := by
  unfold polUse
  cases hf : findCode 2 L with
  | none => exact ⟨_, rfl⟩
  | some x =>
      obtain ⟨hm, hcx⟩ := findCode_some 2 L x hf
      obtain ⟨n, hn⟩ := asPathLength_ok x (h x hm) hcx
      obtain ⟨a', ha', b, hb⟩ := asPathPrepend_ok x 65000 (h x hm) hcx
      exact ⟨b, by simp [hn, ha', hb]⟩

theorem runAll_ok {α β} (f : α → Out β) (L : List α) (h : ∀ x ∈ L, ∃ b, f x = .ok b) :
    runAll f L = .ok () := by
  induction L with
  | nil => rfl
  | cons x xs ih =>
      obtain ⟨b, hb⟩ := h x (by simp)
      simp only [runAll, hb]
      exact ih (fun y hy => h y (List.mem_cons_of_mem _ hy))

/-- **wf_safe**: a well-formed attribute stored in a path never makes best-path comparison, policy
    evaluation, `as_path_length`/`as_path_origin` or either UPDATE encoder panic. -/
theorem wf_safe (a : Attribute) (h : WF a) : (useOf a).noPanic = true := by
  have hall := pathAttrs_wf a h
  obtain ⟨e, he⟩ := encodeAttr_ok a h
  obtain ⟨p, hp⟩ := polUse_ok _ hall
  have hc := cmpUse_ok _ hall
  have h4 := runAll_ok encodeAttr _ (fun x hx => encodeAttr_ok x (hall x hx))
  have h2 := runAll_ok encode2Use _ (fun x hx => ⟨(), encode2Use_ok x (hall x hx)⟩)
  unfold useOf Use.noPanic
  simp only [he, hp, hc, h4, h2, Out.isPanic]
  by_cases h2c : a.code = 2
  · obtain ⟨n, hn⟩ := asPathLength_ok a h h2c
    obtain ⟨r, hr⟩ := asPathOrigin_ok a h h2c
    simp [h2c, hn, hr, Out.isPanic]
  · simp [h2c]

/-! ## NLRI -/

theorem rd_roundtrip (rd : Rd) (h : rdOk rd = true) : rdFromApi (rdToApi rd) = some rd := by
  cases rd <;> simp [rdOk] at h <;> simp [rdToApi, rdFromApi, AStr.parse4] <;> omega

theorem map_mod_id (ls : List Nat) (h : ∀ l ∈ ls, l < 1048576) : ls.map (· % 1048576) = ls := by
  induction ls with
  | nil => rfl
  | cons x xs ih =>
      simp only [List.map_cons]
      rw [Nat.mod_eq_of_lt (h x (by simp)), ih (fun l hl => h l (List.mem_cons_of_mem _ hl))]

/-- **roundtrip_nlri** -/
theorem roundtrip_nlri (n : Nlri) (h : WFN n) : netFromApi current (nlriToApi n) = .ok n := by
  cases n with
  | v4 a m =>
      simp [WFN, nlriClause] at h
      simp [nlriToApi, netFromApi]; omega
  | v6 a m =>
      simp [WFN, nlriClause] at h
      simp [nlriToApi, netFromApi]; omega
  | lv4 ls a m =>
      simp [WFN, nlriClause, labelsOk] at h
      obtain ⟨h1, h2, ⟨h3, h4⟩, h5⟩ := h
      simp only [nlriToApi, netFromApi, map_mod_id ls h4, current]
      rw [if_neg (by intro hc; obtain ⟨_, hc⟩ := hc; omega), Nat.mod_eq_of_lt (by omega)]
  | lv6 ls a m =>
      simp [WFN, nlriClause, labelsOk] at h
      obtain ⟨h1, h2, ⟨h3, h4⟩, h5⟩ := h
      simp only [nlriToApi, netFromApi, map_mod_id ls h4, current]
      rw [if_neg (by intro hc; obtain ⟨_, hc⟩ := hc; omega), Nat.mod_eq_of_lt (by omega)]
  | vpn4 ls rd a m =>
      simp [WFN, nlriClause, labelsOk] at h
      obtain ⟨h1, h2, ⟨⟨h3, h4⟩, h5⟩, h6⟩ := h
      simp only [nlriToApi, netFromApi, map_mod_id ls h4, current, rd_roundtrip rd h6]
      rw [if_neg (by intro hc; obtain ⟨_, hc⟩ := hc; omega), Nat.mod_eq_of_lt (by omega)]
  | vpn6 ls rd a m =>
      simp [WFN, nlriClause, labelsOk] at h
      obtain ⟨h1, h2, ⟨⟨h3, h4⟩, h5⟩, h6⟩ := h
      simp only [nlriToApi, netFromApi, map_mod_id ls h4, current, rd_roundtrip rd h6]
      rw [if_neg (by intro hc; obtain ⟨_, hc⟩ := hc; omega), Nat.mod_eq_of_lt (by omega)]
theorem pow4 : (256 : Nat) ^ 4 = 2 ^ 32 := by decide
theorem pow16 : (256 : Nat) ^ 16 = 2 ^ 128 := by decide

theorem replicate_allB (n : Nat) : AllB (List.replicate n 0) := by
  intro b hb
  have := List.eq_of_mem_replicate hb
  omega

theorem padAddr_lt (w : Nat) (bs : Bytes) (hb : AllB bs) (hl : bs.length ≤ w) : padAddr w bs < 256 ^ w := by
  unfold padAddr
  have h := ofBe_lt (bs ++ List.replicate (w - bs.length) 0) (AllB.append hb (replicate_allB _))
  have hlen : (bs ++ List.replicate (w - bs.length) 0).length = w := by
    simp only [List.length_append, List.length_replicate]; omega
  rw [hlen] at h
  exact h

theorem ceil8_le (w bits : Nat) (h : bits ≤ w * 8) : ceil8 bits ≤ w := by
  unfold ceil8; omega

theorem decPrefix_ok (w bits : Nat) (bs : Bytes) (a : Nat) (rest : Bytes) (hb : AllB bs)
    (h : decPrefix w bits bs = .ok (a, rest)) : bits ≤ w * 8 ∧ a < 256 ^ w ∧ AllB rest := by
  unfold decPrefix at h
  split at h
  · simp at h
  · rename_i hc
    simp only [Out.ok.injEq, Prod.mk.injEq] at h
    obtain ⟨rfl, rfl⟩ := h
    have hle : bits ≤ w * 8 := by omega
    refine ⟨hle, padAddr_lt w _ (hb.take _) ?_, hb.drop _⟩
    have := ceil8_le w bits hle
    simp only [List.length_take]; omega

theorem label_lt (a b c : Nat) (hb : AllB [a, b, c]) : ofBe [a, b, c] / 16 < 1048576 := by
  have := ofBe_lt [a, b, c] hb
  simp only [List.length_cons, List.length_nil] at this
  omega

theorem decLabels_ok : ∀ (bs : Bytes) (ls : List Nat) (rest : Bytes), AllB bs →
    decLabels bs = some (ls, rest) → labelsOk ls = true ∧ AllB rest
  | [], _, _, _, h => by simp [decLabels] at h
  | [_], _, _, _, h => by simp [decLabels] at h
  | [_, _], _, _, _, h => by simp [decLabels] at h
  | a :: b :: c :: tl, ls, rest, hb, h => by
      have h3 : AllB [a, b, c] := fun x hx => hb x (by
        simp only [List.mem_cons, List.not_mem_nil, or_false] at hx
        rcases hx with h | h | h <;> simp [h])
      have hl := label_lt a b c h3
      have htl : AllB tl := hb.tail.tail.tail
      by_cases hbos : c % 2 = 1
      · simp only [decLabels, hbos, if_true, Option.some.injEq, Prod.mk.injEq] at h
        obtain ⟨rfl, rfl⟩ := h
        refine ⟨?_, htl⟩
        simp only [labelsOk, List.length_singleton, List.all_cons, List.all_nil, Bool.and_true,
          Bool.and_eq_true, decide_eq_true_eq]
        omega
      · simp only [decLabels, hbos, if_false] at h
        cases hd : decLabels tl with
        | none => simp [hd] at h
        | some r =>
            obtain ⟨ls', rest'⟩ := r
            simp only [hd, Option.map_some, Option.some.injEq, Prod.mk.injEq] at h
            obtain ⟨rfl, rfl⟩ := h
            obtain ⟨h1, h2⟩ := decLabels_ok tl ls' rest' htl hd
            refine ⟨?_, h2⟩
            simp only [labelsOk, Bool.and_eq_true, decide_eq_true_eq, List.all_eq_true] at h1 ⊢
            refine ⟨by simp, ?_⟩
            intro x hx
            rcases List.mem_cons.mp hx with rfl | hx
            · omega
            · exact h1.2 x hx
theorem decRd_ok (bs : Bytes) (rd : Rd) (hb : AllB bs) (h : decRd bs = some rd) : rdOk rd = true := by
  unfold decRd at h
  match bs, hb, h with
  | [t0, t1, a, b, c, d, e, f], hb, h =>
      have m : ∀ x ∈ [t0, t1, a, b, c, d, e, f], x < 256 := hb
      have h2 : ∀ x y, x ∈ [t0, t1, a, b, c, d, e, f] → y ∈ [t0, t1, a, b, c, d, e, f] → ofBe [x, y] < 65536 := by
        intro x y hx hy
        have := ofBe_lt [x, y] (fun z hz => by
          simp only [List.mem_cons, List.not_mem_nil, or_false] at hz
          rcases hz with rfl | rfl
          · exact m _ hx
          · exact m _ hy)
        simpa using this
      have h4 : ∀ x y z w, x ∈ [t0, t1, a, b, c, d, e, f] → y ∈ [t0, t1, a, b, c, d, e, f] →
          z ∈ [t0, t1, a, b, c, d, e, f] → w ∈ [t0, t1, a, b, c, d, e, f] → ofBe [x, y, z, w] < 4294967296 := by
        intro x y z w hx hy hz hw
        have := ofBe_lt [x, y, z, w] (fun v hv => by
          simp only [List.mem_cons, List.not_mem_nil, or_false] at hv
          rcases hv with rfl | rfl | rfl | rfl
          · exact m _ hx
          · exact m _ hy
          · exact m _ hz
          · exact m _ hw)
        simpa using this
      simp only at h
      split at h
      · simp only [Option.some.injEq] at h; subst h
        simp only [rdOk, Bool.and_eq_true, decide_eq_true_eq]
        exact ⟨h2 a b (by simp) (by simp), h4 c d e f (by simp) (by simp) (by simp) (by simp)⟩
      · split at h
        · simp only [Option.some.injEq] at h; subst h
          simp only [rdOk, Bool.and_eq_true, decide_eq_true_eq]
          exact ⟨h4 a b c d (by simp) (by simp) (by simp) (by simp), h2 e f (by simp) (by simp)⟩
        · split at h
          · simp only [Option.some.injEq] at h; subst h
            simp only [rdOk, Bool.and_eq_true, decide_eq_true_eq]
            exact ⟨h4 a b c d (by simp) (by simp) (by simp) (by simp), h2 e f (by simp) (by simp)⟩
          · simp at h

/-- label stacks short enough that the `u8` bit arithmetic of labeled.rs does not wrap
    (`(stack.encoded_len() * 8) as u8`; vpn.rs no longer wraps since the C03 repair dd9ba2a) -/
def noWrap : Nlri → Prop
  | .v4 .. => True
  | .v6 .. => True
  | .lv4 ls _ _ => ls.length * 24 < 256
  | .lv6 ls _ _ => ls.length * 24 < 256
  | .vpn4 .. => True
  | .vpn6 .. => True

theorem decodePlain_ok (w : Nat) (bs : Bytes) (a m : Nat) (rest : Bytes) (hb : AllB bs)
    (h : decodePlain w bs = .ok (a, m, rest)) : m ≤ w * 8 ∧ a < 256 ^ w ∧ AllB rest := by
  unfold decodePlain at h
  match bs, hb, h with
  | bits :: tl, hb, h =>
      simp only at h
      cases hp : decPrefix w bits tl with
      | ok r =>
          obtain ⟨a', rest'⟩ := r
          simp only [hp, Out.ok.injEq, Prod.mk.injEq] at h
          obtain ⟨rfl, rfl, rfl⟩ := h
          exact decPrefix_ok w _ tl _ _ hb.tail hp
      | err => simp [hp] at h
      | panic => simp [hp] at h

theorem decodeLabeled_ok (w : Nat) (bs : Bytes) (ls : List Nat) (a m : Nat) (rest : Bytes) (hb : AllB bs)
    (h : decodeLabeled w bs = .ok (ls, a, m, rest)) (hw : ls.length * 24 < 256) :
    m ≤ w * 8 ∧ a < 256 ^ w ∧ labelsOk ls = true ∧ ls.length * 24 + m ≤ 255 ∧ AllB rest := by
  unfold decodeLabeled at h
  match bs, hb, h with
  | total :: tl, hb, h =>
      simp only at h
      split at h
      · simp at h
      · cases hd : decLabels tl with
        | none => simp [hd] at h
        | some r =>
            obtain ⟨ls', rest'⟩ := r
            simp only [hd] at h
            split at h
            · simp at h
            · rename_i hge
              obtain ⟨hl, hr⟩ := decLabels_ok tl ls' rest' hb.tail hd
              cases hp : decPrefix w (total - ls'.length * 24 % 256) rest' with
              | ok r2 =>
                  obtain ⟨a', rest''⟩ := r2
                  simp only [hp, Out.ok.injEq, Prod.mk.injEq] at h
                  obtain ⟨rfl, rfl, rfl, rfl⟩ := h
                  obtain ⟨p1, p2, p3⟩ := decPrefix_ok w _ rest' _ _ hr hp
                  have ht : total < 256 := hb.head
                  have hmod : ls'.length * 24 % 256 = ls'.length * 24 := Nat.mod_eq_of_lt hw
                  refine ⟨p1, p2, hl, ?_, p3⟩
                  rw [hmod] at hge ⊢
                  omega
              | err => simp [hp] at h
              | panic => simp [hp] at h

theorem decodeVpn_ok (w : Nat) (bs : Bytes) (ls : List Nat) (rd : Rd) (a m : Nat) (rest : Bytes)
    (hb : AllB bs) (h : decodeVpn w bs = .ok (ls, rd, a, m, rest)) :
    m ≤ w * 8 ∧ a < 256 ^ w ∧ labelsOk ls = true ∧ ls.length * 24 + 64 + m ≤ 255 ∧ rdOk rd = true ∧
      AllB rest := by
  unfold decodeVpn at h
  match bs, hb, h with
  | total :: tl, hb, h =>
      simp only at h
      split at h
      · simp at h
      · cases hd : decLabels tl with
        | none => simp [hd] at h
        | some r =>
            obtain ⟨ls', rest'⟩ := r
            simp only [hd] at h
            obtain ⟨hl, hr⟩ := decLabels_ok tl ls' rest' hb.tail hd
            split at h
            · simp at h
            · rename_i hge
              split at h
              · simp at h
              · cases hrd : decRd (rest'.take 8) with
                | none => simp [hrd] at h
                | some rd' =>
                    simp only [hrd] at h
                    cases hp : decPrefix w (total - ls'.length * 24 - 64) (rest'.drop 8) with
                    | ok r2 =>
                        obtain ⟨a', rest''⟩ := r2
                        simp only [hp, Out.ok.injEq, Prod.mk.injEq] at h
                        obtain ⟨rfl, rfl, rfl, rfl, rfl⟩ := h
                        obtain ⟨p1, p2, p3⟩ := decPrefix_ok w _ _ _ _ (hr.drop _) hp
                        have ht : total < 256 := hb.head
                        refine ⟨p1, p2, hl, ?_, decRd_ok _ _ (hr.take _) hrd, p3⟩
                        omega
                    | err => simp [hp] at h
                    | panic => simp [hp] at h

/-- **decode_wf (NLRI)**: a prefix produced by the wire decoders satisfies `WFN`
    (as long as the label stack does not wrap the one-octet bit count, S7). -/
theorem decodeOne_wf (f : Fam) (bs : Bytes) (n : Nlri) (rest : Bytes) (hb : AllB bs)
    (h : decodeOne f bs = .ok (n, rest)) (hw : noWrap n) : WFN n ∧ AllB rest := by
  cases f with
  | v4 =>
      simp only [decodeOne] at h
      cases hd : decodePlain 4 bs with
      | ok r =>
          obtain ⟨a, m, rest'⟩ := r
          simp only [hd, Out.map_ok, Out.ok.injEq, Prod.mk.injEq] at h
          obtain ⟨rfl, rfl⟩ := h
          obtain ⟨h1, h2, h3⟩ := decodePlain_ok 4 bs a m rest' hb hd
          rw [pow4] at h2
          exact ⟨by simp [WFN, nlriClause]; omega, h3⟩
      | err => simp [hd, Out.map] at h
      | panic => simp [hd, Out.map] at h
  | v6 =>
      simp only [decodeOne] at h
      cases hd : decodePlain 16 bs with
      | ok r =>
          obtain ⟨a, m, rest'⟩ := r
          simp only [hd, Out.map_ok, Out.ok.injEq, Prod.mk.injEq] at h
          obtain ⟨rfl, rfl⟩ := h
          obtain ⟨h1, h2, h3⟩ := decodePlain_ok 16 bs a m rest' hb hd
          rw [pow16] at h2
          exact ⟨by simp [WFN, nlriClause]; omega, h3⟩
      | err => simp [hd, Out.map] at h
      | panic => simp [hd, Out.map] at h
  | lv4 =>
      simp only [decodeOne] at h
      cases hd : decodeLabeled 4 bs with
      | ok r =>
          obtain ⟨ls, a, m, rest'⟩ := r
          simp only [hd, Out.map_ok, Out.ok.injEq, Prod.mk.injEq] at h
          obtain ⟨rfl, rfl⟩ := h
          obtain ⟨h1, h2, h3, h4, h5⟩ := decodeLabeled_ok 4 bs ls a m rest' hb hd hw
          rw [pow4] at h2
          exact ⟨by simp [WFN, nlriClause, h3]; omega, h5⟩
      | err => simp [hd, Out.map] at h
      | panic => simp [hd, Out.map] at h
  | lv6 =>
      simp only [decodeOne] at h
      cases hd : decodeLabeled 16 bs with
      | ok r =>
          obtain ⟨ls, a, m, rest'⟩ := r
          simp only [hd, Out.map_ok, Out.ok.injEq, Prod.mk.injEq] at h
          obtain ⟨rfl, rfl⟩ := h
          obtain ⟨h1, h2, h3, h4, h5⟩ := decodeLabeled_ok 16 bs ls a m rest' hb hd hw
          rw [pow16] at h2
          exact ⟨by simp [WFN, nlriClause, h3]; omega, h5⟩
      | err => simp [hd, Out.map] at h
      | panic => simp [hd, Out.map] at h
  | vpn4 =>
      simp only [decodeOne] at h
      cases hd : decodeVpn 4 bs with
      | ok r =>
          obtain ⟨ls, rd, a, m, rest'⟩ := r
          simp only [hd, Out.map_ok, Out.ok.injEq, Prod.mk.injEq] at h
          obtain ⟨rfl, rfl⟩ := h
          obtain ⟨h1, h2, h3, h4, h5, h6⟩ := decodeVpn_ok 4 bs ls rd a m rest' hb hd
          rw [pow4] at h2
          exact ⟨by simp [WFN, nlriClause, h3, h5]; omega, h6⟩
      | err => simp [hd, Out.map] at h
      | panic => simp [hd, Out.map] at h
  | vpn6 =>
      simp only [decodeOne] at h
      cases hd : decodeVpn 16 bs with
      | ok r =>
          obtain ⟨ls, rd, a, m, rest'⟩ := r
          simp only [hd, Out.map_ok, Out.ok.injEq, Prod.mk.injEq] at h
          obtain ⟨rfl, rfl⟩ := h
          obtain ⟨h1, h2, h3, h4, h5, h6⟩ := decodeVpn_ok 16 bs ls rd a m rest' hb hd
          rw [pow16] at h2
          exact ⟨by simp [WFN, nlriClause, h3, h5]; omega, h6⟩
      | err => simp [hd, Out.map] at h
      | panic => simp [hd, Out.map] at h
theorem rdFromApi_ok (r : ApiRd) (rd : Rd) (hr : r.inRange = true) (h : rdFromApi r = some rd) :
    rdOk rd = true := by
  cases r with
  | missing => simp [rdFromApi] at h
  | twoOctet a b =>
      simp only [rdFromApi] at h
      split at h
      · simp at h
      · simp only [Option.some.injEq] at h; subst h
        simp only [ApiRd.inRange, u32, Bool.and_eq_true, decide_eq_true_eq] at hr
        simp only [rdOk, Bool.and_eq_true, decide_eq_true_eq]; omega
  | ip4 a b =>
      cases a with
      | ip4 n =>
          simp only [rdFromApi, AStr.parse4] at h
          split at h
          · simp at h
          · simp only [Option.some.injEq] at h; subst h
            simp only [ApiRd.inRange, AStr.inRange, u32, Bool.and_eq_true, decide_eq_true_eq] at hr
            simp only [rdOk, Bool.and_eq_true, decide_eq_true_eq]; omega
      | ip6 n => simp [rdFromApi, AStr.parse4] at h
      | bad k => simp [rdFromApi, AStr.parse4] at h
  | fourOctet a b =>
      simp only [rdFromApi] at h
      split at h
      · simp at h
      · simp only [Option.some.injEq] at h; subst h
        simp only [ApiRd.inRange, u32, Bool.and_eq_true, decide_eq_true_eq] at hr
        simp only [rdOk, Bool.and_eq_true, decide_eq_true_eq]; omega

theorem labels_mod_ok (labels : List Nat) (h : (labels.map (· % 1048576)).length ≠ 0) :
    labelsOk (labels.map (· % 1048576)) = true := by
  simp only [labelsOk, Bool.and_eq_true, decide_eq_true_eq, List.all_eq_true]
  refine ⟨by omega, ?_⟩
  intro x hx
  rcases List.mem_map.mp hx with ⟨y, _, rfl⟩
  exact Nat.mod_lt _ (by omega)

/-- **from_api_wf (NLRI)**: whatever `net_from_api` accepts (modelled kinds) satisfies `WFN`. -/
theorem nlri_from_api_wf (x : ApiNlri) (n : Nlri) (hr : x.inRange = true)
    (h : netFromApi current x = .ok n) : WFN n := by
  cases x with
  | missing => simp [netFromApi] at h
  | other => simp [netFromApi] at h
  | «prefix» s len =>
      cases s with
      | ip4 a =>
          simp only [netFromApi] at h
          split at h
          · simp at h
          · simp only [Out.ok.injEq] at h; subst h
            simp only [ApiNlri.inRange, AStr.inRange, u32, Bool.and_eq_true, decide_eq_true_eq] at hr
            simp [WFN, nlriClause]; omega
      | ip6 a =>
          simp only [netFromApi] at h
          split at h
          · simp at h
          · simp only [Out.ok.injEq] at h; subst h
            simp only [ApiNlri.inRange, AStr.inRange, u32, Bool.and_eq_true, decide_eq_true_eq] at hr
            simp [WFN, nlriClause]; omega
      | bad k => simp [netFromApi] at h
  | labeled labels len s =>
      cases s with
      | bad k => simp [netFromApi] at h
      | ip4 a =>
          simp only [netFromApi, current, true_and] at h
          split at h
          · simp at h
          · rename_i hc
            simp only [Out.ok.injEq] at h; subst h
            simp only [ApiNlri.inRange, AStr.inRange, u32, Bool.and_eq_true, decide_eq_true_eq] at hr
            have hm : len % 256 = len := Nat.mod_eq_of_lt (by omega)
            have hl := labels_mod_ok labels (by omega)
            simp only [WFN, nlriClause, hm, hl, need_eq_none, Bool.and_eq_true, decide_eq_true_eq,
              Bool.true_and, and_true]
            omega
      | ip6 a =>
          simp only [netFromApi, current, true_and] at h
          split at h
          · simp at h
          · rename_i hc
            simp only [Out.ok.injEq] at h; subst h
            simp only [ApiNlri.inRange, AStr.inRange, u32, Bool.and_eq_true, decide_eq_true_eq] at hr
            have hm : len % 256 = len := Nat.mod_eq_of_lt (by omega)
            have hl := labels_mod_ok labels (by omega)
            simp only [WFN, nlriClause, hm, hl, need_eq_none, Bool.and_eq_true, decide_eq_true_eq,
              Bool.true_and, and_true]
            omega
  | vpn labels rd len s =>
      simp only [netFromApi] at h
      cases rd with
      | none => simp at h
      | some r =>
          simp only at h
          cases hrd : rdFromApi r with
          | none => simp [hrd] at h
          | some rd' =>
              simp only [hrd] at h
              simp only [ApiNlri.inRange, u32, Bool.and_eq_true, decide_eq_true_eq] at hr
              have hrdok := rdFromApi_ok r rd' hr.1.1.2 hrd
              cases s with
              | bad k => simp at h
              | ip4 a =>
                  simp only [current, true_and] at h
                  split at h
                  · simp at h
                  · rename_i hc
                    simp only [Out.ok.injEq] at h; subst h
                    have ha := hr.2
                    simp only [AStr.inRange, u32, decide_eq_true_eq] at ha
                    have hm : len % 256 = len := Nat.mod_eq_of_lt (by omega)
                    have hl := labels_mod_ok labels (by omega)
                    simp only [WFN, nlriClause, hm, hl, hrdok, need_eq_none, Bool.and_eq_true,
                      decide_eq_true_eq, Bool.true_and, and_true]
                    omega
              | ip6 a =>
                  simp only [current, true_and] at h
                  split at h
                  · simp at h
                  · rename_i hc
                    simp only [Out.ok.injEq] at h; subst h
                    have ha := hr.2
                    simp only [AStr.inRange, decide_eq_true_eq] at ha
                    have hm : len % 256 = len := Nat.mod_eq_of_lt (by omega)
                    have hl := labels_mod_ok labels (by omega)
                    simp only [WFN, nlriClause, hm, hl, hrdok, need_eq_none, Bool.and_eq_true,
                      decide_eq_true_eq, Bool.true_and, and_true]
                    omega

/-- **wf_safe_encode (NLRI)**: `Nlri::encode` of a well-formed prefix does not panic. -/
theorem nlri_encode_ok (n : Nlri) (h : WFN n) : ∃ b, encodeNlri n = .ok b := by
  cases n with
  | v4 a m =>
      simp [WFN, nlriClause] at h
      have : ¬ ceil8 m > 4 := by unfold ceil8; omega
      simp [encodeNlri, encPrefix, this]
  | v6 a m =>
      simp [WFN, nlriClause] at h
      have : ¬ ceil8 m > 16 := by unfold ceil8; omega
      simp [encodeNlri, encPrefix, this]
  | lv4 ls a m =>
      simp [WFN, nlriClause] at h
      have : ¬ ceil8 m > 4 := by unfold ceil8; omega
      have h2 : ¬ (ls.length * 24 % 256 + m > 255) := by
        have := Nat.mod_le (ls.length * 24) 256; omega
      simp [encodeNlri, encPrefix, addU8, this, h2]
  | lv6 ls a m =>
      simp [WFN, nlriClause] at h
      have : ¬ ceil8 m > 16 := by unfold ceil8; omega
      have h2 : ¬ (ls.length * 24 % 256 + m > 255) := by
        have := Nat.mod_le (ls.length * 24) 256; omega
      simp [encodeNlri, encPrefix, addU8, this, h2]
  | vpn4 ls rd a m =>
      simp [WFN, nlriClause] at h
      have : ¬ ceil8 m > 4 := by unfold ceil8; omega
      have hle := Nat.mod_le (ls.length * 24) 256
      have h2 : ¬ (ls.length * 24 % 256 + 64 > 255) := by omega
      have h3 : ¬ (ls.length * 24 % 256 + 64 + m > 255) := by omega
      simp [encodeNlri, encPrefix, addU8, this, h2, h3]
  | vpn6 ls rd a m =>
      simp [WFN, nlriClause] at h
      have : ¬ ceil8 m > 16 := by unfold ceil8; omega
      have hle := Nat.mod_le (ls.length * 24) 256
      have h2 : ¬ (ls.length * 24 % 256 + 64 > 255) := by omega
      have h3 : ¬ (ls.length * 24 % 256 + 64 + m > 255) := by omega
      simp [encodeNlri, encPrefix, addU8, this, h2, h3]

/-! ## the reference checker accepts every run of the model -/

theorem crashed_none (u : Use) (h : u.noPanic = true) : crashed u = none := by
  obtain ⟨len, origin, enc, cmp, pol, m4, m2⟩ := u
  simp only [Use.noPanic, Bool.and_eq_true, Bool.not_eq_true'] at h
  obtain ⟨⟨⟨⟨⟨⟨h1, h2⟩, h3⟩, h4⟩, h5⟩, h6⟩, h7⟩ := h
  have e3 : enc ≠ .panic := by cases enc <;> simp [Out.isPanic] at h3 ⊢
  have e4 : cmp ≠ .panic := by cases cmp <;> simp [Out.isPanic] at h4 ⊢
  have e5 : pol ≠ .panic := by cases pol <;> simp [Out.isPanic] at h5 ⊢
  have e6 : m4 ≠ .panic := by cases m4 <;> simp [Out.isPanic] at h6 ⊢
  have e7 : m2 ≠ .panic := by cases m2 <;> simp [Out.isPanic] at h7 ⊢
  unfold crashed
  rcases len with _ | (_ | _ | _) <;> rcases origin with _ | (_ | _ | _) <;>
    simp_all [Out.isPanic]

/-- a value that is well-formed, round-trips and is stored in the model's observation passes `checkAttr` -/
theorem checkAttr_ok (stream : String) (a : Attribute) (hwf : WF a) (hrt : RT current a) :
    checkAttr stream (attrObs current a) = .ok := by
  obtain ⟨x, hx1, hx2⟩ := hrt
  have hc := crashed_none (useOf a) (wf_safe a hwf)
  simp only [checkAttr, attrObs, hx1, hx2]
  simp only [WF] at hwf
  simp [hwf, seq, roundTrip, hc]

theorem rt_nexthop (b : Bytes) (hb : AllB b) (hl : b.length = 4 ∨ b.length = 16) :
    RT current ⟨3, 0x40, .bin b⟩ := by
  rcases hl with hl | hl
  · refine ⟨.nextHop (.ip4 (ofBe (b.take 4))), by simp [toApi, Attribute.binary, hl], ?_⟩
    have e : beN 4 (ofBe (b.take 4)) = b := by
      rw [List.take_of_length_le (by omega)]; exact beN_ofBe' 4 b hl hb
    simp [fromApi, AStr.parse4, e, newWithBin, canonicalFlags]
  · refine ⟨.nextHop (.ip6 (ofBe b)), by simp [toApi, Attribute.binary, hl], ?_⟩
    have e : beN 16 (ofBe b) = b := beN_ofBe' 16 b hl hb
    simp [fromApi, AStr.parse4, AStr.parse6, e, newWithBin, canonicalFlags]

/-- codes `attr_from_api` can produce, and the shape of an accepted NEXT_HOP -/
theorem from_api_code (x : ApiAttr) (a : Attribute) (h : fromApi current x = .ok a) :
    a.code ≠ 17 ∧ a.code ≠ 18 ∧
      (a.code = 3 → ∃ b, a = ⟨3, 0x40, .bin b⟩ ∧ AllB b ∧ (b.length = 4 ∨ b.length = 16)) := by
  cases x with
  | missing => simp [fromApi] at h
  | other => simp [fromApi] at h
  | origin o =>
      simp only [fromApi] at h
      split at h
      · simp at h
      · simp [newWithValue, canonicalFlags] at h; subst h; simp
  | med m => simp [fromApi, newWithValue, canonicalFlags] at h; subst h; simp
  | localPref m => simp [fromApi, newWithValue, canonicalFlags] at h; subst h; simp
  | atomicAggregate => simp [fromApi, newWithBin, canonicalFlags] at h; subst h; simp
  | nextHop s =>
      simp only [fromApi, current] at h
      cases s with
      | ip4 n =>
          simp [AStr.parse4, newWithBin, canonicalFlags] at h; subst h
          exact ⟨by simp, by simp, fun _ => ⟨_, rfl, beN_lt 4 n, Or.inl (beN_length 4 n)⟩⟩
      | ip6 n =>
          simp [AStr.parse4, AStr.parse6, newWithBin, canonicalFlags] at h; subst h
          exact ⟨by simp, by simp, fun _ => ⟨_, rfl, beN_lt 16 n, Or.inr (beN_length 16 n)⟩⟩
      | bad k => simp [AStr.parse4, AStr.parse6] at h
  | aggregator asn addr =>
      simp only [fromApi] at h
      cases addr with
      | ip4 n => simp [AStr.parse4, newWithBin, canonicalFlags] at h; subst h; simp
      | ip6 n => simp [AStr.parse4] at h
      | bad k => simp [AStr.parse4] at h
  | communities l => simp [fromApi, newWithBin, canonicalFlags] at h; subst h; simp
  | originatorId s =>
      simp only [fromApi] at h
      cases s with
      | ip4 n => simp [AStr.parse4, newWithValue, canonicalFlags] at h; subst h; simp
      | ip6 n => simp [AStr.parse4] at h
      | bad k => simp [AStr.parse4] at h
  | clusterList ids =>
      simp only [fromApi] at h
      split at h
      · simp at h
      · simp [newWithBin, canonicalFlags] at h; subst h; simp
  | largeCommunities l => simp [fromApi, newWithBin, canonicalFlags] at h; subst h; simp
  | extCommunities l =>
      simp only [fromApi] at h
      split at h
      · simp at h
      · simp [newWithBin, canonicalFlags] at h; subst h; simp
  | asPath segs =>
      simp only [fromApi] at h
      split at h
      · simp at h
      · simp [newWithBin, canonicalFlags] at h; subst h; simp
  | unknown f t v =>
      simp only [fromApi, current, if_true] at h
      split at h
      · simp at h
      · rename_i hlt
        have ht : t % 256 = t := Nat.mod_eq_of_lt (by omega)
        rw [ht] at h
        split at h
        · split at h
          · simp at h
          · rename_i hty
            simp only [typedCode, decide_eq_true_eq, not_or] at hty
            obtain ⟨n1, n2, n3, n4, n5, n6, n7, n8, n9, n10, n16, n32, n23, n29, n17, n18⟩ := hty
            split at h
            · simp at h
            · simp only [Out.ok.injEq] at h; subst h
              exact ⟨n17, n18, fun h3 => absurd h3 n3⟩
        · rename_i hcan
          split at h
          · simp only [Out.ok.injEq] at h; subst h
            refine ⟨?_, ?_, ?_⟩ <;> (intro h3; simp only at h3; subst h3; simp [canonicalFlags] at hcan)
          · simp at h
theorem from_api_rt (x : ApiAttr) (a : Attribute) (hr : x.inRange = true)
    (h : fromApi current x = .ok a) (hm : modelledCode a.code = true) : WF a ∧ RT current a := by
  obtain ⟨hwf, hfc⟩ := from_api_wf x a hr h
  obtain ⟨n17, n18, h3⟩ := from_api_code x a h
  refine ⟨hwf, ?_⟩
  by_cases hc3 : a.code = 3
  · obtain ⟨b, rfl, hb, hl⟩ := h3 hc3
    exact rt_nexthop b hb hl
  · exact roundtrip_attr a hwf hm ⟨hc3, n17, n18⟩ hfc

theorem checkNlri_ok (stream : String) (n : Nlri) (h : WFN n) :
    checkNlri stream (nlriObs current n) = .ok := by
  obtain ⟨b, hb⟩ := nlri_encode_ok n h
  have hrt := roundtrip_nlri n h
  simp only [WFN] at h
  simp [checkNlri, nlriObs, h, hrt, hb, seq]

theorem checkAll_ok (stream : String) (l : List Nlri) (h : ∀ n ∈ l, WFN n) :
    checkAll stream (l.map (nlriObs current)) = .ok := by
  induction l with
  | nil => rfl
  | cons n ns ih =>
      simp only [List.map_cons, checkAll, checkNlri_ok stream n (h n (by simp)), seq]
      exact ih (fun m hm => h m (List.mem_cons_of_mem _ hm))

theorem decodeList_wf (f : Fam) (fuel : Nat) (bs : Bytes) (l : List Nlri) (hb : AllB bs)
    (h : decodeList f fuel bs = .ok l) (hw : ∀ n ∈ l, noWrap n) : ∀ n ∈ l, WFN n := by
  induction fuel generalizing bs l with
  | zero =>
      cases bs with
      | nil => simp [decodeList] at h; subst h; simp
      | cons b tl => simp [decodeList] at h
  | succ fuel ih =>
      cases bs with
      | nil => simp [decodeList] at h; subst h; simp
      | cons b tl =>
          simp only [decodeList] at h
          cases hd : decodeOne f (b :: tl) with
          | ok r =>
              obtain ⟨n, rest⟩ := r
              simp only [hd] at h
              cases hl : decodeList f fuel rest with
              | ok l' =>
                  simp only [hl, Out.map_ok, Out.ok.injEq] at h; subst h
                  obtain ⟨hwf, hrest⟩ := decodeOne_wf f (b :: tl) n rest hb hd (hw n (by simp))
                  intro m hm
                  rcases List.mem_cons.mp hm with rfl | hm
                  · exact hwf
                  · exact ih rest l' hrest hl (fun k hk => hw k (List.mem_cons_of_mem _ hk)) m hm
              | err => simp [hl, Out.map] at h
              | panic => simp [hl, Out.map] at h
          | err => simp [hd] at h
          | panic => simp [hd] at h

/-- `attr_from_api` never panics (every fallible step is an `Err`) -/
theorem fromApi_no_panic (x : ApiAttr) : fromApi current x ≠ .panic := by
  intro hf
  cases x <;> simp [fromApi, newWithBin, newWithValue, canonicalFlags] at hf <;>
    (repeat' (split at hf)) <;> simp_all

/-- `net_from_api` never panics (modelled kinds) -/
theorem netFromApi_no_panic (x : ApiNlri) : netFromApi current x ≠ .panic := by
  intro hf
  cases x <;> simp [netFromApi] at hf <;> (repeat' (split at hf)) <;> simp_all

theorem decPrefix_no_panic (w bits : Nat) (bs : Bytes) : decPrefix w bits bs ≠ .panic := by
  unfold decPrefix; split <;> simp

theorem decodePlain_no_panic (w : Nat) (bs : Bytes) : decodePlain w bs ≠ .panic := by
  unfold decodePlain
  cases bs with
  | nil => simp
  | cons b tl =>
      simp only
      cases hp : decPrefix w b tl with
      | ok r => obtain ⟨a, r'⟩ := r; simp
      | err => simp
      | panic => exact absurd hp (decPrefix_no_panic _ _ _)

theorem decodeLabeled_no_panic (w : Nat) (bs : Bytes) : decodeLabeled w bs ≠ .panic := by
  unfold decodeLabeled
  cases bs with
  | nil => simp
  | cons total tl =>
      simp only
      split
      · simp
      · cases hd : decLabels tl with
        | none => simp
        | some r =>
            obtain ⟨ls, rest'⟩ := r
            simp only
            split
            · simp
            · cases hp : decPrefix w (total - ls.length * 24 % 256) rest' with
              | ok r => obtain ⟨a, r'⟩ := r; simp
              | err => simp
              | panic => exact absurd hp (decPrefix_no_panic _ _ _)

theorem decodeVpn_no_panic (w : Nat) (bs : Bytes) : decodeVpn w bs ≠ .panic := by
  unfold decodeVpn
  cases bs with
  | nil => simp
  | cons total tl =>
      simp only
      split
      · simp
      · cases hd : decLabels tl with
        | none => simp
        | some r =>
            obtain ⟨ls, rest'⟩ := r
            simp only
            split
            · simp
            · split
              · simp
              · cases hrd : decRd (rest'.take 8) with
                | none => simp
                | some rd =>
                    simp only
                    cases hp : decPrefix w (total - ls.length * 24 - 64) (rest'.drop 8) with
                    | ok r => obtain ⟨a, r'⟩ := r; simp
                    | err => simp
                    | panic => exact absurd hp (decPrefix_no_panic _ _ _)

theorem map_no_panic {α β} (f : α → β) (o : Out α) (h : o ≠ .panic) : o.map f ≠ .panic := by
  cases o <;> simp [Out.map] at h ⊢

theorem decodeOne_no_panic (f : Fam) (bs : Bytes) : decodeOne f bs ≠ .panic := by
  cases f <;> simp only [decodeOne]
  · exact map_no_panic _ _ (decodePlain_no_panic 4 bs)
  · exact map_no_panic _ _ (decodePlain_no_panic 16 bs)
  · exact map_no_panic _ _ (decodeLabeled_no_panic 4 bs)
  · exact map_no_panic _ _ (decodeLabeled_no_panic 16 bs)
  · exact map_no_panic _ _ (decodeVpn_no_panic 4 bs)
  · exact map_no_panic _ _ (decodeVpn_no_panic 16 bs)

theorem decodeList_no_panic (f : Fam) (fuel : Nat) (bs : Bytes) : decodeList f fuel bs ≠ .panic := by
  induction fuel generalizing bs with
  | zero => cases bs <;> simp [decodeList]
  | succ fuel ih =>
      cases bs with
      | nil => simp [decodeList]
      | cons b tl =>
          simp only [decodeList]
          cases hd : decodeOne f (b :: tl) with
          | ok r =>
              obtain ⟨n, rest⟩ := r
              simp only
              exact map_no_panic _ _ (ih rest)
          | err => simp
          | panic => exact absurd hd (decodeOne_no_panic _ _)

/-- inputs on which the property is claimed for the code as it is now.
    * `attrWire`: the flags byte is the RFC one for the code.  Any other flags byte (PARTIAL, EXTENDED
      LENGTH on a short value, unused low bits) is stored verbatim by the decoder but not carried by the
      API — the open finding `roundtrip-flags-differ`, see `Props.flags_not_carried`.
    * `nlriWire`: a labeled-unicast label stack does not wrap the one-octet bit arithmetic of labeled.rs
      (`(encoded_len * 8) as u8`, 11 labels or more; S7, owned by C03/C04). -/
def caseOk : Case → Prop
  | .attrWire code flags _ => ∀ f, canonicalFlags code = some f → flags = f
  | .attrApi x => x.inRange = true
  | .nlriWire f bs =>
      AllB bs ∧ ∀ l, decodeList f bs.length bs = .ok l → ∀ n ∈ l, noWrap n
  | .nlriApi x => x.inRange = true
  | .explore _ => True

/-- **master theorem**: the reference checker written from the property text accepts every run of the
    model of the current code. -/
theorem check_run_ok (c : Case) (h : caseOk c) : Spec.check c (run current c) = .ok := by
  cases c with
  | attrWire code flags bs =>
      simp only [run]
      cases hok : wireCaseOk code flags bs with
      | false => rfl
      | true =>
        simp only [Bool.not_true, Bool.false_eq_true, if_false]
        simp only [wireCaseOk, Bool.and_eq_true, decide_eq_true_eq, List.all_eq_true, Bool.or_eq_true] at hok
        obtain ⟨⟨⟨⟨⟨⟨⟨hm, _⟩, _⟩, hc⟩, hf⟩, hb⟩, _⟩, _⟩ := hok
        cases hd : decodeAttr code flags bs with
        | stored a =>
            obtain ⟨hwf, hcode, hflags, hs⟩ := decode_wf code flags bs a hc hf hb hd
            have hfc : flagsCanon a := by
              intro f hf'; rw [hcode] at hf'; rw [hflags]; exact h f hf'
            have hrt := roundtrip_attr a hwf (by rw [hcode]; exact hm) (by rw [hcode]; omega) hfc
            exact checkAttr_ok "decoded" a hwf hrt
        | rejected => rfl
        | dropped => rfl
  | attrApi x =>
      simp only [run]
      cases hf : fromApi current x with
      | ok a =>
          simp only
          split
          · rename_i hm
            obtain ⟨hwf, hrt⟩ := from_api_rt x a h hf hm
            exact checkAttr_ok "accepted" a hwf hrt
          · rfl
      | err => rfl
      | panic => exact absurd hf (fromApi_no_panic x)
  | nlriWire f bs =>
      obtain ⟨hb, hw⟩ := h
      simp only [run]
      split
      · rfl
      · cases hd : decodeList f bs.length bs with
        | ok l =>
            simp only
            split
            · rfl
            · exact checkAll_ok "decoded" l (decodeList_wf f _ bs l hb hd (hw l hd))
        | err => rfl
        | panic => exact absurd hd (decodeList_no_panic _ _ _)
  | nlriApi x =>
      simp only [run]
      cases hf : netFromApi current x with
      | ok n =>
          have hwf := nlri_from_api_wf x n h hf
          simp only [Spec.check, List.map_cons, List.map_nil, checkAll, checkNlri_ok "accepted" n hwf, seq]
      | err => rfl
      | panic => exact absurd hf (netFromApi_no_panic x)
  | explore k => rfl

end Rbgp.Api
