/-
  Rbgp.Api.Spec — C17 written from the property text as a reference checker over observations.

  "Every attribute and NLRI the daemon can hold converts to its API form and back to an identical value
   [...].  Conversion from API input never panics, and any value it accepts satisfies the same structural
   invariants as values accepted from the wire (valid ORIGIN, well-formed AS_PATH segments,
   length-multiple communities), so it cannot later crash best-path selection, policy evaluation or
   encoding."

  Imports the model for its *types* (cases, observations); calls no model function.
-/
import Rbgp.Api.Model
namespace Rbgp.Api.Spec
open Rbgp.Api

inductive Verdict where
  | ok
  | fail (clause : String)
  deriving DecidableEq, Repr

/-! ## the structural invariants of a stored attribute (RFC 4271 §4.3/§5, 1997, 4360, 4456, 8092, 6793) -/

/-- attribute class by type code: 1 = well-known (transitive), 2 = optional non-transitive,
    3 = optional transitive; `none` = a code this speaker does not recognise -/
def classOf (code : Nat) : Option Nat :=
  if code ∈ [1, 2, 3, 5, 6] then some 1
  else if code ∈ [4, 9, 10, 14, 15, 26, 29] then some 2
  else if code ∈ [7, 8, 16, 17, 18, 23, 32, 40] then some 3
  else none

/-- AS_PATH value: a sequence of segments (type 1..4, non-zero count, count four-octet AS numbers;
    RFC 4271 §4.3, RFC 7606 §7.2) -/
def segments : Bytes → Bool
  | [] => true
  | [_] => false
  | t :: n :: rest =>
      if 1 ≤ t ∧ t ≤ 4 ∧ n ≠ 0 ∧ n * 4 ≤ rest.length then segments (rest.drop (n * 4)) else false
termination_by bs => bs.length
decreasing_by simp only [List.length_drop, List.length_cons]; omega

def segmentsNonEmpty : Bytes → Bool
  | [] => true
  | [_] => false
  | t :: n :: rest =>
      if 1 ≤ t ∧ t ≤ 4 ∧ n ≠ 0 ∧ n * 4 ≤ rest.length then segmentsNonEmpty (rest.drop (n * 4)) else false
termination_by bs => bs.length
decreasing_by simp only [List.length_drop, List.length_cons]; omega

/-- AIGP value (RFC 7311 §3): TLVs with a 1-octet type and a 2-octet length counting the whole TLV -/
def aigpTlvs : Bytes → Bool
  | [] => true
  | [_] => false
  | [_, _] => false
  | _ :: l1 :: l2 :: rest =>
      if 3 ≤ l1 * 256 + l2 ∧ l1 * 256 + l2 ≤ rest.length + 3 then aigpTlvs (rest.drop (l1 * 256 + l2 - 3))
      else false
termination_by bs => bs.length
decreasing_by simp only [List.length_drop, List.length_cons]; omega

/-- octets, and no more of them than one UPDATE can carry in one attribute: 65535 (RFC 8654 maximum
    message) - 19 header - 2 - 2 length fields - 4 attribute header -/
def isBytes (bs : Bytes) : Bool := bs.all (· < 256) && bs.length ≤ 65508

/-- `need c clause rest`: the invariant `c` must hold (else the violation is named `clause`), then `rest` -/
def need (c : Bool) (clause : String) (rest : Option String) : Option String :=
  if c then rest else some clause

/-- flag class of a recognised attribute: OPTIONAL bit and TRANSITIVE bit as the RFC table says -/
def flagsOk (cls flags : Nat) : Bool :=
  (flags / 128 % 2 == (if cls = 1 then 0 else 1)) && (flags / 64 % 2 == (if cls = 2 then 0 else 1))

/-- invariants of the value of a recognised attribute held as raw bytes -/
def binClause (code : Nat) (bs : Bytes) : Option String :=
  need (isBytes bs) "not-bytes" <|
    if code = 1 ∨ code = 4 ∨ code = 5 ∨ code = 9 then some "wrong-value-kind"
    else if code = 2 then need (segments bs) "bad-as-path" none
    else if code = 6 then need (bs.length == 0) "bad-length" none
    else if code = 7 then need (bs.length == 8) "bad-length" none
    else if code = 8 ∨ code = 10 then need (bs.length % 4 == 0) "bad-length" none
    else if code = 16 then need (bs.length % 8 == 0) "bad-length" none
    else if code = 32 then need (bs.length % 12 == 0) "bad-length" none
    else if code = 17 then
      need (bs.length % 2 == 0 && decide (6 ≤ bs.length) && segmentsNonEmpty bs) "bad-as4-path" none
    else if code = 18 then need (bs.length == 8) "bad-length" none
    -- NEXT_HOP is never stored from the wire (the UPDATE parser consumes it); the API carries an IPv4 or
    -- (for IPv6 families) an IPv6 next hop in it, which `local_path` takes out again
    else if code = 3 then need (bs.length == 4 || bs.length == 16) "bad-length" none
    else if code = 26 then need (aigpTlvs bs) "bad-aigp" none
    else none

/-- invariants of a recognised attribute held as a number -/
def valClause (code v : Nat) : Option String :=
  if code = 1 then need (decide (v ≤ 2)) "origin-out-of-range" none
  else if code = 4 ∨ code = 5 ∨ code = 9 then need (decide (v < 4294967296)) "value-out-of-range" none
  else some "wrong-value-kind"

/-- `none` = the attribute satisfies every invariant the wire decoder enforces; otherwise the
    (stable) name of the first violated one -/
def wfClause (a : Attribute) : Option String :=
  need (decide (a.code < 256) && decide (a.flags < 256)) "code-or-flags-out-of-range" <|
    match classOf a.code with
    | none =>
        -- unrecognised: only optional transitive ones are kept, as an opaque value
        match a.data with
        | .raw bs =>
            need (a.flags / 128 % 2 == 1 && a.flags / 64 % 2 == 1 && isBytes bs)
              "unrecognised-attribute-not-optional-transitive" none
        | _ => some "unrecognised-attribute-not-opaque"
    | some cls =>
        need (flagsOk cls a.flags) "flag-class-wrong" <|
          match a.data with
          | .raw _ => some "recognised-attribute-opaque"
          | .val v => valClause a.code v
          | .bin bs => binClause a.code bs

def WF (a : Attribute) : Prop := wfClause a = none
instance (a : Attribute) : Decidable (WF a) := by unfold WF; infer_instance

/-! ## NLRI invariants -/

def rdOk : Rd → Bool
  | .twoOctet a b => a < 65536 && b < 4294967296
  | .ip4 a b => a < 4294967296 && b < 65536
  | .fourOctet a b => a < 4294967296 && b < 65536

def labelsOk (ls : List Nat) : Bool := ls.length ≥ 1 && ls.all (· < 1048576)

/-- the octets of a `w`-octet address after the `ceil(m/8)` significant ones are zero (the wire carries
    only the significant octets; bits inside the last one are not checked by the decoder) -/
def hostOctetsZero (w a m : Nat) : Bool := a % 2 ^ ((w - (m + 7) / 8) * 8) = 0

/-- prefix length within the address width, address fits and has no octet beyond the prefix, label stack
    non-empty and the one-octet NLRI length field can hold labels + RD + prefix -/
def prefixClause (w a m : Nat) (rest : Option String) : Option String :=
  need (decide (m ≤ w * 8)) "bad-prefix-length" <| need (decide (a < 2 ^ (w * 8))) "bad-address" <|
  need (hostOctetsZero w a m) "host-octets-set" rest

def nlriClause : Nlri → Option String
  | .v4 a m => prefixClause 4 a m none
  | .v6 a m => prefixClause 16 a m none
  | .lv4 ls a m =>
      prefixClause 4 a m <| need (labelsOk ls && decide (ls.length * 24 + m ≤ 255)) "bad-label-stack" none
  | .lv6 ls a m =>
      prefixClause 16 a m <| need (labelsOk ls && decide (ls.length * 24 + m ≤ 255)) "bad-label-stack" none
  | .vpn4 ls rd a m =>
      prefixClause 4 a m <| need (labelsOk ls && decide (ls.length * 24 + 64 + m ≤ 255)) "bad-label-stack" <|
      need (rdOk rd) "bad-rd" none
  | .vpn6 ls rd a m =>
      prefixClause 16 a m <| need (labelsOk ls && decide (ls.length * 24 + 64 + m ≤ 255)) "bad-label-stack" <|
      need (rdOk rd) "bad-rd" none

def WFN (n : Nlri) : Prop := nlriClause n = none
instance (n : Nlri) : Decidable (WFN n) := by unfold WFN; infer_instance

/-! ## the checker -/

/-- the first consumer that panicked, if any -/
def crashed (u : Use) : Option String :=
  if (match u.len with | some .panic => true | _ => false) then some "as-path-length"
  else if (match u.origin with | some .panic => true | _ => false) then some "as-path-origin"
  else if u.enc = .panic then some "encode"
  else if u.cmp = .panic then some "best-path-comparison"
  else if u.pol = .panic then some "policy"
  else if u.msg4 = .panic then some "update-encode"
  else if u.msg2 = .panic then some "update-encode-2byte-as"
  else none

/-- "converts to its API form and back to an identical value" -/
def roundTrip (o : AttrObs) : Verdict :=
  match o.api with
  | .panic => .fail "to-api-panics"
  | .err => .fail "to-api-fails"
  | .ok _ =>
      match o.back with
      | none => .fail "observation-incomplete"
      | some .panic => .fail "roundtrip-from-api-panics"
      | some .err =>
          -- a recognised attribute stored with a flags byte other than the one of its class cannot be
          -- written back through a raw message (same root as `roundtrip-flags-differ`)
          (match classOf o.a.code with
           | some cls =>
               if o.a.flags ≠ (if cls = 1 then 64 else if cls = 2 then 128 else 192)
               then .fail "roundtrip-noncanonical-flags-rejected" else .fail "roundtrip-value-rejected"
           | none => .fail "roundtrip-value-rejected")
      | some (.ok a') =>
          if a' = o.a then .ok
          else if a'.code = o.a.code ∧ a'.data = o.a.data then .fail "roundtrip-flags-differ"
          else .fail "roundtrip-value-differs"

def seq (a b : Verdict) : Verdict :=
  match a with
  | .ok => b
  | f => f

/-- `stream` names where the value came from: "decoded" (wire) or "accepted" (API).  Safety is judged
    before the round trip, so a known round-trip finding never hides a crash. -/
def checkAttr (stream : String) (o : AttrObs) : Verdict :=
  seq (match wfClause o.a with
       | some c => .fail (stream ++ "-" ++ c)
       | none => .ok)
  (seq (match crashed o.use with
        | some c => .fail (stream ++ "-value-crashes-" ++ c)
        | none => .ok)
       (roundTrip o))

/-- "a path added through the API is listed with the same content": what `attr_to_api` shows for the
    accepted value against the message that was sent.  Allowed re-presentations: a raw message may leave
    `flags` 0 (unset) and is listed with the flags of its code; a raw extended community may be listed in its
    typed form (the 8 octets are judged by the round trip). -/
def sameExtcom : ExtCom → ExtCom → Bool
  | .unknown ty v, .unknown ty' v' => ty = ty' && v = v'
  | .unknown _ _, _ => true
  | a, b => a = b

def sameExtcoms : List ExtCom → List ExtCom → Bool
  | [], [] => true
  | a :: as, b :: bs => sameExtcom a b && sameExtcoms as bs
  | _, _ => false

def sameListed : ApiAttr → ApiAttr → Bool
  | .unknown f t v, .unknown f' t' v' => t = t' && v = v' && (f = f' || f = 0)
  | .extCommunities l, .extCommunities l' => sameExtcoms l l'
  -- a typed MP_REACH message is shown as the raw carrier: family, length of the next hop, the next hop, a
  -- reserved 0.  It holds ONE next hop: a message with more of them is not listed as sent.
  | .mpReach (some (afi, safi)) nhs, .unknown f 14 v =>
      f = 0x80 &&
      (match nhs with
       | [] => v = beN 2 afi ++ [safi, 0, 0]
       | [s] =>
           (match s.parse4, s.parse6 with
            | some a, _ => v = beN 2 afi ++ [safi, 4] ++ beN 4 a ++ [0]
            | none, some a => v = beN 2 afi ++ [safi, 16] ++ beN 16 a ++ [0]
            | none, none => false)
       | _ => false)
  | a, b => a = b

def checkListed (x : ApiAttr) (o : AttrObs) : Verdict :=
  match o.api with
  | .ok y =>
      if sameListed x y then .ok
      else match x with
        | .mpReach _ (_ :: _ :: _) => .fail "listed-lacks-further-next-hops"
        | _ => .fail "listed-differs-from-added"
  | _ => .ok      -- a panic / failure of `attr_to_api` is reported by `roundTrip`

def checkNlri (stream : String) (o : NlriObs) : Verdict :=
  seq (match nlriClause o.n with
       | some c => .fail (stream ++ "-nlri-" ++ c)
       | none => .ok)
  (seq (match o.enc with
        | .panic => .fail (stream ++ "-nlri-crashes-encode")
        | _ => .ok)
  (seq (match o.msg with
        | .panic => .fail (stream ++ "-nlri-crashes-update-encode")
        | _ => .ok)
  (seq (match o.ins with
        | .panic => .fail (stream ++ "-nlri-crashes-table-insert")
        | _ => .ok)
       (match o.back with
        | .ok n' => if n' = o.n then .ok else .fail "roundtrip-nlri-differs"
        | .err => .fail "roundtrip-nlri-rejected"
        | .panic => .fail "roundtrip-nlri-from-api-panics"))))

def checkAll (stream : String) : List NlriObs → Verdict
  | [] => .ok
  | o :: rest => seq (checkNlri stream o) (checkAll stream rest)

/-- name of an attribute message kind, for the clause of a path attribute that ListPath does not show -/
def kindOf : ApiAttr → String
  | .nextHop _ => "next-hop"
  | .unknown _ 14 _ => "next-hop"          -- a raw MP_REACH_NLRI is a next-hop carrier
  | .mpReach .. => "next-hop"
  | .originatorId _ => "originator-id"
  | .clusterList _ => "cluster-list"
  | .extCommunities _ => "extended-communities"
  | _ => "attribute"

/-- every attribute that was sent is listed; anything listed beyond that is one of the two mandatory
    attributes `local_path` supplies when the request has none (ORIGIN IGP, empty AS_PATH) -/
def checkPath (sent listed : List ApiAttr) : Verdict :=
  match sent.find? (fun x => !(listed.any (sameListed x))) with
  | some x => .fail ("listed-path-lacks-" ++ kindOf x)
  | none =>
      if listed.all (fun y => sent.any (fun x => sameListed x y) || y = .origin 0 || y = .asPath []) then .ok
      else .fail "listed-path-has-extra-attribute"

/-! ### the RPKI state shown for the listed path (RFC 6811), from the request alone -/

/-- route origin AS (RFC 6811 §2): last AS of a final AS_SEQUENCE; NONE for a final AS_SET; the speaker's own AS
    for an empty path or a confederation tail -/
def routeOrigin (localAs : Nat) (sent : List ApiAttr) : Option Nat :=
  match sent.findSome? (fun x => match x with | .asPath segs => some segs | _ => none) with
  | none => some localAs
  | some segs =>
      match segs.getLast? with
      | none => some localAs
      | some (t, ns) =>
          if t = 2 then (match ns.getLast? with | some asn => some asn | none => some localAs)
          else if t = 1 then none
          else some localAs

/-- expected validation state: "valid" / "invalid" / "not-found" -/
def rpkiExpected (vrps : List Vrp) (a m : Nat) (origin : Option Nat) : String :=
  let cand := vrps.filter fun v => v.len ≤ m ∧ a / 2 ^ (32 - v.len) = v.addr / 2 ^ (32 - v.len)
  if cand.isEmpty then "not-found"
  else if cand.any (fun v => m ≤ v.maxLen ∧ v.asn ≠ 0 ∧ some v.asn = origin) then "valid"
  else "invalid"

def shownName : Option RState → String
  | none => "none" | some .notFound => "not-found" | some .valid => "valid"
  | some .invalidAsn => "invalid" | some .invalidLen => "invalid"

/-- the speaker's AS (the harness starts BGP with it) -/
def speakerAs : Nat := 65000

/-- every IPv4 / IPv6 route has a validation state; a case carries IPv4 VRPs only, so no VRP covers an IPv6
    route -/
def checkRpki (x : ApiNlri) (sent : List ApiAttr) (vrps : List Vrp) (shown : Option RState) : Verdict :=
  let want : Option String :=
    match x with
    | .prefix (.ip4 a) m => some (rpkiExpected vrps a m (routeOrigin speakerAs sent))
    | .prefix (.ip6 _) _ => some "not-found"
    | _ => none
  match want with
  | some w => if shownName shown = w then .ok else .fail ("rpki-shown-" ++ shownName shown ++ "-expected-" ++ w)
  | none => .ok

def check : Case → Obs → Verdict
  | _, .unmodelled => .ok
  | .attrWire .., .notStored _ => .ok
  | .attrWire .., .attr o => checkAttr "decoded" o
  | .attrApi _, .fromErr => .ok
  | .attrApi _, .fromPanic => .fail "from-api-panics"
  | .attrApi x, .attr o => seq (checkAttr "accepted" o) (checkListed x o)
  | .nlriWire .., .decodeErr => .ok
  | .nlriWire .., .decodePanic => .fail "nlri-decoder-panics"
  | .nlriWire .., .nlris l => checkAll "decoded" l
  | .nlriApi _, .fromErr => .ok
  | .nlriApi _, .fromPanic => .fail "nlri-from-api-panics"
  | .nlriApi x, .nlris l =>
      seq (checkAll "accepted" l)
        (match l with
         | [o] => if o.api = x then .ok else .fail "listed-differs-from-added"
         | _ => .fail "unexpected-observation")
  | .grpc .., .addRefused => .ok
  | .grpc .., .listPanic => .fail "add-or-list-path-panics"
  -- (what is listed after DeletePath is compared between model and implementation only: the add / delete
  -- life cycle is not this property's subject)
  | .grpc x sent vrps vrf, .listed n ys v _ =>
      if n = x then
        -- (the VRF view is produced by `collect_vrf_paths`: what it leaves out has its own clause)
        (if vrf then (match checkPath sent ys with
                      | .fail "listed-path-lacks-extended-communities" => .fail "vrf-listed-path-lacks-extended-communities"
                      | v => v)
         else seq (checkPath sent ys) (checkRpki x sent vrps v))
      else .fail "listed-differs-from-added"
  | .explore _, .exploreOk => .ok
  | .explore k, .exploreFail w => .fail ("explore-" ++ k ++ "-" ++ w)
  | _, _ => .fail "unexpected-observation"

end Rbgp.Api.Spec
