/-
  Rbgp.Api.Props — C17, the readable statements.

  "What the gRPC API accepts is stored faithfully, shown back unchanged, and safe."

  Everything here is about the MODEL (`Rbgp.Api.Model`) of
    daemon/src/convert.rs   attr_to_api / attr_from_api / read_extcom / write_extcom / nlri_to_api / net_from_api
    packet/src/bgp.rs       the attribute loop of parse_message + Attribute::decode, Attribute::encode,
                            as_path_length, as_path_origin, as_path_prepend, the two-octet-AS helpers,
                            the size check of PeerCodec::encode_to
    packet/src/{labeled,vpn,mpls,rd}.rs   NLRI codecs
    table/src/lib.rs        the attribute accessors of `impl Ord for RibEntry`
  with the C17 repairs of convert.rs in place (`Api.current`); `Api.original` is the code before them.
  `WF` / `WFN` (Spec.lean) are the structural invariants the wire decoder enforces, including the size one
  UPDATE can carry and "no address octet beyond the prefix".

  The proofs are in `Rbgp.Api.Proofs`.
-/
import Rbgp.Api.Proofs
namespace Rbgp.Api.Props
open Rbgp.Api Rbgp.Api.Spec

/-! ## 0. The reference checker accepts every run -/

/-- For every case in the claimed domain (`caseOk`: canonical flags byte on the wire stream, in-range
    protobuf fields on the API streams) the checker written from the property text — invariants, no consumer
    panic, round trip, *and* "listed with the same content as added" — accepts the run of the model of the
    current code. -/
theorem check_run_ok (c : Case) (h : caseOk c) : Spec.check c (run current c) = .ok :=
  Rbgp.Api.check_run_ok c h

/-- non-vacuity: cases of every stream are inside the claimed domain and produce full observations -/
example : caseOk (.attrWire 2 0x40 [2, 2, 0, 0, 0xfd, 0xe9, 0, 1, 0, 0, 1, 1, 0, 0, 0, 7]) := by
  intro f hf; simp [canonicalFlags] at hf; omega
example : caseOk (.attrApi (.asPath [(2, [65001, 4200000000]), (1, [7])])) :=
  ⟨by decide, trivial⟩
example : caseOk (.attrApi (.mpReach (some (2, 1)) [.ip6 1])) := ⟨by decide, by simp [oneNextHop]⟩
example : caseOk (.nlriApi (.labeled [100, 200] 24 (.ip4 167772160))) := by
  show ApiNlri.inRange _ = true; decide
example : fromApi current (.asPath [(2, [65001, 4200000000]), (1, [7])]) =
    .ok ⟨2, 0x40, .bin [2, 2, 0, 0, 0xfd, 0xe9, 0xfa, 0x56, 0xea, 0, 1, 1, 0, 0, 0, 7]⟩ := by decide
example : netFromApi current (.labeled [100, 200] 24 (.ip4 167772160)) = .ok (.lv4 [100, 200] 167772160 24) := by
  decide

/-! ## 1. Round trip: stored value -> API form -> identical stored value -/

/-- Every well-formed attribute of a modelled code that the decoder can store, and whose flags byte is the
    canonical one, is converted to its API form without panic and converted back to **itself**. -/
theorem roundtrip_attr (a : Attribute) (hwf : WF a) (hm : modelledCode a.code = true)
    (hs : a.code ≠ 3 ∧ a.code ≠ 17 ∧ a.code ≠ 18) (hc : flagsCanon a) :
    ∃ x, toApi current a = .ok x ∧ fromApi current x = .ok a :=
  rtreal_of_rt a hwf (Rbgp.Api.roundtrip_attr a hwf hm hs hc)

/-- The same, stated on what the wire decoder produces: any attribute value of a modelled code sent with
    the canonical flags byte, if it is stored at all, is displayed and re-imported unchanged. -/
theorem roundtrip_decoded (code flags : Nat) (bs : Bytes) (a : Attribute)
    (hc : code < 256) (hf : flags < 256) (hb : ∀ b ∈ bs, b < 256) (hlen : bs.length ≤ 65508)
    (hm : modelledCode code = true) (hcanon : ∀ f, canonicalFlags code = some f → flags = f)
    (h : decodeAttr code flags bs = .stored a) :
    ∃ x, toApi current a = .ok x ∧ fromApi current x = .ok a := by
  obtain ⟨hwf, hcode, hflags, hs⟩ := decode_wf code flags bs a hc hf hb hlen h
  exact roundtrip_attr a hwf (by rw [hcode]; exact hm) (by rw [hcode]; omega)
    (fun f hf' => by rw [hcode] at hf'; rw [hflags]; exact hcanon f hf')

/-- Unrecognised optional transitive attributes (kept as opaque values) round-trip with **any** flags byte:
    the raw API message carries the flags. -/
theorem roundtrip_unrecognised (code flags : Nat) (bs : Bytes) (a : Attribute)
    (hc : code < 256) (hf : flags < 256) (hb : ∀ b ∈ bs, b < 256) (hlen : bs.length ≤ 65508)
    (hun : canonicalFlags code = none) (h : decodeAttr code flags bs = .stored a) :
    ∃ x, toApi current a = .ok x ∧ fromApi current x = .ok a := by
  obtain ⟨hwf, hcode, hflags, hs⟩ := decode_wf code flags bs a hc hf hb hlen h
  have hm : modelledCode code = true := by
    simp only [modelledCode, decide_eq_true_eq]
    refine ⟨?_, ?_, ?_⟩ <;> (intro h'; subst h'; simp [canonicalFlags] at hun)
  exact roundtrip_attr a hwf (by rw [hcode]; exact hm) (by rw [hcode]; omega)
    (fun f hf' => by rw [hcode, hun] at hf'; simp at hf')

/-- IPv4 / IPv6 / labeled / VPN prefixes: `net_from_api (nlri_to_api n) = n`. -/
theorem roundtrip_nlri (n : Nlri) (h : WFN n) : netFromApi current (nlriToApi n) = .ok n :=
  roundtrip_nlri_real n h

example : WF ⟨2, 0x40, .bin [2, 1, 0, 0, 0xfd, 0xe9, 1, 2, 0, 0, 0, 1, 0, 0, 0, 2]⟩ := by
  simp [WF, wfClause, classOf, flagsOk, binClause, Spec.isBytes, Spec.segments]
example : WFN (.vpn4 [100, 200] (.twoOctet 65001 7) 167772160 24) := by decide

/-! ### the full-strength statement, and why only the canonical-flags part holds -/

/-- full strength: *every* value the decoder stores (modelled code) round-trips -/
def C17_roundtrip_full : Prop :=
  ∀ (code flags : Nat) (bs : Bytes) (a : Attribute), code < 256 → flags < 256 → (∀ b ∈ bs, b < 256) →
    bs.length ≤ 65508 → modelledCode code = true → decodeAttr code flags bs = .stored a →
    ∃ x, toApi current a = .ok x ∧ fromApi current x = .ok a

/-- **open finding `roundtrip-flags-differ`**: ATOMIC_AGGREGATE received with the EXTENDED-LENGTH bit
    (flags 0x50) is stored with flags 0x50, displayed as `AtomicAggregate{}` and re-imported with flags 0x40.
    The typed API messages have no flags field (PARTIAL on a known optional transitive attribute is lost
    the same way: COMMUNITIES sent with 0xE0). -/
theorem flags_not_carried : ¬ C17_roundtrip_full := by
  intro h
  obtain ⟨x, hx1, hx2⟩ := h 6 0x50 [] ⟨6, 0x50, .bin []⟩ (by omega) (by omega) (by simp) (by simp)
    (by decide) (by simp [decodeAttr, canonicalFlags, classBits, decodeData])
  simp [toApi] at hx1
  subst hx1
  revert hx2
  decide

/-! ## 2. What the API accepts is well-formed and listed back as sent; conversion never panics -/

/-- `attr_from_api x = Ok(a)`  ⇒  `a` satisfies every invariant the wire decoder enforces (including the
    size one UPDATE can carry), with the canonical flags of its code. -/
theorem from_api_wf (x : ApiAttr) (a : Attribute) (hr : x.inRange = true)
    (h : fromApi current x = .ok a) : WF a ∧ flagsCanon a := by
  obtain ⟨hst, h0, hsz⟩ := fromApi_ok x a h
  exact Rbgp.Api.from_api_wf x a hr h0 hsz hst

theorem from_api_wf_nlri (x : ApiNlri) (n : Nlri) (hr : x.inRange = true)
    (h : netFromApi current x = .ok n) : WFN n := by
  obtain ⟨hst, h0⟩ := netFromApi_ok x n h
  exact nlri_from_api_wf x n hr hst h0

/-- **listed with the same content as added**: what `attr_to_api` shows for the accepted value is the
    message that was sent, up to the two re-presentations of `Spec.sameListed` (a raw message may leave
    `flags` unset; a raw extended community may be shown in its typed form).  Nothing is altered
    silently: what cannot be stored exactly is an `Err`. -/
theorem listed_same_as_added (x : ApiAttr) (a : Attribute) (y : ApiAttr) (hr : x.inRange = true)
    (h1 : oneNextHop x) (h : fromApi current x = .ok a) (hy : toApi current a = .ok y) : sameListed x y = true :=
  listed_same x a y hr h1 h hy

/-- a typed MP_REACH message (`MpReachNlriAttribute`) that is accepted is stored as a well-formed carrier of
    octets with the flags of MP_REACH_NLRI, and shown as the raw carrier of its family and its next hop -/
theorem typed_mp_reach_stored (fam : Option (Nat × Nat)) (nhs : List AStr) (a : Attribute)
    (hr : (ApiAttr.mpReach fam nhs).inRange = true) (h : fromApi current (.mpReach fam nhs) = .ok a) :
    WF a ∧ a.code = 14 ∧ a.flags = 0x80 := by
  obtain ⟨hst, h0, hsz⟩ := Rbgp.Api.fromApi_ok _ a h
  refine ⟨(Rbgp.Api.from_api_wf _ a hr h0 hsz hst).1, ?_, ?_⟩
  · exact Rbgp.Api.from_api_codeOf _ a h0
  · simp only [fromApi0] at h0
    split at h0
    · simp at h0
    · simp [newWithBin, canonicalFlags] at h0; subst h0; rfl

/-- ... but only its FIRST next hop is kept: a message with an IPv6 global and link-local next hop is accepted
    and listed without the second one (open finding `listed-lacks-further-next-hops`) -/
theorem further_next_hops_dropped :
    ∃ a y, fromApi current (.mpReach (some (2, 1)) [.ip6 1, .ip6 2]) = .ok a ∧ toApi current a = .ok y ∧
      y = .unknown 0x80 14 (mpCarrier 2 1 (beN 16 1)) ∧
      sameListed (.mpReach (some (2, 1)) [.ip6 1, .ip6 2]) y = false :=
  ⟨⟨14, 0x80, .bin (mpCarrier 2 1 (beN 16 1))⟩, _, by decide, by decide, rfl, by decide⟩

theorem listed_same_as_added_nlri (x : ApiNlri) (n : Nlri) (hr : x.inRange = true)
    (h : netFromApi current x = .ok n) : nlriToApi n = x := by
  obtain ⟨hst, h0⟩ := netFromApi_ok x n h
  exact nlri_listed_same x n hr hst h0

/-- AddPath then ListPath (`GrpcService::local_path`, `insert_route`, `destination_to_api`): when the request
    carries none of the attributes `local_path` consumes or drops (`kept`: no NEXT_HOP / raw MP_REACH,
    ORIGINATOR_ID, CLUSTER_LIST, raw MP_UNREACH), ListPath shows every attribute that was sent, and beyond
    them only the mandatory ORIGIN / AS_PATH defaults.  Without `kept` it does not: open findings
    `listed-path-lacks-next-hop` / `-originator-id` / `-cluster-list`. -/
theorem listed_path_same_as_added (sent : List ApiAttr) (stored : List Attribute)
    (hr : ∀ x ∈ sent, x.inRange = true) (hk : ∀ x ∈ sent, kept x) (hl : localPath current sent = .ok stored)
    (hm : ∀ a ∈ stored, modelledCode a.code = true) :
    ∃ ys, listAttrs current stored = .ok ys ∧ checkPath sent ys = .ok :=
  checkPath_ok sent stored hr hk hl hm

/-- the next hop given to AddPath is not shown by ListPath (nor are ORIGINATOR_ID / CLUSTER_LIST) -/
theorem next_hop_not_listed :
    run current (.grpc (.prefix (.ip4 167772160) 8) [.nextHop (.ip4 3221225985)] [] false) =
      .listed (.prefix (.ip4 167772160) 8) [.origin 0, .asPath []] (some .notFound) 0 ∧
    Spec.check (.grpc (.prefix (.ip4 167772160) 8) [.nextHop (.ip4 3221225985)] [] false)
      (.listed (.prefix (.ip4 167772160) 8) [.origin 0, .asPath []] (some .notFound) 0) = .fail "listed-path-lacks-next-hop" := by
  refine ⟨?_, by decide⟩
  simp [run, netFromApi, ApiNlri.strict, hostBitsClear, netFromApi0, current, localPath, convertAll, fromApi,
    ApiAttr.strict, fromApi0, AStr.parse4, newWithBin, canonicalFlags, Attribute.valueLen, maxAttrValue,
    beN, keepAttrs, Out.map, originIgp, emptyAsPath, modelledCode, listAttrs, toApi, Attribute.value,
    Attribute.binary, asPathToSegs, nlriToApi, rpkiShown, rpkiOrigin, findCode, asPathOrigin, rpkiState]

/-- while no VRP is installed, ListPath shows NotFound for an IPv4 / IPv6 route (and nothing for the other
    families), and computing it does not panic on a stored path -/
theorem validation_without_vrps (n : Nlri) (sent : List ApiAttr) (stored : List Attribute)
    (h : ∀ a ∈ stored, WF a) :
    ∃ v, rpkiShown [] n stored = .ok v ∧ Spec.checkRpki (nlriToApi n) sent [] v = .ok :=
  Rbgp.Api.rpkiShown_nil n sent stored h

/-- ... and the listed form re-imports to the same stored value. -/
theorem accepted_reimports_unchanged (x : ApiAttr) (a : Attribute) (hr : x.inRange = true)
    (h : fromApi current x = .ok a) (hm : modelledCode a.code = true) :
    ∃ y, toApi current a = .ok y ∧ fromApi current y = .ok a := by
  obtain ⟨hwf, _, hrt⟩ := Rbgp.Api.from_api_rt x a hr h hm
  exact rtreal_of_rt a hwf hrt

/-- conversion from API input never panics: every failure is an `Err(InvalidArgument)` -/
theorem from_api_never_panics (x : ApiAttr) : fromApi current x ≠ .panic := fromApi_no_panic x
theorem net_from_api_never_panics (x : ApiNlri) : netFromApi current x ≠ .panic := netFromApi_no_panic x

/-- non-vacuity: the accepting branch is inhabited for every message kind of the model -/
example : fromApi current (.origin 2) = .ok ⟨1, 0x40, .val 2⟩ := by decide
example : fromApi current (.unknown 0xE0 200 [1, 2]) = .ok ⟨200, 0xE0, .raw [1, 2]⟩ := by decide
example : fromApi current (.unknown 0 14 [0, 1, 1, 0, 0]) = .ok ⟨14, 0x80, .bin [0, 1, 1, 0, 0]⟩ := by decide
example : fromApi current (.extCommunities [.twoOctetAs true 2 65001 100]) =
    .ok ⟨16, 0xC0, .bin [0, 2, 0xfd, 0xe9, 0, 0, 0, 100]⟩ := by decide
/-- and the rejecting branch: what S27 and the third-wave review were about is refused -/
example : fromApi current (.origin 3) = .err := by decide
example : fromApi current (.unknown 0x40 2 [2]) = .err := by decide
example : fromApi current (.unknown 0x40 257 [0]) = .err := by decide
example : fromApi current (.unknown 0xE0 14 [0, 1, 1, 0, 0]) = .err := by decide   -- flags that would be dropped
example : fromApi current (.asPath [(0, [65001])]) = .err := by decide
example : fromApi current (.asPath [(2, [])]) = .err := by decide
example : fromApi current (.nextHop (.bad 1)) = .err := by decide
example : fromApi current (.extCommunities [.trafficRemark 64]) = .err := by decide
example : fromApi current (.extCommunities [.unknown 3 [0x80, 1, 0, 0, 0, 0, 0, 0]]) = .err := by decide
example : netFromApi current (.labeled [] 24 (.ip4 167772160)) = .err := by decide
example : netFromApi current (.labeled [100] 200 (.ip4 167772160)) = .err := by decide
example : netFromApi current (.labeled [1048576] 24 (.ip4 167772160)) = .err := by decide
example : netFromApi current (.prefix (.ip4 167772161) 8) = .err := by decide          -- 10.0.0.1/8

/-- an attribute value no UPDATE can carry is refused (16380 communities = 65520 octets) -/
theorem oversized_value_refused (l : List Nat) (h : l.length * 4 > 65508) :
    fromApi current (.communities l) = .err := by
  have hlen : (l.flatMap (beN 4)).length = l.length * 4 := flatMap_beN4_length l
  simp only [fromApi, ApiAttr.strict, fromApi0, okOrErr_eq, newWithBin, canonicalFlags, current]
  simp [Attribute.valueLen, maxAttrValue]
  have : (List.map (fun a => (beN 4 a).length) l).sum = (l.flatMap (beN 4)).length := by
    simp [List.length_flatMap]
  omega

/-! ## 3. Well-formed values cannot crash their consumers -/

/-- best-path comparison (`impl Ord for RibEntry`: LOCAL_PREF, AS-path length, ORIGIN, ORIGINATOR_ID accessors) -/
theorem wf_safe_cmp (a : Attribute) (h : WF a) : (useOf a).cmp = .ok () :=
  cmpUse_ok _ (pathAttrs_wf a h)

/-- policy evaluation as far as it reads attribute structure: `as_path_length`, `as_path_origin`,
    `Condition::AsPathLength` + the `as_prepend` action -/
theorem wf_safe_policy (a : Attribute) (h : WF a) :
    (∃ b, (useOf a).pol = .ok b) ∧
    (a.code = 2 → (∃ n, asPathLength a = .ok n) ∧ (∃ r, asPathOrigin a = .ok r)) :=
  ⟨polUse_ok _ (pathAttrs_wf a h), fun hc => ⟨asPathLength_ok a h hc, asPathOrigin_ok a h hc⟩⟩

/-- encoding: `Attribute::encode` succeeds; a whole UPDATE on a four-octet-AS and on a two-octet-AS session
    (AS_PATH down-conversion, AS4_PATH synthesis, AGGREGATOR down-conversion) either is written or is
    refused as too large for the session's message size — it never panics, and the attribute-length sum
    is modelled, not assumed. -/
theorem wf_safe_encode (a : Attribute) (h : WF a) :
    (∃ b, encodeAttr a = .ok b) ∧ (useOf a).msg4 ≠ .panic ∧ (useOf a).msg2 ≠ .panic :=
  ⟨encodeAttr_ok a h,
   msgUse_no_panic encodeAttr _ (fun x hx => encodeAttr_ok x (pathAttrs_wf a h x hx)),
   msgUse_no_panic encode2 _ (fun x hx => encode2_ok x (pathAttrs_wf a h x hx))⟩

/-- all consumers at once -/
theorem wf_safe (a : Attribute) (h : WF a) : (useOf a).noPanic = true := Rbgp.Api.wf_safe a h

/-- `Nlri::encode` writes the prefix (no panic, and not the empty "cannot be encoded" result) -/
theorem wf_safe_encode_nlri (n : Nlri) (h : WFN n) : ∃ b, encodeNlri n = .ok b ∧ b ≠ [] := nlri_encode_ok n h

/-- so: nothing `attr_from_api` accepts can later crash best-path selection, policy evaluation or encoding -/
theorem accepted_is_safe (x : ApiAttr) (a : Attribute) (hr : x.inRange = true)
    (h : fromApi current x = .ok a) : (useOf a).noPanic = true :=
  Rbgp.Api.wf_safe a (from_api_wf x a hr h).1

/-! ## 4. `WF` is what the wire decoder guarantees -/

theorem decode_wf (code flags : Nat) (bs : Bytes) (a : Attribute) (hc : code < 256) (hf : flags < 256)
    (hb : ∀ b ∈ bs, b < 256) (hlen : bs.length ≤ 65508) (h : decodeAttr code flags bs = .stored a) :
    WF a ∧ a.code = code ∧ a.flags = flags ∧ (code ≠ 3 ∧ code ≠ 14 ∧ code ≠ 15 ∧ code ≠ 17 ∧ code ≠ 18) :=
  Rbgp.Api.decode_wf code flags bs a hc hf hb hlen h

/-- every prefix the IPv4 / IPv6 / labeled / VPN decoders produce satisfies `WFN`, whatever the label
    stack (no wrap-around hypothesis any more: labeled.rs / vpn.rs count label bits in `usize`) -/
theorem decode_wf_nlri (f : Fam) (bs : Bytes) (n : Nlri) (rest : Bytes) (hb : ∀ b ∈ bs, b < 256)
    (h : decodeOne f bs = .ok (n, rest)) : WFN n :=
  (decodeOne_wf f bs n rest hb h).1

/-- the NLRI decoders never panic -/
theorem nlri_decoder_never_panics (f : Fam) (fuel : Nat) (bs : Bytes) : decodeList f fuel bs ≠ .panic :=
  decodeList_no_panic f fuel bs

example : decodeAttr 2 0x40 [2, 1, 0, 0, 0xfd, 0xe9] = .stored ⟨2, 0x40, .bin [2, 1, 0, 0, 0xfd, 0xe9]⟩ := by
  simp [decodeAttr, canonicalFlags, classBits, decodeData, segsOk]
example : decodeAttr 2 0x40 [2, 0] = .rejected := by
  simp [decodeAttr, canonicalFlags, classBits, decodeData, segsOk]
example : decodeAttr 1 0x40 [3] = .rejected := by decide
example : decodeAttr 26 0x80 [0] = .rejected := by
  simp [decodeAttr, canonicalFlags, classBits, decodeData, aigpOk]
example : decodeOne .v4 [24, 10, 0, 1] = .ok (.v4 167772416 24, []) := by decide

/-! ## 5. The findings on the code before the repairs (`Api.original`) -/

/-- a raw message for AS_PATH was accepted although the decoder would refuse the value ... -/
theorem s27_raw_as_path_accepted :
    fromApi original (.unknown 0xE0 2 [2]) = .ok ⟨2, 0x40, .bin [2]⟩ ∧ ¬ WF ⟨2, 0x40, .bin [2]⟩ := by
  refine ⟨by decide, ?_⟩
  simp [WF, wfClause, classOf, flagsOk, binClause, Spec.isBytes, Spec.segments]

/-- ... and that value makes `as_path_length` (hence best-path comparison and policy) panic -/
theorem s27_raw_as_path_crashes :
    asPathLength ⟨2, 0x40, .bin [2]⟩ = .panic ∧ (useOf ⟨2, 0x40, .bin [2]⟩).cmp = .panic := by
  refine ⟨by simp [asPathLength, Attribute.binary, asPathLengthLoop], ?_⟩
  simp [useOf, pathAttrs, cmpUse, needVal, needLen, findCode, originIgp, asPathLength, Attribute.binary,
    asPathLengthLoop, Attribute.value, Out.void, Out.map]

/-- a raw LOCAL_PREF was stored as bytes: `value().unwrap()` panics in the encoder and in best-path comparison -/
theorem s27_raw_local_pref_crashes :
    fromApi original (.unknown 0x40 5 []) = .ok ⟨5, 0x40, .bin []⟩ ∧
    encodeAttr ⟨5, 0x40, .bin []⟩ = .panic ∧ (useOf ⟨5, 0x40, .bin []⟩).cmp = .panic := by
  refine ⟨by decide, by decide, ?_⟩
  simp [useOf, pathAttrs, cmpUse, needVal, findCode, Attribute.value, Out.void, Out.map]

/-- ORIGIN > 2, a segment type outside 1..4 and an unparsable next hop were accepted -/
theorem s27_out_of_range_accepted :
    fromApi original (.origin 3) = .ok ⟨1, 0x40, .val 3⟩ ∧
    fromApi original (.asPath [(0, [65001])]) = .ok ⟨2, 0x40, .bin [0, 1, 0, 0, 0xfd, 0xe9]⟩ ∧
    fromApi original (.nextHop (.bad 1)) = .ok ⟨3, 0x40, .bin []⟩ ∧
    toApi original ⟨3, 0x40, .bin []⟩ = .panic := by
  refine ⟨by decide, by decide, by decide, by decide⟩

/-- an unrecognised optional transitive attribute learned from a peer could not be re-imported,
    and extended communities with bits the typed form has no room for came back changed -/
theorem s27_roundtrip_failures :
    (toApi original ⟨200, 0xE0, .raw [1]⟩ = .ok (.unknown 0xE0 200 [1]) ∧
      fromApi original (.unknown 0xE0 200 [1]) = .err) ∧
    (toApi original ⟨16, 0xC0, .bin [0xc1, 8, 10, 0, 0, 1, 0, 1]⟩ =
        .ok (.extCommunities [.redirectIp4 (.ip4 167772161) 1]) ∧
      fromApi original (.extCommunities [.redirectIp4 (.ip4 167772161) 1]) =
        .ok ⟨16, 0xC0, .bin [0x81, 8, 10, 0, 0, 1, 0, 1]⟩) := by
  refine ⟨⟨by decide, by decide⟩, ⟨by decide, by decide⟩⟩

/-- labeled prefix with an out-of-range length: accepted, and `Nlri::encode` then indexes out of bounds -/
theorem s27_labeled_prefix_crashes :
    netFromApi original (.labeled [100] 200 (.ip4 167772160)) = .ok (.lv4 [100] 167772160 200) ∧
    encodeNlri (.lv4 [100] 167772160 200) = .panic := by
  refine ⟨by decide, by decide⟩

/-- third-wave review B: the conversion altered input silently — a label above 20 bits was stored (and then
    listed) as its low 20 bits, a DSCP above 63 as its low 6 bits, host bits were kept -/
theorem silent_alteration_before_repair :
    netFromApi original (.labeled [1048576] 24 (.ip4 167772160)) = .ok (.lv4 [0] 167772160 24) ∧
    nlriToApi (.lv4 [0] 167772160 24) ≠ .labeled [1048576] 24 (.ip4 167772160) ∧
    fromApi original (.extCommunities [.trafficRemark 4294967295]) =
      .ok ⟨16, 0xC0, .bin [0x80, 9, 0, 0, 0, 0, 0, 63]⟩ ∧
    netFromApi original (.prefix (.ip4 167772161) 8) = .ok (.v4 167772161 8) ∧
    ¬ WFN (.v4 167772161 8) := by
  refine ⟨by decide, by decide, by decide, by decide, by decide⟩

/-- third-wave review A: an attribute longer than any UPDATE was accepted; the encoder model shows what the
    u16 length sum then met (the real encoder panicked in debug / wrote a wrong length in release before
    the C04 repair made it return `Err`) -/
theorem oversized_value_accepted_before_repair (l : List Nat) :
    ∃ a, fromApi original (.communities l) = .ok a ∧ a.valueLen = l.length * 4 := by
  refine ⟨⟨8, 0xC0, .bin (l.flatMap (beN 4))⟩, ?_, ?_⟩
  · simp [fromApi, original, fromApi0, newWithBin, canonicalFlags]
  · simp only [Attribute.valueLen]; exact flatMap_beN4_length l

end Rbgp.Api.Props
