/- Term encoding of C17 cases and observations (see harness/daemon/c17.rs for the Rust side). -/
import Rbgp.Term
import Rbgp.Api.Model
namespace Rbgp.Api.Codec
open Rbgp Rbgp.Term Rbgp.Api

/-! ## printers -/

def astrT : AStr → Term
  | .ip4 n => tag "ip4" [nat n]
  | .ip6 n => tag "ip6" [nat n]
  | .bad k => tag "bad" [nat k]

def dataT : Data → Term
  | .val n => tag "val" [nat n]
  | .bin b => tag "bin" [bytes b]
  | .raw b => tag "opaque" [bytes b]

def attrT (a : Attribute) : Term := tag "attr" [nat a.code, nat a.flags, dataT a.data]

def extcomT : ExtCom → Term
  | .missing => sym "ec-missing"
  | .other => sym "ec-other"
  | .unknown ty v => tag "ec-unknown" [nat ty, bytes v]
  | .twoOctetAs t s a l => tag "two-as" [bool t, nat s, nat a, nat l]
  | .ipv4 t s a l => tag "ip4-as" [bool t, nat s, astrT a, nat l]
  | .fourOctetAs t s a l => tag "four-as" [bool t, nat s, nat a, nat l]
  | .mup s a b => tag "mup" [nat s, nat a, nat b]
  | .trafficRate a r => tag "rate" [nat a, nat r]
  | .trafficAction t s => tag "action" [bool t, bool s]
  | .redirect2 a l => tag "redir2" [nat a, nat l]
  | .trafficRemark d => tag "remark" [nat d]
  | .redirectIp4 a l => tag "redir-ip" [astrT a, nat l]
  | .redirect4 a l => tag "redir4" [nat a, nat l]

def apiAttrT : ApiAttr → Term
  | .missing => sym "missing"
  | .other => sym "other"
  | .unknown f t v => tag "unknown" [nat f, nat t, bytes v]
  | .origin n => tag "origin" [nat n]
  | .asPath segs => tag "as-path" [list (segs.map fun s => list [nat s.1, list (s.2.map nat)])]
  | .nextHop s => tag "next-hop" [astrT s]
  | .med n => tag "med" [nat n]
  | .localPref n => tag "local-pref" [nat n]
  | .atomicAggregate => sym "atomic-aggregate"
  | .aggregator a s => tag "aggregator" [nat a, astrT s]
  | .communities l => tag "communities" [list (l.map nat)]
  | .originatorId s => tag "originator-id" [astrT s]
  | .clusterList l => tag "cluster-list" [list (l.map astrT)]
  | .largeCommunities l => tag "large-communities" [list (l.map fun t => list [nat t.1, nat t.2.1, nat t.2.2])]
  | .extCommunities l => tag "ext-communities" [list (l.map extcomT)]
  | .mpReach fam nhs => tag "mp-reach" [(match fam with | none => sym "none" | some (a, s) => list [nat a, nat s]),
      list (nhs.map astrT)]

def outT {α} (f : α → Term) : Out α → Term
  | .ok a => tag "ok" [f a]
  | .err => sym "err"
  | .panic => sym "panic"

def unitOutT : Out Unit → Term
  | .ok _ => sym "ok"
  | .err => sym "err"
  | .panic => sym "panic"

def useT (u : Use) : Term :=
  tag "use" [
    (match u.len with | none => sym "na" | some o => outT nat o),
    (match u.origin with | none => sym "na" | some o => outT (opt nat) o),
    outT bytes u.enc, unitOutT u.cmp, outT bytes u.pol, unitOutT u.msg4, unitOutT u.msg2]

def rdT : Rd → Term
  | .twoOctet a b => tag "rd2" [nat a, nat b]
  | .ip4 a b => tag "rd-ip" [nat a, nat b]
  | .fourOctet a b => tag "rd4" [nat a, nat b]

def apiRdT : ApiRd → Term
  | .missing => sym "rd-missing"
  | .twoOctet a b => tag "rd2" [nat a, nat b]
  | .ip4 a b => tag "rd-ip" [astrT a, nat b]
  | .fourOctet a b => tag "rd4" [nat a, nat b]

def nlriT : Nlri → Term
  | .v4 a m => tag "v4" [nat a, nat m]
  | .v6 a m => tag "v6" [nat a, nat m]
  | .lv4 ls a m => tag "lv4" [list (ls.map nat), nat a, nat m]
  | .lv6 ls a m => tag "lv6" [list (ls.map nat), nat a, nat m]
  | .vpn4 ls rd a m => tag "vpn4" [list (ls.map nat), rdT rd, nat a, nat m]
  | .vpn6 ls rd a m => tag "vpn6" [list (ls.map nat), rdT rd, nat a, nat m]

def apiNlriT : ApiNlri → Term
  | .missing => sym "n-missing"
  | .other => sym "n-other"
  | .prefix s l => tag "prefix" [astrT s, nat l]
  | .labeled ls l s => tag "labeled" [list (ls.map nat), nat l, astrT s]
  | .vpn ls rd l s => tag "vpn" [list (ls.map nat), opt apiRdT rd, nat l, astrT s]

def attrObsT (o : AttrObs) : Term :=
  tag "attr-obs" [attrT o.a, tag "api" [outT apiAttrT o.api],
    tag "back" [match o.back with | none => sym "none" | some r => outT attrT r], useT o.use]

def nlriObsT (o : NlriObs) : Term :=
  tag "n" [nlriT o.n, apiNlriT o.api, outT nlriT o.back, outT bytes o.enc, unitOutT o.msg, unitOutT o.ins]

def obsT : Obs → Term
  | .notStored true => tag "not-stored" [sym "rejected"]
  | .notStored false => tag "not-stored" [sym "dropped"]
  | .attr o => attrObsT o
  | .fromErr => tag "from" [sym "err"]
  | .fromPanic => tag "from" [sym "panic"]
  | .decodeErr => tag "decode" [sym "err"]
  | .decodePanic => tag "decode" [sym "panic"]
  | .nlris l => tag "nlris" (l.map nlriObsT)
  | .addRefused => tag "grpc" [sym "add-refused"]
  | .listed n ys v k => tag "grpc" [tag "listed" [apiNlriT n, list (ys.map apiAttrT)],
      tag "validation" [match v with
        | none => sym "none" | some .notFound => sym "not-found" | some .valid => sym "valid"
        | some .invalidAsn => sym "invalid-asn" | some .invalidLen => sym "invalid-length"],
      tag "after-delete" [nat k]]
  | .listPanic => tag "grpc" [sym "panic"]
  | .exploreOk => tag "x" [sym "ok"]
  | .exploreFail w => tag "x" [sym "fail", sym w]
  | .unmodelled => list [sym "bad-case"]

/-! ## parsers -/

def astrOf? : Term → Option AStr
  | .list [.atom "ip4", n] => (asNat? n).map .ip4
  | .list [.atom "ip6", n] => (asNat? n).map .ip6
  | .list [.atom "bad", n] => (asNat? n).map .bad
  | _ => none

def dataOf? : Term → Option Data
  | .list [.atom "val", n] => (asNat? n).map .val
  | .list [.atom "bin", b] => (asBytes? b).map .bin
  | .list [.atom "opaque", b] => (asBytes? b).map .raw
  | _ => none

def attrOf? : Term → Option Attribute
  | .list [.atom "attr", c, f, d] => do
      pure { code := (← asNat? c), flags := (← asNat? f), data := (← dataOf? d) }
  | _ => none

def extcomOf? : Term → Option ExtCom
  | .atom "ec-missing" => some .missing
  | .atom "ec-other" => some .other
  | .list [.atom "ec-unknown", t, v] => do pure (.unknown (← asNat? t) (← asBytes? v))
  | .list [.atom "two-as", t, s, a, l] => do
      pure (.twoOctetAs (← asBool? t) (← asNat? s) (← asNat? a) (← asNat? l))
  | .list [.atom "ip4-as", t, s, a, l] => do
      pure (.ipv4 (← asBool? t) (← asNat? s) (← astrOf? a) (← asNat? l))
  | .list [.atom "four-as", t, s, a, l] => do
      pure (.fourOctetAs (← asBool? t) (← asNat? s) (← asNat? a) (← asNat? l))
  | .list [.atom "mup", s, a, b] => do pure (.mup (← asNat? s) (← asNat? a) (← asNat? b))
  | .list [.atom "rate", a, r] => do pure (.trafficRate (← asNat? a) (← asNat? r))
  | .list [.atom "action", t, s] => do pure (.trafficAction (← asBool? t) (← asBool? s))
  | .list [.atom "redir2", a, l] => do pure (.redirect2 (← asNat? a) (← asNat? l))
  | .list [.atom "remark", d] => (asNat? d).map .trafficRemark
  | .list [.atom "redir-ip", a, l] => do pure (.redirectIp4 (← astrOf? a) (← asNat? l))
  | .list [.atom "redir4", a, l] => do pure (.redirect4 (← asNat? a) (← asNat? l))
  | _ => none

def segOf? : Term → Option (Nat × List Nat)
  | .list [t, ns] => do pure ((← asNat? t), (← asListOf? asNat? ns))
  | _ => none

def tripleOf? : Term → Option (Nat × Nat × Nat)
  | .list [a, b, c] => do pure ((← asNat? a), (← asNat? b), (← asNat? c))
  | _ => none

def apiAttrOf? : Term → Option ApiAttr
  | .atom "missing" => some .missing
  | .atom "other" => some .other
  | .list [.atom "unknown", f, t, v] => do pure (.unknown (← asNat? f) (← asNat? t) (← asBytes? v))
  | .list [.atom "origin", n] => (asNat? n).map .origin
  | .list [.atom "as-path", segs] => (asListOf? segOf? segs).map .asPath
  | .list [.atom "next-hop", s] => (astrOf? s).map .nextHop
  | .list [.atom "med", n] => (asNat? n).map .med
  | .list [.atom "local-pref", n] => (asNat? n).map .localPref
  | .atom "atomic-aggregate" => some .atomicAggregate
  | .list [.atom "aggregator", a, s] => do pure (.aggregator (← asNat? a) (← astrOf? s))
  | .list [.atom "communities", l] => (asListOf? asNat? l).map .communities
  | .list [.atom "originator-id", s] => (astrOf? s).map .originatorId
  | .list [.atom "cluster-list", l] => (asListOf? astrOf? l).map .clusterList
  | .list [.atom "large-communities", l] => (asListOf? tripleOf? l).map .largeCommunities
  | .list [.atom "ext-communities", l] => (asListOf? extcomOf? l).map .extCommunities
  | .list [.atom "mp-reach", .atom "none", l] => do pure (.mpReach none (← asListOf? astrOf? l))
  | .list [.atom "mp-reach", .list [a, s], l] => do pure (.mpReach (some (← asNat? a, ← asNat? s)) (← asListOf? astrOf? l))
  | _ => none

def outOf? {α} (f : Term → Option α) : Term → Option (Out α)
  | .list [.atom "ok", t] => (f t).map .ok
  | .atom "err" => some .err
  | .atom "panic" => some .panic
  | _ => none

def unitOutOf? : Term → Option (Out Unit)
  | .atom "ok" => some (.ok ())
  | .atom "err" => some .err
  | .atom "panic" => some .panic
  | _ => none

def useOf? : Term → Option Use
  | .list [.atom "use", l, o, e, c, p, m4, m2] => do
      let len ← (match l with | .atom "na" => some none | t => (outOf? asNat? t).map some)
      let origin ← (match o with | .atom "na" => some none | t => (outOf? (asOpt? asNat?) t).map some)
      pure { len := len, origin := origin, enc := (← outOf? asBytes? e), cmp := (← unitOutOf? c),
             pol := (← outOf? asBytes? p), msg4 := (← unitOutOf? m4), msg2 := (← unitOutOf? m2) }
  | _ => none

def rdOf? : Term → Option Rd
  | .list [.atom "rd2", a, b] => do pure (.twoOctet (← asNat? a) (← asNat? b))
  | .list [.atom "rd-ip", a, b] => do pure (.ip4 (← asNat? a) (← asNat? b))
  | .list [.atom "rd4", a, b] => do pure (.fourOctet (← asNat? a) (← asNat? b))
  | _ => none

def apiRdOf? : Term → Option ApiRd
  | .atom "rd-missing" => some .missing
  | .list [.atom "rd2", a, b] => do pure (.twoOctet (← asNat? a) (← asNat? b))
  | .list [.atom "rd-ip", a, b] => do pure (.ip4 (← astrOf? a) (← asNat? b))
  | .list [.atom "rd4", a, b] => do pure (.fourOctet (← asNat? a) (← asNat? b))
  | _ => none

def nlriOf? : Term → Option Nlri
  | .list [.atom "v4", a, m] => do pure (.v4 (← asNat? a) (← asNat? m))
  | .list [.atom "v6", a, m] => do pure (.v6 (← asNat? a) (← asNat? m))
  | .list [.atom "lv4", ls, a, m] => do pure (.lv4 (← asListOf? asNat? ls) (← asNat? a) (← asNat? m))
  | .list [.atom "lv6", ls, a, m] => do pure (.lv6 (← asListOf? asNat? ls) (← asNat? a) (← asNat? m))
  | .list [.atom "vpn4", ls, rd, a, m] => do
      pure (.vpn4 (← asListOf? asNat? ls) (← rdOf? rd) (← asNat? a) (← asNat? m))
  | .list [.atom "vpn6", ls, rd, a, m] => do
      pure (.vpn6 (← asListOf? asNat? ls) (← rdOf? rd) (← asNat? a) (← asNat? m))
  | _ => none

def apiNlriOf? : Term → Option ApiNlri
  | .atom "n-missing" => some .missing
  | .atom "n-other" => some .other
  | .list [.atom "prefix", s, l] => do pure (.prefix (← astrOf? s) (← asNat? l))
  | .list [.atom "labeled", ls, l, s] => do
      pure (.labeled (← asListOf? asNat? ls) (← asNat? l) (← astrOf? s))
  | .list [.atom "vpn", ls, rd, l, s] => do
      pure (.vpn (← asListOf? asNat? ls) (← asOpt? apiRdOf? rd) (← asNat? l) (← astrOf? s))
  | _ => none

def famOf? : Term → Option Fam
  | .atom "v4" => some .v4 | .atom "v6" => some .v6
  | .atom "lv4" => some .lv4 | .atom "lv6" => some .lv6
  | .atom "vpn4" => some .vpn4 | .atom "vpn6" => some .vpn6
  | _ => none

def caseOf? : Term → Option Case
  | .list [.atom "attr-wire", c, f, b] => do pure (.attrWire (← asNat? c) (← asNat? f) (← asBytes? b))
  | .list [.atom "attr-api", x] => (apiAttrOf? x).map .attrApi
  | .list [.atom "nlri-wire", f, b] => do pure (.nlriWire (← famOf? f) (← asBytes? b))
  | .list [.atom "nlri-api", x] => (apiNlriOf? x).map .nlriApi
  | .list [.atom "grpc", x, as] => do pure (.grpc (← apiNlriOf? x) (← asListOf? apiAttrOf? as) [] false)
  | .list [.atom "grpc-vrf", x, as] => do pure (.grpc (← apiNlriOf? x) (← asListOf? apiAttrOf? as) [] true)
  | .list [.atom "grpc", x, as, .list (.atom "vrps" :: vs)] => do
      let vrps ← vs.mapM fun t => match t with
        | .list [a, l, m, n] => do pure { addr := (← asNat? a), len := (← asNat? l), maxLen := (← asNat? m), asn := (← asNat? n) : Vrp }
        | _ => none
      pure (.grpc (← apiNlriOf? x) (← asListOf? apiAttrOf? as) vrps false)
  | .list (.atom "x" :: .atom kind :: _) => some (.explore kind)
  | _ => none

def attrObsOf? : Term → Option AttrObs
  | .list [.atom "attr-obs", a, .list [.atom "api", x], .list [.atom "back", b], u] => do
      let back ← (match b with | .atom "none" => some none | t => (outOf? attrOf? t).map some)
      pure { a := (← attrOf? a), api := (← outOf? apiAttrOf? x), back := back, use := (← useOf? u) }
  | _ => none

def nlriObsOf? : Term → Option NlriObs
  | .list [.atom "n", n, x, b, e, m, i] => do
      pure { n := (← nlriOf? n), api := (← apiNlriOf? x), back := (← outOf? nlriOf? b), enc := (← outOf? asBytes? e),
             msg := (← unitOutOf? m), ins := (← unitOutOf? i) }
  | _ => none

def obsOf? : Term → Option Obs
  | .list [.atom "not-stored", .atom "rejected"] => some (.notStored true)
  | .list [.atom "not-stored", .atom "dropped"] => some (.notStored false)
  | .list [.atom "from", .atom "err"] => some .fromErr
  | .list [.atom "from", .atom "panic"] => some .fromPanic
  | .list [.atom "decode", .atom "err"] => some .decodeErr
  | .list [.atom "decode", .atom "panic"] => some .decodePanic
  | .list (.atom "nlris" :: l) => (l.mapM nlriObsOf?).map .nlris
  | .list [.atom "grpc", .atom "add-refused"] => some .addRefused
  | .list [.atom "grpc", .atom "panic"] => some .listPanic
  | .list [.atom "grpc", .list [.atom "listed", n, ys], .list [.atom "validation", .atom v],
      .list [.atom "after-delete", k]] => do
      let val ← (match v with
        | "none" => some none | "not-found" => some (some RState.notFound) | "valid" => some (some .valid)
        | "invalid-asn" => some (some .invalidAsn) | "invalid-length" => some (some .invalidLen) | _ => none)
      pure (.listed (← apiNlriOf? n) (← asListOf? apiAttrOf? ys) val (← asNat? k))
  | .list [.atom "x", .atom "ok"] => some .exploreOk
  | .list [.atom "x", .atom "fail", .atom w] => some (.exploreFail w)
  | .list [.atom "bad-case"] => some .unmodelled
  | t => (attrObsOf? t).map .attr

end Rbgp.Api.Codec
