/-
  Rbgp.Api.Model — C17: the gRPC <-> internal conversions of daemon/src/convert.rs
  (`attr_to_api`, `attr_from_api`, `read_extcom`/`write_extcom`, `nlri_to_api`, `net_from_api`,
  `rd_to_api`/`rd_from_api`), the wire decoder that produces the values they are applied to
  (packet/src/bgp.rs: the attribute loop of `parse_message` + `Attribute::decode`, `Ipv4Net/Ipv6Net::decode`,
  labeled.rs / vpn.rs / mpls.rs / rd.rs) and the consumers a stored value later meets
  (`Attribute::encode`, `as_path_length`, `as_path_origin`, `as_path_prepend`, the accessors of
  `impl Ord for RibEntry`, the two-octet-AS helpers of `do_encode`, `Nlri::encode`).

  One Lean function per Rust function, same branch order.  `unwrap`/index/`unreachable!`/debug overflow
  are explicit `panic` outcomes.  Numbers are `Nat`; a byte string is a `List Nat` of values < 256.
  Import-free (core only).

  Address strings.  The API carries addresses as text.  The model does not re-implement
  `std::net::{Ipv4Addr,Ipv6Addr}::{from_str,to_string}`; a string field is the abstract value
  `AStr` = "the text std prints for this IPv4 address" | "... for this IPv6 address" | "a text std
  parses as neither".  The harness renders `AStr` to concrete text with std and classifies text
  produced by the real code with std (trusted base: `from_str (to_string a) = a` in std).
-/
namespace Rbgp.Api

abbrev Bytes := List Nat

/-! ## outcomes -/

inductive Out (α : Type) where
  | ok (a : α)
  | err
  | panic
  deriving DecidableEq, Repr

namespace Out
def bind {α β} (x : Out α) (f : α → Out β) : Out β :=
  match x with
  | ok a => f a
  | err => err
  | panic => panic
def map {α β} (f : α → β) (x : Out α) : Out β :=
  match x with
  | ok a => ok (f a)
  | err => err
  | panic => panic
instance : Monad Out where
  pure := ok
  bind := bind
def isPanic {α} : Out α → Bool
  | panic => true
  | _ => false
def isOk {α} : Out α → Bool
  | ok _ => true
  | _ => false
/-- run for the outcome only -/
def void {α} (x : Out α) : Out Unit := x.map fun _ => ()
end Out

/-- `opt.unwrap()` -/
def unwrapO {α} : Option α → Out α
  | some a => .ok a
  | none => .panic
/-- `opt.ok_or(Error)?` -/
def okOr {α} : Option α → Out α
  | some a => .ok a
  | none => .err

/-! ## big-endian fields -/

/-- `k` big-endian bytes of `n` (low `8k` bits). -/
def beN : Nat → Nat → Bytes
  | 0, _ => []
  | k + 1, n => beN k (n / 256) ++ [n % 256]

/-- value of a big-endian byte string -/
def ofBe (bs : Bytes) : Nat := bs.foldl (fun acc b => acc * 256 + b) 0

/-- the first `n` big-endian u32 of `bs` (callers check `n * 4 ≤ bs.length`) -/
def u32s : Nat → Bytes → List Nat
  | 0, _ => []
  | n + 1, a :: b :: c :: d :: rest => ofBe [a, b, c, d] :: u32s n rest
  | _ + 1, _ => []

/-- consecutive `k`-byte chunks, `n` of them (callers check the length) -/
def chunksN (k : Nat) : Nat → Bytes → List Bytes
  | 0, _ => []
  | n + 1, bs => bs.take k :: chunksN k n (bs.drop k)

/-! ## the internal attribute (packet/src/bgp.rs `Attribute`, `AttributeData`) -/

inductive Data where
  | val (n : Nat)
  | bin (bs : Bytes)
  | raw (bs : Bytes)     -- `AttributeData::Opaque`
  deriving DecidableEq, Repr

structure Attribute where
  code : Nat
  flags : Nat
  data : Data
  deriving DecidableEq, Repr

namespace Attribute
def ORIGIN := 1
def AS_PATH := 2
def NEXTHOP := 3
def MED := 4
def LOCAL_PREF := 5
def ATOMIC_AGGREGATE := 6
def AGGREGATOR := 7
def COMMUNITY := 8
def ORIGINATOR_ID := 9
def CLUSTER_LIST := 10
def MP_REACH := 14
def MP_UNREACH := 15
def EXTENDED_COMMUNITY := 16
def AS4_PATH := 17
def AS4_AGGREGATOR := 18
def TUNNEL_ENCAP := 23
def AIGP := 26
def LS := 29
def LARGE_COMMUNITY := 32
def PREFIX_SID := 40

/-- `Attribute::value()` -/
def value (a : Attribute) : Option Nat :=
  match a.data with
  | .val v => some v
  | _ => none
/-- `Attribute::binary()` -/
def binary (a : Attribute) : Option Bytes :=
  match a.data with
  | .val _ => none
  | .bin b => some b
  | .raw b => some b
end Attribute

/-- `Attribute::canonical_flags` (TRANSITIVE = 0x40, OPTIONAL = 0x80). -/
def canonicalFlags (code : Nat) : Option Nat :=
  if code = 1 ∨ code = 2 ∨ code = 3 ∨ code = 5 ∨ code = 6 then some 0x40
  else if code = 4 ∨ code = 9 ∨ code = 10 ∨ code = 14 ∨ code = 15 ∨ code = 26 ∨ code = 29 then some 0x80
  else if code = 7 ∨ code = 8 ∨ code = 16 ∨ code = 17 ∨ code = 18 ∨ code = 32 ∨ code = 40 ∨ code = 23 then some 0xC0
  else none

/-- `Attribute::new_with_value` -/
def newWithValue (code v : Nat) : Option Attribute :=
  (canonicalFlags code).map fun f => { code := code, flags := f, data := .val v }
/-- `Attribute::new_with_bin` -/
def newWithBin (code : Nat) (bs : Bytes) : Option Attribute :=
  (canonicalFlags code).map fun f => { code := code, flags := f, data := .bin bs }

/-- the OPTIONAL and TRANSITIVE bits of a flags byte (`flags & 0xC0`, as a number 0..3) -/
def classBits (f : Nat) : Nat := f / 64 % 4

/-! ## wire decoder: `parse_message` attribute loop + `Attribute::decode` (four-octet-AS session) -/

/-- the segment walk of `Attribute::decode` for AS_PATH: type 1..4, a non-zero count byte (RFC 7606
    §7.2, C04 repair), count*4 bytes present -/
def segsOk : Bytes → Bool
  | [] => true
  | [_] => false
  | t :: l :: rest =>
      if 1 ≤ t ∧ t ≤ 4 ∧ l ≠ 0 ∧ l * 4 ≤ rest.length then segsOk (rest.drop (l * 4)) else false
termination_by bs => bs.length
decreasing_by simp only [List.length_drop, List.length_cons]; omega

/-- AS4_PATH additionally rejects empty segments -/
def segs4Ok : Bytes → Bool
  | [] => true
  | [_] => false
  | t :: l :: rest =>
      if 1 ≤ t ∧ t ≤ 4 ∧ l ≠ 0 ∧ l * 4 ≤ rest.length then segs4Ok (rest.drop (l * 4)) else false
termination_by bs => bs.length
decreasing_by simp only [List.length_drop, List.length_cons]; omega

/-- the TLV walk of `Attribute::decode` for AIGP (C05 repair 1831a53): 1-byte type, 2-byte length that
    includes these three bytes, at least 3 and not past the end -/
def aigpOk : Bytes → Bool
  | [] => true
  | [_] => false
  | [_, _] => false
  | _ :: l1 :: l2 :: rest =>
      if 3 ≤ l1 * 256 + l2 ∧ l1 * 256 + l2 ≤ rest.length + 3 then aigpOk (rest.drop (l1 * 256 + l2 - 3))
      else false
termination_by bs => bs.length
decreasing_by simp only [List.length_drop, List.length_cons]; omega

/-- `Attribute::decode(code, flags, c, len, two_byte_as = false)`: the data part; `none` = `Err(())` -/
def decodeData (code : Nat) (bs : Bytes) : Option Data :=
  let len := bs.length
  if code = 1 then
    match bs with
    | [v] => if v > 2 then none else some (.val v)
    | _ => none
  else if code = 4 ∨ code = 5 ∨ code = 9 then
    if len ≠ 4 then none else some (.val (ofBe bs))
  else if code = 2 then
    if segsOk bs then some (.bin bs) else none
  else if code = 6 then
    if len ≠ 0 then none else some (.bin [])
  else if code = 7 then
    if len ≠ 6 ∧ len ≠ 8 then none
    else if len = 6 then some (.bin (beN 4 (ofBe (bs.take 2)) ++ bs.drop 2))
    else some (.bin bs)
  else if code = 8 ∨ code = 10 then
    if len % 4 ≠ 0 then none else some (.bin bs)
  else if code = 16 then
    if len % 8 ≠ 0 then none else some (.bin bs)
  else if code = 32 then
    if len % 12 ≠ 0 then none else some (.bin bs)
  else if code = 17 then
    if len % 2 ≠ 0 ∨ len < 6 then none
    else if segs4Ok bs then some (.bin bs) else none
  else if code = 18 then
    if len ≠ 8 then none else some (.bin bs)
  else if code = 3 then
    if len ≠ 4 then none else some (.bin bs)
  else if code = 26 then
    if aigpOk bs then some (.bin bs) else none
  else some (.bin bs)

inductive Decoded where
  | stored (a : Attribute)   -- pushed to `attrs`
  | rejected                 -- pushed to `error_attrs` (RFC 7606 handling by the caller)
  | dropped                  -- consumed elsewhere (NEXT_HOP, MP_*) or silently discarded
  deriving DecidableEq, Repr

/-- one iteration of the attribute loop of `parse_message` for an attribute whose value is `bs` -/
def decodeAttr (code flags : Nat) (bs : Bytes) : Decoded :=
  match canonicalFlags code with
  | some expected =>
      if classBits flags ≠ classBits expected then .rejected
      else
        match decodeData code bs with
        | some d =>
            if code = 14 ∨ code = 15 ∨ code = 3 then .dropped
            else if code = 17 ∨ code = 18 then .dropped
            else .stored { code := code, flags := flags, data := d }
        | none => if code = 17 ∨ code = 18 then .dropped else .rejected
  | none =>
      if flags / 128 % 2 = 0 then .rejected
      else if flags / 64 % 2 ≠ 0 then .stored { code := code, flags := flags, data := .raw bs }
      else .dropped

/-! ## API messages (api/proto/attribute.proto, extcom.proto, nlri.proto) -/

/-- an address-typed string field, see the header -/
inductive AStr where
  | ip4 (n : Nat)
  | ip6 (n : Nat)
  | bad (k : Nat)
  deriving DecidableEq, Repr

/-- `Ipv4Addr::from_str` -/
def AStr.parse4 : AStr → Option Nat
  | .ip4 n => some n
  | _ => none
/-- `Ipv6Addr::from_str` -/
def AStr.parse6 : AStr → Option Nat
  | .ip6 n => some n
  | _ => none

inductive ExtCom where
  | missing                                           -- `extcom: None`
  | other                                             -- a oneof variant `write_extcom` has no arm for
  | unknown (ty : Nat) (value : Bytes)
  | twoOctetAs (trans : Bool) (sub asn la : Nat)
  | ipv4 (trans : Bool) (sub : Nat) (addr : AStr) (la : Nat)
  | fourOctetAs (trans : Bool) (sub asn la : Nat)
  | mup (sub seg2 seg4 : Nat)
  | trafficRate (asn rateBits : Nat)
  | trafficAction (terminal sample : Bool)
  | redirect2 (asn la : Nat)
  | trafficRemark (dscp : Nat)
  | redirectIp4 (addr : AStr) (la : Nat)
  | redirect4 (asn la : Nat)
  deriving DecidableEq, Repr

inductive ApiAttr where
  | missing                                           -- `attr: None`
  | other                                             -- a oneof variant `attr_from_api` has no arm for
  | unknown (flags ty : Nat) (value : Bytes)
  | origin (n : Nat)
  | asPath (segs : List (Nat × List Nat))             -- type = the i32 as its u32 bit pattern
  | nextHop (s : AStr)
  | med (n : Nat)
  | localPref (n : Nat)
  | atomicAggregate
  | aggregator (asn : Nat) (addr : AStr)
  | communities (l : List Nat)
  | originatorId (s : AStr)
  | clusterList (ids : List AStr)
  | largeCommunities (l : List (Nat × Nat × Nat))
  | extCommunities (l : List ExtCom)
  /-- `MpReachNlriAttribute`: family (`None`, or afi / safi as the u32 bit patterns of the i32 fields) and the
      next hops as text; its `nlris` are not read by `attr_from_api` (AddPath carries the NLRI in `Path.nlri`) -/
  | mpReach (fam : Option (Nat × Nat)) (nextHops : List AStr)
  deriving DecidableEq, Repr

/-- which repairs of this property are present in the code being modelled -/
structure Fixes where
  /-- `attr_from_api` validates ORIGIN, AS_PATH segments, NEXT_HOP text and raw (`Unknown`) messages;
      `net_from_api` validates prefix length and label stack of labeled / VPN prefixes -/
  validate : Bool
  /-- `attr_to_api` shows an extended community in typed form only when that form carries all 64 bits -/
  extcomExact : Bool
  deriving DecidableEq, Repr

/-! ### field ranges of a protobuf message (`uint32`, `bytes`) -/

def u32 (n : Nat) : Bool := n < 4294967296

def AStr.inRange : AStr → Bool
  | .ip4 n => u32 n
  | .ip6 n => n < 2 ^ 128
  | .bad k => u32 k

def isBytes (bs : Bytes) : Bool := bs.all (· < 256)

def ExtCom.inRange : ExtCom → Bool
  | .missing => true
  | .other => true
  | .unknown ty v => u32 ty && isBytes v
  | .twoOctetAs _ s a l => u32 s && u32 a && u32 l
  | .ipv4 _ s a l => u32 s && a.inRange && u32 l
  | .fourOctetAs _ s a l => u32 s && u32 a && u32 l
  | .mup s a b => u32 s && u32 a && u32 b
  | .trafficRate a r => u32 a && u32 r
  | .trafficAction _ _ => true
  | .redirect2 a l => u32 a && u32 l
  | .trafficRemark d => u32 d
  | .redirectIp4 a l => a.inRange && u32 l
  | .redirect4 a l => u32 a && u32 l

def ApiAttr.inRange : ApiAttr → Bool
  | .missing => true
  | .other => true
  | .unknown f t v => u32 f && u32 t && isBytes v
  | .origin n => u32 n
  | .asPath segs => segs.all fun s => u32 s.1 && s.2.all u32
  | .nextHop s => s.inRange
  | .med n => u32 n
  | .localPref n => u32 n
  | .atomicAggregate => true
  | .aggregator a s => u32 a && s.inRange
  | .communities l => l.all u32
  | .originatorId s => s.inRange
  | .clusterList l => l.all AStr.inRange
  | .largeCommunities l => l.all fun t => u32 t.1 && u32 t.2.1 && u32 t.2.2
  | .extCommunities l => l.all ExtCom.inRange
  | .mpReach fam nhs => (match fam with | some (a, s) => u32 a && u32 s | none => true) && nhs.all AStr.inRange

/-! ## `read_extcom` / `write_extcom` -/

def boolBit (b : Bool) (v : Nat) : Nat := if b then v else 0

/-- `read_extcom` on one 8-byte chunk (`attr_to_api` passes `len / 8` whole chunks, so no read fails) -/
def readExtcom : Bytes → ExtCom
  | [t, s, b2, b3, b4, b5, b6, b7] =>
      let trans := t / 64 % 2 = 0                 -- type_high & 0x40 == 0
      let cat := t - (t / 64 % 2) * 64            -- type_high & !0x40
      let raw := ExtCom.unknown t [t, s, b2, b3, b4, b5, b6, b7]
      if cat = 0x00 then .twoOctetAs trans s (ofBe [b2, b3]) (ofBe [b4, b5, b6, b7])
      else if cat = 0x01 then .ipv4 trans s (.ip4 (ofBe [b2, b3, b4, b5])) (ofBe [b6, b7])
      else if cat = 0x02 then .fourOctetAs trans s (ofBe [b2, b3, b4, b5]) (ofBe [b6, b7])
      else if cat = 0x0c then .mup s (ofBe [b2, b3]) (ofBe [b4, b5, b6, b7])
      else if cat = 0x80 then
        if s = 0x06 then .trafficRate (ofBe [b2, b3]) (ofBe [b4, b5, b6, b7])
        else if s = 0x07 then .trafficAction (b7 % 2 = 1) (b7 / 2 % 2 = 1)
        else if s = 0x08 then .redirect2 (ofBe [b2, b3]) (ofBe [b4, b5, b6, b7])
        else if s = 0x09 then .trafficRemark (b7 % 64)
        else raw
      else if cat = 0x81 then
        if s = 0x08 then .redirectIp4 (.ip4 (ofBe [b2, b3, b4, b5])) (ofBe [b6, b7]) else raw
      else if cat = 0x82 then
        if s = 0x08 then .redirect4 (ofBe [b2, b3, b4, b5]) (ofBe [b6, b7]) else raw
      else raw
  | bs => .unknown 0 bs     -- not reached: chunks are 8 bytes

/-- `ensure_u8` / `ensure_u16` -/
def ensure (bound v : Nat) : Option Nat := if v > bound then none else some v

/-- `write_extcom`: the 8 bytes appended, `none` = `Err(InvalidArgument)` -/
def writeExtcom : ExtCom → Option Bytes
  | .missing => none
  | .other => none
  | .unknown _ value => if value.length ≠ 8 then none else some value
  | .twoOctetAs trans sub asn la => do
      let s ← ensure 255 sub
      let a ← ensure 65535 asn
      pure ([0x00 + boolBit (!trans) 0x40, s] ++ beN 2 a ++ beN 4 la)
  | .ipv4 trans sub addr la => do
      let s ← ensure 255 sub
      let a ← addr.parse4
      let l ← ensure 65535 la
      pure ([0x01 + boolBit (!trans) 0x40, s] ++ beN 4 a ++ beN 2 l)
  | .fourOctetAs trans sub asn la => do
      let s ← ensure 255 sub
      let l ← ensure 65535 la
      pure ([0x02 + boolBit (!trans) 0x40, s] ++ beN 4 asn ++ beN 2 l)
  | .mup sub seg2 seg4 => do
      let s ← ensure 255 sub
      let s2 ← ensure 65535 seg2
      pure ([0x0c, s] ++ beN 2 s2 ++ beN 4 seg4)
  | .trafficRate asn rate => do
      let a ← ensure 65535 asn
      pure ([0x80, 0x06] ++ beN 2 a ++ beN 4 rate)
  | .trafficAction terminal sample =>
      some [0x80, 0x07, 0, 0, 0, 0, 0, boolBit terminal 1 + boolBit sample 2]
  | .redirect2 asn la => do
      let a ← ensure 65535 asn
      pure ([0x80, 0x08] ++ beN 2 a ++ beN 4 la)
  | .trafficRemark dscp => some [0x80, 0x09, 0, 0, 0, 0, 0, dscp % 64]
  | .redirectIp4 addr la => do
      let a ← addr.parse4
      let l ← ensure 65535 la
      pure ([0x81, 0x08] ++ beN 4 a ++ beN 2 l)
  | .redirect4 asn la => do
      let l ← ensure 65535 la
      pure ([0x82, 0x08] ++ beN 4 asn ++ beN 2 l)

/-- the extended-community arm of `attr_to_api` for one chunk: with the repair, the typed form is kept
    only if `write_extcom` reproduces the chunk, else the raw `Unknown` form is shown -/
def showExtcom (fx : Fixes) (c : Bytes) : ExtCom :=
  let t := readExtcom c
  if fx.extcomExact then
    if writeExtcom t = some c then t
    else match c with
      | ty :: _ => .unknown ty c
      | [] => .unknown 0 c          -- not reached: chunks are 8 bytes
  else t

/-! ## `attr_to_api` -/

/-- the AS_PATH cursor walk of `attr_to_api`: every read is `.unwrap()` -/
def asPathToSegs : Bytes → Out (List (Nat × List Nat))
  | [] => .ok []
  | [_] => .panic
  | t :: l :: rest =>
      if l * 4 ≤ rest.length then
        (asPathToSegs (rest.drop (l * 4))).map fun tl => (t, u32s l rest) :: tl
      else .panic
termination_by bs => bs.length
decreasing_by simp only [List.length_drop, List.length_cons]; omega

/-- codes whose API form is inside the model (LS / TUNNEL_ENCAP / PREFIX_SID use their own TLV codecs
    and are explored implementation-only) -/
def modelledCode (code : Nat) : Bool := code ≠ 23 ∧ code ≠ 29 ∧ code ≠ 40

def triples : Nat → Bytes → List (Nat × Nat × Nat)
  | 0, _ => []
  | n + 1, bs =>
      (ofBe (bs.take 4), ofBe ((bs.drop 4).take 4), ofBe ((bs.drop 8).take 4)) :: triples n (bs.drop 12)

/-- `attr_to_api` (for `modelledCode a.code`) -/
def toApi (fx : Fixes) (a : Attribute) : Out ApiAttr :=
  let c := a.code
  if c = 1 then do
    let v ← unwrapO a.value
    pure (.origin v)
  else if c = 2 then do
    let b ← unwrapO a.binary
    let segs ← asPathToSegs b
    pure (.asPath segs)
  else if c = 3 then do
    let b ← unwrapO a.binary
    if b.length = 16 then pure (.nextHop (.ip6 (ofBe b)))
    else if b.length < 4 then .panic
    else pure (.nextHop (.ip4 (ofBe (b.take 4))))
  else if c = 4 then do
    let v ← unwrapO a.value
    pure (.med v)
  else if c = 5 then do
    let v ← unwrapO a.value
    pure (.localPref v)
  else if c = 6 then pure .atomicAggregate
  else if c = 7 then do
    let b ← unwrapO a.binary
    if b.length = 6 then pure (.aggregator (ofBe (b.take 2)) (.ip4 (ofBe (b.drop 2))))
    else if b.length = 8 then pure (.aggregator (ofBe (b.take 4)) (.ip4 (ofBe (b.drop 4))))
    else .panic
  else if c = 8 then do
    let b ← unwrapO a.binary
    pure (.communities (u32s (b.length / 4) b))
  else if c = 9 then do
    let v ← unwrapO a.value
    pure (.originatorId (.ip4 v))
  else if c = 10 then do
    let b ← unwrapO a.binary
    pure (.clusterList ((u32s (b.length / 4) b).map .ip4))
  else if c = 32 then do
    let b ← unwrapO a.binary
    pure (.largeCommunities (triples (b.length / 12) b))
  else if c = 16 then do
    let b ← unwrapO a.binary
    pure (.extCommunities ((chunksN 8 (b.length / 8) b).map (showExtcom fx)))
  else do
    let b ← unwrapO a.binary
    pure (.unknown a.flags a.code b)

/-! ## `attr_from_api` -/

def okOrErr {α} : Option α → Out α := okOr

/-- codes that have a typed API message (and a typed internal form the consumers rely on), plus
    AS4_PATH / AS4_AGGREGATOR which a four-octet-AS speaker never stores -/
def typedCode (code : Nat) : Bool :=
  code = 1 ∨ code = 2 ∨ code = 3 ∨ code = 4 ∨ code = 5 ∨ code = 6 ∨ code = 7 ∨ code = 8 ∨ code = 9 ∨
  code = 10 ∨ code = 16 ∨ code = 32 ∨ code = 23 ∨ code = 29 ∨ code = 17 ∨ code = 18

/-- the carrier `attr_from_api` builds for an `MpReachNlriAttribute`: `[AFI:2][SAFI:1][NH_LEN:1][next hop][reserved:1]`
    (no NLRI) -/
def mpCarrier (afi safi : Nat) (nh : Bytes) : Bytes := beN 2 afi ++ [safi, nh.length] ++ nh ++ [0]

/-- the value of the MP_REACH carrier for a typed message (`none` = `Err(InvalidArgument)`): the family must
    fit the wire (F17g repair), a FlowSpec family may come without a next hop (RFC 8955 section 4), otherwise
    the FIRST next hop is taken, as IPv4 or IPv6 text -/
def mpReachValue (fx : Fixes) (fam : Option (Nat × Nat)) (nhs : List AStr) : Option Bytes :=
  match fam with
  | none => none
  | some (afi, safi) =>
      if fx.validate ∧ (afi > 65535 ∨ safi > 255) then none
      else
        let afi := afi % 65536
        let safi := safi % 256
        match nhs with
        | [] => if (afi = 1 ∨ afi = 2) ∧ (safi = 133 ∨ safi = 134) then some (mpCarrier afi safi []) else none
        | s :: _ =>
            match s.parse4 with
            | some a => some (mpCarrier afi safi (beN 4 a))
            | none =>
                match s.parse6 with
                | some a => some (mpCarrier afi safi (beN 16 a))
                | none => none

/-- `attr_from_api` without the exactness / size checks (see `fromApi`) -/
def fromApi0 (fx : Fixes) : ApiAttr → Out Attribute
  | .missing => .err
  | .other => .err
  | .unknown flags ty value =>
      let code := ty % 256
      if fx.validate then
        if ty > 255 ∨ flags > 255 then .err
        else
          match canonicalFlags code with
          | some f =>
              if typedCode code then .err
              else if code = 26 ∧ aigpOk value = false then .err
              else .ok { code := code, flags := f, data := .bin value }
          | none =>
              if flags / 128 % 2 = 1 ∧ flags / 64 % 2 = 1 then
                .ok { code := code, flags := flags, data := .raw value }
              else .err
      else okOrErr (newWithBin code value)
  | .origin o =>
      if fx.validate ∧ o > 2 then .err else okOrErr (newWithValue 1 o)
  | .asPath segs =>
      if fx.validate ∧ segs.any (fun s => !(1 ≤ s.1 ∧ s.1 ≤ 4) || s.2.length > 255) then .err
      else
        okOrErr (newWithBin 2
          (segs.flatMap fun s => [s.1 % 256, s.2.length % 256] ++ s.2.flatMap (beN 4)))
  | .nextHop s =>
      match s.parse4 with
      | some a => okOrErr (newWithBin 3 (beN 4 a))
      | none =>
          match s.parse6 with
          | some a => okOrErr (newWithBin 3 (beN 16 a))
          | none => if fx.validate then .err else okOrErr (newWithBin 3 [])
  | .med m => okOrErr (newWithValue 4 m)
  | .localPref l => okOrErr (newWithValue 5 l)
  | .atomicAggregate => unwrapO (newWithBin 6 [])
  | .aggregator asn addr =>
      match addr.parse4 with
      | none => .err
      | some a => okOrErr (newWithBin 7 (beN 4 asn ++ beN 4 a))
  | .communities l => okOrErr (newWithBin 8 (l.flatMap (beN 4)))
  | .originatorId s =>
      match s.parse4 with
      | none => .err
      | some a => okOrErr (newWithValue 9 a)
  | .clusterList ids =>
      match ids.mapM AStr.parse4 with
      | none => .err
      | some l => okOrErr (newWithBin 10 (l.flatMap (beN 4)))
  | .largeCommunities l =>
      okOrErr (newWithBin 32 (l.flatMap fun t => beN 4 t.1 ++ beN 4 t.2.1 ++ beN 4 t.2.2))
  | .extCommunities l =>
      match l.mapM writeExtcom with
      | none => .err
      | some cs => okOrErr (newWithBin 16 cs.flatten)
  | .mpReach fam nhs =>
      match mpReachValue fx fam nhs with
      | none => .err
      | some b => okOrErr (newWithBin 14 b)

/-- the largest attribute value any UPDATE can carry: 65535 (RFC 8654) - 19 header - 2 - 2 length
    fields - 4 attribute header -/
def maxAttrValue : Nat := 65508

def Attribute.valueLen (a : Attribute) : Nat :=
  match a.data with
  | .val _ => 4
  | .bin b => b.length
  | .raw b => b.length

/-- an extended community given exactly: nothing `write_extcom` would silently alter -/
def ExtCom.strict : ExtCom → Bool
  | .unknown ty v => (match v with | b :: _ => ty = b | [] => true)
  | .trafficRemark d => d ≤ 63
  | _ => true

/-- an attribute message given exactly: every field is stored as sent (third-wave repair: what would be
    altered silently is refused).  Raw messages of recognised codes may leave `flags` 0 (unset). -/
def ApiAttr.strict : ApiAttr → Bool
  | .unknown f t _ =>
      (match canonicalFlags (t % 256) with
       | some c => f = 0 || f = c
       | none => true)
  | .asPath segs => segs.all fun s => s.2.length ≠ 0
  | .extCommunities l => l.all ExtCom.strict
  | _ => true

/-- `attr_from_api`: exactness checks, conversion, then the size check -/
def fromApi (fx : Fixes) (x : ApiAttr) : Out Attribute :=
  if fx.validate ∧ x.strict = false then .err
  else
    match fromApi0 fx x with
    | .ok a => if fx.validate ∧ a.valueLen > maxAttrValue then .err else .ok a
    | .err => .err
    | .panic => .panic

/-! ## consumers of stored attributes -/

/-- `Attribute::as_path_length` (the hop accumulator is a `usize` since the C02 repair) -/
def asPathLengthLoop : Bytes → Nat → Out Nat
  | [], acc => .ok acc
  | [_], _ => .panic                                   -- `c.read_u8().unwrap()` for the count
  | t :: l :: rest, acc =>
      let step : Option Nat :=
        if t = 1 then some (acc + 1) else if t = 2 then some (acc + l)
        else if t = 3 ∨ t = 4 then some acc else none  -- `unreachable!()`
      match step with
      | none => .panic
      | some acc' => asPathLengthLoop (rest.drop (l * 4)) acc'
termination_by bs => bs.length
decreasing_by simp only [List.length_drop, List.length_cons]; omega

def asPathLength (a : Attribute) : Out Nat :=
  if a.code ≠ 2 then .panic                             -- `assert_eq!(self.code, AS_PATH)`
  else do
    let b ← unwrapO a.binary
    asPathLengthLoop b 0

/-- the loop of `Attribute::as_path_origin`; state = (t, num, asn) -/
def asPathOriginLoop : Bytes → Nat × Nat × Nat → Out (Nat × Nat × Nat)
  | [], st => .ok st
  | [_], _ => .panic
  | t :: n :: rest, st =>
      if n * 4 ≤ rest.length then
        let asn := match (u32s n rest).getLast? with
          | some x => x
          | none => st.2.2
        asPathOriginLoop (rest.drop (n * 4)) (t, n, asn)
      else .panic                                       -- `read_u32().unwrap()`
termination_by bs => bs.length
decreasing_by simp only [List.length_drop, List.length_cons]; omega

def asPathOrigin (a : Attribute) : Out (Option Nat) := do
  let b ← unwrapO a.binary
  if b.length < 2 then pure none
  else
    let st ← asPathOriginLoop b (0, 0, 0)
    pure (if st.1 = 2 ∧ st.2.1 > 0 then some st.2.2 else none)

/-- `Attribute::as_path_prepend` (new AS_PATH value) -/
def asPathPrepend (a : Attribute) (asn : Nat) : Out Attribute :=
  if a.code ≠ 2 then .panic
  else do
    let b ← unwrapO a.binary
    match b with
    | [] => pure { a with data := .bin ([2, 1] ++ beN 4 asn) }
    | [t] =>
        if t = 2 then .panic                              -- `buf[1]`
        else pure { a with data := .bin ([2, 1] ++ beN 4 asn ++ [t]) }
    | t :: l :: rest =>
        if t = 2 ∧ l < 255 then pure { a with data := .bin ([t, l + 1] ++ beN 4 asn ++ rest) }
        else pure { a with data := .bin ([2, 1] ++ beN 4 asn ++ b) }

/-- `Attribute::put_fixed_len` (C04 repair): two-octet length when the stored flags carry EXTENDED -/
def fixedLen (flags len : Nat) : Bytes := if flags / 16 % 2 = 1 then beN 2 len else [len]

/-- `Attribute::encode` (wire bytes of one attribute) -/
def encodeAttr (a : Attribute) : Out Bytes :=
  if a.code = 1 then do
    let v ← unwrapO a.value
    pure ([a.flags, a.code] ++ fixedLen a.flags 1 ++ [v % 256])
  else if a.code = 4 ∨ a.code = 5 ∨ a.code = 9 then do
    let v ← unwrapO a.value
    pure ([a.flags, a.code] ++ fixedLen a.flags 4 ++ beN 4 v)
  else do
    let b ← unwrapO a.binary
    let ext := b.length > 255 ∨ a.flags / 16 % 2 = 1
    let flags := if b.length > 255 ∧ a.flags / 16 % 2 = 0 then a.flags + 16 else a.flags
    pure ([flags, a.code] ++ (if ext then beN 2 b.length else [b.length % 256]) ++ b)

def findCode (code : Nat) (as : List Attribute) : Option Attribute := as.find? (fun a => a.code = code)

/-- `attrs.iter().find(|a| a.code() == c).map(|a| a.value().unwrap())` -/
def needVal (c : Nat) (as : List Attribute) : Out Unit :=
  match findCode c as with
  | some a => (unwrapO a.value).void
  | none => .ok ()

/-- `attr_as_path_length` -/
def needLen (as : List Attribute) : Out Unit :=
  match findCode 2 as with
  | some a => (asPathLength a).void
  | none => .ok ()

/-- the accessors `impl Ord for RibEntry` evaluates on each side when every earlier step ties:
    `attr_local_preference`, `attr_as_path_length`, `attr_origin`, `attr_originator_id` -/
def cmpUse (as : List Attribute) : Out Unit :=
  needVal 5 as >>= fun _ => needLen as >>= fun _ => needVal 1 as >>= fun _ => needVal 9 as

/-- policy evaluation as far as it reads attribute structure: `Condition::AsPathLength` then the
    `as_prepend` action (fixed AS 65000, repeat 1); result = the new AS_PATH value -/
def polUse (as : List Attribute) : Out Bytes := do
  match findCode 2 as with
  | none => pure ([2, 1] ++ beN 4 65000)
  | some a =>
      let _ ← asPathLength a
      let a' ← asPathPrepend a 65000
      unwrapO a'.binary

/-! ### two-octet-AS session helpers used by `do_encode` -/

/-- `as_path_downgrade_2byte` -/
def downgrade2 : Bytes → Out Bytes
  | [] => .ok []
  | [_] => .panic
  | t :: l :: rest =>
      if l * 4 ≤ rest.length then
        (downgrade2 (rest.drop (l * 4))).map fun tl =>
          [t, l] ++ (u32s l rest).flatMap (fun n => beN 2 (if n > 65535 then 23456 else n)) ++ tl
      else .panic
termination_by bs => bs.length
decreasing_by simp only [List.length_drop, List.length_cons]; omega

/-- `as_path_has_wide_as` (returns at the first wide AS number) -/
def hasWide : Bytes → Out Bool
  | [] => .ok false
  | [_] => .panic
  | _ :: l :: rest =>
      let avail := rest.length / 4
      let seen := u32s (min l avail) rest
      if seen.any (· > 65535) then .ok true
      else if l * 4 ≤ rest.length then hasWide (rest.drop (l * 4))
      else .panic
termination_by bs => bs.length
decreasing_by simp only [List.length_drop, List.length_cons]; omega

/-- `as_path_strip_confed` -/
def stripConfed : Bytes → Out Bytes
  | [] => .ok []
  | [_] => .panic
  | t :: l :: rest =>
      if t = 3 ∨ t = 4 then stripConfed (rest.drop (l * 4))
      else if l * 4 ≤ rest.length then
        (stripConfed (rest.drop (l * 4))).map fun tl => [t, l] ++ rest.take (l * 4) ++ tl
      else .panic
termination_by bs => bs.length
decreasing_by all_goals (simp only [List.length_drop, List.length_cons]; omega)

/-- what `do_encode` writes for one attribute on a two-octet-AS session -/
def encode2 (a : Attribute) : Out Bytes :=
  if a.code = 2 then do
    let b ← unwrapO a.binary
    let d ← downgrade2 b
    let e ← encodeAttr { a with data := .bin d }            -- `a.with_bin(..)`: code and flags kept
    let w ← hasWide b
    if w then
      let s ← stripConfed b
      let e4 ← encodeAttr { code := 17, flags := 0xC0, data := .bin s }
      pure (e ++ e4)
    else pure e
  else if a.code = 7 then do
    let b ← unwrapO a.binary
    if b.length < 8 then .panic                              -- `buf[..4]`, `buf[4..8]`
    else
      let asn := ofBe (b.take 4)
      let e ← encodeAttr { a with data := .bin (beN 2 (if asn > 65535 then 23456 else asn) ++ (b.drop 4).take 4) }
      if asn > 65535 then do
        let e4 ← encodeAttr { code := 18, flags := 0xC0, data := .bin b }
        pure (e ++ e4)
      else pure e
  else encodeAttr a

/-- run `f` on every element, stop at the first failure (`for a in attr { ... }`), total octets written -/
def sumAll {α} (f : α → Out Bytes) : List α → Out Nat
  | [] => .ok 0
  | x :: xs =>
      match f x with
      | .ok b =>
          (match sumAll f xs with
           | .ok n => .ok (b.length + n)
           | .err => .err
           | .panic => .panic)
      | .err => .err
      | .panic => .panic

/-- `PeerCodec::encode_to` of one IPv4-unicast Reach (10.0.0.0/8, IPv4 next hop) carrying `as` on a session
    without extended messages: header 19 + two length fields 4 + attributes + NEXT_HOP 7 + NLRI 2; beyond
    4096 octets the encoder returns `Err` (C04 repair: the sum is a `usize`, nothing is truncated) -/
def msgUse (f : Attribute → Out Bytes) (as : List Attribute) : Out Unit :=
  match sumAll f as with
  | .ok n => if 19 + 4 + n + 7 + 2 > 4096 then .err else .ok ()
  | .err => .err
  | .panic => .panic

/-! ## the path a converted attribute is stored in (mirrored by the harness) -/

def originIgp : Attribute := { code := 1, flags := 0x40, data := .val 0 }
def baseAsPath : Attribute := { code := 2, flags := 0x40, data := .bin ([2, 1] ++ beN 4 65001) }

/-- the attribute list used to exercise the consumers: the value under test first, then the
    mandatory attributes it does not itself provide -/
def pathAttrs (a : Attribute) : List Attribute :=
  [a] ++ (if a.code = 1 then [] else [originIgp]) ++ (if a.code = 2 then [] else [baseAsPath])

structure Use where
  len : Option (Out Nat)               -- `as_path_length` (AS_PATH only)
  origin : Option (Out (Option Nat))   -- `as_path_origin` (AS_PATH only)
  enc : Out Bytes                      -- `encode_to_bytes`
  cmp : Out Unit                       -- `Table::insert` next to an equal path
  pol : Out Bytes                      -- `apply_import`
  msg4 : Out Unit                      -- `encode_to`, four-octet-AS session
  msg2 : Out Unit                      -- `encode_to`, two-octet-AS session
  deriving DecidableEq, Repr

def Use.noPanic (u : Use) : Bool :=
  !(match u.len with | some o => o.isPanic | none => false) &&
  !(match u.origin with | some o => o.isPanic | none => false) &&
  !u.enc.isPanic && !u.cmp.isPanic && !u.pol.isPanic && !u.msg4.isPanic && !u.msg2.isPanic

def useOf (a : Attribute) : Use :=
  let as := pathAttrs a
  { len := if a.code = 2 then some (asPathLength a) else none
    origin := if a.code = 2 then some (asPathOrigin a) else none
    enc := encodeAttr a
    cmp := cmpUse as
    pol := polUse as
    msg4 := msgUse encodeAttr as
    msg2 := msgUse encode2 as }

/-! ## NLRI (bgp.rs `Ipv4Net`/`Ipv6Net`, labeled.rs, vpn.rs, mpls.rs, rd.rs) -/

inductive Rd where
  | twoOctet (admin assigned : Nat)
  | ip4 (admin assigned : Nat)
  | fourOctet (admin assigned : Nat)
  deriving DecidableEq, Repr

/-- addresses are numbers (32 / 128 bit); `labels` are 20-bit label values -/
inductive Nlri where
  | v4 (addr mask : Nat)
  | v6 (addr mask : Nat)
  | lv4 (labels : List Nat) (addr mask : Nat)
  | lv6 (labels : List Nat) (addr mask : Nat)
  | vpn4 (labels : List Nat) (rd : Rd) (addr mask : Nat)
  | vpn6 (labels : List Nat) (rd : Rd) (addr mask : Nat)
  deriving DecidableEq, Repr

inductive ApiRd where
  | missing                                   -- `RouteDistinguisher { rd: None }`
  | twoOctet (admin assigned : Nat)
  | ip4 (admin : AStr) (assigned : Nat)
  | fourOctet (admin assigned : Nat)
  deriving DecidableEq, Repr

inductive ApiNlri where
  | missing
  | other
  | prefix (s : AStr) (len : Nat)
  | labeled (labels : List Nat) (len : Nat) (s : AStr)
  | vpn (labels : List Nat) (rd : Option ApiRd) (len : Nat) (s : AStr)
  deriving DecidableEq, Repr

def ApiRd.inRange : ApiRd → Bool
  | .missing => true
  | .twoOctet a b => u32 a && u32 b
  | .ip4 a b => a.inRange && u32 b
  | .fourOctet a b => u32 a && u32 b

def ApiNlri.inRange : ApiNlri → Bool
  | .missing => true
  | .other => true
  | .prefix s l => s.inRange && u32 l
  | .labeled ls l s => ls.all u32 && u32 l && s.inRange
  | .vpn ls rd l s => ls.all u32 && (match rd with | none => true | some r => r.inRange) && u32 l && s.inRange

def rdToApi : Rd → ApiRd
  | .twoOctet a b => .twoOctet a b
  | .ip4 a b => .ip4 (.ip4 a) b
  | .fourOctet a b => .fourOctet a b

def rdFromApi : ApiRd → Option Rd
  | .missing => none
  | .twoOctet a b => if a > 65535 then none else some (.twoOctet a b)
  | .ip4 a b =>
      match a.parse4 with
      | none => none
      | some x => if b > 65535 then none else some (.ip4 x b)
  | .fourOctet a b => if b > 65535 then none else some (.fourOctet a b)

/-- `nlri_to_api` -/
def nlriToApi : Nlri → ApiNlri
  | .v4 a m => .prefix (.ip4 a) m
  | .v6 a m => .prefix (.ip6 a) m
  | .lv4 ls a m => .labeled ls m (.ip4 a)
  | .lv6 ls a m => .labeled ls m (.ip6 a)
  | .vpn4 ls rd a m => .vpn ls (some (rdToApi rd)) m (.ip4 a)
  | .vpn6 ls rd a m => .vpn ls (some (rdToApi rd)) m (.ip6 a)

/-- `net_from_api`; `checked` = the labeled/VPN arms validate prefix length and label stack -/
def netFromApi0 (fx : Fixes) : ApiNlri → Out Nlri
  | .missing => .err
  | .other => .err
  | .prefix s len =>
      -- `Nlri::from_str(format!("{}/{}", prefix, prefix_len))`: u8 parse of the length, then the range check
      match s with
      | .ip4 a => if len > 255 ∨ len > 32 then .err else .ok (.v4 a len)
      | .ip6 a => if len > 255 ∨ len > 128 then .err else .ok (.v6 a len)
      | .bad _ => .err
  | .labeled labels len s =>
      let ls := labels.map (· % 1048576)
      match s with
      | .bad _ => .err
      | .ip4 a =>
          if fx.validate ∧ (len > 32 ∨ ls.length = 0 ∨ ls.length * 24 + len > 255) then .err
          else .ok (.lv4 ls a (len % 256))
      | .ip6 a =>
          if fx.validate ∧ (len > 128 ∨ ls.length = 0 ∨ ls.length * 24 + len > 255) then .err
          else .ok (.lv6 ls a (len % 256))
  | .vpn labels rd len s =>
      let ls := labels.map (· % 1048576)
      match rd with
      | none => .err
      | some r =>
          match rdFromApi r with
          | none => .err
          | some rd' =>
              match s with
              | .bad _ => .err
              | .ip4 a =>
                  if fx.validate ∧ (len > 32 ∨ ls.length = 0 ∨ ls.length * 24 + 64 + len > 255) then .err
                  else .ok (.vpn4 ls rd' a (len % 256))
              | .ip6 a =>
                  if fx.validate ∧ (len > 128 ∨ ls.length = 0 ∨ ls.length * 24 + 64 + len > 255) then .err
                  else .ok (.vpn6 ls rd' a (len % 256))

/-- no octet of a `w`-octet address beyond the `ceil(m/8)` significant ones is set (what the wire can carry) -/
def hostBitsClear (w a m : Nat) : Bool := a % 2 ^ ((w - (m + 7) / 8) * 8) = 0

/-- a prefix message given exactly: 20-bit labels, no host bits -/
def ApiNlri.strict : ApiNlri → Bool
  | .prefix (.ip4 a) m => hostBitsClear 4 a m
  | .prefix (.ip6 a) m => hostBitsClear 16 a m
  | .labeled ls m (.ip4 a) => ls.all (· < 1048576) && hostBitsClear 4 a m
  | .labeled ls m (.ip6 a) => ls.all (· < 1048576) && hostBitsClear 16 a m
  | .vpn ls _ m (.ip4 a) => ls.all (· < 1048576) && hostBitsClear 4 a m
  | .vpn ls _ m (.ip6 a) => ls.all (· < 1048576) && hostBitsClear 16 a m
  | _ => true

/-- `net_from_api` -/
def netFromApi (fx : Fixes) (x : ApiNlri) : Out Nlri :=
  if fx.validate ∧ x.strict = false then .err else netFromApi0 fx x

/-! ### NLRI wire codec -/

def ceil8 (bits : Nat) : Nat := (bits + 7) / 8

/-- the first `n` octets of a `w`-octet address -/
def addrBytes (w addr n : Nat) : Bytes := (beN w addr).take n

/-- `Ipv4Net::encode` / `Ipv6Net::encode`: `addr.octets()[i]` for `i < ceil(mask/8)` -/
def encPrefix (w addr mask : Nat) : Out Bytes :=
  if ceil8 mask > w then .panic else .ok (addrBytes w addr (ceil8 mask))

/-- `MplsLabelStack::encode` -/
def encLabels : List Nat → Bytes
  | [] => []
  | [l] => beN 3 (l * 16 + 1)
  | l :: rest => beN 3 (l * 16) ++ encLabels rest

def encRd : Rd → Bytes
  | .twoOctet a b => beN 2 0 ++ beN 2 a ++ beN 4 b
  | .ip4 a b => beN 2 1 ++ beN 4 a ++ beN 2 b
  | .fourOctet a b => beN 2 2 ++ beN 4 a ++ beN 2 b

/-- `Nlri::encode` behind `encode_to_bytes`: a labeled / VPN prefix whose bit count exceeds the one-octet
    length field is refused (`Err`, nothing written: C04 repair); the prefix octets are indexed -/
def encodeNlri : Nlri → Out Bytes
  | .v4 a m => do let p ← encPrefix 4 a m; pure ([m] ++ p)
  | .v6 a m => do let p ← encPrefix 16 a m; pure ([m] ++ p)
  | .lv4 ls a m =>
      if ls.length * 24 + m > 255 then .ok []
      else do let p ← encPrefix 4 a m; pure ([ls.length * 24 + m] ++ encLabels ls ++ p)
  | .lv6 ls a m =>
      if ls.length * 24 + m > 255 then .ok []
      else do let p ← encPrefix 16 a m; pure ([ls.length * 24 + m] ++ encLabels ls ++ p)
  | .vpn4 ls rd a m =>
      if ls.length * 24 + 64 + m > 255 then .ok []
      else do let p ← encPrefix 4 a m; pure ([ls.length * 24 + 64 + m] ++ encLabels ls ++ encRd rd ++ p)
  | .vpn6 ls rd a m =>
      if ls.length * 24 + 64 + m > 255 then .ok []
      else do let p ← encPrefix 16 a m; pure ([ls.length * 24 + 64 + m] ++ encLabels ls ++ encRd rd ++ p)

/-- `MplsLabelStack::decode`: labels until the bottom-of-stack bit; `none` = read error -/
def decLabels : Bytes → Option (List Nat × Bytes)
  | a :: b :: c :: rest =>
      let l := ofBe [a, b, c] / 16
      if c % 2 = 1 then some ([l], rest)
      else (decLabels rest).map fun r => (l :: r.1, r.2)
  | _ => none

/-- zero-padded address of `w` octets from its leading octets -/
def padAddr (w : Nat) (bs : Bytes) : Nat := ofBe (bs ++ List.replicate (w - bs.length) 0)

def decRd (bs : Bytes) : Option Rd :=
  match bs with
  | [t0, t1, a, b, c, d, e, f] =>
      let ty := ofBe [t0, t1]
      if ty = 0 then some (.twoOctet (ofBe [a, b]) (ofBe [c, d, e, f]))
      else if ty = 1 then some (.ip4 (ofBe [a, b, c, d]) (ofBe [e, f]))
      else if ty = 2 then some (.fourOctet (ofBe [a, b, c, d]) (ofBe [e, f]))
      else none
  | _ => none

inductive Fam where
  | v4 | v6 | lv4 | lv6 | vpn4 | vpn6
  deriving DecidableEq, Repr

def Fam.width : Fam → Nat
  | .v4 | .lv4 | .vpn4 => 4
  | _ => 16

/-- the prefix part shared by every decoder: `bits` significant bits of a `w`-octet address -/
def decPrefix (w bits : Nat) (bs : Bytes) : Out (Nat × Bytes) :=
  if bits > w * 8 ∨ bs.length < ceil8 bits then .err
  else .ok (padAddr w (bs.take (ceil8 bits)), bs.drop (ceil8 bits))

/-- `Ipv4Net::decode` / `Ipv6Net::decode`: (addr, mask, rest) -/
def decodePlain (w : Nat) (bs : Bytes) : Out (Nat × Nat × Bytes) :=
  match bs with
  | [] => .err
  | bits :: rest =>
      match decPrefix w bits rest with
      | .ok (a, rest') => .ok (a, bits, rest')
      | .err => .err
      | .panic => .panic

/-- `LabeledV4Nlri::decode` / `LabeledV6Nlri::decode` (reach): (labels, addr, mask, rest) -/
def decodeLabeled (w : Nat) (bs : Bytes) : Out (List Nat × Nat × Nat × Bytes) :=
  match bs with
  | [] => .err
  | total :: rest =>
      if bs.length < 4 ∨ total < 24 then .err
      else
        match decLabels rest with
        | none => .err
        | some (ls, rest') =>
            let lb := ls.length * 24          -- a `usize` since the C04 repair: no truncation
            if total < lb then .err
            else
              match decPrefix w (total - lb) rest' with
              | .ok (a, rest'') => .ok (ls, a, total - lb, rest'')
              | .err => .err
              | .panic => .panic

/-- `VpnV4Nlri::decode` / `VpnV6Nlri::decode`: (labels, rd, addr, mask, rest).  Since the C03 repair
    (dd9ba2a) the label bit count is a `usize`: no truncation, no overflow. -/
def decodeVpn (w : Nat) (bs : Bytes) : Out (List Nat × Rd × Nat × Nat × Bytes) :=
  match bs with
  | [] => .err
  | total :: rest =>
      if bs.length < 12 ∨ total < 88 then .err
      else
        match decLabels rest with
        | none => .err
        | some (ls, rest') =>
            let lb := ls.length * 24
            if total < lb + 64 then .err
            else if total - lb - 64 > w * 8 then .err
            else
              match decRd (rest'.take 8) with
              | none => .err
              | some rd =>
                  match decPrefix w (total - lb - 64) (rest'.drop 8) with
                  | .ok (a, rest'') => .ok (ls, rd, a, total - lb - 64, rest'')
                  | .err => .err
                  | .panic => .panic

/-- one `Nlri::decode` (reach, no add-path) from the remaining bytes: value and rest.
    `.err` = the UPDATE is malformed. -/
def decodeOne (f : Fam) (bs : Bytes) : Out (Nlri × Bytes) :=
  match f with
  | .v4 => (decodePlain 4 bs).map fun r => (.v4 r.1 r.2.1, r.2.2)
  | .v6 => (decodePlain 16 bs).map fun r => (.v6 r.1 r.2.1, r.2.2)
  | .lv4 => (decodeLabeled 4 bs).map fun r => (.lv4 r.1 r.2.1 r.2.2.1, r.2.2.2)
  | .lv6 => (decodeLabeled 16 bs).map fun r => (.lv6 r.1 r.2.1 r.2.2.1, r.2.2.2)
  | .vpn4 => (decodeVpn 4 bs).map fun r => (.vpn4 r.1 r.2.1 r.2.2.1 r.2.2.2.1, r.2.2.2.2)
  | .vpn6 => (decodeVpn 16 bs).map fun r => (.vpn6 r.1 r.2.1 r.2.2.1 r.2.2.2.1, r.2.2.2.2)

/-- `decode_nlri_list`; fuel = number of bytes (every entry consumes at least one) -/
def decodeList (f : Fam) : Nat → Bytes → Out (List Nlri)
  | _, [] => .ok []
  | 0, _ :: _ => .err
  | fuel + 1, bs =>
      match decodeOne f bs with
      | .ok (n, rest) => (decodeList f fuel rest).map (n :: ·)
      | .err => .err
      | .panic => .panic

/-! ## `GrpcService::local_path` + `add_path` + `list_path` (daemon/src/event/grpc.rs) -/

/-- `Nexthop::from_bytes(b).is_some()` -/
def nexthopOk (b : Bytes) : Bool := b.length = 4 ∨ b.length = 16 ∨ b.length = 32

def emptyAsPath : Attribute := { code := 2, flags := 0x40, data := .bin [] }

/-- the attribute loop of `local_path` on already converted attributes: NEXT_HOP and MP_REACH give the next
    hop and are not stored (a raw MP_REACH whose next hop cannot be read refuses the request), ORIGINATOR_ID /
    CLUSTER_LIST / MP_UNREACH are dropped, everything else is kept in order -/
def keepAttrs : List Attribute → Out (List Attribute)
  | [] => .ok []
  | a :: rest =>
      if a.code = 14 then
        match a.binary with
        | none => .err
        | some b =>
            let nh : Bool := match b with
              | _ :: _ :: _ :: len :: tl => !(b.length < 5 + len) && nexthopOk (tl.take len)
              | _ => false
            if nh then keepAttrs rest else .err          -- "malformed MP_REACH nexthop" (no flowspec family here)
      else if a.code = 3 ∨ a.code = 9 ∨ a.code = 10 ∨ a.code = 15 then keepAttrs rest
      else (keepAttrs rest).map (a :: ·)

def convertAll (fx : Fixes) : List ApiAttr → Out (List Attribute)
  | [] => .ok []
  | x :: rest =>
      match fromApi fx x with
      | .ok a => (convertAll fx rest).map (a :: ·)
      | .err => .err
      | .panic => .panic

/-- `local_path`: the attribute vector that `add_path` inserts -/
def localPath (fx : Fixes) (xs : List ApiAttr) : Out (List Attribute) :=
  match convertAll fx xs with
  | .ok as =>
      (match keepAttrs as with
       | .ok kept =>
           let k1 := if kept.any (·.code = 1) then kept else kept ++ [originIgp]
           .ok (if k1.any (·.code = 2) then k1 else k1 ++ [emptyAsPath])
       | .err => .err
       | .panic => .panic)
  | .err => .err
  | .panic => .panic

/-- `destination_to_api`: `p.attr.iter().map(attr_to_api)` -/
def listAttrs (fx : Fixes) : List Attribute → Out (List ApiAttr)
  | [] => .ok []
  | a :: rest =>
      match toApi fx a with
      | .ok y => (listAttrs fx rest).map (y :: ·)
      | .err => .err
      | .panic => .panic

/-! ### the RPKI state ListPath shows (`collect_paths` phase 2 -> `RpkiTable::validate` -> `rpki_validation_to_api`) -/

/-- a VRP of the RTR table (IPv4): prefix, max length, origin AS -/
structure Vrp where
  addr : Nat
  len : Nat
  maxLen : Nat
  asn : Nat
  deriving DecidableEq, Repr

inductive RState where
  | notFound | valid | invalidAsn | invalidLen
  deriving DecidableEq, Repr

/-- `RpkiTable::as_path_final_segment_type` -/
def finalSegType : Bytes → Option Nat → Option Nat
  | t :: l :: rest, _ => finalSegType (rest.drop (l * 4)) (some t)
  | _, acc => acc
termination_by bs => bs.length
decreasing_by simp only [List.length_drop, List.length_cons]; omega

/-- the speaker's AS: `RpkiTable.local_asn`, set by `start_bgp` through `TableManager::rpki_set_local_asn`
    (the harness starts BGP with AS 65000) -/
def localAs : Nat := 65000

/-- route origin AS in `RpkiTable::validate` for a path of the local source (AddPath): the last AS of a final
    AS_SEQUENCE, NONE for a final AS_SET, else the speaker's AS -/
def rpkiOrigin (stored : List Attribute) : Out (Option Nat) :=
  match findCode 2 stored with
  | some p => do
      let o ← asPathOrigin p
      match o with
      | some asn => pure (some asn)
      | none =>
          let b ← unwrapO p.binary
          pure (if finalSegType b none = some 1 then none else some localAs)
  | none => pure (some localAs)

/-- the state for a route `a/m` with origin `origin` given the IPv4 VRPs `vrps` -/
def rpkiState (vrps : List Vrp) (a m : Nat) (origin : Option Nat) : RState :=
  let cand := vrps.filter fun v => v.len ≤ m ∧ a / 2 ^ (32 - v.len) = v.addr / 2 ^ (32 - v.len)
  let matched := cand.any fun v => m ≤ v.maxLen ∧ v.asn ≠ 0 ∧ some v.asn = origin
  let unAsn := cand.any fun v => m ≤ v.maxLen ∧ ¬ (v.asn ≠ 0 ∧ some v.asn = origin)
  let unLen := cand.any fun v => ¬ m ≤ v.maxLen
  if matched then .valid else if unAsn then .invalidAsn else if unLen then .invalidLen else .notFound

/-- `RpkiTable::validate` for a route inserted by AddPath: every IPv4 / IPv6 route gets a state (NotFound
    when no VRP covers it, also while no VRP is installed at all); the other families get none.  The
    harness installs IPv4 VRPs only, so the IPv6 VRP table is empty. -/
def rpkiShown (vrps : List Vrp) (n : Nlri) (stored : List Attribute) : Out (Option RState) :=
  match n with
  | .v4 a m => do
      let origin ← rpkiOrigin stored
      pure (some (rpkiState vrps a m origin))
  | .v6 a m => do
      let origin ← rpkiOrigin stored
      pure (some (rpkiState [] a m origin))
  | _ => .ok none

/-! ## cases and observations -/

inductive Case where
  | attrWire (code flags : Nat) (bs : Bytes)
  | attrApi (x : ApiAttr)
  | nlriWire (f : Fam) (bs : Bytes)
  | nlriApi (x : ApiNlri)
  | grpc (x : ApiNlri) (attrs : List ApiAttr) (vrps : List Vrp) (vrf : Bool)
      -- AddPath, ListPath, DeletePath(uuid), ListPath through the real `GrpcService`; `vrf`: into / from a VRF
  | explore (kind : String)        -- kinds outside the model: judged on the real observation only
  deriving Repr

/-- what is seen after a value `a` is available (decoded or accepted) -/
structure AttrObs where
  a : Attribute
  api : Out ApiAttr
  back : Option (Out Attribute)    -- `attr_from_api (attr_to_api a)`, when `attr_to_api` returned
  use : Use
  deriving Repr

structure NlriObs where
  n : Nlri
  api : ApiNlri
  back : Out Nlri
  enc : Out Bytes
  msg : Out Unit          -- `encode_to` of a Reach of the prefix's family (MP_REACH_NLRI unless IPv4 unicast)
  ins : Out Unit          -- `Table::insert` of two paths for the prefix
  deriving Repr

inductive Obs where
  | notStored (rejected : Bool)                 -- attribute not in `attrs`
  | attr (o : AttrObs)
  | fromErr                                     -- `Err(InvalidArgument)`
  | fromPanic
  | decodeErr                                   -- NLRI bytes refused by the wire decoder
  | decodePanic
  | nlris (l : List NlriObs)
  | addRefused                                  -- AddPath returned an error status
  | listed (n : ApiNlri) (attrs : List ApiAttr) (val : Option RState) (after : Nat)
      -- what ListPath shows for the one path added; number of paths listed after DeletePath(uuid)
  | listPanic
  | exploreOk
  | exploreFail (why : String)
  | unmodelled                                  -- `(bad-case)`
  deriving Repr

def attrObs (fx : Fixes) (a : Attribute) : AttrObs :=
  let api := toApi fx a
  { a := a, api := api,
    back := match api with
      | .ok x => some (fromApi fx x)
      | _ => none
    use := useOf a }

def nlriObs (fx : Fixes) (n : Nlri) : NlriObs :=
  { n := n, api := nlriToApi n, back := netFromApi fx (nlriToApi n), enc := encodeNlri n,
    -- `put_entries` encodes the prefix first: `Err` when it has no encoding, the same indexing panic otherwise
    msg := (match encodeNlri n with
            | .ok [] => .err
            | .ok _ => .ok ()
            | .err => .err
            | .panic => .panic),
    ins := .ok () }

/-- an attribute the harness can put into one UPDATE frame -/
def wireCaseOk (code flags : Nat) (bs : Bytes) : Bool :=
  modelledCode code && code ≠ 14 && code ≠ 15 && code < 256 && flags < 256 && bs.all (· < 256) && bs.length ≤ 65508 &&
  (flags / 16 % 2 = 1 || bs.length ≤ 255)

/-- the model's run of one case -/
def run (fx : Fixes) : Case → Obs
  | .attrWire code flags bs =>
      if !wireCaseOk code flags bs then .unmodelled
      else
        match decodeAttr code flags bs with
        | .stored a => .attr (attrObs fx a)
        | .rejected => .notStored true
        | .dropped => .notStored false
  | .attrApi x =>
      match fromApi fx x with
      | .ok a => if modelledCode a.code then .attr (attrObs fx a) else .unmodelled
      | .err => .fromErr
      | .panic => .fromPanic
  | .nlriWire f bs =>
      if bs.length > 3000 then .unmodelled else
      match decodeList f bs.length bs with
      | .ok l => if l.isEmpty then .decodeErr else .nlris (l.map (nlriObs fx))
      | .err => .decodeErr
      | .panic => .decodePanic
  | .nlriApi x =>
      match netFromApi fx x with
      | .ok n => .nlris [nlriObs fx n]
      | .err => .fromErr
      | .panic => .fromPanic
  | .grpc x attrs vrps vrf =>
      match netFromApi fx x with
      | .ok n =>
          (match localPath fx attrs with
           | .ok stored =>
               -- `vrf_export_path`: only plain IPv4 / IPv6 prefixes can be added to a VRF
               if vrf && !(match n with | .v4 .. => true | .v6 .. => true | _ => false) then .addRefused
               else if stored.all (fun a => modelledCode a.code) then
                 -- `collect_vrf_paths`: the VPN envelope is removed from the NLRI and the EXTENDED_COMMUNITY
                 -- attribute (which carries the export route targets) from the path; no RPKI state there
                 let shown := if vrf then stored.filter (fun a => a.code ≠ 16) else stored
                 let val := if vrf then .ok none else rpkiShown vrps n stored
                 match listAttrs fx shown, val with
                 -- `delete_path` removes what `add_path` inserted: nothing is listed afterwards
                 | .ok ys, .ok v => .listed (nlriToApi n) ys v 0
                 | _, _ => .listPanic
               else .unmodelled
           | .err => .addRefused
           | .panic => .listPanic)
      | .err => .addRefused
      | .panic => .listPanic
  | .explore _ => .exploreOk

/-- cases whose numeric fields fit the protobuf / wire field widths (anything else is `(bad-case)`) -/
def Case.inRange : Case → Bool
  | .attrWire .. => true
  | .attrApi x => x.inRange
  | .nlriWire .. => true
  | .nlriApi x => x.inRange
  | .grpc x attrs vrps _ =>
      x.inRange && attrs.all ApiAttr.inRange &&
        vrps.all fun v => u32 v.addr && v.len ≤ 32 && v.maxLen ≤ 255 && u32 v.asn
  | .explore _ => true

/-- the code as it is in /repo now (with the C17 repairs of convert.rs) -/
def current : Fixes := { validate := true, extcomExact := true }
/-- the code before the C17 repairs -/
def original : Fixes := { validate := false, extcomExact := false }

end Rbgp.Api
