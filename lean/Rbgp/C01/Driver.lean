import Rbgp.Export.Codec01
import Rbgp.Export.Spec01
import Rbgp.Export.ConvMaster
namespace Rbgp.C01
open Rbgp Rbgp.Term Rbgp.Export Rbgp.Export.Codec01

def verdictStr : Spec01.Verdict → String
  | .ok => "ok"
  | .fail c => s!"fail clause={c}"

/-- one neighbour's verdict: the reference checker, then (not part of it) a report on histories of
    the class the master theorem covers (with or without add-path; no RTC, no LLGR period, no soft reset
    overtaking queued changes) on which its computed hypothesis `okRun` nevertheless fails -/
def judge (c : Case01) (ob : Obs01) (who : String) : String :=
  match Spec01.check c ob with
  | .ok =>
      if c.rtc.isNone && Conv.noLlgr (c.pre ++ c.ops) && ob.overtaken = 0 && !Conv.okRun c
      then s!"fail clause=theorem-hypothesis-not-met-by-model-run class=in-order{who}"
      else "ok"
  | .fail x => s!"fail clause={x}{who}"

/-- mode `model`: case ↦ observation of the model;
    mode `oracle`: case TAB observation ↦ verdict of the C01 reference checker;
    mode `hyp`: case ↦ `t`/`f`, the computed hypothesis of the master theorem. -/
def handler (mode : String) (line : String) : String :=
  match mode with
  | "model" =>
      match (parse line).bind casesOf? with
      | some (c, c2) => toStr (pairT (run01 c) (c2.map run01))
      | none => "(bad-case)"
  | "oracle" =>
      match line.splitOn "\t" with
      | [cs, os] =>
          match (parse cs).bind casesOf? with
          | some (c, c2) =>
              match (parse os).bind pairOf?, c2 with
              | some (ob, none), none => judge c ob ""
              | some (ob, some ob2), some c2 =>
                  match judge c ob "" with
                  | "ok" => judge c2 ob2 ""
                  | v => v
              | _, _ => "fail clause=unparsable-observation"
          | none => if os == "(bad-case)" then "ok" else "fail clause=bad-case-accepted-by-harness"
      | _ => "(bad-line)"
  | "hyp" =>
      match (parse line).bind casesOf? with
      | some (c, c2) => if Conv.okRun c && (match c2 with | some c2 => Conv.okRun c2 | none => true) then "t" else "f"
      | none => "(bad-case)"
  | _ => "(bad-mode)"

end Rbgp.C01
