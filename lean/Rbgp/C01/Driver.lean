import Rbgp.Export.Codec01
import Rbgp.Export.Spec01
namespace Rbgp.C01
open Rbgp Rbgp.Term Rbgp.Export Rbgp.Export.Codec01

def verdictStr : Spec01.Verdict → String
  | .ok => "ok"
  | .fail c => s!"fail clause={c}"

/-- mode `model`: case ↦ observation of the model;
    mode `oracle`: case TAB observation ↦ verdict of the C01 reference checker. -/
def handler (mode : String) (line : String) : String :=
  match mode with
  | "model" =>
      match (parse line).bind caseOf? with
      | some c => toStr (obsT (run01 c))
      | none => "(bad-case)"
  | "oracle" =>
      match line.splitOn "\t" with
      | [cs, os] =>
          match (parse cs).bind caseOf? with
          | some c =>
              match (parse os).bind obsOf? with
              | some ob => verdictStr (Spec01.check c ob)
              | none => "fail clause=unparsable-observation"
          | none => if os == "(bad-case)" then "ok" else "fail clause=bad-case-accepted-by-harness"
      | _ => "(bad-line)"
  | _ => "(bad-mode)"

end Rbgp.C01
