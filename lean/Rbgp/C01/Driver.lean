import Rbgp.Export.Codec01
import Rbgp.Export.Spec01
import Rbgp.Export.ConvMaster
namespace Rbgp.C01
open Rbgp Rbgp.Term Rbgp.Export Rbgp.Export.Codec01

def verdictStr : Spec01.Verdict → String
  | .ok => "ok"
  | .fail c => s!"fail clause={c}"

/-- mode `model`: case ↦ observation of the model;
    mode `oracle`: case TAB observation ↦ verdict of the C01 reference checker;
    mode `hyp`: case ↦ `t`/`f`, the computed hypothesis of the master theorem. -/
def handler (mode : String) (line : String) : String :=
  match mode with
  | "model" =>
      match (parse line).bind caseOf? with
      | some c => toStr (obsT (run01 c))
      | none => "(bad-case)"
  | "oracle" =>
      match line.splitOn "\t" with
      | [cs, os] =>
          match (parse cs).bind caseOf? with
          | some c =>
              match (parse os).bind obsOf? with
              | some ob =>
                  match Spec01.check c ob with
                  | .ok =>
                      -- not part of the reference checker: report histories of the class the master theorem
                      -- covers (with or without add-path; no LLGR period, no soft reset overtaking queued changes) on
                      -- which its computed hypothesis `okRun` nevertheless fails
                      if Conv.noLlgr (c.pre ++ c.ops) && ob.overtaken = 0 && !Conv.okRun c
                      then "fail clause=theorem-hypothesis-not-met-by-model-run class=in-order"
                      else "ok"
                  | v => verdictStr v
              | none => "fail clause=unparsable-observation"
          | none => if os == "(bad-case)" then "ok" else "fail clause=bad-case-accepted-by-harness"
      | _ => "(bad-line)"
  | "hyp" =>
      match (parse line).bind caseOf? with
      | some c => if Conv.okRun c then "t" else "f"
      | none => "(bad-case)"
  | _ => "(bad-mode)"

end Rbgp.C01
