import Rbgp.Rtr.Codec
import Rbgp.Rtr.Spec
namespace Rbgp.C13
open Rbgp Rbgp.Term Rbgp.Rtr Rbgp.Rtr.Codec

/-- which guards of the reference checker a (session, snapshot) pair passed — evidence only -/
def slotStat (s : Snap) (x : Spec.SSlot) : List String :=
  if !x.started then ["skip-not-started"]
  else if Spec.ended s x then ["judged-ended-cleared"]
  else
    let (done, left, dirty) := Spec.split x.pdus x.delivered
    if dirty then ["skip-nonconforming-byte"]
    else
      let f := Spec.specFold ⟨x.cache, x.sid⟩ done
      if !f.ok then ["skip-withdraw-in-reset-response"]
      else
        (if f.floor.isEmpty then ["judged-kept-trivial"] else ["judged-kept"]) ++
        (if left ≠ 0 then ["skip-mid-pdu"]
         else ["judged-consumed"] ++
           (match f.lastEod with
            | some _ => if f.installed.isEmpty then ["judged-installed-empty"] else ["judged-installed"]
            | none => ["skip-not-at-end-of-data"]))

/-- evidence only: input classes (boundary buckets) of a PDU -/
def pfxClass (f : String) (w plen ml flags asn : Nat) : List String :=
  [if plen = 0 then s!"in-{f}-plen-0" else if plen = w then s!"in-{f}-plen-max" else if plen + 1 = w then s!"in-{f}-plen-max-1"
   else if plen > w then s!"in-{f}-plen-over-max" else if plen % 8 = 0 then s!"in-{f}-plen-byte-boundary" else s!"in-{f}-plen-other",
   if ml < plen then "in-maxlen-below-plen" else if ml = plen then "in-maxlen-eq-plen" else if ml = 255 then "in-maxlen-255" else "in-maxlen-above-plen",
   if asn = 0 then "in-as-0" else if asn = 4294967295 then "in-as-max" else "in-as-other",
   if flags = 0 then "in-withdraw" else if flags = 1 then "in-announce" else "in-flags-other-bits"]

def junkClass (b : List Nat) : String :=
  match b[0]?, b[1]?, rd32 b 4 with
  | some v, some ty, some len =>
      if len < 8 then "in-junk-length-below-8"
      else if len > 65535 then "in-junk-length-above-65535"
      else if badLen v ty len then
        (match expectedLen v ty with
         | some e => if len + 1 = e then "in-junk-fixed-length-one-short" else if len = e + 1 then "in-junk-fixed-length-one-long" else "in-junk-fixed-length-wrong"
         | none => "in-junk-other")
      else if len > b.length then "in-junk-truncated" else "in-junk-other"
  | _, _, _ => "in-junk-shorter-than-header"

def pduClass : Pdu → List String
  | .cr v s => [s!"in-version-{if v > 2 then 3 else v}", if s = 0 then "in-session-id-0" else if s = 65535 then "in-session-id-max" else "in-session-id-other"]
  | .p4 _ f l m _ n => pfxClass "v4" 32 l m f n
  | .p6 _ f l m _ n => pfxClass "v6" 128 l m f n
  | .eod v _ n => [if v ≥ 1 then "in-eod-24-bytes" else "in-eod-12-bytes", if n = 0 then "in-serial-0" else if n = 4294967295 then "in-serial-max" else "in-serial-other"]
  | .notify .. => ["in-serial-notify"]
  | .creset _ => ["in-cache-reset"]
  | .err _ c b => [s!"in-error-report-code-{if c > 8 then 9 else c}", if b.isEmpty then "in-error-report-header-only" else "in-error-report-with-body"]
  | .raw _ t _ b =>
      [if t = 9 then "in-router-key" else if [0, 1, 2, 3, 4, 6, 7, 8, 10].contains t then "in-known-type-as-raw" else "in-unknown-type",
       if b.isEmpty then "in-pdu-length-8" else if 8 + b.length = 65535 then "in-pdu-length-65535" else if 8 + b.length > 108 then "in-pdu-longer-than-108" else "in-pdu-short"]
  | .junk b => [junkClass b]

/-- round-structure classes of a stream (over all its PDUs) -/
def roundClass (pdus : List Pdu) : List String :=
  let f := pdus.foldl (fun (st : Bool × Bool × Nat × List String) p =>
    -- (in a reset response, something announced in this response, End-of-Data seen, classes)
    let (inReset, got, eods, acc) := st
    match p with
    | .p4 .. | .p6 .. => (inReset, true, eods, acc)
    | .eod .. => (false, false, eods + 1,
        acc ++ (if inReset ∧ !got then [if eods = 0 then "in-empty-first-response" else "in-empty-reset-response-after-data"] else [])
            ++ (if !inReset ∧ !got then ["in-empty-serial-response"] else []))
    | .creset _ => (true, false, eods, acc ++ (if got then ["in-cache-reset-in-mid-response"] else []) ++ (if eods = 0 then ["in-cache-reset-before-any-data"] else []))
    | .notify .. => (inReset, got, eods, acc ++ [if eods = 0 then "in-notify-before-first-end-of-data" else "in-notify-after-end-of-data"])
    | _ => st) (true, false, 0, [])
  f.2.2.2 ++ (if f.2.2.1 ≥ 5 then ["in-five-or-more-end-of-data"] else [])

def stepClass (c : Case) : List String :=
  let caches := c.streams.map (·.cache)
  (if c.steps.any (fun s => match s with | .wfail _ => true | _ => false) then ["in-write-failure"] else []) ++
  (if c.steps.any (fun s => match s with | .soft _ => true | _ => false) then ["in-soft-reset"] else []) ++
  (if c.steps.any (fun s => match s with | .close _ true => true | _ => false) then ["in-end-eof"] else []) ++
  (if c.steps.any (fun s => match s with | .close _ false => true | _ => false) then ["in-end-cancel"] else []) ++
  (if c.steps.any (fun s => match s with | .send _ n => n ≤ 7 | _ => false) then ["in-fragment-below-header-size"] else []) ++
  (if caches.length ≥ 2 ∧ caches.any (fun a => (caches.filter (· = a)).length ≥ 2) then ["in-two-sessions-one-address"] else [])

def dedup (l : List String) : List String :=
  l.foldl (fun acc k => if acc.contains k then acc else acc ++ [k]) []

def statsFrom : List Spec.SSlot → List Step → List Snap → List String
  | _, [], _ => []
  | σ, .snap :: rest, s :: obs => (σ.flatMap (slotStat s)) ++ statsFrom σ rest obs
  | _, .snap :: _, [] => []
  | σ, st :: rest, obs => statsFrom (Spec.sStep σ st) rest obs

def countTokens (l : List String) : String :=
  let keys := l.foldl (fun acc k => if acc.contains k then acc else acc ++ [k]) []
  " ".intercalate (keys.map fun k => s!"{k}={(l.filter (· == k)).length}")

def verdictStr : Spec.Verdict → String
  | .ok => "ok"
  | .fail i c => s!"fail step={i} clause={c}"

/-- mode `model`: case ↦ observation of the model;
    mode `oracle`: case TAB observation ↦ verdict of the C13 reference checker. -/
def handler (mode : String) (line : String) : String :=
  match mode with
  | "model" =>
      match (parse line).bind caseOf? with
      | some (.script c) => toStr (outT (run c))
      | some (.tcp n) => toStr (tcpT n)
      | some (.tcpReset n) => toStr (tcpResetT n)
      | some (.tcpReconnect n) => toStr (tcpReconnectT n)
      | none => "(bad-case)"
  | "oracle" =>
      match parseMany line with
      | some [c, o] =>
          match caseOf? c with
          | some (.script c) =>
              match outOf? o with
              | some out => verdictStr (Spec.check c out)
              | none => "fail step=0 clause=unparsable-observation"
          | some (.tcp n) =>
              -- every cancellation must have removed the cache's VRPs
              if toStr o == toStr (tcpT n) then "ok" else "fail step=0 clause=vrps-remain-after-cancel"
          | some (.tcpReset n) =>
              -- after a hard reset exactly the new session's VRPs, and none after its end
              if toStr o == toStr (tcpResetT n) then "ok" else "fail step=0 clause=vrps-wrong-after-hard-reset"
          | some (.tcpReconnect n) =>
              -- connection closed by the cache: VRPs gone, reconnect after the back-off with a Reset Query,
              -- new data installed, nothing left once the cache and then the client are gone
              if toStr o == toStr (tcpReconnectT n) then "ok" else "fail step=0 clause=reconnect-cycle-misbehaved"
          | none =>
              if toStr o == "(bad-case)" then "ok" else "fail step=0 clause=ill-formed-case-accepted"
      | _ => "(bad-line)"
  | "stats" =>
      match parseMany line with
      | some [c, o] =>
          match caseOf? c, outOf? o with
          | some (.script c), some (.ok obs) =>
              let l := statsFrom (Spec.initSlots c) c.steps obs
              countTokens (l ++ (if l.contains "judged-installed" then ["cases-judged-installed"] else ["cases-never-judged-installed"])
                ++ dedup (c.streams.flatMap (fun d => d.pdus.flatMap pduClass ++ roundClass d.pdus) ++ stepClass c))
          | some (.tcp _), _ => "tcp-cases=1"
          | some (.tcpReset _), _ => "tcp-cases=1"
          | some (.tcpReconnect _), _ => "tcp-cases=1 in-tcp-reconnect-cycle=1"
          | _, _ => "other=1"
      | _ => "other=1"
  | _ => "(bad-mode)"

end Rbgp.C13
