import Rbgp.Rtr.Codec
import Rbgp.Rtr.Spec
namespace Rbgp.C13
open Rbgp Rbgp.Term Rbgp.Rtr Rbgp.Rtr.Codec

def verdictStr : Spec.Verdict → String
  | .ok => "ok"
  | .fail i c => s!"fail step={i} clause={c}"

/-- mode `model`: case ↦ observation of the model;
    mode `oracle`: case TAB observation ↦ verdict of the C13 reference checker. -/
def handler (mode : String) (line : String) : String :=
  match mode with
  | "model" =>
      match (parse line).bind caseOf? with
      | some (.script c) => toStr (outT (run c))
      | some (.tcp n) => toStr (tcpT n)
      | none => "(bad-case)"
  | "oracle" =>
      match parseMany line with
      | some [c, o] =>
          match caseOf? c with
          | some (.script c) =>
              match outOf? o with
              | some out => verdictStr (Spec.check c out)
              | none => "fail step=0 clause=unparsable-observation"
          | some (.tcp n) =>
              -- every cancellation must have removed the cache's VRPs
              if toStr o == toStr (tcpT n) then "ok" else "fail step=0 clause=vrps-remain-after-cancel"
          | none =>
              if toStr o == "(bad-case)" then "ok" else "fail step=0 clause=ill-formed-case-accepted"
      | _ => "(bad-line)"
  | _ => "(bad-mode)"

end Rbgp.C13
