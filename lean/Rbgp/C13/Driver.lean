import Rbgp.Rtr.Codec
import Rbgp.Rtr.Spec
namespace Rbgp.C13
open Rbgp Rbgp.Term Rbgp.Rtr Rbgp.Rtr.Codec

/-- which guards of the reference checker a (session, snapshot) pair passed — evidence only -/
def slotStat (s : Snap) (x : Spec.SSlot) : List String :=
  if !x.started then ["skip-not-started"]
  else if Spec.ended s x then ["judged-ended-cleared"]
  else
    let (done, left, dirty) := Spec.split x.pdus x.delivered
    if dirty then ["skip-nonconforming-byte"]
    else
      let f := Spec.specFold ⟨x.cache, x.sid⟩ done
      if !f.ok then ["skip-withdraw-in-reset-response"]
      else
        (if f.floor.isEmpty then ["judged-kept-trivial"] else ["judged-kept"]) ++
        (if left ≠ 0 then ["skip-mid-pdu"]
         else ["judged-consumed"] ++
           (match f.lastEod with
            | some _ => if f.installed.isEmpty then ["judged-installed-empty"] else ["judged-installed"]
            | none => ["skip-not-at-end-of-data"]))

def statsFrom : List Spec.SSlot → List Step → List Snap → List String
  | _, [], _ => []
  | σ, .snap :: rest, s :: obs => (σ.flatMap (slotStat s)) ++ statsFrom σ rest obs
  | _, .snap :: _, [] => []
  | σ, st :: rest, obs => statsFrom (Spec.sStep σ st) rest obs

def countTokens (l : List String) : String :=
  let keys := l.foldl (fun acc k => if acc.contains k then acc else acc ++ [k]) []
  " ".intercalate (keys.map fun k => s!"{k}={(l.filter (· == k)).length}")

def verdictStr : Spec.Verdict → String
  | .ok => "ok"
  | .fail i c => s!"fail step={i} clause={c}"

/-- mode `model`: case ↦ observation of the model;
    mode `oracle`: case TAB observation ↦ verdict of the C13 reference checker. -/
def handler (mode : String) (line : String) : String :=
  match mode with
  | "model" =>
      match (parse line).bind caseOf? with
      | some (.script c) => toStr (outT (run c))
      | some (.tcp n) => toStr (tcpT n)
      | some (.tcpReset n) => toStr (tcpResetT n)
      | none => "(bad-case)"
  | "oracle" =>
      match parseMany line with
      | some [c, o] =>
          match caseOf? c with
          | some (.script c) =>
              match outOf? o with
              | some out => verdictStr (Spec.check c out)
              | none => "fail step=0 clause=unparsable-observation"
          | some (.tcp n) =>
              -- every cancellation must have removed the cache's VRPs
              if toStr o == toStr (tcpT n) then "ok" else "fail step=0 clause=vrps-remain-after-cancel"
          | some (.tcpReset n) =>
              -- after a hard reset exactly the new session's VRPs, and none after its end
              if toStr o == toStr (tcpResetT n) then "ok" else "fail step=0 clause=vrps-wrong-after-hard-reset"
          | none =>
              if toStr o == "(bad-case)" then "ok" else "fail step=0 clause=ill-formed-case-accepted"
      | _ => "(bad-line)"
  | "stats" =>
      match parseMany line with
      | some [c, o] =>
          match caseOf? c, outOf? o with
          | some (.script c), some (.ok obs) =>
              let l := statsFrom (Spec.initSlots c) c.steps obs
              countTokens (l ++ (if l.contains "judged-installed" then ["cases-judged-installed"] else ["cases-never-judged-installed"]))
          | some (.tcp _), _ => "tcp-cases=1"
          | some (.tcpReset _), _ => "tcp-cases=1"
          | _, _ => "other=1"
      | _ => "other=1"
  | _ => "(bad-mode)"

end Rbgp.C13
