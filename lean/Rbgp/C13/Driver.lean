import Rbgp.Rtr.Codec
namespace Rbgp.C13
open Rbgp Rbgp.Term Rbgp.Rtr Rbgp.Rtr.Codec

/-- mode `model`: case ↦ observation of the model -/
def handler (mode : String) (line : String) : String :=
  match mode with
  | "model" =>
      match (parse line).bind caseOf? with
      | some (.script c) => toStr (outT (run c))
      | some (.tcp n) => toStr (tcpT n)
      | none => "(bad-case)"
  | _ => "(bad-mode)"

end Rbgp.C13
