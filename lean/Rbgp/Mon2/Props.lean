/-
  Rbgp.Mon2.Props — the C19 theorems (statements; proofs are `exact`/short calls into `Proofs`).

  Reading guide.  `Model.Rec.encode` mirrors the Rust encoders; `Spec.check` is the reference checker written
  from the property text and the RFCs; `Spec.inDomain` = what the daemon can hand to the encoders;
  `Proofs.embOk` = hypotheses on the embedded BGP bytes (they come from the real `PeerCodec`, C04's subject):
  the blob is exactly the expected RFC 4271 frame(s) and the repository's decoder (table in the case) reads
  it back as the monitored content.
-/
import Rbgp.Mon2.Proofs
import Rbgp.Mon2.DProofs
namespace Rbgp.Mon2.Props
open Rbgp.Mon2 Rbgp.Mon2.Spec Rbgp.Mon2.Proofs

/-- **Master theorem**: the reference checker accepts every run of the model (on the daemon's domain,
    given well-framed embedded PDUs that the decoder reads back as monitored). -/
theorem check_run_ok (c : Case) (hd : inDomain c = true) (he : c.recs.all (embOk c.tbl) = true) :
    check c (run c) = .ok :=
  check_run c hd he

/-- On that domain the encoders never panic. -/
theorem run_no_panic (c : Case) (hd : inDomain c = true) (he : c.recs.all (embOk c.tbl) = true) :
    run c ≠ .panic := by
  obtain ⟨w, hw, _⟩ := checkRecs_ok c.tbl c.recs 0 none hd he
  simp [run, hw]

/-! ### BMP -/

/-- A BMP message (version 3, back-patched length, type, body) carries in its length field the number of bytes
    of the whole message: cutting the stream by the length field returns exactly this message and leaves the
    rest. -/
theorem bmp_msg_len_exact (code : Nat) (body : Bytes) (hc : code < 256) (hl : 6 + body.length < 4294967296) :
    (bmpMsg code body).length = 6 + body.length ∧
      be (((bmpMsg code body).drop 1).take 4) = (bmpMsg code body).length ∧
      ∀ rest, readBmpCommon (bmpMsg code body ++ rest) = some (3, code, body, rest) :=
  bmpMsg_len_exact code body hc hl

/-- Whatever the model writes for a BMP item - of any kind and content - is a sequence of such messages of the
    item's type: exactly one, except for Route Monitoring, which writes one message per embedded BGP frame. -/
theorem bmp_len_exact (r : Rec) (w : Bytes) (hb : isBmp r = true) (he : r.encode = some w) :
    ∃ bodies : List Bytes, w = bodies.flatMap (bmpMsg (bmpType r)) ∧
      ((match r with | .bmpRm .. => False | _ => True) → bodies.length = 1) :=
  bmp_len_exact_proof r w hb he

/-- Per-peer header (RFC 7854 §4.2): when the caller does not pass the V bit itself (the daemon passes 0, L, O
    or L|O), the header is 42 bytes, its V flag is set iff the peer address is IPv6, the 16-byte address field
    holds the IPv6 address resp. the IPv4 address behind 12 zero bytes, and every other field reads back as
    given. -/
theorem bmp_vflag_iff_v6 (h : PeerHdr) (hd : hdrDom h = true) (rest : Bytes) :
    ∃ p, readPph (h.encode ++ rest) = some (p, rest) ∧ h.encode.length = 42 ∧
      (p.flags / 128 % 2 = 1 ↔ h.addr.isV6 = true) ∧ p.addr = addr16 h.addr ∧
      firstFail (checkPph h p) = none :=
  bmp_vflag_iff_v6_proof h hd rest

/-- The hypothesis of `bmp_vflag_iff_v6` is needed: a caller that passes the V bit for an IPv4 peer gets a
    header whose V flag is set although the address is IPv4 (`flags | V`: the bit is never cleared). -/
example :
    let h : PeerHdr := { ptype := 0, flags := 128, dist := 0, addr := .v4 [10, 0, 0, 1], asn := 65001,
                         bgpId := [10, 0, 0, 1], ts := 0 }
    (readPph h.encode).map (fun p => (p.1.flags / 128 % 2, h.addr.isV6)) = some (1, false) := by decide

/-- Route Monitoring, ANY number of NLRI (**full strength**, a theorem since the S29 repair: one Route Monitoring
    message per BGP frame).  If the bytes the BGP encoder produced are complete UPDATE frames that the decoder
    reads back (with the session's add-path setting) as compatible pieces of the monitored UPDATE - same family,
    next hop and attributes, at least one NLRI each, together exactly the monitored NLRI - then the records are
    accepted: every frame in a message of its own with an exact length and the intended per-peer header. -/
theorem bmp_embedded_roundtrip_full (tbl : Tbl) (np : Option Nat) (h : PeerHdr) (ap : Bool) (mon : Content)
    (fcs : List (Bytes × Content)) (hh : hdrDom h = true) (hm : monDom mon = true) (hne : fcs ≠ [])
    (hf : ∀ p ∈ fcs, IsFrame 2 p.1 ∧ p.1.length < 2147483648 ∧ lookup tbl ap p.1 = some p.2 ∧
      compat mon p.2 = true ∧ entsOf p.2 ≠ [])
    (hall : entsEq ap ((fcs.map (·.2)).flatMap entsOf) (entsOf mon) = true) (rest : Bytes) :
    checkRec tbl np (.bmpRm h ap (some ((fcs.map (·.1)).flatMap id)) mon)
      (((splitFrames ((fcs.map (·.1)).flatMap id).length ((fcs.map (·.1)).flatMap id)).flatMap
        fun f => bmpMsg 0 (h.encode ++ f)) ++ rest) = .ok rest :=
  checkRec_bmpRm tbl np h ap _ mon (by simp [recDom, hh, hm])
    (by simpa [embOk] using updOk_of_frames tbl ap mon fcs hne hf hall) rest

/-- the same for BGP4MP: one MRT record per BGP frame -/
theorem mrt_embedded_roundtrip_full (tbl : Tbl) (np : Option Nat) (h : MpHdr) (ap : Bool) (mon : Content)
    (fcs : List (Bytes × Content))
    (hd : recDom np (.mrtMp h ap (some ((fcs.map (·.1)).flatMap id)) mon) = true) (hne : fcs ≠ [])
    (hf : ∀ p ∈ fcs, IsFrame 2 p.1 ∧ p.1.length < 2147483648 ∧ lookup tbl ap p.1 = some p.2 ∧
      compat mon p.2 = true ∧ entsOf p.2 ≠ [])
    (hall : entsEq ap ((fcs.map (·.2)).flatMap entsOf) (entsOf mon) = true) (rest : Bytes) :
    checkRec tbl np (.mrtMp h ap (some ((fcs.map (·.1)).flatMap id)) mon)
      (((splitFrames ((fcs.map (·.1)).flatMap id).length ((fcs.map (·.1)).flatMap id)).flatMap
        fun f => mrtRecord 0 16 (mpSubtype h.asn4 ap) (h.encode ++ f)) ++ rest) = .ok rest :=
  checkRec_mrtMp tbl np h ap _ mon hd
    (by simpa [embOk] using updOk_of_frames tbl ap mon fcs hne hf hall) rest

/-- Route Monitoring, ONE embedded PDU (covers End-of-RIB too): one complete UPDATE frame that the decoder reads
    back as the monitored message gives one message whose body after the per-peer header is exactly that PDU. -/
theorem bmp_embedded_roundtrip_single (tbl : Tbl) (np : Option Nat) (h : PeerHdr) (ap : Bool) (b : Bytes)
    (mon c : Content) (hh : hdrDom h = true) (hm : monDom mon = true) (hlen : b.length < 2147483648)
    (hf : IsFrame 2 b) (hl : lookup tbl ap b = some c) (hc : compat mon c = true)
    (he : entsEq ap (entsOf c) (entsOf mon) = true) (rest : Bytes) :
    checkRec tbl np (.bmpRm h ap (some b) mon) (bmpMsg 0 (h.encode ++ b) ++ rest) = .ok rest :=
  bmp_single_proof tbl np h ap b mon c hh hm hlen hf hl hc he rest

def accepted : Except String Bytes → Bool
  | .ok _ => true
  | .error _ => false

namespace S29
/-- two complete (23-byte) UPDATE frames; the decoder table says they withdraw one prefix each -/
def f1 : Bytes := List.replicate 16 255 ++ [0, 23, 2, 0, 4, 24, 10]
def f2 : Bytes := List.replicate 16 255 ++ [0, 23, 2, 0, 4, 24, 11]
def mon : Content := .unreach 65537 [(0, [24, 10]), (0, [24, 11])]
def tbl : Tbl := [(false, f1, .unreach 65537 [(0, [24, 10])]), (false, f2, .unreach 65537 [(0, [24, 11])])]
def hdr : PeerHdr :=
  { ptype := 0, flags := 0, dist := 0, addr := .v4 [10, 0, 0, 1], asn := 65001, bgpId := [10, 0, 0, 1], ts := 0 }
def mph : MpHdr :=
  { rasn := 65001, lasn := 65002, ifidx := 0, raddr := .v4 [10, 0, 0, 1], laddr := .v4 [10, 0, 0, 2], asn4 := true }
end S29

set_option maxRecDepth 100000 in
/-- non-vacuity of the full-strength theorems (two frames), and the pre-repair layout - both frames in ONE Route
    Monitoring message / BGP4MP record - is rejected by the checker (`rm-not-single-pdu`): S29. -/
example :
    embOk S29.tbl (.bmpRm S29.hdr false (some (S29.f1 ++ S29.f2)) S29.mon) = true ∧
    (Rec.bmpRm S29.hdr false (some (S29.f1 ++ S29.f2)) S29.mon).encode =
      some (bmpMsg 0 (S29.hdr.encode ++ S29.f1) ++ bmpMsg 0 (S29.hdr.encode ++ S29.f2)) ∧
    accepted (checkRec S29.tbl none (.bmpRm S29.hdr false (some (S29.f1 ++ S29.f2)) S29.mon)
      (bmpMsg 0 (S29.hdr.encode ++ (S29.f1 ++ S29.f2)))) = false ∧
    accepted (checkRec S29.tbl none (.mrtMp S29.mph false (some (S29.f1 ++ S29.f2)) S29.mon)
      (mrtRecord 0 16 4 (S29.mph.encode ++ (S29.f1 ++ S29.f2)))) = false := by decide

/-- Peer Up: local address in the family the V flag announces, both ports, and exactly the two OPEN PDUs
    (sent, received) that decode to the monitored OPENs. -/
theorem bmp_peer_up_ok (tbl : Tbl) (np : Option Nat) (h : PeerHdr) (la : Ip) (lp rp : Nat) (b : Bytes)
    (mL mR : Content) (hd : recDom np (.bmpUp h la lp rp (some b) mL mR) = true)
    (he : embOk tbl (.bmpUp h la lp rp (some b) mL mR) = true) (rest : Bytes) :
    checkRec tbl np (.bmpUp h la lp rp (some b) mL mR)
      (bmpMsg 3 (h.encode ++ (encodeIp la ++ (u16 lp ++ (u16 rp ++ b)))) ++ rest) = .ok rest :=
  checkRec_bmpUp tbl np h la lp rp b mL mR hd he rest

/-- Peer Down: reason code of the reason, followed by the NOTIFICATION PDU (1, 3), the 2-byte FSM event code (2)
    or nothing (4, 5). -/
theorem bmp_peer_down_ok (tbl : Tbl) (np : Option Nat) (h : PeerHdr) (r : DownReason) (e : Bytes)
    (hd : recDom np (.bmpDown h r) = true) (he : embOk tbl (.bmpDown h r) = true) (henc : r.encode = some e)
    (rest : Bytes) :
    checkRec tbl np (.bmpDown h r) (bmpMsg 2 (h.encode ++ e) ++ rest) = .ok rest :=
  checkRec_bmpDown tbl np h r e hd he henc rest

/-! ### MRT -/

/-- An MRT record (timestamp, type, subtype, back-patched length, body) carries in its common header the number
    of bytes that follow it. -/
theorem mrt_record_len_exact (ts code sub : Nat) (body : Bytes) (h1 : ts < 4294967296) (h2 : code < 65536)
    (h3 : sub < 65536) (hl : body.length < 4294967296) :
    (mrtRecord ts code sub body).length = 12 + body.length ∧
      be (((mrtRecord ts code sub body).drop 8).take 4) = body.length ∧
      ∀ rest, readMrtCommon (mrtRecord ts code sub body ++ rest) = some (ts, code, sub, body, rest) :=
  mrtRecord_len_exact ts code sub body h1 h2 h3 hl

/-- Whatever the model writes for an MRT item is a sequence of such records: exactly one, except for BGP4MP,
    which writes one record per embedded BGP frame. -/
theorem mrt_len_exact (r : Rec) (w : Bytes) (hb : isBmp r = false) (he : r.encode = some w) :
    ∃ (ts ty st : Nat) (bodies : List Bytes), w = bodies.flatMap (mrtRecord ts ty st) ∧ ty < 65536 ∧ st < 65536 ∧
      ((match r with | .mrtMp .. => False | _ => True) → bodies.length = 1) :=
  mrt_len_exact_proof r w hb he

/-- BGP4MP header (RFC 6396 §4.4.3): for a 4-byte-AS header whose peer and local address are of the same
    family (they are the two ends of one TCP session), the AFI is 2 iff the addresses are IPv6, both address
    fields have the width the AFI announces and hold the peer resp. local address; the subtype is
    BGP4MP_MESSAGE_AS4 (4) without and BGP4MP_MESSAGE_AS4_ADDPATH (9) with add-path. -/
theorem mrt_afi_matches_addrs (h : MpHdr) (h4 : h.asn4 = true) (hw : ipWf h.raddr = true ∧ ipWf h.laddr = true)
    (hfam : h.laddr.isV6 = h.raddr.isV6) (ap : Bool) :
    h.encode = u32 h.rasn ++ (u32 h.lasn ++ (u16 h.ifidx ++ (u16 (if h.raddr.isV6 then 2 else 1) ++
      (h.raddr.bytes ++ h.laddr.bytes)))) ∧
    h.raddr.bytes.length = (if h.raddr.isV6 then 16 else 4) ∧
    h.laddr.bytes.length = (if h.raddr.isV6 then 16 else 4) ∧
    bgp4mpSubtype (mpSubtype h.asn4 ap) = some (4, ap) :=
  mrt_afi_matches_addrs_proof h h4 hw hfam ap

/-- and the checker accepts the BGP4MP record(s) of the item under the hypotheses `embOk` on the embedded bytes -/
theorem mrt_embedded_roundtrip (tbl : Tbl) (np : Option Nat) (h : MpHdr) (ap : Bool) (b : Bytes)
    (mon : Content) (hd : recDom np (.mrtMp h ap (some b) mon) = true)
    (he : embOk tbl (.mrtMp h ap (some b) mon) = true) (rest : Bytes) :
    checkRec tbl np (.mrtMp h ap (some b) mon)
      (((splitFrames b.length b).flatMap fun f => mrtRecord 0 16 (mpSubtype h.asn4 ap) (h.encode ++ f)) ++ rest)
      = .ok rest :=
  checkRec_mrtMp tbl np h ap b mon hd he rest

set_option maxRecDepth 100000 in
/-- The same-family hypothesis is needed: for an IPv4 peer and an IPv6 local address `MpHeader::encode`
    writes AFI 1 and NO local address, so a reader takes the first 4 bytes of the BGP marker for it
    (unreachable from the daemon: both addresses come from one socket). -/
example :
    let h : MpHdr := { S29.mph with laddr := .v6 (List.replicate 16 1) }
    accepted (checkRec [(false, S29.f1, .eor 65537)] none (.mrtMp h false (some S29.f1) (.eor 65537))
      (mrtRecord 0 16 4 (h.encode ++ S29.f1))) = false := by decide

/-! ### TABLE_DUMP_V2 -/

/-- PEER_INDEX_TABLE: the peer count field equals the number of peer entries present, each entry's type
    octet announces the width of the address actually written (bit 0 ⇔ IPv6) and a 4-byte AS (bit 1), and the
    entries are the given peers; RIB_IPV4/IPV6_UNICAST: the entry count equals the entries present, every
    attribute length field covers exactly the well-formed attribute TLVs of that entry (the path attributes,
    then the next hop), and every peer index refers to the PEER_INDEX_TABLE in force. -/
theorem tabledump_counts_consistent (tbl : Tbl) (np : Option Nat) (r : Rec)
    (hk : match r with | .tdPeers .. => True | .tdRib .. => True | _ => False)
    (hd : recDom np r = true) :
    ∃ w, r.encode = some w ∧ ∀ rest, checkRec tbl np r (w ++ rest) = .ok rest := by
  cases r with
  | tdPeers ts rid peers => exact ⟨_, rfl, checkRec_tdPeers tbl np ts rid peers hd⟩
  | tdRib v6 ts seq mask addr ents => exact checkRec_tdRib tbl np v6 ts seq mask addr ents hd
  | _ => cases hk

/-- explicit form for the peer table: what the RFC 6396 §4.3.1 reader finds -/
theorem peer_index_count (peers : List PeerEnt) (hd : ∀ p ∈ peers, peerWf p) (hn : peers.length < 65536) :
    ∃ es, readPeers ((peers.flatMap PeerEnt.encode).length + 1) (peers.flatMap PeerEnt.encode) = some es ∧
      be (u16 peers.length) = es.length ∧ allMatch peerMatches peers es = true := by
  refine ⟨peers.map rawPeer, readPeers_encode peers _ hd (Nat.lt_succ_self _), ?_, allMatch_rawPeer peers⟩
  rw [be_u16_lt hn, List.length_map]

/-- explicit form for one RIB entry: its attribute-length field is the size of its attribute block, which is
    a sequence of well-formed TLVs carrying the path attributes followed by the next hop -/
theorem rib_entry_attr_length (v6 : Bool) (e : RibEnt) (hd : entDom v6 e = true) :
    ∃ blk tlvs, e.encode v6 = some (u16 e.pidx ++ (u32 e.orig ++ (u16 blk.length ++ blk))) ∧
      be (u16 blk.length) = blk.length ∧ readAttrTlvs (blk.length + 1) blk = some tlvs ∧
      allMatch tlvMatches (wantedTlvs v6 e) tlvs = true := by
  obtain ⟨blk, hb, hbl, tlvs, hr, hm⟩ := attrBlock_read v6 e hd
  simp only [entDom, Bool.and_eq_true, decide_eq_true_eq] at hd
  exact ⟨blk, tlvs, by simp [RibEnt.encode, hb], be_u16_lt (by omega), hr, hm⟩

/-! ### non-vacuity: a concrete case on which every hypothesis of the master theorem holds -/

namespace Ex
def open1 : Bytes := List.replicate 16 255 ++ [0, 29, 1, 4, 253, 233, 0, 90, 10, 0, 0, 1, 0]
def open2 : Bytes := List.replicate 16 255 ++ [0, 29, 1, 4, 253, 234, 0, 90, 10, 0, 0, 2, 0]
def notif : Bytes := List.replicate 16 255 ++ [0, 21, 3, 6, 2]
def upd : Bytes := List.replicate 16 255 ++ [0, 23, 2, 0, 0, 0, 0]
def hdr6 : PeerHdr :=
  { ptype := 0, flags := 64, dist := 0, addr := .v6 (List.replicate 15 0 ++ [1]), asn := 4200000001,
    bgpId := [10, 0, 0, 2], ts := 1700000000 }
def attrs : List Attr :=
  [ { code := 1, flags := 64, kind := .val, val := 0, data := [] },
    { code := 2, flags := 64, kind := .bin, val := 0, data := [2, 1, 0, 0, 253, 233] },
    { code := 200, flags := 192, kind := .opq, val := 0, data := List.replicate 300 7 } ]
def c : Case :=
  { tbl := [(false, open1, .other [1]), (false, open2, .other [2]), (false, notif, .other [3]),
            (true, upd, .eor 65537), (false, upd, .eor 65537)],
    recs := [ .bmpUp hdr6 (.v6 (List.replicate 16 2)) 179 12345 (some (open1 ++ open2)) (.other [1]) (.other [2]),
              .bmpRm hdr6 true (some upd) (.eor 65537),
              .bmpRm S29.hdr false (some upd) (.eor 65537),
              .bmpDown S29.hdr (.remoteNotif (some notif) (.other [3])),
              .bmpDown hdr6 (.localFsm 0),
              .bmpInit [(1, [82, 66]), (2, [])],
              .mrtMp S29.mph true (some upd) (.eor 65537),
              .tdPeers 1000000000 [1, 1, 1, 1]
                [ { bgpId := [10, 0, 0, 1], addr := .v4 [10, 0, 0, 1], asn := 65001 },
                  { bgpId := [10, 0, 0, 2], addr := .v6 (List.replicate 16 2), asn := 4200000001 } ],
              .tdRib false 1000000000 0 24 [10, 0, 0, 0]
                [ { pidx := 1, orig := 1000000000, nh := some [192, 168, 1, 1], attrs := attrs },
                  { pidx := 0, orig := 1000000000, nh := none, attrs := [] } ],
              .tdRib true 1000000000 0 32 ([32, 1, 13, 184] ++ List.replicate 12 0)
                [ { pidx := 1, orig := 5, nh := some (List.replicate 16 2), attrs := attrs } ] ] }
end Ex

set_option maxRecDepth 100000 in
example : inDomain Ex.c = true ∧ Ex.c.recs.all (embOk Ex.c.tbl) = true := by decide

set_option maxRecDepth 100000 in
/-- the single-frame hypotheses of `bmp_embedded_roundtrip_partial` are satisfiable -/
example : IsFrame 2 Ex.upd ∧ lookup Ex.c.tbl true Ex.upd = some (.eor 65537) ∧
    compat (.eor 65537) (.eor 65537) = true := by decide

/-! ### the daemon-side converters (daemon/src/bmp.rs, daemon/src/mrt.rs) -/

/-- The modelled converters (`adj_rib_in_to_bmp_update` + per-peer header of the live events,
    `adj_rib_out_to_bmp_update`, `loc_rib_to_bmp`, `adj_rib_in_to_mrt`, `session_down_to_bmp`,
    `flush_peer_snapshot`, `dump_table`) emit exactly the records `DSpec.wanted` asks for an event. -/
theorem converters_emit_wanted (e : Ev) : e.toRecs = DSpec.wanted e :=
  DProofs.toRecs_eq_wanted e

/-- **Daemon-level master theorem**: for every sequence of monitored events in the daemon's domain (and
    packet-level records in between) the reference checker accepts what the modelled converters + encoders emit. -/
theorem daemon_check_run_ok (d : DCase) (hd : DSpec.inDomain d = true)
    (he : (d.toCase).recs.all (embOk d.tbl) = true) : DSpec.check d (drun d) = .ok :=
  DProofs.dcheck_run d hd he

/-- `dump_table` (stated on the MODEL of `dump_table`, `DModel.idxOf` = `peer_index.get`): a peer index written into
    a RIB entry is smaller than the number of peers of the PEER_INDEX_TABLE written before it, and the entry at that
    index is the peer the path was learned from. -/
theorem dump_peer_index_consistent (peers : List PeerEnt) (p : DPath) (i : Nat)
    (h : idxOf peers p.src.raddr = some i) :
    i < peers.length ∧ ∃ e, peers[i]? = some e ∧ e.addr = p.src.raddr := by
  rw [DProofs.idxOf_eq] at h
  exact ⟨DProofs.position_lt peers _ i h, DProofs.position_addr peers _ i h⟩

/-- `dump_table` (on the model: `buildPeers` = the peer-index loop, `dumpEnts` = the `filter_map` of one record): no
    path is lost - a RIB record has exactly one entry per path of its prefix - and all its indexes are in range. -/
theorem dump_entry_count_consistent (chgs : List DChg) (c : DChg) (hc : c ∈ chgs) :
    (dumpEnts (buildPeers chgs) c.paths).length = c.paths.length ∧
      ∀ e ∈ dumpEnts (buildPeers chgs) c.paths, e.pidx < (buildPeers chgs).length := by
  rw [DProofs.buildPeers_eq, DProofs.dumpEnts_eq]
  exact ⟨DProofs.entriesOf_length chgs c hc, DProofs.entriesOf_pidx _ _⟩

namespace DEx
def src1 : Src := { raddr := .v4 [10, 0, 0, 1], laddr := .v4 [10, 0, 0, 9], rasn := 65001, lasn := 65009, rid := 167772161 }
def src2 : Src := { raddr := .v6 (List.replicate 16 2), laddr := .v6 (List.replicate 16 9), rasn := 4200000001, lasn := 65009, rid := 167772162 }
def path (s : Src) (nh : Bytes) : DPath := { src := s, nh := some nh, attrs := Ex.attrs }
def d : DCase :=
  { tbl := [(false, Ex.upd, .unreach 65537 [(0, [24, 10, 0, 1])]), (true, Ex.upd, .reach 131073 [(7, [0])] (some [1]) Ex.attrs),
            (false, Ex.notif, .other [3])],
    items := [ .ev (.rm true { src := src1, fam := 65537, ap := false, nlris := [(0, [24, 10, 0, 1])], attrs := none,
                               nh := none, ts := 5 } (some Ex.upd)),
               .ev (.mrt { src := src2, fam := 131073, ap := true, nlris := [(7, [0])], attrs := some Ex.attrs,
                           nh := some [1], ts := 5 } (some Ex.upd)),
               .ev (.down (.v4 [10, 0, 0, 1]) 65001 167772161 4294967301 (.remote (.other [3])) (some Ex.notif)),
               .ev (.dump [1, 1, 1, 1]
                     [ { mask := 24, addr := [10, 0, 0, 0], paths := [path src2 [192, 168, 0, 1], path src1 [192, 168, 0, 2]] },
                       { mask := 8, addr := [11, 0, 0, 0], paths := [path src1 [192, 168, 0, 2]] } ]
                     [ { mask := 32, addr := [32, 1, 13, 184] ++ List.replicate 12 0, paths := [path src2 (List.replicate 16 2)] } ]),
               .pkt (.tdRib false 0 9 0 [0, 0, 0, 0] [ { pidx := 1, orig := 0, nh := none, attrs := [] } ]) ] }
end DEx

set_option maxRecDepth 100000 in
/-- non-vacuity of the daemon-level master theorem (a live event, an MRT event, a peer-down, a two-peer dump and a
    packet-level RIB record that refers to the dump's peer table) -/
example : DSpec.inDomain DEx.d = true ∧ (DEx.d.toCase).recs.all (embOk DEx.d.tbl) = true := by decide

end Rbgp.Mon2.Props
