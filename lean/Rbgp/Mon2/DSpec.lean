/-
  Rbgp.Mon2.DSpec — what the daemon must emit for a monitored event (from the property text and RFC 7854 §4.2 /
  §4.6 / §4.9, RFC 8671 §4, RFC 9069 §4, RFC 6396 §4.4): the records whose well-formedness and content the
  packet-level checker `Spec.check` then verifies on the real bytes.
    * an Adj-RIB-In change of peer P: one Route Monitoring message, Global Instance peer header with P's address,
      AS and BGP identifier, the time of the change, the L flag exactly for the post-policy view, carrying the
      change (announcement when it has attributes, else withdrawal) with the session's add-path setting;
    * an Adj-RIB-Out change towards P: the same with the O flag;
    * a Loc-RIB change: peer type 3, zero peer address, the router's own AS / identifier, no add-path;
    * for MRT: one BGP4MP_MESSAGE_AS4[_ADDPATH] with both ASNs and both addresses of the session;
    * a session going down: one Peer Down whose header names the peer; reason 1/3 with the NOTIFICATION PDU when
      a NOTIFICATION was sent/received, else reason 2 (FSM event 0) for local causes and 4 for remote ones.
-/
import Rbgp.Mon2.Spec
import Rbgp.Mon2.DModel
namespace Rbgp.Mon2.DSpec
open Rbgp.Mon2 Rbgp.Mon2.Spec

def be4 (n : Nat) : Bytes := [n / 16777216 % 256, n / 65536 % 256, n / 256 % 256, n % 256]

def monOf (fam : Nat) (nlris : List (Nat × Bytes)) (attrs : Option (List Attr)) (nh : Option Bytes) : Content :=
  match attrs with
  | some a => .reach fam nlris nh a
  | none => .unreach fam nlris

def globalHdr (flags : Nat) (addr : Ip) (asn id ts : Nat) : PeerHdr :=
  { ptype := 0, flags := flags, dist := 0, addr := addr, asn := asn, bgpId := be4 id, ts := ts }

def wantedDown (r : SessDown) (emb : Option Bytes) : DownReason :=
  match r with
  | .remote m => .remoteNotif emb m
  | .loc m => .localNotif emb m
  | .none => .remoteUnexpected
  | .io => .remoteUnexpected
  | _ => .localFsm 0

/-! #### table dump: every distinct peer once in the index table (in order of first appearance, as the bytes
have it), every path of every prefix as one entry pointing at its peer's position, no record without entries,
sequence numbers counting the records of a subtype -/

def peerEntry (p : DPath) : PeerEnt := { bgpId := be4 p.src.rid, addr := p.src.raddr, asn := p.src.rasn }

def notePeer (peers : List PeerEnt) (p : DPath) : List PeerEnt :=
  if peers.any (fun e => decide (e.addr = p.src.raddr)) then peers else peers ++ [peerEntry p]

def peersOf (chgs : List DChg) : List PeerEnt := (chgs.flatMap (·.paths)).foldl notePeer []

def position : List PeerEnt → Ip → Option Nat
  | [], _ => none
  | e :: es, a => if e.addr = a then some 0 else (position es a).map (· + 1)

def entriesOf (peers : List PeerEnt) (paths : List DPath) : List RibEnt :=
  paths.filterMap fun p => (position peers p.src.raddr).map fun i => { pidx := i, orig := 0, nh := p.nh, attrs := p.attrs }

def ribsOf (v6 : Bool) (peers : List PeerEnt) : Nat → List DChg → List Rec
  | _, [] => []
  | seq, c :: cs =>
    if (entriesOf peers c.paths).isEmpty then ribsOf v6 peers seq cs
    else .tdRib v6 0 seq c.mask c.addr (entriesOf peers c.paths) :: ribsOf v6 peers (seq + 1) cs

def wantedDump (rid : Bytes) (c4 c6 : List DChg) : List Rec :=
  .tdPeers 0 rid (peersOf (c4 ++ c6)) :: (ribsOf false (peersOf (c4 ++ c6)) 0 c4 ++ ribsOf true (peersOf (c4 ++ c6)) 0 c6)

/-! #### snapshot flush: the net state of the peer (last announcement per (family, prefix, path id) not followed by
a withdrawal), one Route Monitoring message per route under the route's own peer header and time, then one
End-of-RIB per family under the session's header -/

def forget (snap : List (SnapKey × Change)) (k : SnapKey) : List (SnapKey × Change) :=
  snap.filter fun e => !decide (e.1 = k)

def netStep (snap : List (SnapKey × Change)) (c : Change) : List (SnapKey × Change) :=
  match c.attrs with
  | some _ => c.nlris.foldl (fun s n => forget s (c.src.raddr, c.fam, n.1, n.2) ++
                [((c.src.raddr, c.fam, n.1, n.2), { c with nlris := [n] })]) snap
  | none => c.nlris.foldl (fun s n => forget s (c.src.raddr, c.fam, n.1, n.2)) snap

def wantedFlush (addr : Ip) (asn id upts : Nat) (post : Bool) (chgs : List Change) (embs : List (Option Bytes)) :
    List Rec :=
  let routes := sortBy routeLt ((chgs.foldl netStep []).filter fun e => decide (e.1.1 = addr))
  let fams := dedupNat (sortBy (fun a b => decide (a < b)) (routes.map fun e => e.1.2.1))
  zipEmb
    (routes.map (fun e emb =>
        Rec.bmpRm (globalHdr (if post then 64 else 0) e.2.src.raddr e.2.src.rasn e.2.src.rid e.2.ts) e.2.ap emb
          (monOf e.2.fam e.2.nlris e.2.attrs e.2.nh)) ++
     fams.map (fun f emb =>
        Rec.bmpRm (globalHdr (if post then 64 else 0) addr asn id upts) false emb (.eor f)))
    embs

/-- RFC 9069 §5.2: the Peer Up of the Loc-RIB instance carries fabricated OPENs with the router's AS and
    identifier; capabilities MUST include the four-octet AS (without it an AS above 65535 is not representable) -/
def locRibOpen (rid : Bytes) (asn : Nat) : Content :=
  .other (s!"(open {asn} 0 {rid.foldl (fun a b => a * 256 + b) 0} (caps (as4 {asn})))".toList.map Char.toNat)

/-! #### a whole eBGP IPv4 session seen by a BMP station with policy `all` (RFC 7854 §3.3, §4.6, §4.9, §4.10,
RFC 8671 §4, RFC 9069 §4-5).  `sent` / `recv` are the OPEN messages that really went over the session's TCP
connection (the harness reads them off the wire).
  * a station connected before the session: Peer Up of the Loc-RIB instance; Peer Up of the peer whose Sent OPEN
    is `sent` and whose Received OPEN is `recv`; per UPDATE of the peer one pre-policy, one post-policy (L flag)
    and one Loc-RIB (peer type 3) Route Monitoring carrying it, and the Adj-RIB-Out (O, O|L) withdrawal towards
    the peer itself; at the end the Loc-RIB withdrawal of the routes still installed and the Peer Down;
  * a station connecting while the session is up: Peer Up (same OPENs), the installed routes pre- and post-policy,
    each view closed by End-of-RIB under the peer's header, the Loc-RIB Peer Up, the installed routes and
    End-of-RIB under the Loc-RIB header (peer type 3), then the same end;
  * an MRT update dump running during the session: one BGP4MP record per UPDATE of the peer. -/

def sessionAttrs (rasn : Nat) : List Attr :=
  [ { code := 1, flags := 64, kind := .val, val := 0, data := [] },
    { code := 2, flags := 64, kind := .bin, val := 0, data := [2, 1] ++ be4 rasn } ]

def updateOf (rasn : Nat) (a : Bool × Nat × Bytes) : Content :=
  if a.1 then .reach 65537 [a.2] (some [10, 0, 0, 1]) (sessionAttrs rasn) else .unreach 65537 [a.2]

/-- the Loc-RIB view of an UPDATE: no path identifiers -/
def noPathIds : Content → Content
  | .reach f e nh a => .reach f (e.map fun x => (0, x.2)) nh a
  | .unreach f e => .unreach f (e.map fun x => (0, x.2))
  | c => c

def installed (acts : List (Bool × Nat × Bytes)) : List (Nat × Bytes) :=
  acts.foldl (fun acc a => if a.1 then (acc.filter (· != a.2)) ++ [a.2] else acc.filter (· != a.2)) []

def locRibHdr (lasn lrid : Nat) : PeerHdr :=
  { ptype := 3, flags := 0, dist := 0, addr := .v4 [0, 0, 0, 0], asn := lasn, bgpId := be4 lrid, ts := 0 }

def wantedLive (ap : Bool) (lrid lasn rasn rrid : Nat) (acts : List (Bool × Nat × Bytes)) (late : Bool)
    (sent recv : Content) (embs : List (Option Bytes)) : List Rec :=
  -- the Adj-RIB-In views use the add-path setting the two OPENs negotiated (`ap`), everything else none
  let rm (h : PeerHdr) (c : Content) : Option Bytes → Rec := fun e => .bmpRm h false e c
  let rmIn (h : PeerHdr) (c : Content) : Option Bytes → Rec := fun e => .bmpRm h ap e c
  let peer := globalHdr 0 (.v4 [127, 0, 0, 1]) rasn rrid 0
  let peerL := globalHdr 64 (.v4 [127, 0, 0, 1]) rasn rrid 0
  let loc := locRibHdr lasn lrid
  let locUp : Option Bytes → Rec := fun e =>
    .bmpUp loc (.v4 [0, 0, 0, 0]) 0 0 e (locRibOpen (be4 lrid) lasn) (locRibOpen (be4 lrid) lasn)
  let peerUp : Option Bytes → Rec := fun e => .bmpUp peer (.v4 [127, 0, 0, 1]) 0 0 e sent recv
  let left := installed acts
  let reach (n : Nat × Bytes) : Content := updateOf rasn (true, n)
  let closing : List (Option Bytes → Rec) :=
    left.map (fun n => rm loc (.unreach 65537 [(0, n.2)])) ++ [fun _ => .bmpDown peer .remoteUnexpected]
  let eor (h : PeerHdr) : List (Option Bytes → Rec) := if left.isEmpty then [] else [rm h (.eor 65537)]
  let early : List (Option Bytes → Rec) :=
    [locUp, peerUp] ++
      acts.flatMap (fun a =>
        [ rmIn peer (updateOf rasn a), rmIn peerL (updateOf rasn a), rm loc (noPathIds (updateOf rasn a)) ] ++
        (if ap then [] else
          [ rm (globalHdr 16 (.v4 [127, 0, 0, 1]) rasn rrid 0) (.unreach 65537 [a.2]),
            rm (globalHdr 80 (.v4 [127, 0, 0, 1]) rasn rrid 0) (.unreach 65537 [a.2]) ])) ++
      closing
  let lateL : List (Option Bytes → Rec) :=
    if late then
      [peerUp] ++ left.map (fun n => rmIn peer (reach n)) ++ eor peer ++
        left.map (fun n => rmIn peerL (reach n)) ++ eor peerL ++
        [locUp] ++ left.map (fun n => rm loc (noPathIds (reach n))) ++ eor loc ++ closing
    else []
  -- the MRT update dump taken during the session (RFC 6396 §4.4.3, RFC 8050 §3): one BGP4MP_MESSAGE_AS4[_ADDPATH]
  -- per UPDATE of the peer, with both AS numbers and both addresses of the session
  let dump : List (Option Bytes → Rec) :=
    acts.map (fun a e =>
      Rec.mrtMp { rasn := rasn, lasn := lasn, ifidx := 0, raddr := .v4 [127, 0, 0, 1], laddr := .v4 [127, 0, 0, 1],
                  asn4 := true } ap e (updateOf rasn a))
  zipEmb (early ++ lateL ++ dump) embs

def wanted : Ev → List Rec
  | .live ap lrid lasn rasn rrid acts late so ro embs => wantedLive ap lrid lasn rasn rrid acts late so ro embs
  | .flush addr asn id upts post chgs embs => wantedFlush addr asn id upts post chgs embs
  | .dump rid c4 c6 => wantedDump rid c4 c6
  | .rm post c emb =>
      [.bmpRm (globalHdr (if post then 64 else 0) c.src.raddr c.src.rasn c.src.rid c.ts) c.ap emb
         (monOf c.fam c.nlris c.attrs c.nh)]
  | .out post addr asn id fam ap nlri attrs nh ts emb =>
      [.bmpRm (globalHdr (if post then 80 else 16) addr asn id ts) ap emb (monOf fam [nlri] attrs nh)]
  | .locRib fam net attrs nh ts rid asn emb =>
      [.bmpRm { ptype := 3, flags := 0, dist := 0, addr := .v4 [0, 0, 0, 0], asn := asn, bgpId := rid, ts := ts }
         false emb (monOf fam [(0, net)] attrs nh)]
  | .mrt c emb =>
      [.mrtMp { rasn := c.src.rasn, lasn := c.src.lasn, ifidx := 0, raddr := c.src.raddr, laddr := c.src.laddr,
                asn4 := true } c.ap emb (monOf c.fam c.nlris c.attrs c.nh)]
  | .down addr asn id uptime r emb =>
      [.bmpDown (globalHdr 0 addr asn id (uptime % 4294967296)) (wantedDown r emb)]
  | .locUp rid asn emb =>
      [.bmpUp { ptype := 3, flags := 0, dist := 0, addr := .v4 [0, 0, 0, 0], asn := asn, bgpId := rid, ts := 0 }
         (.v4 [0, 0, 0, 0]) 0 0 emb (locRibOpen rid asn) (locRibOpen rid asn)]

def wantedItem : Item → List Rec
  | .pkt r => [r]
  | .ev e => wanted e

def wantedCase (d : DCase) : Case := { tbl := d.tbl, recs := d.items.flatMap wantedItem }

/-! ### the events the rest of the daemon produces -/

/-- not a table-dump record -/
def noTd : Rec → Bool
  | .tdPeers .. => false
  | .tdRib .. => false
  | _ => true

def srcDom (s : Src) : Bool :=
  ipWf s.raddr && ipWf s.laddr && decide (s.laddr.isV6 = s.raddr.isV6) && decide (s.rasn < 4294967296) &&
    decide (s.lasn < 4294967296) && decide (s.rid < 4294967296)

/-- an update event names at least one prefix; an announcement has a next hop -/
def updDom (nlris : List (Nat × Bytes)) (attrs : Option (List Attr)) (nh : Option Bytes) : Bool :=
  !nlris.isEmpty && (match attrs with | some _ => nh.isSome | none => true)

def evDom : Ev → Bool
  -- a flush / a dump: every record to be emitted has fields of the widths the encoders can represent (the same
  -- conditions as for packet-level records; the peer-index condition of RIB records is NOT assumed but proved)
  | .flush addr asn id upts post chgs embs => (wantedFlush addr asn id upts post chgs embs).all (recDom none)
  | .live ap lrid lasn rasn rrid acts late so ro embs =>
      (wantedLive ap lrid lasn rasn rrid acts late so ro embs).all (fun r => recDom none r && noTd r)
  | .dump rid c4 c6 =>
      (wantedDump rid c4 c6).all (recDom none) && decide (((c4 ++ c6).flatMap (·.paths)).length < 65536)
  | .rm _ c emb => srcDom c.src && decide (c.ts < 4294967296) && updDom c.nlris c.attrs c.nh && emb.isSome
  | .out _ addr asn id _ _ nlri attrs nh ts emb =>
      ipWf addr && decide (asn < 4294967296) && decide (id < 4294967296) && decide (ts < 4294967296) &&
        updDom [nlri] attrs nh && emb.isSome
  | .locRib _ net attrs nh ts rid asn emb =>
      decide (rid.length = 4) && decide (asn < 4294967296) && decide (ts < 4294967296) &&
        updDom [(0, net)] attrs nh && emb.isSome
  | .mrt c emb => srcDom c.src && updDom c.nlris c.attrs c.nh && emb.isSome
  | .down addr asn id _ r emb =>
      ipWf addr && decide (asn < 4294967296) && decide (id < 4294967296) &&
        (match r with | .remote _ => emb.isSome | .loc _ => emb.isSome | _ => true)
  | .locUp rid asn emb => decide (rid.length = 4) && decide (asn < 4294967296) && emb.isSome

/-- the PEER_INDEX_TABLE in force after an event: a dump brings its own -/
def evNext (np : Option Nat) : Ev → Option Nat
  | .dump _ c4 c6 => some (peersOf (c4 ++ c6)).length
  | _ => np

/-- walk the items with the PEER_INDEX_TABLE state of the packet-level domain predicate -/
def itemsDom : Option Nat → List Item → Bool
  | _, [] => true
  | np, .pkt r :: is => recDom np r && itemsDom (nextPeers np r) is
  | np, .ev e :: is => evDom e && itemsDom (evNext np e) is

def inDomain (d : DCase) : Bool := itemsDom none d.items

/-- The C19 reference checker for daemon-level cases: the packet-level checker on the wanted records. -/
def check (d : DCase) (o : Obs) : Verdict :=
  if !inDomain d then .ok
  else
    match o with
    | .panic => .fail 0 "encoder-panicked"
    | .out b _ => checkRecs d.tbl 0 none (wantedCase d).recs b

end Rbgp.Mon2.DSpec
