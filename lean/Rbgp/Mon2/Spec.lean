/-
  Rbgp.Mon2.Spec — reference checker for C19, written from the property text and from
  RFC 7854 (BMP), RFC 6396 + RFC 8050 (MRT), RFC 4271 §4.1/§4.3 (BGP framing, attribute TLVs).

  It reads the byte stream the encoders produced with structural readers (no model function is
  called; only model *types* are imported) and compares what it finds with the data that was to be
  monitored:
    * common header length = the bytes that follow (the record is cut by its own length field, the
      body must be consumed exactly by the structure the type announces, nothing may trail);
    * per-peer header: V flag ⇔ IPv6 peer address, address field = the peer address; MRT: AFI ⇔ width
      of both address fields, which equal the peer / local address;
    * the embedded BGP PDU(s) are complete RFC 4271 frames of the right type, and what the repository's
      own decoder reads in them (a table frame ↦ content, supplied per case by the harness, read with the
      add-path setting the record states) is the monitored content;
      one PDU per Route Monitoring / BGP4MP message (RFC 7854 §4.6, RFC 6396 §4.4.2);
    * PEER_INDEX_TABLE: peer count = entries present; RIB: entry count = entries present, every attribute
      length field covers exactly a sequence of well-formed attribute TLVs, peer indexes refer to the table.
  The checker is vacuous (`ok`) outside `inDomain`, the set of inputs the daemon can hand to the encoders.
-/
import Rbgp.Mon2.Model
namespace Rbgp.Mon2.Spec
open Rbgp.Mon2

inductive Verdict where
  | ok
  | fail (idx : Nat) (clause : String)
  deriving Repr

def Verdict.isOk : Verdict → Bool
  | .ok => true
  | .fail .. => false

/-- big-endian value of a byte string -/
def be (bs : Bytes) : Nat := bs.foldl (fun a b => a * 256 + b) 0

/-- cut `n` bytes off the front -/
def take? (n : Nat) (s : Bytes) : Option (Bytes × Bytes) :=
  if n ≤ s.length then some (s.take n, s.drop n) else none

/-- `take?` without measuring the whole remaining stream (the compiled checker uses this one: reading a record of
    65535 entries field by field is otherwise quadratic); proved equal to `take?` below -/
def takeGo : Nat → Bytes → Bytes → Option (Bytes × Bytes)
  | 0, acc, s => some (acc.reverse, s)
  | _ + 1, _, [] => none
  | n + 1, acc, x :: xs => takeGo n (x :: acc) xs

theorem takeGo_eq (n : Nat) : ∀ (acc s : Bytes),
    takeGo n acc s = if n ≤ s.length then some (acc.reverse ++ s.take n, s.drop n) else none := by
  induction n with
  | zero => intro acc s; simp [takeGo]
  | succ n ih =>
    intro acc s
    cases s with
    | nil => simp [takeGo]
    | cons x xs =>
      simp only [takeGo, ih, List.length_cons, Nat.add_le_add_iff_right, List.reverse_cons, List.take_succ_cons,
        List.drop_succ_cons, List.append_assoc, List.singleton_append]

def takeFast? (n : Nat) (s : Bytes) : Option (Bytes × Bytes) := takeGo n [] s

@[csimp] theorem take?_eq_takeFast : @take? = @takeFast? := by
  funext n s
  simp [take?, takeFast?, takeGo_eq]

def firstFail : List (Bool × String) → Option String
  | [] => none
  | (true, _) :: r => firstFail r
  | (false, c) :: _ => some c

/-! ### RFC 4271 §4.1 framing of the embedded PDUs -/

def marker : Bytes := List.replicate 16 255

/-- one BGP message at the front of `s`: (frame, type) and the rest -/
def bgpFrame? (s : Bytes) : Option ((Bytes × Nat) × Bytes) :=
  match take? 16 s with
  | none => none
  | some (m, s1) =>
    match take? 2 s1 with
    | none => none
    | some (l, s2) =>
      match take? 1 s2 with
      | none => none
      | some (t, _) =>
        if m = marker ∧ 19 ≤ be l ∧ 1 ≤ be t ∧ be t ≤ 5 then
          match take? (be l) s with
          | none => none
          | some (f, rest) => some ((f, be t), rest)
        else none

/-- the whole of `s` as a sequence of BGP messages -/
def bgpFrames : Nat → Bytes → Option (List (Bytes × Nat))
  | _, [] => some []
  | 0, _ :: _ => none
  | fuel + 1, s@(_ :: _) =>
    match bgpFrame? s with
    | none => none
    | some (f, rest) => (bgpFrames fuel rest).map (f :: ·)

abbrev Tbl := List (Bool × Bytes × Content)

/-- what the repository's decoder reads in `frame` with add-path setting `ap` -/
def lookup (tbl : Tbl) (ap : Bool) (frame : Bytes) : Option Content :=
  (tbl.find? (fun r => decide (r.1 = ap ∧ r.2.1 = frame))).map (·.2.2)

/-- NLRI lists agree: with add-path the path identifiers count, without it only the prefixes -/
def entsEq (ap : Bool) (a b : List (Nat × Bytes)) : Bool :=
  if ap then decide (a = b) else decide (a.map (·.2) = b.map (·.2))

/-- flags agree except for the extended-length bit, which follows the encoding (the decoder keeps the
    wire flags; C04 names this canonicalisation) -/
def flagsAgree (wire intended : Nat) : Bool :=
  decide (wire / 32 = intended / 32) && decide (wire % 16 = intended % 16)

def attrAgrees (a b : Attr) : Bool :=
  decide (a.code = b.code) && flagsAgree a.flags b.flags && decide (a.kind = b.kind) && decide (a.val = b.val) &&
    decide (a.data = b.data)

def allMatch {α β} (f : α → β → Bool) : List α → List β → Bool
  | [], [] => true
  | a :: as, b :: bs => f a b && allMatch f as bs
  | _, _ => false

/-- the NLRI of an UPDATE content (none for End-of-RIB and for other messages) -/
def entsOf : Content → List (Nat × Bytes)
  | .reach _ e _ _ => e
  | .unreach _ e => e
  | _ => []

/-- a decoded PDU is a piece of the monitored message: same kind, family, next hop and attributes (for
    End-of-RIB and non-UPDATE messages: the same message) -/
def compat (mon c : Content) : Bool :=
  match mon, c with
  | .reach f _ n a, .reach f' _ n' a' => decide (f' = f) && decide (n' = n) && allMatch attrAgrees a' a
  | .unreach f _, .unreach f' _ => decide (f' = f)
  | m, c => decide (c = m)

/-- salient class of a failure (part of the signature): from the monitored message and, when a decoded piece is at
    hand, from HOW it differs.  `v4-nexthop-padded-to-16` only if the piece agrees in family and attributes and its
    next hop is the monitored 4-byte next hop followed by 12 zero bytes (finding S29c); any other difference of the
    same input keeps the general classes. -/
def paddedNh (mon c : Content) : Bool :=
  match mon, c with
  | .reach f _ (some nh) a, .reach f' _ (some nh') a' =>
      decide (f' = f) && decide (nh.length = 4) && decide (nh' = nh ++ List.replicate 12 0) && allMatch attrAgrees a' a
  | _, _ => false

def nhClass : Content → String
  | .reach fam _ (some nh) attrs =>
      if fam = 65537 ∧ 16 ≤ nh.length then "v4-nlri-v6-nexthop"
      else if (attrs.map (fun a => a.data.length)).sum > 3500 then "large-attributes" else "plain"
  | .reach _ _ none _ => "no-nexthop"
  | _ => "plain"

def failClass (mon : Content) (c : Option Content) : String :=
  match c with
  | some c => if paddedNh mon c then "v4-nexthop-padded-to-16" else nhClass mon
  | none => nhClass mon

/-- `s` must be exactly ONE complete BGP UPDATE PDU (RFC 7854 §4.6, RFC 6396 §4.4.2); what the decoder reads in it -/
def readOnePdu (who : String) (tbl : Tbl) (ap : Bool) (s : Bytes) : Except String Content :=
  match bgpFrames (s.length + 1) s with
  | none => .error s!"{who}-pdu-not-framed"
  | some fs =>
    if fs.any (fun f => f.2 != 2) then .error s!"{who}-pdu-not-update"
    else
      match fs with
      | [f] =>
        match lookup tbl ap f.1 with
        | none => .error s!"{who}-pdu-unknown-to-decoder-table"
        | some c => .ok c
      | _ => .error s!"{who}-not-single-pdu"

/-- A monitored UPDATE may be spread over several records (one PDU each, when it does not fit one BGP message):
    read records with `rd` until the NLRI read so far are as many as the monitored ones; every piece must be
    compatible with the monitored message and bring at least one NLRI, and the NLRI read must be the monitored
    ones (with add-path: including the path identifiers). -/
def checkSeq (rd : Bytes → Except String (Content × Bytes)) (who : String) (ap : Bool) (mon : Content) :
    Nat → List (Nat × Bytes) → Bytes → Except String Bytes
  | 0, _, _ => .error s!"{who}-content-differs class={nhClass mon}"
  | fuel + 1, acc, s =>
    match rd s with
    | .error e => .error e
    | .ok (c, rest) =>
      if !compat mon c then .error s!"{who}-content-differs class={failClass mon (some c)}"
      else if (acc ++ entsOf c).length < (entsOf mon).length then
        if (entsOf c).isEmpty then .error s!"{who}-content-differs class={nhClass mon}"
        else checkSeq rd who ap mon fuel (acc ++ entsOf c) rest
      else if entsEq ap (acc ++ entsOf c) (entsOf mon) then .ok rest
      else .error s!"{who}-content-differs class={nhClass mon}"

/-- `s` must be exactly the PDUs of the given type whose decoded contents are `mons` (add-path irrelevant) -/
def checkPdusExact (who : String) (tbl : Tbl) (typ : Nat) (mons : List Content) (s : Bytes) : Option String :=
  match bgpFrames (s.length + 1) s with
  | none => some s!"{who}-framing"
  | some fs =>
    if fs.length != mons.length || fs.any (fun f => f.2 != typ) then some s!"{who}-framing"
    else
      match fs.mapM (fun f => lookup tbl false f.1) with
      | none => some s!"{who}-unknown-to-decoder-table"
      | some cs => if decide (cs = mons) then none else some s!"{who}-differs"

/-! ### RFC 7854 -/

/-- §4.1 common header: version, length of the whole message, type; returns (version, type, body, rest) -/
def readBmpCommon (s : Bytes) : Option (Nat × Nat × Bytes × Bytes) :=
  match take? 1 s with
  | none => none
  | some (v, s1) =>
    match take? 4 s1 with
    | none => none
    | some (l, s2) =>
      match take? 1 s2 with
      | none => none
      | some (t, s3) =>
        if be l < 6 then none
        else
          match take? (be l - 6) s3 with
          | none => none
          | some (body, rest) => some (be v, be t, body, rest)

/-- §4.2 per-peer header (42 bytes) -/
structure Pph where
  ptype : Nat
  flags : Nat
  dist : Nat
  addr : Bytes
  asn : Nat
  bgpId : Bytes
  tsSec : Nat
  tsUsec : Nat

def readPph (s : Bytes) : Option (Pph × Bytes) :=
  match take? 1 s with
  | none => none
  | some (pt, s) =>
  match take? 1 s with
  | none => none
  | some (fl, s) =>
  match take? 8 s with
  | none => none
  | some (d, s) =>
  match take? 16 s with
  | none => none
  | some (a, s) =>
  match take? 4 s with
  | none => none
  | some (asn, s) =>
  match take? 4 s with
  | none => none
  | some (id, s) =>
  match take? 4 s with
  | none => none
  | some (t1, s) =>
  match take? 4 s with
  | none => none
  | some (t2, s) =>
    some ({ ptype := be pt, flags := be fl, dist := be d, addr := a, asn := be asn, bgpId := id,
            tsSec := be t1, tsUsec := be t2 }, s)

/-- a 16-byte address field: IPv6 as is, IPv4 in the low 4 bytes with 12 zero bytes in front -/
def addr16 : Ip → Bytes
  | .v4 b => List.replicate 12 0 ++ b
  | .v6 b => b

def checkPph (h : PeerHdr) (p : Pph) : List (Bool × String) :=
  [ (decide (p.ptype = h.ptype), "pph-peer-type"),
    (decide ((p.flags / 128 % 2 = 1) ↔ h.addr.isV6 = true), "pph-vflag-address-family"),
    (decide (p.addr = addr16 h.addr), "pph-peer-address"),
    (decide (p.flags % 128 = h.flags % 128), "pph-flags"),
    (decide (p.dist = h.dist), "pph-distinguisher"),
    (decide (p.asn = h.asn), "pph-as"),
    (decide (p.bgpId = h.bgpId), "pph-bgp-id"),
    (decide (p.tsSec = h.ts), "pph-timestamp") ]

/-- §4.4 information TLVs tiling `s` -/
def readTlvs : Nat → Bytes → Option (List (Nat × Bytes))
  | _, [] => some []
  | 0, _ :: _ => none
  | fuel + 1, s@(_ :: _) =>
    match take? 2 s with
    | none => none
    | some (t, s1) =>
      match take? 2 s1 with
      | none => none
      | some (l, s2) =>
        match take? (be l) s2 with
        | none => none
        | some (v, rest) => (readTlvs fuel rest).map ((be t, v) :: ·)

def reasonCode : DownReason → Nat
  | .localNotif .. => 1
  | .localFsm _ => 2
  | .remoteNotif .. => 3
  | .remoteUnexpected => 4
  | .deconfigured => 5

/-- body of one BMP message against the record that was to be encoded -/
def checkBmpBody (tbl : Tbl) (r : Rec) (body : Bytes) : Option String :=
  match r with
  | .bmpUp h la lp rp _ monL monR =>
      match readPph body with
      | none => some "bmp-per-peer-header-truncated"
      | some (p, s) =>
        (firstFail (checkPph h p)).orElse fun _ =>
        match take? 16 s with
        | none => some "peerup-truncated"
        | some (a, s) =>
        match take? 2 s with
        | none => some "peerup-truncated"
        | some (p1, s) =>
        match take? 2 s with
        | none => some "peerup-truncated"
        | some (p2, s) =>
          (firstFail [ (decide (a = addr16 la ∧ la.isV6 = h.addr.isV6), "peerup-local-address"),
                       (decide (be p1 = lp ∧ be p2 = rp), "peerup-ports") ]).orElse fun _ =>
          checkPdusExact "peerup-open" tbl 1 [monL, monR] s
  | .bmpDown h reason =>
      match readPph body with
      | none => some "bmp-per-peer-header-truncated"
      | some (p, s) =>
        (firstFail (checkPph h p)).orElse fun _ =>
        match take? 1 s with
        | none => some "peerdown-truncated"
        | some (c, s) =>
          if be c ≠ reasonCode reason then some "peerdown-reason"
          else
            match reason with
            | .localNotif _ mon => checkPdusExact "peerdown-notification" tbl 3 [mon] s
            | .remoteNotif _ mon => checkPdusExact "peerdown-notification" tbl 3 [mon] s
            | .localFsm code => if s.length = 2 ∧ be s = code then none else some "peerdown-fsm-code"
            | _ => if s = [] then none else some "peerdown-trailing-data"
  | .bmpInit tlvs =>
      match readTlvs (body.length + 1) body with
      | none => some "init-tlv-framing"
      | some ts => if decide (ts = tlvs) then none else some "init-tlvs-differ"
  | _ => none

def bmpType : Rec → Nat
  | .bmpRm .. => 0
  | .bmpStats => 1
  | .bmpDown .. => 2
  | .bmpUp .. => 3
  | .bmpInit _ => 4
  | .bmpTerm => 5
  | _ => 6

/-! ### RFC 6396 -/

/-- §2 common header: timestamp, type, subtype, length of the body; returns (ts, type, subtype, body, rest) -/
def readMrtCommon (s : Bytes) : Option (Nat × Nat × Nat × Bytes × Bytes) :=
  match take? 4 s with
  | none => none
  | some (ts, s1) =>
    match take? 2 s1 with
    | none => none
    | some (ty, s2) =>
      match take? 2 s2 with
      | none => none
      | some (st, s3) =>
        match take? 4 s3 with
        | none => none
        | some (l, s4) =>
          match take? (be l) s4 with
          | none => none
          | some (body, rest) => some (be ts, be ty, be st, body, rest)

/-- §4.4.2 / §4.4.3 BGP4MP_MESSAGE[_AS4] and RFC 8050 §3 ..._ADDPATH: subtype ↦ (AS width, add-path) -/
def bgp4mpSubtype : Nat → Option (Nat × Bool)
  | 1 => some (2, false)
  | 4 => some (4, false)
  | 8 => some (2, true)
  | 9 => some (4, true)
  | _ => none

def readBgp4mp (tbl : Tbl) (h : MpHdr) (ap : Bool) (sub : Nat) (body : Bytes) : Except String Content :=
  match bgp4mpSubtype sub with
  | none => .error "mrt-subtype"
  | some (asw, apRec) =>
    match take? asw body with
    | none => .error "mrt-truncated"
    | some (ra, s) =>
    match take? asw s with
    | none => .error "mrt-truncated"
    | some (la, s) =>
    match take? 2 s with
    | none => .error "mrt-truncated"
    | some (ifx, s) =>
    match take? 2 s with
    | none => .error "mrt-truncated"
    | some (afi, s) =>
      if be afi ≠ 1 ∧ be afi ≠ 2 then .error "mrt-afi"
      else
        let aw := if be afi = 2 then 16 else 4
        match take? aw s with
        | none => .error "mrt-truncated"
        | some (rip, s) =>
        match take? aw s with
        | none => .error "mrt-truncated"
        | some (lip, s) =>
          match firstFail [ (decide (apRec = ap), "mrt-subtype-addpath"),
                       (decide (be ra = h.rasn ∧ be la = h.lasn), "mrt-as"),
                       (decide (be ifx = h.ifidx), "mrt-ifindex"),
                       (decide ((be afi = 2) ↔ h.raddr.isV6 = true), "mrt-afi-address-family"),
                       (decide (rip = h.raddr.bytes), "mrt-peer-address"),
                       (decide (lip = h.laddr.bytes ∧ h.laddr.isV6 = h.raddr.isV6), "mrt-local-address") ] with
          | some c => .error c
          | none => readOnePdu "mrt" tbl apRec s

/-- §4.3.1 peer entries: type (bit 0: IPv6 address, bit 1: 4-byte AS), BGP id, address, AS -/
def readPeers : Nat → Bytes → Option (List (Nat × Bytes × Bytes × Nat))
  | _, [] => some []
  | 0, _ :: _ => none
  | fuel + 1, s@(_ :: _) =>
    match take? 1 s with
    | none => none
    | some (t, s1) =>
      match take? 4 s1 with
      | none => none
      | some (id, s2) =>
        match take? (if be t % 2 = 1 then 16 else 4) s2 with
        | none => none
        | some (a, s3) =>
          match take? (if be t / 2 % 2 = 1 then 4 else 2) s3 with
          | none => none
          | some (asn, rest) => (readPeers fuel rest).map ((be t, id, a, be asn) :: ·)

def peerMatches (p : PeerEnt) (x : Nat × Bytes × Bytes × Nat) : Bool :=
  decide ((x.1 % 2 = 1) ↔ p.addr.isV6 = true) && decide (x.1 < 4) && decide (x.2.1 = p.bgpId) &&
    decide (x.2.2.1 = p.addr.bytes) && decide (x.2.2.2 = p.asn)

def checkPeerIndex (rid : Bytes) (peers : List PeerEnt) (body : Bytes) : Option String :=
  match take? 4 body with
  | none => some "pit-truncated"
  | some (cid, s) =>
  match take? 2 s with
  | none => some "pit-truncated"
  | some (vl, s) =>
  match take? (be vl) s with
  | none => some "pit-truncated"
  | some (_, s) =>
  match take? 2 s with
  | none => some "pit-truncated"
  | some (cnt, s) =>
    match readPeers (s.length + 1) s with
    | none => some "pit-entries-unreadable"
    | some es =>
      firstFail [ (decide (cid = rid), "pit-collector-id"),
                  (decide (be vl = 0), "pit-view-name"),
                  (decide (be cnt = es.length), "pit-peer-count"),
                  (allMatch peerMatches peers es, "pit-entries-differ") ]

/-- RFC 4271 §4.3 path attribute TLVs tiling `s`: (flags, type code, value) -/
def readAttrTlvs : Nat → Bytes → Option (List (Nat × Nat × Bytes))
  | _, [] => some []
  | 0, _ :: _ => none
  | fuel + 1, s@(_ :: _) =>
    match take? 1 s with
    | none => none
    | some (f, s1) =>
      match take? 1 s1 with
      | none => none
      | some (c, s2) =>
        match take? (if be f / 16 % 2 = 1 then 2 else 1) s2 with
        | none => none
        | some (l, s3) =>
          match take? (be l) s3 with
          | none => none
          | some (v, rest) => (readAttrTlvs fuel rest).map ((be f, be c, v) :: ·)

/-- §4.3.4 RIB entries: peer index, originated time, attribute length, attributes -/
def readRibEnts : Nat → Bytes → Option (List (Nat × Nat × Bytes))
  | _, [] => some []
  | 0, _ :: _ => none
  | fuel + 1, s@(_ :: _) =>
    match take? 2 s with
    | none => none
    | some (pi, s1) =>
      match take? 4 s1 with
      | none => none
      | some (ot, s2) =>
        match take? 2 s2 with
        | none => none
        | some (al, s3) =>
          match take? (be al) s3 with
          | none => none
          | some (attrs, rest) => (readRibEnts fuel rest).map ((be pi, be ot, attrs) :: ·)

/-- RFC 4271 §5 value of an attribute: ORIGIN one octet; MED / LOCAL_PREF / ORIGINATOR_ID four octets -/
def attrValue (a : Attr) : Bytes :=
  match a.kind with
  | .val => if a.code = 1 then [a.val % 256]
            else [a.val / 16777216 % 256, a.val / 65536 % 256, a.val / 256 % 256, a.val % 256]
  | _ => a.data

def tlvMatches (want : Nat × Nat × Bytes) (got : Nat × Nat × Bytes) : Bool :=
  flagsAgree got.1 want.1 && decide (got.2.1 = want.2.1) && decide (got.2.2 = want.2.2)

/-- the attributes a RIB entry is to carry: the path attributes, then the next hop as NEXT_HOP (IPv4 RIB)
    or as the RFC 6396 §4.3.4 abbreviated MP_REACH_NLRI (IPv6 RIB: next-hop length + next hop) -/
def wantedTlvs (v6 : Bool) (e : RibEnt) : List (Nat × Nat × Bytes) :=
  e.attrs.map (fun a => (a.flags, a.code, attrValue a)) ++
    (match e.nh with
     | none => []
     | some nh => if v6 then [(128, 14, (nh.length % 256) :: nh)] else [(64, 3, nh)])

/-- a peer index refers to an entry of the PEER_INDEX_TABLE in force (if the case has one) -/
def pidxOk (np : Option Nat) (i : Nat) : Bool :=
  match np with
  | none => true
  | some n => decide (i < n)

def entMatches (v6 : Bool) (np : Option Nat) (e : RibEnt) (x : Nat × Nat × Bytes) : Option String :=
  match readAttrTlvs (x.2.2.length + 1) x.2.2 with
  | none => some "rib-attribute-length"
  | some tlvs =>
    firstFail [ (decide (x.1 = e.pidx ∧ x.2.1 = e.orig), "rib-entry-differs"),
                (allMatch tlvMatches (wantedTlvs v6 e) tlvs, "rib-attributes-differ"),
                (pidxOk np x.1, "rib-peer-index") ]

def entsMatch (v6 : Bool) (np : Option Nat) : List RibEnt → List (Nat × Nat × Bytes) → Option String
  | [], [] => none
  | e :: es, x :: xs => (entMatches v6 np e x).orElse fun _ => entsMatch v6 np es xs
  | _, _ => some "rib-entry-count"

def checkRib (np : Option Nat) (v6 : Bool) (seq mask : Nat) (addr : Bytes) (ents : List RibEnt) (body : Bytes) :
    Option String :=
  match take? 4 body with
  | none => some "rib-truncated"
  | some (sq, s) =>
  match take? 1 s with
  | none => some "rib-truncated"
  | some (pl, s) =>
  match take? ((be pl + 7) / 8) s with
  | none => some "rib-truncated"
  | some (pb, s) =>
  match take? 2 s with
  | none => some "rib-truncated"
  | some (cnt, s) =>
    match readRibEnts (s.length + 1) s with
    | none => some "rib-entries-unreadable"
    | some xs =>
      (firstFail [ (decide (be sq = seq), "rib-sequence"),
                   (decide (be pl = mask ∧ be pl ≤ (if v6 then 128 else 32) ∧ pb = addr.take ((mask + 7) / 8)), "rib-prefix"),
                   (decide (be cnt = xs.length), "rib-entry-count") ]).orElse fun _ => entsMatch v6 np ents xs

/-! ### the stream of records -/

def isBmp : Rec → Bool
  | .mrtMp .. => false
  | .tdPeers .. => false
  | .tdRib .. => false
  | _ => true

/-- one Route Monitoring message of peer header `h` at the front of the stream: the content of its PDU, the rest -/
def readRm (tbl : Tbl) (h : PeerHdr) (ap : Bool) (s : Bytes) : Except String (Content × Bytes) :=
  match readBmpCommon s with
  | none => .error "bmp-common-header-length"
  | some (v, t, body, rest) =>
    if v ≠ 3 then .error "bmp-version"
    else if t ≠ 0 then .error "bmp-message-type"
    else
      match readPph body with
      | none => .error "bmp-per-peer-header-truncated"
      | some (p, pdu) =>
        match firstFail (checkPph h p) with
        | some c => .error c
        | none =>
          match readOnePdu "rm" tbl ap pdu with
          | .error e => .error e
          | .ok c => .ok (c, rest)

/-- one BGP4MP message record of session header `h` at the front of the stream -/
def readMp (tbl : Tbl) (h : MpHdr) (ap : Bool) (s : Bytes) : Except String (Content × Bytes) :=
  match readMrtCommon s with
  | none => .error "mrt-common-header-length"
  | some (_, ty, st, body, rest) =>
    if ty ≠ 16 then .error "mrt-type"
    else
      match readBgp4mp tbl h ap st body with
      | .error e => .error e
      | .ok c => .ok (c, rest)

/-- check the record(s) of one item at the front of the stream; the rest of the stream or the failed clause -/
def checkRec (tbl : Tbl) (np : Option Nat) (r : Rec) (s : Bytes) : Except String Bytes :=
  match r with
  | .bmpRm h ap _ mon => checkSeq (readRm tbl h ap) "rm" ap mon ((entsOf mon).length + 1) [] s
  | .mrtMp h ap _ mon => checkSeq (readMp tbl h ap) "mrt" ap mon ((entsOf mon).length + 1) [] s
  | .tdPeers ts' rid peers =>
      match readMrtCommon s with
      | none => .error "mrt-common-header-length"
      | some (ts, ty, st, body, rest) =>
        if ty ≠ 13 ∨ st ≠ 1 then .error "td-type"
        else if ts ≠ ts' then .error "td-timestamp"
        else match checkPeerIndex rid peers body with
          | some c => .error c
          | none => .ok rest
  | .tdRib v6 ts' seq mask addr ents =>
      match readMrtCommon s with
      | none => .error "mrt-common-header-length"
      | some (ts, ty, st, body, rest) =>
        if ty ≠ 13 ∨ st ≠ (if v6 then 4 else 2) then .error "td-type"
        else if ts ≠ ts' then .error "td-timestamp"
        else match checkRib np v6 seq mask addr ents body with
          | some c => .error c
          | none => .ok rest
  | r =>
    match readBmpCommon s with
    | none => .error "bmp-common-header-length"
    | some (v, t, body, rest) =>
      if v ≠ 3 then .error "bmp-version"
      else if t ≠ bmpType r then .error "bmp-message-type"
      else match checkBmpBody tbl r body with
        | some c => .error c
        | none => .ok rest

/-- number of peers of the PEER_INDEX_TABLE in force after `r` -/
def nextPeers (np : Option Nat) : Rec → Option Nat
  | .tdPeers _ _ peers => some peers.length
  | _ => np

def checkRecs (tbl : Tbl) : Nat → Option Nat → List Rec → Bytes → Verdict
  | i, _, [], s => if s = [] then .ok else .fail i "trailing-bytes"
  | i, np, r :: rs, s =>
    match checkRec tbl np r s with
    | .error c => .fail i c
    | .ok rest => checkRecs tbl (i + 1) (nextPeers np r) rs rest

/-! ### the inputs the daemon can produce (`daemon/src/bmp.rs`, `daemon/src/mrt.rs`) -/

def ipWf : Ip → Bool
  | .v4 b => b.length == 4
  | .v6 b => b.length == 16

/-- per-peer header: the V bit is never passed in by the caller (flags ∈ {0, L, O, L|O}); field widths -/
def hdrDom (h : PeerHdr) : Bool :=
  decide (h.ptype < 256) && decide (h.flags < 128) && decide (h.dist < 18446744073709551616) && ipWf h.addr &&
    decide (h.asn < 4294967296) && decide (h.bgpId.length = 4) && decide (h.ts < 4294967296)

/-- a monitored UPDATE names at least one prefix (Adj-RIB-In / Loc-RIB changes do) and, for the unicast /
    multicast families explored here, an announcement has a next hop (`validate_update` guarantees it) -/
def monDom : Content → Bool
  | .reach fam e nh _ => !e.isEmpty && (nh.isSome || decide (fam % 256 = 133) || decide (fam % 256 = 134))
  | .unreach _ e => !e.isEmpty
  | .eor _ => true
  -- a Route Monitoring / BGP4MP item is about an UPDATE; another message is not a monitored route event
  | .other _ => false

/-- an attribute as `Attribute::decode` builds it: numeric payload exactly for ORIGIN / MED / LOCAL_PREF /
    ORIGINATOR_ID, a value that fits the 16-bit length -/
def attrDom (a : Attr) : Bool :=
  decide (a.code < 256) && decide (a.flags < 256) &&
    (match a.kind with
     | .val => (decide (a.code = 1) && decide (a.val < 256)) ||
               ((decide (a.code = 4) || decide (a.code = 5) || decide (a.code = 9)) && decide (a.val < 4294967296))
     | _ => !(decide (a.code = 1) || decide (a.code = 4) || decide (a.code = 5) || decide (a.code = 9)) &&
            decide (a.data.length < 65536))

/-- wire size of an attribute TLV (RFC 4271 §4.3) -/
def tlvSize (a : Attr) : Nat :=
  let v := attrValue a
  2 + (if v.length > 255 ∨ a.flags / 16 % 2 = 1 then 2 else 1) + v.length

/-- size of the attribute block of a RIB entry: the attribute TLVs, then the next-hop attribute -/
def attrBlockSize (v6 : Bool) (e : RibEnt) : Nat :=
  (e.attrs.map tlvSize).sum + (match e.nh with | none => 0 | some nh => nh.length + (if v6 then 4 else 3))

def entDom (v6 : Bool) (e : RibEnt) : Bool :=
  decide (e.pidx < 65536) && decide (e.orig < 4294967296) && e.attrs.all attrDom &&
    (match e.nh with | none => true | some nh => decide (nh.length < 255)) &&
    decide (attrBlockSize v6 e < 65536)

def recDom (np : Option Nat) : Rec → Bool
  | .bmpRm h _ emb mon => hdrDom h && emb.isSome && monDom mon
  | .bmpUp h la lp rp emb _ _ =>
      hdrDom h && ipWf la && decide (la.isV6 = h.addr.isV6) && decide (lp < 65536) && decide (rp < 65536) && emb.isSome
  | .bmpDown h r =>
      hdrDom h &&
        (match r with
         | .localNotif emb _ => emb.isSome
         | .remoteNotif emb _ => emb.isSome
         | .localFsm c => decide (c < 65536)
         | _ => true)
  | .bmpInit tlvs =>
      tlvs.all (fun t => decide (t.1 < 65536) && decide (t.2.length < 65536)) &&
        decide ((tlvs.map (fun t => 4 + t.2.length)).sum + 6 < 4294967296)
  | .mrtMp h _ emb mon =>
      h.asn4 && decide (h.rasn < 4294967296) && decide (h.lasn < 4294967296) && decide (h.ifidx < 65536) &&
        ipWf h.raddr && ipWf h.laddr && decide (h.laddr.isV6 = h.raddr.isV6) && emb.isSome && monDom mon
  | .tdPeers ts rid peers =>
      decide (ts < 4294967296) && decide (rid.length = 4) && decide (peers.length < 65536) &&
        peers.all (fun p => decide (p.bgpId.length = 4) && ipWf p.addr && decide (p.asn < 4294967296))
  | .tdRib v6 ts seq mask addr ents =>
      decide (ts < 4294967296) && decide (seq < 4294967296) && decide (addr.length = (if v6 then 16 else 4)) &&
        decide (mask ≤ (if v6 then 128 else 32)) && decide (ents.length < 65536) && ents.all (entDom v6) &&
        decide ((ents.map (fun e => 8 + attrBlockSize v6 e)).sum + 24 < 4294967296) &&
        ents.all (fun e => pidxOk np e.pidx)
  | _ => true

def recsDom : Option Nat → List Rec → Bool
  | _, [] => true
  | np, r :: rs => recDom np r && recsDom (nextPeers np r) rs

def inDomain (c : Case) : Bool := recsDom none c.recs

/-- The C19 reference checker. -/
def check (c : Case) (o : Obs) : Verdict :=
  if !inDomain c then .ok
  else
    match o with
    | .panic => .fail 0 "encoder-panicked"
    | .out b _ => checkRecs c.tbl 0 none c.recs b

end Rbgp.Mon2.Spec
