/-
  Rbgp.Mon2.DProofs — the daemon-level converters: the model emits exactly the wanted records, stays inside the
  packet-level domain (in particular: every peer index written by `dump_table` refers to an entry of the
  PEER_INDEX_TABLE written just before), hence the packet-level master lemma applies.
-/
import Rbgp.Mon2.Proofs
import Rbgp.Mon2.DSpec
namespace Rbgp.Mon2.DProofs
open Rbgp.Mon2 Rbgp.Mon2.Spec Rbgp.Mon2.Proofs Rbgp.Mon2.DSpec

/-! ### model = wanted -/

theorem u32_eq_be4 (n : Nat) : u32 n = be4 n := rfl
theorem updContent_eq (f : Nat) (n : List (Nat × Bytes)) (a : Option (List Attr)) (h : Option Bytes) :
    updContent f n a h = monOf f n a h := by cases a <;> rfl

theorem snapErase_eq : @snapErase = @forget := rfl
theorem applySnapshot_eq : @applySnapshot = @netStep := rfl
theorem addPeer_eq : @addPeer = @notePeer := rfl

theorem idxOf_eq (l : List PeerEnt) (a : Ip) : idxOf l a = position l a := by
  induction l with
  | nil => rfl
  | cons e es ih => simp [idxOf, position, ih]

theorem dumpEnts_eq (peers : List PeerEnt) (paths : List DPath) : dumpEnts peers paths = entriesOf peers paths := by
  simp [dumpEnts, entriesOf, idxOf_eq]

theorem ribRecs_eq (v6 : Bool) (peers : List PeerEnt) (cs : List DChg) :
    ∀ seq, ribRecs v6 peers seq cs = ribsOf v6 peers seq cs := by
  induction cs with
  | nil => intro seq; rfl
  | cons c cs ih => intro seq; simp [ribRecs, ribsOf, dumpEnts_eq, ih]

theorem buildPeers_eq (cs : List DChg) : buildPeers cs = peersOf cs := by
  simp [buildPeers, peersOf, addPeer_eq]

theorem toRecs_eq_wanted (e : Ev) : e.toRecs = wanted e := by
  cases e with
  | rm post c emb => cases post <;> simp [Ev.toRecs, wanted, globalHdr, u32_eq_be4, updContent_eq]
  | out post addr asn id fam ap nlri attrs nh ts emb =>
    have : (16 ||| 64 : Nat) = 80 := by decide
    cases post <;> simp [Ev.toRecs, wanted, globalHdr, u32_eq_be4, updContent_eq, this]
  | locRib fam net attrs nh ts rid asn emb => simp [Ev.toRecs, wanted, updContent_eq]
  | mrt c emb => simp [Ev.toRecs, wanted, updContent_eq]
  | down addr asn id uptime r emb =>
    cases r <;> simp [Ev.toRecs, wanted, globalHdr, u32_eq_be4, sessDownToBmp, wantedDown]
  | locUp rid asn emb => rfl
  | live ap lrid lasn rasn rrid acts late so ro embs => rfl
  | flush addr asn id upts post chgs embs =>
    simp only [Ev.toRecs, wanted, flushRecs, wantedFlush, applySnapshot_eq, globalHdr, u32_eq_be4, updContent_eq]
  | dump rid c4 c6 =>
    simp [Ev.toRecs, wanted, dumpRecs, wantedDump, buildPeers_eq, ribRecs_eq]

theorem toCase_eq_wanted (d : DCase) : d.toCase = wantedCase d := by
  have h : ∀ items : List Item, items.flatMap Item.toRecs = items.flatMap wantedItem := by
    intro items
    induction items with
    | nil => rfl
    | cons it is ih =>
      simp only [List.flatMap_cons, ih]
      cases it with
      | pkt r => rfl
      | ev e => simp [Item.toRecs, wantedItem, toRecs_eq_wanted e]
  simp only [DCase.toCase, wantedCase, h]

/-! ### peer indexes of a dump -/

theorem position_lt (peers : List PeerEnt) (a : Ip) (i : Nat) (h : position peers a = some i) : i < peers.length := by
  induction peers generalizing i with
  | nil => cases h
  | cons e es ih =>
    simp only [position] at h
    split at h
    · cases h; simp
    · cases hp : position es a with
      | none => simp [hp] at h
      | some j =>
        simp [hp] at h
        subst h
        have := ih j hp
        simp; omega

/-- the entry the index points at is the peer the path was learned from -/
theorem position_addr (peers : List PeerEnt) (a : Ip) (i : Nat) (h : position peers a = some i) :
    ∃ e, peers[i]? = some e ∧ e.addr = a := by
  induction peers generalizing i with
  | nil => cases h
  | cons e es ih =>
    simp only [position] at h
    split at h
    · rename_i he
      cases h
      exact ⟨e, rfl, he⟩
    · cases hp : position es a with
      | none => simp [hp] at h
      | some j =>
        simp [hp] at h
        subst h
        obtain ⟨e', h1, h2⟩ := ih j hp
        exact ⟨e', by simpa using h1, h2⟩

theorem entriesOf_pidx (peers : List PeerEnt) (paths : List DPath) :
    ∀ e ∈ entriesOf peers paths, e.pidx < peers.length := by
  intro e he
  simp only [entriesOf, List.mem_filterMap] at he
  obtain ⟨p, _, hp⟩ := he
  cases hpos : position peers p.src.raddr with
  | none => simp [hpos] at hp
  | some i =>
    simp [hpos] at hp
    subst hp
    exact position_lt peers _ i hpos

theorem position_some_of_mem (peers : List PeerEnt) (a : Ip) (h : ∃ e ∈ peers, e.addr = a) :
    ∃ i, position peers a = some i := by
  induction peers with
  | nil => obtain ⟨e, he, _⟩ := h; cases he
  | cons x xs ih =>
    simp only [position]
    split
    · exact ⟨0, rfl⟩
    · rename_i hx
      obtain ⟨e, he, hea⟩ := h
      rcases List.mem_cons.mp he with rfl | hmem
      · exact absurd hea hx
      · obtain ⟨i, hi⟩ := ih ⟨e, hmem, hea⟩
        exact ⟨i + 1, by simp [hi]⟩

theorem notePeer_mono (acc : List PeerEnt) (p : DPath) : ∀ e ∈ acc, e ∈ notePeer acc p := by
  intro e he
  simp only [notePeer]
  split
  · exact he
  · exact List.mem_append_left _ he

theorem notePeer_has (acc : List PeerEnt) (p : DPath) : ∃ e ∈ notePeer acc p, e.addr = p.src.raddr := by
  simp only [notePeer]
  split
  · rename_i h
    simp only [List.any_eq_true, decide_eq_true_eq] at h
    exact h
  · exact ⟨peerEntry p, by simp, rfl⟩

theorem fold_notePeer (ps : List DPath) :
    ∀ acc, (∀ e ∈ acc, e ∈ ps.foldl notePeer acc) ∧ (∀ p ∈ ps, ∃ e ∈ ps.foldl notePeer acc, e.addr = p.src.raddr) := by
  induction ps with
  | nil => intro acc; exact ⟨fun e he => he, fun p hp => by cases hp⟩
  | cons q qs ih =>
    intro acc
    obtain ⟨h1, h2⟩ := ih (notePeer acc q)
    refine ⟨fun e he => h1 e (notePeer_mono acc q e he), ?_⟩
    intro p hp
    rcases List.mem_cons.mp hp with rfl | hmem
    · obtain ⟨e, he, hea⟩ := notePeer_has acc p
      exact ⟨e, h1 e he, hea⟩
    · exact h2 p hmem

/-- no path of a dump is dropped: its peer is in the index table, so the `filter_map` keeps it -/
theorem entriesOf_length (chgs : List DChg) (c : DChg) (hc : c ∈ chgs) :
    (entriesOf (peersOf chgs) c.paths).length = c.paths.length := by
  have hall : ∀ p ∈ c.paths, ∃ i, position (peersOf chgs) p.src.raddr = some i := by
    intro p hp
    apply position_some_of_mem
    have hp' : p ∈ chgs.flatMap (·.paths) := List.mem_flatMap.mpr ⟨c, hc, hp⟩
    exact (fold_notePeer (chgs.flatMap (·.paths)) []).2 p hp'
  simp only [entriesOf]
  generalize c.paths = ps at hall
  induction ps with
  | nil => rfl
  | cons q qs ih =>
    obtain ⟨i, hi⟩ := hall q (List.mem_cons_self ..)
    simp only [List.filterMap_cons, hi, Option.map_some, List.length_cons]
    rw [ih (fun p hp => hall p (List.mem_cons_of_mem _ hp))]

/-! ### the records stay in the packet-level domain -/

/-- a RIB record is in the domain relative to a PEER_INDEX_TABLE of `n` peers iff it is so without a table and
    all its peer indexes are below `n` -/
theorem recDom_tdRib_some (n : Nat) (v6 : Bool) (ts seq mask : Nat) (addr : Bytes) (ents : List RibEnt)
    (h0 : recDom none (.tdRib v6 ts seq mask addr ents) = true) (hi : ∀ e ∈ ents, e.pidx < n) :
    recDom (some n) (.tdRib v6 ts seq mask addr ents) = true := by
  simp only [recDom, Bool.and_eq_true] at h0 ⊢
  refine ⟨h0.1, ?_⟩
  rw [List.all_eq_true]
  intro e he
  simpa [pidxOk] using hi e he

theorem recsDom_ribsOf (v6 : Bool) (peers : List PeerEnt) (n : Nat) (hn : n = peers.length) (cs : List DChg) :
    ∀ seq, (ribsOf v6 peers seq cs).all (recDom none) = true →
      ∀ rest, recsDom (some n) (ribsOf v6 peers seq cs ++ rest) = recsDom (some n) rest := by
  induction cs with
  | nil => intro seq _ rest; rfl
  | cons c cs ih =>
    intro seq h rest
    simp only [ribsOf] at h ⊢
    split
    · rename_i he
      rw [if_pos he] at h
      exact ih seq h rest
    · rename_i he
      rw [if_neg he] at h
      simp only [List.all_cons, Bool.and_eq_true] at h
      have hr := recDom_tdRib_some n v6 0 seq c.mask c.addr (entriesOf peers c.paths) h.1
        (by subst hn; exact entriesOf_pidx peers c.paths)
      simp only [List.cons_append, recsDom, hr, Bool.true_and, nextPeers]
      exact ih (seq + 1) h.2 rest

theorem recDom_np_indep (np : Option Nat) (r : Rec)
    (hr : match r with | .tdRib .. => False | _ => True) (h : recDom none r = true) : recDom np r = true := by
  cases r <;> first | exact h | cases hr

/- records that are not table-dump records (`DSpec.noTd`): domain and state are untouched by them -/

theorem recsDom_noTd (rs : List Rec) (hn : rs.all noTd = true) (hd : rs.all (recDom none) = true) :
    ∀ np rest, recsDom np (rs ++ rest) = recsDom np rest := by
  induction rs with
  | nil => intro np rest; rfl
  | cons r rs ih =>
    intro np rest
    simp only [List.all_cons, Bool.and_eq_true] at hn hd
    have h1 : recDom np r = true := by
      cases r <;> first | exact hd.1 | simp [noTd] at hn
    have h2 : nextPeers np r = np := by
      cases r <;> first | rfl | simp [noTd] at hn
    simp only [List.cons_append, recsDom, h1, Bool.true_and, h2]
    exact ih hn.2 hd.2 np rest

theorem zipEmb_all {P : Rec → Bool} (fs : List (Option Bytes → Rec)) (hP : ∀ f ∈ fs, ∀ e, P (f e) = true)
    (es : List (Option Bytes)) : (zipEmb fs es).all P = true := by
  induction fs generalizing es with
  | nil => simp [zipEmb]
  | cons f fs ih =>
    cases es with
    | nil =>
      simp only [zipEmb, List.all_cons, Bool.and_eq_true]
      exact ⟨hP f (List.mem_cons_self ..) none, ih (fun g hg => hP g (List.mem_cons_of_mem _ hg)) []⟩
    | cons e es =>
      simp only [zipEmb, List.all_cons, Bool.and_eq_true]
      exact ⟨hP f (List.mem_cons_self ..) e, ih (fun g hg => hP g (List.mem_cons_of_mem _ hg)) es⟩

theorem wantedFlush_noTd (addr : Ip) (asn id upts : Nat) (post : Bool) (chgs : List Change)
    (embs : List (Option Bytes)) : (wantedFlush addr asn id upts post chgs embs).all noTd = true := by
  simp only [wantedFlush]
  apply zipEmb_all
  intro f hf e
  simp only [List.mem_append, List.mem_map] at hf
  rcases hf with ⟨x, _, rfl⟩ | ⟨x, _, rfl⟩ <;> rfl

/-- every event's records keep the domain; `evNext` is the PEER_INDEX_TABLE state after them -/
theorem recsDom_wanted (e : Ev) (he : evDom e = true) :
    ∀ np rest, recsDom np (wanted e ++ rest) = recsDom (evNext np e) rest := by
  intro np rest
  cases e with
  | flush addr asn id upts post chgs embs =>
    exact recsDom_noTd _ (wantedFlush_noTd ..) he np rest
  | live ap lrid lasn rasn rrid acts late so ro embs =>
    simp only [evDom, List.all_eq_true, Bool.and_eq_true] at he
    exact recsDom_noTd _ (List.all_eq_true.mpr fun r hr => (he r hr).2)
      (List.all_eq_true.mpr fun r hr => (he r hr).1) np rest
  | dump rid c4 c6 =>
    simp only [evDom, Bool.and_eq_true] at he
    have hall := he.1
    simp only [wanted, wantedDump, List.all_cons, List.all_append, Bool.and_eq_true] at hall
    obtain ⟨hp, h4, h6⟩ := hall
    have hp' : recDom np (.tdPeers 0 rid (peersOf (c4 ++ c6))) = true := hp
    simp only [wanted, wantedDump, List.cons_append, recsDom, hp', Bool.true_and, nextPeers, evNext,
      List.append_assoc]
    rw [recsDom_ribsOf false _ _ rfl c4 0 h4, recsDom_ribsOf true _ _ rfl c6 0 h6]
  | rm post c emb =>
    have hd : (wanted (.rm post c emb)).all (recDom none) = true := by
      simp only [evDom, srcDom, updDom, Bool.and_eq_true, decide_eq_true_eq] at he
      obtain ⟨⟨⟨⟨⟨⟨⟨⟨hra, _⟩, _⟩, hasn⟩, _⟩, hrid⟩, hts⟩, hne, hnh⟩, hemb⟩ := he
      have hfl : (if post then 64 else 0) < 128 := by cases post <;> simp
      cases ha : c.attrs <;> simp_all [wanted, recDom, hdrDom, globalHdr, be4, monOf, monDom]
    exact recsDom_noTd _ (by simp [wanted, noTd]) hd np rest
  | out post addr asn id fam ap nlri attrs nh ts emb =>
    have hd : (wanted (.out post addr asn id fam ap nlri attrs nh ts emb)).all (recDom none) = true := by
      simp only [evDom, updDom, Bool.and_eq_true, decide_eq_true_eq] at he
      have hfl : (if post then 80 else 16) < 128 := by cases post <;> simp
      cases ha : attrs <;> simp_all [wanted, recDom, hdrDom, globalHdr, be4, monOf, monDom]
    exact recsDom_noTd _ (by simp [wanted, noTd]) hd np rest
  | locRib fam net attrs nh ts rid asn emb =>
    have hd : (wanted (.locRib fam net attrs nh ts rid asn emb)).all (recDom none) = true := by
      simp only [evDom, updDom, Bool.and_eq_true, decide_eq_true_eq] at he
      cases ha : attrs <;> simp_all [wanted, recDom, hdrDom, ipWf, monOf, monDom]
    exact recsDom_noTd _ (by simp [wanted, noTd]) hd np rest
  | mrt c emb =>
    have hd : (wanted (.mrt c emb)).all (recDom none) = true := by
      simp only [evDom, srcDom, updDom, Bool.and_eq_true, decide_eq_true_eq] at he
      cases ha : c.attrs <;> simp_all [wanted, recDom, monOf, monDom]
    exact recsDom_noTd _ (by simp [wanted, noTd]) hd np rest
  | locUp rid asn emb =>
    have hd : (wanted (.locUp rid asn emb)).all (recDom none) = true := by
      simp only [evDom, Bool.and_eq_true, decide_eq_true_eq] at he
      simp_all [wanted, recDom, hdrDom, ipWf, Ip.isV6]
    exact recsDom_noTd _ (by simp [wanted, noTd]) hd np rest
  | down addr asn id uptime r emb =>
    have hd : (wanted (.down addr asn id uptime r emb)).all (recDom none) = true := by
      simp only [evDom, Bool.and_eq_true, decide_eq_true_eq] at he
      have : uptime % 4294967296 < 4294967296 := Nat.mod_lt _ (by decide)
      cases r <;> simp_all [wanted, recDom, hdrDom, globalHdr, be4, wantedDown]
    exact recsDom_noTd _ (by simp [wanted, noTd]) hd np rest

theorem itemsDom_recsDom (items : List Item) :
    ∀ np, itemsDom np items = true → recsDom np (items.flatMap wantedItem) = true := by
  induction items with
  | nil => intro np _; rfl
  | cons it is ih =>
    intro np h
    cases it with
    | pkt r =>
      simp only [itemsDom, Bool.and_eq_true] at h
      simp only [List.flatMap_cons, wantedItem, List.singleton_append, recsDom, h.1, Bool.true_and]
      exact ih _ h.2
    | ev e =>
      simp only [itemsDom, Bool.and_eq_true] at h
      simp only [List.flatMap_cons, wantedItem]
      rw [recsDom_wanted e h.1 np]
      exact ih _ h.2

/-- **Daemon-level master lemma.** -/
theorem dcheck_run (d : DCase) (hd : DSpec.inDomain d = true) (he : (d.toCase).recs.all (embOk d.tbl) = true) :
    DSpec.check d (drun d) = .ok := by
  have hw := toCase_eq_wanted d
  have hdom : recsDom none (wantedCase d).recs = true := itemsDom_recsDom d.items none hd
  rw [hw] at he
  obtain ⟨w, hw1, hw2⟩ := checkRecs_ok d.tbl (wantedCase d).recs 0 none hdom he
  have htbl : (wantedCase d).tbl = d.tbl := rfl
  simp only [DSpec.check, hd, drun, hw, hw1]
  simpa using hw2

end Rbgp.Mon2.DProofs
