/-
  Rbgp.Mon2.Proofs — lemmas behind the C19 theorems: every reader of `Spec` inverts the
  corresponding encoder of `Model` on the daemon's input domain.
-/
import Rbgp.Mon2.Spec
namespace Rbgp.Mon2.Proofs
open Rbgp.Mon2 Rbgp.Mon2.Spec

/-! ### fixed-width fields -/

@[simp] theorem length_u8 (n : Nat) : (u8 n).length = 1 := rfl
@[simp] theorem length_u16 (n : Nat) : (u16 n).length = 2 := rfl
@[simp] theorem length_u32 (n : Nat) : (u32 n).length = 4 := rfl
@[simp] theorem length_u64 (n : Nat) : (u64 n).length = 8 := rfl

theorem be_u8 (n : Nat) : be (u8 n) = n % 256 := by simp [be, u8]
theorem be_u16 (n : Nat) : be (u16 n) = n % 65536 := by simp [be, u16]; omega
theorem be_u32 (n : Nat) : be (u32 n) = n % 4294967296 := by simp [be, u32]; omega
theorem be_u64 (n : Nat) : be (u64 n) = n % 18446744073709551616 := by
  simp [be, u64, u32]; omega

theorem be_u8_lt {n : Nat} (h : n < 256) : be (u8 n) = n := by rw [be_u8, Nat.mod_eq_of_lt h]
theorem be_u16_lt {n : Nat} (h : n < 65536) : be (u16 n) = n := by rw [be_u16, Nat.mod_eq_of_lt h]
theorem be_u32_lt {n : Nat} (h : n < 4294967296) : be (u32 n) = n := by rw [be_u32, Nat.mod_eq_of_lt h]
theorem be_u64_lt {n : Nat} (h : n < 18446744073709551616) : be (u64 n) = n := by
  rw [be_u64, Nat.mod_eq_of_lt h]

theorem take?_append {a : Bytes} {n : Nat} (h : a.length = n) (s : Bytes) :
    take? n (a ++ s) = some (a, s) := by
  subst h
  simp [take?]

theorem take?_self {a : Bytes} {n : Nat} (h : a.length = n) : take? n a = some (a, []) := by
  have := take?_append h []
  simpa using this

theorem take?_zero (s : Bytes) : take? 0 s = some ([], s) := by simp [take?]

/-- a successful cut is stable under extension of the stream -/
theorem take?_extend {n : Nat} {s x y : Bytes} (h : take? n s = some (x, y)) (t : Bytes) :
    take? n (s ++ t) = some (x, y ++ t) := by
  unfold take? at h ⊢
  split at h
  · rename_i hle
    simp only [Option.some.injEq, Prod.mk.injEq] at h
    obtain ⟨rfl, rfl⟩ := h
    have : n ≤ (s ++ t).length := by simp; omega
    rw [if_pos this, List.take_append_of_le_length hle, List.drop_append_of_le_length hle]
  · cases h

/-! ### bit operations on one flag octet (closed by evaluation over all 256 values) -/

set_option maxRecDepth 100000 in
theorem or128_fin : ∀ f : Fin 128, (f.val ||| 128) = f.val + 128 := by decide
set_option maxRecDepth 100000 in
theorem or16_fin : ∀ f : Fin 256,
    (f.val ||| 16) < 256 ∧ (f.val ||| 16) / 16 % 2 = 1 ∧ (f.val ||| 16) / 32 = f.val / 32 ∧
      (f.val ||| 16) % 16 = f.val % 16 := by decide
set_option maxRecDepth 100000 in
theorem and16_fin : ∀ f : Fin 256, (f.val &&& 16 > 0) ↔ (f.val / 16 % 2 = 1) := by decide

theorem or128 {f : Nat} (h : f < 128) : f ||| 128 = f + 128 := or128_fin ⟨f, h⟩
theorem or16 {f : Nat} (h : f < 256) :
    (f ||| 16) < 256 ∧ (f ||| 16) / 16 % 2 = 1 ∧ (f ||| 16) / 32 = f / 32 ∧ (f ||| 16) % 16 = f % 16 :=
  or16_fin ⟨f, h⟩
theorem and16 {f : Nat} (h : f < 256) : (f &&& 16 > 0) ↔ (f / 16 % 2 = 1) := and16_fin ⟨f, h⟩

/-! ### per-peer header -/

/-- what the reader finds in an encoded per-peer header -/
def pphOf (h : PeerHdr) : Pph :=
  { ptype := h.ptype, flags := (h.flags ||| (if h.addr.isV6 then 128 else 0)) % 256, dist := h.dist,
    addr := addr16 h.addr, asn := h.asn, bgpId := h.bgpId, tsSec := h.ts, tsUsec := 0 }

theorem length_addr16 {a : Ip} (h : ipWf a = true) : (addr16 a).length = 16 := by
  cases a <;> simp_all [ipWf, addr16]

theorem encodeIp_eq (a : Ip) : encodeIp a = addr16 a := by cases a <;> rfl

theorem length_encode_hdr (h : PeerHdr) (hd : hdrDom h = true) : h.encode.length = 42 := by
  simp only [hdrDom, Bool.and_eq_true, decide_eq_true_eq] at hd
  obtain ⟨⟨⟨⟨⟨⟨_, _⟩, _⟩, h4⟩, _⟩, h6⟩, _⟩ := hd
  simp [PeerHdr.encode, encodeIp_eq, length_addr16 h4, h6]

theorem readPph_encode (h : PeerHdr) (hd : hdrDom h = true) (rest : Bytes) :
    readPph (h.encode ++ rest) = some (pphOf h, rest) := by
  simp only [hdrDom, Bool.and_eq_true, decide_eq_true_eq] at hd
  obtain ⟨⟨⟨⟨⟨⟨h1, _⟩, h3⟩, h4⟩, h5⟩, h6⟩, h7⟩ := hd
  have ha := length_addr16 h4
  simp only [PeerHdr.encode, readPph, encodeIp_eq, List.append_assoc]
  rw [take?_append (length_u8 _)]; simp only []
  rw [take?_append (length_u8 _)]; simp only []
  rw [take?_append (length_u64 _)]; simp only []
  rw [take?_append ha]; simp only []
  rw [take?_append (length_u32 _)]; simp only []
  rw [take?_append h6]; simp only []
  rw [take?_append (length_u32 _)]; simp only []
  rw [take?_append (length_u32 _)]
  simp only [be_u8, be_u32, be_u64, pphOf, Nat.mod_eq_of_lt h1, Nat.mod_eq_of_lt h3, Nat.mod_eq_of_lt h5,
    Nat.mod_eq_of_lt h7]

theorem checkPph_ok (h : PeerHdr) (hd : hdrDom h = true) : firstFail (checkPph h (pphOf h)) = none := by
  simp only [hdrDom, Bool.and_eq_true, decide_eq_true_eq] at hd
  obtain ⟨⟨⟨⟨⟨⟨_, h2⟩, _⟩, _⟩, _⟩, _⟩, _⟩ := hd
  have c1 : (pphOf h).ptype = h.ptype := rfl
  have c3 : (pphOf h).addr = addr16 h.addr := rfl
  have c5 : (pphOf h).dist = h.dist := rfl
  have c6 : (pphOf h).asn = h.asn := rfl
  have c7 : (pphOf h).bgpId = h.bgpId := rfl
  have c8 : (pphOf h).tsSec = h.ts := rfl
  have c24 : ((pphOf h).flags / 128 % 2 = 1 ↔ h.addr.isV6 = true) ∧ (pphOf h).flags % 128 = h.flags % 128 := by
    cases hv : h.addr.isV6
    · have e1 : (pphOf h).flags = h.flags := by
        simp only [pphOf, hv, Bool.false_eq_true, if_false, Nat.or_zero]; omega
      rw [e1]; constructor
      · constructor
        · intro; omega
        · intro hh; cases hh
      · rfl
    · have e1 : (pphOf h).flags = h.flags + 128 := by
        simp only [pphOf, hv, if_true, or128 h2]; omega
      rw [e1]; constructor
      · constructor
        · intro; rfl
        · intro; omega
      · omega
  simp only [checkPph, decide_eq_true c1, decide_eq_true c24.1, decide_eq_true c3, decide_eq_true c24.2,
    decide_eq_true c5, decide_eq_true c6, decide_eq_true c7, decide_eq_true c8, firstFail]

/-! ### BMP common header -/

theorem readBmpCommon_bmpMsg (code : Nat) (body rest : Bytes) (hc : code < 256)
    (hl : 6 + body.length < 4294967296) :
    readBmpCommon (bmpMsg code body ++ rest) = some (3, code, body, rest) := by
  simp only [bmpMsg, readBmpCommon, List.append_assoc]
  rw [take?_append (length_u8 _)]; simp only []
  rw [take?_append (length_u32 _)]; simp only []
  rw [take?_append (length_u8 _)]; simp only []
  have e : be (u32 (6 + body.length)) = 6 + body.length := be_u32_lt hl
  have e' : ¬ (6 + body.length < 6) := by omega
  rw [e, if_neg e']
  have : 6 + body.length - 6 = body.length := by omega
  rw [this, take?_append rfl]
  simp [be_u8_lt hc, be_u8]

/-! ### RFC 4271 frames -/

/-- `b` is exactly one complete BGP message of type `t` for the RFC 4271 framing reader of the spec -/
def IsFrame (t : Nat) (b : Bytes) : Prop := bgpFrame? b = some ((b, t), [])

instance (t : Nat) (b : Bytes) : Decidable (IsFrame t b) := by unfold IsFrame; infer_instance

theorem bgpFrame?_nil : bgpFrame? [] = none := by simp [bgpFrame?, take?]

theorem IsFrame.ne_nil {t : Nat} {b : Bytes} (h : IsFrame t b) : b ≠ [] := by
  intro e; subst e; unfold IsFrame at h; rw [bgpFrame?_nil] at h; cases h

theorem bgpFrame?_extend {t : Nat} {b : Bytes} (h : IsFrame t b) (rest : Bytes) :
    bgpFrame? (b ++ rest) = some ((b, t), rest) := by
  unfold IsFrame bgpFrame? at h
  unfold bgpFrame?
  cases h16 : take? 16 b with
  | none => rw [h16] at h; cases h
  | some p1 =>
    obtain ⟨m, s1⟩ := p1
    rw [h16] at h; simp only [] at h
    rw [take?_extend h16 rest]; simp only []
    cases h2 : take? 2 s1 with
    | none => rw [h2] at h; cases h
    | some p2 =>
      obtain ⟨l, s2⟩ := p2
      rw [h2] at h; simp only [] at h
      rw [take?_extend h2 rest]; simp only []
      cases h1 : take? 1 s2 with
      | none => rw [h1] at h; cases h
      | some p3 =>
        obtain ⟨ty, s3⟩ := p3
        rw [h1] at h; simp only [] at h
        rw [take?_extend h1 rest]; simp only []
        split at h
        · rename_i hc
          rw [if_pos hc]
          cases hl : take? (be l) b with
          | none => rw [hl] at h; cases h
          | some p4 =>
            obtain ⟨f, r0⟩ := p4
            rw [hl] at h
            simp only [Option.some.injEq, Prod.mk.injEq] at h
            obtain ⟨⟨rfl, rfl⟩, rfl⟩ := h
            rw [take?_extend hl rest]
            simp
        · cases h

theorem frames_single {t : Nat} {b : Bytes} (h : IsFrame t b) : bgpFrames (b.length + 1) b = some [(b, t)] := by
  have hne := h.ne_nil
  cases b with
  | nil => exact absurd rfl hne
  | cons x xs =>
    have : bgpFrame? (x :: xs) = some ((x :: xs, t), []) := h
    simp [bgpFrames, this]

theorem frames_two {t : Nat} {b1 b2 : Bytes} (h1 : IsFrame t b1) (h2 : IsFrame t b2) :
    bgpFrames ((b1 ++ b2).length + 1) (b1 ++ b2) = some [(b1, t), (b2, t)] := by
  have e1 := bgpFrame?_extend h1 b2
  have hne1 := h1.ne_nil
  have hne2 := h2.ne_nil
  cases b1 with
  | nil => exact absurd rfl hne1
  | cons x xs =>
    cases b2 with
    | nil => exact absurd rfl hne2
    | cons y ys =>
      have e2 : bgpFrame? (y :: ys) = some ((y :: ys, t), []) := h2
      have : (x :: xs ++ y :: ys).length = (xs ++ y :: ys).length + 1 := by simp
      simp only [List.cons_append] at e1 ⊢
      rw [show (x :: (xs ++ y :: ys)).length = (xs.length + ys.length) + 1 + 1 by simp; omega]
      simp [bgpFrames, e1, e2]
/-! ### embedded PDUs -/

theorem take?_some {n : Nat} {s a r : Bytes} (h : take? n s = some (a, r)) :
    n ≤ s.length ∧ a = s.take n ∧ r = s.drop n := by
  unfold take? at h
  split at h
  · rename_i hle
    simp only [Option.some.injEq, Prod.mk.injEq] at h
    exact ⟨hle, h.1.symm, h.2.symm⟩
  · cases h

/-- what a successful read of one frame says, in the terms of the model's `bgpFrameLen` -/
theorem bgpFrame?_spec {b f rest : Bytes} {t : Nat} (h : bgpFrame? b = some ((f, t), rest)) :
    ∃ n, 19 ≤ n ∧ n ≤ b.length ∧ f = b.take n ∧ rest = b.drop n ∧ bgpFrameLen b = n := by
  unfold bgpFrame? at h
  cases h16 : take? 16 b with
  | none => rw [h16] at h; cases h
  | some p1 =>
    obtain ⟨m, s1⟩ := p1
    rw [h16] at h; simp only [] at h
    cases h2 : take? 2 s1 with
    | none => rw [h2] at h; cases h
    | some p2 =>
      obtain ⟨l, s2⟩ := p2
      rw [h2] at h; simp only [] at h
      cases h1 : take? 1 s2 with
      | none => rw [h1] at h; cases h
      | some p3 =>
        obtain ⟨ty, s3⟩ := p3
        rw [h1] at h; simp only [] at h
        split at h
        · rename_i hc
          cases hl : take? (be l) b with
          | none => rw [hl] at h; cases h
          | some p4 =>
            obtain ⟨f', r0⟩ := p4
            rw [hl] at h
            simp only [Option.some.injEq, Prod.mk.injEq] at h
            obtain ⟨⟨rfl, _⟩, rfl⟩ := h
            obtain ⟨g16, _, e1⟩ := take?_some h16
            obtain ⟨g2, el, e2⟩ := take?_some h2
            obtain ⟨g1, _, _⟩ := take?_some h1
            obtain ⟨gl, ef, er⟩ := take?_some hl
            subst e1
            have hlen : (b.drop 16).length = b.length - 16 := by simp
            have hb19 : 19 ≤ b.length := by
              have : (s2).length = (b.drop 16).length - 2 := by rw [e2]; simp; omega
              omega
            -- the two length octets
            cases hd : b.drop 16 with
            | nil => rw [hd] at g2; simp at g2
            | cons x t1 =>
              cases t1 with
              | nil => rw [hd] at g2; simp at g2
              | cons y t2 =>
                have hl2 : l = [x, y] := by rw [el, hd]; rfl
                have hbe : be l = x * 256 + y := by rw [hl2]; simp [be]
                refine ⟨be l, hc.2.1, gl, ef, er, ?_⟩
                have h19 := hc.2.1
                simp only [bgpFrameLen, hd]
                rw [if_neg (by omega), ← hbe, if_neg (by omega)]
        · cases h

theorem bgpFrames_nil (fuel : Nat) : bgpFrames fuel [] = some [] := by cases fuel <;> rfl

/-- on a well-framed buffer the model's frame splitter finds the frames of the RFC 4271 reader -/
theorem splitFrames_of_frames :
    ∀ (fuel : Nat) (b : Bytes) (fs : List (Bytes × Nat)), bgpFrames fuel b = some fs → b ≠ [] →
      ∀ fuel', b.length ≤ fuel' → splitFrames fuel' b = fs.map (·.1) := by
  intro fuel
  induction fuel with
  | zero =>
    intro b fs h hne
    cases b with
    | nil => exact absurd rfl hne
    | cons x xs => simp [bgpFrames] at h
  | succ fuel ih =>
    intro b fs h hne fuel' hf
    cases b with
    | nil => exact absurd rfl hne
    | cons x xs =>
      simp only [bgpFrames] at h
      cases hfr : bgpFrame? (x :: xs) with
      | none => rw [hfr] at h; cases h
      | some pr =>
        obtain ⟨⟨f, t⟩, rest⟩ := pr
        rw [hfr] at h
        simp only [] at h
        cases hrest : bgpFrames fuel rest with
        | none => rw [hrest] at h; cases h
        | some fs' =>
          rw [hrest] at h
          simp only [Option.map_some, Option.some.injEq] at h
          subst h
          obtain ⟨n, h19, hn, ef, er, hlen⟩ := bgpFrame?_spec hfr
          cases fuel' with
          | zero => simp at hf
          | succ f' =>
            simp only [splitFrames, hlen, ← ef, ← er]
            by_cases hr : rest = []
            · subst hr
              rw [bgpFrames_nil] at hrest
              cases hrest
              simp
            · rw [if_neg hr]
              have hrl : rest.length ≤ f' := by
                rw [er, List.length_drop]; omega
              rw [ih rest fs' hrest hr f' hrl]
              rfl

/-! ### hypotheses on the embedded bytes (the real BGP encoder / decoder: C04's subject)

`updOk`: the blob is one or more complete UPDATE frames; the repository's decoder (table) reads each back as a
piece of the monitored message (same family / next hop / attributes, at least one NLRI each while NLRI are
missing) and the NLRI of all pieces are the monitored ones.  `pdusOk`: the blob is exactly the frames of type `t`
decoding to `mons`. -/

/-- shadow of `Spec.checkSeq` on the decoded contents of the frames -/
def seqOk (ap : Bool) (mon : Content) : Nat → List (Nat × Bytes) → List Content → Bool
  | 0, _, _ => false
  | _ + 1, _, [] => false
  | fuel + 1, acc, c :: cs =>
    compat mon c &&
      (if (acc ++ entsOf c).length < (entsOf mon).length then !(entsOf c).isEmpty && seqOk ap mon fuel (acc ++ entsOf c) cs
       else cs.isEmpty && entsEq ap (acc ++ entsOf c) (entsOf mon))

def lookAll (tbl : Tbl) (ap : Bool) : List (Bytes × Nat) → Option (List (Bytes × Content))
  | [] => some []
  | f :: fs =>
    match lookup tbl ap f.1, lookAll tbl ap fs with
    | some c, some r => some ((f.1, c) :: r)
    | _, _ => none

theorem lookAll_spec {tbl : Tbl} {ap : Bool} :
    ∀ {fs : List (Bytes × Nat)} {fcs : List (Bytes × Content)}, lookAll tbl ap fs = some fcs →
      fcs.map (·.1) = fs.map (·.1) ∧ ∀ p ∈ fcs, lookup tbl ap p.1 = some p.2 := by
  intro fs
  induction fs with
  | nil => intro fcs h; simp [lookAll] at h; subst h; simp
  | cons f fs ih =>
    intro fcs h
    simp only [lookAll] at h
    cases hl : lookup tbl ap f.1 with
    | none => simp [hl] at h
    | some c =>
      cases hr : lookAll tbl ap fs with
      | none => simp [hl, hr] at h
      | some r =>
        simp [hl, hr] at h
        subst h
        obtain ⟨h1, h2⟩ := ih hr
        refine ⟨by simp [h1], ?_⟩
        intro p hp
        rcases List.mem_cons.mp hp with rfl | hm
        · exact hl
        · exact h2 p hm

def updOk (tbl : Tbl) (ap : Bool) (mon : Content) (b : Bytes) : Bool :=
  match bgpFrames (b.length + 1) b with
  | some fs =>
    !fs.isEmpty && fs.all (fun f => decide (IsFrame 2 f.1) && decide (f.1.length < 2147483648)) &&
      (match lookAll tbl ap fs with
       | some fcs => seqOk ap mon ((entsOf mon).length + 1) [] (fcs.map (·.2))
       | none => false)
  | none => false

def pdusOk (tbl : Tbl) (t : Nat) (mons : List Content) (b : Bytes) : Bool :=
  match bgpFrames (b.length + 1) b with
  | some fs =>
    decide (fs.length = mons.length) && fs.all (fun f => decide (f.2 = t)) &&
      (match fs.mapM (fun f => lookup tbl false f.1) with
       | some cs => decide (cs = mons)
       | none => false)
  | none => false

theorem readOnePdu_ok (who : String) (tbl : Tbl) (ap : Bool) (f : Bytes) (c : Content) (hf : IsFrame 2 f)
    (hl : lookup tbl ap f = some c) : readOnePdu who tbl ap f = .ok c := by
  simp [readOnePdu, frames_single hf, hl]

/-- the record-sequence checker accepts the records of the frames, whatever reads one record -/
theorem checkSeq_ok (rd : Bytes → Except String (Content × Bytes)) (enc : Bytes → Bytes) (who : String) (ap : Bool)
    (mon : Content) :
    ∀ (fcs : List (Bytes × Content)), (∀ p ∈ fcs, ∀ rest, rd (enc p.1 ++ rest) = .ok (p.2, rest)) →
      ∀ (fuel : Nat) (acc : List (Nat × Bytes)) (rest : Bytes), seqOk ap mon fuel acc (fcs.map (·.2)) = true →
        checkSeq rd who ap mon fuel acc ((fcs.map (·.1)).flatMap enc ++ rest) = .ok rest := by
  intro fcs
  induction fcs with
  | nil => intro _ fuel acc rest h; cases fuel <;> simp [seqOk] at h
  | cons p ps ih =>
    intro hrd fuel acc rest h
    cases fuel with
    | zero => simp [seqOk] at h
    | succ fuel =>
      simp only [List.map_cons, seqOk, Bool.and_eq_true] at h
      obtain ⟨hc, hrest⟩ := h
      simp only [List.map_cons, List.flatMap_cons, List.append_assoc, checkSeq]
      rw [hrd p (List.mem_cons_self ..)]
      simp only [hc, Bool.not_true, Bool.false_eq_true, if_false]
      by_cases hlt : (acc ++ entsOf p.2).length < (entsOf mon).length
      · rw [if_pos hlt] at hrest ⊢
        simp only [Bool.and_eq_true, Bool.not_eq_true'] at hrest
        rw [hrest.1]
        simp only [Bool.false_eq_true, if_false]
        exact ih (fun q hq => hrd q (List.mem_cons_of_mem _ hq)) fuel _ rest hrest.2
      · rw [if_neg hlt] at hrest ⊢
        simp only [Bool.and_eq_true, List.isEmpty_iff] at hrest
        have hps : ps = [] := by
          cases ps with
          | nil => rfl
          | cons q qs => simp at hrest
        subst hps
        simp [hrest.2]

theorem readRm_ok (tbl : Tbl) (h : PeerHdr) (ap : Bool) (f : Bytes) (c : Content) (hh : hdrDom h = true)
    (hf : IsFrame 2 f) (hl : lookup tbl ap f = some c) (hlen : f.length < 2147483648) (rest : Bytes) :
    readRm tbl h ap (bmpMsg 0 (h.encode ++ f) ++ rest) = .ok (c, rest) := by
  have hlen' : 6 + (h.encode ++ f).length < 4294967296 := by
    simp [length_encode_hdr h hh]; omega
  simp only [readRm]
  rw [readBmpCommon_bmpMsg 0 _ rest (by omega) hlen']
  simp [readPph_encode h hh, checkPph_ok h hh, readOnePdu_ok "rm" tbl ap f c hf hl]

theorem checkPdusExact_of {who : String} {tbl : Tbl} {t : Nat} {mons : List Content} {b : Bytes}
    (h : pdusOk tbl t mons b = true) : checkPdusExact who tbl t mons b = none := by
  unfold pdusOk at h
  unfold checkPdusExact
  split at h
  · rename_i fs hf
    rw [hf]
    simp only [Bool.and_eq_true, decide_eq_true_eq] at h
    obtain ⟨⟨hlen, hall⟩, hm⟩ := h
    have hany : (fs.any fun f => f.2 != t) = false := by
      rw [List.any_eq_false]
      intro f hfm
      have := List.all_eq_true.mp hall f hfm
      simp at this
      simp [this]
    split at hm
    · rename_i cs hcs
      simp only [decide_eq_true_eq] at hm
      simp [hlen, hany, hcs, hm]
    · cases hm
  · cases h

/-- hypotheses on the embedded bytes of one record -/
def embOk (tbl : Tbl) : Rec → Bool
  | .bmpRm _ ap (some b) mon => updOk tbl ap mon b
  | .bmpUp _ _ _ _ (some b) mL mR => decide (b.length < 131072) && pdusOk tbl 1 [mL, mR] b
  | .bmpDown _ (.localNotif (some b) mon) => decide (b.length < 65536) && pdusOk tbl 3 [mon] b
  | .bmpDown _ (.remoteNotif (some b) mon) => decide (b.length < 65536) && pdusOk tbl 3 [mon] b
  | .mrtMp _ ap (some b) mon => updOk tbl ap mon b
  | _ => true

/-- what `updOk` provides: the frames with their decoded contents -/
theorem updOk_spec {tbl : Tbl} {ap : Bool} {mon : Content} {b : Bytes} (h : updOk tbl ap mon b = true) :
    ∃ fcs : List (Bytes × Content), splitFrames b.length b = fcs.map (·.1) ∧
      (∀ p ∈ fcs, IsFrame 2 p.1 ∧ p.1.length < 2147483648 ∧ lookup tbl ap p.1 = some p.2) ∧
      seqOk ap mon ((entsOf mon).length + 1) [] (fcs.map (·.2)) = true := by
  unfold updOk at h
  cases hfr : bgpFrames (b.length + 1) b with
  | none => rw [hfr] at h; cases h
  | some fs =>
    rw [hfr] at h
    simp only [Bool.and_eq_true] at h
    obtain ⟨⟨hne, hall⟩, hlk⟩ := h
    cases hla : lookAll tbl ap fs with
    | none => rw [hla] at hlk; cases hlk
    | some fcs =>
      rw [hla] at hlk
      obtain ⟨hmap, hlook⟩ := lookAll_spec hla
      have hbne : b ≠ [] := by
        intro e; subst e
        rw [bgpFrames_nil] at hfr
        cases hfr
        simp at hne
      refine ⟨fcs, ?_, ?_, hlk⟩
      · rw [splitFrames_of_frames _ b fs hfr hbne b.length (Nat.le_refl _), hmap]
      · intro p hp
        have hp1 : p.1 ∈ fs.map (·.1) := by rw [← hmap]; exact List.mem_map_of_mem hp
        obtain ⟨f, hf, hfe⟩ := List.mem_map.mp hp1
        have := List.all_eq_true.mp hall f hf
        simp only [Bool.and_eq_true, decide_eq_true_eq] at this
        rw [hfe] at this
        exact ⟨this.1, this.2, hlook p hp⟩

/-! ### BMP records -/

theorem checkRec_bmpRm (tbl : Tbl) (np : Option Nat) (h : PeerHdr) (ap : Bool) (b : Bytes) (mon : Content)
    (hd : recDom np (.bmpRm h ap (some b) mon) = true) (he : embOk tbl (.bmpRm h ap (some b) mon) = true)
    (rest : Bytes) :
    checkRec tbl np (.bmpRm h ap (some b) mon)
      (((splitFrames b.length b).flatMap fun f => bmpMsg 0 (h.encode ++ f)) ++ rest) = .ok rest := by
  simp only [recDom, Bool.and_eq_true] at hd
  have hh := hd.1.1
  obtain ⟨fcs, hsplit, hfacts, hseq⟩ := updOk_spec he
  simp only [checkRec, hsplit]
  exact checkSeq_ok (readRm tbl h ap) (fun f => bmpMsg 0 (h.encode ++ f)) "rm" ap mon fcs
    (fun p hp rest' => readRm_ok tbl h ap p.1 p.2 hh (hfacts p hp).1 (hfacts p hp).2.2 (hfacts p hp).2.1 rest')
    _ [] rest hseq

theorem checkRec_bmpUp (tbl : Tbl) (np : Option Nat) (h : PeerHdr) (la : Ip) (lp rp : Nat) (b : Bytes)
    (mL mR : Content) (hd : recDom np (.bmpUp h la lp rp (some b) mL mR) = true)
    (he : embOk tbl (.bmpUp h la lp rp (some b) mL mR) = true) (rest : Bytes) :
    checkRec tbl np (.bmpUp h la lp rp (some b) mL mR)
      (bmpMsg 3 (h.encode ++ (encodeIp la ++ (u16 lp ++ (u16 rp ++ b)))) ++ rest) = .ok rest := by
  simp only [recDom, Bool.and_eq_true, decide_eq_true_eq] at hd
  simp only [embOk, Bool.and_eq_true, decide_eq_true_eq] at he
  obtain ⟨⟨⟨⟨⟨hh, hla⟩, hfam⟩, hlp⟩, hrp⟩, _⟩ := hd
  have hla16 := length_addr16 hla
  have hlen : 6 + (h.encode ++ (encodeIp la ++ (u16 lp ++ (u16 rp ++ b)))).length < 4294967296 := by
    simp [length_encode_hdr h hh, encodeIp_eq, hla16]; omega
  simp only [checkRec, isBmp, if_true]
  rw [readBmpCommon_bmpMsg 3 _ rest (by omega) hlen]
  simp only [bmpType, checkBmpBody, readPph_encode h hh, checkPph_ok h hh, encodeIp_eq]
  rw [take?_append hla16]; simp only []
  rw [take?_append (length_u16 _)]; simp only []
  rw [take?_append (length_u16 _)]; simp only []
  have c1 : addr16 la = addr16 la ∧ la.isV6 = h.addr.isV6 := ⟨rfl, hfam⟩
  have c2 : be (u16 lp) = lp ∧ be (u16 rp) = rp := ⟨be_u16_lt hlp, be_u16_lt hrp⟩
  simp only [decide_eq_true c1, decide_eq_true c2, firstFail, checkPdusExact_of he.2]
  simp [hfam, firstFail]

theorem checkRec_bmpDown (tbl : Tbl) (np : Option Nat) (h : PeerHdr) (r : DownReason) (e : Bytes)
    (hd : recDom np (.bmpDown h r) = true) (he : embOk tbl (.bmpDown h r) = true) (henc : r.encode = some e)
    (rest : Bytes) :
    checkRec tbl np (.bmpDown h r) (bmpMsg 2 (h.encode ++ e) ++ rest) = .ok rest := by
  simp only [recDom, Bool.and_eq_true] at hd
  have hh := hd.1
  have hlen : 6 + (h.encode ++ e).length < 4294967296 := by
    cases r with
    | localNotif emb mon =>
      cases emb with
      | none => simp [DownReason.encode] at henc
      | some b =>
        simp only [embOk, Bool.and_eq_true, decide_eq_true_eq] at he
        simp only [DownReason.encode, Option.map_some, Option.some.injEq] at henc
        subst henc
        simp [length_encode_hdr h hh]; omega
    | remoteNotif emb mon =>
      cases emb with
      | none => simp [DownReason.encode] at henc
      | some b =>
        simp only [embOk, Bool.and_eq_true, decide_eq_true_eq] at he
        simp only [DownReason.encode, Option.map_some, Option.some.injEq] at henc
        subst henc
        simp [length_encode_hdr h hh]; omega
    | localFsm c =>
      simp only [DownReason.encode, Option.some.injEq] at henc
      subst henc
      simp [length_encode_hdr h hh]
    | remoteUnexpected =>
      simp only [DownReason.encode, Option.some.injEq] at henc
      subst henc
      simp [length_encode_hdr h hh]
    | deconfigured =>
      simp only [DownReason.encode, Option.some.injEq] at henc
      subst henc
      simp [length_encode_hdr h hh]
  simp only [checkRec, isBmp, if_true]
  rw [readBmpCommon_bmpMsg 2 _ rest (by omega) hlen]
  simp only [bmpType, checkBmpBody, readPph_encode h hh, checkPph_ok h hh]
  cases r with
  | localNotif emb mon =>
    cases emb with
    | none => simp [DownReason.encode] at henc
    | some b =>
      simp only [embOk, Bool.and_eq_true, decide_eq_true_eq] at he
      simp only [DownReason.encode, Option.map_some, Option.some.injEq] at henc
      subst henc
      rw [take?_append (length_u8 _)]
      simp [reasonCode, DownReason.code, be_u8, checkPdusExact_of he.2]
  | remoteNotif emb mon =>
    cases emb with
    | none => simp [DownReason.encode] at henc
    | some b =>
      simp only [embOk, Bool.and_eq_true, decide_eq_true_eq] at he
      simp only [DownReason.encode, Option.map_some, Option.some.injEq] at henc
      subst henc
      rw [take?_append (length_u8 _)]
      simp [reasonCode, DownReason.code, be_u8, checkPdusExact_of he.2]
  | localFsm c =>
    simp only [DownReason.encode, Option.some.injEq] at henc
    subst henc
    have hc : c < 65536 := by simpa using hd.2
    rw [take?_append (length_u8 _)]
    simp [reasonCode, DownReason.code, be_u8, be_u16_lt hc]
  | remoteUnexpected =>
    simp only [DownReason.encode, Option.some.injEq] at henc
    subst henc
    rw [take?_self (length_u8 _)]
    simp [reasonCode, DownReason.code, be_u8]
  | deconfigured =>
    simp only [DownReason.encode, Option.some.injEq] at henc
    subst henc
    rw [take?_self (length_u8 _)]
    simp [reasonCode, DownReason.code, be_u8]

/-! ### Initiation TLVs -/

theorem readTlvs_succ (fuel : Nat) (s : Bytes) (hs : s ≠ []) :
    readTlvs (fuel + 1) s =
      match take? 2 s with
      | none => none
      | some (t, s1) =>
        match take? 2 s1 with
        | none => none
        | some (l, s2) =>
          match take? (be l) s2 with
          | none => none
          | some (v, rest) => (readTlvs fuel rest).map ((be t, v) :: ·) := by
  cases s with
  | nil => exact absurd rfl hs
  | cons x xs => rfl

theorem length_flatMap_encodeTlv (tlvs : List (Nat × Bytes)) :
    (tlvs.flatMap encodeTlv).length = (tlvs.map (fun t => 4 + t.2.length)).sum := by
  induction tlvs with
  | nil => rfl
  | cons t ts ih => simp [List.flatMap_cons, encodeTlv, ih]; omega

theorem readTlvs_encode (tlvs : List (Nat × Bytes)) :
    ∀ fuel, (∀ t ∈ tlvs, t.1 < 65536 ∧ t.2.length < 65536) → (tlvs.flatMap encodeTlv).length < fuel →
      readTlvs fuel (tlvs.flatMap encodeTlv) = some tlvs := by
  induction tlvs with
  | nil => intro fuel _ _; cases fuel <;> rfl
  | cons t ts ih =>
    intro fuel hb hf
    have ht := hb t (List.mem_cons_self ..)
    cases fuel with
    | zero => cases hf
    | succ f =>
      have hne : (t :: ts).flatMap encodeTlv ≠ [] := by simp [List.flatMap_cons, encodeTlv, u16]
      rw [readTlvs_succ f _ hne]
      simp only [List.flatMap_cons, encodeTlv, List.append_assoc]
      rw [take?_append (length_u16 _)]; simp only []
      rw [take?_append (length_u16 _)]; simp only []
      rw [be_u16_lt ht.2, take?_append rfl]; simp only []
      have hf' : (ts.flatMap encodeTlv).length < f := by
        rw [List.flatMap_cons, List.length_append] at hf
        have : (encodeTlv t).length = 4 + t.2.length := by simp [encodeTlv]; omega
        omega
      rw [ih f (fun x hx => hb x (List.mem_cons_of_mem _ hx)) hf', be_u16_lt ht.1]
      rfl

theorem checkRec_bmpInit (tbl : Tbl) (np : Option Nat) (tlvs : List (Nat × Bytes))
    (hd : recDom np (.bmpInit tlvs) = true) (rest : Bytes) :
    checkRec tbl np (.bmpInit tlvs) (bmpMsg 4 (tlvs.flatMap encodeTlv) ++ rest) = .ok rest := by
  simp only [recDom, Bool.and_eq_true, decide_eq_true_eq, List.all_eq_true] at hd
  have hlen : 6 + (tlvs.flatMap encodeTlv).length < 4294967296 := by
    rw [length_flatMap_encodeTlv]; omega
  simp only [checkRec, isBmp, if_true]
  rw [readBmpCommon_bmpMsg 4 _ rest (by omega) hlen]
  simp only [bmpType, checkBmpBody]
  rw [readTlvs_encode tlvs _ (fun t ht => hd.1 t ht) (Nat.lt_succ_self _)]
  simp

theorem checkRec_bmpEmpty (tbl : Tbl) (np : Option Nat) (r : Rec) (code : Nat)
    (hr : (r = .bmpStats ∧ code = 1) ∨ (r = .bmpTerm ∧ code = 5) ∨ (r = .bmpMirror ∧ code = 6)) (rest : Bytes) :
    checkRec tbl np r (bmpMsg code [] ++ rest) = .ok rest := by
  rcases hr with ⟨rfl, rfl⟩ | ⟨rfl, rfl⟩ | ⟨rfl, rfl⟩ <;>
  · simp only [checkRec, isBmp, if_true]
    rw [readBmpCommon_bmpMsg _ _ rest (by omega) (by simp)]
    simp [bmpType, checkBmpBody]

/-! ### MRT common header, BGP4MP -/

theorem readMrtCommon_mrtRecord (ts code sub : Nat) (body rest : Bytes) (hts : ts < 4294967296)
    (hc : code < 65536) (hs : sub < 65536) (hl : body.length < 4294967296) :
    readMrtCommon (mrtRecord ts code sub body ++ rest) = some (ts, code, sub, body, rest) := by
  simp only [mrtRecord, readMrtCommon, List.append_assoc]
  rw [take?_append (length_u32 _)]; simp only []
  rw [take?_append (length_u16 _)]; simp only []
  rw [take?_append (length_u16 _)]; simp only []
  rw [take?_append (length_u32 _)]; simp only []
  rw [be_u32_lt hl, take?_append rfl]
  simp only [be_u32_lt hts, be_u16_lt hc, be_u16_lt hs]

theorem readBgp4mp_ok (tbl : Tbl) (h : MpHdr) (ap : Bool) (b : Bytes) (mon c : Content) (emb : Option Bytes)
    (hd : recDom none (.mrtMp h ap emb mon) = true) (hf : IsFrame 2 b) (hlk : lookup tbl ap b = some c) :
    readBgp4mp tbl h ap (mpSubtype h.asn4 ap) (h.encode ++ b) = .ok c := by
  have hu := readOnePdu_ok "mrt" tbl ap b c hf hlk
  simp only [recDom, Bool.and_eq_true, decide_eq_true_eq] at hd
  obtain ⟨⟨⟨⟨⟨⟨⟨⟨h4, hra⟩, hla⟩, hif⟩, hrw⟩, hlw⟩, hfam⟩, _⟩, _⟩ := hd
  have hsub : bgp4mpSubtype (mpSubtype h.asn4 ap) = some (4, ap) := by
    cases ap <;> simp [mpSubtype, bgp4mpSubtype]
  simp only [readBgp4mp]
  rw [hsub]
  simp only [MpHdr.encode, h4, if_true, List.append_assoc]
  rw [take?_append (length_u32 _)]; simp only []
  rw [take?_append (length_u32 _)]; simp only []
  rw [take?_append (length_u16 _)]; simp only []
  cases hr : h.raddr with
  | v4 a =>
    cases hl : h.laddr with
    | v6 l => rw [hr, hl] at hfam; cases hfam
    | v4 l =>
      rw [hr] at hrw; rw [hl] at hlw
      simp only [ipWf, beq_iff_eq] at hrw hlw
      simp only [List.append_assoc]
      rw [take?_append (length_u16 _)]; simp only []
      have e1 : be (u16 1) = 1 := by decide
      simp only [e1]
      rw [if_neg (by decide), if_neg (by decide), take?_append hrw]; simp only []
      rw [take?_append hlw]; simp only []
      have c2 : be (u32 h.rasn) = h.rasn ∧ be (u32 h.lasn) = h.lasn := ⟨be_u32_lt hra, be_u32_lt hla⟩
      have c3 : be (u16 h.ifidx) = h.ifidx := be_u16_lt hif
      simp [firstFail, c2, c3, Ip.isV6, Ip.bytes, hu]
  | v6 a =>
    cases hl : h.laddr with
    | v4 l => rw [hr, hl] at hfam; cases hfam
    | v6 l =>
      rw [hr] at hrw; rw [hl] at hlw
      simp only [ipWf, beq_iff_eq] at hrw hlw
      simp only [List.append_assoc]
      rw [take?_append (length_u16 _)]; simp only []
      have e1 : be (u16 2) = 2 := by decide
      simp only [e1]
      simp only [if_true]
      rw [take?_append hrw]; simp only []
      rw [take?_append hlw]; simp only []
      have c2 : be (u32 h.rasn) = h.rasn ∧ be (u32 h.lasn) = h.lasn := ⟨be_u32_lt hra, be_u32_lt hla⟩
      have c3 : be (u16 h.ifidx) = h.ifidx := be_u16_lt hif
      simp [firstFail, c2, c3, Ip.isV6, Ip.bytes, hu]

theorem length_encode_mph (h : MpHdr) (hr : ipWf h.raddr = true) (hl : ipWf h.laddr = true) :
    h.encode.length ≤ 44 := by
  cases ha : h.raddr <;> cases hb : h.laddr <;> cases h4 : h.asn4 <;>
    simp_all [MpHdr.encode, ipWf] <;> omega

theorem readMp_ok (tbl : Tbl) (h : MpHdr) (ap : Bool) (f : Bytes) (mon c : Content) (emb : Option Bytes)
    (hd : recDom none (.mrtMp h ap emb mon) = true) (hf : IsFrame 2 f) (hl : lookup tbl ap f = some c)
    (hlen : f.length < 2147483648) (rest : Bytes) :
    readMp tbl h ap (mrtRecord 0 16 (mpSubtype h.asn4 ap) (h.encode ++ f) ++ rest) = .ok (c, rest) := by
  have hd0 := hd
  simp only [recDom, Bool.and_eq_true, decide_eq_true_eq] at hd
  have hml := length_encode_mph h hd.1.1.1.1.2 hd.1.1.1.2
  have hsub : mpSubtype h.asn4 ap < 65536 := by cases ap <;> simp [mpSubtype]
  simp only [readMp]
  rw [readMrtCommon_mrtRecord 0 16 _ _ rest (by omega) (by omega) hsub (by simp; omega)]
  simp [readBgp4mp_ok tbl h ap f mon c emb hd0 hf hl]

theorem checkRec_mrtMp (tbl : Tbl) (np : Option Nat) (h : MpHdr) (ap : Bool) (b : Bytes) (mon : Content)
    (hd : recDom np (.mrtMp h ap (some b) mon) = true) (he : embOk tbl (.mrtMp h ap (some b) mon) = true)
    (rest : Bytes) :
    checkRec tbl np (.mrtMp h ap (some b) mon)
      (((splitFrames b.length b).flatMap fun f => mrtRecord 0 16 (mpSubtype h.asn4 ap) (h.encode ++ f)) ++ rest)
      = .ok rest := by
  have hd' : recDom none (.mrtMp h ap (some b) mon) = true := hd
  obtain ⟨fcs, hsplit, hfacts, hseq⟩ := updOk_spec he
  simp only [checkRec, hsplit]
  exact checkSeq_ok (readMp tbl h ap) (fun f => mrtRecord 0 16 (mpSubtype h.asn4 ap) (h.encode ++ f)) "mrt" ap mon fcs
    (fun p hp rest' => readMp_ok tbl h ap p.1 mon p.2 (some b) hd' (hfacts p hp).1 (hfacts p hp).2.2 (hfacts p hp).2.1 rest')
    _ [] rest hseq

/-! ### TABLE_DUMP_V2 PEER_INDEX_TABLE -/

theorem readPeers_succ (fuel : Nat) (s : Bytes) (hs : s ≠ []) :
    readPeers (fuel + 1) s =
      match take? 1 s with
      | none => none
      | some (t, s1) =>
        match take? 4 s1 with
        | none => none
        | some (id, s2) =>
          match take? (if be t % 2 = 1 then 16 else 4) s2 with
          | none => none
          | some (a, s3) =>
            match take? (if be t / 2 % 2 = 1 then 4 else 2) s3 with
            | none => none
            | some (asn, rest) => (readPeers fuel rest).map ((be t, id, a, be asn) :: ·) := by
  cases s with
  | nil => exact absurd rfl hs
  | cons x xs => rfl

/-- what the reader finds for one peer entry -/
def rawPeer (p : PeerEnt) : Nat × Bytes × Bytes × Nat :=
  (if p.addr.isV6 then 3 else 2, p.bgpId, p.addr.bytes, p.asn)

def peerWf (p : PeerEnt) : Prop := p.bgpId.length = 4 ∧ ipWf p.addr = true ∧ p.asn < 4294967296

theorem length_encode_peer (p : PeerEnt) (hp : peerWf p) :
    p.encode.length = 9 + (if p.addr.isV6 then 16 else 4) := by
  obtain ⟨h1, h2, _⟩ := hp
  cases ha : p.addr <;> simp_all [PeerEnt.encode, Ip.bytes, Ip.isV6, ipWf] <;> omega

theorem readPeers_encode (peers : List PeerEnt) :
    ∀ fuel, (∀ p ∈ peers, peerWf p) → (peers.flatMap PeerEnt.encode).length < fuel →
      readPeers fuel (peers.flatMap PeerEnt.encode) = some (peers.map rawPeer) := by
  induction peers with
  | nil => intro fuel _ _; cases fuel <;> rfl
  | cons p ps ih =>
    intro fuel hb hf
    have hp := hb p (List.mem_cons_self ..)
    have hlen := length_encode_peer p hp
    obtain ⟨h1, h2, h3⟩ := hp
    cases fuel with
    | zero => cases hf
    | succ f =>
      have hne : (p :: ps).flatMap PeerEnt.encode ≠ [] := by
        simp [List.flatMap_cons, PeerEnt.encode, u8]
      rw [readPeers_succ f _ hne]
      have hf' : (ps.flatMap PeerEnt.encode).length < f := by
        rw [List.flatMap_cons, List.length_append] at hf; omega
      have ih' := ih f (fun x hx => hb x (List.mem_cons_of_mem _ hx)) hf'
      simp only [List.flatMap_cons, PeerEnt.encode, List.append_assoc]
      rw [take?_append (length_u8 _)]; simp only []
      rw [take?_append h1]; simp only []
      cases ha : p.addr with
      | v4 a =>
        rw [ha] at h2
        simp only [ipWf, beq_iff_eq] at h2
        have i1 : (if be (u8 2) % 2 = 1 then 16 else 4) = 4 := by decide
        have i2 : (if be (u8 2) / 2 % 2 = 1 then 4 else 2) = 4 := by decide
        have e : be (u8 2) = 2 := by decide
        simp only [Ip.isV6, Bool.false_eq_true, if_false, Ip.bytes]
        rw [i1, take?_append h2]; simp only []
        rw [i2, take?_append (length_u32 _)]; simp only []
        rw [ih', be_u32_lt h3, e]
        simp [rawPeer, ha, Ip.isV6, Ip.bytes]
      | v6 a =>
        rw [ha] at h2
        simp only [ipWf, beq_iff_eq] at h2
        have i1 : (if be (u8 3) % 2 = 1 then 16 else 4) = 16 := by decide
        have i2 : (if be (u8 3) / 2 % 2 = 1 then 4 else 2) = 4 := by decide
        have e : be (u8 3) = 3 := by decide
        simp only [Ip.isV6, if_true, Ip.bytes]
        rw [i1, take?_append h2]; simp only []
        rw [i2, take?_append (length_u32 _)]; simp only []
        rw [ih', be_u32_lt h3, e]
        simp [rawPeer, ha, Ip.isV6, Ip.bytes]

theorem allMatch_rawPeer (peers : List PeerEnt) : allMatch peerMatches peers (peers.map rawPeer) = true := by
  induction peers with
  | nil => rfl
  | cons p ps ih =>
    simp only [List.map_cons, allMatch, ih, Bool.and_true]
    cases ha : p.addr <;> simp [peerMatches, rawPeer, ha, Ip.isV6]

theorem length_flatMap_peers (peers : List PeerEnt) (hb : ∀ p ∈ peers, peerWf p) :
    (peers.flatMap PeerEnt.encode).length ≤ 25 * peers.length := by
  induction peers with
  | nil => simp
  | cons p ps ih =>
    have := length_encode_peer p (hb p (List.mem_cons_self ..))
    have := ih (fun x hx => hb x (List.mem_cons_of_mem _ hx))
    rw [List.flatMap_cons, List.length_append, List.length_cons]
    split at * <;> omega

theorem checkRec_tdPeers (tbl : Tbl) (np : Option Nat) (ts : Nat) (rid : Bytes) (peers : List PeerEnt)
    (hd : recDom np (.tdPeers ts rid peers) = true) (rest : Bytes) :
    checkRec tbl np (.tdPeers ts rid peers)
      (mrtRecord ts 13 1 (rid ++ (u16 0 ++ (u16 peers.length ++ peers.flatMap PeerEnt.encode))) ++ rest)
      = .ok rest := by
  simp only [recDom, Bool.and_eq_true, decide_eq_true_eq, List.all_eq_true] at hd
  obtain ⟨⟨⟨hts, hrid⟩, hn⟩, hp⟩ := hd
  have hwf : ∀ p ∈ peers, peerWf p := fun p hp' => by
    have := hp p hp'
    exact ⟨this.1.1, this.1.2, this.2⟩
  have hfl := length_flatMap_peers peers hwf
  simp only [checkRec, isBmp, Bool.false_eq_true, if_false]
  rw [readMrtCommon_mrtRecord ts 13 1 _ rest hts (by omega) (by omega)
    (by simp only [List.length_append, length_u16, hrid]; omega)]
  simp only [checkPeerIndex]
  rw [take?_append hrid]; simp only []
  rw [take?_append (length_u16 _)]; simp only []
  have e0 : be (u16 0) = 0 := by decide
  rw [e0, take?_zero]; simp only []
  rw [take?_append (length_u16 _)]; simp only []
  rw [readPeers_encode peers _ hwf (Nat.lt_succ_self _)]
  simp [firstFail, be_u16_lt hn, allMatch_rawPeer]

/-! ### path attribute TLVs -/

theorem readAttrTlvs_succ (fuel : Nat) (s : Bytes) (hs : s ≠ []) :
    readAttrTlvs (fuel + 1) s =
      match take? 1 s with
      | none => none
      | some (f, s1) =>
        match take? 1 s1 with
        | none => none
        | some (c, s2) =>
          match take? (if be f / 16 % 2 = 1 then 2 else 1) s2 with
          | none => none
          | some (l, s3) =>
            match take? (be l) s3 with
            | none => none
            | some (v, rest) => (readAttrTlvs fuel rest).map ((be f, be c, v) :: ·) := by
  cases s with
  | nil => exact absurd rfl hs
  | cons x xs => rfl

theorem readAttrTlvs_nil (fuel : Nat) : readAttrTlvs fuel [] = some [] := by cases fuel <;> rfl

/-- flags octet the encoder writes for an attribute -/
def wireFlags (a : Attr) : Nat :=
  match a.kind with
  | .val => a.flags
  | _ => if a.data.length > 255 then a.flags ||| 16 else a.flags

/-- what the TLV reader finds for an encoded attribute -/
def gotTlv (a : Attr) : Nat × Nat × Bytes := (wireFlags a, a.code, attrValue a)

/-- one TLV: flags, code, length in the width the flags announce, value -/
theorem readAttrTlvs_tlv (fl code len : Nat) (v rest : Bytes) (fuel : Nat) (tl : List (Nat × Nat × Bytes))
    (hfl : fl < 256) (hc : code < 256) (hv : v.length = len)
    (hlen : if fl / 16 % 2 = 1 then len < 65536 else len < 256)
    (hr : readAttrTlvs fuel rest = some tl) :
    readAttrTlvs (fuel + 1)
      (u8 fl ++ (u8 code ++ ((if fl / 16 % 2 = 1 then u16 len else u8 len) ++ (v ++ rest)))) =
      some ((fl, code, v) :: tl) := by
  rw [readAttrTlvs_succ _ _ (by simp [u8])]
  rw [take?_append (length_u8 _)]; simp only []
  rw [take?_append (length_u8 _)]; simp only []
  rw [be_u8_lt hfl, be_u8_lt hc]
  by_cases hx : fl / 16 % 2 = 1
  · rw [if_pos hx] at hlen
    simp only [hx, if_true]
    rw [take?_append (length_u16 _)]; simp only []
    rw [be_u16_lt hlen, take?_append hv]; simp only []
    rw [hr]; rfl
  · rw [if_neg hx] at hlen
    simp only [hx, if_false]
    rw [take?_append (length_u8 _)]; simp only []
    rw [be_u8_lt hlen, take?_append hv]; simp only []
    rw [hr]; rfl

theorem Attr.encode_eq (a : Attr) (hd : attrDom a = true) :
    a.encode = some (u8 (wireFlags a) ++ (u8 a.code ++
      ((if wireFlags a / 16 % 2 = 1 then u16 (attrValue a).length else u8 (attrValue a).length) ++ attrValue a))) ∧
    wireFlags a < 256 ∧ a.code < 256 ∧
    (if wireFlags a / 16 % 2 = 1 then (attrValue a).length < 65536 else (attrValue a).length < 256) ∧
    flagsAgree (wireFlags a) a.flags = true ∧
    2 + (if wireFlags a / 16 % 2 = 1 then 2 else 1) + (attrValue a).length = tlvSize a := by
  simp only [attrDom, Bool.and_eq_true, decide_eq_true_eq] at hd
  obtain ⟨⟨hc, hf⟩, hk⟩ := hd
  have hand := and16 hf
  cases hkind : a.kind with
  | val =>
    rw [hkind] at hk
    simp only [Bool.or_eq_true, Bool.and_eq_true, decide_eq_true_eq] at hk
    have hw : wireFlags a = a.flags := by simp [wireFlags, hkind]
    have hfa : flagsAgree a.flags a.flags = true := by simp [flagsAgree]
    rcases hk with ⟨h1, hv⟩ | ⟨h459, hv⟩
    · have hval : attrValue a = [a.val % 256] := by simp [attrValue, hkind, h1]
      refine ⟨?_, by rw [hw]; exact hf, hc, ?_, by rw [hw]; exact hfa, ?_⟩
      · simp only [Attr.encode, h1, if_true, hkind, hw, hval, putFixedLen]
        by_cases hx : a.flags / 16 % 2 = 1
        · simp [hx, hand.mpr hx, u8]
        · have : ¬ (a.flags &&& 16 > 0) := fun h => hx (hand.mp h)
          simp [hx, this, u8]
      · rw [hw, hval]; split <;> simp
      · rw [hw, hval]; simp [tlvSize, hval]
    · have hne : a.code ≠ 1 := by omega
      have h459 : a.code = 4 ∨ a.code = 5 ∨ a.code = 9 := by omega
      have hval : attrValue a = u32 a.val := by simp [attrValue, hkind, hne, u32]
      refine ⟨?_, by rw [hw]; exact hf, hc, ?_, by rw [hw]; exact hfa, ?_⟩
      · simp only [Attr.encode, hne, if_false, h459, if_true, hkind, hw, hval, putFixedLen]
        by_cases hx : a.flags / 16 % 2 = 1
        · simp [hx, hand.mpr hx]
        · have : ¬ (a.flags &&& 16 > 0) := fun h => hx (hand.mp h)
          simp [hx, this]
      · rw [hw, hval]; split <;> simp
      · rw [hw, hval]; simp [tlvSize, hval]
  | bin =>
    rw [hkind] at hk
    simp only [Bool.and_eq_true, Bool.not_eq_true', Bool.or_eq_false_iff, decide_eq_false_iff_not,
      decide_eq_true_eq] at hk
    obtain ⟨⟨⟨⟨n1, n4⟩, n5⟩, n9⟩, hl⟩ := hk
    have hval : attrValue a = a.data := by simp [attrValue, hkind]
    have hno : ¬ (a.code = 4 ∨ a.code = 5 ∨ a.code = 9) := by omega
    by_cases hbig : a.data.length > 255
    · have hw : wireFlags a = a.flags ||| 16 := by simp [wireFlags, hkind, hbig]
      obtain ⟨o1, o2, o3, o4⟩ := or16 hf
      refine ⟨?_, by rw [hw]; exact o1, hc, ?_, ?_, ?_⟩
      · simp only [Attr.encode, n1, if_false, hno, hkind, hbig, if_true, hw, hval, o2]
        have : (a.flags ||| 16) &&& 16 > 0 := (and16 o1).mpr o2
        simp [this]
      · rw [hw, hval]; simp [o2, hl]
      · rw [hw]; simp [flagsAgree, o3, o4]
      · rw [hw, hval]; simp [tlvSize, hval, o2, hbig]
    · have hw : wireFlags a = a.flags := by simp [wireFlags, hkind, hbig]
      refine ⟨?_, by rw [hw]; exact hf, hc, ?_, by rw [hw]; simp [flagsAgree], ?_⟩
      · simp only [Attr.encode, n1, if_false, hno, hkind, hbig, hw, hval]
        by_cases hx : a.flags / 16 % 2 = 1
        · simp [hx, hand.mpr hx]
        · have : ¬ (a.flags &&& 16 > 0) := fun h => hx (hand.mp h)
          simp [hx, this]
      · rw [hw, hval]; split <;> omega
      · rw [hw, hval]; simp [tlvSize, hval, hbig]
  | opq =>
    rw [hkind] at hk
    simp only [Bool.and_eq_true, Bool.not_eq_true', Bool.or_eq_false_iff, decide_eq_false_iff_not,
      decide_eq_true_eq] at hk
    obtain ⟨⟨⟨⟨n1, n4⟩, n5⟩, n9⟩, hl⟩ := hk
    have hval : attrValue a = a.data := by simp [attrValue, hkind]
    have hno : ¬ (a.code = 4 ∨ a.code = 5 ∨ a.code = 9) := by omega
    by_cases hbig : a.data.length > 255
    · have hw : wireFlags a = a.flags ||| 16 := by simp [wireFlags, hkind, hbig]
      obtain ⟨o1, o2, o3, o4⟩ := or16 hf
      refine ⟨?_, by rw [hw]; exact o1, hc, ?_, ?_, ?_⟩
      · simp only [Attr.encode, n1, if_false, hno, hkind, hbig, if_true, hw, hval, o2]
        have : (a.flags ||| 16) &&& 16 > 0 := (and16 o1).mpr o2
        simp [this]
      · rw [hw, hval]; simp [o2, hl]
      · rw [hw]; simp [flagsAgree, o3, o4]
      · rw [hw, hval]; simp [tlvSize, hval, o2, hbig]
    · have hw : wireFlags a = a.flags := by simp [wireFlags, hkind, hbig]
      refine ⟨?_, by rw [hw]; exact hf, hc, ?_, by rw [hw]; simp [flagsAgree], ?_⟩
      · simp only [Attr.encode, n1, if_false, hno, hkind, hbig, hw, hval]
        by_cases hx : a.flags / 16 % 2 = 1
        · simp [hx, hand.mpr hx]
        · have : ¬ (a.flags &&& 16 > 0) := fun h => hx (hand.mp h)
          simp [hx, this]
      · rw [hw, hval]; split <;> omega
      · rw [hw, hval]; simp [tlvSize, hval, hbig]

theorem encodeAttrs_read (as : List Attr) (hd : ∀ a ∈ as, attrDom a = true) :
    ∃ w, encodeAttrs as = some w ∧ w.length = (as.map tlvSize).sum ∧
      ∀ (rest : Bytes) (tl : List (Nat × Nat × Bytes)),
        (∀ f, rest.length < f → readAttrTlvs f rest = some tl) →
        ∀ fuel, (w ++ rest).length < fuel → readAttrTlvs fuel (w ++ rest) = some (as.map gotTlv ++ tl) := by
  induction as with
  | nil =>
    refine ⟨[], rfl, rfl, ?_⟩
    intro rest tl hr fuel hf
    simpa using hr fuel (by simpa using hf)
  | cons a as ih =>
    obtain ⟨w, hw, hwl, hread⟩ := ih (fun x hx => hd x (List.mem_cons_of_mem _ hx))
    obtain ⟨he, hfl, hc, hlen, _, hsz⟩ := Attr.encode_eq a (hd a (List.mem_cons_self ..))
    have hcons : ∀ x, a.encode = some x → encodeAttrs (a :: as) = some (x ++ w) := by
      intro x hx; simp only [encodeAttrs, hx, hw]
    refine ⟨_, hcons _ he, ?_, ?_⟩
    · simp only [List.length_append, length_u8, List.map_cons, List.sum_cons, hwl, ← hsz]
      split <;> simp <;> omega
    · intro rest tl hr fuel hf
      cases fuel with
      | zero => cases hf
      | succ f =>
        have hf' : (w ++ rest).length < f := by
          simp only [List.length_append, length_u8] at hf ⊢
          split at hf <;> simp at hf <;> omega
        have := readAttrTlvs_tlv (wireFlags a) a.code (attrValue a).length (attrValue a) (w ++ rest) f
          (as.map gotTlv ++ tl) hfl hc rfl hlen (hread rest tl hr f hf')
        simp only [List.append_assoc] at this ⊢
        rw [this]
        rfl

theorem allMatch_gotTlv (as : List Attr) (hd : ∀ a ∈ as, attrDom a = true)
    (w g : List (Nat × Nat × Bytes)) (h : allMatch tlvMatches w g = true) :
    allMatch tlvMatches (as.map (fun a => (a.flags, a.code, attrValue a)) ++ w) (as.map gotTlv ++ g) = true := by
  induction as with
  | nil => simpa using h
  | cons a as ih =>
    obtain ⟨_, _, _, _, hfa, _⟩ := Attr.encode_eq a (hd a (List.mem_cons_self ..))
    simp only [List.map_cons, List.cons_append, allMatch, ih (fun x hx => hd x (List.mem_cons_of_mem _ hx)),
      Bool.and_true]
    simp [tlvMatches, gotTlv, hfa]

/-- the next-hop attribute of a RIB entry is one well-formed TLV -/
theorem readAttrTlvs_nh (v6 : Bool) (nh : Bytes) (hl : nh.length < 255) (fuel : Nat) :
    readAttrTlvs (fuel + 1) (encodeNhAttr v6 nh) =
      some [if v6 then (128, 14, (nh.length % 256) :: nh) else (64, 3, nh)] := by
  cases v6 with
  | false =>
    have := readAttrTlvs_tlv 64 3 nh.length nh [] fuel [] (by omega) (by omega) rfl
      (by rw [if_neg (by decide)]; omega) (readAttrTlvs_nil _)
    simp only [show ¬ (64 / 16 % 2 = 1) by decide, if_false, List.append_nil] at this
    simpa [encodeNhAttr, u8] using this
  | true =>
    have := readAttrTlvs_tlv 128 14 (1 + nh.length) (u8 nh.length ++ nh) [] fuel [] (by omega) (by omega)
      (by simp only [List.length_append, length_u8]) (by rw [if_neg (by decide)]; omega) (readAttrTlvs_nil _)
    simp only [show ¬ (128 / 16 % 2 = 1) by decide, if_false, List.append_nil] at this
    simpa [encodeNhAttr, u8] using this

/-! ### TABLE_DUMP_V2 RIB entries -/

theorem length_encodeNhAttr (v6 : Bool) (nh : Bytes) :
    (encodeNhAttr v6 nh).length = nh.length + (if v6 then 4 else 3) := by
  cases v6 <;> simp [encodeNhAttr] <;> omega

theorem attrBlock_read (v6 : Bool) (e : RibEnt) (hd : entDom v6 e = true) :
    ∃ blk, e.attrBlock v6 = some blk ∧ blk.length = attrBlockSize v6 e ∧
      ∃ tlvs, readAttrTlvs (blk.length + 1) blk = some tlvs ∧
        allMatch tlvMatches (wantedTlvs v6 e) tlvs = true := by
  simp only [entDom, Bool.and_eq_true, decide_eq_true_eq, List.all_eq_true] at hd
  obtain ⟨⟨⟨⟨_, _⟩, hattrs⟩, hnh⟩, _⟩ := hd
  obtain ⟨w, hw, hwl, hread⟩ := encodeAttrs_read e.attrs hattrs
  cases hn : e.nh with
  | none =>
    refine ⟨w ++ [], by simp [RibEnt.attrBlock, hw, hn], by simp [attrBlockSize, hn, hwl], ?_⟩
    refine ⟨e.attrs.map gotTlv ++ [], hread [] [] (fun f _ => readAttrTlvs_nil f) _ (Nat.lt_succ_self _), ?_⟩
    have := allMatch_gotTlv e.attrs hattrs [] [] rfl
    simpa [wantedTlvs, hn] using this
  | some nh =>
    rw [hn] at hnh
    simp only [decide_eq_true_eq] at hnh
    refine ⟨w ++ encodeNhAttr v6 nh, by simp [RibEnt.attrBlock, hw, hn],
      by simp [attrBlockSize, hn, hwl, length_encodeNhAttr], ?_⟩
    have hr : ∀ f, (encodeNhAttr v6 nh).length < f → readAttrTlvs f (encodeNhAttr v6 nh) =
        some [if v6 then (128, 14, (nh.length % 256) :: nh) else (64, 3, nh)] := by
      intro f hf
      cases f with
      | zero => cases hf
      | succ f => exact readAttrTlvs_nh v6 nh hnh f
    refine ⟨_, hread _ _ hr _ (Nat.lt_succ_self _), ?_⟩
    have hm : allMatch tlvMatches (if v6 then [(128, 14, (nh.length % 256) :: nh)] else [(64, 3, nh)])
        [if v6 then (128, 14, (nh.length % 256) :: nh) else (64, 3, nh)] = true := by
      cases v6 <;> simp [allMatch, tlvMatches, flagsAgree]
    have := allMatch_gotTlv e.attrs hattrs _ _ hm
    simpa [wantedTlvs, hn] using this

theorem readRibEnts_succ (fuel : Nat) (s : Bytes) (hs : s ≠ []) :
    readRibEnts (fuel + 1) s =
      match take? 2 s with
      | none => none
      | some (pi, s1) =>
        match take? 4 s1 with
        | none => none
        | some (ot, s2) =>
          match take? 2 s2 with
          | none => none
          | some (al, s3) =>
            match take? (be al) s3 with
            | none => none
            | some (attrs, rest) => (readRibEnts fuel rest).map ((be pi, be ot, attrs) :: ·) := by
  cases s with
  | nil => exact absurd rfl hs
  | cons x xs => rfl

/-- the attribute block the model writes for an entry (`[]` when the encoder would panic) -/
def blkOf (v6 : Bool) (e : RibEnt) : Bytes := (e.attrBlock v6).getD []

def rawEnt (v6 : Bool) (e : RibEnt) : Nat × Nat × Bytes := (e.pidx, e.orig, blkOf v6 e)

theorem encodeEnts_read (v6 : Bool) (es : List RibEnt) (hd : ∀ e ∈ es, entDom v6 e = true) :
    ∃ w, encodeEnts v6 es = some w ∧ w.length = (es.map (fun e => 8 + attrBlockSize v6 e)).sum ∧
      ∀ fuel, w.length < fuel → readRibEnts fuel w = some (es.map (rawEnt v6)) := by
  induction es with
  | nil => exact ⟨[], rfl, rfl, fun fuel _ => by cases fuel <;> rfl⟩
  | cons e es ih =>
    obtain ⟨w, hw, hwl, hread⟩ := ih (fun x hx => hd x (List.mem_cons_of_mem _ hx))
    have hde := hd e (List.mem_cons_self ..)
    obtain ⟨blk, hb, hbl, _⟩ := attrBlock_read v6 e hde
    simp only [entDom, Bool.and_eq_true, decide_eq_true_eq] at hde
    obtain ⟨⟨⟨⟨hp, ho⟩, _⟩, _⟩, hsz⟩ := hde
    have henc : e.encode v6 = some (u16 e.pidx ++ (u32 e.orig ++ (u16 blk.length ++ blk))) := by
      simp [RibEnt.encode, hb]
    have hcons : ∀ x, e.encode v6 = some x → encodeEnts v6 (e :: es) = some (x ++ w) := by
      intro x hx; simp only [encodeEnts, hx, hw]
    refine ⟨_, hcons _ henc, ?_, ?_⟩
    · simp [hwl, hbl]; omega
    · intro fuel hf
      cases fuel with
      | zero => cases hf
      | succ f =>
        rw [readRibEnts_succ f _ (by simp [u16])]
        simp only [List.append_assoc]
        rw [take?_append (length_u16 _)]; simp only []
        rw [take?_append (length_u32 _)]; simp only []
        rw [take?_append (length_u16 _)]; simp only []
        rw [be_u16_lt (by omega), take?_append rfl]; simp only []
        have hf' : w.length < f := by simp at hf; omega
        rw [hread f hf', be_u16_lt hp, be_u32_lt ho]
        simp [rawEnt, blkOf, hb]

theorem entsMatch_raw (v6 : Bool) (np : Option Nat) (es : List RibEnt) (hd : ∀ e ∈ es, entDom v6 e = true)
    (hp : ∀ e ∈ es, pidxOk np e.pidx = true) :
    entsMatch v6 np es (es.map (rawEnt v6)) = none := by
  induction es with
  | nil => rfl
  | cons e es ih =>
    have hde := hd e (List.mem_cons_self ..)
    obtain ⟨blk, hb, _, tlvs, hr, hm⟩ := attrBlock_read v6 e hde
    have hblk : blkOf v6 e = blk := by simp [blkOf, hb]
    have hpi := hp e (List.mem_cons_self ..)
    have hrest := ih (fun x hx => hd x (List.mem_cons_of_mem _ hx)) (fun x hx => hp x (List.mem_cons_of_mem _ hx))
    simp only [List.map_cons, entsMatch, entMatches, rawEnt, hblk, hr, hm, hpi, firstFail, hrest]
    simp [firstFail]

theorem checkRec_tdRib (tbl : Tbl) (np : Option Nat) (v6 : Bool) (ts seq mask : Nat) (addr : Bytes)
    (ents : List RibEnt) (hd : recDom np (.tdRib v6 ts seq mask addr ents) = true) :
    ∃ w, (Rec.tdRib v6 ts seq mask addr ents).encode = some w ∧
      ∀ rest, checkRec tbl np (.tdRib v6 ts seq mask addr ents) (w ++ rest) = .ok rest := by
  simp only [recDom, Bool.and_eq_true, decide_eq_true_eq, List.all_eq_true] at hd
  obtain ⟨⟨⟨⟨⟨⟨⟨hts, hseq⟩, hal⟩, hmask⟩, hn⟩, hents⟩, hsize⟩, hpidx⟩ := hd
  obtain ⟨w, hw, hwl, hread⟩ := encodeEnts_read v6 ents hents
  have hnle : (mask + 7) / 8 ≤ addr.length := by cases v6 <;> simp_all <;> omega
  have hm256 : mask < 256 := by cases v6 <;> simp_all <;> omega
  have hpl : (addr.take ((mask + 7) / 8)).length = (mask + 7) / 8 := by
    rw [List.length_take]; omega
  have hsub : (if v6 then 4 else 2) < 65536 := by cases v6 <;> simp
  refine ⟨mrtRecord ts 13 (if v6 then 4 else 2)
    (u32 seq ++ ((u8 mask ++ addr.take ((mask + 7) / 8)) ++ (u16 ents.length ++ w))), ?_, ?_⟩
  · simp [Rec.encode, encodePrefix, hnle, writeRibEntries, hw]
  · intro rest
    have hbody : (u32 seq ++ ((u8 mask ++ addr.take ((mask + 7) / 8)) ++ (u16 ents.length ++ w))).length
        < 4294967296 := by
      simp only [List.length_append, length_u32, length_u8, length_u16, hpl, hwl]
      have : (mask + 7) / 8 ≤ 16 := by cases v6 <;> simp_all <;> omega
      omega
    simp only [checkRec, isBmp, Bool.false_eq_true, if_false]
    rw [readMrtCommon_mrtRecord ts 13 _ _ rest hts (by omega) hsub hbody]
    simp only [checkRib, List.append_assoc]
    rw [take?_append (length_u32 _)]; simp only []
    rw [take?_append (length_u8 _)]; simp only []
    rw [be_u8_lt hm256, take?_append hpl]; simp only []
    rw [take?_append (length_u16 _)]; simp only []
    rw [hread _ (Nat.lt_succ_self _)]
    have c2 : mask = mask ∧ mask ≤ (if v6 then 128 else 32) ∧
        addr.take ((mask + 7) / 8) = addr.take ((mask + 7) / 8) := ⟨rfl, hmask, rfl⟩
    simp [firstFail, be_u32_lt hseq, be_u16_lt hn, hmask, entsMatch_raw v6 np ents hents hpidx]

/-! ### every record, the stream -/

theorem checkRec_ok (tbl : Tbl) (np : Option Nat) (r : Rec) (hd : recDom np r = true) (he : embOk tbl r = true) :
    ∃ w, r.encode = some w ∧ ∀ rest, checkRec tbl np r (w ++ rest) = .ok rest := by
  cases r with
  | bmpRm h ap emb mon =>
    cases emb with
    | none => simp [recDom] at hd
    | some b => exact ⟨_, rfl, checkRec_bmpRm tbl np h ap b mon hd he⟩
  | bmpUp h la lp rp emb mL mR =>
    cases emb with
    | none => simp [recDom] at hd
    | some b => exact ⟨_, rfl, checkRec_bmpUp tbl np h la lp rp b mL mR hd he⟩
  | bmpDown h r =>
    have henc : ∃ e, r.encode = some e := by
      cases r with
      | localNotif emb mon =>
        cases emb with
        | none => simp [recDom] at hd
        | some b => exact ⟨_, rfl⟩
      | remoteNotif emb mon =>
        cases emb with
        | none => simp [recDom] at hd
        | some b => exact ⟨_, rfl⟩
      | localFsm c => exact ⟨_, rfl⟩
      | remoteUnexpected => exact ⟨_, rfl⟩
      | deconfigured => exact ⟨_, rfl⟩
    obtain ⟨e, henc⟩ := henc
    exact ⟨_, by simp [Rec.encode, henc], checkRec_bmpDown tbl np h r e hd he henc⟩
  | bmpInit tlvs => exact ⟨_, rfl, checkRec_bmpInit tbl np tlvs hd⟩
  | bmpStats => exact ⟨_, rfl, checkRec_bmpEmpty tbl np _ 1 (Or.inl ⟨rfl, rfl⟩)⟩
  | bmpTerm => exact ⟨_, rfl, checkRec_bmpEmpty tbl np _ 5 (Or.inr (Or.inl ⟨rfl, rfl⟩))⟩
  | bmpMirror => exact ⟨_, rfl, checkRec_bmpEmpty tbl np _ 6 (Or.inr (Or.inr ⟨rfl, rfl⟩))⟩
  | mrtMp h ap emb mon =>
    cases emb with
    | none => simp [recDom] at hd
    | some b => exact ⟨_, rfl, checkRec_mrtMp tbl np h ap b mon hd he⟩
  | tdPeers ts rid peers => exact ⟨_, rfl, checkRec_tdPeers tbl np ts rid peers hd⟩
  | tdRib v6 ts seq mask addr ents => exact checkRec_tdRib tbl np v6 ts seq mask addr ents hd

theorem checkRecs_ok (tbl : Tbl) (recs : List Rec) :
    ∀ (i : Nat) (np : Option Nat), recsDom np recs = true → recs.all (embOk tbl) = true →
      ∃ w, encodeAll recs = some w ∧ checkRecs tbl i np recs w = .ok := by
  induction recs with
  | nil => intro i np _ _; exact ⟨[], rfl, by simp [checkRecs]⟩
  | cons r rs ih =>
    intro i np hd he
    simp only [recsDom, Bool.and_eq_true] at hd
    simp only [List.all_cons, Bool.and_eq_true] at he
    obtain ⟨w, hw, hc⟩ := checkRec_ok tbl np r hd.1 he.1
    obtain ⟨ws, hws, hcs⟩ := ih (i + 1) (nextPeers np r) hd.2 he.2
    exact ⟨w ++ ws, by simp only [encodeAll, hw, hws], by simp only [checkRecs, hc ws, hcs]⟩

/-- **Master lemma.**  On the daemon's input domain, when the embedded bytes are what the hypotheses on the
    real BGP encoder/decoder say, the model does not panic and the reference checker accepts its output. -/
theorem check_run (c : Case) (hd : inDomain c = true) (he : c.recs.all (embOk c.tbl) = true) :
    check c (run c) = .ok := by
  obtain ⟨w, hw, hc⟩ := checkRecs_ok c.tbl c.recs 0 none hd he
  simp [check, hd, run, hw, hc]

/-! ### from readable hypotheses on the frames to `updOk` -/

theorem entsEq_length {ap : Bool} {a b : List (Nat × Bytes)} (h : entsEq ap a b = true) : a.length = b.length := by
  unfold entsEq at h
  cases ap with
  | true => simp at h; rw [h]
  | false =>
    simp at h
    have := congrArg List.length h
    simpa using this

/-- concatenated complete frames are read back as exactly those frames -/
theorem bgpFrames_flatten (t : Nat) :
    ∀ (fs : List Bytes), (∀ f ∈ fs, IsFrame t f) → ∀ fuel, fs.length ≤ fuel →
      bgpFrames fuel (fs.flatMap id) = some (fs.map (fun f => (f, t))) := by
  intro fs
  induction fs with
  | nil => intro _ fuel _; simpa using bgpFrames_nil fuel
  | cons f fs ih =>
    intro hf fuel hfu
    have hff := hf f (List.mem_cons_self ..)
    have hne := hff.ne_nil
    cases fuel with
    | zero => simp at hfu
    | succ k =>
      have hex := bgpFrame?_extend hff (fs.flatMap id)
      cases f with
      | nil => exact absurd rfl hne
      | cons x xs =>
        simp only [List.flatMap_cons, id, List.cons_append] at hex ⊢
        simp only [bgpFrames, hex]
        rw [ih (fun g hg => hf g (List.mem_cons_of_mem _ hg)) k (by simp at hfu; omega)]
        rfl

theorem length_le_flatten (fs : List Bytes) (h : ∀ f ∈ fs, f ≠ []) : fs.length ≤ (fs.flatMap id).length := by
  induction fs with
  | nil => simp
  | cons f fs ih =>
    have := ih (fun g hg => h g (List.mem_cons_of_mem _ hg))
    have hf : f.length ≥ 1 := by
      cases f with
      | nil => exact absurd rfl (h [] (List.mem_cons_self ..))
      | cons _ _ => simp
    simp only [List.flatMap_cons, id, List.length_append, List.length_cons]
    omega

theorem lookAll_of (tbl : Tbl) (ap : Bool) (t : Nat) :
    ∀ (fcs : List (Bytes × Content)), (∀ p ∈ fcs, lookup tbl ap p.1 = some p.2) →
      lookAll tbl ap (fcs.map (fun p => (p.1, t))) = some fcs := by
  intro fcs
  induction fcs with
  | nil => intro _; rfl
  | cons p ps ih =>
    intro h
    simp only [List.map_cons, lookAll, h p (List.mem_cons_self ..), ih (fun q hq => h q (List.mem_cons_of_mem _ hq))]

theorem sum_chunks_ge (cs : List Content) (h : ∀ c ∈ cs, entsOf c ≠ []) :
    cs.length ≤ (cs.flatMap entsOf).length := by
  induction cs with
  | nil => simp
  | cons c cs ih =>
    have := ih (fun d hd => h d (List.mem_cons_of_mem _ hd))
    have hc : (entsOf c).length ≥ 1 := by
      cases hec : entsOf c with
      | nil => exact absurd hec (h c (List.mem_cons_self ..))
      | cons _ _ => simp
    simp only [List.flatMap_cons, List.length_append, List.length_cons]
    omega

/-- pieces that are all compatible, bring at least one NLRI each and together the monitored NLRI pass the
    sequence check -/
theorem seqOk_of_pieces (ap : Bool) (mon : Content) :
    ∀ (cs : List Content) (acc : List (Nat × Bytes)) (fuel : Nat), cs ≠ [] → cs.length ≤ fuel →
      (∀ c ∈ cs, compat mon c = true ∧ entsOf c ≠ []) →
      entsEq ap (acc ++ cs.flatMap entsOf) (entsOf mon) = true → seqOk ap mon fuel acc cs = true := by
  intro cs
  induction cs with
  | nil => intro _ _ h; exact absurd rfl h
  | cons c cs ih =>
    intro acc fuel _ hfu hall heq
    cases fuel with
    | zero => simp at hfu
    | succ k =>
      have hc := hall c (List.mem_cons_self ..)
      have hlen := entsEq_length heq
      simp only [List.flatMap_cons, List.length_append] at hlen
      have hrest := sum_chunks_ge cs (fun d hd => (hall d (List.mem_cons_of_mem _ hd)).2)
      simp only [seqOk, hc.1, Bool.true_and]
      by_cases hlt : (acc ++ entsOf c).length < (entsOf mon).length
      · rw [if_pos hlt]
        have hcs : cs ≠ [] := by
          intro e; subst e
          simp at hlen hlt
          omega
        have hne : (entsOf c).isEmpty = false := by
          cases hec : entsOf c with
          | nil => exact absurd hec hc.2
          | cons _ _ => rfl
        simp only [hne, Bool.not_false, Bool.true_and]
        apply ih (acc ++ entsOf c) k hcs (by simp at hfu; omega)
          (fun d hd => hall d (List.mem_cons_of_mem _ hd))
        simpa [List.flatMap_cons, List.append_assoc] using heq
      · rw [if_neg hlt]
        have hcs : cs = [] := by
          cases cs with
          | nil => rfl
          | cons d ds =>
            simp only [List.length_append, List.length_cons] at hlt hrest
            omega
        subst hcs
        simpa [List.flatMap_cons] using heq

/-- **the hypothesis of the round-trip theorems, from per-frame facts**: the blob is the concatenation of complete
    UPDATE frames whose decoded contents are compatible pieces carrying together the monitored NLRI -/
theorem updOk_of_frames (tbl : Tbl) (ap : Bool) (mon : Content) (fcs : List (Bytes × Content)) (hne : fcs ≠ [])
    (hf : ∀ p ∈ fcs, IsFrame 2 p.1 ∧ p.1.length < 2147483648 ∧ lookup tbl ap p.1 = some p.2 ∧
      compat mon p.2 = true ∧ entsOf p.2 ≠ [])
    (hall : entsEq ap ((fcs.map (·.2)).flatMap entsOf) (entsOf mon) = true) :
    updOk tbl ap mon ((fcs.map (·.1)).flatMap id) = true := by
  have hfr : ∀ f ∈ fcs.map (·.1), IsFrame 2 f := by
    intro f hfm
    obtain ⟨p, hp, rfl⟩ := List.mem_map.mp hfm
    exact (hf p hp).1
  have hnn : ∀ f ∈ fcs.map (·.1), f ≠ [] := fun f hfm => (hfr f hfm).ne_nil
  have hfl := length_le_flatten _ hnn
  have hframes := bgpFrames_flatten 2 (fcs.map (·.1)) hfr (((fcs.map (·.1)).flatMap id).length + 1) (by omega)
  have hmap : (fcs.map (·.1)).map (fun f => (f, 2)) = fcs.map (fun p => (p.1, 2)) := by simp
  have hcl : (fcs.map (·.2)).length ≤ (entsOf mon).length + 1 := by
    have h1 := sum_chunks_ge (fcs.map (·.2)) (by
      intro c hc
      obtain ⟨p, hp, rfl⟩ := List.mem_map.mp hc
      exact (hf p hp).2.2.2.2)
    have h2 := entsEq_length hall
    omega
  have hseq := seqOk_of_pieces ap mon (fcs.map (·.2)) [] ((entsOf mon).length + 1) (by simpa using hne) hcl
    (by
      intro c hc
      obtain ⟨p, hp, rfl⟩ := List.mem_map.mp hc
      exact ⟨(hf p hp).2.2.2.1, (hf p hp).2.2.2.2⟩)
    (by simpa using hall)
  unfold updOk
  rw [hframes, hmap]
  simp only [lookAll_of tbl ap 2 fcs (fun p hp => (hf p hp).2.2.1), hseq, Bool.and_true, Bool.and_eq_true]
  refine ⟨by simpa using hne, ?_⟩
  rw [List.all_eq_true]
  intro x hx
  obtain ⟨p, hp, rfl⟩ := List.mem_map.mp hx
  simp [(hf p hp).1, (hf p hp).2.1]

/-! ### proofs of the readable statements of `Props` -/

theorem splitFrames_single {b : Bytes} (hf : IsFrame 2 b) : splitFrames b.length b = [b] := by
  have h := splitFrames_of_frames _ b _ (frames_single hf) hf.ne_nil b.length (Nat.le_refl _)
  simpa using h

theorem bmp_single_proof (tbl : Tbl) (np : Option Nat) (h : PeerHdr) (ap : Bool) (b : Bytes)
    (mon c : Content) (hh : hdrDom h = true) (hm : monDom mon = true) (hlen : b.length < 2147483648)
    (hf : IsFrame 2 b) (hl : lookup tbl ap b = some c) (hc : compat mon c = true)
    (he : entsEq ap (entsOf c) (entsOf mon) = true) (rest : Bytes) :
    checkRec tbl np (.bmpRm h ap (some b) mon) (bmpMsg 0 (h.encode ++ b) ++ rest) = .ok rest := by
  have hlt : ¬ (entsOf c).length < (entsOf mon).length := by
    have := entsEq_length he; omega
  have hu : updOk tbl ap mon b = true := by
    simp [updOk, frames_single hf, hf, hlen, lookAll, hl, seqOk, hc, hlt, he]
  have := checkRec_bmpRm tbl np h ap b mon (by simp [recDom, hh, hm]) (by simpa [embOk] using hu) rest
  rw [splitFrames_single hf] at this
  simpa using this


/-- one BMP message: its length field is its length; cutting the stream by it returns exactly the message -/
theorem bmpMsg_len_exact (code : Nat) (body : Bytes) (hc : code < 256) (hl : 6 + body.length < 4294967296) :
    (bmpMsg code body).length = 6 + body.length ∧
      be (((bmpMsg code body).drop 1).take 4) = (bmpMsg code body).length ∧
      ∀ rest, readBmpCommon (bmpMsg code body ++ rest) = some (3, code, body, rest) := by
  have hlen : (bmpMsg code body).length = 6 + body.length := by simp [bmpMsg]; omega
  refine ⟨hlen, ?_, fun rest => readBmpCommon_bmpMsg code body rest hc hl⟩
  rw [hlen]
  simp only [bmpMsg, u8, List.cons_append, List.nil_append, List.drop_succ_cons, List.drop_zero]
  rw [List.take_left' (length_u32 _), be_u32_lt hl]

/-- whatever a BMP record kind writes is a sequence of BMP messages of its type (one per embedded frame for Route
    Monitoring, exactly one otherwise) -/
theorem bmp_len_exact_proof (r : Rec) (w : Bytes) (hb : isBmp r = true) (he : r.encode = some w) :
    ∃ bodies : List Bytes, w = bodies.flatMap (bmpMsg (bmpType r)) ∧
      ((match r with | .bmpRm .. => False | _ => True) → bodies.length = 1) := by
  cases r with
  | bmpRm h ap emb mon =>
    cases emb with
    | none => cases he
    | some b =>
      refine ⟨(splitFrames b.length b).map (fun f => h.encode ++ f), ?_, fun hf => by cases hf⟩
      simp only [Rec.encode, Option.map_some, Option.some.injEq] at he
      rw [← he, List.flatMap_map]
      rfl
  | bmpUp h la lp rp emb mL mR =>
    cases emb with
    | none => cases he
    | some b => exact ⟨[_], by simpa [Rec.encode, bmpType] using he.symm, fun _ => rfl⟩
  | bmpDown h rs =>
    cases hr : rs.encode with
    | none => simp [Rec.encode, hr] at he
    | some e => exact ⟨[_], by simpa [Rec.encode, hr, bmpType] using he.symm, fun _ => rfl⟩
  | bmpInit tlvs => exact ⟨[_], by simpa [Rec.encode, bmpType] using he.symm, fun _ => rfl⟩
  | bmpStats => exact ⟨[_], by simpa [Rec.encode, bmpType] using he.symm, fun _ => rfl⟩
  | bmpTerm => exact ⟨[_], by simpa [Rec.encode, bmpType] using he.symm, fun _ => rfl⟩
  | bmpMirror => exact ⟨[_], by simpa [Rec.encode, bmpType] using he.symm, fun _ => rfl⟩
  | mrtMp => cases hb
  | tdPeers => cases hb
  | tdRib => cases hb

theorem bmp_vflag_iff_v6_proof (h : PeerHdr) (hd : hdrDom h = true) (rest : Bytes) :
    ∃ p, readPph (h.encode ++ rest) = some (p, rest) ∧ h.encode.length = 42 ∧
      (p.flags / 128 % 2 = 1 ↔ h.addr.isV6 = true) ∧ p.addr = addr16 h.addr ∧
      firstFail (checkPph h p) = none := by
  refine ⟨pphOf h, readPph_encode h hd rest, length_encode_hdr h hd, ?_, rfl, checkPph_ok h hd⟩
  have := checkPph_ok h hd
  simp only [checkPph, firstFail] at this
  -- the second clause of checkPph is the V-flag equivalence
  by_cases hp : (pphOf h).ptype = h.ptype
  · simp only [decide_eq_true hp, firstFail] at this
    by_cases hv : ((pphOf h).flags / 128 % 2 = 1 ↔ h.addr.isV6 = true)
    · exact hv
    · simp [decide_eq_false hv, firstFail] at this
  · simp [decide_eq_false hp, firstFail] at this

/-- one MRT record: its length field is the length of its body; cutting the stream by it returns the record -/
theorem mrtRecord_len_exact (ts code sub : Nat) (body : Bytes) (h1 : ts < 4294967296) (h2 : code < 65536)
    (h3 : sub < 65536) (hl : body.length < 4294967296) :
    (mrtRecord ts code sub body).length = 12 + body.length ∧
      be (((mrtRecord ts code sub body).drop 8).take 4) = body.length ∧
      ∀ rest, readMrtCommon (mrtRecord ts code sub body ++ rest) = some (ts, code, sub, body, rest) := by
  refine ⟨by simp [mrtRecord]; omega, ?_, fun rest => readMrtCommon_mrtRecord ts code sub body rest h1 h2 h3 hl⟩
  simp only [mrtRecord, u32, u16, List.cons_append, List.nil_append, List.drop_succ_cons, List.drop_zero]
  have : ∀ (a b c d : Nat) (t : Bytes), List.take 4 (a :: b :: c :: d :: t) = [a, b, c, d] := by
    intros; rfl
  rw [this]
  have := be_u32_lt (n := body.length) hl
  simpa [u32] using this

/-- whatever an MRT record kind writes is a sequence of MRT records (one per embedded frame for BGP4MP, exactly
    one for the table-dump kinds) -/
theorem mrt_len_exact_proof (r : Rec) (w : Bytes) (hb : isBmp r = false) (he : r.encode = some w) :
    ∃ (ts ty st : Nat) (bodies : List Bytes), w = bodies.flatMap (mrtRecord ts ty st) ∧ ty < 65536 ∧ st < 65536 ∧
      ((match r with | .mrtMp .. => False | _ => True) → bodies.length = 1) := by
  cases r with
  | mrtMp h ap emb mon =>
    cases emb with
    | none => cases he
    | some b =>
      have hsub : mpSubtype h.asn4 ap < 65536 := by cases ap <;> simp [mpSubtype]
      refine ⟨0, 16, mpSubtype h.asn4 ap, (splitFrames b.length b).map (fun f => h.encode ++ f), ?_, by omega, hsub,
        fun hf => by cases hf⟩
      simp only [Rec.encode, Option.map_some, Option.some.injEq] at he
      rw [← he, List.flatMap_map]
  | tdPeers ts rid peers =>
    exact ⟨ts, 13, 1, [_], by simpa [Rec.encode] using he.symm, by omega, by omega, fun _ => rfl⟩
  | tdRib v6 ts seq mask addr ents =>
    cases hp : encodePrefix mask addr with
    | none => simp [Rec.encode, hp] at he
    | some p =>
      cases hes : writeRibEntries v6 ents with
      | none => simp [Rec.encode, hp, hes] at he
      | some es =>
        have hsub : (if v6 then 4 else 2) < 65536 := by cases v6 <;> simp
        exact ⟨ts, 13, _, [_], by simpa [Rec.encode, hp, hes] using he.symm, by omega, hsub, fun _ => rfl⟩
  | bmpRm => cases hb
  | bmpUp => cases hb
  | bmpDown => cases hb
  | bmpInit => cases hb
  | bmpStats => cases hb
  | bmpTerm => cases hb
  | bmpMirror => cases hb

theorem mrt_afi_matches_addrs_proof (h : MpHdr) (h4 : h.asn4 = true) (hw : ipWf h.raddr = true ∧ ipWf h.laddr = true)
    (hfam : h.laddr.isV6 = h.raddr.isV6) (ap : Bool) :
    h.encode = u32 h.rasn ++ (u32 h.lasn ++ (u16 h.ifidx ++ (u16 (if h.raddr.isV6 then 2 else 1) ++
      (h.raddr.bytes ++ h.laddr.bytes)))) ∧
    h.raddr.bytes.length = (if h.raddr.isV6 then 16 else 4) ∧
    h.laddr.bytes.length = (if h.raddr.isV6 then 16 else 4) ∧
    bgp4mpSubtype (mpSubtype h.asn4 ap) = some (4, ap) := by
  obtain ⟨hr, hl⟩ := hw
  refine ⟨?_, ?_, ?_, by cases ap <;> simp [mpSubtype, bgp4mpSubtype]⟩
  · cases ha : h.raddr <;> cases hb : h.laddr <;> simp_all [MpHdr.encode, Ip.isV6, Ip.bytes]
  · cases ha : h.raddr <;> simp_all [ipWf, Ip.isV6, Ip.bytes]
  · cases ha : h.raddr <;> cases hb : h.laddr <;> simp_all [ipWf, Ip.isV6, Ip.bytes]

end Rbgp.Mon2.Proofs
