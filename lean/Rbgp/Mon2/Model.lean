/-
  Rbgp.Mon2.Model — executable model of the BMP / MRT encoders of rustybgp
  (packet/src/bmp.rs `BmpCodec::encode`, `PerPeerHeader::encode`, `PeerDownReason::encode`;
   packet/src/mrt.rs `MrtCodec::encode`, `MpHeader::encode`, `encode_table_dump`,
   `write_mrt_record`, `write_rib_entries`, `encode_nexthop_attr`, `encode_mrt_mp_reach_ipv6`;
   packet/src/bgp.rs `Attribute::encode`, `Ipv4Net/Ipv6Net::encode`).

  Bytes are `List Nat`.  The embedded BGP messages are NOT modelled: `emb` is what the real
  `PeerCodec::encode_to` wrote (computed by the harness, `none` = it panicked); its internals
  are C04's subject.  One Lean function per Rust function, same order of writes; Rust panics
  (`unwrap` on the wrong attribute payload kind, slice index out of range in the prefix encoder,
  a panic inside the embedded encoder) are the outcome `none`.
  Import-free (core only).
-/
namespace Rbgp.Mon2

abbrev Bytes := List Nat

/-! ### `BufMut::put_u8/u16/u32/u64` (big endian; the `as uN` casts of the callers truncate) -/
def u8 (n : Nat) : Bytes := [n % 256]
def u16 (n : Nat) : Bytes := [n / 256 % 256, n % 256]
def u32 (n : Nat) : Bytes := [n / 16777216 % 256, n / 65536 % 256, n / 256 % 256, n % 256]
def u64 (n : Nat) : Bytes := u32 (n / 4294967296) ++ u32 n

/-- `std::net::IpAddr` as its octets. -/
inductive Ip where
  | v4 (b : Bytes)
  | v6 (b : Bytes)
  deriving DecidableEq, Repr

def Ip.bytes : Ip → Bytes
  | .v4 b => b
  | .v6 b => b
def Ip.isV6 : Ip → Bool
  | .v4 _ => false
  | .v6 _ => true

/-- `AttributeData` discriminant. -/
inductive AttrKind where
  | val | bin | opq
  deriving DecidableEq, Repr

/-- `bgp::Attribute` (`Val(u32)` uses `val`, `Bin`/`Opaque` use `data`). -/
structure Attr where
  code : Nat
  flags : Nat
  kind : AttrKind
  val : Nat
  data : Bytes
  deriving DecidableEq, Repr

/-- Canonical content of a BGP message as the harness prints it (`msg_term` in c19.rs); only the
    spec looks inside.  `other` holds the characters of the canonical term. -/
inductive Content where
  | reach (fam : Nat) (ents : List (Nat × Bytes)) (nh : Option Bytes) (attrs : List Attr)
  | unreach (fam : Nat) (ents : List (Nat × Bytes))
  | eor (fam : Nat)
  | other (s : Bytes)
  deriving DecidableEq, Repr

/-- `bmp::PerPeerHeader`. -/
structure PeerHdr where
  ptype : Nat
  flags : Nat
  dist : Nat
  addr : Ip
  asn : Nat
  bgpId : Bytes
  ts : Nat
  deriving DecidableEq, Repr

/-- `Message::encode_ip`. -/
def encodeIp : Ip → Bytes
  | .v4 b => List.replicate 12 0 ++ b
  | .v6 b => b

/-- `PerPeerHeader::encode`. -/
def PeerHdr.encode (h : PeerHdr) : Bytes :=
  u8 h.ptype ++ (u8 (h.flags ||| (if h.addr.isV6 then 128 else 0)) ++ (u64 h.dist ++ (encodeIp h.addr ++
    (u32 h.asn ++ (h.bgpId ++ (u32 h.ts ++ u32 0))))))

/-- `bmp::PeerDownReason`; `emb` = bytes of the embedded NOTIFICATION as written by the real BGP encoder. -/
inductive DownReason where
  | localNotif (emb : Option Bytes) (mon : Content)
  | localFsm (code : Nat)
  | remoteNotif (emb : Option Bytes) (mon : Content)
  | remoteUnexpected
  | deconfigured
  deriving DecidableEq, Repr

/-- `PeerDownReason::code`. -/
def DownReason.code : DownReason → Nat
  | .localNotif .. => 1
  | .localFsm _ => 2
  | .remoteNotif .. => 3
  | .remoteUnexpected => 4
  | .deconfigured => 5

/-- `PeerDownReason::encode`. -/
def DownReason.encode (r : DownReason) : Option Bytes :=
  match r with
  | .localNotif emb _ => emb.map (u8 r.code ++ ·)
  | .localFsm c => some (u8 r.code ++ u16 c)
  | .remoteNotif emb _ => emb.map (u8 r.code ++ ·)
  | _ => some (u8 r.code)

/-- `mrt::MpHeader`. -/
structure MpHdr where
  rasn : Nat
  lasn : Nat
  ifidx : Nat
  raddr : Ip
  laddr : Ip
  asn4 : Bool
  deriving DecidableEq, Repr

/-- `MpHeader::encode`: the local address is written only when its family equals the remote one. -/
def MpHdr.encode (h : MpHdr) : Bytes :=
  (if h.asn4 then u32 h.rasn ++ u32 h.lasn else u16 h.rasn ++ u16 h.lasn) ++ (u16 h.ifidx ++
    (match h.raddr with
     | .v4 a => u16 1 ++ (a ++ (match h.laddr with | .v4 l => l | .v6 _ => []))
     | .v6 a => u16 2 ++ (a ++ (match h.laddr with | .v6 l => l | .v4 _ => []))))

/-- `Attribute::put_fixed_len`: the length of a fixed-size value, two octets when the stored flags carry
    the extended-length bit. -/
def putFixedLen (flags len : Nat) : Bytes := if flags &&& 16 > 0 then u16 len else u8 len

/-- `Attribute::encode` (`value().unwrap()` / `binary().unwrap()` panic on the other payload kind). -/
def Attr.encode (a : Attr) : Option Bytes :=
  if a.code = 1 then
    match a.kind with
    | .val => some (u8 a.flags ++ (u8 a.code ++ (putFixedLen a.flags 1 ++ u8 a.val)))
    | _ => none
  else if a.code = 4 ∨ a.code = 5 ∨ a.code = 9 then
    match a.kind with
    | .val => some (u8 a.flags ++ (u8 a.code ++ (putFixedLen a.flags 4 ++ u32 a.val)))
    | _ => none
  else
    match a.kind with
    | .val => none
    | _ =>
      let flags := if a.data.length > 255 then a.flags ||| 16 else a.flags
      some (u8 flags ++ (u8 a.code ++
        ((if flags &&& 16 > 0 then u16 a.data.length else u8 a.data.length) ++ a.data)))

/-- the `for attr in entry.attrs.iter() { attr.encode_wire(dst) }` loop -/
def encodeAttrs : List Attr → Option Bytes
  | [] => some []
  | a :: as =>
    match a.encode, encodeAttrs as with
    | some x, some y => some (x ++ y)
    | _, _ => none

/-- `encode_nexthop_attr` (IPv4 RIB entry) / `encode_mrt_mp_reach_ipv6` (IPv6 RIB entry). -/
def encodeNhAttr (v6 : Bool) (nh : Bytes) : Bytes :=
  if v6 then [128, 14] ++ (u8 (1 + nh.length) ++ (u8 nh.length ++ nh))
  else [64, 3] ++ (u8 nh.length ++ nh)

/-- `mrt::RibEntry` (`nexthop` as its `to_bytes()`). -/
structure RibEnt where
  pidx : Nat
  orig : Nat
  nh : Option Bytes
  attrs : List Attr
  deriving DecidableEq, Repr

/-- the attribute block of one RIB entry (between `attr_start` and the back-patch) -/
def RibEnt.attrBlock (v6 : Bool) (e : RibEnt) : Option Bytes :=
  (encodeAttrs e.attrs).map fun b =>
    b ++ (match e.nh with | some nh => encodeNhAttr v6 nh | none => [])

/-- one iteration of the loop of `write_rib_entries` -/
def RibEnt.encode (v6 : Bool) (e : RibEnt) : Option Bytes :=
  (e.attrBlock v6).map fun b => u16 e.pidx ++ (u32 e.orig ++ (u16 b.length ++ b))

def encodeEnts (v6 : Bool) : List RibEnt → Option Bytes
  | [] => some []
  | e :: es =>
    match e.encode v6, encodeEnts v6 es with
    | some x, some y => some (x ++ y)
    | _, _ => none

/-- `write_rib_entries`. -/
def writeRibEntries (v6 : Bool) (es : List RibEnt) : Option Bytes :=
  (encodeEnts v6 es).map (u16 es.length ++ ·)

/-- `Ipv4Net::encode` / `Ipv6Net::encode`: `octets()[i]` for `i < mask.div_ceil(8)` panics past the array. -/
def encodePrefix (mask : Nat) (addr : Bytes) : Option Bytes :=
  if (mask + 7) / 8 ≤ addr.length then some (u8 mask ++ addr.take ((mask + 7) / 8)) else none

/-- `mrt::PeerEntry`. -/
structure PeerEnt where
  bgpId : Bytes
  addr : Ip
  asn : Nat
  deriving DecidableEq, Repr

def PeerEnt.encode (p : PeerEnt) : Bytes :=
  u8 (if p.addr.isV6 then 3 else 2) ++ (p.bgpId ++ (p.addr.bytes ++ u32 p.asn))

/-- `write_mrt_record` (also the header written by `MrtCodec::encode`). -/
def mrtRecord (ts code sub : Nat) (body : Bytes) : Bytes :=
  u32 ts ++ (u16 code ++ (u16 sub ++ (u32 body.length ++ body)))

/-- One record handed to one of the three encoders. -/
inductive Rec where
  | bmpRm (h : PeerHdr) (ap : Bool) (emb : Option Bytes) (mon : Content)
  | bmpUp (h : PeerHdr) (laddr : Ip) (lport rport : Nat) (emb : Option Bytes) (monL monR : Content)
  | bmpDown (h : PeerHdr) (r : DownReason)
  | bmpInit (tlvs : List (Nat × Bytes))
  | bmpStats
  | bmpTerm
  | bmpMirror
  | mrtMp (h : MpHdr) (ap : Bool) (emb : Option Bytes) (mon : Content)
  | tdPeers (ts : Nat) (rid : Bytes) (peers : List PeerEnt)
  | tdRib (v6 : Bool) (ts seq mask : Nat) (addr : Bytes) (ents : List RibEnt)
  deriving DecidableEq, Repr

/-- `BmpCodec::encode`: version, back-patched length (`c.len() - pos_first`), message type, body. -/
def bmpMsg (code : Nat) (body : Bytes) : Bytes :=
  u8 3 ++ (u32 (6 + body.length) ++ (u8 code ++ body))

def encodeTlv (t : Nat × Bytes) : Bytes := u16 t.1 ++ (u16 t.2.length ++ t.2)

/-- BGP4MP subtype chosen by `MrtCodec::encode` (`Header::SUBTYPE_AS4` = 4 / `SUBTYPE_AS4_ADDPATH` = 9 since the
    repair; before it 8, which RFC 8050 assigns to the two-octet-AS add-path message).  `is_asn4` plays no part. -/
def mpSubtype (_asn4 ap : Bool) : Nat := if ap then 9 else 4

/-- `bmp::bgp_frame_len`: length of the first BGP message of `b` by its header's length field; all of `b`
    when the header is unusable. -/
def bgpFrameLen (b : Bytes) : Nat :=
  if b.length < 19 then b.length
  else
    match b.drop 16 with
    | x :: y :: _ => if x * 256 + y < 19 ∨ b.length < x * 256 + y then b.length else x * 256 + y
    | _ => b.length

/-- the `loop` of the Route Monitoring / BGP4MP arms: the frames the embedded encoder wrote, one per record
    (at least one chunk even for an empty buffer; `fuel` = length of the buffer is never exhausted) -/
def splitFrames : Nat → Bytes → List Bytes
  | 0, b => [b]
  | fuel + 1, b =>
    if b.drop (bgpFrameLen b) = [] then [b.take (bgpFrameLen b)]
    else b.take (bgpFrameLen b) :: splitFrames fuel (b.drop (bgpFrameLen b))

/-- Bytes appended to the output buffer for one record; `none` = the Rust code panics. -/
def Rec.encode : Rec → Option Bytes
  | .bmpRm h _ emb _ => emb.map fun e => (splitFrames e.length e).flatMap fun f => bmpMsg 0 (h.encode ++ f)
  | .bmpUp h la lp rp emb _ _ =>
      emb.map fun e => bmpMsg 3 (h.encode ++ (encodeIp la ++ (u16 lp ++ (u16 rp ++ e))))
  | .bmpDown h r => r.encode.map fun e => bmpMsg 2 (h.encode ++ e)
  | .bmpInit tlvs => some (bmpMsg 4 (tlvs.flatMap encodeTlv))
  | .bmpStats => some (bmpMsg 1 [])
  | .bmpTerm => some (bmpMsg 5 [])
  | .bmpMirror => some (bmpMsg 6 [])
  | .mrtMp h ap emb _ =>
      emb.map fun e => (splitFrames e.length e).flatMap fun f => mrtRecord 0 16 (mpSubtype h.asn4 ap) (h.encode ++ f)
  | .tdPeers ts rid peers =>
      some (mrtRecord ts 13 1 (rid ++ (u16 0 ++ (u16 peers.length ++ peers.flatMap PeerEnt.encode))))
  | .tdRib v6 ts seq mask addr ents =>
      match encodePrefix mask addr, writeRibEntries v6 ents with
      | some p, some es => some (mrtRecord ts 13 (if v6 then 4 else 2) (u32 seq ++ (p ++ es)))
      | _, _ => none

/-- All records of a case are written one after the other into the same buffer. -/
def encodeAll : List Rec → Option Bytes
  | [] => some []
  | r :: rs =>
    match r.encode, encodeAll rs with
    | some x, some y => some (x ++ y)
    | _, _ => none

/-- A case: the decoder table ((add-path, frame) ↦ content the real decoder reads) and the records. -/
structure Case where
  tbl : List (Bool × Bytes × Content)
  recs : List Rec
  deriving Repr

/-! ### tags (coverage classes reported identically by the harness) -/

def embTags : Option Bytes → List String
  | none => ["emb-panic"]
  | some b => if b.length > 65535 then ["multi-frame"] else []

def Content.head : Content → String
  | .reach .. => "reach"
  | .unreach .. => "unreach"
  | .eor _ => "eor"
  | .other _ => "other"

def PeerHdr.tags (h : PeerHdr) : List String :=
  [if h.addr.isV6 then "peer-v6" else "peer-v4"] ++ (if h.ptype = 3 then ["loc-rib"] else []) ++
    [s!"flags-{h.flags}"] ++
    (if h.asn = 0 then ["asn-0"] else if h.asn = 65535 then ["asn-65535"] else if h.asn = 65536 then ["asn-65536"]
     else if h.asn = 4294967295 then ["asn-max"] else []) ++
    (if h.dist = 18446744073709551615 then ["dist-max"] else []) ++
    (if h.ts = 4294967295 then ["ts-max"] else [])

def lenClass (n : Nat) (z f m : String) : String :=
  if n = 0 then z else if n ≤ 3 then f else m

def RibEnt.tag (v6 : Bool) (e : RibEnt) : String :=
  match e.attrBlock v6 with
  | none => "attrlen-some"
  | some b =>
    if b.length = 0 then "attrlen-0" else if b.length = 65535 then "attrlen-max"
    else if b.length > 65535 then "attrlen-over" else "attrlen-some"

def Rec.tags : Rec → List String
  | .bmpRm h ap emb mon =>
      ["bmp-rm"] ++ h.tags ++ [if ap then "ap-on" else "ap-off", mon.head] ++ embTags emb
  | .bmpUp h la _ _ emb _ _ =>
      ["bmp-up"] ++ h.tags ++ [if la.isV6 then "local-v6" else "local-v4"] ++ embTags emb
  | .bmpDown h r =>
      ["bmp-down"] ++ h.tags ++
        (match r with
         | .localNotif emb _ => embTags emb ++ ["reason-1"]
         | .localFsm _ => ["reason-2"]
         | .remoteNotif emb _ => embTags emb ++ ["reason-3"]
         | .remoteUnexpected => ["reason-4"]
         | .deconfigured => ["reason-5"])
  | .bmpInit tlvs =>
      ["bmp-init", s!"tlvs-{min tlvs.length 3}"] ++
        tlvs.flatMap (fun t =>
          if t.2.length = 0 then ["tlv-0"] else if t.2.length = 255 then ["tlv-255"] else if t.2.length = 256 then ["tlv-256"]
          else if t.2.length = 65535 then ["tlv-65535"] else if t.2.length > 65535 then ["tlv-over"] else [])
  | .bmpStats => ["bmp-stats"]
  | .bmpTerm => ["bmp-term"]
  | .bmpMirror => ["bmp-mirror"]
  | .mrtMp h ap emb mon =>
      ["mrt-mp", if h.raddr.isV6 then "afi-v6" else "afi-v4"] ++
        (if h.raddr.isV6 != h.laddr.isV6 then ["mixed-local"] else []) ++
        (if h.asn4 then [] else ["asn2"]) ++ [if ap then "ap-on" else "ap-off", mon.head] ++ embTags emb
  | .tdPeers _ _ peers =>
      ["td-peers"] ++ peers.map (fun p => if p.addr.isV6 then "peer-v6" else "peer-v4") ++
        [lenClass peers.length "peers-0" "peers-few" "peers-many"] ++
        (if peers.length ≥ 65535 then ["peers-65535+"] else [])
  | .tdRib v6 _ _ mask addr ents =>
      ["td-rib"] ++
        ents.flatMap (fun e => [RibEnt.tag v6 e] ++ e.attrs.flatMap (fun a =>
          match a.kind with
          | .val => []
          | _ => if a.data.length = 255 then ["adata-255"] else if a.data.length = 256 then ["adata-256"] else [])) ++
        [if mask = 0 then "mask-0" else if mask > addr.length * 8 then "mask-over"
         else if mask = addr.length * 8 then "mask-full" else if mask % 8 ≠ 0 then "mask-part" else "mask-octet"] ++
        (if ents.length ≥ 65535 then ["ents-65535+"] else []) ++
        [if v6 then "rib6" else "rib4"] ++ [lenClass ents.length "ents-0" "ents-few" "ents-many"]

/-- Observation of a case. -/
inductive Obs where
  | panic
  | out (bytes : Bytes) (tags : List (List String))
  deriving DecidableEq, Repr

def run (c : Case) : Obs :=
  match encodeAll c.recs with
  | none => .panic
  | some b => .out b (c.recs.map Rec.tags)

end Rbgp.Mon2
