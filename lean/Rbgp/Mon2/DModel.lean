/-
  Rbgp.Mon2.DModel — model of the daemon-side converters that turn RIB / session events into the
  BMP / MRT messages handed to the codecs (daemon/src/bmp.rs `adj_rib_in_to_bmp_update`,
  `adj_rib_out_to_bmp_update`, `loc_rib_to_bmp`, `session_down_to_bmp` and the `PerPeerHeader::new` calls in
  the event loop of `BmpClient::serve`; daemon/src/mrt.rs `adj_rib_in_to_mrt`).
  An event is mapped to the packet-level record(s) of `Model`; bytes then come from `Model.encodeAll`.
  Import-free apart from Model.
-/
import Rbgp.Mon2.Model
namespace Rbgp.Mon2

/-- `table::Source` (the fields the converters read). -/
structure Src where
  raddr : Ip
  laddr : Ip
  rasn : Nat
  lasn : Nat
  rid : Nat
  deriving DecidableEq, Repr

/-- `AdjRibInChange`. -/
structure Change where
  src : Src
  fam : Nat
  ap : Bool
  nlris : List (Nat × Bytes)
  attrs : Option (List Attr)
  nh : Option Bytes
  ts : Nat
  deriving DecidableEq, Repr

/-- `Option<fsm::SessionDownReason>`. -/
inductive SessDown where
  | none | hold | fsm | admin | io
  | remote (mon : Content)
  | loc (mon : Content)
  deriving DecidableEq, Repr

/-- one path of a Loc-RIB destination as `collect_loc_rib_paths` returns it (`table::Path`) -/
structure DPath where
  src : Src
  nh : Option Bytes
  attrs : List Attr
  deriving DecidableEq, Repr

/-- `table::NlriChange`: a prefix and its current paths, best first -/
structure DChg where
  mask : Nat
  addr : Bytes
  paths : List DPath
  deriving DecidableEq, Repr

inductive Ev where
  | rm (post : Bool) (c : Change) (emb : Option Bytes)
  | flush (addr : Ip) (asn id upts : Nat) (post : Bool) (chgs : List Change) (embs : List (Option Bytes))
  | dump (rid : Bytes) (chg4 chg6 : List DChg)
  | out (post : Bool) (addr : Ip) (asn id fam : Nat) (ap : Bool) (nlri : Nat × Bytes)
      (attrs : Option (List Attr)) (nh : Option Bytes) (ts : Nat) (emb : Option Bytes)
  | locRib (fam : Nat) (net : Bytes) (attrs : Option (List Attr)) (nh : Option Bytes) (ts : Nat) (rid : Bytes)
      (asn : Nat) (emb : Option Bytes)
  | mrt (c : Change) (emb : Option Bytes)
  | down (addr : Ip) (asn id uptime : Nat) (r : SessDown) (emb : Option Bytes)
  | locUp (rid : Bytes) (asn : Nat) (emb : Option Bytes)
  | live (ap : Bool) (lrid lasn rasn rrid : Nat) (acts : List (Bool × Nat × Bytes)) (late : Bool)
      (sentOpen recvOpen : Content)
      (embs : List (Option Bytes))
  deriving DecidableEq, Repr

/-- `adj_rib_in_to_bmp_update` / `adj_rib_out_to_bmp_update` / the body of `adj_rib_in_to_mrt` / `loc_rib_to_bmp`:
    attributes present ⇒ announcement, absent ⇒ withdrawal. -/
def updContent (fam : Nat) (nlris : List (Nat × Bytes)) (attrs : Option (List Attr)) (nh : Option Bytes) : Content :=
  match attrs with
  | some a => .reach fam nlris nh a
  | none => .unreach fam nlris

/-- `session_down_to_bmp`. -/
def sessDownToBmp (r : SessDown) (emb : Option Bytes) : DownReason :=
  match r with
  | .none => .remoteUnexpected
  | .hold => .localFsm 0
  | .remote m => .remoteNotif emb m
  | .loc m => .localNotif emb m
  | .fsm => .localFsm 0
  | .admin => .localFsm 0
  | .io => .remoteUnexpected

/-! ### `dump_table` -/

def peerOfPath (p : DPath) : PeerEnt := { bgpId := u32 p.src.rid, addr := p.src.raddr, asn := p.src.rasn }

/-- `peer_index.entry(addr).or_insert_with(|| { peers.push(..); next_idx })`: first occurrence of an address wins -/
def addPeer (peers : List PeerEnt) (p : DPath) : List PeerEnt :=
  if peers.any (fun e => decide (e.addr = p.src.raddr)) then peers else peers ++ [peerOfPath p]

def buildPeers (chgs : List DChg) : List PeerEnt := (chgs.flatMap (·.paths)).foldl addPeer []

/-- `peer_index.get(&addr)`: the position at which the address was pushed -/
def idxOf : List PeerEnt → Ip → Option Nat
  | [], _ => none
  | e :: es, a => if e.addr = a then some 0 else (idxOf es a).map (· + 1)

/-- the `filter_map` building the entries of one RIB record (`originated` = the dump time, zeroed) -/
def dumpEnts (peers : List PeerEnt) (paths : List DPath) : List RibEnt :=
  paths.filterMap fun p => (idxOf peers p.src.raddr).map fun i => { pidx := i, orig := 0, nh := p.nh, attrs := p.attrs }

/-- the loops over `ipv4_changes` / `ipv6_changes`: records without entries are skipped and do not consume a
    sequence number -/
def ribRecs (v6 : Bool) (peers : List PeerEnt) : Nat → List DChg → List Rec
  | _, [] => []
  | seq, c :: cs =>
    let ents := dumpEnts peers c.paths
    if ents.isEmpty then ribRecs v6 peers seq cs
    else .tdRib v6 0 seq c.mask c.addr ents :: ribRecs v6 peers (seq + 1) cs

def dumpRecs (rid : Bytes) (c4 c6 : List DChg) : List Rec :=
  let peers := buildPeers (c4 ++ c6)
  .tdPeers 0 rid peers :: (ribRecs false peers 0 c4 ++ ribRecs true peers 0 c6)

/-! ### `apply_snapshot` / `flush_peer_snapshot` -/

/-- key of the per-peer snapshot map: (family, PathNlri) -/
abbrev SnapKey := Ip × Nat × Nat × Bytes

def snapErase (snap : List (SnapKey × Change)) (k : SnapKey) : List (SnapKey × Change) :=
  snap.filter fun e => !decide (e.1 = k)

/-- `apply_snapshot`: announcements insert one single-NLRI change per prefix, withdrawals remove -/
def applySnapshot (snap : List (SnapKey × Change)) (c : Change) : List (SnapKey × Change) :=
  match c.attrs with
  | some _ => c.nlris.foldl (fun s n => snapErase s (c.src.raddr, c.fam, n.1, n.2) ++
                [((c.src.raddr, c.fam, n.1, n.2), { c with nlris := [n] })]) snap
  | none => c.nlris.foldl (fun s n => snapErase s (c.src.raddr, c.fam, n.1, n.2)) snap

/-- lexicographic order on byte strings (`Vec<u8>: Ord`) -/
def bytesLt : Bytes → Bytes → Bool
  | [], [] => false
  | [], _ :: _ => true
  | _ :: _, [] => false
  | a :: as, b :: bs => if a < b then true else if b < a then false else bytesLt as bs

/-- canonical order in which the harness emits the route messages: (family, NLRI bytes, path id) -/
def routeLt (x y : SnapKey × Change) : Bool :=
  if x.1.2.1 < y.1.2.1 then true else if y.1.2.1 < x.1.2.1 then false
  else if bytesLt x.1.2.2.2 y.1.2.2.2 then true else if bytesLt y.1.2.2.2 x.1.2.2.2 then false
  else decide (x.1.2.2.1 < y.1.2.2.1)

def insertSorted {α} (lt : α → α → Bool) (x : α) : List α → List α
  | [] => [x]
  | y :: ys => if lt x y then x :: y :: ys else y :: insertSorted lt x ys

def sortBy {α} (lt : α → α → Bool) (l : List α) : List α := l.foldr (insertSorted lt) []

def dedupNat : List Nat → List Nat
  | [] => []
  | [x] => [x]
  | x :: y :: r => if x = y then dedupNat (y :: r) else x :: dedupNat (y :: r)

def zipEmb : List (Option Bytes → Rec) → List (Option Bytes) → List Rec
  | [], _ => []
  | f :: fs, [] => f none :: zipEmb fs []
  | f :: fs, e :: es => f e :: zipEmb fs es

/-- messages of `flush_peer_snapshot(snapshot, addr, peer_header, flags)` in the canonical order -/
def flushRecs (addr : Ip) (asn id upts : Nat) (post : Bool) (chgs : List Change) (embs : List (Option Bytes)) :
    List Rec :=
  let snap := chgs.foldl applySnapshot []
  let routes := sortBy routeLt (snap.filter fun e => decide (e.1.1 = addr))
  let fams := dedupNat (sortBy (fun a b => decide (a < b)) (routes.map fun e => e.1.2.1))
  let fl := if post then 64 else 0
  zipEmb
    (routes.map (fun e emb =>
        Rec.bmpRm { ptype := 0, flags := fl, dist := 0, addr := e.2.src.raddr, asn := e.2.src.rasn,
                    bgpId := u32 e.2.src.rid, ts := e.2.ts } e.2.ap emb
          (updContent e.2.fam e.2.nlris e.2.attrs e.2.nh)) ++
     fams.map (fun f emb =>
        Rec.bmpRm { ptype := 0, flags := fl, dist := 0, addr := addr, asn := asn, bgpId := u32 id, ts := upts }
          false emb (.eor f)))
    embs

/-- canonical content (characters of the harness' `(open ASN HOLD RID (caps))` term) of the OPEN fabricated by
    `loc_rib_peer_up`: the router's AS and identifier, hold time 0, the four-octet-AS capability (RFC 9069 §5.2; added by the repair) -/
def locUpOpen (rid : Bytes) (asn : Nat) : Content :=
  .other (s!"(open {asn} 0 {rid.foldl (fun a b => a * 256 + b) 0} (caps (as4 {asn})))".toList.map Char.toNat)

/-! ### end to end: one eBGP IPv4 session observed by `BmpClient::serve` with policy `all`

What `on_established` → `TableManager::peer_up`, `insert_route` / `remove_route` (the events of
`notify_adj_rib_in[_post]`, `distribute_update`), `unregister_peer` → `peer_down` and the arms of `serve` make of
it: the serve connected before the session sees the Loc-RIB Peer Up, the live Peer Up, per received UPDATE the
pre-policy, post-policy, Loc-RIB and (withdrawn towards the sender itself) Adj-RIB-Out pre/post Route Monitoring,
at the end the Loc-RIB withdrawal of what was left and the Peer Down; a serve connecting while the session is up
sees the snapshot: Peer Up (`bmp_peer_up`), flushed pre- and post-policy routes with End-of-RIB, Loc-RIB Peer Up,
Loc-RIB routes with End-of-RIB, then the same end. -/

def liveAttrs (rasn : Nat) : List Attr :=
  [ { code := 1, flags := 64, kind := .val, val := 0, data := [] },
    { code := 2, flags := 64, kind := .bin, val := 0, data := [2, 1] ++ u32 rasn } ]

def liveContent (rasn : Nat) (a : Bool × Nat × Bytes) : Content :=
  if a.1 then .reach 65537 [a.2] (some [10, 0, 0, 1]) (liveAttrs rasn) else .unreach 65537 [a.2]

/-- (path id, prefix) pairs installed after the actions, oldest first -/
def liveRemaining (acts : List (Bool × Nat × Bytes)) : List (Nat × Bytes) :=
  acts.foldl (fun acc a => if a.1 then (acc.filter (· != a.2)) ++ [a.2] else acc.filter (· != a.2)) []

def livePeerHdr (flags rasn rrid : Nat) : PeerHdr :=
  { ptype := 0, flags := flags, dist := 0, addr := .v4 [127, 0, 0, 1], asn := rasn, bgpId := u32 rrid, ts := 0 }

def liveLocHdr (lasn lrid : Nat) : PeerHdr :=
  { ptype := 3, flags := 0, dist := 0, addr := .v4 [0, 0, 0, 0], asn := lasn, bgpId := u32 lrid, ts := 0 }

def liveRecs (ap : Bool) (lrid lasn rasn rrid : Nat) (acts : List (Bool × Nat × Bytes)) (late : Bool)
    (sentOpen recvOpen : Content) (embs : List (Option Bytes)) : List Rec :=
  -- `rm`: add-path off (Loc-RIB, Adj-RIB-Out, End-of-RIB); `rmIn`: the session's setting (`has_addpath`)
  let rm (h : PeerHdr) (c : Content) : Option Bytes → Rec := fun e => .bmpRm h false e c
  let rmIn (h : PeerHdr) (c : Content) : Option Bytes → Rec := fun e => .bmpRm h ap e c
  let peer := livePeerHdr 0 rasn rrid
  let loc := liveLocHdr lasn lrid
  let locUp : Option Bytes → Rec := fun e =>
    .bmpUp loc (.v4 [0, 0, 0, 0]) 0 0 e (locUpOpen (u32 lrid) lasn) (locUpOpen (u32 lrid) lasn)
  let peerUp : Option Bytes → Rec := fun e => .bmpUp peer (.v4 [127, 0, 0, 1]) 0 0 e sentOpen recvOpen
  let left := liveRemaining acts
  let reach (n : Nat × Bytes) : Content := liveContent rasn (true, n)
  -- the Loc-RIB view has no path identifiers
  let locC (c : Content) : Content :=
    match c with
    | .reach f e nh a => .reach f (e.map fun x => (0, x.2)) nh a
    | .unreach f e => .unreach f (e.map fun x => (0, x.2))
    | c => c
  let closing : List (Option Bytes → Rec) :=
    left.map (fun n => rm loc (.unreach 65537 [(0, n.2)])) ++ [fun _ => .bmpDown peer .remoteUnexpected]
  let eor (h : PeerHdr) : List (Option Bytes → Rec) := if left.isEmpty then [] else [rm h (.eor 65537)]
  let early : List (Option Bytes → Rec) :=
    [locUp, peerUp] ++
      acts.flatMap (fun a =>
        [ rmIn peer (liveContent rasn a), rmIn (livePeerHdr 64 rasn rrid) (liveContent rasn a),
          rm loc (locC (liveContent rasn a)) ] ++
        -- without add-path the route is (not) advertised back: Adj-RIB-Out pre / post withdrawal towards the peer
        (if ap then [] else
          [ rm (livePeerHdr 16 rasn rrid) (.unreach 65537 [a.2]), rm (livePeerHdr 80 rasn rrid) (.unreach 65537 [a.2]) ])) ++
      closing
  let lateL : List (Option Bytes → Rec) :=
    if late then
      [peerUp] ++ left.map (fun n => rmIn peer (reach n)) ++ eor peer ++
        left.map (fun n => rmIn (livePeerHdr 64 rasn rrid) (reach n)) ++ eor (livePeerHdr 64 rasn rrid) ++
        [locUp] ++ left.map (fun n => rm loc (locC (reach n))) ++ eor loc ++ closing
    else []
  -- `MrtDumper::run_loop` (update dump): one BGP4MP record per Adj-RIB-In event (`adj_rib_in_to_mrt`)
  let mrtL : List (Option Bytes → Rec) :=
    acts.map (fun a e =>
      Rec.mrtMp { rasn := rasn, lasn := lasn, ifidx := 0, raddr := .v4 [127, 0, 0, 1], laddr := .v4 [127, 0, 0, 1],
                  asn4 := true } ap e (liveContent rasn a))
  zipEmb (early ++ lateL ++ mrtL) embs

/-- The record(s) the daemon hands to the codecs for one event. -/
def Ev.toRecs : Ev → List Rec
  | .flush addr asn id upts post chgs embs => flushRecs addr asn id upts post chgs embs
  | .dump rid c4 c6 => dumpRecs rid c4 c6
  | .rm post c emb =>
      [.bmpRm { ptype := 0, flags := if post then 64 else 0, dist := 0, addr := c.src.raddr, asn := c.src.rasn,
                bgpId := u32 c.src.rid, ts := c.ts } c.ap emb (updContent c.fam c.nlris c.attrs c.nh)]
  | .out post addr asn id fam ap nlri attrs nh ts emb =>
      [.bmpRm { ptype := 0, flags := if post then 16 ||| 64 else 16, dist := 0, addr := addr, asn := asn,
                bgpId := u32 id, ts := ts } ap emb (updContent fam [nlri] attrs nh)]
  | .locRib fam net attrs nh ts rid asn emb =>
      [.bmpRm { ptype := 3, flags := 0, dist := 0, addr := .v4 [0, 0, 0, 0], asn := asn, bgpId := rid, ts := ts }
         false emb (updContent fam [(0, net)] attrs nh)]
  | .mrt c emb =>
      [.mrtMp { rasn := c.src.rasn, lasn := c.src.lasn, ifidx := 0, raddr := c.src.raddr, laddr := c.src.laddr,
                asn4 := true } c.ap emb (updContent c.fam c.nlris c.attrs c.nh)]
  | .down addr asn id uptime r emb =>
      [.bmpDown { ptype := 0, flags := 0, dist := 0, addr := addr, asn := asn, bgpId := u32 id,
                  ts := uptime % 4294967296 } (sessDownToBmp r emb)]
  | .live ap lrid lasn rasn rrid acts late so ro embs => liveRecs ap lrid lasn rasn rrid acts late so ro embs
  | .locUp rid asn emb =>
      [.bmpUp { ptype := 3, flags := 0, dist := 0, addr := .v4 [0, 0, 0, 0], asn := asn, bgpId := rid, ts := 0 }
         (.v4 [0, 0, 0, 0]) 0 0 emb (locUpOpen rid asn) (locUpOpen rid asn)]

inductive Item where
  | pkt (r : Rec)
  | ev (e : Ev)
  deriving DecidableEq, Repr

def Item.toRecs : Item → List Rec
  | .pkt r => [r]
  | .ev e => e.toRecs

structure DCase where
  tbl : List (Bool × Bytes × Content)
  items : List Item
  deriving Repr

def DCase.toCase (d : DCase) : Case := { tbl := d.tbl, recs := d.items.flatMap Item.toRecs }

def v46 (a : Ip) (p : String) : String := if a.isV6 then p ++ "-v6" else p ++ "-v4"
def apTag (ap : Bool) : String := if ap then "ap-on" else "ap-off"
def prePost (post : Bool) : String := if post then "post" else "pre"

def SessDown.tag : SessDown → String
  | .none => "sess-none"
  | .hold => "sess-hold"
  | .fsm => "sess-fsm"
  | .admin => "sess-admin"
  | .io => "sess-io"
  | .remote _ => "sess-remote"
  | .loc _ => "sess-local"

def Ev.tags : Ev → List String
  | .flush addr asn id upts post chgs embs =>
      ["ev-flush", prePost post, s!"fmsgs-{min (flushRecs addr asn id upts post chgs embs).length 4}"]
  | .dump _ c4 c6 =>
      ["ev-dump", s!"dpeers-{min (buildPeers (c4 ++ c6)).length 4}", s!"dchg4-{min c4.length 3}", s!"dchg6-{min c6.length 3}"] ++
        (if (buildPeers (c4 ++ c6)).length > 255 then ["dpeers-256+"] else [])
  | .rm post c emb =>
      ["ev-rm", v46 c.src.raddr "peer", prePost post, apTag c.ap, (updContent c.fam c.nlris c.attrs c.nh).head] ++ embTags emb
  | .out post addr _ _ fam ap nlri attrs nh _ emb =>
      ["ev-out", v46 addr "peer", prePost post, apTag ap, (updContent fam [nlri] attrs nh).head] ++ embTags emb
  | .locRib fam net attrs nh _ _ _ emb =>
      ["ev-loc", apTag false, (updContent fam [(0, net)] attrs nh).head] ++ embTags emb
  | .mrt c emb =>
      ["ev-mrt", v46 c.src.raddr "afi", apTag c.ap, (updContent c.fam c.nlris c.attrs c.nh).head] ++ embTags emb
  | .down _ _ _ _ r _ => ["ev-down", r.tag]
  | .locUp _ _ emb => ["ev-locup"] ++ embTags emb
  | .live ap _ _ _ _ acts late _ _ _ =>
      ["ev-live", if late then "late-serve" else "early-serve", apTag ap, s!"lacts-{min acts.length 3}"]

def Item.tags : Item → List String
  | .pkt r => r.tags
  | .ev e => e.tags

def drun (d : DCase) : Obs :=
  match encodeAll (d.toCase).recs with
  | none => .panic
  | some b => .out b (d.items.map Item.tags)

end Rbgp.Mon2
