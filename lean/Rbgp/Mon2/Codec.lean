/-
  Rbgp.Mon2.Codec — Term codec for C19 cases and observations (format: see harness/pt/src/bin/c19.rs).
-/
import Rbgp.Term
import Rbgp.Mon2.Model
namespace Rbgp.Mon2.Codec
open Rbgp Rbgp.Term Rbgp.Mon2

def strBytes (s : String) : Bytes := s.toList.map Char.toNat

def natLt? (bound : Nat) (t : Term) : Option Nat :=
  (asNat? t).bind fun n => if n < bound then some n else none

def bytesLen? (n : Nat) (t : Term) : Option Bytes :=
  (asBytes? t).bind fun b => if b.length = n then some b else none

def ipOf? : Term → Option Ip
  | .list [.atom "v4", b] => (bytesLen? 4 b).map .v4
  | .list [.atom "v6", b] => (bytesLen? 16 b).map .v6
  | _ => none

def entOf? : Term → Option (Nat × Bytes)
  | .list [p, b] => do pure ((← natLt? 4294967296 p), (← asBytes? b))
  | _ => none

def nhOf? : Term → Option (Option Bytes)
  | .atom "none" => some none
  | t => (asBytes? t).map some

def attrOf? : Term → Option Attr
  | .list [c, f, .atom k, v] => do
      let code ← natLt? 256 c
      let flags ← natLt? 256 f
      match k with
      | "val" => pure { code, flags, kind := .val, val := (← natLt? 4294967296 v), data := [] }
      | "bin" => pure { code, flags, kind := .bin, val := 0, data := (← asBytes? v) }
      | "opq" => pure { code, flags, kind := .opq, val := 0, data := (← asBytes? v) }
      | _ => none
  | _ => none

/-- Canonical content of a message term.  A term headed `reach` / `unreach` / `eor` must be well formed (else the
    whole case is ill-formed: `none`, both sides print `(bad-case)`); every other term is a genuinely different
    message (`open`, `notif`, `keepalive`, `rr`, `err`, `multi`) and is kept as its characters. -/
def contentOf? (t : Term) : Option Content :=
  match t with
  | .list (.atom "reach" :: rest) =>
      match rest with
      | [f, .list es, nh, .list attrs] => do
          pure (.reach (← asNat? f) (← es.mapM entOf?) (← nhOf? nh) (← attrs.mapM attrOf?))
      | _ => none
  | .list (.atom "unreach" :: rest) =>
      match rest with
      | [f, .list es] => do pure (.unreach (← asNat? f) (← es.mapM entOf?))
      | _ => none
  | .list (.atom "eor" :: rest) =>
      match rest with
      | [f] => (asNat? f).map .eor
      | _ => none
  | t => some (.other (strBytes (toStr t)))

def embOf? : Term → Option (Option Bytes)
  | .atom "panic" => some none
  | t => (asBytes? t).map some

def hdrOf? : Term → Option PeerHdr
  | .list [.atom "hdr", pt, fl, d, ip, asn, id, ts] => do
      pure { ptype := (← natLt? 256 pt), flags := (← natLt? 256 fl), dist := (← natLt? 18446744073709551616 d),
             addr := (← ipOf? ip), asn := (← natLt? 4294967296 asn), bgpId := (← bytesLen? 4 id),
             ts := (← natLt? 4294967296 ts) }
  | _ => none

def reasonOf? : Term → Option DownReason
  | .atom "remote-unexpected" => some .remoteUnexpected
  | .atom "deconfigured" => some .deconfigured
  | .list [.atom "local-fsm", n] => (natLt? 65536 n).map .localFsm
  | .list [.atom "local-notif", e, m] => do pure (.localNotif (← embOf? e) (← contentOf? m))
  | .list [.atom "remote-notif", e, m] => do pure (.remoteNotif (← embOf? e) (← contentOf? m))
  | _ => none

def tlvOf? : Term → Option (Nat × Bytes)
  | .list [t, v] => do pure ((← natLt? 65536 t), (← asBytes? v))
  | _ => none

def mphOf? : Term → Option MpHdr
  | .list [.atom "mph", ra, la, ifx, rip, lip, a4] => do
      pure { rasn := (← natLt? 4294967296 ra), lasn := (← natLt? 4294967296 la), ifidx := (← natLt? 65536 ifx),
             raddr := (← ipOf? rip), laddr := (← ipOf? lip), asn4 := (← asBool? a4) }
  | _ => none

def peerOf? : Term → Option PeerEnt
  | .list [.atom "peer", id, ip, asn] => do
      pure { bgpId := (← bytesLen? 4 id), addr := (← ipOf? ip), asn := (← natLt? 4294967296 asn) }
  | _ => none

def ribEntOf? : Term → Option RibEnt
  | .list [.atom "ent", p, o, nh, .list as] => do
      pure { pidx := (← natLt? 65536 p), orig := (← natLt? 4294967296 o), nh := (← nhOf? nh),
             attrs := (← as.mapM attrOf?) }
  | _ => none

def recOf? : Term → Option Rec
  | .atom "bmp-stats" => some .bmpStats
  | .atom "bmp-term" => some .bmpTerm
  | .atom "bmp-mirror" => some .bmpMirror
  | .list [.atom "bmp-rm", h, ap, e, m] => do
      pure (.bmpRm (← hdrOf? h) (← asBool? ap) (← embOf? e) (← contentOf? m))
  | .list [.atom "bmp-up", h, la, lp, rp, e, ml, mr] => do
      pure (.bmpUp (← hdrOf? h) (← ipOf? la) (← natLt? 65536 lp) (← natLt? 65536 rp) (← embOf? e)
        (← contentOf? ml) (← contentOf? mr))
  | .list [.atom "bmp-down", h, r] => do pure (.bmpDown (← hdrOf? h) (← reasonOf? r))
  | .list (.atom "bmp-init" :: tlvs) => (tlvs.mapM tlvOf?).map .bmpInit
  | .list [.atom "mrt-mp", h, ap, e, m] => do
      pure (.mrtMp (← mphOf? h) (← asBool? ap) (← embOf? e) (← contentOf? m))
  | .list (.atom "td-peers" :: ts :: rid :: peers) => do
      pure (.tdPeers (← natLt? 4294967296 ts) (← bytesLen? 4 rid) (← peers.mapM peerOf?))
  | .list (.atom "td-rib" :: v6 :: ts :: seq :: .list [.atom "pfx", mask, addr] :: ents) => do
      let a ← asBytes? addr
      if a.length = 4 ∨ a.length = 16 then
        pure (.tdRib (← asBool? v6) (← natLt? 4294967296 ts) (← natLt? 4294967296 seq) (← natLt? 256 mask) a
          (← ents.mapM ribEntOf?))
      else none
  | _ => none

def rowOf? : Term → Option (Bool × Bytes × Content)
  | .list [.atom "f", ap, b, c] => do pure ((← asBool? ap), (← asBytes? b), (← contentOf? c))
  | _ => none

def caseOf? : Term → Option Case
  | .list [.atom "case", .list (.atom "tbl" :: rows), .list (.atom "recs" :: recs)] => do
      pure { tbl := (← rows.mapM rowOf?), recs := (← recs.mapM recOf?) }
  | _ => none

def obsT : Obs → Term
  | .panic => list [sym "panic"]
  | .out b tags => tag "out" [bytes b, tag "tags" (tags.map fun l => list (l.map sym))]

def obsOf? : Term → Option Obs
  | .list [.atom "panic"] => some .panic
  | .list [.atom "out", b, .list (.atom "tags" :: ts)] => do
      let tags ← ts.mapM fun t => (asListOf? asSym? t)
      pure (.out (← asBytes? b) tags)
  | _ => none

end Rbgp.Mon2.Codec
