/-
  Rbgp.Mon2.DCodec — Term codec for daemon-level C19 cases (format: see harness/daemon/c19.rs).
-/
import Rbgp.Mon2.Codec
import Rbgp.Mon2.DModel
namespace Rbgp.Mon2.DCodec
open Rbgp Rbgp.Term Rbgp.Mon2 Rbgp.Mon2.Codec

def srcOf? : Term → Option Src
  | .list [.atom "src", ra, la, rasn, lasn, rid] => do
      pure { raddr := (← ipOf? ra), laddr := (← ipOf? la), rasn := (← natLt? 4294967296 rasn),
             lasn := (← natLt? 4294967296 lasn), rid := (← natLt? 4294967296 rid) }
  | _ => none

def optAttrsOf? : Term → Option (Option (List Attr))
  | .atom "none" => some none
  | .list as => (as.mapM attrOf?).map some
  | _ => none

def entsOf? : Term → Option (List (Nat × Bytes))
  | .list es => es.mapM entOf?
  | _ => none

def changeOf? (src fam ap nl att nh ts : Term) : Option Change := do
  pure { src := (← srcOf? src), fam := (← natLt? 4294967296 fam), ap := (← asBool? ap), nlris := (← entsOf? nl),
         attrs := (← optAttrsOf? att), nh := (← nhOf? nh), ts := (← natLt? 4294967296 ts) }

def peerOf? : Term → Option (Ip × Nat × Nat)
  | .list [.atom "peer", ip, asn, id] => do
      pure ((← ipOf? ip), (← natLt? 4294967296 asn), (← natLt? 4294967296 id))
  | _ => none

def sessOf? : Term → Option SessDown
  | .atom "none" => some .none
  | .atom "hold" => some .hold
  | .atom "fsm" => some .fsm
  | .atom "admin" => some .admin
  | .atom "io" => some .io
  | .list [.atom "remote", m] => (contentOf? m).map .remote
  | .list [.atom "local", m] => (contentOf? m).map .loc
  | _ => none

def downEmbOf? : Term → Option (Option Bytes)
  | .atom "-" => some (some [])
  | t => embOf? t

def pathOf? : Term → Option DPath
  | .list [.atom "path", src, nh, .list as] => do
      pure { src := (← srcOf? src), nh := (← nhOf? nh), attrs := (← as.mapM attrOf?) }
  | _ => none

def chgOf? : Term → Option DChg
  | .list (.list [.atom "pfx", mask, addr] :: paths) => do
      let a ← asBytes? addr
      if a.length = 4 ∨ a.length = 16 then
        pure { mask := (← natLt? 256 mask), addr := a, paths := (← paths.mapM pathOf?) }
      else none
  | _ => none

def flushChgOf? : Term → Option Change
  | .list [.atom "chg", src, fam, ap, nl, att, nh, ts] => changeOf? src fam ap nl att nh ts
  | _ => none

def itemOf? (t : Term) : Option Item :=
  match t with
  | .list [.atom "ev-dump", rid, .list (.atom "chg4" :: c4), .list (.atom "chg6" :: c6)] => do
      pure (.ev (.dump (← bytesLen? 4 rid) (← c4.mapM chgOf?) (← c6.mapM chgOf?)))
  | .list [.atom "ev-flush", peer, upts, post, .list (.atom "chgs" :: cs), .list (.atom "embs" :: es)] => do
      let (addr, asn, id) ← peerOf? peer
      pure (.ev (.flush addr asn id (← natLt? 4294967296 upts) (← asBool? post) (← cs.mapM flushChgOf?)
        (← es.mapM embOf?)))
  | .list [.atom "ev-rm", post, src, fam, ap, nl, att, nh, ts, e] => do
      pure (.ev (.rm (← asBool? post) (← changeOf? src fam ap nl att nh ts) (← embOf? e)))
  | .list [.atom "ev-out", post, peer, fam, ap, nlri, att, nh, ts, e] => do
      let (addr, asn, id) ← peerOf? peer
      pure (.ev (.out (← asBool? post) addr asn id (← natLt? 4294967296 fam) (← asBool? ap) (← entOf? nlri)
        (← optAttrsOf? att) (← nhOf? nh) (← natLt? 4294967296 ts) (← embOf? e)))
  | .list [.atom "ev-loc", fam, net, att, nh, ts, rid, asn, e] => do
      pure (.ev (.locRib (← natLt? 4294967296 fam) (← asBytes? net) (← optAttrsOf? att) (← nhOf? nh)
        (← natLt? 4294967296 ts) (← bytesLen? 4 rid) (← natLt? 4294967296 asn) (← embOf? e)))
  | .list [.atom "ev-mrt", src, fam, ap, nl, att, nh, ts, e] => do
      pure (.ev (.mrt (← changeOf? src fam ap nl att nh ts) (← embOf? e)))
  | .list [.atom "ev-live", .list [.atom "cfg", lrid, lasn, _lhold, ap], .list [.atom "popen", rasn, _rhold, rrid],
      .list (.atom "acts" :: acts), late, .list [.atom "opens", so, ro], .list (.atom "embs" :: es)] => do
      let act? : Term → Option (Bool × Nat × Bytes) := fun t =>
        match t with
        | .list [.atom "ann", p, n] => do pure (true, (← natLt? 4294967296 p), (← asBytes? n))
        | .list [.atom "wd", p, n] => do pure (false, (← natLt? 4294967296 p), (← asBytes? n))
        | _ => none
      pure (.ev (.live (← asBool? ap) (← natLt? 4294967296 lrid) (← natLt? 4294967296 lasn) (← natLt? 4294967296 rasn)
        (← natLt? 4294967296 rrid) (← acts.mapM act?) (← asBool? late) (← contentOf? so) (← contentOf? ro)
        (← es.mapM embOf?)))
  | .list [.atom "ev-locup", rid, asn, e] => do
      pure (.ev (.locUp (← bytesLen? 4 rid) (← natLt? 4294967296 asn) (← embOf? e)))
  | .list [.atom "ev-down", peer, up, r, e] => do
      let (addr, asn, id) ← peerOf? peer
      pure (.ev (.down addr asn id (← natLt? 18446744073709551616 up) (← sessOf? r) (← downEmbOf? e)))
  | t => (recOf? t).map .pkt

def dcaseOf? : Term → Option DCase
  | .list [.atom "dcase", .list (.atom "tbl" :: rows), .list (.atom "items" :: items)] => do
      pure { tbl := (← rows.mapM rowOf?), items := (← items.mapM itemOf?) }
  | _ => none

end Rbgp.Mon2.DCodec
