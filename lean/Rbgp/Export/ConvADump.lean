/-
  Rbgp.Export.ConvADump — C01, add-path sessions, part 5: `on_established` (the dump of a snapshot
  of the RIB into an empty export map) establishes the invariant.
-/
import Rbgp.Export.ConvASession
namespace Rbgp.Export.ConvA
open Rbgp.Export Rbgp.Export.Conv

/-- what `collect_loc_rib_paths_limited` yields over a consistent RIB, as far as an add-path session
    depends on it -/
structure SnapshotA (cs : List (Change Net)) : Prop where
  snap : Snapshot cs
  any : ∀ c ∈ cs, c.anyChanged = true
  pids : ∀ c ∈ cs, (c.paths.map (·.pid)).Nodup

/-- the announcements of one destination -/
def entriesOf (e : Exp) (c : Change Net) : List (TxKey × (Net × Attrs × Option Nh)) :=
  (target e c.paths).map (fun t => ((c.destId, t.1), (c.net, t.2.1, t.2.2)))

def reachOps (d : Nat) (net : Net) (top : List (Nat × Attrs × Option Nh)) : List (SinkOp Net) :=
  top.map (fun t => SinkOp.reach d net t.1 t.2.2 t.2.1)

def markAll (d : Nat) (top : List (Nat × Attrs × Option Nh)) (m : ExportMap) : ExportMap :=
  top.foldl (fun m t => m.markSent d t.1) m

theorem mem_markAll (d : Nat) (top : List (Nat × Attrs × Option Nh)) (m : ExportMap) (h : m.addpath = true) (k : Nat × Nat) :
    k ∈ (markAll d top m).sent ↔ k ∈ m.sent ∨ ∃ t ∈ top, k = (d, t.1) := by
  induction top generalizing m with
  | nil => simp [markAll]
  | cons t rest ih =>
    simp only [markAll, List.foldl_cons] at ih ⊢
    rw [ih _ (by rw [addpath_markSent]; exact h), mem_markSentA m h]
    constructor
    · rintro ((h1 | h1) | ⟨t', ht', hk⟩)
      · exact Or.inl h1
      · exact Or.inr ⟨t, List.mem_cons_self .., h1⟩
      · exact Or.inr ⟨t', List.mem_cons_of_mem _ ht', hk⟩
    · rintro (h1 | ⟨t', ht', hk⟩)
      · exact Or.inl (Or.inl h1)
      · rcases List.mem_cons.mp ht' with rfl | hm
        · exact Or.inl (Or.inr hk)
        · exact Or.inr ⟨t', hm, hk⟩

theorem addpath_markAll (d : Nat) (top : List (Nat × Attrs × Option Nh)) (m : ExportMap) :
    (markAll d top m).addpath = m.addpath := by
  induction top generalizing m with
  | nil => rfl
  | cons t rest ih => simp only [markAll, List.foldl_cons] at ih ⊢; rw [ih, addpath_markSent]

theorem nodup_markAll (d : Nat) (top : List (Nat × Attrs × Option Nh)) (m : ExportMap) (h : m.addpath = true)
    (hn : m.sent.Nodup) : (markAll d top m).sent.Nodup := by
  induction top generalizing m with
  | nil => exact hn
  | cons t rest ih =>
    simp only [markAll, List.foldl_cons] at ih ⊢
    exact ih _ (by rw [addpath_markSent]; exact h) (nodup_markSentA m h d t.1 hn)

/-- on a destination id nothing was sent under, the announcement loop announces the whole window -/
theorem fold_top_fresh (d : Nat) (net : Net) (replaced : Option Nat) (top : List (Nat × Attrs × Option Nh)) :
    ∀ (m : ExportMap) (os : List (SinkOp Net)), m.addpath = true → (∀ t ∈ top, (d, t.1) ∉ m.sent) →
      (top.map (·.1)).Nodup →
      top.foldl (stepTop d net replaced false) (m, os) = (markAll d top m, os ++ reachOps d net top) := by
  induction top with
  | nil => intro m os _ _ _; simp [markAll, reachOps]
  | cons t rest ih =>
    intro m os hap hfresh hnd
    simp only [List.map_cons, List.nodup_cons] at hnd
    obtain ⟨pid, as, nh⟩ := t
    have hnc : m.containsPath d pid = false := by
      cases hc : m.containsPath d pid with
      | false => rfl
      | true => exact absurd ((containsPathA m hap d pid).mp hc) (hfresh _ (List.mem_cons_self ..))
    have hstep : stepTop d net replaced false (m, os) (pid, as, nh) =
        (m.markSent d pid, os ++ [SinkOp.reach d net pid nh as]) := by
      simp [stepTop, hnc]
    simp only [List.foldl_cons, hstep]
    rw [ih _ _ (by rw [addpath_markSent]; exact hap) ?_ hnd.2]
    · simp [markAll, reachOps, List.append_assoc]
    · intro t' ht' hs
      rcases (mem_markSentA m hap d pid _).mp hs with h | h
      · exact hfresh t' (List.mem_cons_of_mem _ ht') h
      · simp only [Prod.mk.injEq, true_and] at h
        apply hnd.1; exact List.mem_map.mpr ⟨t', ht', h⟩

theorem process_fresh (e : Exp) (he : e.max ≠ 1) (c : Change Net) (m : ExportMap) (hap : m.addpath = true)
    (hany : c.anyChanged = true) (hn : (c.paths.map (·.pid)).Nodup) (hfresh : ∀ w, (c.destId, w) ∉ m.sent) :
    processNlriChange e c m false =
      (markAll c.destId (target e c.paths) m, reachOps c.destId c.net (target e c.paths)) := by
  rw [process_ap e he]
  simp only [hany, Bool.true_eq_false, if_false]
  have hs : m.sentPathIds c.destId = [] := by
    simp only [ExportMap.sentPathIds, List.map_eq_nil_iff, List.filter_eq_nil_iff, decide_eq_true_eq]
    intro k hk hd
    apply hfresh k.2
    rw [← hd]; exact hk
  simp only [hs, List.filter_nil, List.foldl_nil, List.map_nil]
  rw [fold_top_fresh _ _ _ _ _ _ hap (fun t _ => hfresh t.1) (target_ids_nodup e he c.paths hn)]
  simp

theorem nodup_map_inj {α β} (f : α → β) (hf : ∀ a b, f a = f b → a = b) (l : List α) (h : l.Nodup) : (l.map f).Nodup := by
  induction l with
  | nil => simp
  | cons a rest ih =>
    simp only [List.nodup_cons, List.map_cons] at h ⊢
    refine ⟨?_, ih h.2⟩
    intro hm
    rcases List.mem_map.mp hm with ⟨b, hb, hab⟩
    rw [hf b a hab] at hb; exact h.1 hb

theorem dumpMsgs_reachOps (d : Nat) (net : Net) (top : List (Nat × Attrs × Option Nh)) :
    dumpMsgs true (reachOps d net top) = (top.map (fun t => ((d, t.1), (net, t.2.1, t.2.2)))).map reachMsg := by
  induction top with
  | nil => rfl
  | cons t rest ih =>
    simp only [reachOps, List.map_cons, dumpMsgs, List.filterMap_cons, if_true] at ih ⊢
    rw [ih]
    rfl

/-- state of the dump after the destinations `pre` -/
structure DInv (e : Exp) (pre : List (Change Net)) (m : ExportMap) (ops : List (SinkOp Net)) : Prop where
  ap : m.addpath = true
  nd : m.sent.Nodup
  mapIff : ∀ d w, (d, w) ∈ m.sent ↔ ∃ c ∈ pre, c.destId = d ∧ tlookup w (target e c.paths) ≠ none
  msgs : dumpMsgs true ops = (pre.flatMap (entriesOf e)).map reachMsg

theorem mem_of_tlookup (t : List (Nat × Attrs × Option Nh)) (w : Nat) (r : Attrs × Option Nh)
    (h : tlookup w t = some r) : (w, r) ∈ t := by
  simp only [tlookup] at h
  cases hf : t.find? (fun x => decide (x.1 = w)) with
  | none => simp [hf] at h
  | some x =>
    simp only [hf, Option.map_some, Option.some.injEq] at h
    have hm := List.mem_of_find?_eq_some hf
    have hk : x.1 = w := by simpa using List.find?_some hf
    obtain ⟨a, b⟩ := x
    simp only at hk h; subst hk; subst h; exact hm

theorem dinv_fold (e : Exp) (he : e.max ≠ 1) (pre cs : List (Change Net)) (h : SnapshotA (pre ++ cs))
    (m : ExportMap) (ops : List (SinkOp Net)) (D : DInv e pre m ops) :
    let r := cs.foldl (fun (acc : ExportMap × List (SinkOp Net)) c =>
      let (m, o) := processNlriChange e c acc.1
      (m, acc.2 ++ o)) (m, ops)
    DInv e (pre ++ cs) r.1 r.2 := by
  induction cs generalizing pre m ops with
  | nil => simpa using D
  | cons c rest ih =>
    simp only [List.foldl_cons]
    have hcm : c ∈ pre ++ c :: rest := by simp
    have hi' : c.destId ∉ pre.map (·.destId) := by
      intro hm
      have hi := h.snap.ids
      simp only [List.map_append, List.map_cons] at hi
      exact (List.nodup_append.mp hi).2.2 _ hm _ (List.mem_cons_self ..) rfl
    have hfresh : ∀ w, (c.destId, w) ∉ m.sent := by
      intro w hs
      obtain ⟨c', hc', hd, _⟩ := (D.mapIff c.destId w).mp hs
      apply hi'; rw [← hd]; exact List.mem_map_of_mem hc'
    have hproc := process_fresh e he c m D.ap (h.any c hcm) (h.pids c hcm) hfresh
    have h' : SnapshotA ((pre ++ [c]) ++ rest) := by simpa [List.append_assoc] using h
    have D' : DInv e (pre ++ [c]) (processNlriChange e c m).1 (ops ++ (processNlriChange e c m).2) := by
      rw [hproc]
      refine ⟨by rw [addpath_markAll]; exact D.ap, nodup_markAll _ _ _ D.ap D.nd, ?_, ?_⟩
      · intro d w
        rw [mem_markAll _ _ _ D.ap, D.mapIff]
        constructor
        · rintro (⟨c', hc', hd, ht⟩ | ⟨t, ht, hk⟩)
          · exact ⟨c', List.mem_append_left _ hc', hd, ht⟩
          · simp only [Prod.mk.injEq] at hk
            refine ⟨c, by simp, hk.1.symm, ?_⟩
            rw [hk.2, tlookup_mem _ (target_ids_nodup e he c.paths (h.pids c hcm)) t ht]; simp
        · rintro ⟨c', hc', hd, ht⟩
          rcases List.mem_append.mp hc' with h1 | h1
          · exact Or.inl ⟨c', h1, hd, ht⟩
          · simp only [List.mem_singleton] at h1
            subst h1
            right
            cases htl : tlookup w (target e c'.paths) with
            | none => exact absurd htl ht
            | some r => exact ⟨(w, r), mem_of_tlookup _ _ _ htl, by rw [hd]⟩
      · rw [dumpMsgs_append, D.msgs, dumpMsgs_reachOps]
        simp [entriesOf]
    have := ih (pre ++ [c]) h' _ _ D'
    simpa [List.append_assoc] using this

theorem dinv_nil (e : Exp) : DInv e [] (ExportMap.empty true) [] :=
  ⟨rfl, by simp [ExportMap.empty], by intro d w; simp [ExportMap.empty], rfl⟩

/-! ### the mirror written by the buffered dump -/

theorem entries_routes_nodup (e : Exp) (he : e.max ≠ 1) (cs : List (Change Net)) (h : SnapshotA cs) :
    (((cs.flatMap (entriesOf e)).map routeOf).map (fun x => (x.net, x.pid))).Nodup := by
  have hn := h.snap.nets
  have hp := h.pids
  induction cs with
  | nil => simp
  | cons c rest ih =>
    simp only [List.map_cons, List.nodup_cons] at hn
    simp only [List.flatMap_cons, List.map_append]
    apply List.nodup_append.mpr
    refine ⟨?_, ih ⟨⟨hn.2, (List.nodup_cons.mp h.snap.ids).2, fun x hx => h.snap.nonempty x (List.mem_cons_of_mem _ hx),
        fun x hx => h.snap.flags x (List.mem_cons_of_mem _ hx)⟩, fun x hx => h.any x (List.mem_cons_of_mem _ hx),
        fun x hx => hp x (List.mem_cons_of_mem _ hx)⟩ hn.2 (fun x hx => hp x (List.mem_cons_of_mem _ hx)), ?_⟩
    · have hids := target_ids_nodup e he c.paths (hp c (List.mem_cons_self ..))
      simp only [entriesOf, List.map_map]
      have : (fun x : Route => (x.net, x.pid)) ∘ routeOf ∘ (fun t : Nat × Attrs × Option Nh => ((c.destId, t.1), (c.net, t.2.1, t.2.2))) =
          (fun w => (c.net, w)) ∘ (·.1) := by
        funext t; rfl
      rw [this, ← List.map_map]
      exact nodup_map_inj _ (fun a b hab => by simpa using hab) _ hids
    · intro k hk k' hk' heq
      subst heq
      rcases List.mem_map.mp hk with ⟨r, hr, rfl⟩
      rcases List.mem_map.mp hr with ⟨x, hx, rfl⟩
      rcases List.mem_map.mp hk' with ⟨r', hr', hkk⟩
      rcases List.mem_map.mp hr' with ⟨x', hx', rfl⟩
      simp only [entriesOf, List.mem_map] at hx
      obtain ⟨t, _, rfl⟩ := hx
      rcases List.mem_flatMap.mp hx' with ⟨c', hc', hx''⟩
      simp only [entriesOf, List.mem_map] at hx''
      obtain ⟨t', _, rfl⟩ := hx''
      simp only [routeOf, Prod.mk.injEq] at hkk
      apply hn.1
      rw [← hkk.1]; exact List.mem_map_of_mem hc'

/-- `on_established`, add-path session: the fresh session satisfies the invariant for the view of
    the snapshot -/
theorem sinv_establishA (sess : Sess) (hm : sess.max ≠ 1) (rib : Rib) (h : SnapshotA (snapshotOf sess rib)) :
    SInvA (fun _ _ => sess.exp) (viewOf (snapshotOf sess rib)) (establish sess rib) := by
  have he : sess.exp.max ≠ 1 := hm
  have hap : (sess.max != 1) = true := by simpa using hm
  have D := dinv_fold sess.exp he [] (snapshotOf sess rib) (by simpa using h) (ExportMap.empty true) [] (dinv_nil _)
  simp only [List.nil_append] at D
  generalize hr : (snapshotOf sess rib).foldl (fun (acc : ExportMap × List (SinkOp Net)) c =>
      let (m, o) := processNlriChange sess.exp c acc.1
      (m, acc.2 ++ o)) (ExportMap.empty true, []) = r at D
  have hest : establish sess rib =
      { sess := sess, map := r.1,
        pending := { addpathTx := true, buffered := dumpMsgs true r.2 ++ [.eor] } } := by
    simp only [establish, hap]
    have : (rib.flatMap (fun s => s.collect (collectLimit sess.max))) = snapshotOf sess rib := rfl
    rw [this, hr]
  rw [hest]
  generalize hcs : snapshotOf sess rib = cs at h D
  let L := cs.flatMap (entriesOf sess.exp)
  have hd := entries_routes_nodup sess.exp he cs h
  have hwf := viewOf_wf cs h.snap
  have hmb : (dumpMsgs true r.2 ++ [Msg.eor]).foldl Mirror.applyMsg [] = (L.map routeOf).foldl Mirror.set [] := by
    rw [List.foldl_append, D.msgs, plain_reach]; rfl
  have htr : (dumpMsgs true r.2 ++ [Msg.eor]).foldl Mirror.applyTracked ([], []) =
      ((L.map routeOf).foldl Mirror.set [], []) := by
    rw [List.foldl_append, D.msgs, tracked_reach _ _ _ (by simpa using hd)]
    rfl
  -- a change of the snapshot, seen through the view
  have hview : ∀ c ∈ cs, (viewOf cs).idOf c.net = some c.destId ∧ (viewOf cs).paths c.net = c.paths := by
    intro c hc
    have hx : (⟨c.net, c.destId, c.paths⟩ : VEntry) ∈ viewOf cs := List.mem_map.mpr ⟨c, hc, rfl⟩
    exact ⟨idOf_of_mem _ hwf _ hx, paths_of_mem _ hwf _ hx⟩
  have hget : ∀ net w, Mirror.get ((L.map routeOf).foldl Mirror.set []) net w =
      (Tof (fun _ _ => sess.exp) (viewOf cs) net w).map (routeAt net w) := by
    intro net w
    simp only [Tof]
    cases htl : tlookup w (target sess.exp ((viewOf cs).paths net)) with
    | some r' =>
      have hne : (viewOf cs).paths net ≠ [] := by
        intro hnil; rw [hnil, target_nil_ap _ he] at htl; cases htl
      obtain ⟨x, hx, hxn, _⟩ := paths_ne_idOf (viewOf cs) net hne
      rcases List.mem_map.mp hx with ⟨c, hc, rfl⟩
      simp only at hxn
      have hpaths := (hview c hc).2
      rw [hxn] at hpaths
      rw [hpaths] at htl
      have hmem := mem_of_tlookup _ _ _ htl
      have hentry : ((c.destId, w), (c.net, r'.1, r'.2)) ∈ L :=
        List.mem_flatMap.mpr ⟨c, hc, List.mem_map.mpr ⟨(w, r'), hmem, rfl⟩⟩
      have := get_foldl_set_some (L.map routeOf) [] _ (List.mem_map_of_mem hentry) hd
      simp only [routeOf] at this
      rw [hxn] at this
      simpa [routeAt] using this
    | none =>
      simp only [Option.map_none]
      rw [get_foldl_set_none]
      · rfl
      · intro r hr hk
        rcases List.mem_map.mp hr with ⟨x, hx, rfl⟩
        rcases List.mem_flatMap.mp hx with ⟨c, hc, hx'⟩
        simp only [entriesOf, List.mem_map] at hx'
        obtain ⟨t, ht, rfl⟩ := hx'
        simp only [routeOf] at hk
        have hpaths := (hview c hc).2
        rw [hk.1] at hpaths
        rw [hpaths, ← hk.2, tlookup_mem _ (target_ids_nodup sess.exp he c.paths (h.pids c hc)) t ht] at htl
        cases htl
  refine ⟨?_, ?_, ?_⟩
  · refine ⟨hwf, ?_, he, fun _ _ => ⟨he, fun _ => rfl⟩, ?_⟩
    · intro x hx
      rcases List.mem_map.mp hx with ⟨c, hc, rfl⟩
      exact h.pids c hc
    · simp only [mbOf]
      rw [hmb]
      refine
        { inj := ?_
          mode := ⟨D.ap, rfl⟩
          eff := ?_
          tOwn := ?_
          mapIff := ?_
          reachOwn := by intro x hx; cases hx
          unreachOwn := by intro x hx; cases hx
          reachKeys := by simp [keysNodup]
          unreachKeys := by simp [keysNodup]
          sentNodup := D.nd }
      · intro n n' d h1 h2
        obtain ⟨x, hx, hxn, hxi⟩ := idOf_some_mem _ n d h1
        obtain ⟨y, hy, hyn, hyi⟩ := idOf_some_mem _ n' d h2
        have := inj_of_nodup_map (·.id) _ hwf.2.1 hx hy (hxi.trans hyi.symm)
        rw [← hxn, ← hyn, this]
      · intro net w
        rw [← hget net w]
        simp only [effGetO, lookup, List.find?_nil, Option.map_none, wdl,
          List.contains_nil, List.any_nil, Bool.or_self, Bool.false_eq_true, if_false]
        cases (viewOf cs).idOf net <;> rfl
      · intro net w hT
        simp only [Tof] at hT
        have hne : (viewOf cs).paths net ≠ [] := by
          intro hnil; rw [hnil, target_nil_ap _ he] at hT; exact hT rfl
        obtain ⟨x, _, _, hxi⟩ := paths_ne_idOf (viewOf cs) net hne
        rw [hxi]; simp
      · intro d w
        rw [D.mapIff]
        constructor
        · rintro ⟨c, hc, hd', ht⟩
          refine ⟨c.net, by rw [(hview c hc).1, hd'], ?_⟩
          simp only [Tof]; rw [(hview c hc).2]; exact ht
        · rintro ⟨net, hid, ht⟩
          obtain ⟨x, hx, hxn, hxi⟩ := idOf_some_mem _ net d hid
          rcases List.mem_map.mp hx with ⟨c, hc, rfl⟩
          simp only at hxn hxi
          refine ⟨c, hc, hxi, ?_⟩
          simp only [Tof] at ht
          rw [← hxn, (hview c hc).2] at ht
          exact ht
  · simp only [bufOk]
    rw [htr, hmb]
  · simp only [mbOf]
    rw [hmb]
    apply mirrorOkA_foldl_set _ _ mirrorOkA_nil
    intro r hr
    rcases List.mem_map.mp hr with ⟨x, _, rfl⟩
    rfl

end Rbgp.Export.ConvA
