/-
  Rbgp.Export.Props01 — C01: every neighbour's view converges to export(Loc-RIB); no withdrawal
  is lost.  Statements only; proofs are `exact` calls into the Conv* files.

  Vocabulary.  `SessState` = export map + `PendingTx` + the neighbour's mirror Adj-RIB-In;
  `handle` = `handle_prefix_update`, `flush` = drain + encode + what the bytes do to the mirror,
  `refreshS` = `do_route_refresh`, `establish` = `on_established`, `freshDump` = what a brand-new
  session is sent.  `View` (ghost) = id and paths of the last change delivered per prefix;
  `Admissible V u` = the change `u` is one the RIB may emit when the session's view is `V`
  (ids stable and not shared, `best_changed = false` only if the best path is the same);
  `target e paths` = what export behaviour `e` advertises for a destination with these paths.
  The session-level theorems come in two forms: for sessions without add-path (`effective_max = 1`,
  wire path id 0, only the best path matters) and, suffix `_addpath`, for add-path sessions
  (`effective_max ≠ 1`: the top-N window after the per-peer filters, one wire path id per local
  path id; `AdmA V u resend` additionally says that `any_changed = false` means the same paths, that
  a path keeping its id without being reported as replaced is the same path, and that path ids are
  unique per destination).  The master theorem covers both.
-/
import Rbgp.Export.ConvMaster
import Rbgp.Export.RibIds
import Rbgp.Export.RibAdm
namespace Rbgp.Export.Props01
open Rbgp.Export Rbgp.Export.Conv Rbgp.Export.ConvA

/-! ## PendingTx -/

/-- `pending_last_writer_wins`: after any sequence of sink calls the two maps hold, per
    (dest_id, path_id) key, exactly the last call: an announcement in `reach` only, a withdrawal in
    `unreach` only -/
theorem pending_last_writer_wins (p : PendingTx) (ops : List (SinkOp Net)) (k : TxKey) :
    match lastOn p k ops with
    | none => lookup k (applyOps p ops).reach = lookup k p.reach ∧
              lookup k (applyOps p ops).unreach = lookup k p.unreach
    | some (.reach _ net _ nh as) =>
        lookup k (applyOps p ops).reach = some (net, as, nh) ∧ lookup k (applyOps p ops).unreach = none
    | some (.unreach _ net _) =>
        lookup k (applyOps p ops).reach = none ∧ lookup k (applyOps p ops).unreach = some net :=
  last_writer p ops k

/-- ... and in what `drain_messages` emits the withdrawals (stray ones included) precede the
    announcements of the incremental part -/
theorem drain_withdrawals_first (p : PendingTx) :
    (p.drain).1 = p.buffered ++
      (if p.unreach.isEmpty && p.stray.isEmpty then []
       else [Msg.unreach (p.stray ++ p.unreach.map (fun e => (e.1.2, e.2)))]) ++
      p.reach.map (fun e => Msg.reach [(e.1.2, e.2.1)] e.2.2.2 e.2.2.1) ++
      (if p.pendingEor then [Msg.eor] else []) := drain_shape p

/-- the repaired S31: a withdrawal queued for one prefix is not lost when another prefix re-uses the
    destination id (same key) before the flush; it moves to `stray_unreach` -/
theorem withdrawal_survives_id_reuse (p : PendingTx) (d : Nat) (net old : Net) (pid : Nat)
    (nh : Option Nh) (as : Attrs) (h : lookup (p.key d pid) p.unreach = some old) (hne : old ≠ net) :
    ((p.key d pid).2, old) ∈ (p.doReach d net pid nh as).stray :=
  Conv.withdrawal_survives_id_reuse p d net old pid nh as h hne

/-! ## destid_stable (RIB model: `Table::insert`, `Table::remove`) -/

/-- the empty table is consistent (prefixes distinct, ids distinct, `used` = the ids in use) -/
theorem destid_stable_init (idx : Nat) : RibIds.ShardOk { idx := idx } := RibIds.init_ok idx

/-- insertion keeps the table consistent, so a new prefix gets an id no other prefix holds (lowest
    free), and every prefix already present keeps its id -/
theorem destid_stable_insert (s : Shard) (h : RibIds.ShardOk s) (hroom : s.used.length + 1 < 16777216)
    (net : Net) (srcIdx : Nat) (src : Source) (rpid : Nat) (nh : Option Nh) (attrs : Attrs) (aid : Nat)
    (filtered nhInvalid : Bool) :
    RibIds.ShardOk (s.insert net srcIdx src rpid nh attrs aid filtered nhInvalid).1 ∧
    (∀ d ∈ s.dests, ∃ d' ∈ (s.insert net srcIdx src rpid nh attrs aid filtered nhInvalid).1.dests,
       d'.net = d.net ∧ d'.id = d.id) :=
  RibIds.insert_ok s h hroom net srcIdx src rpid nh attrs aid filtered nhInvalid

/-- a withdrawal keeps the table consistent and touches no other prefix; the prefix keeps its id, or
    the id is released and the emitted change names that id and carries no paths (no change at all
    when the last path, the one withdrawn, was hidden by the import policy) -/
theorem destid_stable_remove (s : Shard) (h : RibIds.ShardOk s) (net : Net) (src : Source) (rpid : Nat) :
    RibIds.ShardOk (s.remove net src rpid).1 ∧
    (∀ d ∈ s.dests, d.net ≠ net → d ∈ (s.remove net src rpid).1.dests) ∧
    (∀ d ∈ s.dests, d.net = net →
       (∃ d' ∈ (s.remove net src rpid).1.dests, d'.net = net ∧ d'.id = d.id) ∨
       (s.remove net src rpid).2 = none ∨
       (∃ ch, (s.remove net src rpid).2 = some ch ∧ ch.net = net ∧ ch.destId = d.id ∧ ch.paths = [])) :=
  RibIds.remove_ok s h net src rpid

/-- a peer going down keeps the table consistent; a prefix that keeps paths keeps its id; an id is
    released only for a prefix that lost all its paths; every emitted change names the id of its
    prefix, and the change for a prefix that is gone carries no paths -/
theorem destid_stable_drop (s : Shard) (h : RibIds.ShardOk s) (addr : Addr) :
    RibIds.ShardOk (s.drop addr).1 ∧
    (∀ d' ∈ (s.drop addr).1.dests, ∃ d ∈ s.dests, d'.net = d.net ∧ d'.id = d.id) ∧
    (∀ d ∈ s.dests, (dropDest addr d).1 ≠ none → ∃ d' ∈ (s.drop addr).1.dests, d'.net = d.net ∧ d'.id = d.id) ∧
    (∀ ch ∈ (s.drop addr).2, ∃ d ∈ s.dests, ch.net = d.net ∧ ch.destId = d.id ∧
       ((∀ d' ∈ (s.drop addr).1.dests, d'.net ≠ d.net) → ch.paths = [])) :=
  RibIds.drop_ok s h addr

/-! ## what the RIB model guarantees about the changes it emits (the id part of admissibility)

    `Admissible` / `AdmA` are hypotheses of the session theorems below and `okRun` evaluates them
    along every run.  Their two id conditions (the id of a change belongs to its prefix and to no other
    prefix) follow from the RIB model; the three conditions relating flags and paths to the previous
    change (`bestSame`, `anySame`, `pidSame`), "the session's view lags the RIB by the queued changes"
    and "view = RIB snapshot at a quiet point" remain hypotheses evaluated along the run. -/

theorem insert_change_id_admissible (s : Shard) (h : RibIds.ShardOk s) (hroom : s.used.length + 1 < 16777216)
    (net : Net) (srcIdx : Nat) (src : Source) (rpid : Nat) (nh : Option Nh) (attrs : Attrs) (aid : Nat)
    (filtered nhInvalid : Bool) (u : Change Net)
    (hu : (s.insert net srcIdx src rpid nh attrs aid filtered nhInvalid).2 = some u) :
    RibAdm.IdAdm (RibAdm.idView s) u :=
  RibAdm.insert_idAdm s h hroom net srcIdx src rpid nh attrs aid filtered nhInvalid u hu

theorem remove_change_id_admissible (s : Shard) (h : RibIds.ShardOk s) (net : Net) (src : Source) (rpid : Nat)
    (u : Change Net) (hu : (s.remove net src rpid).2 = some u) : RibAdm.IdAdm (RibAdm.idView s) u :=
  RibAdm.remove_idAdm s h net src rpid u hu

theorem drop_change_id_admissible (s : Shard) (h : RibIds.ShardOk s) (addr : Addr) (u : Change Net)
    (hu : u ∈ (s.drop addr).2) : RibAdm.IdAdm (RibAdm.idView s) u :=
  RibAdm.drop_idAdm s h addr u hu

/-! ## export_invariant: every step of an established session keeps `SInv` -/

theorem export_invariant_establish (sess : Sess) (hm : sess.max = 1) (rib : Rib)
    (h : Snapshot (snapshotOf sess rib)) :
    SInv (fun _ => sess.exp) (viewOf (snapshotOf sess rib)) (establish sess rib) :=
  sinv_establish sess hm rib h

theorem export_invariant_deliver {E : Net → Exp} {V : View} {st : SessState} (S : SInv E V st)
    (u : Change Net) (ha : Admissible V u) (resend : Bool) :
    SInv (stepE E u st.sess.exp) (V.update u.net u.destId u.paths) (st.handle u resend) :=
  sinv_handle' S u ha resend

theorem export_invariant_flush {E : Net → Exp} {V : View} {st : SessState} (S : SInv E V st) :
    SInv E V st.flush := sinv_flush S

theorem export_invariant_soft_reset {E : Net → Exp} {V : View} {st : SessState} (S : SInv E V st)
    (cs : List (Change Net)) (hm : SnapMatches V cs) :
    SInv (refreshE E cs st.sess.exp) (viewRefresh V cs) (refreshS st cs) := sinv_refresh S cs hm

/-- what the invariant says once flushed: the mirror holds exactly the export of the view -/
theorem export_invariant_meaning {E : Net → Exp} {V : View} {st : SessState} (S : SInv E V st) (net : Net) :
    Mirror.get st.flush.mirror net 0 = wantRoute (E net) V net 0 := converged S net

/-! ## convergence and withdraw_on_wire -/

theorem convergence (sess : Sess) (hm : sess.max = 1) (rib0 : Rib) (h0 : Snapshot (snapshotOf sess rib0))
    (evs : List SEv) (hadm : AdmSeq (viewOf (snapshotOf sess rib0)) evs)
    (hfresh : staleAfter false evs = false) (net : Net) :
    Mirror.get (runS (establish sess rib0) evs).flush.mirror net 0 =
      wantRoute (runS (establish sess rib0) evs).sess.exp (viewAfter (viewOf (snapshotOf sess rib0)) evs) net 0 :=
  Conv.convergence sess hm rib0 h0 evs hadm hfresh net

theorem convergence_vs_fresh_dump (sess : Sess) (hm : sess.max = 1) (rib0 rib : Rib)
    (h0 : Snapshot (snapshotOf sess rib0))
    (evs : List SEv) (hadm : AdmSeq (viewOf (snapshotOf sess rib0)) evs)
    (hfresh : staleAfter false evs = false)
    (h1 : Snapshot (snapshotOf (runS (establish sess rib0) evs).sess rib))
    (hview : ∀ net, ((viewAfter (viewOf (snapshotOf sess rib0)) evs).paths net).head? =
                    ((viewOf (snapshotOf (runS (establish sess rib0) evs).sess rib)).paths net).head?)
    (net : Net) :
    Mirror.get (runS (establish sess rib0) evs).flush.mirror net 0 =
      Mirror.get (freshDump (runS (establish sess rib0) evs).sess rib) net 0 :=
  convergence_vs_dump sess hm rib0 rib h0 evs hadm hfresh h1 hview net

theorem withdraw_on_wire (sess : Sess) (hm : sess.max = 1) (rib0 : Rib) (h0 : Snapshot (snapshotOf sess rib0))
    (evs : List SEv) (hadm : AdmSeq (viewOf (snapshotOf sess rib0)) evs)
    (hfresh : staleAfter false evs = false) (net : Net)
    (hgone : target (runS (establish sess rib0) evs).sess.exp
               ((viewAfter (viewOf (snapshotOf sess rib0)) evs).paths net) = []) :
    Mirror.get (runS (establish sess rib0) evs).flush.mirror net 0 = none :=
  Conv.withdraw_on_wire sess hm rib0 h0 evs hadm hfresh net hgone

/-! ## the same for add-path sessions (top-N window) -/

theorem export_invariant_establish_addpath (sess : Sess) (hm : sess.max ≠ 1) (rib : Rib)
    (h : SnapshotA (snapshotOf sess rib)) :
    SInvA (fun _ _ => sess.exp) (viewOf (snapshotOf sess rib)) (establish sess rib) :=
  sinv_establishA sess hm rib h

theorem export_invariant_deliver_addpath {E : Net → Nat → Exp} {V : View} {st : SessState} (S : SInvA E V st)
    (u : Change Net) (resend : Bool) (ha : AdmA V u resend) :
    SInvA (stepEA E V u st.sess.exp resend) (V.update u.net u.destId u.paths) (st.handle u resend) :=
  sinv_handleA S u resend ha

theorem export_invariant_flush_addpath {E : Net → Nat → Exp} {V : View} {st : SessState} (S : SInvA E V st) :
    SInvA E V st.flush := sinv_flushA S

theorem export_invariant_soft_reset_addpath {E : Net → Nat → Exp} {V : View} {st : SessState} (S : SInvA E V st)
    (cs : List (Change Net)) (hm : SnapMatchesA V cs) :
    SInvA (refreshEA E cs st.sess.exp) (viewRefresh V cs) (refreshS st cs) := sinv_refreshA S cs hm

/-- what the invariant says once flushed: for every prefix and path id the mirror holds exactly the
    export of the view's window -/
theorem export_invariant_meaning_addpath {E : Net → Nat → Exp} {V : View} {st : SessState} (S : SInvA E V st)
    (net : Net) (w : Nat) : Mirror.get st.flush.mirror net w = wantA E V net w := convergedA S net w

theorem convergence_addpath (sess : Sess) (hm : sess.max ≠ 1) (rib0 : Rib) (h0 : SnapshotA (snapshotOf sess rib0))
    (evs : List SEv) (hadm : AdmSeqA (viewOf (snapshotOf sess rib0)) evs)
    (hfresh : staleAfter false evs = false) (net : Net) (w : Nat) :
    Mirror.get (runS (establish sess rib0) evs).flush.mirror net w =
      wantRouteA (runS (establish sess rib0) evs).sess.exp (viewAfter (viewOf (snapshotOf sess rib0)) evs) net w :=
  convergenceA sess hm rib0 h0 evs hadm hfresh net w

/-- against the fresh dump: if the paths last delivered are the RIB's visible paths, the neighbour's
    view is, path id by path id, what a brand-new session with the current policy would be sent -/
theorem convergence_vs_fresh_dump_addpath (sess : Sess) (hm : sess.max ≠ 1) (rib0 rib : Rib)
    (h0 : SnapshotA (snapshotOf sess rib0))
    (evs : List SEv) (hadm : AdmSeqA (viewOf (snapshotOf sess rib0)) evs)
    (hfresh : staleAfter false evs = false)
    (hmax : (runS (establish sess rib0) evs).sess.max ≠ 1)
    (h1 : SnapshotA (snapshotOf (runS (establish sess rib0) evs).sess rib))
    (hview : ∀ net, (viewAfter (viewOf (snapshotOf sess rib0)) evs).paths net =
                    (viewOf (snapshotOf (runS (establish sess rib0) evs).sess rib)).paths net)
    (net : Net) (w : Nat) :
    Mirror.get (runS (establish sess rib0) evs).flush.mirror net w =
      Mirror.get (freshDump (runS (establish sess rib0) evs).sess rib) net w := by
  rw [convergenceA sess hm rib0 h0 evs hadm hfresh net w, fresh_dumpA _ hmax rib h1 net w]
  simp only [wantRouteA, hview net]

/-- `withdraw_on_wire`, add-path: a path id that is not (any more) in the exported window of the last
    delivered paths is absent from the neighbour's view after the next flush -/
theorem withdraw_on_wire_addpath (sess : Sess) (hm : sess.max ≠ 1) (rib0 : Rib) (h0 : SnapshotA (snapshotOf sess rib0))
    (evs : List SEv) (hadm : AdmSeqA (viewOf (snapshotOf sess rib0)) evs)
    (hfresh : staleAfter false evs = false) (net : Net) (w : Nat)
    (hgone : tlookup w (target (runS (establish sess rib0) evs).sess.exp
               ((viewAfter (viewOf (snapshotOf sess rib0)) evs).paths net)) = none) :
    Mirror.get (runS (establish sess rib0) evs).flush.mirror net w = none := by
  rw [convergenceA sess hm rib0 h0 evs hadm hfresh net w]
  simp [wantRouteA, hgone]

/-! ## master theorem over the composed model -/

/-- The C01 reference checker accepts every run of the composed model (RIB, change queue, session,
    flushes, fresh dump) whose computed hypotheses hold: `Conv.okRun c` = no LLGR stale period starts,
    every delivered change is admissible for the session's view (in the session's mode, with or
    without add-path), every soft reset walks a snapshot of the view's destinations, no policy change
    is left without its soft reset, and — at every flush that leaves the channel empty and at the end of
    the history, which are the points the checker judges — the RIB snapshot is consistent, carries the
    view's paths (best paths for a session without add-path) and only announced prefixes.  `okRun` is a
    hypothesis evaluated along the run, not derived from the RIB model (only its id part is: see
    `*_change_id_admissible`); the driver evaluates it on every generated case and reports in-order
    histories without LLGR period on which it fails. -/
theorem check_run_ok (c : Case01) (h : Conv.okRun c = true) : Spec01.check c (run01 c) = .ok :=
  Conv.check_run_ok c h

/-- the full-strength statement: every history, every schedule, every configuration -/
def C01_full : Prop := ∀ c : Case01, Spec01.check c (run01 c) = .ok

def ebgpSrc : Source := ⟨.peer, .v4 167772162, 65002, 65001, 33686018, .ebgp, false⟩
def nbr (mx : Nat) : Sess := ⟨⟨.ebgp, 65001, .v4 167772417, none, 0⟩, .v4 167772161, none, none, .ipv4, mx⟩
def as0 : Attrs := [.val 1 0, .aspath [(2, [65010])]]
def as2 : Attrs := [.val 1 2, .aspath [(2, [65010])]]

/-- S31's history (a freed destination id is re-used before the flush) -/
def caseReuse : Case01 :=
  { shards := 1, sess := nbr 1, srcs := [ebgpSrc], pfxs := [((167837696, 24), 0), ((167837952, 24), 0)],
    asets := [as0], pols := [], pre := [],
    ops := [.ann 0 0 0 0 (.v4 167772418), .deliver 1, .flush, .wd 0 0 0, .ann 0 1 0 0 (.v4 167772418),
            .deliver 2, .flush] }

/-- non-vacuity of the master theorem: the repaired model converges on the id re-use history, and the
    hypothesis is computed, not assumed -/
example : Conv.okRun caseReuse = true := by decide
example : (run01 caseReuse).reuse = 1 := by decide
example : Spec01.check caseReuse (run01 caseReuse) = .ok := check_run_ok caseReuse (by decide)

/-- an add-path neighbour (send-max 2), two sources: the non-best path is replaced, then withdrawn -/
def caseAddPath : Case01 :=
  { shards := 1, sess := nbr 2, srcs := [ebgpSrc, { ebgpSrc with addr := .v4 167772163, routerId := 50529027 }],
    pfxs := [((167837696, 24), 0)], asets := [as0, as2], pols := [], pre := [],
    ops := [.ann 0 0 0 0 (.v4 167772418), .ann 1 0 0 1 (.v4 167772418), .deliver 2, .flush,
            .ann 1 0 0 0 (.v4 167772419), .deliver 1, .flush, .wd 1 0 0, .deliver 1, .flush] }

example : Conv.okRun caseAddPath = true := by decide
example : Spec01.check caseAddPath (run01 caseAddPath) = .ok := check_run_ok caseAddPath (by decide)

/-- S36's history (open finding): a soft reset re-walks the RIB while the withdrawal of 10.1.0.0/24 is
    still queued; its destination id was re-used by 10.1.1.0/24, which the new policy rejects -/
def caseOvertake : Case01 :=
  { shards := 1, sess := nbr 1, srcs := [ebgpSrc], pfxs := [((167837696, 24), 0), ((167837952, 24), 0)],
    asets := [as2, as0],
    pols := [some { cond := some 0, nh := none, med := none, comm := [], disp := .reject, dflt := .accept }],
    pre := [.ann 0 0 0 0 (.v4 167772418)],
    ops := [.reset (some 0), .wd 0 0 0, .ann 0 1 0 1 (.v4 167772418), .deliver 1] }

/-- the model of the current code does not satisfy the full-strength statement: the neighbour keeps
    10.1.0.0/24, a brand-new session is sent nothing -/
theorem C01_full_fails : ¬ C01_full := by
  intro h
  have := h caseOvertake
  revert this
  decide

/-- the hypothesis of the master theorem does exclude that history -/
example : Conv.okRun caseOvertake = false := by decide
example : (run01 caseOvertake).overtaken = 1 := by decide

#print axioms destid_stable_insert
#print axioms destid_stable_remove
#print axioms destid_stable_drop
#print axioms insert_change_id_admissible
#print axioms remove_change_id_admissible
#print axioms drop_change_id_admissible
#print axioms export_invariant_establish_addpath
#print axioms export_invariant_deliver_addpath
#print axioms export_invariant_flush_addpath
#print axioms export_invariant_soft_reset_addpath
#print axioms convergence_addpath
#print axioms convergence_vs_fresh_dump_addpath
#print axioms withdraw_on_wire_addpath
#print axioms check_run_ok
#print axioms C01_full_fails
#print axioms pending_last_writer_wins
#print axioms withdrawal_survives_id_reuse
#print axioms export_invariant_establish
#print axioms export_invariant_deliver
#print axioms export_invariant_flush
#print axioms export_invariant_soft_reset
#print axioms convergence
#print axioms convergence_vs_fresh_dump
#print axioms withdraw_on_wire

end Rbgp.Export.Props01
