/-
  Rbgp.Export.Props01 — C01: every neighbour's view converges to export(Loc-RIB); no withdrawal
  is lost.  Statements only; proofs are `exact` calls into the Conv* files.

  Vocabulary.  `SessState` = export map + `PendingTx` + the neighbour's mirror Adj-RIB-In;
  `handle` = `handle_prefix_update`, `flush` = drain + encode + what the bytes do to the mirror,
  `refreshS` = `do_route_refresh`, `establish` = `on_established`, `freshDump` = what a brand-new
  session is sent.  `View` (ghost) = id and paths of the last change delivered per prefix;
  `Admissible V u` = the change `u` is one the RIB may emit when the session's view is `V`
  (ids stable and not shared, `best_changed = false` only if the best path is the same);
  `target e paths` = what export behaviour `e` advertises for a destination with these paths.
  The session-level theorems are for sessions without add-path (`effective_max = 1`); the add-path
  branch is covered by the correspondence stream only.
-/
import Rbgp.Export.ConvHistory
namespace Rbgp.Export.Props01
open Rbgp.Export Rbgp.Export.Conv

/-! ## PendingTx -/

/-- `pending_last_writer_wins`: after any sequence of sink calls the two maps hold, per
    (dest_id, path_id) key, exactly the last call: an announcement in `reach` only, a withdrawal in
    `unreach` only -/
theorem pending_last_writer_wins (p : PendingTx) (ops : List (SinkOp Net)) (k : TxKey) :
    match lastOn p k ops with
    | none => lookup k (applyOps p ops).reach = lookup k p.reach ∧
              lookup k (applyOps p ops).unreach = lookup k p.unreach
    | some (.reach _ net _ nh as) =>
        lookup k (applyOps p ops).reach = some (net, as, nh) ∧ lookup k (applyOps p ops).unreach = none
    | some (.unreach _ net _) =>
        lookup k (applyOps p ops).reach = none ∧ lookup k (applyOps p ops).unreach = some net :=
  last_writer p ops k

/-- ... and in what `drain_messages` emits the withdrawals (stray ones included) precede the
    announcements of the incremental part -/
theorem drain_withdrawals_first (p : PendingTx) :
    (p.drain).1 = p.buffered ++
      (if p.unreach.isEmpty && p.stray.isEmpty then []
       else [Msg.unreach (p.stray ++ p.unreach.map (fun e => (e.1.2, e.2)))]) ++
      p.reach.map (fun e => Msg.reach [(e.1.2, e.2.1)] e.2.2.2 e.2.2.1) ++
      (if p.pendingEor then [Msg.eor] else []) := drain_shape p

/-- the repaired S31: a withdrawal queued for one prefix is not lost when another prefix re-uses the
    destination id (same key) before the flush; it moves to `stray_unreach` -/
theorem withdrawal_survives_id_reuse (p : PendingTx) (d : Nat) (net old : Net) (pid : Nat)
    (nh : Option Nh) (as : Attrs) (h : lookup (p.key d pid) p.unreach = some old) (hne : old ≠ net) :
    ((p.key d pid).2, old) ∈ (p.doReach d net pid nh as).stray :=
  Conv.withdrawal_survives_id_reuse p d net old pid nh as h hne

/-! ## export_invariant: every step of an established session keeps `SInv` -/

theorem export_invariant_establish (sess : Sess) (hm : sess.max = 1) (rib : Rib)
    (h : Snapshot (snapshotOf sess rib)) :
    SInv (fun _ => sess.exp) (viewOf (snapshotOf sess rib)) (establish sess rib) :=
  sinv_establish sess hm rib h

theorem export_invariant_deliver {E : Net → Exp} {V : View} {st : SessState} (S : SInv E V st)
    (u : Change Net) (ha : Admissible V u) (resend : Bool) :
    SInv (stepE E u st.sess.exp) (V.update u.net u.destId u.paths) (st.handle u resend) :=
  sinv_handle' S u ha resend

theorem export_invariant_flush {E : Net → Exp} {V : View} {st : SessState} (S : SInv E V st) :
    SInv E V st.flush := sinv_flush S

theorem export_invariant_soft_reset {E : Net → Exp} {V : View} {st : SessState} (S : SInv E V st)
    (cs : List (Change Net)) (hm : SnapMatches V cs) :
    SInv (refreshE E cs st.sess.exp) (viewRefresh V cs) (refreshS st cs) := sinv_refresh S cs hm

/-- what the invariant says once flushed: the mirror holds exactly the export of the view -/
theorem export_invariant_meaning {E : Net → Exp} {V : View} {st : SessState} (S : SInv E V st) (net : Net) :
    Mirror.get st.flush.mirror net 0 = wantRoute (E net) V net 0 := converged S net

/-! ## convergence and withdraw_on_wire -/

theorem convergence (sess : Sess) (hm : sess.max = 1) (rib0 : Rib) (h0 : Snapshot (snapshotOf sess rib0))
    (evs : List SEv) (hadm : AdmSeq (viewOf (snapshotOf sess rib0)) evs)
    (hfresh : staleAfter false evs = false) (net : Net) :
    Mirror.get (runS (establish sess rib0) evs).flush.mirror net 0 =
      wantRoute (runS (establish sess rib0) evs).sess.exp (viewAfter (viewOf (snapshotOf sess rib0)) evs) net 0 :=
  Conv.convergence sess hm rib0 h0 evs hadm hfresh net

theorem convergence_vs_fresh_dump (sess : Sess) (hm : sess.max = 1) (rib0 rib : Rib)
    (h0 : Snapshot (snapshotOf sess rib0))
    (evs : List SEv) (hadm : AdmSeq (viewOf (snapshotOf sess rib0)) evs)
    (hfresh : staleAfter false evs = false)
    (h1 : Snapshot (snapshotOf (runS (establish sess rib0) evs).sess rib))
    (hview : ∀ net, ((viewAfter (viewOf (snapshotOf sess rib0)) evs).paths net).head? =
                    ((viewOf (snapshotOf (runS (establish sess rib0) evs).sess rib)).paths net).head?)
    (net : Net) :
    Mirror.get (runS (establish sess rib0) evs).flush.mirror net 0 =
      Mirror.get (freshDump (runS (establish sess rib0) evs).sess rib) net 0 :=
  convergence_vs_dump sess hm rib0 rib h0 evs hadm hfresh h1 hview net

theorem withdraw_on_wire (sess : Sess) (hm : sess.max = 1) (rib0 : Rib) (h0 : Snapshot (snapshotOf sess rib0))
    (evs : List SEv) (hadm : AdmSeq (viewOf (snapshotOf sess rib0)) evs)
    (hfresh : staleAfter false evs = false) (net : Net)
    (hgone : target (runS (establish sess rib0) evs).sess.exp
               ((viewAfter (viewOf (snapshotOf sess rib0)) evs).paths net) = []) :
    Mirror.get (runS (establish sess rib0) evs).flush.mirror net 0 = none :=
  Conv.withdraw_on_wire sess hm rib0 h0 evs hadm hfresh net hgone

#print axioms pending_last_writer_wins
#print axioms withdrawal_survives_id_reuse
#print axioms export_invariant_establish
#print axioms export_invariant_deliver
#print axioms export_invariant_flush
#print axioms export_invariant_soft_reset
#print axioms convergence
#print axioms convergence_vs_fresh_dump
#print axioms withdraw_on_wire

end Rbgp.Export.Props01
