/-
  Rbgp.Export.ConvSession — C01, part 5: the invariant at the level of `SessState`
  (`handle_prefix_update`, flush, `on_established`), and convergence.
-/
import Rbgp.Export.ConvHandle
namespace Rbgp.Export.Conv
open Rbgp.Export

/-- mirror once the buffered initial dump has been written -/
def mbOf (st : SessState) : Mirror := st.pending.buffered.foldl Mirror.applyMsg st.mirror

/-- session-level invariant: `Inv` on the parts of the state + the buffered dump is unambiguous -/
structure SInv (E : Net → Exp) (V : View) (st : SessState) : Prop where
  inv : Inv E V st.map st.pending (mbOf st)
  buf : bufOk st.mirror st.pending.buffered
  plain : st.sess.max = 1
  mok : MirrorOk (mbOf st)

theorem exp_max (s : Sess) : s.exp.max = s.max := rfl

theorem buffered_applyOps (p : PendingTx) (ops : List (SinkOp Net)) : (applyOps p ops).buffered = p.buffered := by
  induction ops generalizing p with
  | nil => rfl
  | cons o rest ih =>
    simp only [applyOps, List.foldl_cons] at ih ⊢
    rw [ih]; cases o <;> rfl

/-- `export_invariant` (delivery): `handle_prefix_update` of an admissible change -/
theorem sinv_handle {E : Net → Exp} {V : View} {st : SessState} (S : SInv E V st) (u : Change Net)
    (ha : Admissible V u) (resend : Bool) (hE : u.bestChanged = false → st.sess.exp = E u.net) :
    SInv (setE E u.net st.sess.exp) (V.update u.net u.destId u.paths) (st.handle u resend) := by
  have hI := inv_handle S.inv u ha st.sess.exp (by rw [exp_max]; exact S.plain) resend hE
  refine ⟨?_, ?_, S.plain, ?_⟩
  · simp only [SessState.handle, mbOf, buffered_applyOps]
    exact hI
  · simp only [SessState.handle, buffered_applyOps]; exact S.buf
  · simp only [SessState.handle, mbOf, buffered_applyOps]; exact S.mok

/-- `export_invariant` (flush) -/
theorem sinv_flush {E : Net → Exp} {V : View} {st : SessState} (S : SInv E V st) : SInv E V st.flush := by
  have hg := flush_get st.mirror S.inv S.buf
  obtain ⟨hma, hpa, hEm⟩ := S.inv.mode
  refine ⟨?_, bufOk_nil _, S.plain, ?_⟩
  rotate_left
  · have := flush_mirrorOk st.mirror S.inv S.buf S.mok
    simpa [SessState.flush, mbOf, PendingTx.drain] using this
  simp only [SessState.flush, PendingTx.drain, mbOf, List.foldl_nil]
  refine
    { vwf := S.inv.vwf
      mode := ⟨hma, hpa, hEm⟩
      eff := ?_
      mapIff := S.inv.mapIff
      reachOwn := by intro x hx; cases hx
      unreachOwn := by intro x hx; cases hx
      strayZero := by intro x hx; cases hx
      reachKeys := by simp [keysNodup]
      unreachKeys := by simp [keysNodup]
      sentNodup := S.inv.sentNodup }
  intro net
  have h1 := S.inv.eff net
  have h2 := hg net
  simp only [mbOf] at h1
  rw [← h1, ← h2]
  simp only [effGet, lookup, List.find?_nil, Option.map_none, wdl,
    List.contains_nil, List.any_nil, Bool.or_self, Bool.false_eq_true, if_false, PendingTx.drain]
  cases V.idOf net <;> rfl

/-- `convergence`, session level: with nothing pending, the mirror holds exactly what the view's
    paths export to -/
theorem converged {E : Net → Exp} {V : View} {st : SessState} (S : SInv E V st) (net : Net) :
    Mirror.get st.flush.mirror net 0 = wantRoute (E net) V net 0 := by
  have hg := flush_get st.mirror S.inv S.buf net
  have h1 := S.inv.eff net
  simp only [mbOf] at h1
  rw [← h1, ← hg]
  simp [SessState.flush]

/-- `withdraw_on_wire`: a prefix whose current paths export to nothing is absent from the neighbour's
    view after the next flush, whatever was advertised or pending before -/
theorem withdrawn_after_flush {E : Net → Exp} {V : View} {st : SessState} (S : SInv E V st) (net : Net)
    (h : target (E net) (V.paths net) = []) : Mirror.get st.flush.mirror net 0 = none := by
  rw [converged S net]; simp [wantRoute, h, tlookup]

/-! ## `on_established`: the dump of a snapshot -/

/-- what `collect_loc_rib_paths_limited` yields over a consistent RIB: one change per destination,
    distinct prefixes, distinct ids, at least one path, everything flagged as changed -/
structure Snapshot (cs : List (Change Net)) : Prop where
  nets : (cs.map (·.net)).Nodup
  ids : (cs.map (·.destId)).Nodup
  nonempty : ∀ c ∈ cs, c.paths ≠ []
  flags : ∀ c ∈ cs, c.bestChanged = true

def viewOf (cs : List (Change Net)) : View := cs.map (fun c => ⟨c.net, c.destId, c.paths⟩)

theorem viewOf_wf (cs : List (Change Net)) (h : Snapshot cs) : (viewOf cs).wf := by
  refine ⟨by simpa [viewOf, Function.comp_def] using h.nets, by simpa [viewOf, Function.comp_def] using h.ids, ?_⟩
  intro x hx
  rcases List.mem_map.mp hx with ⟨c, hc, rfl⟩
  exact h.nonempty c hc

/-- a change of a snapshot is admissible for the view of the changes before it -/
theorem snapshot_admissible (pre : List (Change Net)) (c : Change Net) (post : List (Change Net))
    (h : Snapshot (pre ++ c :: post)) : Admissible (viewOf pre) c := by
  have hn := h.nets
  have hi := h.ids
  simp only [List.map_append, List.map_cons] at hn hi
  have hn' : c.net ∉ pre.map (·.net) := by
    intro hm
    exact (List.nodup_append.mp hn).2.2 _ hm _ (List.mem_cons_self ..) rfl
  have hi' : c.destId ∉ pre.map (·.destId) := by
    intro hm
    exact (List.nodup_append.mp hi).2.2 _ hm _ (List.mem_cons_self ..) rfl
  have hpaths : (viewOf pre).paths c.net = [] := by
    simp only [View.paths, View.find, viewOf]
    have : List.find? (fun x => decide (x.net = c.net)) (pre.map (fun c => (⟨c.net, c.destId, c.paths⟩ : VEntry))) = none := by
      rw [List.find?_eq_none]
      intro x hx
      rcases List.mem_map.mp hx with ⟨c', hc', rfl⟩
      simp only [decide_eq_true_eq]
      intro heq; apply hn'; rw [← heq]; exact List.mem_map_of_mem hc'
    simp [this]
  have hf := (h.flags c (by simp))
  refine ⟨?_, ?_, ?_⟩
  · intro x hx hxi
    rcases List.mem_map.mp hx with ⟨c', hc', rfl⟩
    exact absurd (by simp only at hxi; rw [← hxi]; exact List.mem_map_of_mem hc') hi'
  · intro x hx hxn
    rcases List.mem_map.mp hx with ⟨c', hc', rfl⟩
    exact absurd (by simp only at hxn; rw [← hxn]; exact List.mem_map_of_mem hc') hn'
  · intro hb; rw [hf] at hb; cases hb

theorem viewOf_snoc (pre : List (Change Net)) (c : Change Net) (hn : c.net ∉ pre.map (·.net)) (hp : c.paths ≠ []) :
    (viewOf pre).update c.net c.destId c.paths = viewOf (pre ++ [c]) := by
  simp only [View.update, viewOf, List.map_append, List.map_cons, List.map_nil]
  have hfil : List.filter (fun x => decide (x.net ≠ c.net)) (pre.map (fun c => (⟨c.net, c.destId, c.paths⟩ : VEntry))) =
      pre.map (fun c => (⟨c.net, c.destId, c.paths⟩ : VEntry)) := by
    rw [List.filter_eq_self]
    intro x hx
    rcases List.mem_map.mp hx with ⟨c', hc', rfl⟩
    simp only [ne_eq, decide_eq_true_eq]
    intro heq; apply hn; rw [← heq]; exact List.mem_map_of_mem hc'
  rw [hfil]
  cases hps : c.paths with
  | nil => exact absurd hps hp
  | cons a rest => simp

/-- the empty pending queue of a session without add-path -/
def pE : PendingTx := { addpathTx := false }

theorem inv_empty (E : Net → Exp) (hE : ∀ net, (E net).max = 1) : Inv E [] (ExportMap.empty false) pE [] := by
  refine
    { vwf := ⟨by simp, by simp, by intro x hx; cases hx⟩
      mode := ⟨rfl, rfl, hE⟩
      eff := ?_
      mapIff := ?_
      reachOwn := by intro x hx; cases hx
      unreachOwn := by intro x hx; cases hx
      strayZero := by intro x hx; cases hx
      reachKeys := by simp [keysNodup, pE]
      unreachKeys := by simp [keysNodup, pE]
      sentNodup := by simp [ExportMap.empty] }
  · intro net
    simp [effGet, wantRoute, View.idOf, View.find, View.paths, wdl, pE, Mirror.get, target, hE net, tlookup]
  · intro d w
    simp [ExportMap.empty]

theorem applyOps_append (p : PendingTx) (a b : List (SinkOp Net)) :
    applyOps p (a ++ b) = applyOps (applyOps p a) b := by simp [applyOps, List.foldl_append]

/-- the fold of `on_established` over a snapshot, as a state of the invariant -/
theorem dump_inv (e : Exp) (he : e.max = 1) (pre cs : List (Change Net)) (h : Snapshot (pre ++ cs))
    (m : ExportMap) (ops : List (SinkOp Net))
    (I : Inv (fun _ => e) (viewOf pre) m (applyOps pE ops) []) :
    let r := cs.foldl (fun (acc : ExportMap × List (SinkOp Net)) c =>
      let (m, o) := processNlriChange e c acc.1
      (m, acc.2 ++ o)) (m, ops)
    Inv (fun _ => e) (viewOf (pre ++ cs)) r.1 (applyOps pE r.2) [] := by
  induction cs generalizing pre m ops with
  | nil => simpa using I
  | cons c rest ih =>
    simp only [List.foldl_cons]
    have hadm := snapshot_admissible pre c rest h
    have hstep := inv_handle I c hadm e he false (fun hb => by
      have := (h.flags c (by simp)); rw [this] at hb)
    have hsetE : setE (fun _ => e) c.net e = (fun _ => e) := by
      funext n; simp [setE]
    have hn' : c.net ∉ pre.map (·.net) := by
      intro hm
      have hn := h.nets
      simp only [List.map_append, List.map_cons] at hn
      exact (List.nodup_append.mp hn).2.2 _ hm _ (List.mem_cons_self ..) rfl
    rw [hsetE, viewOf_snoc pre c hn' (h.nonempty c (by simp)), ← applyOps_append] at hstep
    have h' : Snapshot ((pre ++ [c]) ++ rest) := by simpa [List.append_assoc] using h
    have := ih (pre ++ [c]) h' _ _ hstep
    simpa [List.append_assoc] using this

theorem plain_reach (l : List (TxKey × (Net × Attrs × Option Nh))) (M : Mirror) :
    (l.map reachMsg).foldl Mirror.applyMsg M = (l.map routeOf).foldl Mirror.set M := by
  induction l generalizing M with
  | nil => rfl
  | cons x rest ih =>
    simp only [List.map_cons, List.foldl_cons]
    rw [← ih]
    rfl

theorem dumpMsgs_append (ap : Bool) (a b : List (SinkOp Net)) :
    dumpMsgs ap (a ++ b) = dumpMsgs ap a ++ dumpMsgs ap b := by
  simp [dumpMsgs, List.filterMap_append]

/-- shape of the pending state built by the dump: announcements only, one per destination -/
structure DumpShape (ops : List (SinkOp Net)) : Prop where
  unreach : (applyOps pE ops).unreach = []
  stray : (applyOps pE ops).stray = []
  msgs : dumpMsgs false ops = (applyOps pE ops).reach.map reachMsg

theorem dump_shape (e : Exp) (he : e.max = 1) (pre cs : List (Change Net)) (h : Snapshot (pre ++ cs))
    (m : ExportMap) (ops : List (SinkOp Net))
    (I : Inv (fun _ => e) (viewOf pre) m (applyOps pE ops) []) (Q : DumpShape ops) :
    let r := cs.foldl (fun (acc : ExportMap × List (SinkOp Net)) c =>
      let (m, o) := processNlriChange e c acc.1
      (m, acc.2 ++ o)) (m, ops)
    DumpShape r.2 := by
  induction cs generalizing pre m ops with
  | nil => simpa using Q
  | cons c rest ih =>
    simp only [List.foldl_cons]
    have hadm := snapshot_admissible pre c rest h
    have hflag := (h.flags c (by simp))
    have hstep := inv_handle I c hadm e he false (fun hb => by rw [hflag] at hb)
    have hsetE : setE (fun _ => e) c.net e = (fun _ => e) := by
      funext n; simp [setE]
    have hn' : c.net ∉ pre.map (·.net) := by
      intro hm
      have hn := h.nets
      simp only [List.map_append, List.map_cons] at hn
      exact (List.nodup_append.mp hn).2.2 _ hm _ (List.mem_cons_self ..) rfl
    have hi' : c.destId ∉ pre.map (·.destId) := by
      intro hm
      have hi := h.ids
      simp only [List.map_append, List.map_cons] at hi
      exact (List.nodup_append.mp hi).2.2 _ hm _ (List.mem_cons_self ..) rfl
    rw [hsetE, viewOf_snoc pre c hn' (h.nonempty c (by simp)), ← applyOps_append] at hstep
    have h' : Snapshot ((pre ++ [c]) ++ rest) := by simpa [List.append_assoc] using h
    -- the id is fresh: nothing was sent under it
    have hfresh : (c.destId, 0) ∉ m.sent := by
      intro hs
      obtain ⟨_, x, hx, hxi, _⟩ := (I.mapIff c.destId 0).mp hs
      rcases List.mem_map.mp hx with ⟨c', hc', rfl⟩
      exact hi' (by simp only at hxi; rw [← hxi]; exact List.mem_map_of_mem hc')
    have hQ' : DumpShape (ops ++ (processNlriChange e c m).2) := by
      rw [process_plain e he]
      simp only [hflag, Bool.true_eq_false, if_false]
      rcases target_plain_cases e he c.paths with hT | ⟨r, hT⟩
      · rw [hT]
        have hns : m.wasSent c.destId = false := by
          cases hw : m.wasSent c.destId with
          | false => rfl
          | true => exact absurd ((wasSent_iff m _ (sent_zero I)).mp hw) hfresh
        simp only [hns, Bool.false_eq_true, if_false, List.append_nil]
        exact Q
      · rw [hT]
        obtain ⟨as, nh⟩ := r
        simp only
        have hnokey : PendingTx.eraseKey (c.destId, 0) (applyOps pE ops).reach = (applyOps pE ops).reach := by
          simp only [PendingTx.eraseKey]
          rw [List.filter_eq_self]
          intro x hx
          simp only [ne_eq, decide_eq_true_eq]
          intro heq
          have := (I.reachOwn x hx).2.2
          rw [heq] at this; exact hfresh this
        have hkey : (applyOps pE ops).key c.destId 0 = (c.destId, 0) := by
          simp [PendingTx.key, addpath_applyOps, pE]
        have hP : applyOps pE (ops ++ [SinkOp.reach c.destId c.net 0 nh as]) =
            (applyOps pE ops).doReach c.destId c.net 0 nh as := by
          rw [applyOps_append]; rfl
        refine ⟨?_, ?_, ?_⟩
        · rw [hP]; simp only [PendingTx.doReach, Q.unreach]; rfl
        · rw [hP]; simp only [PendingTx.doReach, Q.unreach, Q.stray, List.find?_nil]
        · rw [hP, dumpMsgs_append, Q.msgs]
          simp only [PendingTx.doReach, hkey, hnokey, List.map_append, List.map_cons, List.map_nil]
          simp [dumpMsgs, reachMsg]
    have := ih (pre ++ [c]) h' _ _ hstep hQ'
    simpa [List.append_assoc] using this

/-- the changes `on_established` / `do_route_refresh` walk for a session -/
def snapshotOf (sess : Sess) (rib : Rib) : List (Change Net) :=
  rib.flatMap (fun s => s.collect (collectLimit sess.max))

theorem dumpShape_nil : DumpShape [] := ⟨rfl, rfl, rfl⟩

/-- `on_established`: the fresh session satisfies the invariant for the view of the snapshot -/
theorem sinv_establish (sess : Sess) (hm : sess.max = 1) (rib : Rib) (h : Snapshot (snapshotOf sess rib)) :
    SInv (fun _ => sess.exp) (viewOf (snapshotOf sess rib)) (establish sess rib) := by
  have he : sess.exp.max = 1 := hm
  have hap : (sess.max != 1) = false := by simp [hm]
  have I0 := inv_empty (fun _ => sess.exp) (fun _ => he)
  have hI := dump_inv sess.exp he [] (snapshotOf sess rib) (by simpa using h) (ExportMap.empty false) []
    (by simpa [applyOps, viewOf] using I0)
  have hQ := dump_shape sess.exp he [] (snapshotOf sess rib) (by simpa using h) (ExportMap.empty false) []
    (by simpa [applyOps, viewOf] using I0) dumpShape_nil
  simp only [List.nil_append] at hI hQ
  -- name the result of the fold
  generalize hr : (snapshotOf sess rib).foldl (fun (acc : ExportMap × List (SinkOp Net)) c =>
      let (m, o) := processNlriChange sess.exp c acc.1
      (m, acc.2 ++ o)) (ExportMap.empty false, []) = r at hI hQ
  have hest : establish sess rib =
      { sess := sess, map := r.1,
        pending := { addpathTx := false, buffered := dumpMsgs false r.2 ++ [.eor] } } := by
    simp only [establish, hap]
    have : (rib.flatMap (fun s => s.collect (collectLimit sess.max))) = snapshotOf sess rib := rfl
    rw [this, hr]
  rw [hest]
  have hbufP : (applyOps pE r.2).buffered = [] := by rw [buffered_applyOps]; rfl
  -- the mirror the buffered dump produces
  have hmb : (dumpMsgs false r.2 ++ [Msg.eor]).foldl Mirror.applyMsg [] = ((applyOps pE r.2).reach.map routeOf).foldl Mirror.set [] := by
    rw [List.foldl_append, hQ.msgs, plain_reach]; rfl
  have hd := reach_routes_nodup hI
  have htr : (dumpMsgs false r.2 ++ [Msg.eor]).foldl Mirror.applyTracked ([], []) =
      (((applyOps pE r.2).reach.map routeOf).foldl Mirror.set [], []) := by
    rw [List.foldl_append, hQ.msgs, tracked_reach _ _ _ (by simpa using hd)]
    rfl
  -- effective mirror of P over the empty mirror
  have hflush := flush_get (E := fun _ => sess.exp) (V := viewOf (snapshotOf sess rib)) (m := r.1) (p := applyOps pE r.2) []
    (by rw [hbufP]; exact hI) (by rw [hbufP]; exact bufOk_nil _)
  have hdrain : (applyOps pE r.2).drain.1 = (applyOps pE r.2).reach.map reachMsg ++ (if (applyOps pE r.2).pendingEor then [Msg.eor] else []) := by
    simp [PendingTx.drain, hbufP, hQ.unreach, hQ.stray, reachMsg]
  have hflushM : ∀ net, Mirror.get (((applyOps pE r.2).reach.map routeOf).foldl Mirror.set []) net 0 =
      effGet (viewOf (snapshotOf sess rib)) (applyOps pE r.2) [] net 0 := by
    intro net
    have := hflush net
    rw [hbufP] at this
    simp only [List.foldl_nil] at this
    rw [← this, hdrain]
    simp only [Mirror.applyFlush, List.foldl_append]
    rw [tracked_reach _ _ _ (by simpa using hd)]
    split <;> simp [Mirror.applyTracked]
  refine ⟨?_, ?_, hm, ?_⟩
  rotate_left
  · simp only [bufOk]
    rw [htr, hmb]
  · simp only [mbOf]
    rw [hmb]
    apply mirrorOk_foldl_set _ _ mirrorOk_nil
    intro r hr
    rcases List.mem_map.mp hr with ⟨x, hx, rfl⟩
    exact ⟨(hI.reachOwn x hx).1, rfl⟩
  · simp only [mbOf]
    rw [hmb]
    obtain ⟨hma, hpa, hEm⟩ := hI.mode
    refine
      { vwf := hI.vwf
        mode := ⟨hma, rfl, hEm⟩
        eff := ?_
        mapIff := hI.mapIff
        reachOwn := by intro x hx; cases hx
        unreachOwn := by intro x hx; cases hx
        strayZero := by intro x hx; cases hx
        reachKeys := by simp [keysNodup]
        unreachKeys := by simp [keysNodup]
        sentNodup := hI.sentNodup }
    intro net
    rw [← hI.eff net, ← hflushM net]
    simp only [effGet, lookup, List.find?_nil, Option.map_none, wdl,
      List.contains_nil, List.any_nil, Bool.or_self, Bool.false_eq_true, if_false]
    cases (viewOf (snapshotOf sess rib)).idOf net <;> rfl

end Rbgp.Export.Conv
