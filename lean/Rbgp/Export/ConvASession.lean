/-
  Rbgp.Export.ConvASession — C01, add-path sessions, part 4: flush, the invariant at the level of
  `SessState`, and `on_established`.
-/
import Rbgp.Export.ConvAHandle
namespace Rbgp.Export.ConvA
open Rbgp.Export Rbgp.Export.Conv

/-! ## flush -/

theorem reach_routes_nodupT {own : Own} {T : Tgt} {m : ExportMap} {p : PendingTx} {mb : Mirror}
    (I : InvT own T m p mb) : ((p.reach.map routeOf).map (fun x => (x.net, x.pid))).Nodup := by
  have hk := I.reachKeys
  have hown := I.reachOwn
  simp only [keysNodup] at hk
  generalize p.reach = l at hk hown
  induction l with
  | nil => simp
  | cons x rest ih =>
    simp only [List.map_cons, List.nodup_cons] at hk ⊢
    refine ⟨?_, ih hk.2 (fun y hy => hown y (List.mem_cons_of_mem _ hy))⟩
    intro hmem
    rcases List.mem_map.mp hmem with ⟨r, hr, hrk⟩
    rcases List.mem_map.mp hr with ⟨y, hy, rfl⟩
    simp only [routeOf, Prod.mk.injEq] at hrk
    have hx := hown x (List.mem_cons_self ..)
    have hy' := hown y (List.mem_cons_of_mem _ hy)
    have hid : y.1.1 = x.1.1 := by
      have h1 := hy'.1; have h2 := hx.1
      rw [hrk.1, h2] at h1; exact (Option.some.inj h1).symm
    apply hk.1
    have : x.1 = y.1 := by
      cases hx1 : x.1; cases hy1 : y.1
      simp_all
    rw [this]; exact List.mem_map_of_mem hy

/-- keys are unique, nothing ambiguous -/
def MirrorOkA (m : Mirror) : Prop :=
  (m.map (fun r => (r.net, r.pid))).Nodup ∧ ∀ r ∈ m, r.amb = false

theorem mirrorOkA_nil : MirrorOkA [] := ⟨by simp, by intro r hr; cases hr⟩

theorem mirrorOkA_del (m : Mirror) (h : MirrorOkA m) (net : Net) (pid : Nat) : MirrorOkA (m.del net pid) := by
  refine ⟨List.Nodup.sublist (List.Sublist.map _ List.filter_sublist) h.1, ?_⟩
  intro r hr
  exact h.2 r (List.mem_filter.mp hr).1

theorem mirrorOkA_set (m : Mirror) (h : MirrorOkA m) (r : Route) (ha : r.amb = false) : MirrorOkA (m.set r) := by
  have hd := mirrorOkA_del m h r.net r.pid
  simp only [Mirror.set]
  refine ⟨?_, ?_⟩
  · simp only [List.map_append, List.map_cons, List.map_nil]
    apply List.nodup_append.mpr
    refine ⟨hd.1, by simp, ?_⟩
    intro k hk b hb
    simp only [List.mem_singleton] at hb; subst hb
    rcases List.mem_map.mp hk with ⟨x, hx, rfl⟩
    have := (List.mem_filter.mp hx).2
    simp only [Bool.not_eq_true', decide_eq_false_iff_not] at this
    intro heq
    simp only [Prod.mk.injEq] at heq
    exact this heq
  · intro x hx
    rcases List.mem_append.mp hx with h' | h'
    · exact hd.2 x h'
    · simp only [List.mem_singleton] at h'; subst h'; exact ha

theorem mirrorOkA_foldl_del (es : List (Nat × Net)) (m : Mirror) (h : MirrorOkA m) :
    MirrorOkA (es.foldl (fun m e => m.del e.2 e.1) m) := by
  induction es generalizing m with
  | nil => exact h
  | cons e rest ih => exact ih _ (mirrorOkA_del m h _ _)

theorem mirrorOkA_foldl_set (rs : List Route) (m : Mirror) (h : MirrorOkA m)
    (hr : ∀ r ∈ rs, r.amb = false) : MirrorOkA (rs.foldl Mirror.set m) := by
  induction rs generalizing m with
  | nil => exact h
  | cons r rest ih =>
    exact ih _ (mirrorOkA_set m h r (hr r (List.mem_cons_self ..))) (fun x hx => hr x (List.mem_cons_of_mem _ hx))

theorem get_of_memA (m : Mirror) (h : MirrorOkA m) (r : Route) (hr : r ∈ m) : Mirror.get m r.net r.pid = some r := by
  have hn := h.1
  clear h
  simp only [Mirror.get]
  induction m with
  | nil => cases hr
  | cons y rest ih =>
    simp only [List.map_cons, List.nodup_cons] at hn
    rw [List.find?_cons]
    rcases List.mem_cons.mp hr with rfl | hm
    · simp
    · have : ¬ (y.net = r.net ∧ y.pid = r.pid) := by
        intro heq; apply hn.1
        have : (y.net, y.pid) = (r.net, r.pid) := by rw [heq.1, heq.2]
        rw [this]; exact List.mem_map_of_mem hm
      simp only [this, decide_false]
      exact ih hm hn.2

/-- the mirror a flush leaves, in closed form -/
theorem flush_mirror_eqT {own : Own} {T : Tgt} {m : ExportMap} {p : PendingTx} (mirror : Mirror)
    (I : InvT own T m p (p.buffered.foldl Mirror.applyMsg mirror)) (hb : bufOk mirror p.buffered) :
    mirror.applyFlush p.drain.1 =
      (p.reach.map routeOf).foldl Mirror.set
        ((p.stray ++ p.unreach.map (fun e => (e.1.2, e.2))).foldl (fun m e => m.del e.2 e.1)
          (p.buffered.foldl Mirror.applyMsg mirror)) := by
  have hd := reach_routes_nodupT I
  have hshape : p.drain.1 = p.buffered ++
      ((if p.unreach.isEmpty && p.stray.isEmpty then []
        else [Msg.unreach (p.stray ++ p.unreach.map (fun e => (e.1.2, e.2)))]) ++
       (p.reach.map reachMsg ++ (if p.pendingEor then [Msg.eor] else []))) := by
    simp [PendingTx.drain, reachMsg, List.append_assoc]
  simp only [Mirror.applyFlush]
  rw [hshape, foldl_tracked_append, hb, foldl_tracked_append]
  have hW : (if p.unreach.isEmpty && p.stray.isEmpty then ([] : List Msg)
        else [Msg.unreach (p.stray ++ p.unreach.map (fun e => (e.1.2, e.2)))]).foldl Mirror.applyTracked
          (p.buffered.foldl Mirror.applyMsg mirror, []) =
      ((p.stray ++ p.unreach.map (fun e => (e.1.2, e.2))).foldl (fun m e => m.del e.2 e.1)
        (p.buffered.foldl Mirror.applyMsg mirror), []) := by
    by_cases he : (p.unreach.isEmpty && p.stray.isEmpty) = true
    · simp only [he, if_true, List.foldl_nil]
      simp only [Bool.and_eq_true, List.isEmpty_iff] at he
      simp [he.1, he.2]
    · simp only [he, Bool.false_eq_true, if_false, List.foldl_cons, List.foldl_nil, Mirror.applyTracked]
  rw [hW, foldl_tracked_append, tracked_reach _ _ _ (by simpa using hd)]
  split <;> simp [Mirror.applyTracked]

theorem flush_mirrorOkT {own : Own} {T : Tgt} {m : ExportMap} {p : PendingTx} (mirror : Mirror)
    (I : InvT own T m p (p.buffered.foldl Mirror.applyMsg mirror)) (hb : bufOk mirror p.buffered)
    (hok : MirrorOkA (p.buffered.foldl Mirror.applyMsg mirror)) :
    MirrorOkA (mirror.applyFlush p.drain.1) := by
  rw [flush_mirror_eqT mirror I hb]
  apply mirrorOkA_foldl_set _ _ (mirrorOkA_foldl_del _ _ hok)
  intro r hr
  rcases List.mem_map.mp hr with ⟨x, hx, rfl⟩
  rfl

/-- the mirror after a flush is the effective mirror, for every (prefix, path id) -/
theorem flush_getT {own : Own} {T : Tgt} {m : ExportMap} {p : PendingTx} (mirror : Mirror)
    (I : InvT own T m p (p.buffered.foldl Mirror.applyMsg mirror)) (hb : bufOk mirror p.buffered) (net : Net) (w : Nat) :
    Mirror.get (mirror.applyFlush p.drain.1) net w =
      effGetO own p (p.buffered.foldl Mirror.applyMsg mirror) net w := by
  have hd := reach_routes_nodupT I
  rw [flush_mirror_eqT mirror I hb]
  generalize hes : p.stray ++ p.unreach.map (fun e => (e.1.2, e.2)) = es
  generalize p.buffered.foldl Mirror.applyMsg mirror = mbuf at I ⊢
  simp only [effGetO]
  cases hl : (own net).bind (fun d => lookup (d, w) p.reach) with
  | some v =>
    obtain ⟨net', as, nh⟩ := v
    simp only
    cases hid : own net with
    | none => simp [hid] at hl
    | some d =>
      simp only [hid, Option.bind_some] at hl
      have hmem := mem_of_lookup _ _ _ hl
      have hown := (I.reachOwn _ hmem).1
      simp only at hown
      have hnn : net' = net := I.inj net' net d hown hid
      subst hnn
      have hr : routeOf ((d, w), (net', as, nh)) ∈ p.reach.map routeOf := List.mem_map_of_mem hmem
      have := get_foldl_set_some (p.reach.map routeOf) (es.foldl (fun m e => m.del e.2 e.1) mbuf) _ hr hd
      simpa [routeOf] using this
  | none =>
    simp only
    have hnone : ∀ r ∈ p.reach.map routeOf, ¬ (r.net = net ∧ r.pid = w) := by
      intro r hr hk
      rcases List.mem_map.mp hr with ⟨x, hx, rfl⟩
      simp only [routeOf] at hk
      have hx' := I.reachOwn x hx
      rw [hk.1] at hx'
      simp only [hx'.1, Option.bind_some] at hl
      have := lookup_of_mem p.reach I.reachKeys x hx
      have hxk : x.1 = (x.1.1, w) := by rw [← hk.2]
      rw [hxk] at this; rw [this] at hl; cases hl
    rw [get_foldl_set_none _ _ _ _ hnone, get_foldl_del]
    have hiff : ((w, net) ∈ es) ↔ wdl p net w = true := by
      rw [wdl_iff, ← hes]
      simp only [List.mem_append, List.mem_map]
      constructor
      · rintro (h | ⟨x, hx, hxe⟩)
        · exact Or.inl h
        · simp only [Prod.mk.injEq] at hxe
          exact Or.inr ⟨x, hx, hxe.1, hxe.2⟩
      · rintro (h | ⟨x, hx, hw, hn⟩)
        · exact Or.inl h
        · exact Or.inr ⟨x, hx, by rw [hw, hn]⟩
    by_cases hw : wdl p net w = true
    · simp [hw, hiff.mpr hw]
    · have : ¬ (w, net) ∈ es := fun h => hw (hiff.mp h)
      simp [hw, this]

/-! ## the session -/

structure SInvA (E : Net → Nat → Exp) (V : View) (st : SessState) : Prop where
  inv : InvA st.sess.exp E V st.map st.pending (mbOf st)
  buf : bufOk st.mirror st.pending.buffered
  mok : MirrorOkA (mbOf st)

/-- `export_invariant` (delivery), add-path session -/
theorem sinv_handleA {E : Net → Nat → Exp} {V : View} {st : SessState} (S : SInvA E V st) (u : Change Net)
    (resend : Bool) (ha : AdmA V u resend) :
    SInvA (stepEA E V u st.sess.exp resend) (V.update u.net u.destId u.paths) (st.handle u resend) := by
  have hI := inv_handleA S.inv u resend ha st.sess.exp S.inv.ap (fun _ => rfl)
  refine ⟨?_, ?_, ?_⟩
  · simp only [SessState.handle, mbOf, buffered_applyOps]
    exact hI
  · simp only [SessState.handle, buffered_applyOps]; exact S.buf
  · simp only [SessState.handle, mbOf, buffered_applyOps]; exact S.mok

/-- the pending queue after a flush -/
theorem invT_drained {own : Own} {T : Tgt} {m : ExportMap} {p : PendingTx} (M : Mirror)
    (I : InvT own T m p (p.buffered.foldl Mirror.applyMsg M)) (M' : Mirror)
    (hget : ∀ net w, Mirror.get M' net w = effGetO own p (p.buffered.foldl Mirror.applyMsg M) net w) :
    InvT own T m { p with reach := [], unreach := [], stray := [], buffered := [], pendingEor := false } M' := by
  refine
    { inj := I.inj
      mode := I.mode
      eff := ?_
      tOwn := I.tOwn
      mapIff := I.mapIff
      reachOwn := by intro x hx; cases hx
      unreachOwn := by intro x hx; cases hx
      reachKeys := by simp [keysNodup]
      unreachKeys := by simp [keysNodup]
      sentNodup := I.sentNodup }
  intro net w
  rw [← I.eff net w, ← hget net w]
  simp only [effGetO, lookup, List.find?_nil, Option.map_none, wdl,
    List.contains_nil, List.any_nil, Bool.or_self, Bool.false_eq_true, if_false]
  cases own net <;> rfl

/-- `export_invariant` (flush), add-path session -/
theorem sinv_flushA {E : Net → Nat → Exp} {V : View} {st : SessState} (S : SInvA E V st) : SInvA E V st.flush := by
  have hg := flush_getT st.mirror S.inv.inv S.buf
  refine ⟨?_, bufOk_nil _, ?_⟩
  · refine ⟨S.inv.vwf, S.inv.pids, S.inv.ap, S.inv.winE, ?_⟩
    have := invT_drained st.mirror S.inv.inv (st.mirror.applyFlush st.pending.drain.1) hg
    simpa [SessState.flush, PendingTx.drain, mbOf] using this
  · have := flush_mirrorOkT st.mirror S.inv.inv S.buf S.mok
    simpa [SessState.flush, mbOf, PendingTx.drain] using this

/-- what the neighbour must hold under path id `w` of a prefix -/
def wantA (E : Net → Nat → Exp) (V : View) (net : Net) (w : Nat) : Option Route :=
  (Tof E V net w).map (routeAt net w)

/-- `convergence`, session level, add-path: with nothing pending, the mirror holds for every
    (prefix, path id) exactly what the view's paths export to -/
theorem convergedA {E : Net → Nat → Exp} {V : View} {st : SessState} (S : SInvA E V st) (net : Net) (w : Nat) :
    Mirror.get st.flush.mirror net w = wantA E V net w := by
  have hg := flush_getT st.mirror S.inv.inv S.buf net w
  have h1 := S.inv.inv.eff net w
  simp only [mbOf] at h1
  simp only [wantA]
  rw [← h1, ← hg]
  simp [SessState.flush]

theorem flush_mirrorOkA {E : Net → Nat → Exp} {V : View} {st : SessState} (S : SInvA E V st) :
    MirrorOkA st.flush.mirror := by
  have := flush_mirrorOkT st.mirror S.inv.inv S.buf S.mok
  simpa [SessState.flush] using this

end Rbgp.Export.ConvA
