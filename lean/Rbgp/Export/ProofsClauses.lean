/-
  Rbgp.Export.ProofsClauses — every clause of the C09 reference checker holds on what the model
  hands to the sink (statements of the theorems: Props.lean).
-/
import Rbgp.Export.Proofs
namespace Rbgp.Export.Proofs
open Rbgp.Export Rbgp.Export.Attr

theorem wf_parts {c : ExportCase} (h : Spec.wfExport c = true) :
    Spec.codesDistinct c.path.attrs = true ∧ AllWf c.path.attrs ∧
    (Spec.isPeer c.path.src = true → Spec.isIbgpRole c.path.src.role = true →
      c.path.src.remoteAsn = c.path.src.localAsn) := by
  simp only [Spec.wfExport, Bool.and_eq_true, Bool.or_eq_true, Bool.not_eq_true', decide_eq_true_eq] at h
  refine ⟨h.1.1.1, allWf_of_all h.1.1.2, ?_⟩
  intro hp hr
  rcases h.1.2 with h2 | h2
  · simp [hp, hr] at h2
  · exact h2

/-- a source session that is neither iBGP nor route-server client has another AS -/
theorem wf_external {c : ExportCase} (h : Spec.wfExport c = true) (hp : Spec.isPeer c.path.src = true)
    (hr : c.path.src.role = .ebgp ∨ c.path.src.role = .confed) : c.path.src.remoteAsn ≠ c.path.src.localAsn := by
  simp only [Spec.wfExport, Bool.and_eq_true, Bool.or_eq_true, Bool.not_eq_true', decide_eq_true_eq,
    decide_not, Bool.not_eq_eq_eq_not, Bool.not_true, decide_eq_false_iff_not] at h
  rcases h.2 with h2 | h2
  · rcases hr with hr | hr <;> simp [hp, hr] at h2
  · exact h2

theorem visible_parts {s : Sess} {p : Path} (h : visible s p = true) :
    p.src.addr ≠ s.remoteAddr ∧ ibgpSplitHorizonSuppress p.src s.ctx.role s.cluster = false ∧
    rsIsolationSuppress p.src s.ctx.role = false := by
  simp only [visible, Bool.and_eq_true, Bool.not_eq_true', decide_eq_false_iff_not] at h
  exact ⟨h.1.1, h.1.2, h.2⟩

/-! ### propagation -/

theorem badEcho_false {c : ExportCase} (hv : visible c.sess c.path = true) : Spec.badEcho c = false := by
  have := (visible_parts hv).1
  simp [Spec.badEcho, this]

theorem peer_ibgpLearned {c : ExportCase} (hwf : Spec.wfExport c = true)
    (hp : Spec.isPeer c.path.src = true) (hr : Spec.isIbgpRole c.path.src.role = true) :
    isIbgpLearned c.path.src = true := by
  have := (wf_parts hwf).2.2 hp hr
  simp only [Spec.isPeer, decide_eq_true_eq] at hp
  simp [isIbgpLearned, Source.isLocal, hp, this]

theorem badNonClient_false {c : ExportCase} (hwf : Spec.wfExport c = true)
    (hv : visible c.sess c.path = true) : Spec.badNonClient c = false := by
  have hs := (visible_parts hv).2.1
  simp only [Spec.badNonClient]
  by_cases hp : Spec.isPeer c.path.src = true
  · by_cases hr : c.path.src.role = .ibgp
    · by_cases hd : c.sess.ctx.role = .ibgp
      · exfalso
        have hl := peer_ibgpLearned hwf hp (by simp [Spec.isIbgpRole, hr])
        simp only [ibgpSplitHorizonSuppress, hd, hl, Source.isRrClient, hr] at hs
        cases hc : c.sess.cluster <;> simp [hc] at hs
      · simp [hd]
    · simp [hr]
  · simp [hp]

theorem badRsBoundary_false {c : ExportCase} (hv : visible c.sess c.path = true) :
    Spec.badRsBoundary c = false := by
  have hs := (visible_parts hv).2.2
  simp only [rsIsolationSuppress, Source.isRsClient] at hs
  simp only [Spec.badRsBoundary, hs, Bool.and_false]

/-! ### rewriting: shared set-up -/

/-- everything the clause proofs need about a successful `xform` -/
structure Run (c : ExportCase) (out : Attrs) (nh : Option Nh) : Prop where
  ex : ∃ as1, policyStage c.sess c.path = some (as1, nh) ∧
        out = exportAttrs c.sess.ctx (mid c.sess c.path as1)

theorem run_of {c : ExportCase} {out : Attrs} {nh : Option Nh}
    (hx : xform c.sess c.path = some (out, nh)) : Run c out nh :=
  ⟨xform_some hx⟩

theorem pathOf_of_W {as bs : Attrs} (h : W 2 as = W 2 bs) : Spec.pathOf as = Spec.pathOf bs := by
  rw [pathOf_W h, pathOf_W rfl]

/-- the AS_PATH reaching `export_attrs` is the received one -/
theorem W2_mid {c : ExportCase} {as1 : Attrs} {nh : Option Nh}
    (hp : policyStage c.sess c.path = some (as1, nh)) :
    W 2 (mid c.sess c.path as1) = W 2 c.path.attrs := by
  rw [mid_other _ _ _ _ (by decide) (by decide) (by decide), policyStage_other hp _ (by decide) (by decide)]

theorem W2_shape {as : Attrs} (hd : Spec.codesDistinct as = true) (hw : AllWf as) :
    (W 2 as = [] ∧ Spec.pathOf as = []) ∨
    (∃ segs, W 2 as = [.aspath segs] ∧ Spec.pathOf as = segs ∧ segs.all segWf = true) := by
  rcases distinct_W 2 as hd with h | ⟨a, h⟩
  · left; exact ⟨h, by rw [pathOf_W h]; rfl⟩
  · right
    have ha : a ∈ W 2 as := by rw [h]; exact List.mem_cons_self ..
    have ham := (mem_W 2 a as).mp ha
    obtain ⟨segs, rfl, hs⟩ := wf_code2 (hw a ham.1) ham.2
    exact ⟨segs, h, by rw [pathOf_W h]; rfl, hs⟩

/-! ### eBGP -/

theorem ebgp_W2 {c : ExportCase} {out : Attrs} {nh : Option Nh} (hwf : Spec.wfExport c = true)
    (hr : c.sess.ctx.role = .ebgp) (hx : xform c.sess c.path = some (out, nh)) :
    W 2 out = [.aspath (asPathPrepend (Spec.visibleAs c) (asPathStripConfed (Spec.pathOf c.path.attrs)))] := by
  obtain ⟨as1, hp, rfl⟩ := xform_some hx
  obtain ⟨hd, hw, _⟩ := wf_parts hwf
  have hw4 := mid_wf c.sess c.path (policyStage_wf hp hw)
  rw [W_exportAttrs_known _ _ hw4 2 (by decide)]
  have h2 := W2_mid hp
  simp only [roleAttrs, hr]
  have hfilt : W 2 (List.filter (fun a =>
      !(a.code = LOCAL_PREF ∨ a.code = ORIGINATOR_ID ∨ a.code = CLUSTER_LIST ∨ a.code = AIGP))
      (mid c.sess c.path as1)) = W 2 (mid c.sess c.path as1) := by
    apply W_filter_other
    intro a ha; simp [ha, LOCAL_PREF, ORIGINATOR_ID, CLUSTER_LIST, AIGP]
  have hvis : (if c.sess.ctx.confedId ≠ 0 then c.sess.ctx.confedId else c.sess.ctx.localAsn) = Spec.visibleAs c := rfl
  rcases W2_shape hd hw with ⟨h0, hpath⟩ | ⟨segs, h1, hpath, _⟩
  · have hnone : hasCode AS_PATH (mid c.sess c.path as1) = false := by
      rw [hasCode_eq]; show Spec.present 2 _ = false; rw [present_eq, h2, h0]; rfl
    simp only [hnone, Bool.false_eq_true, if_false]
    rw [W_append, W2_mapAsPath _ _ (allWf_filter _ hw4), hfilt, h2, h0, W_single, hpath, hvis]
    simp [Attr.code, asPathStripConfed]
  · have hsome : hasCode AS_PATH (mid c.sess c.path as1) = true := by
      rw [hasCode_eq]; show Spec.present 2 _ = true; rw [present_eq, h2, h1]; rfl
    simp only [hsome, if_true]
    rw [W2_mapAsPath _ _ (allWf_filter _ hw4), hfilt, h2, h1, hpath, hvis]
    rfl

theorem badEbgpPath_false {c : ExportCase} {out : Attrs} {nh : Option Nh} (hwf : Spec.wfExport c = true)
    (hx : xform c.sess c.path = some (out, nh)) : Spec.badEbgpPath c (sortByCode out) = false := by
  simp only [Spec.badEbgpPath]
  by_cases hr : c.sess.ctx.role = .ebgp
  · have h2 := ebgp_W2 hwf hr hx
    obtain ⟨hd, hw, _⟩ := wf_parts hwf
    have hlen : (Spec.withCode 2 (sortByCode out)).length = 1 := by
      rw [withCode_sort]; show (W 2 out).length = 1; rw [h2]; rfl
    have hpo : Spec.pathOf (sortByCode out) =
        asPathPrepend (Spec.visibleAs c) (asPathStripConfed (Spec.pathOf c.path.attrs)) := by
      rw [pathOf_sort, pathOf_W h2]; rfl
    have hstr : Spec.stripped c = asPathStripConfed (Spec.pathOf c.path.attrs) := strip_eq _
    have hsw : (asPathStripConfed (Spec.pathOf c.path.attrs)).all segWf = true := by
      rcases W2_shape hd hw with ⟨_, hp⟩ | ⟨segs, _, hp, hs⟩
      · rw [hp]; rfl
      · rw [hp]; exact segWf_strip hs
    rw [hlen, hpo, hstr, prependedOnce_prepend _ _ hsw]
    simp
  · simp [hr]

theorem ebgp_W_removed {c : ExportCase} {out : Attrs} {nh : Option Nh} (hwf : Spec.wfExport c = true)
    (hr : c.sess.ctx.role = .ebgp) (hx : xform c.sess c.path = some (out, nh)) (k : Nat)
    (hk : k = 5 ∨ k = 9 ∨ k = 10 ∨ k = 26) : W k out = [] := by
  obtain ⟨as1, hp, rfl⟩ := xform_some hx
  obtain ⟨_, hw, _⟩ := wf_parts hwf
  have hw4 := mid_wf c.sess c.path (policyStage_wf hp hw)
  have hknown : (canonicalFlags k).isSome = true := by
    rcases hk with h | h | h | h <;> subst h <;> decide
  have hk2 : k ≠ 2 := by omega
  rw [W_exportAttrs_known _ _ hw4 k hknown]
  simp only [roleAttrs, hr]
  have hfilt : W k (List.filter (fun a =>
      !(a.code = LOCAL_PREF ∨ a.code = ORIGINATOR_ID ∨ a.code = CLUSTER_LIST ∨ a.code = AIGP))
      (mid c.sess c.path as1)) = [] := by
    apply W_filter_none
    intro a ha
    rcases hk with h | h | h | h <;> subst h <;> simp [ha, LOCAL_PREF, ORIGINATOR_ID, CLUSTER_LIST, AIGP]
  split
  · rw [W_mapAsPath_other _ _ _ hk2, hfilt]
  · rw [W_append, W_mapAsPath_other _ _ _ hk2, hfilt, W_single]
    simp [Attr.code, Ne.symm hk2]

theorem badEbgpInternal_false {c : ExportCase} {out : Attrs} {nh : Option Nh} (hwf : Spec.wfExport c = true)
    (hx : xform c.sess c.path = some (out, nh)) : Spec.badEbgpInternal c (sortByCode out) = false := by
  simp only [Spec.badEbgpInternal]
  by_cases hr : c.sess.ctx.role = .ebgp
  · have h (k : Nat) (hk : k = 5 ∨ k = 9 ∨ k = 10 ∨ k = 26) : Spec.present k (sortByCode out) = false := by
      rw [present_sort, present_eq, ebgp_W_removed hwf hr hx k hk]; rfl
    rw [h 5 (by simp), h 9 (by simp), h 10 (by simp), h 26 (by simp)]
    simp
  · simp [hr]

/-- a code that neither the eBGP strip nor the AS_PATH rewrite touches -/
theorem ebgp_W_kept {c : ExportCase} {as1 : Attrs} (hw4 : AllWf (mid c.sess c.path as1))
    (hr : c.sess.ctx.role = .ebgp) (k : Nat) (hknown : (canonicalFlags k).isSome = true)
    (hk : k ≠ 2 ∧ k ≠ 5 ∧ k ≠ 9 ∧ k ≠ 10 ∧ k ≠ 26) :
    W k (exportAttrs c.sess.ctx (mid c.sess c.path as1)) = W k (mid c.sess c.path as1) := by
  rw [W_exportAttrs_known _ _ hw4 k hknown]
  simp only [roleAttrs, hr]
  have hfilt : W k (List.filter (fun a =>
      !(a.code = LOCAL_PREF ∨ a.code = ORIGINATOR_ID ∨ a.code = CLUSTER_LIST ∨ a.code = AIGP))
      (mid c.sess c.path as1)) = W k (mid c.sess c.path as1) := by
    apply W_filter_other
    intro a ha
    have h5 : ¬ a.code = 5 := by omega
    have h9 : ¬ a.code = 9 := by omega
    have h10 : ¬ a.code = 10 := by omega
    have h26 : ¬ a.code = 26 := by omega
    simp [LOCAL_PREF, ORIGINATOR_ID, CLUSTER_LIST, AIGP, h5, h9, h10, h26]
  split
  · rw [W_mapAsPath_other _ _ _ hk.1, hfilt]
  · rw [W_append, W_mapAsPath_other _ _ _ hk.1, hfilt, W_single]
    simp [Attr.code, Ne.symm hk.1]

theorem badEbgpMed_false {c : ExportCase} {out : Attrs} {nh : Option Nh} (hwf : Spec.wfExport c = true)
    (hx : xform c.sess c.path = some (out, nh)) : Spec.badEbgpMed c (sortByCode out) = false := by
  simp only [Spec.badEbgpMed]
  by_cases hr : c.sess.ctx.role = .ebgp
  · obtain ⟨as1, hp, rfl⟩ := xform_some hx
    obtain ⟨_, hw, _⟩ := wf_parts hwf
    have hw4 := mid_wf c.sess c.path (policyStage_wf hp hw)
    have hW : W 4 (exportAttrs c.sess.ctx (mid c.sess c.path as1)) = W 4 as1 := by
      rw [ebgp_W_kept hw4 hr 4 (by decide) (by decide), mid_other _ _ _ _ (by decide) (by decide) (by decide)]
    have hmed := policyStage_med_ebgp hp hr
    have hpres : Spec.present 4 (sortByCode (exportAttrs c.sess.ctx (mid c.sess c.path as1))) =
        !(W 4 as1).isEmpty := by rw [present_sort, present_eq, hW]
    have hval : Spec.valueOf 4 (sortByCode (exportAttrs c.sess.ctx (mid c.sess c.path as1))) =
        valueOfList (W 4 as1) := by
      rw [valueOf_sort, valueOf_W 4 hW]
    rw [hpres, hval]
    cases hpol : c.sess.policy with
    | none =>
      simp only [hpol] at hmed
      simp [Spec.polMed, hpol, hmed]
    | some pol =>
      simp only [hpol] at hmed
      cases hm : pol.med with
      | none =>
        simp only [hm] at hmed
        simp [Spec.polMed, hpol, hm, hmed]
      | some act =>
        simp only [hm] at hmed
        rcases hmed with h | h
        · simp [Spec.polMed, hpol, hm, h]
        · simp [Spec.polMed, hpol, hm, h, medValue_zero, valueOfList]
  · simp [hr]

theorem exportNexthop_self_addr (c : Ctx) (nh : Option Nh) (fam : Fam) (loc : Bool)
    (hr : c.role = .ebgp)
    (hloc : ¬ (loc = true ∧ ∃ n, nh = some n ∧ n.addr.isUnspecified = false))
    (hfs : ¬ (fam.isFlowspec = true ∧ nh = none)) :
    ∃ n, exportNexthop c nh fam loc = some n ∧ n.addr = c.localAddr := by
  cases nh with
  | none =>
    have : fam.isFlowspec = false := by
      cases h : fam.isFlowspec with
      | false => rfl
      | true => exact absurd ⟨h, rfl⟩ hfs
    exact ⟨selfNh c, by simp [exportNexthop, this], selfNh_addr c⟩
  | some n =>
    simp only [exportNexthop]
    by_cases hl : loc = true
    · have hu : n.addr.isUnspecified = true := by
        cases h : n.addr.isUnspecified with
        | true => rfl
        | false => exact absurd ⟨hl, n, rfl, h⟩ hloc
      exact ⟨selfNh c, by simp [hl, hu], selfNh_addr c⟩
    · exact ⟨selfNh c, by simp [hl, hr], selfNh_addr c⟩

theorem polNh_false {c : ExportCase} (h : Spec.polNh c = false) :
    ∀ pol, c.sess.policy = some pol → pol.nh = none := by
  intro pol hp
  simp only [Spec.polNh, hp] at h
  cases hn : pol.nh with
  | none => rfl
  | some x => simp [hn] at h

theorem badEbgpNexthop_false {c : ExportCase} {out : Attrs} {nh : Option Nh}
    (hx : xform c.sess c.path = some (out, nh)) : Spec.badEbgpNexthop c nh = false := by
  simp only [Spec.badEbgpNexthop]
  by_cases hr : c.sess.ctx.role = .ebgp
  · by_cases hpn : Spec.polNh c = false
    · obtain ⟨as1, hp, _⟩ := xform_some hx
      have hnh := policyStage_nh hp (polNh_false hpn)
      by_cases hloc : (c.path.src.kind = .locl ∧ ∃ n, c.path.nh = some n ∧ n.addr.isUnspecified = false)
      · obtain ⟨hk, n, hn, hu⟩ := hloc
        simp [hk, hn, nhAddr_eq, unspecified_eq, hu]
      · by_cases hfs : (c.sess.fam.isFlowspec = true ∧ c.path.nh = none)
        · simp [hfs.1, hfs.2]
        · have hloc' : ¬ (c.path.src.isLocal = true ∧ ∃ n, c.path.nh = some n ∧ n.addr.isUnspecified = false) := by
            intro ⟨hl, hrest⟩
            exact hloc ⟨by simpa [Source.isLocal] using hl, hrest⟩
          obtain ⟨n, hn, ha⟩ := exportNexthop_self_addr c.sess.ctx c.path.nh c.sess.fam c.path.src.isLocal hr hloc' hfs
          rw [hnh, hn]
          simp [nhAddr_eq, ha]
    · simp [hpn]
  · simp [hr]

/-! ### route-server clients -/

/-- the clause about route-server clients holds trivially for every other receiver; for an RS client
    the current `export_attrs` passes the attributes through (finding F09-rs-client-internal-attributes) -/
theorem badRsInternal_false {c : ExportCase} (out : Attrs) (hr : c.sess.ctx.role ≠ .rsClient) :
    Spec.badRsInternal c out = false := by
  simp [Spec.badRsInternal, hr]

/-! ### iBGP -/

theorem ibgp_W {c : ExportCase} {as1 : Attrs} (hw4 : AllWf (mid c.sess c.path as1))
    (hr : Spec.isIbgpRole c.sess.ctx.role = true) (k : Nat) (hknown : (canonicalFlags k).isSome = true)
    (hk : k ≠ 5) :
    W k (exportAttrs c.sess.ctx (mid c.sess c.path as1)) = W k (mid c.sess c.path as1) := by
  rw [W_exportAttrs_known _ _ hw4 k hknown]
  simp only [Spec.isIbgpRole, Bool.or_eq_true, decide_eq_true_eq] at hr
  have : roleAttrs c.sess.ctx (mid c.sess c.path as1) = injectLocalPrefIfAbsent (mid c.sess c.path as1) := by
    rcases hr with h | h <;> simp [roleAttrs, h]
  rw [this]
  simp only [injectLocalPrefIfAbsent]
  split
  · rfl
  · exact W_insertLp _ _ hk

theorem badIbgpLocalPref_false {c : ExportCase} {out : Attrs} {nh : Option Nh} (hwf : Spec.wfExport c = true)
    (hx : xform c.sess c.path = some (out, nh)) : Spec.badIbgpLocalPref c (sortByCode out) = false := by
  simp only [Spec.badIbgpLocalPref]
  by_cases hr : Spec.isIbgpRole c.sess.ctx.role = true
  · obtain ⟨as1, hp, rfl⟩ := xform_some hx
    obtain ⟨_, hw, _⟩ := wf_parts hwf
    have hw4 := mid_wf c.sess c.path (policyStage_wf hp hw)
    have hpres : Spec.present 5 (sortByCode (exportAttrs c.sess.ctx (mid c.sess c.path as1))) = true := by
      rw [present_sort, present_eq, W_exportAttrs_known _ _ hw4 5 (by decide), ← present_eq]
      simp only [Spec.isIbgpRole, Bool.or_eq_true, decide_eq_true_eq] at hr
      have : roleAttrs c.sess.ctx (mid c.sess c.path as1) = injectLocalPrefIfAbsent (mid c.sess c.path as1) := by
        rcases hr with h | h <;> simp [roleAttrs, h]
      rw [this]
      simp only [injectLocalPrefIfAbsent]
      split
      · rename_i h; simpa [hasCode_eq, LOCAL_PREF] using h
      · exact present5_insertLp _
    simp [hpres]
  · simp [hr]

theorem badIbgpPath_false {c : ExportCase} {out : Attrs} {nh : Option Nh} (hwf : Spec.wfExport c = true)
    (hx : xform c.sess c.path = some (out, nh)) : Spec.badIbgpPath c (sortByCode out) = false := by
  simp only [Spec.badIbgpPath]
  by_cases hr : Spec.isIbgpRole c.sess.ctx.role = true
  · obtain ⟨as1, hp, rfl⟩ := xform_some hx
    obtain ⟨_, hw, _⟩ := wf_parts hwf
    have hw4 := mid_wf c.sess c.path (policyStage_wf hp hw)
    have : Spec.withCode 2 (sortByCode (exportAttrs c.sess.ctx (mid c.sess c.path as1))) =
        Spec.withCode 2 c.path.attrs := by
      rw [withCode_sort]
      show W 2 _ = W 2 _
      rw [ibgp_W hw4 hr 2 (by decide) (by decide), W2_mid hp]
    rw [this]; simp
  · simp [hr]

theorem badIbgpNexthop_false {c : ExportCase} {out : Attrs} {nh : Option Nh}
    (hx : xform c.sess c.path = some (out, nh)) : Spec.badIbgpNexthop c nh = false := by
  simp only [Spec.badIbgpNexthop]
  by_cases hr : Spec.isIbgpRole c.sess.ctx.role = true
  · by_cases hpn : Spec.polNh c = false
    · obtain ⟨as1, hp, _⟩ := xform_some hx
      have hnh := policyStage_nh hp (polNh_false hpn)
      cases hn : c.path.nh with
      | none => simp
      | some n =>
        simp only [hn] at hnh
        simp only [exportNexthop] at hnh
        by_cases hl : c.path.src.isLocal = true
        · have hk : c.path.src.kind = .locl := by simpa [Source.isLocal] using hl
          by_cases hu : n.addr.isUnspecified = true
          · simp [hk, nhAddr_eq, unspecified_eq, hu]
          · simp only [hl, hu, Bool.not_false, Bool.and_self, if_true] at hnh
            simp [hnh]
        · simp only [Spec.isIbgpRole, Bool.or_eq_true, decide_eq_true_eq] at hr
          have : nh = some n := by
            rcases hr with h | h <;> simp [hl, h] at hnh <;> exact hnh
          simp [this]
    · simp [hpn]
  · simp [hr]

theorem mem_insertLp (a : Attr) (as : Attrs) (h : a ∈ as) : a ∈ insertLp as := by
  induction as with
  | nil => cases h
  | cons b rest ih =>
    simp only [insertLp]
    split
    · rcases List.mem_cons.mp h with rfl | h
      · exact List.mem_cons_self ..
      · exact List.mem_cons_of_mem _ (ih h)
    · exact List.mem_cons_of_mem _ h

/-! ### reflection -/

theorem reflected_parts {c : ExportCase} (hwf : Spec.wfExport c = true) (hv : visible c.sess c.path = true)
    (hrf : Spec.reflected c = true) :
    Spec.isIbgpRole c.sess.ctx.role = true ∧ isIbgpLearned c.path.src = true ∧ ∃ cid, c.sess.cluster = some cid := by
  simp only [Spec.reflected, Bool.and_eq_true] at hrf
  have hl := peer_ibgpLearned hwf hrf.1.1 hrf.1.2
  refine ⟨hrf.2, hl, ?_⟩
  have hs := (visible_parts hv).2.1
  have hd : c.sess.ctx.role = .ibgp ∨ c.sess.ctx.role = .rrClient := by
    simpa [Spec.isIbgpRole] using hrf.2
  cases hc : c.sess.cluster with
  | some cid => exact ⟨cid, rfl⟩
  | none =>
    exfalso
    rcases hd with h | h <;> simp [ibgpSplitHorizonSuppress, h, hl, hc] at hs

theorem reflected_W {c : ExportCase} {out : Attrs} {nh : Option Nh} (hwf : Spec.wfExport c = true)
    (hv : visible c.sess c.path = true) (hrf : Spec.reflected c = true)
    (hx : xform c.sess c.path = some (out, nh)) :
    Spec.present 9 out = true ∧ ∃ cid rest, c.sess.cluster = some cid ∧ W 10 out = [.words 10 (cid :: rest)] := by
  obtain ⟨hr, hl, cid, hc⟩ := reflected_parts hwf hv hrf
  obtain ⟨as1, hp, rfl⟩ := xform_some hx
  obtain ⟨_, hw, _⟩ := wf_parts hwf
  have hw4 := mid_wf c.sess c.path (policyStage_wf hp hw)
  have hmid (k : Nat) (hk : k ≠ 8) : W k (mid c.sess c.path as1) =
      W k (rrReflectAttrs as1 c.path.src.routerId cid) := by
    simp only [mid]
    rw [W_llgrStage_other _ _ _ hk]
    simp [reflectStage, hc, hl]
  constructor
  · rw [present_eq, ibgp_W hw4 hr 9 (by decide) (by decide), hmid 9 (by decide), ← present_eq]
    exact present9_rrReflect _ _ _
  · refine ⟨cid, ((findCode 10 as1).bind words?).getD [], hc, ?_⟩
    rw [ibgp_W hw4 hr 10 (by decide) (by decide), hmid 10 (by decide)]
    exact W10_rrReflect _ _ _

theorem badReflectOriginator_false {c : ExportCase} {out : Attrs} {nh : Option Nh} (hwf : Spec.wfExport c = true)
    (hv : visible c.sess c.path = true) (hx : xform c.sess c.path = some (out, nh)) :
    Spec.badReflectOriginator c (sortByCode out) = false := by
  simp only [Spec.badReflectOriginator]
  by_cases hrf : Spec.reflected c = true
  · rw [present_sort, (reflected_W hwf hv hrf hx).1]; simp
  · simp [hrf]

theorem badReflectCluster_false {c : ExportCase} {out : Attrs} {nh : Option Nh} (hwf : Spec.wfExport c = true)
    (hv : visible c.sess c.path = true) (hx : xform c.sess c.path = some (out, nh)) :
    Spec.badReflectCluster c (sortByCode out) = false := by
  simp only [Spec.badReflectCluster]
  by_cases hrf : Spec.reflected c = true
  · obtain ⟨_, cid, rest, hc, hW⟩ := reflected_W hwf hv hrf hx
    rw [hc, wordsOf_sort, wordsOf_W 10 hW]
    simp [wordsOfList]
  · simp [hrf]

/-- a route that is not reflected goes through the reflection stage unchanged -/
theorem badSpuriousReflect_false {c : ExportCase} {out : Attrs} {nh : Option Nh} (hwf : Spec.wfExport c = true)
    (hv : visible c.sess c.path = true) (hx : xform c.sess c.path = some (out, nh)) :
    Spec.badSpuriousReflect c (sortByCode out) = false := by
  simp only [Spec.badSpuriousReflect]
  by_cases hr : Spec.isIbgpRole c.sess.ctx.role = true
  · by_cases hrf : Spec.reflected c = true
    · simp [hrf]
    · obtain ⟨as1, hp, rfl⟩ := xform_some hx
      obtain ⟨_, hw, _⟩ := wf_parts hwf
      have hw4 := mid_wf c.sess c.path (policyStage_wf hp hw)
      have hd : c.sess.ctx.role = .ibgp ∨ c.sess.ctx.role = .rrClient := by
        simpa [Spec.isIbgpRole] using hr
      -- the source is not iBGP-learned
      have hnl : isIbgpLearned c.path.src = false := by
        simp only [Spec.reflected, hr, Bool.and_true, Bool.and_eq_true, not_and, Bool.not_eq_true] at hrf
        cases hk : c.path.src.kind with
        | locl => simp [isIbgpLearned, Source.isLocal, hk]
        | kernel => simp [isIbgpLearned, Source.isLocal, hk]
        | peer =>
          have hpeer : Spec.isPeer c.path.src = true := by simp [Spec.isPeer, hk]
          have hnr := hrf hpeer
          have hrs := (visible_parts hv).2.2
          simp only [rsIsolationSuppress, Source.isRsClient] at hrs
          have hne : c.path.src.remoteAsn ≠ c.path.src.localAsn := by
            apply wf_external hwf hpeer
            cases hro : c.path.src.role with
            | ebgp => exact Or.inl rfl
            | confed => exact Or.inr rfl
            | ibgp => simp [Spec.isIbgpRole, hro] at hnr
            | rrClient => simp [Spec.isIbgpRole, hro] at hnr
            | rsClient =>
              exfalso
              rcases hd with h | h <;> simp [hro, h] at hrs
          simp [isIbgpLearned, hne]
      have hmid (k : Nat) (hk8 : k ≠ 8) : W k (mid c.sess c.path as1) = W k as1 := by
        simp only [mid]
        rw [W_llgrStage_other _ _ _ hk8]
        simp only [reflectStage, hnl]
        cases c.sess.cluster <;> simp
      have h9 : Spec.withCode 9 (sortByCode (exportAttrs c.sess.ctx (mid c.sess c.path as1))) =
          Spec.withCode 9 c.path.attrs := by
        rw [withCode_sort]
        show W 9 _ = W 9 _
        rw [ibgp_W hw4 hr 9 (by decide) (by decide), hmid 9 (by decide), policyStage_other hp 9 (by decide) (by decide)]
      have h10 : Spec.withCode 10 (sortByCode (exportAttrs c.sess.ctx (mid c.sess c.path as1))) =
          Spec.withCode 10 c.path.attrs := by
        rw [withCode_sort]
        show W 10 _ = W 10 _
        rw [ibgp_W hw4 hr 10 (by decide) (by decide), hmid 10 (by decide), policyStage_other hp 10 (by decide) (by decide)]
      rw [h9, h10]; simp
  · simp [hr]

/-! ### confederation -/

theorem badConfedPath_false {c : ExportCase} {out : Attrs} {nh : Option Nh} (hwf : Spec.wfExport c = true)
    (hx : xform c.sess c.path = some (out, nh)) : Spec.badConfedPath c (sortByCode out) = false := by
  simp only [Spec.badConfedPath]
  by_cases hr : c.sess.ctx.role = .confed
  · obtain ⟨as1, hp, rfl⟩ := xform_some hx
    obtain ⟨hd, hw, _⟩ := wf_parts hwf
    have hw4 := mid_wf c.sess c.path (policyStage_wf hp hw)
    have h2 := W2_mid hp
    have hW : W 2 (exportAttrs c.sess.ctx (mid c.sess c.path as1)) =
        [.aspath (asPathPrependConfed c.sess.ctx.localAsn (Spec.pathOf c.path.attrs))] := by
      rw [W_exportAttrs_known _ _ hw4 2 (by decide)]
      simp only [roleAttrs, hr]
      rcases W2_shape hd hw with ⟨h0, hpath⟩ | ⟨segs, h1, hpath, _⟩
      · have hnone : hasCode AS_PATH (mid c.sess c.path as1) = false := by
          rw [hasCode_eq]; show Spec.present 2 _ = false; rw [present_eq, h2, h0]; rfl
        simp only [hnone, Bool.false_eq_true, if_false]
        rw [W_append, W2_mapAsPath _ _ hw4, h2, h0, W_single, hpath]
        simp [Attr.code]
      · have hsome : hasCode AS_PATH (mid c.sess c.path as1) = true := by
          rw [hasCode_eq]; show Spec.present 2 _ = true; rw [present_eq, h2, h1]; rfl
        simp only [hsome, if_true]
        rw [W2_mapAsPath _ _ hw4, h2, h1, hpath]
        rfl
    have hsw : (Spec.pathOf c.path.attrs).all segWf = true := by
      rcases W2_shape hd hw with ⟨_, hp⟩ | ⟨segs, _, hp, hs⟩
      · rw [hp]; rfl
      · rw [hp]; exact hs
    have hlen : (Spec.withCode 2 (sortByCode (exportAttrs c.sess.ctx (mid c.sess c.path as1)))).length = 1 := by
      rw [withCode_sort]; show (W 2 _).length = 1; rw [hW]; rfl
    have hpo : Spec.pathOf (sortByCode (exportAttrs c.sess.ctx (mid c.sess c.path as1))) =
        asPathPrependConfed c.sess.ctx.localAsn (Spec.pathOf c.path.attrs) := by
      rw [pathOf_sort, pathOf_W hW]; rfl
    rw [hlen, hpo, prependedOnce_prependConfed _ _ hsw]
    simp
  · simp [hr]

/-! ### LLGR_STALE -/

/-- COMMUNITY passes `export_attrs` unchanged, whatever the receiver's role -/
theorem W8_export (ctx : Ctx) {as : Attrs} (hw : AllWf as) : W 8 (exportAttrs ctx as) = W 8 as := by
  rw [W_exportAttrs_known _ _ hw 8 (by decide)]
  simp only [roleAttrs]
  cases ctx.role with
  | rsClient => rfl
  | ibgp =>
    simp only [injectLocalPrefIfAbsent]; split
    · rfl
    · exact W_insertLp _ _ (by decide)
  | rrClient =>
    simp only [injectLocalPrefIfAbsent]; split
    · rfl
    · exact W_insertLp _ _ (by decide)
  | confed =>
    simp only
    split
    · exact W_mapAsPath_other _ _ _ (by decide)
    · rw [W_append, W_mapAsPath_other _ _ _ (by decide), W_single]; simp [Attr.code]
  | ebgp =>
    simp only
    have hfilt : W 8 (List.filter (fun a =>
        !(a.code = LOCAL_PREF ∨ a.code = ORIGINATOR_ID ∨ a.code = CLUSTER_LIST ∨ a.code = AIGP)) as) = W 8 as := by
      apply W_filter_other
      intro a ha; simp [ha, LOCAL_PREF, ORIGINATOR_ID, CLUSTER_LIST, AIGP]
    split
    · rw [W_mapAsPath_other _ _ _ (by decide), hfilt]
    · rw [W_append, W_mapAsPath_other _ _ _ (by decide), hfilt, W_single]; simp [Attr.code]

theorem badLlgr_false {c : ExportCase} {out : Attrs} {nh : Option Nh} (hwf : Spec.wfExport c = true)
    (hx : xform c.sess c.path = some (out, nh)) : Spec.badLlgr c (sortByCode out) = false := by
  simp only [Spec.badLlgr]
  by_cases hl : c.path.src.llgr = true
  · obtain ⟨as1, hp, rfl⟩ := xform_some hx
    obtain ⟨_, hw, _⟩ := wf_parts hwf
    have hw3 := allWf_reflectStage c.sess c.path (policyStage_wf hp hw)
    have hw4 := mid_wf c.sess c.path (policyStage_wf hp hw)
    have hmid : mid c.sess c.path as1 = withLlgrStaleCommunity (reflectStage c.sess c.path as1) := by
      simp [mid, llgrStage, hl]
    have : Spec.wordsOf 8 (sortByCode (exportAttrs c.sess.ctx (mid c.sess c.path as1))) =
        Spec.wordsOf 8 (withLlgrStaleCommunity (reflectStage c.sess c.path as1)) := by
      rw [wordsOf_sort, wordsOf_eq, W8_export _ hw4, hmid, ← wordsOf_eq]
    rw [this]
    have := wordsOf8_withLlgr _ hw3
    simp only [LLGR_STALE] at this
    rw [this]; simp
  · simp [hl]

/-! ### unknown attributes -/

/-- an attribute with an unknown code survives every stage up to the opaque pass -/
theorem unknown_mem_roleAttrs {c : ExportCase} {as1 : Attrs} {nh : Option Nh} {a : Attr}
    (hp : policyStage c.sess c.path = some (as1, nh)) (ha : a ∈ c.path.attrs)
    (hu : canonicalFlags a.code = none) : a ∈ roleAttrs c.sess.ctx (mid c.sess c.path as1) := by
  have hne (k : Nat) (hk : (canonicalFlags k).isSome = true) : a.code ≠ k := by
    intro h; rw [h] at hu; rw [hu] at hk; cases hk
  -- pre-policy
  have h1 : a ∈ (prePolicyDefaults c.sess.ctx c.path.attrs c.path.nh c.sess.fam c.path.src.isLocal).1 := by
    simp only [prePolicyDefaults]
    split
    · exact List.mem_filter.mpr ⟨ha, by simp [MED, hne 4 (by decide)]⟩
    · exact ha
  -- policy
  have hcomm (pol : Policy) (as : Attrs) (h : a ∈ as) : a ∈ policyComm pol as := by
    simp only [policyComm]; split
    · exact h
    · exact List.mem_append_left _ (List.mem_filter.mpr ⟨h, by simp [COMMUNITY, hne 8 (by decide)]⟩)
  have hmed (pol : Policy) (as : Attrs) (h : a ∈ as) : a ∈ policyMed pol as := by
    simp only [policyMed]; split
    · exact h
    · exact List.mem_append_left _ (List.mem_filter.mpr ⟨h, by simp [MED, hne 4 (by decide)]⟩)
  have h2 : a ∈ as1 := by
    rcases policyStage_cases hp with ⟨_, e, _⟩ | ⟨pol, _, e, _⟩
    · rw [e]; exact h1
    · rw [e]; simp only [applyPolicy]; split
      · exact hmed _ _ (hcomm _ _ h1)
      · exact h1
  -- reflection
  have h3 : a ∈ reflectStage c.sess c.path as1 := by
    simp only [reflectStage]
    split
    · split
      · simp only [rrReflectAttrs]
        apply List.mem_append_left
        have : a ∈ dropCode CLUSTER_LIST as1 :=
          List.mem_filter.mpr ⟨h2, by simp [CLUSTER_LIST, hne 10 (by decide)]⟩
        split
        · exact this
        · exact List.mem_append_left _ this
      · exact h2
    · exact h2
  -- LLGR
  have h4 : a ∈ mid c.sess c.path as1 := by
    simp only [mid, llgrStage]
    split
    · simp only [withLlgrStaleCommunity]
      split
      · split
        · exact h3
        · apply List.mem_map.mpr
          refine ⟨a, h3, ?_⟩
          have : ¬ a.code = COMMUNITY := by simpa [COMMUNITY] using hne 8 (by decide)
          simp [this]
      · exact List.mem_append_left _ h3
    · exact h3
  -- role-specific rewrite
  have hmap (f : List Seg → List Seg) (as : Attrs) (h : a ∈ as) : a ∈ mapAsPath f as := by
    apply List.mem_map.mpr
    refine ⟨a, h, ?_⟩
    cases a with
    | aspath s => simp [Attr.code, canonicalFlags] at hu
    | _ => rfl
  have hkeep : a ∈ List.filter (fun a =>
      !(a.code = LOCAL_PREF ∨ a.code = ORIGINATOR_ID ∨ a.code = CLUSTER_LIST ∨ a.code = AIGP))
      (mid c.sess c.path as1) := by
    apply List.mem_filter.mpr
    refine ⟨h4, ?_⟩
    have h5 := hne 5 (by decide); have h9 := hne 9 (by decide)
    have h10 := hne 10 (by decide); have h26 := hne 26 (by decide)
    simp [LOCAL_PREF, ORIGINATOR_ID, CLUSTER_LIST, AIGP, h5, h9, h10, h26]
  simp only [roleAttrs]
  cases c.sess.ctx.role with
  | rsClient => exact h4
  | ibgp =>
    simp only [injectLocalPrefIfAbsent]; split
    · exact h4
    · exact mem_insertLp _ _ h4
  | rrClient =>
    simp only [injectLocalPrefIfAbsent]; split
    · exact h4
    · exact mem_insertLp _ _ h4
  | confed =>
    simp only; split
    · exact hmap _ _ h4
    · exact List.mem_append_left _ (hmap _ _ h4)
  | ebgp =>
    simp only
    have hk : a ∈ List.filter (fun a =>
        !(a.code = LOCAL_PREF ∨ a.code = ORIGINATOR_ID ∨ a.code = CLUSTER_LIST ∨ a.code = AIGP))
        (mid c.sess c.path as1) := by
      apply List.mem_filter.mpr
      refine ⟨h4, ?_⟩
      have h5 := hne 5 (by decide); have h9 := hne 9 (by decide)
      have h10 := hne 10 (by decide); have h26 := hne 26 (by decide)
      simp [LOCAL_PREF, ORIGINATOR_ID, CLUSTER_LIST, AIGP, h5, h9, h10, h26]
    split
    · exact hmap _ _ hk
    · exact List.mem_append_left _ (hmap _ _ hk)

theorem mem_opaquePass_partial {as : Attrs} {c f : Nat} {bs : List Nat}
    (h : Attr.opq c f bs ∈ as) (ht : f / 64 % 2 = 1) : Attr.opq c (orPartial f) bs ∈ opaquePass as := by
  simp only [opaquePass]
  have hany : as.any isOpaque = true := List.any_eq_true.mpr ⟨_, h, rfl⟩
  simp only [hany, Bool.not_true, Bool.false_eq_true, if_false]
  apply List.mem_filterMap.mpr
  refine ⟨_, h, ?_⟩
  have : (Attr.opq c f bs).isTransitive = true := by simp [isTransitive, Attr.flags, ht]
  simp [isOpaque, this, withPartialBit]

theorem badOpaqueTransitive_false {c : ExportCase} {out : Attrs} {nh : Option Nh} (hwf : Spec.wfExport c = true)
    (hx : xform c.sess c.path = some (out, nh)) : Spec.badOpaqueTransitive c (sortByCode out) = false := by
  simp only [Spec.badOpaqueTransitive]
  rw [Bool.eq_false_iff]
  intro hbad
  obtain ⟨a, ha, hcond⟩ := List.any_eq_true.mp hbad
  obtain ⟨as1, hp, rfl⟩ := xform_some hx
  obtain ⟨_, hw, _⟩ := wf_parts hwf
  cases a with
  | opq code f bs =>
    simp only [Bool.and_eq_true, decide_eq_true_eq, Bool.not_eq_true'] at hcond
    obtain ⟨ht, hnone⟩ := hcond
    have hu : canonicalFlags (Attr.opq code f bs).code = none := wf_opq_code (hw _ ha) rfl
    have hmem := unknown_mem_roleAttrs hp ha hu
    have hout : Attr.opq code (orPartial f) bs ∈ exportAttrs c.sess.ctx (mid c.sess c.path as1) :=
      mem_opaquePass_partial hmem ht
    rw [any_sortByCode] at hnone
    have hb := orPartial_bits f ht
    have hf := (List.any_eq_false.mp hnone) _ hout
    obtain ⟨h1, h2, h3⟩ := hb
    have h3' : (decide (orPartial f = f) || decide (orPartial f = f + 32)) = true := by
      rcases h3 with h | h
      · simp [h]
      · have : decide (orPartial f = f + 32) = true := by simp [h]
        rw [this]; simp
    simp only [h1, h2, h3', decide_true, Bool.and_self, Bool.not_true] at hf
    exact absurd hf (by simp)
  | val _ _ => simp at hcond
  | aspath _ => simp at hcond
  | words _ _ => simp at hcond
  | bin _ _ => simp at hcond

theorem badOpaqueNonTransitive_false (ctx : Ctx) (as : Attrs) :
    Spec.badOpaqueNonTransitive (sortByCode (exportAttrs ctx as)) = false := by
  simp only [Spec.badOpaqueNonTransitive]
  rw [any_sortByCode, Bool.eq_false_iff]
  intro hbad
  obtain ⟨b, hb, hcond⟩ := List.any_eq_true.mp hbad
  simp only [exportAttrs, opaquePass] at hb
  split at hb
  · rename_i hno
    cases b with
    | opq c f bs =>
      have : (roleAttrs ctx as).any isOpaque = true := List.any_eq_true.mpr ⟨_, hb, rfl⟩
      rw [this] at hno; cases hno
    | _ => simp at hcond
  · obtain ⟨a, ha, hf⟩ := List.mem_filterMap.mp hb
    by_cases ho : a.isOpaque = true
    · simp only [ho, Bool.not_true, Bool.false_eq_true, if_false] at hf
      split at hf
      · rename_i ht
        cases hf
        cases a with
        | opq c f bs =>
          have ht' : f / 64 % 2 = 1 := of_decide_eq_true ht
          simp only [withPartialBit, decide_eq_true_eq] at hcond
          have := (orPartial_bits f ht').2.1
          omega
        | _ => simp [isOpaque] at ho
      · cases hf
    · simp only [ho, Bool.not_false, if_true, Option.some.injEq] at hf
      subst hf
      cases a with
      | opq c f bs => simp [isOpaque] at ho
      | _ => simp at hcond

/-! ## E. the master theorem for the export half -/

theorem firstFail_ok {l : List (Bool × String)} (h : ∀ x ∈ l, x.1 = false) : Spec.firstFail l = .ok := by
  induction l with
  | nil => rfl
  | cons x rest ih =>
    obtain ⟨b, s⟩ := x
    have hb : b = false := h (b, s) (List.mem_cons_self ..)
    subst hb
    simp only [Spec.firstFail, Bool.false_eq_true, if_false]
    exact ih (fun y hy => h y (List.mem_cons_of_mem _ hy))

/-- every clause but the one about RS clients holds on what the model sends, whoever the receiver is -/
theorem clauses_exportOne {c : ExportCase} {out : Attrs} {nh : Option Nh} (hwf : Spec.wfExport c = true)
    (hv : visible c.sess c.path = true) (hx : xform c.sess c.path = some (out, nh)) :
    ∀ x ∈ Spec.exportClauses c nh (sortByCode out), x.2 ≠ "rs-client-internal-attribute-sent" → x.1 = false := by
  intro x hxm hne
  simp only [Spec.exportClauses, List.mem_cons, List.mem_nil_iff, or_false] at hxm
  rcases hxm with rfl | rfl | rfl | rfl | rfl | rfl | rfl | rfl | rfl | rfl | rfl | rfl | rfl | rfl | rfl | rfl | rfl | rfl
  · exact badEcho_false hv
  · exact badNonClient_false hwf hv
  · exact badRsBoundary_false hv
  · exact badEbgpPath_false hwf hx
  · exact badEbgpInternal_false hwf hx
  · exact badEbgpMed_false hwf hx
  · exact badEbgpNexthop_false hx
  · exact absurd rfl hne
  · exact badIbgpLocalPref_false hwf hx
  · exact badIbgpPath_false hwf hx
  · exact badIbgpNexthop_false hx
  · exact badReflectOriginator_false hwf hv hx
  · exact badReflectCluster_false hwf hv hx
  · exact badSpuriousReflect_false hwf hv hx
  · exact badConfedPath_false hwf hx
  · exact badLlgr_false hwf hx
  · exact badOpaqueTransitive_false hwf hx
  · obtain ⟨as1, _, rfl⟩ := xform_some hx
    exact badOpaqueNonTransitive_false _ _

theorem checkExport_exportOne (c : ExportCase) (hrs : c.sess.ctx.role ≠ .rsClient) :
    Spec.checkExport c (exportOne c) = .ok := by
  unfold Spec.checkExport
  by_cases hwf : Spec.wfExport c = true
  · simp only [hwf, Bool.not_true, Bool.false_eq_true, if_false]
    rcases exportOne_cases c with h | ⟨hv, out, nh, pid, hx, h⟩
    · rw [h]
    · rw [h]
      apply firstFail_ok
      intro x hxm
      by_cases hn : x.2 = "rs-client-internal-attribute-sent"
      · simp only [Spec.exportClauses, List.mem_cons, List.mem_nil_iff, or_false] at hxm
        rcases hxm with rfl | rfl | rfl | rfl | rfl | rfl | rfl | rfl | rfl | rfl | rfl | rfl | rfl | rfl | rfl | rfl | rfl | rfl <;>
          first | exact badRsInternal_false _ hrs | (simp at hn)
      · exact clauses_exportOne hwf hv hx x hxm hn
  · simp [hwf]

/-! ## F. inbound loop checks -/

theorem asPathCount_pos (asn : Nat) (segs : List Seg) :
    (segs.flatMap (·.2)).contains asn = true → asPathCount asn segs > 0 := by
  intro h
  induction segs with
  | nil => simp at h
  | cons s rest ih =>
    simp only [List.flatMap_cons, List.contains_eq_mem, List.mem_append, decide_eq_true_eq] at h
    simp only [asPathCount, List.map_cons, List.sum_cons]
    rcases h with h | h
    · have : (s.2.filter (· = asn)).length > 0 := by
        apply List.length_pos_of_mem (a := asn)
        exact List.mem_filter.mpr ⟨h, by simp⟩
      omega
    · have := ih (by simpa using h)
      simp only [asPathCount] at this
      omega

theorem checkRx_rxInstalled (c : RxCase) : Spec.checkRx c (rxInstalled c) = .ok := by
  unfold Spec.checkRx
  by_cases hwf : (Spec.codesDistinct c.attrs && c.attrs.all Attr.wf) = true
  · simp only [hwf, Bool.not_true, Bool.false_eq_true, if_false]
    simp only [Bool.and_eq_true] at hwf
    have hd := hwf.1
    have hw := allWf_of_all hwf.2
    apply firstFail_ok
    intro x hxm
    simp only [List.mem_cons, List.mem_nil_iff, or_false] at hxm
    rcases hxm with rfl | rfl | rfl
    · -- AS loop
      show (rxInstalled c && Spec.rxAsLoop c) = false
      rw [Bool.eq_false_iff]; intro hb
      simp only [Bool.and_eq_true] at hb
      obtain ⟨hi, hl⟩ := hb
      simp only [rxInstalled] at hi
      have hnl : isAsLoop c.attrs c.localAsn c.confedId = false := by
        cases h : isAsLoop c.attrs c.localAsn c.confedId with
        | false => rfl
        | true => simp [h] at hi
      simp only [Spec.rxAsLoop, Bool.or_eq_true, Bool.and_eq_true, decide_eq_true_eq] at hl
      rcases W2_shape hd hw with ⟨h0, hpath⟩ | ⟨segs, h1, hpath, _⟩
      · rw [hpath] at hl; simp at hl
      · rw [hpath] at hl
        have hf : findCode AS_PATH c.attrs = some (.aspath segs) := by
          rw [findCode_eq]; show (W 2 c.attrs).head? = _; rw [h1]; rfl
        simp only [isAsLoop, hf] at hnl
        rcases hl with hl | ⟨hne, hl⟩
        · have := asPathCount_pos _ _ hl
          simp [this] at hnl
        · have := asPathCount_pos _ _ hl
          by_cases h1' : asPathCount c.localAsn segs > 0
          · simp [h1'] at hnl
          · by_cases heq : c.confedId = c.localAsn
            · rw [heq] at this; exact absurd this h1'
            · simp [h1', hne, heq, this] at hnl
    · -- ORIGINATOR_ID
      show (rxInstalled c && Spec.rxOriginatorLoop c) = false
      rw [Bool.eq_false_iff]; intro hb
      simp only [Bool.and_eq_true] at hb
      obtain ⟨hi, hl⟩ := hb
      simp only [Spec.rxOriginatorLoop, decide_eq_true_eq] at hl
      rw [valueOf_eq] at hl
      have hrx : rxLoop c = true := by
        simp only [rxLoop]
        cases hW : W 9 c.attrs with
        | nil => rw [hW] at hl; simp [valueOfList] at hl
        | cons a rest =>
          rw [hW] at hl
          have hf : findCode ORIGINATOR_ID c.attrs = some a := by
            rw [findCode_eq]; show (W 9 c.attrs).head? = _; rw [hW]; rfl
          cases a with
          | val code v =>
            simp only [valueOfList, Option.some.injEq] at hl
            simp [hf, value?, hl]
          | _ => simp [valueOfList] at hl
      simp only [rxInstalled, hrx] at hi
      split at hi <;> simp at hi
    · -- CLUSTER_LIST
      show (rxInstalled c && Spec.rxClusterLoop c) = false
      rw [Bool.eq_false_iff]; intro hb
      simp only [Bool.and_eq_true] at hb
      obtain ⟨hi, hl⟩ := hb
      simp only [Spec.rxClusterLoop] at hl
      cases hc : c.cluster with
      | none => simp [hc] at hl
      | some cid =>
        simp only [hc] at hl
        rw [wordsOf_eq] at hl
        have hrx : rxLoop c = true := by
          simp only [rxLoop, hc]
          cases hW : W 10 c.attrs with
          | nil => rw [hW] at hl; simp [wordsOfList] at hl
          | cons a rest =>
            rw [hW] at hl
            have hf : findCode CLUSTER_LIST c.attrs = some a := by
              rw [findCode_eq]; show (W 10 c.attrs).head? = _; rw [hW]; rfl
            cases a with
            | words code ws =>
              simp only [wordsOfList] at hl
              have hm : cid ∈ ws := by simpa using hl
              simp [hf, words?, hm]
            | _ => simp [wordsOfList] at hl
        simp only [rxInstalled, hrx] at hi
        split at hi <;> simp at hi
  · simp [hwf]

/-! ## G. property-level lemmas (readable statements in Props.lean) -/

theorem suppressed_of_not_visible (c : ExportCase) (h : visible c.sess c.path = false) :
    exportOne c = .suppressed := by
  rcases exportOne_cases c with h' | ⟨hv, _⟩
  · exact h'
  · rw [h] at hv; cases hv

theorem no_echo (c : ExportCase) (h : c.path.src.addr = c.sess.remoteAddr) : exportOne c = .suppressed := by
  apply suppressed_of_not_visible
  simp [visible, h]

theorem no_nonclient_to_nonclient (c : ExportCase)
    (hpeer : c.path.src.kind = .peer) (hasn : c.path.src.remoteAsn = c.path.src.localAsn)
    (hsrc : c.path.src.role ≠ .rrClient) (hdst : c.sess.ctx.role = .ibgp) :
    exportOne c = .suppressed := by
  apply suppressed_of_not_visible
  have hl : isIbgpLearned c.path.src = true := by simp [isIbgpLearned, Source.isLocal, hpeer, hasn]
  have : ibgpSplitHorizonSuppress c.path.src c.sess.ctx.role c.sess.cluster = true := by
    simp only [ibgpSplitHorizonSuppress, hdst, hl, Source.isRrClient]
    cases c.sess.cluster <;> simp [hsrc]
  simp [visible, this]

theorem rs_isolation (c : ExportCase)
    (h : (c.path.src.role = .rsClient) ≠ (c.sess.ctx.role = .rsClient)) : exportOne c = .suppressed := by
  apply suppressed_of_not_visible
  have : rsIsolationSuppress c.path.src c.sess.ctx.role = true := by
    simp only [rsIsolationSuppress, Source.isRsClient]
    by_cases h1 : c.path.src.role = .rsClient <;> by_cases h2 : c.sess.ctx.role = .rsClient <;> simp_all
  simp [visible, this]

theorem as_loop_rejected (c : RxCase) (segs : List Seg) (hf : findCode AS_PATH c.attrs = some (.aspath segs))
    (h : (segs.flatMap (·.2)).contains c.localAsn = true ∨
         (c.confedId ≠ 0 ∧ (segs.flatMap (·.2)).contains c.confedId = true)) :
    rxInstalled c = false := by
  have : isAsLoop c.attrs c.localAsn c.confedId = true := by
    simp only [isAsLoop, hf]
    rcases h with h | ⟨hne, h⟩
    · simp [asPathCount_pos _ _ h]
    · have := asPathCount_pos _ _ h
      by_cases h1 : asPathCount c.localAsn segs > 0
      · simp [h1]
      · by_cases heq : c.confedId = c.localAsn
        · rw [heq] at this; exact absurd this h1
        · simp [h1, hne, heq, this]
  simp [rxInstalled, this]

theorem originator_loop_rejected (c : RxCase) (v : Nat)
    (hf : findCode ORIGINATOR_ID c.attrs = some (.val ORIGINATOR_ID v)) (h : v = c.routerId) :
    rxInstalled c = false := by
  have : rxLoop c = true := by simp [rxLoop, hf, value?, h]
  simp only [rxInstalled, this]
  split <;> rfl

theorem cluster_loop_rejected (c : RxCase) (cid : Nat) (ws : List Nat) (hc : c.cluster = some cid)
    (hf : findCode CLUSTER_LIST c.attrs = some (.words CLUSTER_LIST ws)) (h : cid ∈ ws) :
    rxInstalled c = false := by
  have : rxLoop c = true := by simp [rxLoop, hc, hf, words?, h]
  simp only [rxInstalled, this]
  split <;> rfl

/-- first AS number of a path -/
def firstAs : List Seg → Option Nat
  | (_, a :: _) :: _ => some a
  | _ => none

theorem prepend_first_as (a : Nat) (segs : List Seg) : firstAs (asPathPrepend a segs) = some a := by
  cases segs with
  | nil => rfl
  | cons s rest =>
    obtain ⟨t, as⟩ := s
    simp only [asPathPrepend]; split <;> rfl

theorem prepend_hops (a : Nat) (segs : List Seg) :
    asPathLength (asPathPrepend a segs) = asPathLength segs + 1 := by
  cases segs with
  | nil => simp [asPathPrepend, asPathLength]
  | cons s rest =>
    obtain ⟨t, as⟩ := s
    simp only [asPathPrepend]
    split
    · rename_i h
      simp only [asPathLength, List.map_cons, List.sum_cons, h.1, if_true, List.length_cons]
      omega
    · simp only [asPathLength, List.map_cons, List.sum_cons, if_true, List.length_cons, List.length_nil]
      omega

theorem prepend_strip_no_confed (a : Nat) (segs : List Seg) :
    ∀ s ∈ asPathPrepend a (asPathStripConfed segs), s.1 ≠ 3 ∧ s.1 ≠ 4 := by
  have hs : ∀ s ∈ asPathStripConfed segs, s.1 ≠ 3 ∧ s.1 ≠ 4 := by
    intro s hs
    have := (List.mem_filter.mp hs).2
    simpa using this
  intro s hmem
  cases hstr : asPathStripConfed segs with
  | nil => rw [hstr] at hmem; simp [asPathPrepend] at hmem; subst hmem; simp
  | cons x rest =>
    obtain ⟨t, as⟩ := x
    rw [hstr] at hmem hs
    simp only [asPathPrepend] at hmem
    split at hmem
    · rename_i hc
      rcases List.mem_cons.mp hmem with rfl | h
      · simp
      · exact hs s (List.mem_cons_of_mem _ h)
    · rcases List.mem_cons.mp hmem with rfl | h
      · simp
      · exact hs s h

theorem prepend_full_segment_fresh (a : Nat) (as : List Nat) (rest : List Seg) (h : as.length = 255) :
    asPathPrepend a ((2, as) :: rest) = (2, [a]) :: (2, as) :: rest := by
  simp [asPathPrepend, h]

theorem ebgp_path {c : ExportCase} {out : Attrs} {nh : Option Nh} (hwf : Spec.wfExport c = true)
    (hr : c.sess.ctx.role = .ebgp) (hx : xform c.sess c.path = some (out, nh)) :
    (Spec.withCode 2 out).length = 1 ∧
    Spec.pathOf out = asPathPrepend (Spec.visibleAs c) (asPathStripConfed (Spec.pathOf c.path.attrs)) := by
  have h2 := ebgp_W2 hwf hr hx
  constructor
  · show (W 2 out).length = 1; rw [h2]; rfl
  · rw [pathOf_W h2]; rfl

theorem ebgp_strips {c : ExportCase} {out : Attrs} {nh : Option Nh} (hwf : Spec.wfExport c = true)
    (hr : c.sess.ctx.role = .ebgp) (hx : xform c.sess c.path = some (out, nh)) :
    Spec.present 5 out = false ∧ Spec.present 9 out = false ∧ Spec.present 10 out = false ∧
    Spec.present 26 out = false ∧
    ((∀ pol, c.sess.policy = some pol → pol.med = none) → Spec.present 4 out = false) := by
  have h (k : Nat) (hk : k = 5 ∨ k = 9 ∨ k = 10 ∨ k = 26) : Spec.present k out = false := by
    rw [present_eq, ebgp_W_removed hwf hr hx k hk]; rfl
  refine ⟨h 5 (by simp), h 9 (by simp), h 10 (by simp), h 26 (by simp), ?_⟩
  intro hpol
  obtain ⟨as1, hp, rfl⟩ := xform_some hx
  obtain ⟨_, hw, _⟩ := wf_parts hwf
  have hw4 := mid_wf c.sess c.path (policyStage_wf hp hw)
  rw [present_eq, ebgp_W_kept hw4 hr 4 (by decide) (by decide), mid_other _ _ _ _ (by decide) (by decide) (by decide)]
  have hmed := policyStage_med_ebgp hp hr
  cases hpo : c.sess.policy with
  | none => simp only [hpo] at hmed; rw [hmed]; rfl
  | some pol =>
    simp only [hpo, hpol pol hpo] at hmed; rw [hmed]; rfl

theorem ebgp_nexthop_self {c : ExportCase} {out : Attrs} {nh : Option Nh}
    (hr : c.sess.ctx.role = .ebgp) (hx : xform c.sess c.path = some (out, nh))
    (hpol : ∀ pol, c.sess.policy = some pol → pol.nh = none)
    (hloc : ¬ (c.path.src.isLocal = true ∧ ∃ n, c.path.nh = some n ∧ n.addr.isUnspecified = false))
    (hfs : ¬ (c.sess.fam.isFlowspec = true ∧ c.path.nh = none)) :
    nh = some (selfNh c.sess.ctx) := by
  obtain ⟨as1, hp, _⟩ := xform_some hx
  rw [policyStage_nh hp hpol]
  cases hn : c.path.nh with
  | none =>
    have : c.sess.fam.isFlowspec = false := by
      cases h : c.sess.fam.isFlowspec with
      | false => rfl
      | true => exact absurd ⟨h, hn⟩ hfs
    simp [exportNexthop, this]
  | some n =>
    simp only [exportNexthop]
    by_cases hl : c.path.src.isLocal = true
    · have hu : n.addr.isUnspecified = true := by
        cases h : n.addr.isUnspecified with
        | true => rfl
        | false => exact absurd ⟨hl, n, hn, h⟩ hloc
      simp [hl, hu]
    · simp [hl, hr]

theorem ibgp_local_pref_present {c : ExportCase} {out : Attrs} {nh : Option Nh} (hwf : Spec.wfExport c = true)
    (hr : c.sess.ctx.role = .ibgp ∨ c.sess.ctx.role = .rrClient)
    (hx : xform c.sess c.path = some (out, nh)) : Spec.present 5 out = true := by
  have hr' : Spec.isIbgpRole c.sess.ctx.role = true := by simpa [Spec.isIbgpRole] using hr
  have := badIbgpLocalPref_false hwf hx
  simp only [Spec.badIbgpLocalPref, hr', Bool.true_and, Bool.not_eq_false'] at this
  rw [present_sort] at this
  simpa using this

theorem ibgp_path_nh_untouched {c : ExportCase} {out : Attrs} {nh : Option Nh} (hwf : Spec.wfExport c = true)
    (hr : c.sess.ctx.role = .ibgp ∨ c.sess.ctx.role = .rrClient)
    (hx : xform c.sess c.path = some (out, nh)) :
    Spec.withCode 2 out = Spec.withCode 2 c.path.attrs ∧
    ((∀ pol, c.sess.policy = some pol → pol.nh = none) → ∀ n, c.path.nh = some n →
      ¬ (c.path.src.isLocal = true ∧ n.addr.isUnspecified = true) → nh = some n) := by
  have hr' : Spec.isIbgpRole c.sess.ctx.role = true := by simpa [Spec.isIbgpRole] using hr
  obtain ⟨as1, hp, rfl⟩ := xform_some hx
  obtain ⟨_, hw, _⟩ := wf_parts hwf
  have hw4 := mid_wf c.sess c.path (policyStage_wf hp hw)
  constructor
  · show W 2 _ = W 2 _
    rw [ibgp_W hw4 hr' 2 (by decide) (by decide), W2_mid hp]
  · intro hpol n hn hnot
    rw [policyStage_nh hp hpol, hn]
    simp only [exportNexthop]
    by_cases hl : c.path.src.isLocal = true
    · have hu : n.addr.isUnspecified = false := by
        cases h : n.addr.isUnspecified with
        | false => rfl
        | true => exact absurd ⟨hl, h⟩ hnot
      simp [hl, hu]
    · rcases hr with h | h <;> simp [hl, h]

theorem reflect_adds {c : ExportCase} {out : Attrs} {nh : Option Nh} (hwf : Spec.wfExport c = true)
    (hr : c.sess.ctx.role = .ibgp ∨ c.sess.ctx.role = .rrClient)
    (hl : isIbgpLearned c.path.src = true) (cid : Nat) (hc : c.sess.cluster = some cid)
    (hx : xform c.sess c.path = some (out, nh)) :
    Spec.present 9 out = true ∧ ∃ rest, Spec.withCode 10 out = [.words 10 (cid :: rest)] := by
  have hr' : Spec.isIbgpRole c.sess.ctx.role = true := by simpa [Spec.isIbgpRole] using hr
  obtain ⟨as1, hp, rfl⟩ := xform_some hx
  obtain ⟨_, hw, _⟩ := wf_parts hwf
  have hw4 := mid_wf c.sess c.path (policyStage_wf hp hw)
  have hmid (k : Nat) (hk : k ≠ 8) : W k (mid c.sess c.path as1) =
      W k (rrReflectAttrs as1 c.path.src.routerId cid) := by
    simp only [mid]
    rw [W_llgrStage_other _ _ _ hk]
    simp [reflectStage, hc, hl]
  constructor
  · rw [present_eq, ibgp_W hw4 hr' 9 (by decide) (by decide), hmid 9 (by decide), ← present_eq]
    exact present9_rrReflect _ _ _
  · refine ⟨((findCode 10 as1).bind words?).getD [], ?_⟩
    show W 10 _ = _
    rw [ibgp_W hw4 hr' 10 (by decide) (by decide), hmid 10 (by decide)]
    exact W10_rrReflect _ _ _

theorem confed_path {c : ExportCase} {out : Attrs} {nh : Option Nh} (hwf : Spec.wfExport c = true)
    (hr : c.sess.ctx.role = .confed) (hx : xform c.sess c.path = some (out, nh)) :
    Spec.prependedOnce 3 c.sess.ctx.localAsn (Spec.pathOf c.path.attrs) (Spec.pathOf out) = true ∧
    firstAs (Spec.pathOf out) = some c.sess.ctx.localAsn := by
  have hb := badConfedPath_false hwf hx
  simp only [Spec.badConfedPath, hr, decide_true, Bool.true_and, Bool.not_eq_false', Bool.and_eq_true] at hb
  rw [pathOf_sort] at hb
  refine ⟨hb.2, ?_⟩
  have h := hb.2
  simp only [Spec.prependedOnce, Bool.and_eq_true, Bool.or_eq_true, beq_iff_eq] at h
  rcases h.2 with h1 | h1
  · rw [h1]; rfl
  · cases hp : Spec.pathOf c.path.attrs with
    | nil => rw [hp] at h1; simp at h1
    | cons s rest =>
      obtain ⟨t, as⟩ := s
      rw [hp] at h1
      simp only [Bool.and_eq_true, decide_eq_true_eq, beq_iff_eq] at h1
      rw [h1.2]; rfl

theorem llgr_present {c : ExportCase} {out : Attrs} {nh : Option Nh} (hwf : Spec.wfExport c = true)
    (hl : c.path.src.llgr = true) (hx : xform c.sess c.path = some (out, nh)) :
    (Spec.wordsOf 8 out).contains LLGR_STALE = true := by
  have hb := badLlgr_false hwf hx
  simp only [Spec.badLlgr, hl, Bool.true_and, Bool.not_eq_false'] at hb
  rw [wordsOf_sort] at hb
  exact hb

theorem opaque_transitive_partial {c : ExportCase} {out : Attrs} {nh : Option Nh} (hwf : Spec.wfExport c = true)
    (hx : xform c.sess c.path = some (out, nh)) (code f : Nat) (bs : List Nat)
    (ha : Attr.opq code f bs ∈ c.path.attrs) (ht : f / 64 % 2 = 1) :
    Attr.opq code (orPartial f) bs ∈ out := by
  obtain ⟨as1, hp, rfl⟩ := xform_some hx
  obtain ⟨_, hw, _⟩ := wf_parts hwf
  have hu : canonicalFlags (Attr.opq code f bs).code = none := wf_opq_code (hw _ ha) rfl
  exact mem_opaquePass_partial (unknown_mem_roleAttrs hp ha hu) ht

theorem opaque_nontransitive_dropped (ctx : Ctx) (as : Attrs) (code f : Nat) (bs : List Nat)
    (h : Attr.opq code f bs ∈ exportAttrs ctx as) : f / 64 % 2 = 1 := by
  have hb := badOpaqueNonTransitive_false ctx as
  simp only [Spec.badOpaqueNonTransitive] at hb
  rw [any_sortByCode] at hb
  have := (List.any_eq_false.mp hb) _ h
  simp only [decide_eq_true_eq] at this
  omega

/-! ## G. a route that turns LLGR-stale after it was advertised (`exp2`) -/

def toObs2 : Obs → Obs2
  | .suppressed => .nothing
  | .reach p n a => .reach p n a
  | .other => .other

theorem visible_stale (s : Sess) (p : Path) : visible s (stalePath p) = visible s p := rfl
theorem policyStage_stale (s : Sess) (p : Path) : policyStage s (stalePath p) = policyStage s p := rfl

theorem xform_stale_isSome (s : Sess) (p : Path) : (xform s (stalePath p)).isSome = (xform s p).isSome := by
  simp only [xform, policyStage_stale]
  cases policyStage s p <;> rfl

/-- the second half of `exportTwice` is a fresh export of the stale route: advertised again exactly
    when it was advertised before -/
theorem exportTwice_eq (c : ExportCase) :
    exportTwice c = (exportOne c, toObs2 (exportOne (Spec.staleCase c))) := by
  have hst : (Spec.staleCase c).path = stalePath c.path := rfl
  have hss : (Spec.staleCase c).sess = c.sess := rfl
  have hsome := xform_stale_isSome c.sess c.path
  unfold exportTwice exportOne processNlriChange
  simp only [hst, hss, Sess.exp, visible_stale]
  by_cases hmax : c.sess.max = 1
  · simp only [hmax, if_true]
    by_cases hv : visible c.sess c.path = true
    · have hv' : visible c.sess (stalePath c.path) = true := hv
      cases hx : xform c.sess c.path with
      | none =>
        rw [hx] at hsome
        have hx' : xform c.sess (stalePath c.path) = none := by
          cases h : xform c.sess (stalePath c.path) with
          | none => rfl
          | some _ => rw [h] at hsome; cases hsome
        simp [hv, hv', hx, hx', ExportMap.wasSent, ExportMap.empty, obs1Of, obs2Of, toObs2]
      | some r =>
        rw [hx] at hsome
        cases hx' : xform c.sess (stalePath c.path) with
        | none => rw [hx'] at hsome; cases hsome
        | some r' => simp [hv, hv', hx, hx', obs1Of, obs2Of, toObs2]
    · have hv' : ¬ visible c.sess (stalePath c.path) = true := hv
      simp [hv, hv', ExportMap.wasSent, ExportMap.empty, obs1Of, obs2Of, toObs2]
  · simp only [hmax, if_false]
    by_cases hv : visible c.sess c.path = true
    · have hv' : visible c.sess (stalePath c.path) = true := hv
      by_cases h0 : c.sess.max = 0
      · simp [h0, ExportMap.sentPathIds, ExportMap.empty, obs1Of, obs2Of, toObs2]
      · have htake : ∀ q : Path, List.take c.sess.max [q] = [q] := by
          intro q
          cases hm : c.sess.max with
          | zero => exact absurd hm h0
          | succ n => simp
        cases hx : xform c.sess c.path with
        | none =>
          rw [hx] at hsome
          have hx' : xform c.sess (stalePath c.path) = none := by
            cases h : xform c.sess (stalePath c.path) with
            | none => rfl
            | some _ => rw [h] at hsome; cases hsome
          simp [hv, hv', htake, hx, hx', ExportMap.sentPathIds, ExportMap.empty, obs1Of, obs2Of, toObs2]
        | some r =>
          rw [hx] at hsome
          cases hx' : xform c.sess (stalePath c.path) with
          | none => rw [hx'] at hsome; cases hsome
          | some r' =>
            have hpid : (stalePath c.path).pid = c.path.pid := rfl
            simp [hv, hv', htake, hx, hx', hpid, hmax, ExportMap.sentPathIds, ExportMap.empty, ExportMap.containsPath,
                  ExportMap.key, ExportMap.markSent, obs1Of, obs2Of, toObs2]
    · have hv' : ¬ visible c.sess (stalePath c.path) = true := hv
      simp [hv, hv', ExportMap.sentPathIds, ExportMap.empty, obs1Of, obs2Of, toObs2]

def isReach : Obs → Bool
  | .reach _ _ _ => true
  | _ => false

/-- when `exportOne` advertises -/
theorem exportOne_isReach (c : ExportCase) :
    isReach (exportOne c) = (visible c.sess c.path && (xform c.sess c.path).isSome && (c.sess.max != 0)) := by
  unfold exportOne processNlriChange
  simp only [Sess.exp]
  by_cases hmax : c.sess.max = 1
  · simp only [hmax, if_true]
    by_cases hv : visible c.sess c.path = true
    · cases hx : xform c.sess c.path with
      | none => simp [hv, hx, ExportMap.wasSent, ExportMap.empty, isReach]
      | some r => simp [hv, hx, isReach]
    · simp [hv, ExportMap.wasSent, ExportMap.empty, isReach]
  · simp only [hmax, if_false]
    by_cases hv : visible c.sess c.path = true
    · by_cases h0 : c.sess.max = 0
      · simp [h0, ExportMap.sentPathIds, ExportMap.empty, isReach]
      · have htake : List.take c.sess.max [c.path] = [c.path] := by
          cases hm : c.sess.max with
          | zero => exact absurd hm h0
          | succ n => simp
        cases hx : xform c.sess c.path with
        | none => simp [hv, htake, hx, ExportMap.sentPathIds, ExportMap.empty, isReach]
        | some r =>
          simp [hv, htake, hx, h0, ExportMap.sentPathIds, ExportMap.empty, ExportMap.containsPath,
                ExportMap.key, isReach]
    · simp [hv, ExportMap.sentPathIds, ExportMap.empty, isReach]

theorem wf_stale (c : ExportCase) : Spec.wfExport (Spec.staleCase c) = Spec.wfExport c := rfl

/-- the reference checker accepts what the model does with a route that turns LLGR-stale -/
theorem checkExport2_exportTwice (c : ExportCase) (hrs : c.sess.ctx.role ≠ .rsClient) :
    Spec.checkExport2 c (exportTwice c).1 (exportTwice c).2 = .ok := by
  rw [exportTwice_eq]
  simp only [Spec.checkExport2]
  split
  · rfl
  · rw [checkExport_exportOne c hrs]
    simp only
    have h2 := checkExport_exportOne (Spec.staleCase c) hrs
    -- advertised before ⇔ advertised again
    have hsame : isReach (exportOne (Spec.staleCase c)) = isReach (exportOne c) := by
      rw [exportOne_isReach, exportOne_isReach]
      have h1 : visible (Spec.staleCase c).sess (Spec.staleCase c).path = visible c.sess c.path := rfl
      have h3 : (xform (Spec.staleCase c).sess (Spec.staleCase c).path).isSome = (xform c.sess c.path).isSome :=
        xform_stale_isSome c.sess c.path
      have h4 : (Spec.staleCase c).sess.max = c.sess.max := rfl
      rw [h1, h3, h4]
    cases ho : exportOne (Spec.staleCase c) with
    | suppressed =>
      simp only [toObs2]
      rw [ho] at hsame
      cases h1 : exportOne c with
      | reach pid nh as => rw [h1] at hsame; simp [isReach] at hsame
      | suppressed => rfl
      | other => rfl
    | reach pid nh as => simp only [toObs2]; rw [← ho]; exact h2
    | other =>
      rcases exportOne_cases (Spec.staleCase c) with h | ⟨_, _, _, _, _, h⟩ <;> rw [h] at ho <;> cases ho

end Rbgp.Export.Proofs
