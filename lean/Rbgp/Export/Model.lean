/-
  Rbgp.Export.Model — executable model of daemon/src/event/export.rs (per-peer export
  filters and attribute rewriting, `ExportMap`, `process_nlri_change`), of the AS_PATH
  helpers of packet/src/bgp.rs it calls, and of the inbound loop checks of
  daemon/src/event/mod.rs (`is_as_loop` call site in `run_select`, `rx_update`).

  One Lean function per Rust function, same branch order.  Attributes are structured:
  AS_PATH is a list of typed segments, COMMUNITY / CLUSTER_LIST are lists of 32-bit
  words, ORIGIN / MED / LOCAL_PREF / ORIGINATOR_ID carry a value, everything else is a
  byte string; unknown attributes are `opaque` and keep their wire flags.  The harness
  converts to and from `packet::Attribute` (segment count byte = list length, so a
  segment never holds more than 255 AS numbers: `Attr.wf`).

  Import-free (core only) so that the driver links as a `lean_exe`.
-/
namespace Rbgp.Export

/-! ## Attributes -/

/-- AS_PATH segment: (type, AS numbers).  Types: 1 SET, 2 SEQUENCE, 3 CONFED_SEQUENCE, 4 CONFED_SET. -/
abbrev Seg := Nat × List Nat

inductive Attr where
  /-- `AttributeData::Val` (ORIGIN 1, MED 4, LOCAL_PREF 5, ORIGINATOR_ID 9); canonical flags. -/
  | val (code v : Nat)
  /-- AS_PATH (code 2), `AttributeData::Bin` holding well-formed segments. -/
  | aspath (segs : List Seg)
  /-- COMMUNITY (8) / CLUSTER_LIST (10): `Bin` whose length is a multiple of 4. -/
  | words (code : Nat) (ws : List Nat)
  /-- any other known attribute, `Bin`. -/
  | bin (code : Nat) (bs : List Nat)
  /-- unknown attribute kept as received, `AttributeData::Opaque`, wire flags preserved. -/
  | opq (code flags : Nat) (bs : List Nat)
  deriving DecidableEq, Repr, Inhabited

abbrev Attrs := List Attr

namespace Attr
def ORIGIN := 1
def AS_PATH := 2
def MED := 4
def LOCAL_PREF := 5
def COMMUNITY := 8
def ORIGINATOR_ID := 9
def CLUSTER_LIST := 10
def AIGP := 26
def FLAG_PARTIAL := 32
def FLAG_TRANSITIVE := 64
def FLAG_OPTIONAL := 128
def LLGR_STALE := 4294901766      -- 0xFFFF0006
def DEFAULT_LOCAL_PREF := 100

def code : Attr → Nat
  | val c _ => c
  | aspath _ => 2
  | words c _ => c
  | bin c _ => c
  | opq c _ _ => c

/-- `Attribute::is_opaque` -/
def isOpaque : Attr → Bool
  | opq _ _ _ => true
  | _ => false

/-- `Attribute::canonical_flags` restricted to the codes the export path creates or the
    harness prints (it prints flags only for opaque attributes). -/
def canonicalFlags (c : Nat) : Option Nat :=
  if c = 1 ∨ c = 2 ∨ c = 3 ∨ c = 5 ∨ c = 6 then some 64
  else if c = 4 ∨ c = 9 ∨ c = 10 ∨ c = 14 ∨ c = 15 ∨ c = 26 ∨ c = 29 then some 128
  else if c = 7 ∨ c = 8 ∨ c = 16 ∨ c = 17 ∨ c = 18 ∨ c = 32 ∨ c = 40 ∨ c = 23 then some 192
  else none

def flags : Attr → Nat
  | opq _ f _ => f
  | a => (canonicalFlags a.code).getD 0

/-- `Attribute::is_transitive` -/
def isTransitive (a : Attr) : Bool := a.flags / 64 % 2 = 1

/-- `flags | FLAG_PARTIAL` on a byte. -/
def orPartial (f : Nat) : Nat := if f / 32 % 2 = 1 then f else f + 32

/-- `Attribute::with_partial_bit` (only ever applied to opaque attributes). -/
def withPartialBit : Attr → Attr
  | opq c f bs => opq c (orPartial f) bs
  | a => a

/-- `Attribute::value` -/
def value? : Attr → Option Nat
  | val _ v => some v
  | _ => none

/-- 32-bit words of a `Bin` payload that the code reads with `chunks(4)`. -/
def words? : Attr → Option (List Nat)
  | words _ ws => some ws
  | _ => none

/-- What `Attribute::decode` + the harness constructors guarantee. -/
def segWf (s : Seg) : Bool := 1 ≤ s.1 ∧ s.1 ≤ 4 ∧ s.2.length ≤ 255

def wf : Attr → Bool
  | val c _ => c = 1 ∨ c = 4 ∨ c = 5 ∨ c = 9
  | aspath segs => segs.all segWf
  | words c _ => c = 8 ∨ c = 10
  | bin c _ => (canonicalFlags c).isSome ∧ c ≠ 1 ∧ c ≠ 2 ∧ c ≠ 4 ∧ c ≠ 5 ∧ c ≠ 8 ∧ c ≠ 9 ∧ c ≠ 10
  | opq c f _ => (canonicalFlags c).isNone ∧ f < 256
end Attr

open Attr

def hasCode (c : Nat) (as : Attrs) : Bool := as.any (fun a => a.code = c)
def findCode (c : Nat) (as : Attrs) : Option Attr := as.find? (fun a => a.code = c)
def dropCode (c : Nat) (as : Attrs) : Attrs := as.filter (fun a => a.code ≠ c)

/-! ## AS_PATH helpers (packet/src/bgp.rs) -/

/-- `Attribute::as_path_prepend` on the segment list. -/
def asPathPrepend (asn : Nat) : List Seg → List Seg
  | [] => [(2, [asn])]
  | (t, as) :: rest =>
      if t = 2 ∧ as.length < 255 then (2, asn :: as) :: rest
      else (2, [asn]) :: (t, as) :: rest

/-- `Attribute::as_path_prepend_confed` -/
def asPathPrependConfed (asn : Nat) : List Seg → List Seg
  | [] => [(3, [asn])]
  | (t, as) :: rest =>
      if t = 3 ∧ as.length < 255 then (3, asn :: as) :: rest
      else (3, [asn]) :: (t, as) :: rest

/-- `Attribute::as_path_strip_confed` -/
def asPathStripConfed (segs : List Seg) : List Seg :=
  segs.filter (fun s => s.1 ≠ 3 ∧ s.1 ≠ 4)

/-- `Attribute::as_path_count` -/
def asPathCount (asn : Nat) (segs : List Seg) : Nat :=
  (segs.map (fun s => (s.2.filter (· = asn)).length)).sum

/-- `Attribute::as_path_length` (hops: SEQUENCE members + 1 per SET, confed segments 0);
    `Nat`, the `u8` accumulator overflow is C02's subject. -/
def asPathLength (segs : List Seg) : Nat :=
  (segs.map (fun s => if s.1 = 2 then s.2.length else if s.1 = 1 then 1 else 0)).sum

def mapAsPath (f : List Seg → List Seg) (as : Attrs) : Attrs :=
  as.map (fun a => match a with | aspath s => aspath (f s) | a => a)

/-! ## Roles, sources, contexts -/

inductive Role where
  | ebgp | rsClient | ibgp | rrClient | confed
  deriving DecidableEq, Repr, Inhabited

inductive SrcKind where
  | locl | kernel | peer
  deriving DecidableEq, Repr, Inhabited

inductive Addr where
  | v4 (a : Nat) | v6 (a : Nat)
  deriving DecidableEq, Repr, Inhabited

inductive Nh where
  | v4 (a : Nat) | v6 (a : Nat) | v6ll (a l : Nat)
  deriving DecidableEq, Repr, Inhabited

/-- `Nexthop::addr` -/
def Nh.addr : Nh → Addr
  | .v4 a => .v4 a
  | .v6 a => .v6 a
  | .v6ll a _ => .v6 a

def Addr.isUnspecified : Addr → Bool
  | .v4 a => a = 0
  | .v6 a => a = 0

/-- `table::Source`.  `Source::local()` / `Source::kernel()` are the two singletons
    (address 0.0.0.0, AS 0/0, router-id 0, role Ibgp); identity is `kind`. -/
structure Source where
  kind : SrcKind
  addr : Addr
  remoteAsn : Nat
  localAsn : Nat
  routerId : Nat
  role : Role
  llgr : Bool
  deriving DecidableEq, Repr, Inhabited

def Source.isLocal (s : Source) : Bool := s.kind = .locl
def Source.isRrClient (s : Source) : Bool := s.role = .rrClient
def Source.isRsClient (s : Source) : Bool := s.role = .rsClient

inductive Fam where
  | ipv4 | ipv6 | fs4
  deriving DecidableEq, Repr, Inhabited

def Fam.isFlowspec : Fam → Bool
  | .fs4 => true
  | _ => false

/-- `PeerExportContext` -/
structure Ctx where
  role : Role
  localAsn : Nat
  localAddr : Addr
  linkAddr : Option Nat
  confedId : Nat
  deriving DecidableEq, Repr, Inhabited

/-- `table::Path` (+ `attrId`, `srcIdx`: identities of the two `Arc`s, used only by the RIB model). -/
structure Path where
  pid : Nat
  src : Source
  nh : Option Nh
  attrs : Attrs
  attrId : Nat := 0
  /-- identity of the `Arc<Source>` (index into the case's source list), RIB model only: the
      LLGR-stale flag lives on the shared source and is read when a change is *processed* -/
  srcIdx : Nat := 0
  deriving DecidableEq, Repr, Inhabited

/-! ## Export policy: the fragment the C09/C01 cases use (one unconditional statement) -/

inductive NhAct where
  | addr (a : Addr) | self | peer | unchanged
  deriving DecidableEq, Repr, Inhabited

inductive MedAct where
  | set (v : Int) | mod (d : Int)
  deriving DecidableEq, Repr, Inhabited

inductive Disp where
  | pass | accept | reject
  deriving DecidableEq, Repr, Inhabited

/-- A `PolicyAssignment` with one policy holding one statement (`nh`, `med` actions, `comm` =
    community ADD action, statement disposition `disp`) and default disposition `dflt`.
    `cond = some v` is the single condition `Condition::Origin(v)`, `none` = no condition. -/
structure Policy where
  cond : Option Nat := none
  nh : Option NhAct
  med : Option MedAct
  comm : List Nat := []
  disp : Disp
  dflt : Disp
  deriving DecidableEq, Repr, Inhabited

def addrToNh : Addr → Nh
  | .v4 a => .v4 a
  | .v6 a => .v6 a

def clampU32 (i : Int) : Nat := if i < 0 then 0 else if i > 4294967295 then 4294967295 else i.toNat

/-- the statement's conditions (`Condition::Origin(v)` or none) -/
def policyMatched (p : Policy) (attrs : Attrs) : Bool :=
  match p.cond with
  | none => true
  | some v => ((findCode ORIGIN attrs).bind value?) = some v

/-- nexthop action of `Statement::apply` -/
def policyNh (p : Policy) (nh origNh : Option Nh) (localAddr peerAddr : Addr) : Option Nh :=
  match p.nh with
  | none => nh
  | some (.addr a) => some (addrToNh a)
  | some .self => some (addrToNh localAddr)
  | some .peer => some (addrToNh peerAddr)
  | some .unchanged => match origNh with
      | some o => some o
      | none => nh

/-- community ADD action -/
def policyComm (p : Policy) (attrs : Attrs) : Attrs :=
  if p.comm.isEmpty then attrs
  else dropCode COMMUNITY attrs ++ [words COMMUNITY (((findCode COMMUNITY attrs).bind words?).getD [] ++ p.comm)]

def medValue (act : MedAct) (cur : Nat) : Nat :=
  match act with
  | .mod d => clampU32 ((cur : Int) + d)
  | .set v => clampU32 v

/-- MED action -/
def policyMed (p : Policy) (attrs : Attrs) : Attrs :=
  match p.med with
  | none => attrs
  | some act => dropCode MED attrs ++ [val MED (medValue act (((findCode MED attrs).bind value?).getD 0))]

def policyDisp (p : Policy) : Disp :=
  match p.disp with
  | .pass => p.dflt
  | d => d

/-- `Statement::apply` (conditions, then the nexthop, community and MED actions in that order),
    then `Policy::apply` / `PolicyAssignment::apply` (first non-Pass disposition, else the default). -/
def applyPolicy (p : Policy) (attrs : Attrs) (nh : Option Nh) (origNh : Option Nh)
    (localAddr peerAddr : Addr) : Disp × Attrs × Option Nh :=
  if policyMatched p attrs then
    (policyDisp p, policyMed p (policyComm p attrs), policyNh p nh origNh localAddr peerAddr)
  else (p.dflt, attrs, nh)

/-! ## export.rs -/

/-- `is_ibgp_learned` -/
def isIbgpLearned (s : Source) : Bool := !s.isLocal && s.kind != .kernel && s.remoteAsn = s.localAsn

/-- `rs_isolation_suppress` -/
def rsIsolationSuppress (s : Source) (dest : Role) : Bool :=
  s.isRsClient != (dest = .rsClient)

/-- `ibgp_split_horizon_suppress` -/
def ibgpSplitHorizonSuppress (s : Source) (dest : Role) (cluster : Option Nat) : Bool :=
  if !(dest = .ibgp ∨ dest = .rrClient) then false
  else if !isIbgpLearned s then false
  else match cluster with
    | none => true
    | some _ => !s.isRrClient && dest = .ibgp

/-- `inject_local_pref_if_absent`.  The Rust inserts at `partition_point(code < 5)`, which for a
    vector not sorted by code is whatever std's binary search returns; observations are
    stably sorted by code, so only "somewhere, once" matters: the model inserts before the first
    attribute whose code is ≥ 5. -/
def insertLp : Attrs → Attrs
  | [] => [val LOCAL_PREF DEFAULT_LOCAL_PREF]
  | a :: rest => if a.code < 5 then a :: insertLp rest else val LOCAL_PREF DEFAULT_LOCAL_PREF :: a :: rest

def injectLocalPrefIfAbsent (as : Attrs) : Attrs :=
  if hasCode LOCAL_PREF as then as else insertLp as

/-- `rr_reflect_attrs` -/
def rrReflectAttrs (as : Attrs) (srcRouterId cid : Nat) : Attrs :=
  let hasOrig := hasCode ORIGINATOR_ID as
  let existing := ((findCode CLUSTER_LIST as).bind words?).getD []
  let base := dropCode CLUSTER_LIST as
  let withOrig := if hasOrig then base else base ++ [val ORIGINATOR_ID srcRouterId]
  withOrig ++ [words CLUSTER_LIST (cid :: existing)]

/-- `with_llgr_stale_community` -/
def withLlgrStaleCommunity (as : Attrs) : Attrs :=
  match (findCode COMMUNITY as).bind words? with
  | some ws =>
      if ws.contains LLGR_STALE then as
      else as.map (fun a => if a.code = COMMUNITY then words COMMUNITY (ws ++ [LLGR_STALE]) else a)
  | none => as ++ [words COMMUNITY [LLGR_STALE]]

/-- the opaque-attribute pass at the end of `export_attrs` -/
def opaquePass (as : Attrs) : Attrs :=
  if !as.any isOpaque then as
  else as.filterMap (fun a =>
    if !a.isOpaque then some a
    else if a.isTransitive then some a.withPartialBit
    else none)

/-- the role-specific part of `export_attrs`, before the opaque pass -/
def roleAttrs (c : Ctx) (as : Attrs) : Attrs :=
  match c.role with
  | .rsClient => as
  | .ibgp | .rrClient => injectLocalPrefIfAbsent as
  | .confed =>
      let has := hasCode AS_PATH as
      let m := mapAsPath (asPathPrependConfed c.localAsn) as
      if has then m else m ++ [aspath (asPathPrependConfed c.localAsn [])]
  | .ebgp =>
      let asn := if c.confedId ≠ 0 then c.confedId else c.localAsn
      let has := hasCode AS_PATH as
      let kept := as.filter (fun a =>
        !(a.code = LOCAL_PREF ∨ a.code = ORIGINATOR_ID ∨ a.code = CLUSTER_LIST ∨ a.code = AIGP))
      let m := mapAsPath (fun s => asPathPrepend asn (asPathStripConfed s)) kept
      if has then m else m ++ [aspath (asPathPrepend asn [])]

/-- `PeerExportContext::export_attrs` -/
def exportAttrs (c : Ctx) (as : Attrs) : Attrs := opaquePass (roleAttrs c as)

/-- the closure `local` of `export_nexthop` -/
def selfNh (c : Ctx) : Nh :=
  match c.localAddr with
  | .v4 a => .v4 a
  | .v6 a => match c.linkAddr with
      | some l => .v6ll a l
      | none => .v6 a

/-- `PeerExportContext::export_nexthop` -/
def exportNexthop (c : Ctx) (nh : Option Nh) (fam : Fam) (isLocal : Bool) : Option Nh :=
  match nh with
  | none => if fam.isFlowspec then none else some (selfNh c)
  | some n =>
      if isLocal && !n.addr.isUnspecified then some n
      else if isLocal then some (selfNh c)
      else match c.role with
        | .rsClient | .ibgp | .rrClient => some n
        | .confed | .ebgp => some (selfNh c)

/-- `PeerExportContext::pre_policy_defaults` -/
def prePolicyDefaults (c : Ctx) (as : Attrs) (nh : Option Nh) (fam : Fam) (isLocal : Bool) :
    Attrs × Option Nh :=
  let as1 := if c.role = .ebgp ∧ hasCode MED as then dropCode MED as else as
  (as1, exportNexthop c nh fam isLocal)

/-- Session parameters of `process_nlri_change` that stay fixed for a session. -/
structure Sess where
  ctx : Ctx
  remoteAddr : Addr
  cluster : Option Nat
  policy : Option Policy
  fam : Fam
  max : Nat
  deriving DecidableEq, Repr, Inhabited

/-- the three filters in front of the policy: echo, iBGP split horizon, RS isolation -/
def visible (s : Sess) (p : Path) : Bool :=
  !(p.src.addr = s.remoteAddr) &&
  !ibgpSplitHorizonSuppress p.src s.ctx.role s.cluster &&
  !rsIsolationSuppress p.src s.ctx.role

/-- first half of the `policy_result` closure / `filter_map` body: pre-policy defaults, then the
    export policy.  `none` = rejected by policy. -/
def policyStage (s : Sess) (p : Path) : Option (Attrs × Option Nh) :=
  let r0 := prePolicyDefaults s.ctx p.attrs p.nh s.fam p.src.isLocal
  match s.policy with
  | none => some r0
  | some pol =>
      let r1 := applyPolicy pol r0.1 r0.2 p.nh s.ctx.localAddr s.remoteAddr
      if r1.1 = .reject then none else some r1.2

/-- "RR reflection: add ORIGINATOR_ID and prepend CLUSTER_LIST" -/
def reflectStage (s : Sess) (p : Path) (as : Attrs) : Attrs :=
  match s.cluster with
  | some cid => if isIbgpLearned p.src then rrReflectAttrs as p.src.routerId cid else as
  | none => as

def llgrStage (p : Path) (as : Attrs) : Attrs :=
  if p.src.llgr then withLlgrStaleCommunity as else as

/-- the whole per-path export: policy stage, RR reflection, LLGR_STALE, then `export_attrs` -/
def xform (s : Sess) (p : Path) : Option (Attrs × Option Nh) :=
  (policyStage s p).map (fun r => (exportAttrs s.ctx (llgrStage p (reflectStage s p r.1)), r.2))

/-! ## ExportMap and process_nlri_change, generic in the per-path export function -/

/-- `ExportMap` for one family: `Plain` keeps destination ids, `AddPath` (dest, path-id) pairs.
    The mode is fixed at session establishment (`effective_max > 1`). -/
structure ExportMap where
  addpath : Bool
  sent : List (Nat × Nat)
  deriving DecidableEq, Repr, Inhabited

namespace ExportMap
def empty (addpath : Bool) : ExportMap := ⟨addpath, []⟩
def key (m : ExportMap) (d pid : Nat) : Nat × Nat := if m.addpath then (d, pid) else (d, 0)
def markSent (m : ExportMap) (d pid : Nat) : ExportMap :=
  if m.sent.contains (m.key d pid) then m else { m with sent := m.sent ++ [m.key d pid] }
def markWithdrawn (m : ExportMap) (d pid : Nat) : ExportMap :=
  { m with sent := m.sent.filter (· ≠ m.key d pid) }
def wasSent (m : ExportMap) (d : Nat) : Bool := m.sent.any (·.1 = d)
def containsPath (m : ExportMap) (d pid : Nat) : Bool := m.sent.contains (m.key d pid)
def sentPathIds (m : ExportMap) (d : Nat) : List Nat :=
  (m.sent.filter (·.1 = d)).map (·.2)
end ExportMap

/-- `table::NlriChange` (family is the session's). -/
structure Change (Net : Type) where
  net : Net
  destId : Nat
  bestChanged : Bool
  anyChanged : Bool
  replaced : Option Nat
  paths : List Path
  deriving Repr

/-- calls on the `NlriSink` -/
inductive SinkOp (Net : Type) where
  | reach (destId : Nat) (net : Net) (pid : Nat) (nh : Option Nh) (attrs : Attrs)
  | unreach (destId : Nat) (net : Net) (pid : Nat)
  deriving Repr

/-- The per-session export behaviour `process_nlri_change` is parameterised by. -/
structure Exp where
  visible : Path → Bool
  xform : Path → Option (Attrs × Option Nh)
  max : Nat

def Sess.exp (s : Sess) : Exp := ⟨visible s, xform s, s.max⟩

/-- `export_nlri_change` (`process_nlri_change` = `resendAll := false`; `do_route_refresh` passes
    `true`); returns the new export map and the sink calls in order.
    In the add-path branch the withdrawals are emitted in ascending path-id order
    (the Rust iterates a hash set; `PendingTx` and the observation do not depend on it). -/
def processNlriChange {Net : Type} (e : Exp) (u : Change Net) (m : ExportMap)
    (resendAll : Bool := false) : ExportMap × List (SinkOp Net) :=
  if e.max = 1 then
    if !u.bestChanged then (m, [])
    else
      let visibleBest := match u.paths.head? with
        | none => none
        | some b => if e.visible b then some b else none
      let policyResult := match visibleBest with
        | none => none
        | some b => (e.xform b).map (fun r => (b, r))
      match policyResult with
      | none =>
          if m.wasSent u.destId then (m.markWithdrawn u.destId 0, [.unreach u.destId u.net 0])
          else (m, [])
      | some (_, as, nh) => (m.markSent u.destId 0, [.reach u.destId u.net 0 nh as])
  else
    if !u.anyChanged then (m, [])
    else
      let top : List (Nat × Attrs × Option Nh) :=
        ((u.paths.filter e.visible).take e.max).filterMap (fun p => (e.xform p).map (fun r => (p.pid, r)))
      let sentIds := m.sentPathIds u.destId
      let curIds := top.map (·.1)
      let gone := sentIds.filter (fun pid => !curIds.contains pid)
      let m1 := gone.foldl (fun m pid => m.markWithdrawn u.destId pid) m
      let ops1 : List (SinkOp Net) := gone.map (fun pid => .unreach u.destId u.net pid)
      let step := fun (acc : ExportMap × List (SinkOp Net)) (t : Nat × Attrs × Option Nh) =>
        let (pid, as, nh) := t
        let already := acc.1.containsPath u.destId pid
        let wasReplaced := u.replaced = some pid
        if !already || wasReplaced || resendAll then (acc.1.markSent u.destId pid, acc.2 ++ [SinkOp.reach u.destId u.net pid nh as])
        else acc
      top.foldl step (m1, ops1)

/-! ## C09 observation: one path offered to one session with an empty export map -/

inductive Obs where
  | suppressed
  | reach (pid : Nat) (nh : Option Nh) (attrs : Attrs)
  | other            -- anything else (several sink calls, an unreach): never produced by the model
  deriving DecidableEq, Repr, Inhabited

/-- stable insertion sort of attributes by code (canonical form of an observation) -/
def insertByCode (a : Attr) : Attrs → Attrs
  | [] => [a]
  | b :: rest => if a.code ≤ b.code then a :: b :: rest else b :: insertByCode a rest
def sortByCode (as : Attrs) : Attrs := as.foldr insertByCode []

structure ExportCase where
  sess : Sess
  path : Path
  deriving DecidableEq, Repr, Inhabited

/-- second observation of `exportTwice` -/
inductive Obs2 where
  | nothing
  | withdrawn
  | reach (pid : Nat) (nh : Option Nh) (attrs : Attrs)
  | other
  deriving DecidableEq, Repr, Inhabited

def obs2Of : List (SinkOp Unit) → Obs2
  | [] => .nothing
  | [.unreach _ _ _] => .withdrawn
  | [.reach _ _ pid nh as] => .reach pid nh (sortByCode as)
  | _ => .other

def obs1Of : List (SinkOp Unit) → Obs
  | [] => .suppressed
  | [.reach _ _ pid nh as] => .reach pid nh (sortByCode as)
  | _ => .other

def stalePath (p : Path) : Path := { p with src := { p.src with llgr := true } }

/-- `exp2`: the path is offered to a session with an empty export map; then its source is marked
    LLGR-stale and the change `Table::restale_llgr` emits for the destination (best path reported as
    changed, the path reported as replaced) is processed on the resulting export map. -/
def exportTwice (c : ExportCase) : Obs × Obs2 :=
  let u1 : Change Unit := ⟨(), 1, true, true, none, [c.path]⟩
  let r1 := processNlriChange c.sess.exp u1 (ExportMap.empty (c.sess.max != 1))
  let u2 : Change Unit := ⟨(), 1, true, true, some c.path.pid, [stalePath c.path]⟩
  let r2 := processNlriChange c.sess.exp u2 r1.1
  (obs1Of r1.2, obs2Of r2.2)

def exportOne (c : ExportCase) : Obs :=
  let u : Change Unit := ⟨(), 1, true, true, none, [c.path]⟩
  match (processNlriChange c.sess.exp u (ExportMap.empty (c.sess.max != 1))).2 with
  | [] => .suppressed
  | [.reach _ _ pid nh as] => .reach pid nh (sortByCode as)
  | _ => .other

/-! ## Inbound loop checks -/

/-- `is_as_loop` -/
def isAsLoop (as : Attrs) (localAsn confedId : Nat) : Bool :=
  match findCode AS_PATH as with
  | some (aspath segs) =>
      if asPathCount localAsn segs > 0 then true
      else confedId ≠ 0 && confedId ≠ localAsn && asPathCount confedId segs > 0
  | _ => false

structure RxCase where
  localAsn : Nat
  confedId : Nat
  routerId : Nat
  cluster : Option Nat
  role : Role
  attrs : Attrs
  deriving DecidableEq, Repr, Inhabited

/-- the ORIGINATOR_ID / CLUSTER_LIST test at the top of `rx_update` -/
def rxLoop (c : RxCase) : Bool :=
  let originatorLoop := match findCode ORIGINATOR_ID c.attrs with
    | some a => (a.value?.getD 0) = c.routerId
    | none => false
  let clusterLoop := match c.cluster with
    | some cid => match findCode CLUSTER_LIST c.attrs with
        | some a => match a.words? with
            | some ws => ws.contains cid
            | none => false
        | none => false
    | none => false
  originatorLoop || clusterLoop

/-- `run_select` (skip on AS loop) then `rx_update`: is the announced prefix installed? -/
def rxInstalled (c : RxCase) : Bool :=
  if isAsLoop c.attrs c.localAsn c.confedId then false
  else !rxLoop c

/-! ## Wire cases: two real sessions of one router (C09 end to end)

    The router's configuration (`Global`, `add_peer`) and two neighbours; the first announces one
    prefix, the second is what the route is exported to.  The session parameters are *derived*:
    by `accept_connection` in the code, by `WireCase.session` here. -/

structure PeerCfg where
  addr : Addr              -- the neighbour's address
  remoteAsn : Nat
  localAsn : Nat           -- per-peer local AS, 0 = the router's
  rid : Nat                -- the neighbour's router id (its OPEN)
  rs : Bool                -- `route_server_client`
  rrc : Bool               -- `route_reflector_client`
  cluster : Option Nat     -- `route_reflector_cluster_id`
  deriving DecidableEq, Repr, Inhabited

structure WireCase where
  asn : Nat
  rid : Nat
  confed : Option (Nat × List Nat)   -- confederation id, member ASes
  localAddr : Addr                   -- the router's end of both connections
  src : PeerCfg
  dst : Option PeerCfg
  dstFirst : Bool                    -- the receiver is established before the route arrives
  nh : Nh
  attrs : Attrs
  deriving DecidableEq, Repr, Inhabited

/-- what the neighbours saw and what the RIB holds -/
structure WireObs where
  installed : Option Attrs           -- attributes of the installed path, `none` = not in the RIB
  back : Obs                         -- what the announcing neighbour was sent for the prefix
  sent : Obs                         -- what the receiver was sent (`suppressed` without receiver)
  deriving DecidableEq, Repr, Inhabited

namespace WireCase
/-- `add_peer` + `PeerParams::build`: `local_asn` of the peer: the configured one, else the global
    AS; towards a neighbour outside the confederation the confederation identifier -/
def localAs (w : WireCase) (p : PeerCfg) : Nat :=
  let own := if p.localAsn ≠ 0 then p.localAsn else w.asn
  match w.confed with
  | some (id, ms) => if !ms.contains p.remoteAsn ∧ p.remoteAsn ≠ own then id else own
  | none => own

/-- `accept_connection`: `peer_role` -/
def role (w : WireCase) (p : PeerCfg) : Role :=
  if p.rs then .rsClient
  else if w.localAs p ≠ 0 ∧ p.remoteAsn = w.localAs p then (if p.rrc then .rrClient else .ibgp)
  else if (match w.confed with | some (_, ms) => ms.contains p.remoteAsn | none => false) then .confed
  else .ebgp

/-- `accept_connection`: `cluster_id` -/
def clusterId (w : WireCase) (p : PeerCfg) : Option Nat :=
  match w.role p with
  | .ibgp | .rrClient => some (p.cluster.getD w.rid)
  | _ => none

def confedId (w : WireCase) : Nat := match w.confed with | some (id, _) => id | none => 0

/-- `validate_update`: from a (non-confederation) eBGP peer LOCAL_PREF, ORIGINATOR_ID and
    CLUSTER_LIST are discarded -/
def decoded (w : WireCase) : Attrs :=
  -- unrecognised optional non-transitive attributes are ignored by the decoder
  let known := w.attrs.filter (fun a => !(a.isOpaque && !a.isTransitive))
  if w.role w.src = .ebgp then
    known.filter (fun a => !(a.code = Attr.LOCAL_PREF ∨ a.code = Attr.ORIGINATOR_ID ∨ a.code = Attr.CLUSTER_LIST))
  else known

def rxCase (w : WireCase) : RxCase :=
  ⟨w.localAs w.src, w.confedId, w.rid, w.clusterId w.src, w.role w.src, w.decoded⟩

/-- `rx_update`: LOCAL_PREF injected into what an iBGP neighbour announces without it -/
def stored (w : WireCase) : Attrs :=
  match w.role w.src with
  | .ibgp | .rrClient => injectLocalPrefIfAbsent w.decoded
  | _ => w.decoded

/-- `on_established`: the `Source` of the announcing session -/
def source (w : WireCase) : Source :=
  ⟨.peer, w.src.addr, w.src.remoteAsn, w.localAs w.src, w.src.rid, w.role w.src, false⟩

def exportCase (w : WireCase) (d : PeerCfg) : ExportCase :=
  { sess := ⟨⟨w.role d, w.localAs d, w.localAddr, none, w.confedId⟩, d.addr, w.clusterId d, none, .ipv4, 1⟩,
    path := { pid := 1, src := w.source, nh := some w.nh, attrs := w.stored } }

def run (w : WireCase) : WireObs :=
  if rxInstalled w.rxCase then
    { installed := some (sortByCode w.stored),
      back := .suppressed,
      sent := match w.dst with
        | some d => exportOne (w.exportCase d)
        | none => .suppressed }
  else { installed := none, back := .suppressed, sent := .suppressed }
end WireCase

end Rbgp.Export
