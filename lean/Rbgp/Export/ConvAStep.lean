/-
  Rbgp.Export.ConvAStep — C01, add-path sessions, part 2: the add-path branch of
  `process_nlri_change` (withdraw what left the top-N window, announce what is new in it, was
  replaced, or everything on a refresh) keeps the abstract invariant, and moves the target table
  of the prefix to the target of the delivered paths.
-/
import Rbgp.Export.ConvA
namespace Rbgp.Export.ConvA
open Rbgp.Export Rbgp.Export.Conv

/-! ### the top-N window -/

/-- the add-path window: first `max` paths that pass echo prevention / split horizon / RS isolation -/
def win (e : Exp) (ps : List Path) : List Path := (ps.filter e.visible).take e.max

def offer (e : Exp) (p : Path) : Option (Nat × Attrs × Option Nh) := (e.xform p).map (fun r => (p.pid, r))

theorem target_ap (e : Exp) (h : e.max ≠ 1) (ps : List Path) : target e ps = (win e ps).filterMap (offer e) := by
  simp only [target, h, if_false, win]
  rfl

theorem win_pids_nodup (e : Exp) (ps : List Path) (h : (ps.map (·.pid)).Nodup) : ((win e ps).map (·.pid)).Nodup := by
  apply List.Nodup.sublist _ h
  apply List.Sublist.map
  exact (List.take_sublist _ _).trans List.filter_sublist

theorem win_subset (e : Exp) (ps : List Path) (p : Path) (h : p ∈ win e ps) : p ∈ ps :=
  (List.mem_filter.mp (List.mem_of_mem_take h)).1

theorem ids_sublist (e : Exp) (L : List Path) : ((L.filterMap (offer e)).map (·.1)).Sublist (L.map (·.pid)) := by
  induction L with
  | nil => simp
  | cons p rest ih =>
    simp only [List.filterMap_cons, offer]
    cases hx : e.xform p with
    | none => simp only [Option.map_none, List.map_cons]; exact List.Sublist.cons _ ih
    | some r => simp only [Option.map_some, List.map_cons]; exact List.Sublist.cons_cons _ ih

theorem target_ids_nodup (e : Exp) (h : e.max ≠ 1) (ps : List Path) (hn : (ps.map (·.pid)).Nodup) :
    ((target e ps).map (·.1)).Nodup := by
  rw [target_ap e h]
  exact List.Nodup.sublist (ids_sublist e _) (win_pids_nodup e ps hn)

theorem find_pid_of_mem (L : List Path) (hn : (L.map (·.pid)).Nodup) (q : Path) (hq : q ∈ L) :
    L.find? (fun p => decide (p.pid = q.pid)) = some q := by
  induction L with
  | nil => cases hq
  | cons p rest ih =>
    simp only [List.map_cons, List.nodup_cons] at hn
    rw [List.find?_cons]
    rcases List.mem_cons.mp hq with rfl | hm
    · simp
    · have : ¬ p.pid = q.pid := by
        intro heq; apply hn.1; rw [heq]; exact List.mem_map_of_mem hm
      simp only [this, decide_false]
      exact ih hn.2 hm

/-- what the window offers under path id `w`: the export of the path of the window with that id -/
theorem tlookup_offer (e : Exp) (L : List Path) (hn : (L.map (·.pid)).Nodup) (w : Nat) :
    tlookup w (L.filterMap (offer e)) = (L.find? (fun p => decide (p.pid = w))).bind e.xform := by
  induction L with
  | nil => simp [tlookup]
  | cons p rest ih =>
    simp only [List.map_cons, List.nodup_cons] at hn
    simp only [List.filterMap_cons, offer, List.find?_cons]
    by_cases hp : p.pid = w
    · simp only [hp, decide_true, Option.bind_some]
      cases hx : e.xform p with
      | some r => simp [tlookup, hp]
      | none =>
        simp only [Option.map_none]
        rw [ih hn.2]
        have hnone : rest.find? (fun q => decide (q.pid = w)) = none := by
          rw [List.find?_eq_none]
          intro q hq
          simp only [decide_eq_true_eq]
          intro heq; apply hn.1; rw [hp, ← heq]; exact List.mem_map_of_mem hq
        rw [hnone]; rfl
    · simp only [hp, decide_false]
      cases hx : e.xform p with
      | some r =>
        simp only [Option.map_some, tlookup, List.find?_cons, hp, decide_false]
        have := ih hn.2
        simp only [tlookup] at this
        exact this
      | none =>
        simp only [Option.map_none]
        exact ih hn.2

theorem tlookup_target (e : Exp) (h : e.max ≠ 1) (ps : List Path) (hn : (ps.map (·.pid)).Nodup) (w : Nat) :
    tlookup w (target e ps) = ((win e ps).find? (fun p => decide (p.pid = w))).bind e.xform := by
  rw [target_ap e h, tlookup_offer e _ (win_pids_nodup e ps hn)]

theorem tlookup_mem (t : List (Nat × Attrs × Option Nh)) (hn : (t.map (·.1)).Nodup) (x : Nat × Attrs × Option Nh)
    (hx : x ∈ t) : tlookup x.1 t = some x.2 := by
  induction t with
  | nil => cases hx
  | cons y rest ih =>
    simp only [List.map_cons, List.nodup_cons] at hn
    simp only [tlookup, List.find?_cons]
    rcases List.mem_cons.mp hx with rfl | hm
    · simp
    · have : ¬ y.1 = x.1 := by
        intro heq; apply hn.1; rw [heq]; exact List.mem_map_of_mem hm
      simp only [this, decide_false]
      exact ih hn.2 hm

theorem tlookup_none_iff (t : List (Nat × Attrs × Option Nh)) (w : Nat) :
    tlookup w t = none ↔ w ∉ t.map (·.1) := by
  simp only [tlookup, Option.map_eq_none_iff, List.find?_eq_none, decide_eq_true_eq, List.mem_map, not_exists, not_and]

/-! ### the two loops of the add-path branch -/

/-- body of the announcement loop -/
def stepTop (d : Nat) (net : Net) (replaced : Option Nat) (resendAll : Bool)
    (acc : ExportMap × List (SinkOp Net)) (t : Nat × Attrs × Option Nh) : ExportMap × List (SinkOp Net) :=
  let (pid, as, nh) := t
  let already := acc.1.containsPath d pid
  let wasReplaced := replaced = some pid
  if !already || wasReplaced || resendAll then (acc.1.markSent d pid, acc.2 ++ [SinkOp.reach d net pid nh as])
  else acc

theorem process_ap (e : Exp) (he : e.max ≠ 1) (u : Change Net) (m : ExportMap) (resend : Bool) :
    processNlriChange e u m resend =
      if u.anyChanged = false then (m, [])
      else
        let top := target e u.paths
        let gone := (m.sentPathIds u.destId).filter (fun pid => !(top.map (·.1)).contains pid)
        top.foldl (stepTop u.destId u.net u.replaced resend)
          (gone.foldl (fun m pid => m.markWithdrawn u.destId pid) m,
           gone.map (fun pid => SinkOp.unreach u.destId u.net pid)) := by
  simp only [processNlriChange, he, if_false, target]
  cases hb : u.anyChanged with
  | false => simp
  | true => simp only [Bool.not_true, Bool.false_eq_true, if_false]; rfl

theorem fold_gone {own : Own} {mb : Mirror} (net : Net) (d : Nat) (hown : own net = some d) (gone : List Nat) :
    ∀ (T : Tgt) (m : ExportMap) (p : PendingTx), InvT own T m p mb → gone.Nodup → (∀ w ∈ gone, (d, w) ∈ m.sent) →
      ∃ T', InvT own T' (gone.foldl (fun m pid => m.markWithdrawn d pid) m)
              (applyOps p (gone.map (fun pid => SinkOp.unreach d net pid))) mb ∧
            ∀ n x, T' n x = if n = net ∧ x ∈ gone then none else T n x := by
  induction gone with
  | nil => intro T m p I _ _; exact ⟨T, by simpa [applyOps] using I, by intro n x; simp⟩
  | cons w rest ih =>
    intro T m p I hnd hs
    have hnd' := List.nodup_cons.mp hnd
    have I1 := invT_unreach I net d w hown (hs w (List.mem_cons_self ..))
    have hs' : ∀ w' ∈ rest, (d, w') ∈ (m.markWithdrawn d w).sent := by
      intro w' hw'
      rw [mem_markWithdrawnA m I.mode.1]
      refine ⟨hs w' (List.mem_cons_of_mem _ hw'), ?_⟩
      intro heq
      simp only [Prod.mk.injEq, true_and] at heq
      exact hnd'.1 (heq ▸ hw')
    obtain ⟨T', I', hT'⟩ := ih _ _ _ I1 hnd'.2 hs'
    refine ⟨T', by simpa [applyOps, PendingTx.apply] using I', ?_⟩
    intro n x
    rw [hT' n x]
    simp only [updT, List.mem_cons]
    by_cases hn : n = net
    · by_cases hx : x ∈ rest
      · simp [hn, hx]
      · by_cases hxw : x = w
        · simp [hn, hxw]
        · simp [hn, hx, hxw]
    · simp [hn]

/-- a path id of the window is skipped by the announcement loop: already advertised, not replaced,
    and this is no refresh -/
def SkipC (T : Tgt) (net : Net) (replaced : Option Nat) (resend : Bool) (x : Nat) : Prop :=
  T net x ≠ none ∧ replaced ≠ some x ∧ resend = false

theorem fold_top {own : Own} {mb : Mirror} (net : Net) (d : Nat) (hown : own net = some d)
    (replaced : Option Nat) (resend : Bool) (p0 : PendingTx) (top : List (Nat × Attrs × Option Nh)) :
    ∀ (T : Tgt) (m : ExportMap) (os : List (SinkOp Net)), InvT own T m (applyOps p0 os) mb →
      (top.map (·.1)).Nodup →
      ∃ T', InvT own T' (top.foldl (stepTop d net replaced resend) (m, os)).1
              (applyOps p0 (top.foldl (stepTop d net replaced resend) (m, os)).2) mb ∧
            (∀ n x, (n ≠ net ∨ x ∉ top.map (·.1)) → T' n x = T n x) ∧
            (∀ t ∈ top, (SkipC T net replaced resend t.1 → T' net t.1 = T net t.1) ∧
                        (¬ SkipC T net replaced resend t.1 → T' net t.1 = some t.2)) := by
  induction top with
  | nil => intro T m os I _; exact ⟨T, by simpa using I, fun _ _ _ => rfl, by intro t ht; cases ht⟩
  | cons t rest ih =>
    intro T m os I hnd
    simp only [List.map_cons, List.nodup_cons] at hnd
    obtain ⟨pid, as, nh⟩ := t
    have hcont : m.containsPath d pid = true ↔ T net pid ≠ none := by
      rw [containsPathA m I.mode.1, I.mapIff]
      constructor
      · rintro ⟨n, hn, ht⟩
        have := I.inj n net d hn hown
        rw [this] at ht; exact ht
      · intro h; exact ⟨net, hown, h⟩
    simp only [List.foldl_cons]
    by_cases hc : (!(m.containsPath d pid) || decide (replaced = some pid) || resend) = true
    · -- announced
      have hstep : stepTop d net replaced resend (m, os) (pid, as, nh) =
          (m.markSent d pid, os ++ [SinkOp.reach d net pid nh as]) := by
        simp only [stepTop, hc, if_true]
      rw [hstep]
      have I1 := invT_reach I net d pid hown as nh
      have hP : applyOps p0 (os ++ [SinkOp.reach d net pid nh as]) = (applyOps p0 os).doReach d net pid nh as := by
        rw [applyOps_append]; rfl
      rw [← hP] at I1
      obtain ⟨T', I', hoth, htop⟩ := ih _ _ _ I1 hnd.2
      refine ⟨T', I', ?_, ?_⟩
      · intro n x hnx
        have : n ≠ net ∨ x ∉ rest.map (·.1) := by
          rcases hnx with h | h
          · exact Or.inl h
          · exact Or.inr (fun hm => h (List.mem_cons_of_mem _ hm))
        rw [hoth n x this]
        simp only [updT]
        have : ¬ (n = net ∧ x = pid) := by
          rintro ⟨hn, hx⟩
          rcases hnx with h | h
          · exact h hn
          · exact h (by rw [hx]; simp)
        simp [this]
      · intro t' ht'
        rcases List.mem_cons.mp ht' with rfl | hm
        · simp only
          have hnot : ¬ SkipC T net replaced resend pid := by
            rintro ⟨h1, h2, h3⟩
            simp only [Bool.or_eq_true, Bool.not_eq_true', decide_eq_true_eq] at hc
            rcases hc with (hc | hc) | hc
            · have := hcont.mpr h1; rw [hc] at this; cases this
            · exact h2 hc
            · rw [h3] at hc; cases hc
          refine ⟨fun h => absurd h hnot, fun _ => ?_⟩
          rw [hoth net pid (Or.inr hnd.1)]
          simp [updT]
        · have hne : t'.1 ≠ pid := by
            intro heq; apply hnd.1; exact List.mem_map.mpr ⟨t', hm, heq⟩
          have hsame : updT T net pid (some (as, nh)) net t'.1 = T net t'.1 := by
            simp [updT, hne]
          have := htop t' hm
          simp only [SkipC, hsame] at this ⊢
          exact this
    · -- skipped
      have hstep : stepTop d net replaced resend (m, os) (pid, as, nh) = (m, os) := by
        simp only [stepTop, hc, if_false]
        simp
      rw [hstep]
      obtain ⟨T', I', hoth, htop⟩ := ih _ _ _ I hnd.2
      refine ⟨T', I', ?_, ?_⟩
      · intro n x hnx
        apply hoth
        rcases hnx with h | h
        · exact Or.inl h
        · exact Or.inr (fun hm => h (List.mem_cons_of_mem _ hm))
      · intro t' ht'
        rcases List.mem_cons.mp ht' with rfl | hm
        · simp only
          have hskip : SkipC T net replaced resend pid := by
            simp only [Bool.or_eq_true, Bool.not_eq_true', decide_eq_true_eq, not_or] at hc
            refine ⟨hcont.mp (by simpa using hc.1.1), hc.1.2, by simpa using hc.2⟩
          refine ⟨fun _ => hoth net pid (Or.inr hnd.1), fun h => absurd hskip h⟩
        · exact htop t' hm

/-- The add-path branch on an abstract invariant: the row of the prefix moves to `top`, except that
    ids the loop skipped keep what they had. -/
theorem inv_processT {own : Own} {T : Tgt} {m : ExportMap} {p : PendingTx} {mb : Mirror}
    (I : InvT own T m p mb) (e : Exp) (he : e.max ≠ 1) (u : Change Net) (hown : own u.net = some u.destId)
    (hany : u.anyChanged = true) (hn : (u.paths.map (·.pid)).Nodup) (resend : Bool) :
    ∃ T', InvT own T' (processNlriChange e u m resend).1 (applyOps p (processNlriChange e u m resend).2) mb ∧
      (∀ n x, n ≠ u.net → T' n x = T n x) ∧
      (∀ x, tlookup x (target e u.paths) = none → T' u.net x = none) ∧
      (∀ x r, tlookup x (target e u.paths) = some r →
         (SkipC T u.net u.replaced resend x → T' u.net x = T u.net x) ∧
         (¬ SkipC T u.net u.replaced resend x → T' u.net x = some r)) := by
  rw [process_ap e he]
  simp only [hany, Bool.true_eq_false, if_false]
  have htn := target_ids_nodup e he u.paths hn
  generalize htop : target e u.paths = top at htn
  let gone := (m.sentPathIds u.destId).filter (fun pid => !(top.map (·.1)).contains pid)
  have hgn : gone.Nodup := by
    apply List.Nodup.sublist List.filter_sublist
    simp only [ExportMap.sentPathIds]
    -- second components of the entries of one destination are distinct
    have hs := I.sentNodup
    generalize m.sent = l at hs
    induction l with
    | nil => simp
    | cons k rest ih =>
      simp only [List.nodup_cons] at hs
      rw [List.filter_cons]
      by_cases hk : k.1 = u.destId
      · simp only [hk, decide_true, if_true, List.map_cons, List.nodup_cons]
        refine ⟨?_, ih hs.2⟩
        intro hmem
        rcases List.mem_map.mp hmem with ⟨k', hk', heq⟩
        have hk'' := List.mem_filter.mp hk'
        have : k' = k := by
          cases k; cases k'
          simp only [decide_eq_true_eq] at hk''
          simp_all
        rw [this] at hk''; exact hs.1 hk''.1
      · simp only [hk, decide_false, Bool.false_eq_true, if_false]; exact ih hs.2
  have hgs : ∀ w ∈ gone, (u.destId, w) ∈ m.sent := by
    intro w hw
    exact (mem_sentPathIds m u.destId w).mp (List.mem_filter.mp hw).1
  obtain ⟨T1, I1, hT1⟩ := fold_gone (mb := mb) u.net u.destId hown gone T m p I hgn hgs
  obtain ⟨T', I', hoth, hrow⟩ := fold_top (mb := mb) u.net u.destId hown u.replaced resend p top T1 _ _ I1 htn
  refine ⟨T', I', ?_, ?_, ?_⟩
  · intro n x hne
    rw [hoth n x (Or.inl hne), hT1 n x]
    simp [hne]
  · intro x hx
    have hnot : x ∉ top.map (·.1) := (tlookup_none_iff top x).mp hx
    rw [hoth u.net x (Or.inr hnot), hT1 u.net x]
    by_cases hg : x ∈ gone
    · simp [hg]
    · simp only [hg, and_false, if_false]
      -- not withdrawn and not in the window: it was not advertised
      cases hT : T u.net x with
      | none => rfl
      | some r =>
        exfalso
        apply hg
        have hsent : (u.destId, x) ∈ m.sent := (I.mapIff _ _).mpr ⟨u.net, hown, by rw [hT]; simp⟩
        apply List.mem_filter.mpr
        refine ⟨(mem_sentPathIds m u.destId x).mpr hsent, ?_⟩
        simp only [Bool.not_eq_true', List.contains_eq_mem, decide_eq_false_iff_not]
        exact hnot
  · intro x r hx
    have hmemx : x ∈ top.map (·.1) := by
      by_cases h : x ∈ top.map (·.1)
      · exact h
      · rw [(tlookup_none_iff top x).mpr h] at hx; cases hx
    rcases List.mem_map.mp hmemx with ⟨t, ht, rfl⟩
    have ht2 : tlookup t.1 top = some t.2 := tlookup_mem top htn t ht
    rw [ht2] at hx
    have hr : r = t.2 := (Option.some.inj hx).symm
    have hng : t.1 ∉ gone := by
      intro hg
      have := (List.mem_filter.mp hg).2
      simp only [Bool.not_eq_true', List.contains_eq_mem, decide_eq_false_iff_not] at this
      exact this hmemx
    have hT1x : T1 u.net t.1 = T u.net t.1 := by rw [hT1]; simp [hng]
    have := hrow t ht
    simp only [SkipC, hT1x] at this ⊢
    rw [hr]; exact this

end Rbgp.Export.ConvA
