/-
  Rbgp.Export.ConvHandle — C01, part 4: `process_nlri_change` (non-add-path branch) and
  `handle_prefix_update` preserve the invariant; a flush writes the effective mirror.
-/
import Rbgp.Export.ConvStep
namespace Rbgp.Export.Conv
open Rbgp.Export

/-- the non-add-path branch of `process_nlri_change` in terms of `target` -/
theorem process_plain (e : Exp) (he : e.max = 1) (u : Change Net) (m : ExportMap) (resend : Bool) :
    processNlriChange e u m resend =
      if u.bestChanged = false then (m, [])
      else match target e u.paths with
        | [] => if m.wasSent u.destId then (m.markWithdrawn u.destId 0, [.unreach u.destId u.net 0]) else (m, [])
        | (_, as, nh) :: _ => (m.markSent u.destId 0, [.reach u.destId u.net 0 nh as]) := by
  simp only [processNlriChange, he, if_true, target]
  cases hb : u.bestChanged with
  | false => simp
  | true =>
    simp only [Bool.not_true, Bool.false_eq_true, if_false]
    cases hh : u.paths.head? with
    | none => simp
    | some b =>
      simp only
      by_cases hv : e.visible b = true
      · simp only [hv, if_true]
        cases hx : e.xform b with
        | none => simp
        | some r => obtain ⟨as, nh⟩ := r; simp
      · simp [hv]

theorem setE_self (E : Net → Exp) (net : Net) : setE E net (E net) = E := by
  funext n; simp only [setE]; split
  · rename_i h; rw [h]
  · rfl

/-- `export_invariant`, delivery half: `handle_prefix_update` / one step of `do_route_refresh`
    (session processing `u` under export behaviour `e'`) keeps the invariant, the view moving to `u` -/
theorem inv_handle {E : Net → Exp} {V : View} {m : ExportMap} {p : PendingTx} {mb : Mirror}
    (I : Inv E V m p mb) (u : Change Net) (ha : Admissible V u) (e' : Exp) (he : e'.max = 1)
    (resend : Bool) (hE : u.bestChanged = false → e' = E u.net) :
    Inv (setE E u.net e') (V.update u.net u.destId u.paths)
      (processNlriChange e' u m resend).1 (applyOps p (processNlriChange e' u m resend).2) mb := by
  rw [process_plain e' he]
  by_cases hb : u.bestChanged = false
  · simp only [hb, if_true, applyOps, List.foldl_nil]
    exact inv_skip I u ha e' he (Or.inl ⟨hb, hE hb⟩)
  · simp only [hb, if_false]
    rcases target_plain_cases e' he u.paths with hT | ⟨r, hT⟩
    · rw [hT]
      simp only
      by_cases hs : m.wasSent u.destId = true
      · simp only [hs, if_true, applyOps, List.foldl_cons, List.foldl_nil, PendingTx.apply]
        exact inv_unreach I u ha e' he hT ((wasSent_iff m _ (sent_zero I)).mp hs)
      · simp only [hs, Bool.false_eq_true, if_false, applyOps, List.foldl_nil]
        exact inv_skip I u ha e' he (Or.inr ⟨hT, fun h => hs ((wasSent_iff m _ (sent_zero I)).mpr h)⟩)
    · rw [hT]
      obtain ⟨as, nh⟩ := r
      simp only [applyOps, List.foldl_cons, List.foldl_nil, PendingTx.apply]
      exact inv_reach I u ha e' he as nh hT

theorem inj_of_nodup_map {α β} (f : α → β) (l : List α) (h : (l.map f).Nodup) {x y : α}
    (hx : x ∈ l) (hy : y ∈ l) (hf : f x = f y) : x = y := by
  induction l with
  | nil => cases hx
  | cons a rest ih =>
    simp only [List.map_cons, List.nodup_cons] at h
    rcases List.mem_cons.mp hx with rfl | hx' <;> rcases List.mem_cons.mp hy with rfl | hy'
    · rfl
    · exact absurd (hf ▸ List.mem_map_of_mem hy') h.1
    · exact absurd (hf ▸ List.mem_map_of_mem hx') h.1
    · exact ih h.2 hx' hy'

/-! ## flush -/

def routeOf (x : TxKey × (Net × Attrs × Option Nh)) : Route := ⟨x.2.1, x.1.2, x.2.2.2, x.2.2.1, false⟩
def reachMsg (x : TxKey × (Net × Attrs × Option Nh)) : Msg := .reach [(x.1.2, x.2.1)] x.2.2.2 x.2.2.1

theorem get_foldl_del (es : List (Nat × Net)) (M : Mirror) (net : Net) (pid : Nat) :
    Mirror.get (es.foldl (fun m e => m.del e.2 e.1) M) net pid =
      if (pid, net) ∈ es then none else Mirror.get M net pid := by
  induction es generalizing M with
  | nil => simp
  | cons e rest ih =>
    simp only [List.foldl_cons, ih, get_del, List.mem_cons]
    by_cases h1 : (pid, net) ∈ rest
    · simp [h1]
    · simp only [h1, if_false, or_false]
      by_cases h2 : net = e.2 ∧ pid = e.1
      · have : (pid, net) = e := by cases e; simp_all
        simp [h2, this]
      · have : ¬ (pid, net) = e := by
          intro h; apply h2; rw [← h]; exact ⟨rfl, rfl⟩
        simp [h2, this]

theorem get_foldl_set_none (rs : List Route) (M : Mirror) (net : Net) (pid : Nat)
    (h : ∀ r ∈ rs, ¬ (r.net = net ∧ r.pid = pid)) :
    Mirror.get (rs.foldl Mirror.set M) net pid = Mirror.get M net pid := by
  induction rs generalizing M with
  | nil => rfl
  | cons r rest ih =>
    simp only [List.foldl_cons]
    rw [ih _ (fun x hx => h x (List.mem_cons_of_mem _ hx)), get_set]
    have := h r (List.mem_cons_self ..)
    have : ¬ (net = r.net ∧ pid = r.pid) := fun h' => this ⟨h'.1.symm, h'.2.symm⟩
    simp [this]

theorem get_foldl_set_some (rs : List Route) (M : Mirror) (r : Route) (hr : r ∈ rs)
    (hd : (rs.map (fun x => (x.net, x.pid))).Nodup) :
    Mirror.get (rs.foldl Mirror.set M) r.net r.pid = some r := by
  induction rs generalizing M with
  | nil => cases hr
  | cons x rest ih =>
    simp only [List.map_cons, List.nodup_cons] at hd
    simp only [List.foldl_cons]
    rcases List.mem_cons.mp hr with rfl | hm
    · rw [get_foldl_set_none, get_set]
      · simp
      · intro y hy hk
        apply hd.1
        have : (r.net, r.pid) = (y.net, y.pid) := by rw [hk.1, hk.2]
        rw [this]; exact List.mem_map_of_mem hy
    · exact ih _ hm hd.2

/-- single-entry reach messages with pairwise distinct keys never trip the ambiguity marker -/
theorem tracked_reach (l : List (TxKey × (Net × Attrs × Option Nh))) (M : Mirror) (written : List Route)
    (hd : ((written ++ l.map routeOf).map (fun x => (x.net, x.pid))).Nodup) :
    (l.map reachMsg).foldl Mirror.applyTracked (M, written) =
      ((l.map routeOf).foldl Mirror.set M, written ++ l.map routeOf) := by
  induction l generalizing M written with
  | nil => simp
  | cons x rest ih =>
    simp only [List.map_cons, List.foldl_cons]
    have hnone : written.find? (fun w => decide (w.net = (routeOf x).net ∧ w.pid = (routeOf x).pid)) = none := by
      rw [List.find?_eq_none]
      intro w hw hk
      simp only [decide_eq_true_eq] at hk
      simp only [List.map_append, List.map_cons] at hd
      have := (List.nodup_append.mp hd).2.2 (w.net, w.pid) (List.mem_map_of_mem hw) ((routeOf x).net, (routeOf x).pid)
        (List.mem_cons_self ..)
      apply this; rw [hk.1, hk.2]
    have hstep : Mirror.applyTracked (M, written) (reachMsg x) = (M.set (routeOf x), written ++ [routeOf x]) := by
      simp only [Mirror.applyTracked, reachMsg, List.foldl_cons, List.foldl_nil]
      have : written.find? (fun w => decide (w.net = x.2.1 ∧ w.pid = x.1.2)) = none := hnone
      simp only [this]
      rfl
    rw [hstep, ih]
    · simp [List.append_assoc]
    · simpa [List.append_assoc] using hd

theorem foldl_tracked_append (a b : List Msg) (s : Mirror × List Route) :
    (a ++ b).foldl Mirror.applyTracked s = b.foldl Mirror.applyTracked (a.foldl Mirror.applyTracked s) :=
  List.foldl_append ..

/-- the buffered dump does not announce a key twice (and ends with its EOR) -/
def bufOk (mirror : Mirror) (buffered : List Msg) : Prop :=
  buffered.foldl Mirror.applyTracked (mirror, []) = (buffered.foldl Mirror.applyMsg mirror, [])

theorem bufOk_nil (mirror : Mirror) : bufOk mirror [] := rfl

/-- routes of the pending reach entries have pairwise distinct prefixes -/
theorem reach_routes_nodup {E : Net → Exp} {V : View} {m : ExportMap} {p : PendingTx} {mb : Mirror}
    (I : Inv E V m p mb) : ((p.reach.map routeOf).map (fun x => (x.net, x.pid))).Nodup := by
  have hk := I.reachKeys
  have hown := I.reachOwn
  simp only [keysNodup] at hk
  generalize p.reach = l at hk hown
  induction l with
  | nil => simp
  | cons x rest ih =>
    simp only [List.map_cons, List.nodup_cons] at hk ⊢
    refine ⟨?_, ih hk.2 (fun y hy => hown y (List.mem_cons_of_mem _ hy))⟩
    intro hmem
    rcases List.mem_map.mp hmem with ⟨r, hr, hrk⟩
    rcases List.mem_map.mp hr with ⟨y, hy, rfl⟩
    simp only [routeOf, Prod.mk.injEq] at hrk
    have hx := hown x (List.mem_cons_self ..)
    have hy' := hown y (List.mem_cons_of_mem _ hy)
    have hid : y.1.1 = x.1.1 := by
      have h1 := hy'.2.1; have h2 := hx.2.1
      rw [hrk.1, h2] at h1; exact (Option.some.inj h1).symm
    apply hk.1
    have : x.1 = y.1 := by
      cases hx1 : x.1; cases hy1 : y.1
      simp_all
    rw [this]; exact List.mem_map_of_mem hy

/-! ### shape of a mirror written by a non-add-path session -/

/-- keys are unique, path id 0, nothing ambiguous -/
def MirrorOk (m : Mirror) : Prop :=
  (m.map (fun r => (r.net, r.pid))).Nodup ∧ ∀ r ∈ m, r.pid = 0 ∧ r.amb = false

theorem mirrorOk_nil : MirrorOk [] := ⟨by simp, by intro r hr; cases hr⟩

theorem mirrorOk_del (m : Mirror) (h : MirrorOk m) (net : Net) (pid : Nat) : MirrorOk (m.del net pid) := by
  refine ⟨List.Nodup.sublist (List.Sublist.map _ List.filter_sublist) h.1, ?_⟩
  intro r hr
  exact h.2 r (List.mem_filter.mp hr).1

theorem mirrorOk_set (m : Mirror) (h : MirrorOk m) (r : Route) (hp : r.pid = 0) (ha : r.amb = false) :
    MirrorOk (m.set r) := by
  have hd := mirrorOk_del m h r.net r.pid
  simp only [Mirror.set]
  refine ⟨?_, ?_⟩
  · simp only [List.map_append, List.map_cons, List.map_nil]
    apply List.nodup_append.mpr
    refine ⟨hd.1, by simp, ?_⟩
    intro k hk b hb
    simp only [List.mem_singleton] at hb; subst hb
    rcases List.mem_map.mp hk with ⟨x, hx, rfl⟩
    have := (List.mem_filter.mp hx).2
    simp only [Bool.not_eq_true', decide_eq_false_iff_not] at this
    intro heq
    simp only [Prod.mk.injEq] at heq
    exact this heq
  · intro x hx
    rcases List.mem_append.mp hx with h' | h'
    · exact hd.2 x h'
    · simp only [List.mem_singleton] at h'; subst h'; exact ⟨hp, ha⟩

theorem mirrorOk_foldl_del (es : List (Nat × Net)) (m : Mirror) (h : MirrorOk m) :
    MirrorOk (es.foldl (fun m e => m.del e.2 e.1) m) := by
  induction es generalizing m with
  | nil => exact h
  | cons e rest ih => exact ih _ (mirrorOk_del m h _ _)

theorem mirrorOk_foldl_set (rs : List Route) (m : Mirror) (h : MirrorOk m)
    (hr : ∀ r ∈ rs, r.pid = 0 ∧ r.amb = false) : MirrorOk (rs.foldl Mirror.set m) := by
  induction rs generalizing m with
  | nil => exact h
  | cons r rest ih =>
    have := hr r (List.mem_cons_self ..)
    exact ih _ (mirrorOk_set m h r this.1 this.2) (fun x hx => hr x (List.mem_cons_of_mem _ hx))

theorem get_of_mem (m : Mirror) (h : MirrorOk m) (r : Route) (hr : r ∈ m) : Mirror.get m r.net r.pid = some r := by
  have hn := h.1
  clear h
  simp only [Mirror.get]
  induction m with
  | nil => cases hr
  | cons y rest ih =>
    simp only [List.map_cons, List.nodup_cons] at hn
    rw [List.find?_cons]
    rcases List.mem_cons.mp hr with rfl | hm
    · simp
    · have : ¬ (y.net = r.net ∧ y.pid = r.pid) := by
        intro heq; apply hn.1
        have : (y.net, y.pid) = (r.net, r.pid) := by rw [heq.1, heq.2]
        rw [this]; exact List.mem_map_of_mem hm
      simp only [this, decide_false]
      exact ih hm hn.2

theorem mem_of_get (m : Mirror) (net : Net) (pid : Nat) (r : Route) (h : Mirror.get m net pid = some r) :
    r ∈ m ∧ r.net = net ∧ r.pid = pid := by
  simp only [Mirror.get] at h
  have := List.find?_some h
  simp only [decide_eq_true_eq] at this
  exact ⟨List.mem_of_find?_eq_some h, this.1, this.2⟩

/-- the mirror a flush leaves, in closed form: buffered dump, then the withdrawals, then the
    announcements, and nothing marked ambiguous -/
theorem flush_mirror_eq {E : Net → Exp} {V : View} {m : ExportMap} {p : PendingTx} (mirror : Mirror)
    (I : Inv E V m p (p.buffered.foldl Mirror.applyMsg mirror)) (hb : bufOk mirror p.buffered) :
    mirror.applyFlush p.drain.1 =
      (p.reach.map routeOf).foldl Mirror.set
        ((p.stray ++ p.unreach.map (fun e => (e.1.2, e.2))).foldl (fun m e => m.del e.2 e.1)
          (p.buffered.foldl Mirror.applyMsg mirror)) := by
  have hd := reach_routes_nodup I
  have hshape : p.drain.1 = p.buffered ++
      ((if p.unreach.isEmpty && p.stray.isEmpty then []
        else [Msg.unreach (p.stray ++ p.unreach.map (fun e => (e.1.2, e.2)))]) ++
       (p.reach.map reachMsg ++ (if p.pendingEor then [Msg.eor] else []))) := by
    simp [PendingTx.drain, reachMsg, List.append_assoc]
  simp only [Mirror.applyFlush]
  rw [hshape, foldl_tracked_append, hb, foldl_tracked_append]
  have hW : (if p.unreach.isEmpty && p.stray.isEmpty then ([] : List Msg)
        else [Msg.unreach (p.stray ++ p.unreach.map (fun e => (e.1.2, e.2)))]).foldl Mirror.applyTracked
          (p.buffered.foldl Mirror.applyMsg mirror, []) =
      ((p.stray ++ p.unreach.map (fun e => (e.1.2, e.2))).foldl (fun m e => m.del e.2 e.1)
        (p.buffered.foldl Mirror.applyMsg mirror), []) := by
    by_cases he : (p.unreach.isEmpty && p.stray.isEmpty) = true
    · simp only [he, if_true, List.foldl_nil]
      simp only [Bool.and_eq_true, List.isEmpty_iff] at he
      simp [he.1, he.2]
    · simp only [he, Bool.false_eq_true, if_false, List.foldl_cons, List.foldl_nil, Mirror.applyTracked]
  rw [hW, foldl_tracked_append, tracked_reach _ _ _ (by simpa using hd)]
  split <;> simp [Mirror.applyTracked]

theorem flush_mirrorOk {E : Net → Exp} {V : View} {m : ExportMap} {p : PendingTx} (mirror : Mirror)
    (I : Inv E V m p (p.buffered.foldl Mirror.applyMsg mirror)) (hb : bufOk mirror p.buffered)
    (hok : MirrorOk (p.buffered.foldl Mirror.applyMsg mirror)) :
    MirrorOk (mirror.applyFlush p.drain.1) := by
  rw [flush_mirror_eq mirror I hb]
  apply mirrorOk_foldl_set _ _ (mirrorOk_foldl_del _ _ hok)
  intro r hr
  rcases List.mem_map.mp hr with ⟨x, hx, rfl⟩
  exact ⟨(I.reachOwn x hx).1, rfl⟩

/-- `export_invariant`, flush half: the mirror after a flush is the effective mirror -/
theorem flush_get {E : Net → Exp} {V : View} {m : ExportMap} {p : PendingTx} (mirror : Mirror)
    (I : Inv E V m p (p.buffered.foldl Mirror.applyMsg mirror)) (hb : bufOk mirror p.buffered) (net : Net) :
    Mirror.get (mirror.applyFlush p.drain.1) net 0 =
      effGet V p (p.buffered.foldl Mirror.applyMsg mirror) net 0 := by
  have hd := reach_routes_nodup I
  -- shape of the message list
  have hshape : p.drain.1 = p.buffered ++
      ((if p.unreach.isEmpty && p.stray.isEmpty then []
        else [Msg.unreach (p.stray ++ p.unreach.map (fun e => (e.1.2, e.2)))]) ++
       (p.reach.map reachMsg ++ (if p.pendingEor then [Msg.eor] else []))) := by
    simp [PendingTx.drain, reachMsg, List.append_assoc]
  simp only [Mirror.applyFlush]
  rw [hshape, foldl_tracked_append, hb, foldl_tracked_append]
  -- the Unreach message
  let es := p.stray ++ p.unreach.map (fun e => (e.1.2, e.2))
  let mbuf := p.buffered.foldl Mirror.applyMsg mirror
  have hW : (if p.unreach.isEmpty && p.stray.isEmpty then ([] : List Msg)
        else [Msg.unreach es]).foldl Mirror.applyTracked (mbuf, []) =
      (es.foldl (fun m e => m.del e.2 e.1) mbuf, []) := by
    by_cases he : (p.unreach.isEmpty && p.stray.isEmpty) = true
    · simp only [he, if_true, List.foldl_nil]
      simp only [Bool.and_eq_true, List.isEmpty_iff] at he
      simp [es, he.1, he.2]
    · simp only [he, Bool.false_eq_true, if_false, List.foldl_cons, List.foldl_nil, Mirror.applyTracked]
  rw [hW, foldl_tracked_append, tracked_reach _ _ _ (by simpa using hd)]
  have hE : ∀ s : Mirror × List Route,
      ((if p.pendingEor then [Msg.eor] else []).foldl Mirror.applyTracked s).1 = s.1 := by
    intro s; split <;> simp [Mirror.applyTracked]
  rw [hE]
  simp only
  -- now compare with effGet
  simp only [effGet]
  cases hl : (V.idOf net).bind (fun d => lookup (d, 0) p.reach) with
  | some v =>
    obtain ⟨net', as, nh⟩ := v
    simp only
    -- the entry found belongs to `net`
    cases hid : V.idOf net with
    | none => simp [hid] at hl
    | some d =>
      simp only [hid, Option.bind_some] at hl
      have hmem := mem_of_lookup _ _ _ hl
      have hown := (I.reachOwn _ hmem).2.1
      simp only at hown
      have hnn : net' = net := by
        obtain ⟨x, hx, hxn, hxi⟩ := idOf_some_mem V net' d hown
        obtain ⟨y, hy, hyn, hyi⟩ := idOf_some_mem V net d hid
        have hxy : x = y := by
          have hids := I.vwf.2.1
          exact inj_of_nodup_map (·.id) V hids hx hy (hxi.trans hyi.symm)
        rw [← hxn, ← hyn, hxy]
      subst hnn
      have hr : routeOf ((d, 0), (net', as, nh)) ∈ p.reach.map routeOf := List.mem_map_of_mem hmem
      have := get_foldl_set_some (p.reach.map routeOf) (es.foldl (fun m e => m.del e.2 e.1) mbuf) _ hr hd
      simpa [routeOf] using this
  | none =>
    simp only
    -- no reach entry for `net`
    have hnone : ∀ r ∈ p.reach.map routeOf, ¬ (r.net = net ∧ r.pid = 0) := by
      intro r hr hk
      rcases List.mem_map.mp hr with ⟨x, hx, rfl⟩
      simp only [routeOf] at hk
      have hx' := I.reachOwn x hx
      rw [hk.1] at hx'
      simp only [hx'.2.1, Option.bind_some] at hl
      have := lookup_of_mem p.reach I.reachKeys x hx
      have hxk : x.1 = (x.1.1, 0) := by cases hx1 : x.1; simp_all
      rw [hxk] at this; rw [this] at hl; cases hl
    rw [get_foldl_set_none _ _ _ _ hnone, get_foldl_del]
    have hiff : ((0, net) ∈ es) ↔ wdl p net 0 = true := by
      rw [wdl_iff]
      simp only [es, List.mem_append, List.mem_map]
      constructor
      · rintro (h | ⟨x, hx, hxe⟩)
        · exact Or.inl h
        · simp only [Prod.mk.injEq] at hxe
          exact Or.inr ⟨x, hx, hxe.1, hxe.2⟩
      · rintro (h | ⟨x, hx, hw, hn⟩)
        · exact Or.inl h
        · exact Or.inr ⟨x, hx, by rw [hw, hn]⟩
    by_cases hw : wdl p net 0 = true
    · simp [hw, hiff.mpr hw]
    · have : ¬ (0, net) ∈ es := fun h => hw (hiff.mp h)
      simp [hw, this, mbuf]

end Rbgp.Export.Conv
