/- Term encoding of the C09 cases / observations (shared syntax with harness/daemon/c09.rs). -/
import Rbgp.Term
import Rbgp.Export.Model
namespace Rbgp.Export.Codec
open Rbgp Rbgp.Term Rbgp.Export

def U32 : Nat := 4294967296
def U128 : Nat := 340282366920938463463374607431768211456

def nat32? (t : Term) : Option Nat := do
  let n ← asNat? t
  if n < U32 then some n else none

def roleT : Role → Term
  | .ebgp => sym "ebgp" | .rsClient => sym "rsc" | .ibgp => sym "ibgp"
  | .rrClient => sym "rrc" | .confed => sym "confed"
def roleOf? : Term → Option Role
  | .atom "ebgp" => some .ebgp | .atom "rsc" => some .rsClient | .atom "ibgp" => some .ibgp
  | .atom "rrc" => some .rrClient | .atom "confed" => some .confed
  | _ => none

def addrT : Addr → Term
  | .v4 a => tag "v4" [nat a]
  | .v6 a => tag "v6" [nat a]
def addrOf? : Term → Option Addr
  | .list [.atom "v4", a] => do let n ← asNat? a; if n < U32 then some (.v4 n) else none
  | .list [.atom "v6", a] => do let n ← asNat? a; if n < U128 then some (.v6 n) else none
  | _ => none

def nhT : Nh → Term
  | .v4 a => tag "v4" [nat a]
  | .v6 a => tag "v6" [nat a]
  | .v6ll a l => tag "v6ll" [nat a, nat l]
def nhOf? : Term → Option Nh
  | .list [.atom "v4", a] => do let n ← asNat? a; if n < U32 then some (.v4 n) else none
  | .list [.atom "v6", a] => do let n ← asNat? a; if n < U128 then some (.v6 n) else none
  | .list [.atom "v6ll", a, l] => do
      let n ← asNat? a; let m ← asNat? l
      if n < U128 ∧ m < U128 then some (.v6ll n m) else none
  | _ => none

def famT : Fam → Term
  | .ipv4 => sym "ipv4" | .ipv6 => sym "ipv6" | .fs4 => sym "fs4"
def famOf? : Term → Option Fam
  | .atom "ipv4" => some .ipv4 | .atom "ipv6" => some .ipv6 | .atom "fs4" => some .fs4
  | _ => none

def segT (s : Seg) : Term := list (nat s.1 :: s.2.map nat)
def segOf? : Term → Option Seg
  | .list (t :: as) => do pure ((← asNat? t), (← as.mapM nat32?))
  | _ => none

def attrT : Attr → Term
  | .val c v => tag "val" [nat c, nat v]
  | .aspath segs => list (sym "aspath" :: segs.map segT)
  | .words c ws => list (sym "words" :: nat c :: ws.map nat)
  | .bin c bs => tag "bin" [nat c, bytes bs]
  | .opq c f bs => tag "opq" [nat c, nat f, bytes bs]

def attrOf? (t : Term) : Option Attr := do
  let a ← match t with
    | .list [.atom "val", c, v] => do pure (Attr.val (← asNat? c) (← nat32? v))
    | .list (.atom "aspath" :: segs) => do pure (Attr.aspath (← segs.mapM segOf?))
    | .list (.atom "words" :: c :: ws) => do pure (Attr.words (← asNat? c) (← ws.mapM nat32?))
    | .list [.atom "bin", c, bs] => do pure (Attr.bin (← asNat? c) (← asBytes? bs))
    | .list [.atom "opq", c, f, bs] => do
        let c ← asNat? c
        if c < 256 then pure (Attr.opq c (← asNat? f) (← asBytes? bs)) else none
    | _ => none
  if a.wf then some a else none

def attrsT (as : Attrs) : Term := list (sym "attrs" :: as.map attrT)
def attrsOf? : Term → Option Attrs
  | .list (.atom "attrs" :: as) => as.mapM attrOf?
  | _ => none

def nhOptT : Option Nh → Term
  | none => sym "none"
  | some n => nhT n
def nhOptOf? : Term → Option (Option Nh)
  | .atom "none" => some none
  | t => (nhOf? t).map some

def intOf? (sign n : Term) : Option Int := do
  let v ← asNat? n
  if v ≥ 9223372036854775808 then none
  else match sign with
    | .atom "+" => some (Int.ofNat v)
    | .atom "-" => some (- Int.ofNat v)
    | _ => none

def dispOf? : Term → Option Disp
  | .atom "pass" => some .pass | .atom "accept" => some .accept | .atom "reject" => some .reject
  | _ => none

def policyOf? : Term → Option (Option Policy)
  | .atom "none" => some none
  | .list [.atom "pol", cond, nh, med, .list (.atom "comm" :: cs), d, dflt] => do
      let cond ← match cond with
        | .atom "any" => some none
        | .list [.atom "origin", v] => do let v ← asNat? v; if v < 256 then some (some v) else none
        | _ => none
      let nh ← match nh with
        | .atom "none" => some none
        | .atom "self" => some (some NhAct.self)
        | .atom "peer" => some (some NhAct.peer)
        | .atom "unchanged" => some (some NhAct.unchanged)
        | .list [.atom "addr", a] => (addrOf? a).map (fun a => some (NhAct.addr a))
        | _ => none
      let med ← match med with
        | .atom "none" => some none
        | .list [.atom "set", s, n] => (intOf? s n).map (fun v => some (MedAct.set v))
        | .list [.atom "mod", s, n] => (intOf? s n).map (fun v => some (MedAct.mod v))
        | _ => none
      let cs ← cs.mapM nat32?
      let d ← dispOf? d
      let dflt ← dispOf? dflt
      if dflt = .pass then none else pure (some ⟨cond, nh, med, cs, d, dflt⟩)
  | _ => none

def localSource : Source := ⟨.locl, .v4 0, 0, 0, 0, .ibgp, false⟩
def kernelSource : Source := ⟨.kernel, .v4 0, 0, 0, 0, .ibgp, false⟩

def sourceOf? : Term → Option Source
  | .atom "local" => some localSource
  | .atom "kernel" => some kernelSource
  | .list [.atom "peer", a, rasn, lasn, rid, role, llgr] => do
      pure ⟨.peer, (← addrOf? a), (← nat32? rasn), (← nat32? lasn), (← nat32? rid), (← roleOf? role), (← asBool? llgr)⟩
  | _ => none

def ctxOf? : Term → Option Ctx
  | .list [.atom "ctx", role, lasn, laddr, link, confed] => do
      let link ← asOpt? (fun t => do let n ← asNat? t; if n < U128 then some n else none) link
      pure ⟨(← roleOf? role), (← nat32? lasn), (← addrOf? laddr), link, (← nat32? confed)⟩
  | _ => none

def sessOf? (ctx pol sess : Term) : Option Sess := do
  let ctx ← ctxOf? ctx
  let pol ← policyOf? pol
  match sess with
  | .list [.atom "sess", raddr, cluster, mx, fam] => do
      let mx ← asNat? mx
      if mx = 0 ∨ mx > 8 then none
      else pure ⟨ctx, (← addrOf? raddr), (← asOpt? nat32? cluster), pol, (← famOf? fam), mx⟩
  | _ => none

def pathOf? (src : Source) : Term → Option Path
  | .list [.atom "path", pid, nh, attrs] => do
      pure { pid := (← nat32? pid), src := src, nh := (← nhOptOf? nh), attrs := (← attrsOf? attrs) }
  | _ => none

inductive Case where
  | exp (c : ExportCase)
  | exp2 (c : ExportCase)
  | rx (c : RxCase)
  | wire (w : WireCase)

def peerCfgOf? : Term → Option PeerCfg
  | .list [.atom "nbr", a, rasn, lasn, rid, rs, rrc, cl] => do
      pure ⟨(← addrOf? a), (← nat32? rasn), (← nat32? lasn), (← nat32? rid), (← asBool? rs), (← asBool? rrc),
            (← asOpt? nat32? cl)⟩
  | _ => none

def confedOf? : Term → Option (Option (Nat × List Nat))
  | .atom "none" => some none
  | .list (.atom "confed" :: id :: ms) => do
      let id ← nat32? id
      if id = 0 then none else pure (some (id, (← ms.mapM nat32?)))
  | _ => none

def caseOf? : Term → Option Case
  | .list [.atom "exp", ctx, sess, pol, src, path] => do
      let s ← sessOf? ctx pol sess
      let src ← sourceOf? src
      let p ← pathOf? src path
      pure (.exp ⟨s, p⟩)
  | .list [.atom "exp2", ctx, sess, pol, src, path] => do
      let s ← sessOf? ctx pol sess
      let src ← sourceOf? src
      let p ← pathOf? src path
      -- the route comes from a neighbour that is not stale yet; the RIB gives the path id 1
      if src.kind = .peer ∧ !src.llgr ∧ p.pid = 1 then pure (.exp2 ⟨s, p⟩) else none
  | .list [.atom "wire", .list [.atom "glob", asn, rid, confed, laddr], src, dst, first, nh, attrs] => do
      let dst ← match dst with
        | .atom "none" => some none
        | t => (peerCfgOf? t).map some
      let src ← peerCfgOf? src
      let w : WireCase := ⟨(← nat32? asn), (← nat32? rid), (← confedOf? confed), (← addrOf? laddr), src, dst,
                           (← asBool? first), (← nhOf? nh), (← attrsOf? attrs)⟩
      -- the harness listens on 127.0.0.1 and speaks from distinct addresses of 127.0.0.0/8
      let lo := fun (a : Addr) => match a with | .v4 n => n / 16777216 = 127 | _ => false
      let okDst := match dst with
        | some d => lo d.addr && d.addr != src.addr && d.addr != w.localAddr
        | none => true
      -- a router and neighbours that can open a session: AS numbers and BGP identifiers are not 0
      let okNbr := fun (p : PeerCfg) => p.remoteAsn != 0 && p.rid != 0 && p.rid != w.rid
      let okCfg := w.asn != 0 && w.rid != 0 && okNbr src && (match dst with | some d => okNbr d | none => true)
      if okCfg && w.localAddr = .v4 2130706433 && lo src.addr && src.addr != w.localAddr && okDst &&
         (match w.nh with | .v4 _ => true | _ => false) then pure (.wire w) else none
  | .list [.atom "rx", lasn, confed, rid, cluster, role, attrs] => do
      pure (.rx ⟨(← nat32? lasn), (← nat32? confed), (← nat32? rid), (← asOpt? nat32? cluster),
                  (← roleOf? role), (← attrsOf? attrs)⟩)
  | _ => none

def obsT : Obs → Term
  | .suppressed => sym "suppressed"
  | .reach pid nh as => tag "reach" [nat pid, nhOptT nh, attrsT as]
  | .other => sym "other"
def obsOf? : Term → Option Obs
  | .atom "suppressed" => some .suppressed
  | .list [.atom "reach", pid, nh, as] => do pure (.reach (← asNat? pid) (← nhOptOf? nh) (← attrsOf? as))
  | .atom "other" => some .other
  | _ => none

def obs2T : Obs2 → Term
  | .nothing => sym "nothing"
  | .withdrawn => sym "withdrawn"
  | .reach pid nh as => tag "reach" [nat pid, nhOptT nh, attrsT as]
  | .other => sym "other"
def obs2Of? : Term → Option Obs2
  | .atom "nothing" => some .nothing
  | .atom "withdrawn" => some .withdrawn
  | .list [.atom "reach", pid, nh, as] => do pure (.reach (← asNat? pid) (← nhOptOf? nh) (← attrsOf? as))
  | .atom "other" => some .other
  | _ => none

def twiceT (o : Obs × Obs2) : Term := tag "twice" [obsT o.1, obs2T o.2]
def twiceOf? : Term → Option (Obs × Obs2)
  | .list [.atom "twice", a, b] => do pure ((← obsOf? a), (← obs2Of? b))
  | _ => none

def wireObsT (o : WireObs) : Term :=
  tag "wire" [(match o.installed with | some as => tag "installed" [attrsT as] | none => sym "absent"),
              tag "back" [obsT o.back], tag "sent" [obsT o.sent]]
def wireObsOf? : Term → Option WireObs
  | .list [.atom "wire", inst, .list [.atom "back", b], .list [.atom "sent", s]] => do
      let inst ← match inst with
        | .atom "absent" => some none
        | .list [.atom "installed", as] => (attrsOf? as).map some
        | _ => none
      pure ⟨inst, (← obsOf? b), (← obsOf? s)⟩
  | _ => none

def installedT (b : Bool) : Term := tag "installed" [bool b]
def installedOf? : Term → Option Bool
  | .list [.atom "installed", b] => asBool? b
  | _ => none

end Rbgp.Export.Codec
