/-
  Rbgp.Export.Spec01 — C01 written from the property text as a reference checker over
  observations.  The observation of a history is what the bytes sent to the neighbour left in
  its mirror Adj-RIB-In after the channel was emptied and a flush ran (`final`), and what a
  brand-new session with the same parameters was sent from the same RIB under the same policy
  (`dump`).  Both come from the real code when the oracle runs; the checker calls no model
  function.

  "exactly the routes a brand-new session would be sent"  ⇒  final = dump as sets of
  (prefix, path-id, attributes, next hop), classified for the report:
    * a route in `final` whose key is not in `dump`: something that stopped being exportable was
      not withdrawn on the wire (second sentence of the statement);
    * a key of `dump` missing from `final`;
    * same key, different attributes or next hop.
  Independently of `dump`: a prefix no source currently announces (per the history itself) must
  not be in `final`.
-/
import Rbgp.Export.Pipeline
namespace Rbgp.Export.Spec01
open Rbgp.Export

inductive Verdict where
  | ok
  | fail (clause : String)
  deriving DecidableEq, Repr, Inhabited

def sameKey (a b : Route) : Bool := a.net = b.net && a.pid = b.pid

/-- canonical content of a route: attributes compared as the multiset the wire order cannot
    distinguish (observations are already sorted by code on both sides) -/
def sameRoute (a b : Route) : Bool :=
  sameKey a b && a.nh = b.nh && a.attrs = b.attrs && !a.amb && !b.amb

/-- announcements that are live at the end of a history: (source address, prefix index, remote path id) -/
def liveAnn (srcs : List Source) : List Op → List (Addr × Nat × Nat) → List (Addr × Nat × Nat)
  | [], acc => acc
  | op :: rest, acc =>
      let addrOf (s : Nat) : Option Addr := (srcs[s]?).map (·.addr)
      match op with
      | .ann s p rpid _ _ =>
          match addrOf s with
          | some a => liveAnn srcs rest ((a, p, rpid) :: acc.filter (· ≠ (a, p, rpid)))
          | none => liveAnn srcs rest acc
      | .wd s p rpid =>
          match addrOf s with
          | some a => liveAnn srcs rest (acc.filter (· ≠ (a, p, rpid)))
          | none => liveAnn srcs rest acc
      | .down s =>
          match addrOf s with
          | some a => liveAnn srcs rest (acc.filter (·.1 ≠ a))
          | none => liveAnn srcs rest acc
      | _ => liveAnn srcs rest acc

/-- the operations up to and including flush number `n` (counted from 0) -/
def uptoFlush : List Op → Nat → List Op
  | [], _ => []
  | .flush :: _, 0 => [.flush]
  | .flush :: rest, n + 1 => .flush :: uptoFlush rest n
  | op :: rest, n => op :: uptoFlush rest n

/-- Class of the history reported with a failure (it is part of the finding's signature): did some
    soft-reset re-walk of the RIB run while changes emitted before it were still queued behind it
    in the session's channel (`overtaken`) AND was a destination id handed to another prefix
    (`reuse`) — the two ingredients of finding S36, both observed facts about the history so far?
    Otherwise: did an LLGR stale period start (every route of the source changes without an
    announcement)? -/
def classOf (hist : List Op) (reuse overtaken : Nat) : String :=
  if overtaken > 0 && reuse > 0 then " class=refresh-overtook-queued-changes"
  else if hist.any (fun op => match op with | .llgr _ => true | _ => false) then " class=llgr-restale"
  else " class=in-order"

/-- "Once its pending updates have been flushed" and nothing is left in the channel: the
    neighbour's view against what a brand-new session would be sent, for the history `hist` so far -/
def pointCheck (c : Case01) (hist : List Op) (reuse overtaken : Nat) (final dump : Mirror) (sfx : String) : Verdict :=
  let live := liveAnn c.srcs hist []
  let liveNets : List Net := live.filterMap (fun x => (c.pfxs[x.2.1]?).map (·.1))
  let cls := classOf hist reuse overtaken ++ sfx
  if final.any (fun r => !liveNets.contains r.net) then .fail ("view-holds-prefix-absent-from-rib" ++ cls)
  else if final.any (fun r => !dump.any (sameKey r)) then .fail ("stale-route-not-withdrawn" ++ cls)
  else if dump.any (fun r => !final.any (sameKey r)) then .fail ("route-of-fresh-dump-missing" ++ cls)
  else if final.any (fun r => !dump.any (sameRoute r)) then .fail ("route-differs-from-fresh-dump" ++ cls)
  else if !(decide (final.map (fun r => (r.net, r.pid))).Nodup) then .fail ("duplicate-key-in-view" ++ cls)
  else .ok

def quietCheck (c : Case01) (q : Quiet) : Verdict :=
  pointCheck c (c.pre ++ uptoFlush c.ops q.nth) q.reuse q.overtaken q.mirror q.dump s!" at={q.nth}"

/-- every flush that left nothing in the channel is judged, then the end of the history (everything
    delivered, flushed) -/
def check (c : Case01) (o : Obs01) : Verdict :=
  match o.quiet.find? (fun q => quietCheck c q != .ok) with
  | some q => quietCheck c q
  | none => pointCheck c (c.pre ++ c.ops) o.reuse o.overtaken o.final o.dump ""

end Rbgp.Export.Spec01
