/-
  Rbgp.Export.Spec01 — C01 written from the property text as a reference checker over
  observations.  The observation of a history is what the bytes sent to the neighbour left in
  its mirror Adj-RIB-In after the channel was emptied and a flush ran (`final`), and what a
  brand-new session with the same parameters was sent from the same RIB under the same policy
  (`dump`).  Both come from the real code when the oracle runs; the checker calls no model
  function.

  "exactly the routes a brand-new session would be sent"  ⇒  final = dump as sets of
  (prefix, path-id, attributes, next hop), classified for the report:
    * a route in `final` whose key is not in `dump`: something that stopped being exportable was
      not withdrawn on the wire (second sentence of the statement);
    * a key of `dump` missing from `final`;
    * same key, different attributes or next hop.
  Independently of `dump`: a prefix no source currently announces (per the history itself) must
  not be in `final`.
-/
import Rbgp.Export.Pipeline
namespace Rbgp.Export.Spec01
open Rbgp.Export

inductive Verdict where
  | ok
  | fail (clause : String)
  deriving DecidableEq, Repr, Inhabited

def sameKey (a b : Route) : Bool := a.net = b.net && a.pid = b.pid

/-- canonical content of a route: attributes compared as the multiset the wire order cannot
    distinguish (observations are already sorted by code on both sides) -/
def sameRoute (a b : Route) : Bool :=
  sameKey a b && a.nh = b.nh && a.attrs = b.attrs && !a.amb && !b.amb

/-- announcements that are live at the end of a history: (source address, prefix index, remote path id) -/
def liveAnn (srcs : List Source) : List Op → List (Addr × Nat × Nat) → List (Addr × Nat × Nat)
  | [], acc => acc
  | op :: rest, acc =>
      let addrOf (s : Nat) : Option Addr := (srcs[s]?).map (·.addr)
      match op with
      | .ann s p rpid _ _ =>
          match addrOf s with
          | some a => liveAnn srcs rest ((a, p, rpid) :: acc.filter (· ≠ (a, p, rpid)))
          | none => liveAnn srcs rest acc
      | .wd s p rpid =>
          match addrOf s with
          | some a => liveAnn srcs rest (acc.filter (· ≠ (a, p, rpid)))
          | none => liveAnn srcs rest acc
      | .down s =>
          match addrOf s with
          | some a => liveAnn srcs rest (acc.filter (·.1 ≠ a))
          | none => liveAnn srcs rest acc
      | _ => liveAnn srcs rest acc

/-- Class of the history reported with a failure (it is part of the finding's signature): did some
    soft-reset re-walk of the RIB run while changes emitted before it were still queued behind it
    in the session's channel (`overtaken`, an observed fact about the schedule)?  Otherwise: does
    the history start an LLGR stale period (every route of the source changes without an
    announcement)? -/
def scheduleClass (c : Case01) (o : Obs01) : String :=
  if o.overtaken > 0 then " class=refresh-overtook-queued-changes"
  else if (c.pre ++ c.ops).any (fun op => match op with | .llgr _ => true | _ => false) then " class=llgr-restale"
  else " class=in-order"

def check (c : Case01) (o : Obs01) : Verdict :=
  let live := liveAnn c.srcs (c.pre ++ c.ops) []
  let liveNets : List Net := live.filterMap (fun x => (c.pfxs[x.2.1]?).map (·.1))
  let cls := scheduleClass c o
  if o.final.any (fun r => !liveNets.contains r.net) then .fail ("view-holds-prefix-absent-from-rib" ++ cls)
  else if o.final.any (fun r => !o.dump.any (sameKey r)) then .fail ("stale-route-not-withdrawn" ++ cls)
  else if o.dump.any (fun r => !o.final.any (sameKey r)) then .fail ("route-of-fresh-dump-missing" ++ cls)
  else if o.final.any (fun r => !o.dump.any (sameRoute r)) then .fail ("route-differs-from-fresh-dump" ++ cls)
  else if !(decide (o.final.map (fun r => (r.net, r.pid))).Nodup) then .fail ("duplicate-key-in-view" ++ cls)
  else .ok

end Rbgp.Export.Spec01
