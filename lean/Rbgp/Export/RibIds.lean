/-
  Rbgp.Export.RibIds — C01, `destid_stable`: in the RIB model a destination id names one prefix
  for as long as the prefix is in the table; ids of different prefixes differ; an id is released
  only by the operation whose change for that prefix carries no paths.
-/
import Rbgp.Export.Pipeline
namespace Rbgp.Export.RibIds
open Rbgp.Export

/-- if every number of [n, n+k) is in `l`, then `l` has at least `k` elements -/
theorem interval_length (k : Nat) : ∀ (l : List Nat) (n : Nat), (∀ m, n ≤ m → m < n + k → m ∈ l) → k ≤ l.length := by
  induction k with
  | zero => intros; exact Nat.zero_le _
  | succ k ih =>
    intro l n h
    have hmem : n + k ∈ l := h (n + k) (by omega) (by omega)
    have := ih (l.erase (n + k)) n (by
      intro m h1 h2
      exact (List.mem_erase_of_ne (by omega)).mpr (h m h1 (by omega)))
    rw [List.length_erase_of_mem hmem] at this
    have : 0 < l.length := List.length_pos_of_mem hmem
    omega

/-- `lowestFree` walks up from `n`; with enough fuel it stops on a free id -/
theorem lowestFree_spec (used : List Nat) : ∀ (fuel n : Nat),
    (lowestFree used fuel n ∉ used ∨ (∀ m, n ≤ m → m < n + fuel → m ∈ used)) ∧
    n ≤ lowestFree used fuel n ∧ lowestFree used fuel n ≤ n + fuel := by
  intro fuel
  induction fuel with
  | zero =>
    intro n
    refine ⟨Or.inr (fun m h1 h2 => by omega), ?_, ?_⟩ <;> simp [lowestFree]
  | succ f ih =>
    intro n
    simp only [lowestFree]
    by_cases hc : used.contains n = true
    · simp only [hc, if_true]
      obtain ⟨h1, h2, h3⟩ := ih (n + 1)
      refine ⟨?_, by omega, by omega⟩
      rcases h1 with h1 | h1
      · exact Or.inl h1
      · right
        intro m hm1 hm2
        by_cases hmn : m = n
        · subst hmn; simpa using hc
        · exact h1 m (by omega) (by omega)
    · simp only [hc, Bool.false_eq_true, if_false]
      exact ⟨Or.inl (by simpa using hc), Nat.le_refl _, by omega⟩

theorem lowestFree_fresh (used : List Nat) :
    lowestFree used (used.length + 1) 0 ∉ used ∧ lowestFree used (used.length + 1) 0 ≤ used.length + 1 := by
  obtain ⟨h1, _, h3⟩ := lowestFree_spec used (used.length + 1) 0
  refine ⟨?_, by omega⟩
  rcases h1 with h1 | h1
  · exact h1
  · have := interval_length (used.length + 1) used 0 (by intro m a b; exact h1 m a (by omega))
    omega

theorem uniq_of_nodup_map {α β} (f : α → β) (l : List α) (h : (l.map f).Nodup) {x y : α}
    (hx : x ∈ l) (hy : y ∈ l) (hf : f x = f y) : x = y := by
  induction l with
  | nil => cases hx
  | cons a rest ih =>
    simp only [List.map_cons, List.nodup_cons] at h
    rcases List.mem_cons.mp hx with rfl | hx' <;> rcases List.mem_cons.mp hy with rfl | hy'
    · rfl
    · exact absurd (hf ▸ List.mem_map_of_mem hy') h.1
    · exact absurd (hf ▸ List.mem_map_of_mem hx') h.1
    · exact ih h.2 hx' hy'

/-- one shard, on its components: prefixes pairwise distinct, ids pairwise distinct, and the
    allocator's `used` set is exactly the local ids of the destinations -/
structure Ok (idx : Nat) (dests : List Dest) (used : List Nat) : Prop where
  nets : (dests.map (·.net)).Nodup
  ids : (dests.map (·.id)).Nodup
  own : ∀ d ∈ dests, ∃ l ∈ used, d.id = destId idx l
  back : ∀ l ∈ used, ∃ d ∈ dests, d.id = destId idx l
  small : ∀ l ∈ used, l < 16777216

def ShardOk (s : Shard) : Prop := Ok s.idx s.dests s.used

theorem destId_inj (idx a b : Nat) (h : destId idx a = destId idx b) : a = b := by
  simp only [destId] at h; omega

def replaceNet (dests : List Dest) (net : Net) (d' : Dest) : List Dest :=
  dests.map (fun x => if x.net = net then d' else x)

theorem mem_replaceNet (dests : List Dest) (net : Net) (d' : Dest) (y : Dest) :
    y ∈ replaceNet dests net d' ↔ (y ∈ dests ∧ y.net ≠ net) ∨ (y = d' ∧ ∃ x ∈ dests, x.net = net) := by
  simp only [replaceNet, List.mem_map]
  constructor
  · rintro ⟨x, hx, rfl⟩
    by_cases h : x.net = net
    · simp only [h, if_true]; exact Or.inr ⟨trivial, x, hx, h⟩
    · simp only [h, if_false]; exact Or.inl ⟨hx, h⟩
  · rintro (⟨hy, hn⟩ | ⟨rfl, x, hx, hxn⟩)
    · exact ⟨y, hy, by simp [hn]⟩
    · exact ⟨x, hx, by simp [hxn]⟩

/-- replacing the destination of `net` by one with the same prefix and id keeps the table consistent -/
theorem ok_replace (idx : Nat) (dests : List Dest) (used : List Nat) (h : Ok idx dests used)
    (d d' : Dest) (hd : d ∈ dests) (hn : d'.net = d.net) (hi : d'.id = d.id) :
    Ok idx (replaceNet dests d.net d') used := by
  have hnets : (replaceNet dests d.net d').map (·.net) = dests.map (·.net) := by
    simp only [replaceNet, List.map_map]
    apply List.map_congr_left
    intro x _
    by_cases hx : x.net = d.net <;> simp [hx, hn]
  have hids : (replaceNet dests d.net d').map (·.id) = dests.map (·.id) := by
    simp only [replaceNet, List.map_map]
    apply List.map_congr_left
    intro x hx
    by_cases hxn : x.net = d.net
    · have := uniq_of_nodup_map (·.net) dests h.nets hx hd hxn
      simp [hxn, hi, this]
    · simp [hxn]
  refine ⟨by rw [hnets]; exact h.nets, by rw [hids]; exact h.ids, ?_, ?_, h.small⟩
  · intro y hy
    rcases (mem_replaceNet _ _ _ _).mp hy with ⟨hy', _⟩ | ⟨rfl, _⟩
    · exact h.own y hy'
    · rw [hi]; exact h.own d hd
  · intro l hl
    obtain ⟨y, hy, hyi⟩ := h.back l hl
    by_cases hyn : y.net = d.net
    · have := uniq_of_nodup_map (·.net) dests h.nets hy hd hyn
      exact ⟨d', (mem_replaceNet _ _ _ _).mpr (Or.inr ⟨rfl, d, hd, rfl⟩), by rw [hi, ← this]; exact hyi⟩
    · exact ⟨y, (mem_replaceNet _ _ _ _).mpr (Or.inl ⟨hy, hyn⟩), hyi⟩

/-- a new prefix with the lowest free id keeps the table consistent -/
theorem ok_append (idx : Nat) (dests : List Dest) (used : List Nat) (h : Ok idx dests used)
    (hroom : used.length + 1 < 16777216) (d' : Dest) (hnew : ∀ x ∈ dests, x.net ≠ d'.net)
    (hid : d'.id = destId idx (lowestFree used (used.length + 1) 0)) :
    Ok idx (dests ++ [d']) (lowestFree used (used.length + 1) 0 :: used) := by
  obtain ⟨hfresh, hle⟩ := lowestFree_fresh used
  refine ⟨?_, ?_, ?_, ?_, ?_⟩
  · simp only [List.map_append, List.map_cons, List.map_nil]
    apply List.nodup_append.mpr
    refine ⟨h.nets, by simp, ?_⟩
    intro a ha b hb
    simp only [List.mem_singleton] at hb; subst hb
    rcases List.mem_map.mp ha with ⟨x, hx, rfl⟩
    exact hnew x hx
  · simp only [List.map_append, List.map_cons, List.map_nil]
    apply List.nodup_append.mpr
    refine ⟨h.ids, by simp, ?_⟩
    intro a ha b hb
    simp only [List.mem_singleton] at hb; subst hb
    rcases List.mem_map.mp ha with ⟨x, hx, rfl⟩
    obtain ⟨l, hl, hxi⟩ := h.own x hx
    intro heq
    rw [hxi, hid] at heq
    have := destId_inj _ _ _ heq
    rw [this] at hl; exact hfresh hl
  · intro x hx
    rcases List.mem_append.mp hx with hx' | hx'
    · obtain ⟨l, hl, hxi⟩ := h.own x hx'
      exact ⟨l, List.mem_cons_of_mem _ hl, hxi⟩
    · simp only [List.mem_singleton] at hx'; subst hx'
      exact ⟨_, List.mem_cons_self .., hid⟩
  · intro l hl
    rcases List.mem_cons.mp hl with rfl | hl'
    · exact ⟨d', List.mem_append_right _ (List.mem_singleton.mpr rfl), hid⟩
    · obtain ⟨y, hy, hyi⟩ := h.back l hl'
      exact ⟨y, List.mem_append_left _ hy, hyi⟩
  · intro l hl
    rcases List.mem_cons.mp hl with rfl | hl'
    · omega
    · exact h.small l hl'

/-- dropping the destination of `net` together with its local id keeps the table consistent -/
theorem ok_remove (idx : Nat) (dests : List Dest) (used : List Nat) (h : Ok idx dests used)
    (d : Dest) (hd : d ∈ dests) :
    Ok idx (dests.filter (fun x => decide (x.net ≠ d.net))) (used.filter (fun u => decide (u ≠ d.id % 16777216))) := by
  obtain ⟨l, hl, hdi⟩ := h.own d hd
  have hmod : d.id % 16777216 = l := by
    rw [hdi]; simp only [destId]
    have := h.small l hl
    omega
  refine ⟨?_, ?_, ?_, ?_, ?_⟩
  · exact List.Nodup.sublist (List.Sublist.map _ List.filter_sublist) h.nets
  · exact List.Nodup.sublist (List.Sublist.map _ List.filter_sublist) h.ids
  · intro x hx
    obtain ⟨hxm, hxn⟩ := List.mem_filter.mp hx
    obtain ⟨l', hl', hxi⟩ := h.own x hxm
    refine ⟨l', List.mem_filter.mpr ⟨hl', ?_⟩, hxi⟩
    simp only [ne_eq, decide_eq_true_eq, hmod]
    intro heq; subst heq
    have : x.id = d.id := by rw [hxi, hdi]
    have hxd := uniq_of_nodup_map (·.id) dests h.ids hxm hd this
    rw [hxd] at hxn
    simp at hxn
  · intro l' hl'
    obtain ⟨hl'm, hne⟩ := List.mem_filter.mp hl'
    simp only [ne_eq, decide_eq_true_eq, hmod] at hne
    obtain ⟨y, hy, hyi⟩ := h.back l' hl'm
    refine ⟨y, List.mem_filter.mpr ⟨hy, ?_⟩, hyi⟩
    simp only [ne_eq, decide_eq_true_eq]
    intro hyn
    have := uniq_of_nodup_map (·.net) dests h.nets hy hd hyn
    rw [this, hdi] at hyi
    exact hne (destId_inj _ _ _ hyi).symm
  · intro l' hl'; exact h.small l' (List.mem_filter.mp hl').1

/-! ### `Table::insert` and `Table::remove` -/

/-- `destid_stable`, insertion: the table stays consistent; every prefix already there keeps its
    id, and a new prefix gets an id no other prefix holds (by `ShardOk` of the result) -/
theorem insert_ok (s : Shard) (h : ShardOk s) (hroom : s.used.length + 1 < 16777216)
    (net : Net) (srcIdx : Nat) (src : Source) (rpid : Nat) (nh : Option Nh) (attrs : Attrs) (aid : Nat)
    (filtered nhInvalid : Bool) :
    ShardOk (s.insert net srcIdx src rpid nh attrs aid filtered nhInvalid).1 ∧
    (∀ d ∈ s.dests, ∃ d' ∈ (s.insert net srcIdx src rpid nh attrs aid filtered nhInvalid).1.dests,
       d'.net = d.net ∧ d'.id = d.id) := by
  simp only [Shard.insert, ShardOk]
  cases hf : s.dests.find? (·.net = net) with
  | some d =>
    have hdm := List.mem_of_find?_eq_some hf
    have hdn : d.net = net := by simpa using List.find?_some hf
    have hany : s.dests.any (·.net = net) = true := List.any_eq_true.mpr ⟨d, hdm, by simpa using hdn⟩
    simp only [hany, if_true]
    subst hdn
    constructor
    · exact ok_replace s.idx s.dests s.used h d _ hdm rfl rfl
    · intro x hx
      by_cases hxn : x.net = d.net
      · have := uniq_of_nodup_map (·.net) s.dests h.nets hx hdm hxn
        subst this
        exact ⟨_, (mem_replaceNet _ _ _ _).mpr (Or.inr ⟨rfl, x, hx, rfl⟩), rfl, rfl⟩
      · exact ⟨x, (mem_replaceNet _ _ _ _).mpr (Or.inl ⟨hx, hxn⟩), rfl, rfl⟩
  | none =>
    have hnone : ∀ x ∈ s.dests, x.net ≠ net := by
      intro x hx; simpa using List.find?_eq_none.mp hf x hx
    have hany : s.dests.any (·.net = net) = false := by
      rw [Bool.eq_false_iff]; intro h'
      obtain ⟨x, hx, hxn⟩ := List.any_eq_true.mp h'
      exact hnone x hx (by simpa using hxn)
    simp only [hany, Bool.false_eq_true, if_false]
    constructor
    · exact ok_append s.idx s.dests s.used h hroom _ hnone rfl
    · intro x hx
      exact ⟨x, List.mem_append_left _ hx, rfl, rfl⟩

/-- `destid_stable`, withdrawal: the table stays consistent; other prefixes are untouched; the prefix
    itself keeps its id, or (the id is released and) the emitted change carries its id and no paths;
    no change is emitted when the last path, the one withdrawn, was hidden by the import policy -/
theorem remove_ok (s : Shard) (h : ShardOk s) (net : Net) (src : Source) (rpid : Nat) :
    ShardOk (s.remove net src rpid).1 ∧
    (∀ d ∈ s.dests, d.net ≠ net → d ∈ (s.remove net src rpid).1.dests) ∧
    (∀ d ∈ s.dests, d.net = net →
       (∃ d' ∈ (s.remove net src rpid).1.dests, d'.net = net ∧ d'.id = d.id) ∨
       (s.remove net src rpid).2 = none ∨
       (∃ ch, (s.remove net src rpid).2 = some ch ∧ ch.net = net ∧ ch.destId = d.id ∧ ch.paths = [])) := by
  simp only [Shard.remove, ShardOk]
  cases hf : s.dests.find? (·.net = net) with
  | none =>
    refine ⟨h, fun d hd _ => hd, ?_⟩
    intro d hd hdn
    have := List.find?_eq_none.mp hf d hd
    simp [hdn] at this
  | some d =>
    have hdm := List.mem_of_find?_eq_some hf
    have hdn : d.net = net := by simpa using List.find?_some hf
    have huniq : ∀ x ∈ s.dests, x.net = net → x = d := fun x hx hxn =>
      uniq_of_nodup_map (·.net) s.dests h.nets hx hdm (hxn.trans hdn.symm)
    subst hdn
    simp only
    split
    · exact ⟨h, fun x hx _ => hx, fun x hx hxn => Or.inl ⟨x, hx, hxn, rfl⟩⟩
    · split
      · refine ⟨ok_remove s.idx s.dests s.used h d hdm, ?_, ?_⟩
        · intro x hx hxn
          exact List.mem_filter.mpr ⟨hx, by simpa using hxn⟩
        · intro x hx hxn
          right
          have := huniq x hx hxn
          subst this
          split
          · exact Or.inr ⟨_, rfl, rfl, rfl, rfl⟩
          · exact Or.inl rfl
      · refine ⟨ok_replace s.idx s.dests s.used h d _ hdm rfl rfl, ?_, ?_⟩
        · intro x hx hxn
          exact (mem_replaceNet _ _ _ _).mpr (Or.inl ⟨hx, hxn⟩)
        · intro x hx hxn
          left
          have := huniq x hx hxn
          subst this
          exact ⟨_, (mem_replaceNet _ _ _ _).mpr (Or.inr ⟨rfl, x, hx, rfl⟩), rfl, rfl⟩

/-! ### `Table::drop` (peer down) -/

theorem dropDest_fst (addr : Addr) (d d' : Dest) (h : (dropDest addr d).1 = some d') : d'.net = d.net ∧ d'.id = d.id := by
  simp only [dropDest] at h
  split at h
  · simp only [Option.some.injEq] at h; subst h; exact ⟨rfl, rfl⟩
  · split at h
    · split at h
      · cases h
      · simp only [Option.some.injEq] at h; subst h; exact ⟨rfl, rfl⟩
    · split at h
      · cases h
      · simp only [Option.some.injEq] at h; subst h; exact ⟨rfl, rfl⟩

theorem dropDest_snd (addr : Addr) (d : Dest) (ch : Change Net) (h : (dropDest addr d).2 = some ch) :
    ch.net = d.net ∧ ch.destId = d.id ∧ ((dropDest addr d).1 = none → ch.paths = []) := by
  by_cases c1 : (!d.entries.any (fun e => e.path.src.addr = addr)) = true
  · simp only [dropDest, c1, if_true] at h; cases h
  · by_cases c2 : (!d.entries.any (fun e => e.path.src.addr = addr && !e.filtered && !e.nhInvalid)) = true
    · simp only [dropDest, c1, c2, if_true, if_false, Bool.false_eq_true] at h; cases h
    · by_cases c3 : (d.entries.filter (fun e => e.path.src.addr ≠ addr)).isEmpty = true
      · simp only [dropDest, c1, c2, c3, if_true, if_false, Bool.false_eq_true, Option.some.injEq] at h ⊢
        subst h; exact ⟨rfl, rfl, fun _ => rfl⟩
      · simp only [dropDest, c1, c2, c3, if_false, Bool.false_eq_true, Option.some.injEq] at h ⊢
        subst h; exact ⟨rfl, rfl, fun hn => by cases hn⟩

theorem filterMap_map_sublist {α β} (f : α → Option α) (g : α → β) (hf : ∀ x y, f x = some y → g y = g x) (l : List α) :
    ((l.filterMap f).map g).Sublist (l.map g) := by
  induction l with
  | nil => simp
  | cons a rest ih =>
    simp only [List.filterMap_cons]
    cases hfa : f a with
    | none => simp only [List.map_cons]; exact List.Sublist.cons _ ih
    | some b => simp only [List.map_cons, hf a b hfa]; exact List.Sublist.cons_cons _ ih

/-- `destid_stable`, peer down: the table stays consistent; a prefix that keeps paths keeps its id;
    an id is released only for a prefix that lost all its paths; every emitted change names the id
    of its prefix, and the change for a prefix that is gone carries no paths -/
theorem drop_ok (s : Shard) (h : ShardOk s) (addr : Addr) :
    ShardOk (s.drop addr).1 ∧
    (∀ d' ∈ (s.drop addr).1.dests, ∃ d ∈ s.dests, d'.net = d.net ∧ d'.id = d.id) ∧
    (∀ d ∈ s.dests, (dropDest addr d).1 ≠ none → ∃ d' ∈ (s.drop addr).1.dests, d'.net = d.net ∧ d'.id = d.id) ∧
    (∀ ch ∈ (s.drop addr).2, ∃ d ∈ s.dests, ch.net = d.net ∧ ch.destId = d.id ∧
       ((∀ d' ∈ (s.drop addr).1.dests, d'.net ≠ d.net) → ch.paths = [])) := by
  have hkept : (s.dests.map (dropDest addr)).filterMap (·.1) = s.dests.filterMap (fun d => (dropDest addr d).1) := by
    rw [List.filterMap_map]; rfl
  have hchs : (s.dests.map (dropDest addr)).filterMap (·.2) = s.dests.filterMap (fun d => (dropDest addr d).2) := by
    rw [List.filterMap_map]; rfl
  have hmemK : ∀ d', d' ∈ s.dests.filterMap (fun d => (dropDest addr d).1) ↔ ∃ d ∈ s.dests, (dropDest addr d).1 = some d' := by
    intro d'; simp [List.mem_filterMap]
  have hsrc : ∀ d' ∈ s.dests.filterMap (fun d => (dropDest addr d).1), ∃ d ∈ s.dests, d'.net = d.net ∧ d'.id = d.id := by
    intro d' hd'
    obtain ⟨d, hd, hf⟩ := (hmemK d').mp hd'
    exact ⟨d, hd, dropDest_fst addr d d' hf⟩
  have hmod : ∀ d ∈ s.dests, ∀ l ∈ s.used, d.id = destId s.idx l → d.id % 16777216 = l := by
    intro d _ l hl hdi
    rw [hdi]; simp only [destId]
    have := h.small l hl
    omega
  simp only [Shard.drop, ShardOk, hkept, hchs]
  refine ⟨⟨?_, ?_, ?_, ?_, ?_⟩, hsrc, ?_, ?_⟩
  · exact List.Nodup.sublist (filterMap_map_sublist _ (·.net) (fun x y hxy => (dropDest_fst addr x y hxy).1) _) h.nets
  · exact List.Nodup.sublist (filterMap_map_sublist _ (·.id) (fun x y hxy => (dropDest_fst addr x y hxy).2) _) h.ids
  · intro d' hd'
    obtain ⟨d, hd, hn, hi⟩ := hsrc d' hd'
    obtain ⟨l, hl, hdi⟩ := h.own d hd
    refine ⟨l, List.mem_filter.mpr ⟨hl, ?_⟩, by rw [hi]; exact hdi⟩
    simp only [Bool.not_eq_true', List.contains_eq_mem, decide_eq_false_iff_not, List.mem_map, List.mem_filter, not_exists, not_and]
    intro d2 hd2 hl2
    have h2 := hd2.2
    simp only [Bool.not_eq_true', List.any_eq_false, decide_eq_true_eq] at h2
    -- `d2` holds the same local id, hence is `d`, whose prefix is kept
    obtain ⟨l2, hl2', hd2i⟩ := h.own d2 hd2.1
    have : d2.id % 16777216 = l2 := hmod d2 hd2.1 l2 hl2' hd2i
    rw [this] at hl2; subst hl2
    have hdd : d2 = d := uniq_of_nodup_map (·.id) s.dests h.ids hd2.1 hd (hd2i.trans hdi.symm)
    rw [hdd] at h2
    exact h2 d' hd' hn
  · intro l hl
    obtain ⟨hlu, hlf⟩ := List.mem_filter.mp hl
    obtain ⟨d, hd, hdi⟩ := h.back l hlu
    simp only [Bool.not_eq_true', List.contains_eq_mem, decide_eq_false_iff_not, List.mem_map, List.mem_filter, not_exists, not_and] at hlf
    have hkeep : ¬ (∀ d' ∈ s.dests.filterMap (fun d => (dropDest addr d).1), d'.net ≠ d.net) := by
      intro hall
      apply hlf d ⟨hd, ?_⟩ (hmod d hd l hlu hdi)
      simp only [Bool.not_eq_true', List.any_eq_false, decide_eq_true_eq]
      exact hall
    have : ∃ d' ∈ s.dests.filterMap (fun d => (dropDest addr d).1), d'.net = d.net := by
      apply Classical.byContradiction
      intro hne
      apply hkeep
      intro d' hd' heq
      exact hne ⟨d', hd', heq⟩
    obtain ⟨d', hd', hn⟩ := this
    obtain ⟨d3, hd3, hn3, hi3⟩ := hsrc d' hd'
    have : d3 = d := uniq_of_nodup_map (·.net) s.dests h.nets hd3 hd (hn3.symm.trans hn)
    exact ⟨d', hd', by rw [hi3, this]; exact hdi⟩
  · intro l hl; exact h.small l (List.mem_filter.mp hl).1
  · intro d hd hne
    cases hf : (dropDest addr d).1 with
    | none => exact absurd hf hne
    | some d' => exact ⟨d', (hmemK d').mpr ⟨d, hd, hf⟩, dropDest_fst addr d d' hf⟩
  · intro ch hch
    simp only [List.mem_filterMap] at hch
    obtain ⟨d, hd, hf⟩ := hch
    obtain ⟨h1, h2, h3⟩ := dropDest_snd addr d ch hf
    refine ⟨d, hd, h1, h2, ?_⟩
    intro hall
    apply h3
    cases hf1 : (dropDest addr d).1 with
    | none => rfl
    | some d' =>
      exact absurd (dropDest_fst addr d d' hf1).1 (hall d' ((hmemK d').mpr ⟨d, hd, hf1⟩))

/-- the empty table -/
theorem init_ok (idx : Nat) : ShardOk { idx := idx } := by
  refine ⟨by simp, by simp, ?_, ?_, ?_⟩
  · intro d hd; cases hd
  · intro l hl; cases hl
  · intro l hl; cases hl

end Rbgp.Export.RibIds
