/-
  Rbgp.Export.ConvHistory — C01, part 6: histories of an established non-add-path session
  (changes, flushes, export-policy changes, in-order soft resets) and convergence.
-/
import Rbgp.Export.ConvSession
namespace Rbgp.Export.Conv
open Rbgp.Export

/-- export behaviour per prefix after a delivered change: a skipped change (`best_changed = false`)
    is not re-evaluated, so it keeps the behaviour it was last processed under -/
def stepE (E : Net → Exp) (u : Change Net) (e' : Exp) : Net → Exp :=
  if u.bestChanged then setE E u.net e' else E

/-- `export_invariant` (delivery), whatever the session's current policy -/
theorem sinv_handle' {E : Net → Exp} {V : View} {st : SessState} (S : SInv E V st) (u : Change Net)
    (ha : Admissible V u) (resend : Bool) :
    SInv (stepE E u st.sess.exp) (V.update u.net u.destId u.paths) (st.handle u resend) := by
  cases hb : u.bestChanged with
  | true =>
    simp only [stepE, hb, if_true]
    exact sinv_handle S u ha resend (fun h => by rw [hb] at h; cases h)
  | false =>
    simp only [stepE, hb, Bool.false_eq_true, if_false]
    have hst : st.handle u resend = st := by
      simp only [SessState.handle]
      have := process_plain st.sess.exp (by rw [exp_max]; exact S.plain) u st.map resend
      simp only [hb, if_true] at this
      rw [this]
      simp [applyOps]
    rw [hst]
    have hE := (S.inv.mode).2.2
    have := inv_skip S.inv u ha (E u.net) (hE u.net) (Or.inl ⟨hb, rfl⟩)
    rw [setE_self] at this
    exact ⟨this, S.buf, S.plain, S.mok⟩

/-! ## soft reset OUT, run when the session has caught up with the RIB -/

/-- the snapshot `do_route_refresh` walks describes the same destinations as the session's view -/
structure SnapMatches (V : View) (cs : List (Change Net)) : Prop where
  snap : Snapshot cs
  ids : ∀ c ∈ cs, V.idOf c.net = some c.destId
  cover : ∀ x ∈ V, ∃ c ∈ cs, c.net = x.net

def refreshS (st : SessState) (cs : List (Change Net)) : SessState :=
  let st' := cs.foldl (fun st c => st.handle c true) st
  { st' with pending := { st'.pending with pendingEor := true } }

theorem refreshS_eq (st : SessState) (rib : Rib) : st.refresh rib = refreshS st (snapshotOf st.sess rib) := rfl

def viewRefresh (V : View) (cs : List (Change Net)) : View :=
  cs.foldl (fun V c => V.update c.net c.destId c.paths) V

def refreshE (E : Net → Exp) (cs : List (Change Net)) (e' : Exp) : Net → Exp :=
  cs.foldl (fun E c => setE E c.net e') E

theorem refreshE_other (E : Net → Exp) (cs : List (Change Net)) (e' : Exp) (net : Net)
    (h : net ∉ cs.map (·.net)) : refreshE E cs e' net = E net := by
  induction cs generalizing E with
  | nil => rfl
  | cons c rest ih =>
    simp only [List.map_cons, List.mem_cons, not_or] at h
    simp only [refreshE, List.foldl_cons] at ih ⊢
    rw [ih _ h.2]; simp [setE, h.1]

theorem refreshE_mem (E : Net → Exp) (cs : List (Change Net)) (e' : Exp) (net : Net)
    (h : net ∈ cs.map (·.net)) : refreshE E cs e' net = e' := by
  induction cs generalizing E with
  | nil => cases h
  | cons c rest ih =>
    simp only [refreshE, List.foldl_cons] at ih ⊢
    by_cases hr : net ∈ rest.map (·.net)
    · exact ih _ hr
    · have := refreshE_other (setE E c.net e') rest e' net hr
      simp only [refreshE] at this
      rw [this]
      simp only [List.map_cons, List.mem_cons] at h
      rcases h with h | h
      · simp [setE, h]
      · exact absurd h hr

theorem sess_foldHandle (st : SessState) (cs : List (Change Net)) :
    (cs.foldl (fun st c => st.handle c true) st).sess = st.sess := by
  induction cs generalizing st with
  | nil => rfl
  | cons c rest ih => simp only [List.foldl_cons]; rw [ih]; rfl

/-- an element of the view with a given prefix is unique -/
theorem mem_unique_net (V : View) (hw : V.wf) (x y : VEntry) (hx : x ∈ V) (hy : y ∈ V) (h : x.net = y.net) : x = y :=
  inj_of_nodup_map (·.net) V hw.1 hx hy h

theorem mem_unique_id (V : View) (hw : V.wf) (x y : VEntry) (hx : x ∈ V) (hy : y ∈ V) (h : x.id = y.id) : x = y :=
  inj_of_nodup_map (·.id) V hw.2.1 hx hy h

theorem admissible_of_idOf (V : View) (hw : V.wf) (c : Change Net) (hid : V.idOf c.net = some c.destId)
    (hb : c.bestChanged = true) : Admissible V c := by
  obtain ⟨y, hy, hyn, hyi⟩ := idOf_some_mem V c.net c.destId hid
  refine ⟨?_, ?_, ?_⟩
  · intro x hx hxi
    have := mem_unique_id V hw x y hx hy (hxi.trans hyi.symm)
    rw [this]; exact hyn
  · intro x hx hxn
    have := mem_unique_net V hw x y hx hy (hxn.trans hyn.symm)
    rw [this]; exact hyi
  · intro h; rw [hb] at h; cases h

theorem sinv_foldHandle {E : Net → Exp} {V : View} {st : SessState} (S : SInv E V st)
    (cs : List (Change Net)) (hs : Snapshot cs) (hid : ∀ c ∈ cs, V.idOf c.net = some c.destId) :
    SInv (refreshE E cs st.sess.exp) (viewRefresh V cs) (cs.foldl (fun st c => st.handle c true) st) := by
  induction cs generalizing E V st with
  | nil => exact S
  | cons c rest ih =>
    simp only [List.foldl_cons, refreshE, viewRefresh]
    have hb := hs.flags c (by simp)
    have hadm := admissible_of_idOf V S.inv.vwf c (hid c (by simp)) hb
    have hstep := sinv_handle' S c hadm true
    simp only [stepE, hb, if_true] at hstep
    have hs' : Snapshot rest :=
      ⟨(List.nodup_cons.mp hs.nets).2, (List.nodup_cons.mp hs.ids).2,
       fun x hx => hs.nonempty x (List.mem_cons_of_mem _ hx), fun x hx => hs.flags x (List.mem_cons_of_mem _ hx)⟩
    have hid' : ∀ c' ∈ rest, (V.update c.net c.destId c.paths).idOf c'.net = some c'.destId := by
      intro c' hc'
      have hne : c'.net ≠ c.net := by
        intro heq
        have := (List.nodup_cons.mp hs.nets).1
        apply this
        show c.net ∈ List.map (·.net) rest
        rw [← heq]; exact List.mem_map_of_mem hc'
      rw [View.idOf_update]; simp only [hne, if_false]
      exact hid c' (List.mem_cons_of_mem _ hc')
    have := ih hstep hs' hid'
    have hsess : (st.handle c true).sess = st.sess := rfl
    rw [hsess] at this
    exact this

/-- `export_invariant` (soft reset OUT with the session caught up): afterwards every prefix of the
    view is advertised under the current policy -/
theorem sinv_refresh {E : Net → Exp} {V : View} {st : SessState} (S : SInv E V st)
    (cs : List (Change Net)) (hm : SnapMatches V cs) :
    SInv (refreshE E cs st.sess.exp) (viewRefresh V cs) (refreshS st cs) := by
  have := sinv_foldHandle S cs hm.snap hm.ids
  refine ⟨?_, ?_, ?_, this.mok⟩
  · exact
      { vwf := this.inv.vwf
        mode := this.inv.mode
        eff := this.inv.eff
        mapIff := this.inv.mapIff
        reachOwn := this.inv.reachOwn
        unreachOwn := this.inv.unreachOwn
        strayZero := this.inv.strayZero
        reachKeys := this.inv.reachKeys
        unreachKeys := this.inv.unreachKeys
        sentNodup := this.inv.sentNodup }
  · exact this.buf
  · simp only [refreshS]; rw [sess_foldHandle]; exact S.plain

theorem mem_viewRefresh_net (V : View) (cs : List (Change Net)) (x : VEntry) (h : x ∈ viewRefresh V cs) :
    x.net ∈ cs.map (·.net) ∨ x ∈ V := by
  induction cs generalizing V with
  | nil => exact Or.inr h
  | cons c rest ih =>
    simp only [viewRefresh, List.foldl_cons] at h ih
    rcases ih _ h with h' | h'
    · left; simp only [List.map_cons, List.mem_cons]; exact Or.inr h'
    · rcases (View.mem_update _ _ _ _ _).mp h' with ⟨hv, _⟩ | ⟨_, rfl⟩
      · exact Or.inr hv
      · left; simp

/-- after the soft reset nothing in the view is still advertised under an older policy -/
theorem refresh_current {E : Net → Exp} (V : View) (cs : List (Change Net)) (hm : SnapMatches V cs) (e' : Exp) :
    ∀ x ∈ viewRefresh V cs, refreshE E cs e' x.net = e' := by
  intro x hx
  apply refreshE_mem
  rcases mem_viewRefresh_net V cs x hx with h | h
  · exact h
  · obtain ⟨c, hc, hcn⟩ := hm.cover x h
    rw [← hcn]; exact List.mem_map_of_mem hc

/-! ## histories -/

/-- what happens to an established session: a change is delivered, the socket is flushed, the export
    policy is replaced, a soft reset OUT re-walks the RIB -/
inductive SEv where
  | change (u : Change Net)
  | flush
  | policy (pol : Option Policy)
  | refresh (cs : List (Change Net))

def stepS (st : SessState) : SEv → SessState
  | .change u => st.handle u
  | .flush => st.flush
  | .policy pol => { st with sess := { st.sess with policy := pol } }
  | .refresh cs => refreshS st cs

def runS (st : SessState) (evs : List SEv) : SessState := evs.foldl stepS st

def viewStep (V : View) : SEv → View
  | .change u => V.update u.net u.destId u.paths
  | .refresh cs => viewRefresh V cs
  | _ => V

def viewAfter (V : View) (evs : List SEv) : View := evs.foldl viewStep V

/-- has the policy been replaced without a soft reset since? -/
def staleAfter (b : Bool) : List SEv → Bool
  | [] => b
  | .policy _ :: rest => staleAfter true rest
  | .refresh _ :: rest => staleAfter false rest
  | _ :: rest => staleAfter b rest

/-- every delivered change is one the RIB may emit for the view at that moment, and every soft reset
    runs when the session has caught up with the RIB (its snapshot describes the view's destinations) -/
def AdmSeq : View → List SEv → Prop
  | _, [] => True
  | V, .change u :: rest => Admissible V u ∧ AdmSeq (V.update u.net u.destId u.paths) rest
  | V, .flush :: rest => AdmSeq V rest
  | V, .policy _ :: rest => AdmSeq V rest
  | V, .refresh cs :: rest => SnapMatches V cs ∧ AdmSeq (viewRefresh V cs) rest

theorem max_policy (s : Sess) (pol : Option Policy) : ({ s with policy := pol } : Sess).max = s.max := rfl

theorem run_inv (evs : List SEv) :
    ∀ (E : Net → Exp) (V : View) (st : SessState) (stale : Bool), SInv E V st →
      (stale = false → ∀ x ∈ V, E x.net = st.sess.exp) → AdmSeq V evs →
      ∃ E', SInv E' (viewAfter V evs) (runS st evs) ∧
        (staleAfter stale evs = false → ∀ x ∈ viewAfter V evs, E' x.net = (runS st evs).sess.exp) := by
  induction evs with
  | nil => intro E V st stale S hc _; exact ⟨E, S, hc⟩
  | cons ev rest ih =>
    intro E V st stale S hc hadm
    cases ev with
    | change u =>
      simp only [AdmSeq] at hadm
      have hstep := sinv_handle' S u hadm.1 false
      refine ih _ _ _ stale hstep ?_ hadm.2
      intro hs x hx
      have hcur := hc hs
      show stepE E u st.sess.exp x.net = st.sess.exp
      simp only [stepE]
      by_cases hb : u.bestChanged = true
      · simp only [hb, if_true, setE]
        split
        · rfl
        · rename_i hne
          rcases (View.mem_update _ _ _ _ _).mp hx with ⟨hv, _⟩ | ⟨_, rfl⟩
          · exact hcur x hv
          · exact absurd rfl hne
      · simp only [hb, Bool.false_eq_true, if_false]
        rcases (View.mem_update _ _ _ _ _).mp hx with ⟨hv, _⟩ | ⟨hps, rfl⟩
        · exact hcur x hv
        · -- skipped change: the prefix was in the view already (same best path, and there is one)
          have hbf : u.bestChanged = false := by cases h : u.bestChanged <;> simp_all
          have hh := hadm.1.bestSame hbf
          cases hf : V.find u.net with
          | none =>
            simp only [View.paths, hf, Option.map_none, Option.getD_none, List.head?_nil] at hh
            cases hup : u.paths with
            | nil => exact absurd hup hps
            | cons a r => rw [hup] at hh; simp at hh
          | some y =>
            have hym := View.find_mem V u.net y hf
            have := hcur y hym.1
            rw [hym.2] at this; exact this
    | flush =>
      simp only [AdmSeq] at hadm
      exact ih _ _ _ stale (sinv_flush S) hc hadm
    | policy pol =>
      simp only [AdmSeq] at hadm
      have S' : SInv E V { st with sess := { st.sess with policy := pol } } := ⟨S.inv, S.buf, S.plain, S.mok⟩
      refine ih _ _ _ true S' ?_ hadm
      intro h; cases h
    | refresh cs =>
      simp only [AdmSeq] at hadm
      have hstep := sinv_refresh S cs hadm.1
      refine ih _ _ _ false hstep ?_ hadm.2
      intro _ x hx
      have hsess : (refreshS st cs).sess = st.sess := by simp only [refreshS]; rw [sess_foldHandle]
      show refreshE E cs st.sess.exp x.net = (refreshS st cs).sess.exp
      rw [hsess]
      exact refresh_current V cs hadm.1 st.sess.exp x hx

theorem wantRoute_absent (e : Exp) (he : e.max = 1) (V : View) (net : Net) (h : V.find net = none) :
    wantRoute e V net 0 = none := by
  simp [wantRoute, View.paths, h, target_plain_nil e he, tlookup]

/-- `convergence` (session without add-path): after any history of admissible changes, flushes,
    export-policy changes and in-order soft resets in which no policy change is left without its soft
    reset, the flushed neighbour view holds for every prefix exactly what the last delivered paths
    export to under the current policy -/
theorem convergence (sess : Sess) (hm : sess.max = 1) (rib0 : Rib) (h0 : Snapshot (snapshotOf sess rib0))
    (evs : List SEv) (hadm : AdmSeq (viewOf (snapshotOf sess rib0)) evs)
    (hfresh : staleAfter false evs = false) (net : Net) :
    Mirror.get (runS (establish sess rib0) evs).flush.mirror net 0 =
      wantRoute (runS (establish sess rib0) evs).sess.exp (viewAfter (viewOf (snapshotOf sess rib0)) evs) net 0 := by
  have S0 := sinv_establish sess hm rib0 h0
  obtain ⟨E', S', hcur⟩ := run_inv evs (fun _ => sess.exp) _ (establish sess rib0) false S0
    (fun _ x _ => by simp [establish]) hadm
  rw [converged S' net]
  cases hf : (viewAfter (viewOf (snapshotOf sess rib0)) evs).find net with
  | none =>
    rw [wantRoute_absent _ (S'.inv.mode.2.2 net) _ _ hf, wantRoute_absent _ (by rw [exp_max]; exact S'.plain) _ _ hf]
  | some x =>
    have hxm := View.find_mem _ net x hf
    have := hcur hfresh x hxm.1
    rw [hxm.2] at this; rw [this]

/-- what a brand-new session is sent -/
theorem fresh_dump (sess : Sess) (hm : sess.max = 1) (rib : Rib) (h : Snapshot (snapshotOf sess rib)) (net : Net) :
    Mirror.get (freshDump sess rib) net 0 = wantRoute sess.exp (viewOf (snapshotOf sess rib)) net 0 :=
  converged (sinv_establish sess hm rib h) net

theorem wantRoute_head (e : Exp) (he : e.max = 1) (V W : View) (net : Net)
    (h : (V.paths net).head? = (W.paths net).head?) : wantRoute e V net 0 = wantRoute e W net 0 := by
  simp only [wantRoute, target_plain_head e he _ _ h]

/-- `convergence` against the fresh dump: if the best paths last delivered are the RIB's best paths,
    the neighbour's view is what a brand-new session with the current policy would be sent -/
theorem convergence_vs_dump (sess : Sess) (hm : sess.max = 1) (rib0 rib : Rib)
    (h0 : Snapshot (snapshotOf sess rib0))
    (evs : List SEv) (hadm : AdmSeq (viewOf (snapshotOf sess rib0)) evs)
    (hfresh : staleAfter false evs = false)
    (h1 : Snapshot (snapshotOf (runS (establish sess rib0) evs).sess rib))
    (hview : ∀ net, ((viewAfter (viewOf (snapshotOf sess rib0)) evs).paths net).head? =
                    ((viewOf (snapshotOf (runS (establish sess rib0) evs).sess rib)).paths net).head?)
    (net : Net) :
    Mirror.get (runS (establish sess rib0) evs).flush.mirror net 0 =
      Mirror.get (freshDump (runS (establish sess rib0) evs).sess rib) net 0 := by
  have hmax : (runS (establish sess rib0) evs).sess.max = 1 := by
    have S0 := sinv_establish sess hm rib0 h0
    obtain ⟨E', S', _⟩ := run_inv evs (fun _ => sess.exp) _ (establish sess rib0) false S0
      (fun _ x _ => by simp [establish]) hadm
    exact S'.plain
  rw [convergence sess hm rib0 h0 evs hadm hfresh net, fresh_dump _ hmax rib h1 net]
  exact wantRoute_head _ hmax _ _ net (hview net)

/-- `withdraw_on_wire`: whatever was advertised or is pending, a prefix whose last delivered paths
    export to nothing under the current policy (withdrawn, best path not exportable, filtered) is not
    in the neighbour's view after the next flush -/
theorem withdraw_on_wire (sess : Sess) (hm : sess.max = 1) (rib0 : Rib) (h0 : Snapshot (snapshotOf sess rib0))
    (evs : List SEv) (hadm : AdmSeq (viewOf (snapshotOf sess rib0)) evs)
    (hfresh : staleAfter false evs = false) (net : Net)
    (hgone : target (runS (establish sess rib0) evs).sess.exp
               ((viewAfter (viewOf (snapshotOf sess rib0)) evs).paths net) = []) :
    Mirror.get (runS (establish sess rib0) evs).flush.mirror net 0 = none := by
  rw [convergence sess hm rib0 h0 evs hadm hfresh net]
  simp [wantRoute, hgone, tlookup]

end Rbgp.Export.Conv
