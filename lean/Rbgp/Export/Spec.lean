/-
  Rbgp.Export.Spec — C09 written from the property text as a reference checker over
  observations: what `process_nlri_change` handed to the sink for one (source, receiver)
  pair, and whether a received looping UPDATE got installed.

  One clause per sentence of the statement.  Imports the model only for its *types*
  (attributes, roles, sources, contexts, observations) and their field accessors; it calls
  no model function that computes an export result.

  The statement only says what must never be advertised and how whatever is sent must look,
  so `suppressed` satisfies every clause.
-/
import Rbgp.Export.Model
namespace Rbgp.Export.Spec
open Rbgp.Export

inductive Verdict where
  | ok
  | fail (clause : String)
  deriving DecidableEq, Repr, Inhabited

/-! ### vocabulary of the statement -/

def withCode (c : Nat) (as : Attrs) : Attrs := as.filter (fun a => a.code = c)
def present (c : Nat) (as : Attrs) : Bool := as.any (fun a => a.code = c)

/-- the AS_PATH of an attribute set: its segments (no attribute = empty path) -/
def pathOf (as : Attrs) : List Seg :=
  match withCode 2 as with
  | (.aspath segs) :: _ => segs
  | _ => []

def isConfedSeg (s : Seg) : Bool := s.1 = 3 ∨ s.1 = 4

/-- "prepended exactly once": `out` is `base` with `asn` put in front as a member of a segment of
    type `t`, either by growing a leading segment of that type that still has room or in a segment
    of its own; every segment stays within the 255 members the wire format allows. -/
def prependedOnce (t asn : Nat) (base out : List Seg) : Bool :=
  out.all (fun s => s.2.length ≤ 255) &&
  (out == (t, [asn]) :: base ||
   match base with
   | (t', as) :: rest => t' = t && out == (t, asn :: as) :: rest
   | [] => false)

def isPeer (s : Source) : Bool := s.kind = .peer
def isIbgpRole (r : Role) : Bool := r = .ibgp ∨ r = .rrClient

def nhAddr : Nh → Addr
  | .v4 a => .v4 a
  | .v6 a => .v6 a
  | .v6ll a _ => .v6 a

def unspecified : Addr → Bool
  | .v4 a => a = 0
  | .v6 a => a = 0

def wordsOf (c : Nat) (as : Attrs) : List Nat :=
  match withCode c as with
  | (.words _ ws) :: _ => ws
  | _ => []

def valueOf (c : Nat) (as : Attrs) : Option Nat :=
  match withCode c as with
  | (.val _ v) :: _ => some v
  | _ => none

def clamp32 (i : Int) : Nat := if i < 0 then 0 else if i > 4294967295 then 4294967295 else i.toNat

def codesDistinct : Attrs → Bool
  | [] => true
  | a :: rest => !present a.code rest && codesDistinct rest

/-- Inputs the statement talks about: attribute sets as the decoder produces them (one attribute
    per code) and sources as `on_established` builds them (an iBGP / RR-client session is one
    whose remote AS equals the local AS). -/
def wfExport (c : ExportCase) : Bool :=
  codesDistinct c.path.attrs &&
  c.path.attrs.all Attr.wf &&
  (!(isPeer c.path.src && isIbgpRole c.path.src.role) || c.path.src.remoteAsn = c.path.src.localAsn)

def firstFail : List (Bool × String) → Verdict
  | [] => .ok
  | (bad, clause) :: rest => if bad then .fail clause else firstFail rest

/-- the MED an export-policy MED action produces on a route whose received MED was removed -/
def policyMed : MedAct → Nat
  | .set v => clamp32 v
  | .mod d => clamp32 d

def checkExport (c : ExportCase) (o : Obs) : Verdict :=
  if !wfExport c then .ok else
  match o with
  | .other => .fail "malformed-observation"
  | .suppressed => .ok
  | .reach _ nh out =>
    let src := c.path.src
    let s := c.sess
    let r := s.ctx.role
    let inp := c.path.attrs
    let polNh := match s.policy with | some p => p.nh.isSome | none => false
    let polMed : Option MedAct := match s.policy with | some p => p.med | none => none
    let visibleAs := if s.ctx.confedId ≠ 0 then s.ctx.confedId else s.ctx.localAsn
    let stripped := (pathOf inp).filter (fun sg => !isConfedSeg sg)
    let reflected := isPeer src && isIbgpRole src.role && isIbgpRole r
    firstFail [
      -- "never advertised back to the peer it was learned from"
      (isPeer src && src.addr = s.remoteAddr, "advertised-back-to-source-peer"),
      -- "never from one non-client iBGP peer to another"
      (isPeer src && src.role = .ibgp && r = .ibgp, "nonclient-ibgp-to-nonclient-ibgp"),
      -- "never across the route-server/non-route-server boundary"
      (isPeer src && ((src.role = .rsClient) != (r = .rsClient)), "crossed-route-server-boundary"),
      -- eBGP: "local AS (confederation id if configured) prepended exactly once after removing
      --        confederation segments"
      (r = .ebgp && !((withCode 2 out).length = 1 && prependedOnce 2 visibleAs stripped (pathOf out)),
        "ebgp-aspath-not-prepended-once-after-strip"),
      -- eBGP: "LOCAL_PREF/ORIGINATOR_ID/CLUSTER_LIST/AIGP ... are removed"
      (r = .ebgp && (present 5 out || present 9 out || present 10 out || present 26 out),
        "ebgp-internal-attribute-sent"),
      -- eBGP: "and a received MED [is] removed" (an export-policy MED action may set one afresh)
      (r = .ebgp && isPeer src && (match polMed with
          | none => present 4 out
          | some act => present 4 out && valueOf 4 out != some (policyMed act)),
        "ebgp-received-med-sent"),
      -- eBGP: "the next hop is self" (except export-policy next-hop actions, locally injected explicit
      --        next hops, and families that carry no next hop)
      (r = .ebgp && !polNh &&
        !(src.kind = .locl && (match c.path.nh with | some n => !unspecified (nhAddr n) | none => false)) &&
        !(s.fam.isFlowspec && c.path.nh.isNone) &&
        (match nh with | some n => nhAddr n != s.ctx.localAddr | none => true),
        "ebgp-nexthop-not-self"),
      -- iBGP: "LOCAL_PREF is always present"
      (isIbgpRole r && !present 5 out, "ibgp-local-pref-missing"),
      -- iBGP: "the path ... untouched"
      (isIbgpRole r && withCode 2 out != withCode 2 inp, "ibgp-aspath-changed"),
      -- iBGP: "... and next hop are untouched"
      (isIbgpRole r && !polNh &&
        (match c.path.nh with
         | some n => !(src.kind = .locl && unspecified (nhAddr n)) && nh != some n
         | none => false),
        "ibgp-nexthop-changed"),
      -- "reflected routes gain ORIGINATOR_ID and the cluster-id"
      (reflected && !present 9 out, "reflected-without-originator-id"),
      (reflected && (match s.cluster with
          | none => true
          | some cid => !(wordsOf 10 out).contains cid),
        "reflected-without-cluster-id"),
      -- "confed-eBGP peers get the member AS in a confed segment"
      (r = .confed && !((withCode 2 out).length = 1 && prependedOnce 3 s.ctx.localAsn (pathOf inp) (pathOf out)),
        "confed-member-as-not-in-confed-sequence"),
      -- "LLGR-stale routes carry LLGR_STALE"
      (src.llgr && !(wordsOf 8 out).contains 4294901766, "llgr-stale-community-missing"),
      -- "unknown transitive attributes are forwarded with Partial set"
      (inp.any (fun a => match a with
          | .opq code f bs => f / 64 % 2 = 1 &&
              !out.any (fun b => match b with
                | .opq code' f' bs' => code' = code && bs' = bs && f' / 32 % 2 = 1 && f' / 64 % 2 = 1 &&
                                      (f' = f || f' = f + 32)
                | _ => false)
          | _ => false),
        "unknown-transitive-not-forwarded-with-partial"),
      -- "and unknown non-transitive ones dropped"
      (out.any (fun b => match b with
          | .opq _ f _ => f / 64 % 2 = 0
          | _ => false),
        "unknown-nontransitive-forwarded")
    ]

/-- an inbound UPDATE announcing one prefix: `installed` = the prefix is in the RIB afterwards -/
def checkRx (c : RxCase) (installed : Bool) : Verdict :=
  if !(codesDistinct c.attrs && c.attrs.all Attr.wf) then .ok else
  let path := pathOf c.attrs
  let asns := path.flatMap (·.2)
  firstFail [
    -- "a route whose AS_PATH contains the local AS (or confederation id) ... is never installed"
    (installed && (asns.contains c.localAsn || (c.confedId ≠ 0 && asns.contains c.confedId)),
      "as-loop-route-installed"),
    -- "whose ORIGINATOR_ID is the local router-id"
    (installed && valueOf 9 c.attrs = some c.routerId, "originator-loop-route-installed"),
    -- "or whose CLUSTER_LIST contains the local cluster-id"
    (installed && (match c.cluster with
        | some cid => (wordsOf 10 c.attrs).contains cid
        | none => false),
      "cluster-loop-route-installed")
  ]

end Rbgp.Export.Spec
