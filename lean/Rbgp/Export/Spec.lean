/-
  Rbgp.Export.Spec — C09 written from the property text as a reference checker over
  observations: what `process_nlri_change` handed to the sink for one (source, receiver)
  pair, and whether a received looping UPDATE got installed.

  One clause per sentence of the statement.  Imports the model only for its *types*
  (attributes, roles, sources, contexts, observations) and their field accessors; it calls
  no model function that computes an export result.

  The statement only says what must never be advertised and how whatever is sent must look,
  so `suppressed` satisfies every clause.
-/
import Rbgp.Export.Model
namespace Rbgp.Export.Spec
open Rbgp.Export

inductive Verdict where
  | ok
  | fail (clause : String)
  deriving DecidableEq, Repr, Inhabited

/-! ### vocabulary of the statement -/

def withCode (c : Nat) (as : Attrs) : Attrs := as.filter (fun a => a.code = c)
def present (c : Nat) (as : Attrs) : Bool := as.any (fun a => a.code = c)

/-- the AS_PATH of an attribute set: its segments (no attribute = empty path) -/
def pathOf (as : Attrs) : List Seg :=
  match withCode 2 as with
  | (.aspath segs) :: _ => segs
  | _ => []

def isConfedSeg (s : Seg) : Bool := s.1 = 3 ∨ s.1 = 4

/-- "prepended exactly once": `out` is `base` with `asn` put in front as a member of a segment of
    type `t`, either by growing a leading segment of that type that still has room or in a segment
    of its own; every segment stays within the 255 members the wire format allows. -/
def prependedOnce (t asn : Nat) (base out : List Seg) : Bool :=
  out.all (fun s => s.2.length ≤ 255) &&
  (out == (t, [asn]) :: base ||
   match base with
   | (t', as) :: rest => t' = t && out == (t, asn :: as) :: rest
   | [] => false)

def isPeer (s : Source) : Bool := s.kind = .peer
def isIbgpRole (r : Role) : Bool := r = .ibgp ∨ r = .rrClient

def nhAddr : Nh → Addr
  | .v4 a => .v4 a
  | .v6 a => .v6 a
  | .v6ll a _ => .v6 a

def unspecified : Addr → Bool
  | .v4 a => a = 0
  | .v6 a => a = 0

def wordsOf (c : Nat) (as : Attrs) : List Nat :=
  match withCode c as with
  | (.words _ ws) :: _ => ws
  | _ => []

def valueOf (c : Nat) (as : Attrs) : Option Nat :=
  match withCode c as with
  | (.val _ v) :: _ => some v
  | _ => none

def clamp32 (i : Int) : Nat := if i < 0 then 0 else if i > 4294967295 then 4294967295 else i.toNat

def codesDistinct : Attrs → Bool
  | [] => true
  | a :: rest => !present a.code rest && codesDistinct rest

/-- Inputs the statement talks about: attribute sets as the decoder produces them (one attribute
    per code) and sources as `on_established` builds them (an iBGP / RR-client session is one
    whose remote AS equals the local AS). -/
def wfExport (c : ExportCase) : Bool :=
  codesDistinct c.path.attrs &&
  c.path.attrs.all Attr.wf &&
  (!(isPeer c.path.src && isIbgpRole c.path.src.role) || c.path.src.remoteAsn = c.path.src.localAsn) &&
  (!(isPeer c.path.src && (c.path.src.role = .ebgp || c.path.src.role = .confed)) ||
     c.path.src.remoteAsn ≠ c.path.src.localAsn)

def firstFail : List (Bool × String) → Verdict
  | [] => .ok
  | (bad, clause) :: rest => if bad then .fail clause else firstFail rest

/-- the MED an export-policy MED action produces on a route whose received MED was removed -/
def policyMed : MedAct → Nat
  | .set v => clamp32 v
  | .mod d => clamp32 d

/-! ### the clauses, one per sentence of the statement; each says when an advertisement
    `(nh, out)` of case `c` is *bad* -/

def polNh (c : ExportCase) : Bool := match c.sess.policy with | some p => p.nh.isSome | none => false
def polMed (c : ExportCase) : Option MedAct := match c.sess.policy with | some p => p.med | none => none
def visibleAs (c : ExportCase) : Nat :=
  if c.sess.ctx.confedId ≠ 0 then c.sess.ctx.confedId else c.sess.ctx.localAsn
def stripped (c : ExportCase) : List Seg := (pathOf c.path.attrs).filter (fun sg => !isConfedSeg sg)
def reflected (c : ExportCase) : Bool :=
  isPeer c.path.src && isIbgpRole c.path.src.role && isIbgpRole c.sess.ctx.role

/-- "never advertised back to the peer it was learned from" -/
def badEcho (c : ExportCase) : Bool := isPeer c.path.src && c.path.src.addr = c.sess.remoteAddr

/-- "never from one non-client iBGP peer to another" -/
def badNonClient (c : ExportCase) : Bool :=
  isPeer c.path.src && c.path.src.role = .ibgp && c.sess.ctx.role = .ibgp

/-- "never across the route-server/non-route-server boundary" -/
def badRsBoundary (c : ExportCase) : Bool :=
  isPeer c.path.src && ((c.path.src.role = .rsClient) != (c.sess.ctx.role = .rsClient))

/-- eBGP: "local AS (confederation id if configured) prepended exactly once after removing
    confederation segments" -/
def badEbgpPath (c : ExportCase) (out : Attrs) : Bool :=
  c.sess.ctx.role = .ebgp &&
    !((withCode 2 out).length = 1 && prependedOnce 2 (visibleAs c) (stripped c) (pathOf out))

/-- eBGP: "LOCAL_PREF/ORIGINATOR_ID/CLUSTER_LIST/AIGP ... are removed" -/
def badEbgpInternal (c : ExportCase) (out : Attrs) : Bool :=
  c.sess.ctx.role = .ebgp && (present 5 out || present 9 out || present 10 out || present 26 out)

/-- eBGP: "and a received MED [is] removed" (an export-policy MED action may set one afresh) -/
def badEbgpMed (c : ExportCase) (out : Attrs) : Bool :=
  c.sess.ctx.role = .ebgp && isPeer c.path.src && (match polMed c with
    | none => present 4 out
    | some act => present 4 out && valueOf 4 out != some (policyMed act))

/-- eBGP: "the next hop is self" (except export-policy next-hop actions, locally injected explicit
    next hops, and families that carry no next hop) -/
def badEbgpNexthop (c : ExportCase) (nh : Option Nh) : Bool :=
  c.sess.ctx.role = .ebgp && !polNh c &&
    !(c.path.src.kind = .locl && (match c.path.nh with | some n => !unspecified (nhAddr n) | none => false)) &&
    !(c.sess.fam.isFlowspec && c.path.nh.isNone) &&
    (match nh with | some n => nhAddr n != c.sess.ctx.localAddr | none => true)

/-- An RS client is an eBGP peer served transparently (RFC 7947: AS_PATH, NEXT_HOP and MED are
    left as they are); the attributes that never leave the AS are removed for it as for any eBGP
    peer: "LOCAL_PREF/ORIGINATOR_ID/CLUSTER_LIST/AIGP ... are removed" -/
def badRsInternal (c : ExportCase) (out : Attrs) : Bool :=
  c.sess.ctx.role = .rsClient && (present 5 out || present 9 out || present 10 out || present 26 out)

/-- iBGP: "LOCAL_PREF is always present" -/
def badIbgpLocalPref (c : ExportCase) (out : Attrs) : Bool :=
  isIbgpRole c.sess.ctx.role && !present 5 out

/-- iBGP: "the path ... untouched" -/
def badIbgpPath (c : ExportCase) (out : Attrs) : Bool :=
  isIbgpRole c.sess.ctx.role && withCode 2 out != withCode 2 c.path.attrs

/-- iBGP: "... and next hop are untouched" -/
def badIbgpNexthop (c : ExportCase) (nh : Option Nh) : Bool :=
  isIbgpRole c.sess.ctx.role && !polNh c &&
    (match c.path.nh with
     | some n => !(c.path.src.kind = .locl && unspecified (nhAddr n)) && nh != some n
     | none => false)

/-- "reflected routes gain ORIGINATOR_ID ..." -/
def badReflectOriginator (c : ExportCase) (out : Attrs) : Bool := reflected c && !present 9 out

/-- "... and the cluster-id" -/
def badReflectCluster (c : ExportCase) (out : Attrs) : Bool :=
  reflected c && (match c.sess.cluster with
    | none => true
    | some cid => !(wordsOf 10 out).contains cid)

/-- "reflected routes gain ORIGINATOR_ID and the cluster-id": only those do; a locally originated,
    kernel or eBGP-learned route goes to iBGP peers with whatever ORIGINATOR_ID / CLUSTER_LIST it had -/
def badSpuriousReflect (c : ExportCase) (out : Attrs) : Bool :=
  isIbgpRole c.sess.ctx.role && !reflected c &&
    (withCode 9 out != withCode 9 c.path.attrs || withCode 10 out != withCode 10 c.path.attrs)

/-- "confed-eBGP peers get the member AS in a confed segment" -/
def badConfedPath (c : ExportCase) (out : Attrs) : Bool :=
  c.sess.ctx.role = .confed &&
    !((withCode 2 out).length = 1 &&
      prependedOnce 3 c.sess.ctx.localAsn (pathOf c.path.attrs) (pathOf out))

/-- "LLGR-stale routes carry LLGR_STALE" -/
def badLlgr (c : ExportCase) (out : Attrs) : Bool :=
  c.path.src.llgr && !(wordsOf 8 out).contains 4294901766

/-- "unknown transitive attributes are forwarded with Partial set" -/
def badOpaqueTransitive (c : ExportCase) (out : Attrs) : Bool :=
  c.path.attrs.any (fun a => match a with
    | .opq code f bs => f / 64 % 2 = 1 &&
        !out.any (fun b => match b with
          | .opq code' f' bs' => code' = code && bs' = bs && f' / 32 % 2 = 1 && f' / 64 % 2 = 1 &&
                                (f' = f || f' = f + 32)
          | _ => false)
    | _ => false)

/-- "and unknown non-transitive ones dropped" -/
def badOpaqueNonTransitive (out : Attrs) : Bool :=
  out.any (fun b => match b with
    | .opq _ f _ => f / 64 % 2 = 0
    | _ => false)

/-- the sentences of the statement as a list: (is the advertisement bad?, name of the clause) -/
def exportClauses (c : ExportCase) (nh : Option Nh) (out : Attrs) : List (Bool × String) :=
  [ (badEcho c, "advertised-back-to-source-peer"),
    (badNonClient c, "nonclient-ibgp-to-nonclient-ibgp"),
    (badRsBoundary c, "crossed-route-server-boundary"),
    (badEbgpPath c out, "ebgp-aspath-not-prepended-once-after-strip"),
    (badEbgpInternal c out, "ebgp-internal-attribute-sent"),
    (badEbgpMed c out, "ebgp-received-med-sent"),
    (badEbgpNexthop c nh, "ebgp-nexthop-not-self"),
    (badRsInternal c out, "rs-client-internal-attribute-sent"),
    (badIbgpLocalPref c out, "ibgp-local-pref-missing"),
    (badIbgpPath c out, "ibgp-aspath-changed"),
    (badIbgpNexthop c nh, "ibgp-nexthop-changed"),
    (badReflectOriginator c out, "reflected-without-originator-id"),
    (badReflectCluster c out, "reflected-without-cluster-id"),
    (badSpuriousReflect c out, "non-reflected-route-gained-reflection-attributes"),
    (badConfedPath c out, "confed-member-as-not-in-confed-sequence"),
    (badLlgr c out, "llgr-stale-community-missing"),
    (badOpaqueTransitive c out, "unknown-transitive-not-forwarded-with-partial"),
    (badOpaqueNonTransitive out, "unknown-nontransitive-forwarded") ]

def checkExport (c : ExportCase) (o : Obs) : Verdict :=
  if !wfExport c then .ok else
  match o with
  | .other => .fail "malformed-observation"
  | .suppressed => .ok
  | .reach _ nh out => firstFail (exportClauses c nh out)

/-! ### a route that turns LLGR-stale after it was advertised -/

/-- the same case once the source's LLGR-stale flag is set -/
def staleCase (c : ExportCase) : ExportCase :=
  { c with path := { c.path with src := { c.path.src with llgr := true } } }

/-- `exp2`: the route is offered (first observation), then its source turns LLGR-stale and the
    changes the RIB emits are processed (second observation: nothing happened, withdrawn, or
    advertised again).  "LLGR-stale routes carry LLGR_STALE": a route that stays advertised must be
    advertised again, and what is sent then is judged as an advertisement of the stale route. -/
def checkExport2 (c : ExportCase) (o1 : Obs) (o2 : Obs2) : Verdict :=
  if !(wfExport c && isPeer c.path.src && !c.path.src.llgr) then .ok else
  match checkExport c o1 with
  | .fail x => .fail x
  | .ok =>
    match o2 with
    | .other => .fail "malformed-observation"
    | .nothing => (match o1 with
        | .reach _ _ _ => .fail "llgr-stale-route-not-readvertised"
        | _ => .ok)
    | .withdrawn => .ok
    | .reach pid nh out => checkExport (staleCase c) (.reach pid nh out)

/-- "a route whose AS_PATH contains the local AS (or confederation id) ... is never installed" -/
def rxAsLoop (c : RxCase) : Bool :=
  let asns := (pathOf c.attrs).flatMap (·.2)
  asns.contains c.localAsn || (c.confedId ≠ 0 && asns.contains c.confedId)

/-- "whose ORIGINATOR_ID is the local router-id" -/
def rxOriginatorLoop (c : RxCase) : Bool := valueOf 9 c.attrs = some c.routerId

/-- "or whose CLUSTER_LIST contains the local cluster-id" -/
def rxClusterLoop (c : RxCase) : Bool :=
  match c.cluster with
  | some cid => (wordsOf 10 c.attrs).contains cid
  | none => false

/-- an inbound UPDATE announcing one prefix: `installed` = the prefix is in the RIB afterwards -/
def checkRx (c : RxCase) (installed : Bool) : Verdict :=
  if !(codesDistinct c.attrs && c.attrs.all Attr.wf) then .ok else
  firstFail [
    (installed && rxAsLoop c, "as-loop-route-installed"),
    (installed && rxOriginatorLoop c, "originator-loop-route-installed"),
    (installed && rxClusterLoop c, "cluster-loop-route-installed")
  ]

/-! ### wire cases: the router's configuration decides what the sessions are -/

/-- the local AS of a session -/
def wLocalAs (w : WireCase) (p : PeerCfg) : Nat := if p.localAsn ≠ 0 then p.localAsn else w.asn

/-- what a neighbour is to this router: a route-server client when configured so; an iBGP peer
    (route-reflector client when configured so) when it is in the local AS; a confederation-eBGP
    peer when its AS is another member of the confederation; otherwise an eBGP peer -/
def wRole (w : WireCase) (p : PeerCfg) : Role :=
  if p.rs then .rsClient
  else if p.remoteAsn = wLocalAs w p then (if p.rrc then .rrClient else .ibgp)
  else match w.confed with
    | some (_, ms) => if ms.contains p.remoteAsn then .confed else .ebgp
    | none => .ebgp

def wConfedId (w : WireCase) : Nat := match w.confed with | some (id, _) => id | none => 0

/-- "the local cluster-id": the configured one, the router-id otherwise (RFC 4456 §7); it is a
    property of the router, whatever the session the route arrives on -/
def wClusterId (w : WireCase) (p : PeerCfg) : Nat := p.cluster.getD w.rid

/-- The route as received: unrecognised optional non-transitive attributes are ignored (RFC 4271
    §5); LOCAL_PREF, ORIGINATOR_ID and CLUSTER_LIST from an external neighbour (eBGP peer,
    route-server client) are ignored (RFC 4271 §5.1.5, RFC 7606 §7.9, §7.10). -/
def wReceived (w : WireCase) : Attrs :=
  let kept := w.attrs.filter (fun a => match a with
    | .opq _ f _ => f / 64 % 2 = 1
    | _ => true)
  if wRole w w.src = .ebgp ∨ wRole w w.src = .rsClient then
    kept.filter (fun a => !(a.code = 5 ∨ a.code = 9 ∨ a.code = 10))
  else kept

def wRx (w : WireCase) : RxCase :=
  ⟨wLocalAs w w.src, wConfedId w, w.rid, some (wClusterId w w.src), wRole w w.src, wReceived w⟩

def wExport (w : WireCase) (d : PeerCfg) : ExportCase :=
  { sess := ⟨⟨wRole w d, wLocalAs w d, w.localAddr, none, wConfedId w⟩, d.addr,
             (if isIbgpRole (wRole w d) then some (wClusterId w d) else none), none, .ipv4, 1⟩,
    path := { pid := 1, src := ⟨.peer, w.src.addr, w.src.remoteAsn, wLocalAs w w.src, w.src.rid, wRole w w.src, false⟩,
              nh := some w.nh, attrs := wReceived w } }

/-- a wire case: the loop sentence on what the RIB holds, the echo sentence on what the announcing
    neighbour got back, and every export sentence on what the receiver was sent -/
def checkWire (w : WireCase) (o : WireObs) : Verdict :=
  match checkRx (wRx w) o.installed.isSome with
  | .fail x => .fail x
  | .ok =>
    if o.back != .suppressed then .fail "advertised-back-to-source-peer" else
    match w.dst with
    | none => if o.sent != .suppressed then .fail "malformed-observation" else .ok
    | some d =>
      match o.sent with
      | .suppressed => .ok
      | .other => .fail "malformed-observation"
      | .reach pid nh out =>
        if o.installed.isNone then .fail "route-not-in-rib-advertised"
        else checkExport (wExport w d) (.reach pid nh out)

end Rbgp.Export.Spec
