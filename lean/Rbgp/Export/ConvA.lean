/-
  Rbgp.Export.ConvA — C01, add-path sessions, part 1: the invariant in abstract form.

  For a session with add-path tx (`effective_max > 1`) the export map and `PendingTx` are keyed by
  (destination id, local path id) and the wire path id is the local path id.  The invariant is
  stated over an abstract ownership map `own : prefix ↦ destination id` and an abstract target
  table `T : prefix → path id → what the neighbour must hold`; `ConvAStep` instantiates both
  from the session's view.
-/
import Rbgp.Export.ConvSession
namespace Rbgp.Export.ConvA
open Rbgp.Export Rbgp.Export.Conv

abbrev Own := Net → Option Nat
abbrev Tgt := Net → Nat → Option (Attrs × Option Nh)

def routeAt (net : Net) (w : Nat) (r : Attrs × Option Nh) : Route := ⟨net, w, r.2, r.1, false⟩

/-- what the neighbour holds for (prefix, path id) once everything pending is flushed -/
def effGetO (own : Own) (p : PendingTx) (mb : Mirror) (net : Net) (w : Nat) : Option Route :=
  match (own net).bind (fun d => lookup (d, w) p.reach) with
  | some (_, as, nh) => some ⟨net, w, nh, as, false⟩
  | none => if wdl p net w then none else Mirror.get mb net w

theorem effGet_eq (V : View) (p : PendingTx) (mb : Mirror) (net : Net) (w : Nat) :
    effGet V p mb net w = effGetO V.idOf p mb net w := rfl

def updT (T : Tgt) (net : Net) (w : Nat) (v : Option (Attrs × Option Nh)) : Tgt :=
  fun n x => if n = net ∧ x = w then v else T n x

def updOwn (own : Own) (net : Net) (v : Option Nat) : Own := fun n => if n = net then v else own n

/-- The invariant between two deliveries for an add-path session. -/
structure InvT (own : Own) (T : Tgt) (m : ExportMap) (p : PendingTx) (mb : Mirror) : Prop where
  inj : ∀ n n' d, own n = some d → own n' = some d → n = n'
  mode : m.addpath = true ∧ p.addpathTx = true
  eff : ∀ net w, effGetO own p mb net w = (T net w).map (routeAt net w)
  tOwn : ∀ net w, T net w ≠ none → own net ≠ none
  mapIff : ∀ d w, (d, w) ∈ m.sent ↔ ∃ net, own net = some d ∧ T net w ≠ none
  reachOwn : ∀ x ∈ p.reach, own x.2.1 = some x.1.1 ∧ x.1 ∈ m.sent
  unreachOwn : ∀ x ∈ p.unreach, x.1 ∉ m.sent
  reachKeys : keysNodup p.reach
  unreachKeys : keysNodup p.unreach
  sentNodup : m.sent.Nodup

/-! ### export map, add-path mode -/

theorem keyA (m : ExportMap) (h : m.addpath = true) (d w : Nat) : m.key d w = (d, w) := by
  simp [ExportMap.key, h]

theorem pkeyA (p : PendingTx) (h : p.addpathTx = true) (d w : Nat) : p.key d w = (d, w) := by
  simp [PendingTx.key, h]

theorem mem_markSentA (m : ExportMap) (h : m.addpath = true) (d w : Nat) (k : Nat × Nat) :
    k ∈ (m.markSent d w).sent ↔ k ∈ m.sent ∨ k = (d, w) := by
  simp only [ExportMap.markSent, keyA m h]
  by_cases hc : m.sent.contains (d, w) = true
  · simp only [hc, if_true]
    constructor
    · intro hk; exact Or.inl hk
    · rintro (hk | rfl)
      · exact hk
      · simpa using hc
  · simp only [hc, Bool.false_eq_true, if_false, List.mem_append, List.mem_singleton]

theorem nodup_markSentA (m : ExportMap) (h : m.addpath = true) (d w : Nat) (hn : m.sent.Nodup) :
    (m.markSent d w).sent.Nodup := by
  simp only [ExportMap.markSent, keyA m h]
  by_cases hc : m.sent.contains (d, w) = true
  · simp only [hc, if_true]; exact hn
  · simp only [hc, Bool.false_eq_true, if_false]
    apply List.nodup_append.mpr
    refine ⟨hn, by simp, ?_⟩
    intro a ha b hb
    simp only [List.mem_singleton] at hb
    subst hb
    intro heq; subst heq
    apply hc; simpa using ha

theorem mem_markWithdrawnA (m : ExportMap) (h : m.addpath = true) (d w : Nat) (k : Nat × Nat) :
    k ∈ (m.markWithdrawn d w).sent ↔ k ∈ m.sent ∧ k ≠ (d, w) := by
  simp [ExportMap.markWithdrawn, keyA m h, List.mem_filter]

theorem addpath_markWithdrawn (m : ExportMap) (d w : Nat) : (m.markWithdrawn d w).addpath = m.addpath := rfl

theorem mem_sentPathIds (m : ExportMap) (d w : Nat) : w ∈ m.sentPathIds d ↔ (d, w) ∈ m.sent := by
  simp only [ExportMap.sentPathIds, List.mem_map, List.mem_filter, decide_eq_true_eq]
  constructor
  · rintro ⟨k, ⟨hk, hd⟩, hw⟩
    have : k = (d, w) := by cases k; simp_all
    rw [← this]; exact hk
  · intro h; exact ⟨(d, w), ⟨h, rfl⟩, rfl⟩

theorem containsPathA (m : ExportMap) (h : m.addpath = true) (d w : Nat) :
    m.containsPath d w = true ↔ (d, w) ∈ m.sent := by
  simp [ExportMap.containsPath, keyA m h]

/-! ### pending withdrawals of other keys -/

theorem wdl_doReach_otherA (p : PendingTx) (hk : keysNodup p.unreach) (d : Nat) (net net' : Net) (pid w : Nat)
    (nh : Option Nh) (as : Attrs) (hne : ¬ (net' = net ∧ w = (p.key d pid).2)) :
    wdl (p.doReach d net pid nh as) net' w = wdl p net' w := by
  rw [Bool.eq_iff_iff, wdl_iff, wdl_iff]
  simp only [PendingTx.doReach]
  constructor
  · rintro (hs | ⟨x, hx, hw, hn⟩)
    · cases hf : p.unreach.find? (fun x => decide (x.1 = p.key d pid)) with
      | none => simp only [hf] at hs; exact Or.inl hs
      | some e =>
        obtain ⟨k', old⟩ := e
        simp only [hf] at hs
        split at hs
        · rcases List.mem_append.mp hs with h | h
          · exact Or.inl h
          · simp only [List.mem_singleton, Prod.mk.injEq] at h
            right
            have hm := List.mem_of_find?_eq_some hf
            have hk' : k' = p.key d pid := by simpa using List.find?_some hf
            exact ⟨(k', old), hm, by rw [hk']; exact h.1.symm, h.2.symm⟩
        · exact Or.inl hs
    · exact Or.inr ⟨x, ((mem_eraseKey _ _ x).mp hx).1, hw, hn⟩
  · rintro (hs | ⟨x, hx, hw, hn⟩)
    · left
      split
      · split
        · exact List.mem_append_left _ hs
        · exact hs
      · exact hs
    · by_cases hxk : x.1 = p.key d pid
      · left
        have hl := lookup_of_mem p.unreach hk x hx
        simp only [lookup] at hl
        cases hf : p.unreach.find? (fun y => decide (y.1 = x.1)) with
        | none => simp [hf] at hl
        | some e =>
          simp only [hf, Option.map_some, Option.some.injEq] at hl
          rw [hxk] at hf
          simp only [hf]
          have : e.2 ≠ net := by
            rw [hl, hn]; intro heq; exact hne ⟨heq, by rw [← hxk]; exact hw.symm⟩
          simp only [this, ne_eq, not_false_eq_true, if_true]
          apply List.mem_append_right
          simp only [List.mem_singleton, Prod.mk.injEq]
          exact ⟨by rw [← hxk]; exact hw.symm, by rw [hl, hn]⟩
      · exact Or.inr ⟨x, (mem_eraseKey _ _ x).mpr ⟨hx, hxk⟩, hw, hn⟩

theorem wdl_doUnreach_otherA (p : PendingTx) (d : Nat) (net net' : Net) (pid w : Nat)
    (hfree : ∀ x ∈ p.unreach, x.1 ≠ p.key d pid) (hne : ¬ (net' = net ∧ w = (p.key d pid).2)) :
    wdl (p.doUnreach d net pid) net' w = wdl p net' w := by
  rw [Bool.eq_iff_iff, wdl_iff, wdl_iff]
  simp only [PendingTx.doUnreach]
  constructor
  · rintro (hs | ⟨x, hx, hw, hn⟩)
    · exact Or.inl hs
    · rcases List.mem_append.mp hx with h | h
      · exact Or.inr ⟨x, ((mem_eraseKey _ _ x).mp h).1, hw, hn⟩
      · simp only [List.mem_singleton] at h
        subst h
        exact absurd ⟨hn.symm, hw.symm⟩ hne
  · rintro (hs | ⟨x, hx, hw, hn⟩)
    · exact Or.inl hs
    · right
      exact ⟨x, List.mem_append_left _ ((mem_eraseKey _ _ x).mpr ⟨hx, hfree x hx⟩), hw, hn⟩

theorem lookup_none_of_forall {α} (l : List (TxKey × α)) (k : TxKey) (h : ∀ x ∈ l, x.1 ≠ k) : lookup k l = none := by
  simp only [lookup]
  have : l.find? (fun x => decide (x.1 = k)) = none := by
    rw [List.find?_eq_none]; intro x hx; simpa using h x hx
  rw [this]; rfl

/-! ### one sink call -/

theorem invT_reach {own : Own} {T : Tgt} {m : ExportMap} {p : PendingTx} {mb : Mirror}
    (I : InvT own T m p mb) (net : Net) (d w : Nat) (hown : own net = some d) (as : Attrs) (nh : Option Nh) :
    InvT own (updT T net w (some (as, nh))) (m.markSent d w) (p.doReach d net w nh as) mb := by
  obtain ⟨hma, hpa⟩ := I.mode
  have hkey : p.key d w = (d, w) := pkeyA p hpa d w
  refine
    { inj := I.inj
      mode := ⟨by rw [addpath_markSent]; exact hma, hpa⟩
      eff := ?_
      tOwn := ?_
      mapIff := ?_
      reachOwn := ?_
      unreachOwn := ?_
      reachKeys := by simp only [PendingTx.doReach]; exact keysNodup_erase_append _ _ _ I.reachKeys
      unreachKeys := by simp only [PendingTx.doReach]; exact keysNodup_erase _ _ I.unreachKeys
      sentNodup := nodup_markSentA m hma d w I.sentNodup }
  · intro net' w'
    simp only [effGetO, updT]
    by_cases hk : net' = net ∧ w' = w
    · obtain ⟨rfl, rfl⟩ := hk
      simp only [hown, Option.bind_some, reach_doReach, hkey, if_true, and_self, Option.map_some, routeAt]
    · simp only [hk, if_false]
      have hlook : (own net').bind (fun d' => lookup (d', w') (p.doReach d net w nh as).reach) =
          (own net').bind (fun d' => lookup (d', w') p.reach) := by
        cases ho : own net' with
        | none => rfl
        | some d' =>
          simp only [Option.bind_some, reach_doReach, hkey]
          have : (d', w') ≠ (d, w) := by
            intro heq
            simp only [Prod.mk.injEq] at heq
            exact hk ⟨I.inj net' net d (by rw [ho, heq.1]) hown, heq.2⟩
          simp [this]
      rw [hlook, wdl_doReach_otherA p I.unreachKeys d net net' w w' nh as (by rw [hkey]; exact hk)]
      exact I.eff net' w'
  · intro net' w' h
    simp only [updT] at h
    by_cases hk : net' = net ∧ w' = w
    · rw [hk.1, hown]; simp
    · simp only [hk, if_false] at h; exact I.tOwn net' w' h
  · intro d' w'
    rw [mem_markSentA m hma, I.mapIff]
    constructor
    · rintro (⟨n, hn, ht⟩ | heq)
      · refine ⟨n, hn, ?_⟩
        simp only [updT]
        split
        · simp
        · exact ht
      · simp only [Prod.mk.injEq] at heq
        refine ⟨net, by rw [heq.1]; exact hown, ?_⟩
        simp [updT, heq.2]
    · rintro ⟨n, hn, ht⟩
      simp only [updT] at ht
      by_cases hk : n = net ∧ w' = w
      · right
        have : d' = d := by
          have := hn; rw [hk.1, hown] at this; exact (Option.some.inj this).symm
        rw [this, hk.2]
      · simp only [hk, if_false] at ht
        exact Or.inl ⟨n, hn, ht⟩
  · intro x hx
    simp only [PendingTx.doReach, hkey] at hx
    rcases List.mem_append.mp hx with h | h
    · have := I.reachOwn x ((mem_eraseKey _ _ x).mp h).1
      exact ⟨this.1, (mem_markSentA m hma d w x.1).mpr (Or.inl this.2)⟩
    · simp only [List.mem_singleton] at h
      subst h
      exact ⟨hown, (mem_markSentA m hma d w _).mpr (Or.inr rfl)⟩
  · intro x hx
    simp only [PendingTx.doReach, hkey] at hx
    have hx' := (mem_eraseKey _ _ x).mp hx
    intro hs
    rcases (mem_markSentA m hma d w x.1).mp hs with h | h
    · exact I.unreachOwn x hx'.1 h
    · exact hx'.2 h

theorem invT_unreach {own : Own} {T : Tgt} {m : ExportMap} {p : PendingTx} {mb : Mirror}
    (I : InvT own T m p mb) (net : Net) (d w : Nat) (hown : own net = some d) (hsent : (d, w) ∈ m.sent) :
    InvT own (updT T net w none) (m.markWithdrawn d w) (p.doUnreach d net w) mb := by
  obtain ⟨hma, hpa⟩ := I.mode
  have hkey : p.key d w = (d, w) := pkeyA p hpa d w
  have hfree : ∀ x ∈ p.unreach, x.1 ≠ p.key d w := by
    intro x hx heq
    rw [hkey] at heq
    exact I.unreachOwn x hx (heq ▸ hsent)
  refine
    { inj := I.inj
      mode := ⟨hma, hpa⟩
      eff := ?_
      tOwn := ?_
      mapIff := ?_
      reachOwn := ?_
      unreachOwn := ?_
      reachKeys := by simp only [PendingTx.doUnreach]; exact keysNodup_erase _ _ I.reachKeys
      unreachKeys := by simp only [PendingTx.doUnreach]; exact keysNodup_erase_append _ _ _ I.unreachKeys
      sentNodup := by
        simp only [ExportMap.markWithdrawn]
        exact List.Nodup.sublist List.filter_sublist I.sentNodup }
  · intro net' w'
    simp only [effGetO, updT]
    by_cases hk : net' = net ∧ w' = w
    · obtain ⟨rfl, rfl⟩ := hk
      simp only [hown, Option.bind_some, reach_doUnreach, hkey, if_true, and_self, Option.map_none]
      have := wdl_doUnreach_self p d net' w'
      rw [hkey] at this
      simp [this]
    · simp only [hk, if_false]
      have hlook : (own net').bind (fun d' => lookup (d', w') (p.doUnreach d net w).reach) =
          (own net').bind (fun d' => lookup (d', w') p.reach) := by
        cases ho : own net' with
        | none => rfl
        | some d' =>
          simp only [Option.bind_some, reach_doUnreach, hkey]
          have : (d', w') ≠ (d, w) := by
            intro heq
            simp only [Prod.mk.injEq] at heq
            exact hk ⟨I.inj net' net d (by rw [ho, heq.1]) hown, heq.2⟩
          simp [this]
      rw [hlook, wdl_doUnreach_otherA p d net net' w w' hfree (by rw [hkey]; exact hk)]
      exact I.eff net' w'
  · intro net' w' h
    simp only [updT] at h
    by_cases hk : net' = net ∧ w' = w
    · simp [hk] at h
    · simp only [hk, if_false] at h; exact I.tOwn net' w' h
  · intro d' w'
    rw [mem_markWithdrawnA m hma, I.mapIff]
    constructor
    · rintro ⟨⟨n, hn, ht⟩, hne⟩
      refine ⟨n, hn, ?_⟩
      simp only [updT]
      have : ¬ (n = net ∧ w' = w) := by
        intro hk
        apply hne
        have : d' = d := by
          have := hn; rw [hk.1, hown] at this; exact (Option.some.inj this).symm
        rw [this, hk.2]
      simp only [this, if_false]; exact ht
    · rintro ⟨n, hn, ht⟩
      simp only [updT] at ht
      by_cases hk : n = net ∧ w' = w
      · simp [hk] at ht
      · simp only [hk, if_false] at ht
        refine ⟨⟨n, hn, ht⟩, ?_⟩
        intro heq
        simp only [Prod.mk.injEq] at heq
        exact hk ⟨I.inj n net d (by rw [hn, heq.1]) hown, heq.2⟩
  · intro x hx
    simp only [PendingTx.doUnreach, hkey] at hx
    have hx' := (mem_eraseKey _ _ x).mp hx
    have := I.reachOwn x hx'.1
    exact ⟨this.1, (mem_markWithdrawnA m hma d w x.1).mpr ⟨this.2, hx'.2⟩⟩
  · intro x hx
    simp only [PendingTx.doUnreach, hkey] at hx
    intro hs
    have hs' := (mem_markWithdrawnA m hma d w x.1).mp hs
    rcases List.mem_append.mp hx with h | h
    · exact I.unreachOwn x ((mem_eraseKey _ _ x).mp h).1 hs'.1
    · simp only [List.mem_singleton] at h
      subst h
      exact hs'.2 rfl

/-! ### the destination id of a prefix is taken / released -/

/-- no pending announcement sits under an id nobody owns -/
theorem reach_none_of_free {own : Own} {T : Tgt} {m : ExportMap} {p : PendingTx} {mb : Mirror}
    (I : InvT own T m p mb) (d w : Nat) (hfree : ∀ n, own n ≠ some d) : lookup (d, w) p.reach = none := by
  apply lookup_none_of_forall
  intro x hx heq
  have := (I.reachOwn x hx).1
  rw [heq] at this
  exact hfree _ this

theorem invT_acquire {own : Own} {T : Tgt} {m : ExportMap} {p : PendingTx} {mb : Mirror}
    (I : InvT own T m p mb) (net : Net) (d : Nat) (hnone : own net = none) (hfree : ∀ n, own n ≠ some d) :
    InvT (updOwn own net (some d)) T m p mb := by
  have hT : ∀ w, T net w = none := by
    intro w
    cases h : T net w with
    | none => rfl
    | some r => exact absurd hnone (I.tOwn net w (by rw [h]; simp))
  refine
    { inj := ?_
      mode := I.mode
      eff := ?_
      tOwn := ?_
      mapIff := ?_
      reachOwn := ?_
      unreachOwn := I.unreachOwn
      reachKeys := I.reachKeys
      unreachKeys := I.unreachKeys
      sentNodup := I.sentNodup }
  · intro n n' d' h1 h2
    simp only [updOwn] at h1 h2
    by_cases hn : n = net <;> by_cases hn' : n' = net
    · rw [hn, hn']
    · simp only [hn, if_true, hn', if_false] at h1 h2
      have : d' = d := (Option.some.inj h1).symm
      rw [this] at h2; exact absurd h2 (hfree n')
    · simp only [hn, if_false, hn', if_true] at h1 h2
      have : d' = d := (Option.some.inj h2).symm
      rw [this] at h1; exact absurd h1 (hfree n)
    · simp only [hn, hn', if_false] at h1 h2
      exact I.inj n n' d' h1 h2
  · intro net' w
    have := I.eff net' w
    simp only [effGetO, updOwn] at this ⊢
    by_cases hn : net' = net
    · subst hn
      simp only [if_true, Option.bind_some, reach_none_of_free I d w hfree]
      simp only [hnone, Option.bind_none] at this
      exact this
    · simp only [hn, if_false]; exact this
  · intro net' w h
    simp only [updOwn]
    by_cases hn : net' = net
    · simp [hn]
    · simp only [hn, if_false]; exact I.tOwn net' w h
  · intro d' w
    rw [I.mapIff]
    constructor
    · rintro ⟨n, hn, ht⟩
      refine ⟨n, ?_, ht⟩
      simp only [updOwn]
      have : n ≠ net := by intro h; rw [h, hnone] at hn; cases hn
      simp only [this, if_false]; exact hn
    · rintro ⟨n, hn, ht⟩
      simp only [updOwn] at hn
      by_cases h : n = net
      · rw [h] at ht; exact absurd (hT w) ht
      · simp only [h, if_false] at hn; exact ⟨n, hn, ht⟩
  · intro x hx
    have := I.reachOwn x hx
    refine ⟨?_, this.2⟩
    simp only [updOwn]
    have : x.2.1 ≠ net := by intro h; rw [h, hnone] at this; cases this.1
    simp only [this, if_false]
    exact (I.reachOwn x hx).1

theorem invT_release {own : Own} {T : Tgt} {m : ExportMap} {p : PendingTx} {mb : Mirror}
    (I : InvT own T m p mb) (net : Net) (hT : ∀ w, T net w = none) :
    InvT (updOwn own net none) T m p mb := by
  -- nothing is sent, hence nothing pending, under the id of `net`
  have hnosent : ∀ d w, own net = some d → (d, w) ∉ m.sent := by
    intro d w ho hs
    obtain ⟨n, hn, ht⟩ := (I.mapIff d w).mp hs
    have := I.inj n net d hn ho
    rw [this] at ht; exact ht (hT w)
  refine
    { inj := ?_
      mode := I.mode
      eff := ?_
      tOwn := ?_
      mapIff := ?_
      reachOwn := ?_
      unreachOwn := I.unreachOwn
      reachKeys := I.reachKeys
      unreachKeys := I.unreachKeys
      sentNodup := I.sentNodup }
  · intro n n' d' h1 h2
    simp only [updOwn] at h1 h2
    by_cases hn : n = net
    · simp [hn] at h1
    · by_cases hn' : n' = net
      · simp [hn'] at h2
      · simp only [hn, hn', if_false] at h1 h2
        exact I.inj n n' d' h1 h2
  · intro net' w
    have := I.eff net' w
    simp only [effGetO, updOwn] at this ⊢
    by_cases hn : net' = net
    · subst hn
      simp only [if_true, Option.bind_none]
      cases ho : own net' with
      | none => simp only [ho, Option.bind_none] at this; exact this
      | some d =>
        have hl : lookup (d, w) p.reach = none := by
          apply lookup_none_of_forall
          intro x hx heq
          exact hnosent d w ho (heq ▸ (I.reachOwn x hx).2)
        simp only [ho, Option.bind_some, hl] at this
        exact this
    · simp only [hn, if_false]; exact this
  · intro net' w h
    simp only [updOwn]
    by_cases hn : net' = net
    · rw [hn] at h; exact absurd (hT w) h
    · simp only [hn, if_false]; exact I.tOwn net' w h
  · intro d' w
    rw [I.mapIff]
    constructor
    · rintro ⟨n, hn, ht⟩
      refine ⟨n, ?_, ht⟩
      simp only [updOwn]
      have : n ≠ net := by intro h; rw [h] at ht; exact ht (hT w)
      simp only [this, if_false]; exact hn
    · rintro ⟨n, hn, ht⟩
      simp only [updOwn] at hn
      by_cases h : n = net
      · simp [h] at hn
      · simp only [h, if_false] at hn; exact ⟨n, hn, ht⟩
  · intro x hx
    have := I.reachOwn x hx
    refine ⟨?_, this.2⟩
    simp only [updOwn]
    have : x.2.1 ≠ net := by
      intro h
      rw [h] at this
      have hk : x.1 = (x.1.1, x.1.2) := rfl
      exact hnosent x.1.1 x.1.2 this.1 (hk ▸ this.2)
    simp only [this, if_false]
    exact (I.reachOwn x hx).1

end Rbgp.Export.ConvA
