/-
  Rbgp.Export.Conv — the session-level invariant behind C01 (part 2): definitions.

  Ghost state: the *view* `V` = for every prefix the destination id and path list of the last
  change delivered to the session (prefixes whose last change had no paths are absent).
  `target e paths` = what a session with export behaviour `e` advertises for a destination with
  those paths (wire path id ↦ attributes, next hop): the result of `process_nlri_change` on an
  empty export map, i.e. the content of a fresh dump.
-/
import Rbgp.Export.ConvBase
namespace Rbgp.Export.Conv
open Rbgp.Export

/-- what is advertised for a destination with these paths -/
def target (e : Exp) (ps : List Path) : List (Nat × Attrs × Option Nh) :=
  if e.max = 1 then
    match ps.head? with
    | some b => if e.visible b then (match e.xform b with | some r => [(0, r)] | none => []) else []
    | none => []
  else ((ps.filter e.visible).take e.max).filterMap (fun p => (e.xform p).map (fun r => (p.pid, r)))

def tlookup (w : Nat) (t : List (Nat × Attrs × Option Nh)) : Option (Attrs × Option Nh) :=
  (t.find? (·.1 = w)).map (·.2)

structure VEntry where
  net : Net
  id : Nat
  paths : List Path
  deriving Repr

abbrev View := List VEntry

def View.find (V : View) (net : Net) : Option VEntry := V.find? (·.net = net)
def View.idOf (V : View) (net : Net) : Option Nat := (V.find net).map (·.id)
def View.paths (V : View) (net : Net) : List Path := ((V.find net).map (·.paths)).getD []
def View.owner (V : View) (d : Nat) : Option Net := (V.find? (·.id = d)).map (·.net)

/-- the view after a change -/
def View.update (V : View) (net : Net) (d : Nat) (ps : List Path) : View :=
  let rest := V.filter (·.net ≠ net)
  if ps.isEmpty then rest else rest ++ [⟨net, d, ps⟩]

/-- nets pairwise distinct, ids pairwise distinct, no entry without paths -/
def View.wf (V : View) : Prop :=
  (V.map (·.net)).Nodup ∧ (V.map (·.id)).Nodup ∧ ∀ x ∈ V, x.paths ≠ []

/-- A change the RIB may emit when the session's view is `V` (what C06 establishes about the change
    stream, needed here as a hypothesis on the delivered events), as far as a session without
    add-path depends on it:
    * the destination id belongs to this prefix or to none in the view (`destid_stable`);
    * `best_changed = false` means the best path is the same object as before. -/
structure Admissible (V : View) (u : Change Net) : Prop where
  idFree : ∀ x ∈ V, x.id = u.destId → x.net = u.net
  idKept : ∀ x ∈ V, x.net = u.net → x.id = u.destId
  bestSame : u.bestChanged = false → (V.paths u.net).head? = u.paths.head?

/-- what an add-path session would need in addition (stated for the record; the add-path branch is
    covered by the correspondence stream, not by the theorems below) -/
structure AdmissibleAddPath (V : View) (u : Change Net) : Prop extends Admissible V u where
  anySame : u.anyChanged = false → V.paths u.net = u.paths
  pidSame : ∀ p ∈ u.paths, ∀ q ∈ V.paths u.net, p.pid = q.pid → u.replaced ≠ some p.pid → p = q
  pidsNodup : (u.paths.map (·.pid)).Nodup

/-! ## effective mirror: what the neighbour holds once everything pending is flushed -/

/-- is a withdrawal of (net, wire id) pending? -/
def wdl (p : PendingTx) (net : Net) (w : Nat) : Bool :=
  p.stray.contains (w, net) || p.unreach.any (fun x => x.1.2 = w && x.2 = net)

def effGet (V : View) (p : PendingTx) (mb : Mirror) (net : Net) (w : Nat) : Option Route :=
  match (V.idOf net).bind (fun d => lookup (d, w) p.reach) with
  | some (_, as, nh) => some ⟨net, w, nh, as, false⟩
  | none => if wdl p net w then none else Mirror.get mb net w

def wantRoute (e : Exp) (V : View) (net : Net) (w : Nat) : Option Route :=
  (tlookup w (target e (V.paths net))).map (fun r => ⟨net, w, r.2, r.1, false⟩)

def keysNodup {α} (l : List (TxKey × α)) : Prop := (l.map (·.1)).Nodup

/-- The invariant that holds between deliveries for a session without add-path (`effective_max = 1`:
    wire path id 0, export map = set of destination ids).  `E net` is the export behaviour (policy)
    under which the prefix was last processed; all of them are non-add-path. -/
structure Inv (E : Net → Exp) (V : View) (m : ExportMap) (p : PendingTx) (mb : Mirror) : Prop where
  vwf : V.wf
  mode : m.addpath = false ∧ p.addpathTx = false ∧ ∀ net, (E net).max = 1
  eff : ∀ net, effGet V p mb net 0 = wantRoute (E net) V net 0
  mapIff : ∀ d w, (d, w) ∈ m.sent ↔ w = 0 ∧ ∃ x ∈ V, x.id = d ∧ target (E x.net) x.paths ≠ []
  reachOwn : ∀ x ∈ p.reach, x.1.2 = 0 ∧ V.idOf x.2.1 = some x.1.1 ∧ x.1 ∈ m.sent
  unreachOwn : ∀ x ∈ p.unreach, x.1.2 = 0 ∧ (x.1 ∈ m.sent → V.idOf x.2 = some x.1.1)
  strayZero : ∀ x ∈ p.stray, x.1 = 0
  reachKeys : keysNodup p.reach
  unreachKeys : keysNodup p.unreach
  sentNodup : m.sent.Nodup

/-! ## the view as a finite map -/

theorem View.mem_update (V : View) (net : Net) (d : Nat) (ps : List Path) (x : VEntry) :
    x ∈ V.update net d ps ↔ (x ∈ V ∧ x.net ≠ net) ∨ (ps ≠ [] ∧ x = ⟨net, d, ps⟩) := by
  simp only [View.update]
  cases ps with
  | nil => simp
  | cons a rest => simp [List.mem_filter]

theorem View.find_update (V : View) (net : Net) (d : Nat) (ps : List Path) (net' : Net) :
    (V.update net d ps).find net' =
      if net' = net then (if ps = [] then none else some ⟨net, d, ps⟩) else V.find net' := by
  have hfilt : ∀ (W : View), (W.filter (fun x => decide (x.net ≠ net))).find? (fun x => decide (x.net = net')) =
      if net' = net then none else W.find? (fun x => decide (x.net = net')) := by
    intro W
    induction W with
    | nil => simp
    | cons x rest ih =>
      rw [List.filter_cons]
      by_cases hx : x.net = net
      · simp only [ne_eq, hx, not_true_eq_false, decide_false, Bool.false_eq_true, if_false, ih]
        by_cases hn : net' = net
        · simp [hn]
        · have : ¬ x.net = net' := fun h => hn (h.symm.trans hx)
          simp [hn, List.find?_cons, this]
      · simp only [ne_eq, hx, not_false_eq_true, decide_true, if_true, List.find?_cons, ih]
        by_cases hn : net' = net
        · subst hn
          simp [hx]
        · simp [hn]
  simp only [View.update, View.find]
  cases ps with
  | nil =>
    simp only [List.isEmpty_nil, if_true, hfilt]
  | cons a rest =>
    simp only [List.isEmpty_cons, Bool.false_eq_true, if_false, List.find?_append, hfilt]
    by_cases hn : net' = net
    · simp [hn, List.find?_cons]
    · have : ¬ net = net' := fun h => hn h.symm
      simp only [hn, if_false, List.find?_cons, this, decide_false, List.find?_nil]
      cases V.find? (fun x => decide (x.net = net')) <;> simp

theorem View.idOf_update (V : View) (net : Net) (d : Nat) (ps : List Path) (net' : Net) :
    (V.update net d ps).idOf net' =
      if net' = net then (if ps = [] then none else some d) else V.idOf net' := by
  simp only [View.idOf, View.find_update]
  by_cases hn : net' = net
  · by_cases hp : ps = [] <;> simp [hn, hp]
  · simp [hn]

theorem View.paths_update (V : View) (net : Net) (d : Nat) (ps : List Path) (net' : Net) :
    (V.update net d ps).paths net' = if net' = net then ps else V.paths net' := by
  simp only [View.paths, View.find_update]
  by_cases hn : net' = net
  · by_cases hp : ps = [] <;> simp [hn, hp]
  · simp [hn]

theorem View.find_mem (V : View) (net : Net) (x : VEntry) (h : V.find net = some x) : x ∈ V ∧ x.net = net := by
  simp only [View.find] at h
  exact ⟨List.mem_of_find?_eq_some h, by simpa using List.find?_some h⟩

theorem find_of_mem_aux (V : List VEntry) (hn : (V.map (·.net)).Nodup) (x : VEntry) (h : x ∈ V) :
    V.find? (fun y => decide (y.net = x.net)) = some x := by
  induction V with
  | nil => cases h
  | cons y rest ih =>
    simp only [List.map_cons, List.nodup_cons] at hn
    rw [List.find?_cons]
    rcases List.mem_cons.mp h with rfl | hm
    · simp
    · have : ¬ y.net = x.net := by
        intro heq; apply hn.1; rw [heq]; exact List.mem_map_of_mem hm
      simp only [this, decide_false]
      exact ih hn.2 hm

theorem View.find_of_mem (V : View) (hw : V.wf) (x : VEntry) (h : x ∈ V) : V.find x.net = some x :=
  find_of_mem_aux V hw.1 x h

end Rbgp.Export.Conv
