/-
  Rbgp.Export.Pipeline — executable model of the C01 path:

    RIB (`table::Table` per shard: destinations with stable ids from a lowest-free allocator,
         path lists ordered by `impl Ord for RibEntry`, `insert` / `remove` / `drop`)
      → change stream (one FIFO to the observing session)
      → `process_nlri_change` (Rbgp.Export.Model, both branches) + `do_route_refresh`
      → `PendingTx` (reach / unreach keyed by (dest_id, path_id), `drain_messages`)
      → abstract codec (Reach sets (prefix, path-id) ↦ (next hop, attributes); Unreach deletes;
         path-id 0 without add-path tx) → neighbour mirror Adj-RIB-In.

  `register_peer` + `on_established` = `dump` over the RIB into an empty export map.
  Import-free (core only).
-/
import Rbgp.Export.Model
namespace Rbgp.Export

/-- IPv4 prefix (address, length) -/
abbrev Net := Nat × Nat

/-! ## PendingTx (daemon/src/peer_tx.rs) -/

abbrev TxKey := Nat × Nat          -- (dest_id, path_id or 0)

inductive Msg where
  | unreach (entries : List (Nat × Net))                       -- (path id, prefix)
  | reach (entries : List (Nat × Net)) (nh : Option Nh) (attrs : Attrs)
  | eor
  deriving DecidableEq, Repr, Inhabited

structure PendingTx where
  addpathTx : Bool
  reach : List (TxKey × (Net × Attrs × Option Nh)) := []
  unreach : List (TxKey × Net) := []
  stray : List (Nat × Net) := []     -- `stray_unreach`: (path id, prefix)
  buffered : List Msg := []
  pendingEor : Bool := false
  deriving DecidableEq, Repr, Inhabited

namespace PendingTx
def key (p : PendingTx) (d pid : Nat) : TxKey := (d, if p.addpathTx then pid else 0)

def eraseKey {α} (k : TxKey) (l : List (TxKey × α)) : List (TxKey × α) := l.filter (·.1 ≠ k)

/-- `PendingTx::reach` -/
def doReach (p : PendingTx) (d : Nat) (net : Net) (pid : Nat) (nh : Option Nh) (as : Attrs) : PendingTx :=
  let k := p.key d pid
  let stray := match p.unreach.find? (·.1 = k) with
    | some (_, old) => if old ≠ net then p.stray ++ [(k.2, old)] else p.stray
    | none => p.stray
  { p with unreach := eraseKey k p.unreach, stray := stray,
           reach := eraseKey k p.reach ++ [(k, (net, as, nh))] }

/-- `PendingTx::unreach` -/
def doUnreach (p : PendingTx) (d : Nat) (net : Net) (pid : Nat) : PendingTx :=
  let k := p.key d pid
  { p with reach := eraseKey k p.reach, unreach := eraseKey k p.unreach ++ [(k, net)] }

def apply (p : PendingTx) : SinkOp Net → PendingTx
  | .reach d net pid nh as => p.doReach d net pid nh as
  | .unreach d net pid => p.doUnreach d net pid

def isEmpty (p : PendingTx) : Bool :=
  p.buffered.isEmpty && p.reach.isEmpty && p.unreach.isEmpty && p.stray.isEmpty

/-- `PendingTx::drain_messages`: buffered dump first, then one Unreach message, then the reach
    entries (one message per entry here: grouping by (attributes, next hop) only affects framing),
    then the scheduled EOR. -/
def drain (p : PendingTx) : List Msg × PendingTx :=
  let w : List Msg := if p.unreach.isEmpty && p.stray.isEmpty then []
    else [.unreach (p.stray ++ p.unreach.map (fun e => (e.1.2, e.2)))]
  let r : List Msg := p.reach.map (fun e => .reach [(e.1.2, e.2.1)] e.2.2.2 e.2.2.1)
  let e : List Msg := if p.pendingEor then [.eor] else []
  (p.buffered ++ w ++ r ++ e,
   { p with reach := [], unreach := [], stray := [], buffered := [], pendingEor := false })
end PendingTx

/-! ## The neighbour's mirror Adj-RIB-In (abstract codec) -/

structure Route where
  net : Net
  pid : Nat
  nh : Option Nh
  attrs : Attrs
  /-- announced twice with different contents within one flush: the two UPDATEs leave one
      `drain_messages` in hash-map order, so which one survives is not determined -/
  amb : Bool := false
  deriving DecidableEq, Repr, Inhabited

abbrev Mirror := List Route

def Mirror.del (m : Mirror) (net : Net) (pid : Nat) : Mirror :=
  m.filter (fun r => !(r.net = net ∧ r.pid = pid))

def Mirror.set (m : Mirror) (r : Route) : Mirror := m.del r.net r.pid ++ [r]

def Mirror.applyMsg (m : Mirror) : Msg → Mirror
  | .unreach es => es.foldl (fun m e => m.del e.2 e.1) m
  | .reach es nh as => es.foldl (fun m e => m.set ⟨e.2, e.1, nh, as, false⟩) m
  | .eor => m

/-- One flush: the messages of one `drain_messages`, remembering what this flush already
    announced (`written`) so that a second, different announcement of a key is marked `amb`. -/
def Mirror.applyTracked (acc : Mirror × List Route) : Msg → Mirror × List Route
  | .unreach es => (es.foldl (fun m e => m.del e.2 e.1) acc.1, acc.2)
  | .reach es nh as => es.foldl (fun (a : Mirror × List Route) e =>
      let r : Route := ⟨e.2, e.1, nh, as, false⟩
      match a.2.find? (fun w => w.net = r.net ∧ w.pid = r.pid) with
      | some w => if w = r then (a.1.set r, a.2) else (a.1.set { r with nh := none, attrs := [], amb := true }, a.2)
      | none => (a.1.set r, a.2 ++ [r])) acc
  | .eor => (acc.1, [])      -- the buffered dump and its EOR precede the incremental messages

def Mirror.applyFlush (m : Mirror) (msgs : List Msg) : Mirror := (msgs.foldl Mirror.applyTracked (m, [])).1

/-! ## RIB (table/src/lib.rs) -/

structure RibEntry where
  path : Path
  srcIdx : Nat            -- identity of the `Arc<Source>`
  remotePid : Nat
  filtered : Bool := false    -- `FLAG_FILTERED`: rejected by the import policy
  nhInvalid : Bool := false   -- `FLAG_NEXTHOP_INVALID`
  deriving DecidableEq, Repr, Inhabited

structure Dest where
  net : Net
  id : Nat
  entries : List RibEntry
  nextPid : Nat
  deriving DecidableEq, Repr, Inhabited

/-- one `Rib` (family IPv4) of one shard -/
structure Shard where
  idx : Nat
  dests : List Dest := []
  used : List Nat := []       -- allocated local ids
  deriving DecidableEq, Repr, Inhabited

def hasLlgrCommunity (as : Attrs) : Bool :=
  match (findCode Attr.COMMUNITY as).bind Attr.words? with
  | some ws => ws.contains Attr.LLGR_STALE
  | none => false

def prefersOverIbgp : Role → Bool
  | .ebgp | .rsClient => true
  | _ => false

/-- `impl Ord for RibEntry` as a lexicographic key (smaller = better): LLGR-stale first (the
    repaired order, RFC 9494), LOCAL_PREF, AS_PATH hops, ORIGIN, eBGP over iBGP, stale (never set by
    the operations modelled here), CLUSTER_LIST length, ORIGINATOR_ID / router-id.  The decision
    order itself is C02's subject; C01 cases avoid LLGR_STALE so that they do not depend on it. -/
def rankKey (e : RibEntry) : List Nat :=
  let as := e.path.attrs
  let lp := ((findCode Attr.LOCAL_PREF as).bind Attr.value?).getD Attr.DEFAULT_LOCAL_PREF
  let plen := match findCode Attr.AS_PATH as with
    | some (.aspath segs) => asPathLength segs
    | _ => 0
  let origin := ((findCode Attr.ORIGIN as).bind Attr.value?).getD 2
  let clen := match (findCode Attr.CLUSTER_LIST as).bind Attr.words? with
    | some ws => ws.length
    | none => 0
  let oid := ((findCode Attr.ORIGINATOR_ID as).bind Attr.value?).getD e.path.src.routerId
  [if e.path.src.llgr || hasLlgrCommunity as then 1 else 0,
   4294967295 - lp, plen, origin % 256, if prefersOverIbgp e.path.src.role then 0 else 1, 0, clen, oid]

def lexLt : List Nat → List Nat → Bool
  | a :: as, b :: bs => a < b || (a = b && lexLt as bs)
  | _, _ => false

/-- `partition_point(|a| entry.cmp(a).is_ge())` on a list ordered by `cmp`: after every entry that
    is not worse than the new one. -/
def insertRanked (e : RibEntry) : List RibEntry → List RibEntry
  | [] => [e]
  | a :: rest => if lexLt (rankKey e) (rankKey a) then e :: a :: rest else a :: insertRanked e rest

/-- `IdAllocator::alloc`: lowest free local id -/
def lowestFree (used : List Nat) : Nat → Nat → Nat
  | 0, n => n
  | fuel + 1, n => if used.contains n then lowestFree used fuel (n + 1) else n

/-- `Destination::unfiltered_iter` -/
def visibleEntries (es : List RibEntry) : List RibEntry := es.filter (fun e => !e.filtered && !e.nhInvalid)

def bestKey (d : Dest) : Option (Nat × Nat × Option Nh) :=
  (visibleEntries d.entries).head?.map (fun e => (e.srcIdx, e.path.attrId, e.path.nh))

/-- `Destination::alloc_path_id` (no wrap-around: ids stay far below 2^32 here) -/
def allocPathId (entries : List RibEntry) (next : Nat) : Nat → Nat × Nat
  | 0 => (next, next + 1)
  | fuel + 1 =>
      if entries.any (fun e => e.path.pid = next) then allocPathId entries (next + 1) fuel
      else (next, next + 1)

def destId (shard localId : Nat) : Nat := shard * 16777216 + localId

/-- `Table::insert` (no prefix limit, not deferring); `filtered` = the import policy rejected the
    route, `nhInvalid` = its next hop is in the manager's unreachable set -/
def Shard.insert (s : Shard) (net : Net) (srcIdx : Nat) (src : Source) (remotePid : Nat)
    (nh : Option Nh) (attrs : Attrs) (attrId : Nat) (filtered : Bool := false) (nhInvalid : Bool := false) :
    Shard × Option (Change Net) :=
  let (d, s1) : Dest × Shard := match s.dests.find? (·.net = net) with
    | some d => (d, s)
    | none =>
        let lid := lowestFree s.used (s.used.length + 1) 0
        (⟨net, destId s.idx lid, [], 1⟩, { s with used := lid :: s.used })
  let oldBest := bestKey d
  let replaced := d.entries.find? (fun e => e.path.src.addr = src.addr ∧ e.remotePid = remotePid)
  let rest := d.entries.filter (fun e => !(e.path.src.addr = src.addr ∧ e.remotePid = remotePid))
  let (pid, next) := match replaced with
    | some old => (old.path.pid, d.nextPid)
    | none =>
        let next0 := if rest.isEmpty then 1 else d.nextPid
        allocPathId rest next0 (rest.length + 1)
  let e : RibEntry := ⟨{ pid := pid, src := src, nh := nh, attrs := attrs, attrId := attrId, srcIdx := srcIdx },
                       srcIdx, remotePid, filtered, nhInvalid⟩
  let d' : Dest := { d with entries := insertRanked e rest, nextPid := next }
  let dests' := if s1.dests.any (·.net = net) then s1.dests.map (fun x => if x.net = net then d' else x)
                else s1.dests ++ [d']
  let bestChanged := oldBest != bestKey d'
  let anyChanged := !filtered || (match replaced with | some r => !r.filtered | none => false)
  let ch : Option (Change Net) :=
    if !bestChanged && !anyChanged then none
    else some ⟨net, d'.id, bestChanged, anyChanged, replaced.map (·.path.pid), (visibleEntries d'.entries).map (·.path)⟩
  ({ s1 with dests := dests' }, ch)

/-- `Table::remove` -/
def Shard.remove (s : Shard) (net : Net) (src : Source) (remotePid : Nat) : Shard × Option (Change Net) :=
  match s.dests.find? (·.net = net) with
  | none => (s, none)
  | some d =>
      match d.entries.find? (fun e => e.path.src.addr = src.addr ∧ e.remotePid = remotePid) with
      | none => (s, none)
      | some removed =>
        let oldBest := bestKey d
        let wasUnfiltered := !removed.filtered
        let rest := d.entries.filter (fun e => !(e.path.src.addr = src.addr ∧ e.remotePid = remotePid))
        if rest.isEmpty then
          ({ s with dests := s.dests.filter (·.net ≠ net), used := s.used.filter (· ≠ d.id % 16777216) },
           if wasUnfiltered then some ⟨net, d.id, true, true, none, []⟩ else none)
        else
          let d' := { d with entries := rest }
          let bestChanged := oldBest != bestKey d'
          ({ s with dests := s.dests.map (fun x => if x.net = net then d' else x) },
           if !bestChanged && !wasUnfiltered then none
           else some ⟨net, d.id, bestChanged, wasUnfiltered, none, (visibleEntries rest).map (·.path)⟩)

/-- `Table::drop` for one destination -/
def dropDest (addr : Addr) (d : Dest) : Option Dest × Option (Change Net) :=
  if !d.entries.any (fun e => e.path.src.addr = addr) then (some d, none)
  else
    let oldBest := (visibleEntries d.entries).head?.map (·.path.pid)
    let removedAnyVisible := d.entries.any (fun e => e.path.src.addr = addr && !e.filtered && !e.nhInvalid)
    let rest := d.entries.filter (fun e => e.path.src.addr ≠ addr)
    if !removedAnyVisible then ((if rest.isEmpty then none else some { d with entries := rest }), none)
    else if rest.isEmpty then (none, some ⟨d.net, d.id, true, true, none, []⟩)
    else
      let d' := { d with entries := rest }
      (some d', some ⟨d.net, d.id, oldBest != (visibleEntries rest).head?.map (·.path.pid), true, none,
                      (visibleEntries rest).map (·.path)⟩)

/-- `Table::update_nexthop_validity` for one destination -/
def nhFlipDest (addr : Addr) (reachable : Bool) (d : Dest) : Dest × Option (Change Net) :=
  let hit (e : RibEntry) : Bool := decide ((e.path.nh.map (·.addr)) = some addr) && (e.nhInvalid != !reachable)
  if !d.entries.any hit then (d, none)
  else
    let oldBest := bestKey d
    let d' := { d with entries := d.entries.map (fun e => if hit e then { e with nhInvalid := !reachable } else e) }
    (d', some ⟨d.net, d.id, oldBest != bestKey d', true, none, (visibleEntries d'.entries).map (·.path)⟩)

/-- stable sort by `rankKey` (`sort_unstable` is an insertion sort below 20 elements) -/
def sortRanked (es : List RibEntry) : List RibEntry := es.foldl (fun acc e => insertRanked e acc) []

/-- `Table::restale_llgr` for one destination: every `Arc<Source>` with that address is marked
    (the flag sits on the shared source, so all its paths see it), the list is re-sorted. -/
def restaleDest (addr : Addr) (d : Dest) : Dest × List (Change Net) :=
  if !d.entries.any (fun e => e.path.src.addr = addr) then (d, [])
  else
    let oldBest := (visibleEntries d.entries).head?.map (·.path.pid)
    let anyUnfiltered := d.entries.any (fun e => e.path.src.addr = addr && !e.filtered)
    let marked := d.entries.map (fun e =>
      if e.path.src.addr = addr then { e with path := { e.path with src := { e.path.src with llgr := true } } } else e)
    let sorted := sortRanked marked
    let d' := { d with entries := sorted }
    let vis := visibleEntries sorted
    -- a best path of `addr` that keeps its rank is still a changed route (LLGR_STALE is attached on export)
    let bestChanged := oldBest != vis.head?.map (·.path.pid) ||
      (match vis.head? with | some e => decide (e.path.src.addr = addr) | none => false)
    let paths := vis.map (·.path)
    let remarked := (paths.filter (fun p => p.src.addr = addr)).map (·.pid)
    (d', if !(bestChanged || anyUnfiltered) then []
         else if remarked.isEmpty then [⟨d.net, d.id, bestChanged, anyUnfiltered, none, paths⟩]
         else (List.range remarked.length).zip remarked |>.map (fun (i, pid) =>
                ⟨d.net, d.id, bestChanged && i == 0, true, some pid, paths⟩))

def Shard.restaleLlgr (s : Shard) (addr : Addr) : Shard × List (Change Net) :=
  let rs := s.dests.map (restaleDest addr)
  ({ s with dests := rs.map (·.1) }, rs.flatMap (·.2))

def Shard.nhFlip (s : Shard) (addr : Addr) (reachable : Bool) : Shard × List (Change Net) :=
  let rs := s.dests.map (nhFlipDest addr reachable)
  ({ s with dests := rs.map (·.1) }, rs.filterMap (·.2))

def Shard.drop (s : Shard) (addr : Addr) : Shard × List (Change Net) :=
  let rs := s.dests.map (dropDest addr)
  let kept := rs.filterMap (·.1)
  let freed := (s.dests.filter (fun d => !kept.any (·.net = d.net))).map (fun d => d.id % 16777216)
  ({ s with dests := kept, used := s.used.filter (fun u => !freed.contains u) }, rs.filterMap (·.2))

/-- `collect_loc_rib_paths_limited` -/
def Shard.collect (s : Shard) (maxPaths : Option Nat) : List (Change Net) :=
  s.dests.filterMap (fun d =>
    let es : List RibEntry := match maxPaths with
      | some n => (visibleEntries d.entries).take n
      | none => visibleEntries d.entries
    let ps := es.map (·.path)
    if ps.isEmpty then none else some ⟨d.net, d.id, true, true, none, ps⟩)

/-! ## The observing session -/

inductive Ev where
  | change (c : Change Net)
  | softReset
  deriving Repr

structure SessState where
  sess : Sess                    -- carries the current export policy
  map : ExportMap
  pending : PendingTx
  mirror : Mirror := []
  owner : List (Nat × Net) := []  -- dest id ↦ prefix of the last delivered change (re-use counter)
  reuse : Nat := 0
  overtaken : Nat := 0           -- refreshes that ran while changes were still queued behind them
  deriving Repr

def applyOps (p : PendingTx) (ops : List (SinkOp Net)) : PendingTx := ops.foldl PendingTx.apply p

/-- The paths of a queued change share their `Arc<Source>` with the RIB: the LLGR-stale flag is
    the one in force when the change is processed. -/
def withFlags (llgr : List Nat) (c : Change Net) : Change Net :=
  { c with paths := c.paths.map (fun p => { p with src := { p.src with llgr := p.src.llgr || llgr.contains p.srcIdx } }) }

/-- `handle_prefix_update` (`resend = false`) / the loop body of `do_route_refresh` (`true`) -/
def SessState.handle (st : SessState) (c : Change Net) (resend : Bool := false) : SessState :=
  let (m, ops) := processNlriChange st.sess.exp c st.map resend
  { st with map := m, pending := applyOps st.pending ops }

/-- message list of a `GroupedSink` after the dump (one Reach per sink call) -/
def dumpMsgs (addpathTx : Bool) (ops : List (SinkOp Net)) : List Msg :=
  ops.filterMap (fun o => match o with
    | .reach _ net pid nh as => some (.reach [((if addpathTx then pid else 0), net)] nh as)
    | .unreach _ _ _ => none)

/-- the shards of a `TableManager` -/
abbrev Rib := List Shard

/-- number of paths `on_established` / `do_route_refresh` ask `collect_loc_rib_paths_limited` for:
    all of them for an add-path session (the window is cut after the per-peer filters), 1 otherwise -/
def collectLimit (max : Nat) : Option Nat := if max > 1 then none else some 1

/-- `register_peer` closure of `on_established`: dump every shard into an empty export map -/
def establish (sess : Sess) (rib : Rib) : SessState :=
  let addpath := sess.max != 1
  let (m, ops) := (rib.flatMap (fun s => s.collect (collectLimit sess.max))).foldl
    (fun (acc : ExportMap × List (SinkOp Net)) c =>
      let (m, o) := processNlriChange sess.exp c acc.1
      (m, acc.2 ++ o))
    (ExportMap.empty addpath, [])
  { sess := sess, map := m,
    pending := { addpathTx := addpath, buffered := dumpMsgs addpath ops ++ [.eor] } }

/-- `do_route_refresh` -/
def SessState.refresh (st : SessState) (rib : Rib) : SessState :=
  let st' := (rib.flatMap (fun s => s.collect (collectLimit st.sess.max))).foldl
    (fun st c => st.handle c true) st
  { st' with pending := { st'.pending with pendingEor := true } }

def Ev.isChange : Ev → Bool
  | .change _ => true
  | .softReset => false

/-- one `ToPeerEvent`; `behind` = what is still queued after it -/
def SessState.deliver (st : SessState) (rib : Rib) (behind : List Ev) (llgr : List Nat := []) : Ev → SessState
  | .change c0 =>
      let c := withFlags llgr c0
      let reused := match st.owner.find? (·.1 = c.destId) with
        | some (_, n) => n != c.net
        | none => false
      let st1 := { st with owner := (c.destId, c.net) :: st.owner.filter (·.1 ≠ c.destId),
                           reuse := if reused then st.reuse + 1 else st.reuse }
      st1.handle c
  | .softReset =>
      let st1 := if behind.any Ev.isChange then { st with overtaken := st.overtaken + 1 } else st
      st1.refresh rib

/-- deliver the first `n` queued events, in order -/
def deliverN (rib : Rib) (llgr : List Nat) : Nat → List Ev → SessState → List Ev × SessState
  | 0, q, st => (q, st)
  | _ + 1, [], st => ([], st)
  | n + 1, e :: q, st => deliverN rib llgr n q (st.deliver rib q llgr e)

def SessState.flush (st : SessState) : SessState :=
  let (msgs, p) := st.pending.drain
  { st with pending := p, mirror := st.mirror.applyFlush msgs }

/-! ## Cases -/

inductive Op where
  | ann (s p rpid a : Nat) (nh : Nh)
  | wd (s p rpid : Nat)
  | down (s : Nat)
  | llgr (s : Nat)
  | nh (a : Nat) (up : Bool)      -- next-hop tracking: the IPv4 address became (un)reachable
  | reset (k : Option Nat)        -- the neighbour's own export policy is replaced, soft reset OUT
  | greset (k : Option Nat)       -- the global export policy is replaced, soft reset OUT
  | deliver (n : Nat)
  | flush
  | rtceor                        -- the neighbour's RTC End-of-RIB arrives (RTC sessions only)
  deriving DecidableEq, Repr, Inhabited

/-- what a neighbour that negotiated RTC (RFC 4684) announced as its route-target interests before
    its RTC End-of-RIB: a wildcard, or a set of route targets (8 bytes each) -/
inductive RtcInterest where
  | all
  | rts (l : List (List Nat))
  deriving DecidableEq, Repr, Inhabited

structure Case01 where
  shards : Nat
  sess : Sess                      -- with the export policy in force at establishment (`ppol0` else `gpol0`)
  ppol0 : Option Policy := none    -- the neighbour's own export policy assignment
  gpol0 : Option Policy := none    -- the global export policy assignment
  srcs : List Source
  pfxs : List (Net × Nat)          -- prefix, shard
  asets : List Attrs
  pols : List (Option Policy)
  imp : Option Nat := none         -- import policy: reject routes whose ORIGIN is this value
  rtc : Option RtcInterest := none -- the neighbour negotiated RTC and a VPN family next to the others
  pre : List Op
  ops : List Op
  deriving Repr, Inhabited

/-- a flush with nothing left in the channel: what the neighbour holds and what a brand-new session
    would be sent at that moment -/
structure Quiet where
  nth : Nat            -- how many flushes came before
  reuse : Nat
  overtaken : Nat
  mirror : Mirror
  dump : Mirror
  deriving DecidableEq, Repr, Inhabited

structure World where
  rib : Rib
  llgrSrcs : List Nat := []     -- sources whose shared `llgr_stale` flag is set
  nht : List Addr := []         -- `nexthop_invalid`: next hops currently reported unreachable
  queue : List Ev := []
  st : SessState
  nextAttrId : Nat := 1
  flushes : List Mirror := []
  ppol : Option Policy := none  -- `PeerState.export_policy`
  gpol : Option Policy := none  -- `TableManager.export_policy`
  quiet : List Quiet := []
  deriving Repr

def netLt (a b : Net) : Bool := a.1 < b.1 || (a.1 = b.1 && a.2 < b.2)

def insChange (c : Change Net) : List (Change Net) → List (Change Net)
  | [] => [c]
  | x :: xs => if !netLt x.net c.net then c :: x :: xs else x :: insChange c xs

/-- prefix order, stable -/
def sortChanges (cs : List (Change Net)) : List (Change Net) := cs.foldr insChange []

def updShard (rib : Rib) (i : Nat) (f : Shard → Shard × List (Change Net)) : Rib × List (Change Net) :=
  match rib[i]? with
  | none => (rib, [])
  | some s => let (s', cs) := f s; (rib.set i s', cs)

/-- A RIB operation: new RIB, the changes it fans out, next attribute-Arc id. -/
def importFiltered (imp : Option Nat) (as : Attrs) : Bool :=
  match imp with
  | none => false
  | some v => ((findCode Attr.ORIGIN as).bind Attr.value?) = some v

def ribOp (c : Case01) (rib : Rib) (attrId : Nat) (llgr : List Nat := []) (nht : List Addr := []) :
    Op → Rib × List (Change Net) × Nat
  | .ann s p rpid a nh =>
      match c.srcs[s]?, c.pfxs[p]?, c.asets[a]? with
      | some src0, some (net, sh), some as =>
          let src := if llgr.contains s then { src0 with llgr := true } else src0
          let (rib', cs) := updShard rib sh (fun shd =>
            let (x, ch) := shd.insert net s src rpid (some nh) as attrId (importFiltered c.imp as) (nht.contains nh.addr)
            (x, ch.toList))
          (rib', cs, attrId + 1)
      | _, _, _ => (rib, [], attrId)
  | .wd s p rpid =>
      match c.srcs[s]?, c.pfxs[p]? with
      | some src, some (net, sh) =>
          let (rib', cs) := updShard rib sh (fun shd =>
            let (x, ch) := shd.remove net src rpid
            (x, ch.toList))
          (rib', cs, attrId)
      | _, _ => (rib, [], attrId)
  | .down s =>
      match c.srcs[s]? with
      | some src =>
          let rs := rib.map (fun shd => shd.drop src.addr)
          (rs.map (·.1), sortChanges (rs.flatMap (·.2)), attrId)
      | none => (rib, [], attrId)
  | .llgr s =>
      match c.srcs[s]? with
      | some src =>
          let rs := rib.map (fun shd => shd.restaleLlgr src.addr)
          (rs.map (·.1), sortChanges (rs.flatMap (·.2)), attrId)
      | none => (rib, [], attrId)
  | .nh a up =>
      let rs := rib.map (fun shd => shd.nhFlip (.v4 a) up)
      (rs.map (·.1), sortChanges (rs.flatMap (·.2)), attrId)
  | _ => (rib, [], attrId)

def freshDump (sess : Sess) (rib : Rib) : Mirror := ((establish sess rib).flush).mirror

def World.step (c : Case01) (w : World) (op : Op) : World :=
  match op with
  | .ann .. | .wd .. | .down .. | .llgr .. | .nh .. =>
      let (rib, cs, aid) := ribOp c w.rib w.nextAttrId w.llgrSrcs w.nht op
      let nht := match op with
        | .nh a up => if up then w.nht.filter (· ≠ Addr.v4 a) else (Addr.v4 a) :: w.nht.filter (· ≠ Addr.v4 a)
        | _ => w.nht
      -- `restale_llgr` sets the flag on the `Arc<Source>` of every entry it finds for that address
      let marked := match op with
        | .llgr s =>
            let addr := (c.srcs[s]?).map (·.addr)
            let hit := (w.rib.flatMap (·.dests)).flatMap (fun d =>
              (d.entries.filter (fun e => some e.path.src.addr = addr)).map (·.srcIdx))
            w.llgrSrcs ++ hit.filter (fun i => !w.llgrSrcs.contains i)
        | _ => w.llgrSrcs
      { w with rib := rib, queue := w.queue ++ cs.map Ev.change, nextAttrId := aid, llgrSrcs := marked, nht := nht }
  | .reset k =>
      -- `state.export_policy.load_full().or_else(|| tables.export_policy.load_full())`
      let pol : Option Policy := match k with
        | none => none
        | some i => (c.pols[i]?).getD none
      { w with st := { w.st with sess := { w.st.sess with policy := pol.or w.gpol } }, ppol := pol,
               queue := w.queue ++ [Ev.softReset] }
  | .greset k =>
      let pol : Option Policy := match k with
        | none => none
        | some i => (c.pols[i]?).getD none
      { w with st := { w.st with sess := { w.st.sess with policy := w.ppol.or pol } }, gpol := pol,
               queue := w.queue ++ [Ev.softReset] }
  | .deliver n =>
      let (q, st) := deliverN w.rib w.llgrSrcs n w.queue w.st
      { w with queue := q, st := st }
  | .rtceor => w
  | .flush =>
      let st := w.st.flush
      { w with st := st, flushes := w.flushes ++ [st.mirror],
               quiet := if w.queue.isEmpty then
                   w.quiet ++ [⟨w.flushes.length, st.reuse, st.overtaken, st.mirror, freshDump st.sess w.rib⟩]
                 else w.quiet }

structure Obs01 where
  reuse : Nat
  overtaken : Nat
  flushes : List Mirror
  quiet : List Quiet
  final : Mirror
  dump : Mirror
  deriving DecidableEq, Repr, Inhabited

def initRib (n : Nat) : Rib := (List.range n).map (fun i => { idx := i })

def run01Plain (c : Case01) : Obs01 :=
  let (rib0, aid0) := c.pre.foldl (fun (acc : Rib × Nat) op =>
      let (r, _, a) := ribOp c acc.1 acc.2 [] [] op
      (r, a)) (initRib c.shards, 1)
  let w0 : World := { rib := rib0, st := establish c.sess rib0, nextAttrId := aid0, ppol := c.ppol0, gpol := c.gpol0 }
  let w1 := c.ops.foldl (World.step c) w0
  let w2 := World.step c w1 (.deliver w1.queue.length)
  let st := w2.st.flush
  ⟨st.reuse, st.overtaken, w2.flushes, w2.quiet, st.mirror, freshDump st.sess w2.rib⟩

/-! ## Sessions that negotiated RTC (RFC 4684) next to a VPN family and other families

    `RtcState`: AwaitingEor from establishment until the neighbour's RTC End-of-RIB, then Active.
    While AwaitingEor the VPN families are suspended: left out of the initial dump
    (`on_established`), their changes dropped (`handle_prefix_update`); the other families are not
    concerned.  The End-of-RIB makes the session re-walk the suspended families
    (`RouteRefreshFamilies` -> `do_route_refresh`), from then on under the route-target filter built
    from the neighbour's RTC routes.  VPN prefixes are the `Net`s from `VPN_BASE` up. -/

def VPN_BASE : Nat := 2 ^ 127
def isVpnNet (n : Net) : Bool := n.1 ≥ VPN_BASE

def chunks8 : List Nat → List (List Nat)
  | a :: b :: c :: d :: e :: f :: g :: h :: rest => [a, b, c, d, e, f, g, h] :: chunks8 rest
  | _ => []

/-- `RtcFilter::allows` -/
def rtAllows (i : RtcInterest) (as : Attrs) : Bool :=
  match i with
  | .all => true
  | .rts l => as.any (fun a => match a with
      | .bin 16 bs => (chunks8 bs).any (fun rt => l.contains rt)
      | _ => false)

inductive RtcPhase where
  | awaiting | active
  deriving DecidableEq, Repr, Inhabited

inductive EvR where
  | change (c : Change Net)
  | softReset
  | rtcExport          -- `RouteRefreshFamilies(suspended VPN families)`
  deriving Repr

def EvR.isChange : EvR → Bool
  | .change _ => true
  | _ => false

/-- the RIB without its VPN destinations -/
def hideVpn (rib : Rib) : Rib := rib.map (fun s => { s with dests := s.dests.filter (fun d => !isVpnNet d.net) })
/-- the VPN destinations only -/
def onlyVpn (rib : Rib) : Rib := rib.map (fun s => { s with dests := s.dests.filter (fun d => isVpnNet d.net) })

/-- the export behaviour of `do_route_refresh` on a VPN family of an Active session: the filter
    rejects a path as an export policy would -/
def expRt (e : Exp) (i : RtcInterest) : Exp :=
  { e with xform := fun p => if rtAllows i p.attrs then e.xform p else none }

def SessState.handleWith (st : SessState) (e : Exp) (c : Change Net) (resend : Bool) : SessState :=
  let (m, ops) := processNlriChange e c st.map resend
  { st with map := m, pending := applyOps st.pending ops }

def collectAll (sess : Sess) (rib : Rib) : List (Change Net) :=
  rib.flatMap (fun s => s.collect (collectLimit sess.max))

/-- `do_route_refresh` for every family (`SoftResetOut`): the VPN families under the filter when the
    session is Active; while it is AwaitingEor they stay suspended -/
def SessState.refreshR (st : SessState) (rib : Rib) (phase : RtcPhase) (i : RtcInterest) : SessState :=
  let st1 := (collectAll st.sess (hideVpn rib)).foldl (fun st c => st.handle c true) st
  let st2 := match phase with
    | .active => (collectAll st.sess (onlyVpn rib)).foldl
        (fun (st : SessState) c => st.handleWith (expRt st.sess.exp i) c true) st1
    | .awaiting => st1
  { st2 with pending := { st2.pending with pendingEor := true } }

/-- `do_route_refresh` for the VPN families only (`RouteRefreshFamilies`, sent at the RTC End-of-RIB) -/
def SessState.rtcExport (st : SessState) (rib : Rib) (i : RtcInterest) : SessState :=
  let st2 := (collectAll st.sess (onlyVpn rib)).foldl (fun st c => st.handleWith (expRt st.sess.exp i) c true) st
  { st2 with pending := { st2.pending with pendingEor := true } }

def SessState.deliverR (st : SessState) (rib : Rib) (behind : List EvR) (llgr : List Nat)
    (phase : RtcPhase) (i : RtcInterest) : EvR → SessState
  | .change c0 =>
      let c := withFlags llgr c0
      let reused := match st.owner.find? (·.1 = c.destId) with
        | some (_, n) => n != c.net
        | none => false
      let st1 := { st with owner := (c.destId, c.net) :: st.owner.filter (·.1 ≠ c.destId),
                           reuse := if reused then st.reuse + 1 else st.reuse }
      -- `handle_prefix_update`: the RTC gate concerns VPN families only; an Active session applies
      -- the route-target filter per path inside `process_nlri_change`, as a refresh does
      if isVpnNet c.net then
        match phase with
        | .awaiting => st1
        | .active => st1.handleWith (expRt st1.sess.exp i) c false
      else st1.handle c
  | .softReset =>
      let st1 := if behind.any EvR.isChange then { st with overtaken := st.overtaken + 1 } else st
      st1.refreshR rib phase i
  | .rtcExport =>
      let st1 := if behind.any EvR.isChange then { st with overtaken := st.overtaken + 1 } else st
      st1.rtcExport rib i

def deliverNR (rib : Rib) (llgr : List Nat) (phase : RtcPhase) (i : RtcInterest) :
    Nat → List EvR → SessState → List EvR × SessState
  | 0, q, st => (q, st)
  | _ + 1, [], st => ([], st)
  | n + 1, e :: q, st => deliverNR rib llgr phase i n q (st.deliverR rib q llgr phase i e)

/-- what a brand-new session in the same RTC phase is sent: the other families at once, the VPN
    families after its RTC End-of-RIB, filtered -/
def freshDumpR (sess : Sess) (rib : Rib) (phase : RtcPhase) (i : RtcInterest) : Mirror :=
  let st0 := establish sess (hideVpn rib)
  match phase with
  | .awaiting => st0.flush.mirror
  | .active => (st0.rtcExport rib i).flush.mirror

structure WorldR where
  rib : Rib
  llgrSrcs : List Nat := []
  nht : List Addr := []
  queue : List EvR := []
  st : SessState
  nextAttrId : Nat := 1
  flushes : List Mirror := []
  ppol : Option Policy := none
  gpol : Option Policy := none
  quiet : List Quiet := []
  phase : RtcPhase := .awaiting
  deriving Repr

def WorldR.step (c : Case01) (i : RtcInterest) (w : WorldR) (op : Op) : WorldR :=
  match op with
  | .ann .. | .wd .. | .down .. | .llgr .. | .nh .. =>
      let (rib, cs, aid) := ribOp c w.rib w.nextAttrId w.llgrSrcs w.nht op
      let nht := match op with
        | .nh a up => if up then w.nht.filter (· ≠ Addr.v4 a) else (Addr.v4 a) :: w.nht.filter (· ≠ Addr.v4 a)
        | _ => w.nht
      let marked := match op with
        | .llgr s =>
            let addr := (c.srcs[s]?).map (·.addr)
            let hit := (w.rib.flatMap (·.dests)).flatMap (fun d =>
              (d.entries.filter (fun e => some e.path.src.addr = addr)).map (·.srcIdx))
            w.llgrSrcs ++ hit.filter (fun i => !w.llgrSrcs.contains i)
        | _ => w.llgrSrcs
      { w with rib := rib, queue := w.queue ++ cs.map EvR.change, nextAttrId := aid, llgrSrcs := marked, nht := nht }
  | .reset k =>
      let pol : Option Policy := match k with
        | none => none
        | some j => (c.pols[j]?).getD none
      { w with st := { w.st with sess := { w.st.sess with policy := pol.or w.gpol } }, ppol := pol,
               queue := w.queue ++ [EvR.softReset] }
  | .greset k =>
      let pol : Option Policy := match k with
        | none => none
        | some j => (c.pols[j]?).getD none
      { w with st := { w.st with sess := { w.st.sess with policy := w.ppol.or pol } }, gpol := pol,
               queue := w.queue ++ [EvR.softReset] }
  | .rtceor =>
      -- `RtcState::process(EorReceived)`: only the first End-of-RIB does something
      match w.phase with
      | .awaiting => { w with phase := .active, queue := w.queue ++ [EvR.rtcExport] }
      | .active => w
  | .deliver n =>
      let (q, st) := deliverNR w.rib w.llgrSrcs w.phase i n w.queue w.st
      { w with queue := q, st := st }
  | .flush =>
      let st := w.st.flush
      { w with st := st, flushes := w.flushes ++ [st.mirror],
               quiet := if w.queue.isEmpty then
                   w.quiet ++ [⟨w.flushes.length, st.reuse, st.overtaken, st.mirror, freshDumpR st.sess w.rib w.phase i⟩]
                 else w.quiet }

def run01R (c : Case01) (i : RtcInterest) : Obs01 :=
  let (rib0, aid0) := c.pre.foldl (fun (acc : Rib × Nat) op =>
      let (r, _, a) := ribOp c acc.1 acc.2 [] [] op
      (r, a)) (initRib c.shards, 1)
  let w0 : WorldR := { rib := rib0, st := establish c.sess (hideVpn rib0), nextAttrId := aid0,
                       ppol := c.ppol0, gpol := c.gpol0 }
  let w1 := c.ops.foldl (WorldR.step c i) w0
  let w2 := WorldR.step c i w1 (.deliver w1.queue.length)
  let st := w2.st.flush
  ⟨st.reuse, st.overtaken, w2.flushes, w2.quiet, st.mirror, freshDumpR st.sess w2.rib w2.phase i⟩

def run01 (c : Case01) : Obs01 :=
  match c.rtc with
  | none => run01Plain c
  | some i => run01R c i

end Rbgp.Export
