/- Term encoding of the C01 cases / observations (shared syntax with harness/daemon/c01.rs). -/
import Rbgp.Export.Codec
import Rbgp.Export.Pipeline
namespace Rbgp.Export.Codec01
open Rbgp Rbgp.Term Rbgp.Export Rbgp.Export.Codec

def idx? (n : Nat) (t : Term) : Option Nat := do
  let i ← asNat? t
  if i < n then some i else none

/-- is the prefix (as the model holds it: prefix, slot = 3 * shard + family) an IPv6 / a VPNv4 one? -/
def isV6 (p : Net × Nat) : Bool := p.2 % 3 = 1
def isVpn (p : Net × Nat) : Bool := p.2 % 3 = 2

def opOf? (srcs : List Source) (pfxs : List (Net × Nat)) (naset npol : Nat) (pre : Bool) : Term → Option Op
  | .list [.atom "ann", s, p, rpid, a, nh] => do
      let nsrc := srcs.length
      let npfx := pfxs.length
      let nh ← nhOf? nh
      let p ← idx? npfx p
      let six := match pfxs[p]? with | some x => isV6 x | none => false
      -- the next hop is of the prefix's family
      match nh, six with
      | .v4 _, false => pure (.ann (← idx? nsrc s) p (← nat32? rpid) (← idx? naset a) nh)
      | .v6 _, true => pure (.ann (← idx? nsrc s) p (← nat32? rpid) (← idx? naset a) nh)
      | _, _ => none
  | .atom "rtceor" => if pre then none else some .rtceor
  | .list [.atom "wd", s, p, rpid] => do let nsrc := srcs.length; pure (.wd (← idx? nsrc s) (← idx? pfxs.length p) (← nat32? rpid))
  | .list [.atom "down", s] => do pure (.down (← idx? srcs.length s))
  | .list [.atom "llgr", s] => do
      if pre then none
      let i ← idx? srcs.length s
      match srcs[i]? with
      | some src => if src.kind = .peer then pure (.llgr i) else none
      | none => none
  | .list [.atom "nh", a, up] => do
      if pre then none
      pure (.nh (← nat32? a) (← asBool? up))
  | .list [.atom "reset", k] =>
      if pre then none else
      match k with
      | .atom "none" => some (.reset none)
      | k => (idx? npol k).map (fun i => .reset (some i))
  | .list [.atom "greset", k] =>
      if pre then none else
      match k with
      | .atom "none" => some (.greset none)
      | k => (idx? npol k).map (fun i => .greset (some i))
  | .list [.atom "deliver", n] => if pre then none else (asNat? n).map .deliver
  | .atom "flush" => if pre then none else some .flush
  | _ => none

/-- `(addr len shard)` an IPv4 prefix, `(6 addr len shard)` an IPv6 one (addresses from 2^32 up, so
    that the two families do not meet as numbers).  Every shard has one RIB per family with its own
    id allocator: the model keeps them as separate shards, slot `3 * shard + family`; `(v rd addr len shard)` is a VPNv4 prefix (third family). -/
def pfxOf? (k : Nat) : Term → Option (Net × Nat)
  | .list [a, l, s] => do
      let a ← nat32? a
      let l ← asNat? l
      let s ← asNat? s
      if l ≤ 32 ∧ s < k ∧ a % 2 ^ (32 - l) = 0 then some ((a, l), 3 * s) else none
  | .list [.atom "6", a, l, s] => do
      let a ← asNat? a
      let l ← asNat? l
      let s ← asNat? s
      if a < VPN_BASE ∧ U32 ≤ a ∧ l ≤ 128 ∧ s < k ∧ a % 2 ^ (128 - l) = 0 then some ((a, l), 3 * s + 1) else none
  | .list [.atom "v", rd, a, l, s] => do
      -- VPNv4: route distinguisher 65000:rd (type 0), one label
      let rd ← nat32? rd
      let a ← nat32? a
      let l ← asNat? l
      let s ← asNat? s
      if l ≤ 32 ∧ s < k ∧ a % 2 ^ (32 - l) = 0 then
        some ((VPN_BASE + (65000 * U32 + rd) * U32 + a, l), 3 * s + 2) else none
  | _ => none

def polNoNh : Option Policy → Bool
  | some p => p.nh.isNone
  | none => true

/-- a second observing neighbour on the same fan-out: its own session parameters and own export
    policy assignment; the global policy, the RIB operations, deliveries and flushes are shared, the
    first neighbour's own `(reset k)` does not concern it -/
def secondOf? (c : Case01) (dual : Bool) : Term → Option (Option Case01)
  | .atom "none" => some none
  | .list [ctx, sess, .list [.atom "pol0", pol]] => do
      let s ← sessOf? ctx pol sess
      let ppol := s.policy
      let s : Sess := { s with policy := ppol.or c.gpol0 }
      if s.fam ≠ .ipv4 ∨ s.remoteAddr = c.sess.remoteAddr then none else
      if dual && !((s.ctx.role = .ibgp ∨ s.ctx.role = .rrClient ∨ s.ctx.role = .rsClient) && polNoNh ppol) then none else
      pure (some { c with sess := s, ppol0 := ppol,
                          ops := c.ops.filter (fun op => match op with | .reset _ => false | _ => true) })
  | _ => none

/-- the case as seen by the first observing neighbour, and by the second one if there is one -/
def casesOf? : Term → Option (Case01 × Option Case01)
  | .list [.atom "c01", .list [.atom "shards", k], ctx, sess, .list [.atom "pol0", pol], .list [.atom "gpol0", gpol],
           .list [.atom "imp", imp], .list [.atom "nbr2", nbr2], .list [.atom "rtc", rtc],
           .list (.atom "srcs" :: srcs), .list (.atom "pfxs" :: pfxs), .list (.atom "asets" :: asets),
           .list (.atom "pols" :: pols), .list (.atom "pre" :: pre), .list (.atom "ops" :: ops)] => do
      let k ← asNat? k
      if k = 0 ∨ k > 4 then none else
      let s ← sessOf? ctx pol sess
      let gpol ← policyOf? gpol
      let ppol := s.policy
      let s : Sess := { s with policy := ppol.or gpol }
      if s.fam ≠ .ipv4 then none else
      let srcs ← srcs.mapM sourceOf?
      let pfxs ← pfxs.mapM (pfxOf? k)
      if !(pfxs.map (·.1)).Nodup then none else
      let asets ← asets.mapM attrsOf?
      let pols ← pols.mapM policyOf?
      let imp ← match imp with
        | .atom "none" => some none
        | .list [.atom "origin", v] => do let v ← asNat? v; if v < 256 then some (some v) else none
        | _ => none
      -- IPv6 prefixes only towards receivers whose next hop is left alone (the session has one
      -- local address) and with policies that do not set one
      let rtc ← match rtc with
        | .atom "off" => some none
        | .atom "all" => some (some RtcInterest.all)
        | .list (.atom "rts" :: l) => do
            let l ← l.mapM asBytes?
            if l.all (fun x => x.length = 8) then some (some (RtcInterest.rts l)) else none
        | _ => none
      -- VPN prefixes and the End-of-RIB operation belong to RTC sessions; those have one observer
      if (pfxs.any isVpn && rtc.isNone) then none else
      let dual := pfxs.any isV6 || pfxs.any isVpn
      if dual && !((s.ctx.role = .ibgp ∨ s.ctx.role = .rrClient ∨ s.ctx.role = .rsClient) &&
                   polNoNh ppol && polNoNh gpol && pols.all polNoNh) then none else
      let pre ← pre.mapM (opOf? srcs pfxs asets.length pols.length true)
      let ops ← ops.mapM (opOf? srcs pfxs asets.length pols.length false)
      if rtc.isNone && ops.any (fun op => op = .rtceor) then none else
      let c : Case01 := ⟨3 * k, s, ppol, gpol, srcs, pfxs, asets, pols, imp, rtc, pre, ops⟩
      let c2 ← secondOf? c dual nbr2
      if rtc.isSome && c2.isSome then none else
      pure (c, c2)
  | _ => none

def caseOf? (t : Term) : Option Case01 := (casesOf? t).map (·.1)

def routeLt (a b : Route) : Bool :=
  a.net.1 < b.net.1 || (a.net.1 = b.net.1 && (a.net.2 < b.net.2 || (a.net.2 = b.net.2 && a.pid < b.pid)))

def insRoute (r : Route) : List Route → List Route
  | [] => [r]
  | x :: xs => if routeLt r x then r :: x :: xs else x :: insRoute r xs

def sortMirror (m : Mirror) : Mirror := m.foldr insRoute []

def routeT (r : Route) : Term :=
  if r.amb then list [nat r.net.1, nat r.net.2, nat r.pid, sym "amb"]
  else list [nat r.net.1, nat r.net.2, nat r.pid, nhOptT r.nh, attrsT (sortByCode r.attrs)]

def mirrorT (tagName : String) (m : Mirror) : Term := list (sym tagName :: (sortMirror m).map routeT)

def routeOf? : Term → Option Route
  | .list [a, l, pid, .atom "amb"] => do
      pure ⟨((← asNat? a), (← asNat? l)), (← asNat? pid), none, [], true⟩
  | .list [a, l, pid, nh, as] => do
      pure ⟨((← asNat? a), (← asNat? l)), (← asNat? pid), (← nhOptOf? nh), (← attrsOf? as), false⟩
  | _ => none

def mirrorOf? (tagName : String) : Term → Option Mirror
  | .list (.atom t :: rs) => if t = tagName then rs.mapM routeOf? else none
  | _ => none

def quietT (q : Quiet) : Term :=
  tag "q" [nat q.nth, nat q.reuse, nat q.overtaken, mirrorT "m" q.mirror, mirrorT "d" q.dump]
def quietOf? : Term → Option Quiet
  | .list [.atom "q", n, r, ov, m, d] => do
      pure ⟨(← asNat? n), (← asNat? r), (← asNat? ov), (← mirrorOf? "m" m), (← mirrorOf? "d" d)⟩
  | _ => none

def obsT (o : Obs01) : Term :=
  tag "obs" [tag "reuse" [nat o.reuse], tag "overtaken" [nat o.overtaken], list (sym "flushes" :: o.flushes.map (mirrorT "m")),
             list (sym "quiet" :: o.quiet.map quietT), mirrorT "final" o.final, mirrorT "dump" o.dump]

def obsOf? : Term → Option Obs01
  | .list [.atom "obs", .list [.atom "reuse", n], .list [.atom "overtaken", ov], .list (.atom "flushes" :: fs),
           .list (.atom "quiet" :: qs), fin, dump] => do
      pure ⟨(← asNat? n), (← asNat? ov), (← fs.mapM (mirrorOf? "m")), (← qs.mapM quietOf?), (← mirrorOf? "final" fin),
            (← mirrorOf? "dump" dump)⟩
  | _ => none

/-- observation of a case with two observing neighbours -/
def pairT (a : Obs01) (b : Option Obs01) : Term :=
  match b with
  | none => obsT a
  | some b => tag "pair" [obsT a, obsT b]
def pairOf? : Term → Option (Obs01 × Option Obs01)
  | .list [.atom "pair", a, b] => do pure ((← obsOf? a), some (← obsOf? b))
  | t => (obsOf? t).map (fun a => (a, none))

end Rbgp.Export.Codec01
