/- Term encoding of the C01 cases / observations (shared syntax with harness/daemon/c01.rs). -/
import Rbgp.Export.Codec
import Rbgp.Export.Pipeline
namespace Rbgp.Export.Codec01
open Rbgp Rbgp.Term Rbgp.Export Rbgp.Export.Codec

def idx? (n : Nat) (t : Term) : Option Nat := do
  let i ← asNat? t
  if i < n then some i else none

def opOf? (srcs : List Source) (npfx naset npol : Nat) (pre : Bool) : Term → Option Op
  | .list [.atom "ann", s, p, rpid, a, nh] => do
      let nsrc := srcs.length
      let nh ← nhOf? nh
      match nh with
      | .v4 _ => pure (.ann (← idx? nsrc s) (← idx? npfx p) (← nat32? rpid) (← idx? naset a) nh)
      | _ => none
  | .list [.atom "wd", s, p, rpid] => do let nsrc := srcs.length; pure (.wd (← idx? nsrc s) (← idx? npfx p) (← nat32? rpid))
  | .list [.atom "down", s] => do pure (.down (← idx? srcs.length s))
  | .list [.atom "llgr", s] => do
      if pre then none
      let i ← idx? srcs.length s
      match srcs[i]? with
      | some src => if src.kind = .peer then pure (.llgr i) else none
      | none => none
  | .list [.atom "nh", a, up] => do
      if pre then none
      pure (.nh (← nat32? a) (← asBool? up))
  | .list [.atom "reset", k] =>
      if pre then none else
      match k with
      | .atom "none" => some (.reset none)
      | k => (idx? npol k).map (fun i => .reset (some i))
  | .list [.atom "deliver", n] => if pre then none else (asNat? n).map .deliver
  | .atom "flush" => if pre then none else some .flush
  | _ => none

def pfxOf? (k : Nat) : Term → Option (Net × Nat)
  | .list [a, l, s] => do
      let a ← nat32? a
      let l ← asNat? l
      let s ← asNat? s
      if l ≤ 32 ∧ s < k ∧ a % 2 ^ (32 - l) = 0 then some ((a, l), s) else none
  | _ => none

def caseOf? : Term → Option Case01
  | .list [.atom "c01", .list [.atom "shards", k], ctx, sess, .list [.atom "pol0", pol], .list [.atom "imp", imp],
           .list (.atom "srcs" :: srcs), .list (.atom "pfxs" :: pfxs), .list (.atom "asets" :: asets),
           .list (.atom "pols" :: pols), .list (.atom "pre" :: pre), .list (.atom "ops" :: ops)] => do
      let k ← asNat? k
      if k = 0 ∨ k > 4 then none else
      let s ← sessOf? ctx pol sess
      if s.fam ≠ .ipv4 then none else
      let srcs ← srcs.mapM sourceOf?
      let pfxs ← pfxs.mapM (pfxOf? k)
      if !(pfxs.map (·.1)).Nodup then none else
      let asets ← asets.mapM attrsOf?
      let pols ← pols.mapM policyOf?
      let imp ← match imp with
        | .atom "none" => some none
        | .list [.atom "origin", v] => do let v ← asNat? v; if v < 256 then some (some v) else none
        | _ => none
      let pre ← pre.mapM (opOf? srcs pfxs.length asets.length pols.length true)
      let ops ← ops.mapM (opOf? srcs pfxs.length asets.length pols.length false)
      pure ⟨k, s, srcs, pfxs, asets, pols, imp, pre, ops⟩
  | _ => none

def routeLt (a b : Route) : Bool :=
  a.net.1 < b.net.1 || (a.net.1 = b.net.1 && (a.net.2 < b.net.2 || (a.net.2 = b.net.2 && a.pid < b.pid)))

def insRoute (r : Route) : List Route → List Route
  | [] => [r]
  | x :: xs => if routeLt r x then r :: x :: xs else x :: insRoute r xs

def sortMirror (m : Mirror) : Mirror := m.foldr insRoute []

def routeT (r : Route) : Term :=
  if r.amb then list [nat r.net.1, nat r.net.2, nat r.pid, sym "amb"]
  else list [nat r.net.1, nat r.net.2, nat r.pid, nhOptT r.nh, attrsT (sortByCode r.attrs)]

def mirrorT (tagName : String) (m : Mirror) : Term := list (sym tagName :: (sortMirror m).map routeT)

def routeOf? : Term → Option Route
  | .list [a, l, pid, .atom "amb"] => do
      pure ⟨((← asNat? a), (← asNat? l)), (← asNat? pid), none, [], true⟩
  | .list [a, l, pid, nh, as] => do
      pure ⟨((← asNat? a), (← asNat? l)), (← asNat? pid), (← nhOptOf? nh), (← attrsOf? as), false⟩
  | _ => none

def mirrorOf? (tagName : String) : Term → Option Mirror
  | .list (.atom t :: rs) => if t = tagName then rs.mapM routeOf? else none
  | _ => none

def obsT (o : Obs01) : Term :=
  tag "obs" [tag "reuse" [nat o.reuse], tag "overtaken" [nat o.overtaken], list (sym "flushes" :: o.flushes.map (mirrorT "m")),
             mirrorT "final" o.final, mirrorT "dump" o.dump]

def obsOf? : Term → Option Obs01
  | .list [.atom "obs", .list [.atom "reuse", n], .list [.atom "overtaken", ov], .list (.atom "flushes" :: fs), fin, dump] => do
      pure ⟨(← asNat? n), (← asNat? ov), (← fs.mapM (mirrorOf? "m")), (← mirrorOf? "final" fin), (← mirrorOf? "dump" dump)⟩
  | _ => none

end Rbgp.Export.Codec01
