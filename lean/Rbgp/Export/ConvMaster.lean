/-
  Rbgp.Export.ConvMaster — C01, part 7: the master theorem for the composed model
  (`run01`: RIB → change queue → session → flush, then the fresh dump).

  The session-level theorems need the delivered changes to be admissible for the session's view
  and the final view to agree with the RIB (that the change stream reproduces the RIB is C06's
  subject).  Here these hypotheses are *computed along the run* by a ghost (`okRun`), so that the
  master theorem reads: whenever `okRun c` holds, the C01 reference checker accepts `run01 c`.
  `okRun` is decidable and is evaluated by the driver on every generated case.
-/
import Rbgp.Export.ConvAHistory
import Rbgp.Export.Spec01
namespace Rbgp.Export.Conv
open Rbgp.Export Rbgp.Export.ConvA

/-! ## decidable versions of the hypotheses -/

def admissibleB (V : View) (u : Change Net) : Bool :=
  V.all (fun x => (!(decide (x.id = u.destId)) || decide (x.net = u.net)) &&
                  (!(decide (x.net = u.net)) || decide (x.id = u.destId))) &&
  (u.bestChanged || decide ((V.paths u.net).head? = u.paths.head?))

theorem admissibleB_sound {V : View} {u : Change Net} (h : admissibleB V u = true) : Admissible V u := by
  simp only [admissibleB, Bool.and_eq_true, List.all_eq_true, Bool.or_eq_true, Bool.not_eq_true',
    decide_eq_false_iff_not, decide_eq_true_eq] at h
  refine ⟨?_, ?_, ?_⟩
  · intro x hx hxi
    rcases (h.1 x hx).1 with h1 | h1
    · exact absurd hxi h1
    · exact h1
  · intro x hx hxn
    rcases (h.1 x hx).2 with h1 | h1
    · exact absurd hxn h1
    · exact h1
  · intro hb
    rcases h.2 with h2 | h2
    · rw [hb] at h2; cases h2
    · exact h2

def snapshotB (cs : List (Change Net)) : Bool :=
  decide ((cs.map (·.net)).Nodup) && decide ((cs.map (·.destId)).Nodup) &&
  cs.all (fun c => !c.paths.isEmpty && c.bestChanged)

theorem snapshotB_sound {cs : List (Change Net)} (h : snapshotB cs = true) : Snapshot cs := by
  simp only [snapshotB, Bool.and_eq_true, decide_eq_true_eq, List.all_eq_true, Bool.not_eq_true'] at h
  refine ⟨h.1.1, h.1.2, ?_, ?_⟩
  · intro c hc hp
    have := (h.2 c hc).1
    rw [hp] at this; simp at this
  · intro c hc; exact (h.2 c hc).2

def snapMatchesB (V : View) (cs : List (Change Net)) : Bool :=
  snapshotB cs && cs.all (fun c => decide (V.idOf c.net = some c.destId)) &&
  V.all (fun x => cs.any (fun c => decide (c.net = x.net)))

theorem snapMatchesB_sound {V : View} {cs : List (Change Net)} (h : snapMatchesB V cs = true) : SnapMatches V cs := by
  simp only [snapMatchesB, Bool.and_eq_true, List.all_eq_true, decide_eq_true_eq, List.any_eq_true] at h
  exact ⟨snapshotB_sound h.1.1, h.1.2, h.2⟩

def headsMatchB (V : View) (cs : List (Change Net)) : Bool :=
  V.all (fun x => decide (((viewOf cs).paths x.net).head? = x.paths.head?)) &&
  cs.all (fun c => decide ((V.paths c.net).head? = c.paths.head?))

theorem viewOf_find (cs : List (Change Net)) (net : Net) (e : VEntry) (h : (viewOf cs).find net = some e) :
    ∃ c ∈ cs, c.net = net ∧ e = ⟨c.net, c.destId, c.paths⟩ := by
  have hm := View.find_mem _ net e h
  rcases List.mem_map.mp hm.1 with ⟨c, hc, rfl⟩
  exact ⟨c, hc, hm.2, rfl⟩

theorem headsMatchB_sound {V : View} (hw : V.wf) {cs : List (Change Net)} (h : headsMatchB V cs = true) (net : Net) :
    (V.paths net).head? = ((viewOf cs).paths net).head? := by
  simp only [headsMatchB, Bool.and_eq_true, List.all_eq_true, decide_eq_true_eq] at h
  cases hf : V.find net with
  | some x =>
    have hxm := View.find_mem V net x hf
    have := h.1 x hxm.1
    rw [hxm.2] at this
    simp only [View.paths, hf, Option.map_some, Option.getD_some]
    exact this.symm
  | none =>
    have hp : V.paths net = [] := by simp [View.paths, hf]
    rw [hp]
    cases hg : (viewOf cs).find net with
    | none => simp [View.paths, hg]
    | some e =>
      obtain ⟨c, hc, hcn, rfl⟩ := viewOf_find cs net e hg
      have := h.2 c hc
      rw [hcn, hp] at this
      simp only [View.paths, hg, Option.map_some, Option.getD_some]
      exact this

/-! ### the same for an add-path session -/

def admAB (V : View) (u : Change Net) : Bool :=
  V.all (fun x => (!(decide (x.id = u.destId)) || decide (x.net = u.net)) &&
                  (!(decide (x.net = u.net)) || decide (x.id = u.destId))) &&
  (u.anyChanged || decide (V.paths u.net = u.paths)) &&
  u.paths.all (fun p => (V.paths u.net).all (fun q =>
    !(decide (p.pid = q.pid)) || decide (u.replaced = some p.pid) || decide (p = q))) &&
  decide ((u.paths.map (·.pid)).Nodup)

theorem admAB_sound {V : View} {u : Change Net} (h : admAB V u = true) : AdmA V u false := by
  simp only [admAB, Bool.and_eq_true, List.all_eq_true, Bool.or_eq_true, Bool.not_eq_true',
    decide_eq_false_iff_not, decide_eq_true_eq] at h
  obtain ⟨⟨⟨hid, hany⟩, hsame⟩, hnd⟩ := h
  refine ⟨?_, ?_, ?_, ?_, hnd⟩
  · intro x hx hxi
    rcases (hid x hx).1 with h1 | h1
    · exact absurd hxi h1
    · exact h1
  · intro x hx hxn
    rcases (hid x hx).2 with h1 | h1
    · exact absurd hxn h1
    · exact h1
  · intro hb
    rcases hany with h2 | h2
    · rw [hb] at h2; cases h2
    · exact h2
  · intro _ p hp q hq hpq hrep
    rcases hsame p hp q hq with (h1 | h1) | h1
    · exact absurd hpq h1
    · exact absurd h1 hrep
    · exact h1

def snapshotAB (cs : List (Change Net)) : Bool :=
  snapshotB cs && cs.all (fun c => c.anyChanged && decide ((c.paths.map (·.pid)).Nodup))

theorem snapshotAB_sound {cs : List (Change Net)} (h : snapshotAB cs = true) : SnapshotA cs := by
  simp only [snapshotAB, Bool.and_eq_true, List.all_eq_true, decide_eq_true_eq] at h
  exact ⟨snapshotB_sound h.1, fun c hc => (h.2 c hc).1, fun c hc => (h.2 c hc).2⟩

def snapMatchesAB (V : View) (cs : List (Change Net)) : Bool :=
  snapshotAB cs && cs.all (fun c => decide (V.idOf c.net = some c.destId)) &&
  V.all (fun x => cs.any (fun c => decide (c.net = x.net)))

theorem snapMatchesAB_sound {V : View} {cs : List (Change Net)} (h : snapMatchesAB V cs = true) : SnapMatchesA V cs := by
  simp only [snapMatchesAB, Bool.and_eq_true, List.all_eq_true, decide_eq_true_eq, List.any_eq_true] at h
  exact ⟨snapshotAB_sound h.1.1, h.1.2, h.2⟩

def pathsMatchB (V : View) (cs : List (Change Net)) : Bool :=
  V.all (fun x => decide ((viewOf cs).paths x.net = x.paths)) &&
  cs.all (fun c => decide (V.paths c.net = c.paths))

theorem pathsMatchB_sound {V : View} (hw : V.wf) {cs : List (Change Net)} (h : pathsMatchB V cs = true) (net : Net) :
    V.paths net = (viewOf cs).paths net := by
  simp only [pathsMatchB, Bool.and_eq_true, List.all_eq_true, decide_eq_true_eq] at h
  cases hf : V.find net with
  | some x =>
    have hxm := View.find_mem V net x hf
    have := h.1 x hxm.1
    rw [hxm.2] at this
    simp only [View.paths, hf, Option.map_some, Option.getD_some]
    exact this.symm
  | none =>
    have hp : V.paths net = [] := by simp [View.paths, hf]
    rw [hp]
    cases hg : (viewOf cs).find net with
    | none => simp [View.paths, hg]
    | some e =>
      obtain ⟨c, hc, hcn, rfl⟩ := viewOf_find cs net e hg
      have := h.2 c hc
      rw [hcn, hp] at this
      simp only [View.paths, hg, Option.map_some, Option.getD_some]
      exact this

/-- the check of a delivered change / of a refresh snapshot, by session mode -/
def admChk (mx : Nat) (V : View) (u : Change Net) : Bool := if mx = 1 then admissibleB V u else admAB V u
def snapChk (mx : Nat) (cs : List (Change Net)) : Bool := if mx = 1 then snapshotB cs else snapshotAB cs
def snapMatchesChk (mx : Nat) (V : View) (cs : List (Change Net)) : Bool :=
  if mx = 1 then snapMatchesB V cs else snapMatchesAB V cs
def viewMatchChk (mx : Nat) (V : View) (cs : List (Change Net)) : Bool :=
  if mx = 1 then headsMatchB V cs else pathsMatchB V cs

/-! ## the ghost that accompanies a run -/

structure Gh where
  V : View
  ok : Bool
  stale : Bool
  okq : Bool := true     -- every flush that left the channel empty satisfied `quietOkB`

def ghostEv (rib : Rib) (mx : Nat) (g : Gh) : Ev → Gh
  | .change c => { g with V := g.V.update c.net c.destId c.paths, ok := g.ok && admChk mx g.V c }
  | .softReset =>
      let cs := rib.flatMap (fun s => s.collect (collectLimit mx))
      { g with V := viewRefresh g.V cs, ok := g.ok && snapMatchesChk mx g.V cs, stale := false }

def ghostDeliverN (rib : Rib) (mx : Nat) : Nat → List Ev → Gh → Gh
  | 0, _, g => g
  | _ + 1, [], g => g
  | n + 1, e :: q, g => ghostDeliverN rib mx n q (ghostEv rib mx g e)

/-- prefixes some source announces at the end of the history `hist`, per the history itself -/
def liveNetsAt (c : Case01) (hist : List Op) : List Net :=
  (Spec01.liveAnn c.srcs hist []).filterMap (fun x => (c.pfxs[x.2.1]?).map (·.1))

/-- the hypotheses under which the neighbour's view and a fresh dump are proved equal at a point of
    the run: the ghost says ok, no policy change waits for its soft reset, the RIB snapshot is
    consistent, carries the view's paths (best paths without add-path) and only announced prefixes -/
def pointOkB (c : Case01) (hist : List Op) (w : World) (g : Gh) : Bool :=
  g.ok && !g.stale &&
  snapChk c.sess.max (snapshotOf w.st.sess w.rib) &&
  viewMatchChk c.sess.max g.V (snapshotOf w.st.sess w.rib) &&
  (freshDump w.st.sess w.rib).all (fun r => (liveNetsAt c hist).contains r.net)

def ghostStep (c : Case01) (w : World) (g : Gh) : Op → Gh
  | .llgr _ => { g with ok := false }
  | .reset _ => { g with stale := true }
  | .greset _ => { g with stale := true }
  | .deliver n => ghostDeliverN w.rib c.sess.max n w.queue g
  | .flush => { g with okq := g.okq &&
      (!w.queue.isEmpty || pointOkB c (c.pre ++ Spec01.uptoFlush c.ops w.flushes.length) w g) }
  | _ => g

def stepWG (c : Case01) (s : World × Gh) (op : Op) : World × Gh :=
  (World.step c s.1 op, ghostStep c s.1 s.2 op)

theorem ghostEv_ok (rib : Rib) (mx : Nat) (g : Gh) (e : Ev) (h : (ghostEv rib mx g e).ok = true) : g.ok = true := by
  cases e <;> simp only [ghostEv, Bool.and_eq_true] at h <;> exact h.1

theorem ghostDeliverN_ok (rib : Rib) (mx : Nat) (n : Nat) (q : List Ev) (g : Gh)
    (h : (ghostDeliverN rib mx n q g).ok = true) : g.ok = true := by
  induction n generalizing q g with
  | zero => exact h
  | succ n ih =>
    cases q with
    | nil => exact h
    | cons e rest => exact ghostEv_ok rib mx g e (ih _ _ h)

theorem ghostStep_ok (c : Case01) (w : World) (g : Gh) (op : Op) (h : (ghostStep c w g op).ok = true) : g.ok = true := by
  cases op with
  | llgr s => simp [ghostStep] at h
  | deliver n => exact ghostDeliverN_ok _ _ _ _ _ h
  | _ => exact h

/-! ## the invariant of a run -/

/-- the session invariant in the session's mode, with the view `V`; unless a policy change is
    waiting for its soft reset (`stale`), everything in the view was last processed under the
    current policy -/
def SI (mx : Nat) (V : View) (st : SessState) (stale : Bool) : Prop :=
  st.sess.max = mx ∧
  ((mx = 1 ∧ ∃ E, SInv E V st ∧ (stale = false → ∀ x ∈ V, E x.net = st.sess.exp)) ∨
   (mx ≠ 1 ∧ ∃ E, SInvA E V st ∧ (stale = false → ∀ x ∈ V, ∀ w, E x.net w = st.sess.exp)))

/-- `J mx w g`: as long as the ghost says ok, the session state satisfies the session invariant for
    the ghost's view -/
def J (mx : Nat) (w : World) (g : Gh) : Prop :=
  g.ok = true → w.llgrSrcs = [] ∧ SI mx g.V w.st g.stale

theorem withFlags_nil (c : Change Net) : withFlags [] c = c := by
  simp only [withFlags, List.contains_nil, Bool.or_false]
  have : c.paths.map (fun p => { p with src := { p.src with llgr := p.src.llgr } }) = c.paths := by
    induction c.paths with
    | nil => rfl
    | cons p rest ih => simp only [List.map_cons, ih]
  rw [this]

/-- a skipped or processed change leaves everything in the view current (non-add-path) -/
theorem stepE_current (E : Net → Exp) (V : View) (u : Change Net) (e : Exp) (ha : Admissible V u)
    (hc : ∀ x ∈ V, E x.net = e) : ∀ x ∈ V.update u.net u.destId u.paths, stepE E u e x.net = e := by
  intro x hx
  simp only [stepE]
  by_cases hb : u.bestChanged = true
  · simp only [hb, if_true, setE]
    split
    · rfl
    · rename_i hne
      rcases (View.mem_update _ _ _ _ _).mp hx with ⟨hv, _⟩ | ⟨_, rfl⟩
      · exact hc x hv
      · exact absurd rfl hne
  · simp only [hb, Bool.false_eq_true, if_false]
    rcases (View.mem_update _ _ _ _ _).mp hx with ⟨hv, _⟩ | ⟨hps, rfl⟩
    · exact hc x hv
    · have hbf : u.bestChanged = false := by cases h : u.bestChanged <;> simp_all
      have hh := ha.bestSame hbf
      cases hf : V.find u.net with
      | none =>
        simp only [View.paths, hf, Option.map_none, Option.getD_none, List.head?_nil] at hh
        cases hup : u.paths with
        | nil => exact absurd hup hps
        | cons a r => rw [hup] at hh; simp at hh
      | some y =>
        have hym := View.find_mem V u.net y hf
        have := hc y hym.1
        rw [hym.2] at this; exact this

/-- one delivered change -/
theorem si_change (mx : Nat) (V : View) (st : SessState) (stale : Bool) (h : SI mx V st stale)
    (c0 : Change Net) (hchk : admChk mx V c0 = true) (rib : Rib) (rest : List Ev) :
    SI mx (V.update c0.net c0.destId c0.paths) (st.deliver rib rest [] (.change c0)) stale := by
  obtain ⟨hmx, hmode⟩ := h
  simp only [SessState.deliver, withFlags_nil]
  refine ⟨hmx, ?_⟩
  rcases hmode with ⟨h1, E, S, hcur⟩ | ⟨h1, E, S, hcur⟩
  · left
    simp only [admChk, h1, if_true] at hchk
    have hadm := admissibleB_sound hchk
    have S1 : SInv E V { st with owner := (c0.destId, c0.net) :: st.owner.filter (·.1 ≠ c0.destId),
                                 reuse := if (match st.owner.find? (·.1 = c0.destId) with
                                              | some (_, n) => n != c0.net
                                              | none => false) then st.reuse + 1 else st.reuse } :=
      ⟨S.inv, S.buf, S.plain, S.mok⟩
    have hstep := sinv_handle' S1 c0 hadm false
    exact ⟨h1, _, hstep, fun hs => stepE_current E V c0 st.sess.exp hadm (hcur hs)⟩
  · right
    simp only [admChk, h1, if_false] at hchk
    have hadm := admAB_sound hchk
    have S1 : SInvA E V { st with owner := (c0.destId, c0.net) :: st.owner.filter (·.1 ≠ c0.destId),
                                  reuse := if (match st.owner.find? (·.1 = c0.destId) with
                                               | some (_, n) => n != c0.net
                                               | none => false) then st.reuse + 1 else st.reuse } :=
      ⟨S.inv, S.buf, S.mok⟩
    have hstep := sinv_handleA S1 c0 false hadm
    exact ⟨h1, _, hstep, fun hs => stepEA_current E V S.inv.vwf c0 st.sess.exp false hadm S.inv.ap (hcur hs)⟩

/-- one delivered soft reset / route refresh, the session having caught up with the RIB -/
theorem si_softReset (mx : Nat) (V : View) (st : SessState) (stale : Bool) (h : SI mx V st stale)
    (rib : Rib) (rest : List Ev)
    (hchk : snapMatchesChk mx V (rib.flatMap (fun s => s.collect (collectLimit mx))) = true) :
    SI mx (viewRefresh V (rib.flatMap (fun s => s.collect (collectLimit mx))))
      (st.deliver rib rest [] .softReset) false := by
  obtain ⟨hmx, hmode⟩ := h
  simp only [SessState.deliver]
  have hsess : (if rest.any Ev.isChange then { st with overtaken := st.overtaken + 1 } else st).sess = st.sess := by
    split <;> rfl
  have hsnap : snapshotOf (if rest.any Ev.isChange then { st with overtaken := st.overtaken + 1 } else st).sess rib =
      rib.flatMap (fun s => s.collect (collectLimit mx)) := by
    simp only [snapshotOf, hsess, hmx]
  have h2 : (refreshS (if rest.any Ev.isChange then { st with overtaken := st.overtaken + 1 } else st)
      (rib.flatMap (fun s => s.collect (collectLimit mx)))).sess = st.sess := by
    simp only [refreshS]; rw [sess_foldHandle, hsess]
  rw [refreshS_eq, hsnap]
  refine ⟨by rw [h2]; exact hmx, ?_⟩
  rcases hmode with ⟨h1, E, S, _⟩ | ⟨h1, E, S, _⟩
  · left
    subst h1
    simp only [snapMatchesChk, if_true] at hchk
    have hm := snapMatchesB_sound hchk
    have S1 : SInv E V (if rest.any Ev.isChange then { st with overtaken := st.overtaken + 1 } else st) := by
      split
      · exact ⟨S.inv, S.buf, S.plain, S.mok⟩
      · exact S
    have hstep := sinv_refresh S1 _ hm
    refine ⟨rfl, _, hstep, ?_⟩
    intro _ x hx
    rw [h2, hsess]
    exact refresh_current V _ hm st.sess.exp x hx
  · right
    simp only [snapMatchesChk, h1, if_false] at hchk
    have hm := snapMatchesAB_sound hchk
    have S1 : SInvA E V (if rest.any Ev.isChange then { st with overtaken := st.overtaken + 1 } else st) := by
      split
      · exact ⟨S.inv, S.buf, S.mok⟩
      · exact S
    have hstep := sinv_refreshA S1 _ hm
    refine ⟨h1, _, hstep, ?_⟩
    intro _ x hx w
    rw [h2, hsess]
    exact refresh_currentA V _ hm st.sess.exp x hx w

theorem si_flush (mx : Nat) (V : View) (st : SessState) (stale : Bool) (h : SI mx V st stale) :
    SI mx V st.flush stale := by
  obtain ⟨hmx, hmode⟩ := h
  refine ⟨hmx, ?_⟩
  rcases hmode with ⟨h1, E, S, hcur⟩ | ⟨h1, E, S, hcur⟩
  · exact Or.inl ⟨h1, E, sinv_flush S, hcur⟩
  · exact Or.inr ⟨h1, E, sinv_flushA S, hcur⟩

theorem si_policy (mx : Nat) (V : View) (st : SessState) (stale : Bool) (h : SI mx V st stale) (pol : Option Policy) :
    SI mx V { st with sess := { st.sess with policy := pol } } true := by
  obtain ⟨hmx, hmode⟩ := h
  refine ⟨hmx, ?_⟩
  rcases hmode with ⟨h1, E, S, _⟩ | ⟨h1, E, S, _⟩
  · exact Or.inl ⟨h1, E, ⟨S.inv, S.buf, S.plain, S.mok⟩, fun h => by cases h⟩
  · exact Or.inr ⟨h1, E, sinv_policyA S pol, fun h => by cases h⟩

theorem deliver_inv (rib : Rib) (mx : Nat) (n : Nat) :
    ∀ (q : List Ev) (st : SessState) (g : Gh),
      (g.ok = true → SI mx g.V st g.stale) →
      (ghostDeliverN rib mx n q g).ok = true →
      SI mx (ghostDeliverN rib mx n q g).V (deliverN rib [] n q st).2 (ghostDeliverN rib mx n q g).stale := by
  induction n with
  | zero => intro q st g hJ hok; exact hJ hok
  | succ n ih =>
    intro q st g hJ hok
    cases q with
    | nil => exact hJ hok
    | cons e rest =>
      simp only [ghostDeliverN, deliverN] at hok ⊢
      apply ih rest _ _ _ hok
      intro hok1
      have hok0 := ghostEv_ok rib mx g e hok1
      have h := hJ hok0
      cases e with
      | change c0 =>
        simp only [ghostEv, Bool.and_eq_true] at hok1 ⊢
        exact si_change mx g.V st g.stale h c0 hok1.2 rib rest
      | softReset =>
        simp only [ghostEv, Bool.and_eq_true] at hok1 ⊢
        exact si_softReset mx g.V st g.stale h rib rest hok1.2

theorem sess_flush' (st : SessState) : st.flush.sess = st.sess := rfl

theorem step_inv (c : Case01) (w : World) (g : Gh) (hJ : J c.sess.max w g) (op : Op) :
    J c.sess.max (World.step c w op) (ghostStep c w g op) := by
  intro hok
  have hok0 := ghostStep_ok c w g op hok
  obtain ⟨hl, S⟩ := hJ hok0
  cases op with
  | ann s p rpid a nh => exact ⟨by simp [World.step, hl], by simpa [World.step, ghostStep] using S⟩
  | wd s p rpid => exact ⟨by simp [World.step, hl], by simpa [World.step, ghostStep] using S⟩
  | down s => exact ⟨by simp [World.step, hl], by simpa [World.step, ghostStep] using S⟩
  | llgr s => simp [ghostStep] at hok
  | nh a up => exact ⟨by simp [World.step, hl], by simpa [World.step, ghostStep] using S⟩
  | rtceor => exact ⟨by simp [World.step, hl], by simpa [World.step, ghostStep] using S⟩
  | reset k =>
    refine ⟨by simp [World.step, hl], ?_⟩
    simp only [World.step, ghostStep]
    exact si_policy _ _ _ _ S _
  | greset k =>
    refine ⟨by simp [World.step, hl], ?_⟩
    simp only [World.step, ghostStep]
    exact si_policy _ _ _ _ S _
  | deliver n =>
    simp only [World.step, ghostStep, hl] at hok ⊢
    refine ⟨trivial, ?_⟩
    exact deliver_inv w.rib c.sess.max n w.queue w.st g (fun _ => S) hok
  | flush =>
    refine ⟨by simp [World.step, hl], ?_⟩
    simp only [World.step, ghostStep]
    exact si_flush _ _ _ _ S

theorem run_inv_WG (c : Case01) (ops : List Op) (s : World × Gh) (hJ : J c.sess.max s.1 s.2) :
    J c.sess.max (ops.foldl (stepWG c) s).1 (ops.foldl (stepWG c) s).2 := by
  induction ops generalizing s with
  | nil => exact hJ
  | cons op rest ih => exact ih _ (step_inv c s.1 s.2 hJ op)

theorem fold_fst (c : Case01) (ops : List Op) (s : World × Gh) :
    (ops.foldl (stepWG c) s).1 = ops.foldl (World.step c) s.1 := by
  induction ops generalizing s with
  | nil => rfl
  | cons op rest ih => simp only [List.foldl_cons]; rw [ih]; rfl

/-! ## the master theorem -/

def noLlgr (ops : List Op) : Bool := ops.all (fun op => match op with | .llgr _ => false | _ => true)

/-- the RIB the session is established on -/
def rib0Of (c : Case01) : Rib × Nat :=
  c.pre.foldl (fun (acc : Rib × Nat) op =>
      let (r, _, a) := ribOp c acc.1 acc.2 [] [] op
      (r, a)) (initRib c.shards, 1)

def world0 (c : Case01) : World :=
  { rib := (rib0Of c).1, st := establish c.sess (rib0Of c).1, nextAttrId := (rib0Of c).2,
    ppol := c.ppol0, gpol := c.gpol0 }

def gh0 (c : Case01) : Gh := { V := viewOf (snapshotOf c.sess (rib0Of c).1), ok := true, stale := false }

def finalWG (c : Case01) : World × Gh :=
  let s1 := c.ops.foldl (stepWG c) (world0 c, gh0 c)
  stepWG c s1 (.deliver s1.1.queue.length)

/-- prefixes some source currently announces, per the history itself -/
def liveNetsOf (c : Case01) : List Net := liveNetsAt c (c.pre ++ c.ops)

/-- The hypotheses of the session-level theorems, computed along the run (in the session's mode,
    with or without add-path): the neighbour did not negotiate RTC, no LLGR stale period, a consistent initial snapshot, every delivered
    change admissible for the view, every soft reset run on a snapshot of the view's destinations;
    and, at every flush that leaves the channel empty and at the end of the history (`pointOkB`):
    no policy change left without its soft reset, a consistent RIB snapshot whose paths (best paths,
    for a session without add-path) are the view's and whose prefixes are announced by some source. -/
def okRun (c : Case01) : Bool :=
  c.rtc.isNone &&
  noLlgr c.ops &&
  snapChk c.sess.max (snapshotOf c.sess (rib0Of c).1) &&
  (finalWG c).2.okq &&
  pointOkB c (c.pre ++ c.ops) (finalWG c).1 (finalWG c).2

theorem run01_eq (c : Case01) :
    run01Plain c = ⟨(finalWG c).1.st.flush.reuse, (finalWG c).1.st.flush.overtaken, (finalWG c).1.flushes,
               (finalWG c).1.quiet,
               (finalWG c).1.st.flush.mirror, freshDump (finalWG c).1.st.flush.sess (finalWG c).1.rib⟩ := by
  simp only [run01Plain, finalWG, stepWG, fold_fst, world0, rib0Of, gh0]

/-- two well-shaped mirrors that agree on every lookup pass the set comparison of the checker -/
theorem pointCheck_of_get_eq (c : Case01) (hist : List Op) (reuse overtaken : Nat) (final dump : Mirror) (sfx : String)
    (hf : MirrorOkA final) (hd : MirrorOkA dump)
    (hget : ∀ net w, Mirror.get final net w = Mirror.get dump net w)
    (hlive : ∀ r ∈ dump, (liveNetsAt c hist).contains r.net = true) :
    Spec01.pointCheck c hist reuse overtaken final dump sfx = .ok := by
  have hsub1 : ∀ r ∈ final, r ∈ dump := by
    intro r hr
    have := get_of_memA final hf r hr
    rw [hget r.net r.pid] at this
    exact (mem_of_get _ _ _ _ this).1
  have hsub2 : ∀ r ∈ dump, r ∈ final := by
    intro r hr
    have := get_of_memA dump hd r hr
    rw [← hget r.net r.pid] at this
    exact (mem_of_get _ _ _ _ this).1
  have hself : ∀ (m : Mirror), MirrorOkA m → ∀ r ∈ m, Spec01.sameRoute r r = true := by
    intro m hm r hr
    simp [Spec01.sameRoute, Spec01.sameKey, hm.2 r hr]
  have hk : ∀ r : Route, Spec01.sameKey r r = true := by intro r; simp [Spec01.sameKey]
  have c1 : (final.any (fun r => !(liveNetsAt c hist).contains r.net)) = false := by
    rw [Bool.eq_false_iff]; intro h
    obtain ⟨r, hr, hb⟩ := List.any_eq_true.mp h
    have := hlive r (hsub1 r hr)
    simp only [List.contains_eq_mem, decide_eq_true_eq] at this
    simp [this] at hb
  have c2 : (final.any (fun r => !dump.any (Spec01.sameKey r))) = false := by
    rw [Bool.eq_false_iff]; intro h
    obtain ⟨r, hr, hb⟩ := List.any_eq_true.mp h
    have : dump.any (Spec01.sameKey r) = true := List.any_eq_true.mpr ⟨r, hsub1 r hr, hk r⟩
    simp [this] at hb
  have c3 : (dump.any (fun r => !final.any (Spec01.sameKey r))) = false := by
    rw [Bool.eq_false_iff]; intro h
    obtain ⟨r, hr, hb⟩ := List.any_eq_true.mp h
    have : final.any (Spec01.sameKey r) = true := List.any_eq_true.mpr ⟨r, hsub2 r hr, hk r⟩
    simp [this] at hb
  have c4 : (final.any (fun r => !dump.any (Spec01.sameRoute r))) = false := by
    rw [Bool.eq_false_iff]; intro h
    obtain ⟨r, hr, hb⟩ := List.any_eq_true.mp h
    have : dump.any (Spec01.sameRoute r) = true :=
      List.any_eq_true.mpr ⟨r, hsub1 r hr, hself final hf r hr⟩
    simp [this] at hb
  have c5 : decide ((final.map (fun r => (r.net, r.pid))).Nodup) = true := by simpa using hf.1
  simp only [Spec01.pointCheck]
  have hl : (Spec01.liveAnn c.srcs hist []).filterMap (fun x => (c.pfxs[x.2.1]?).map (·.1)) = liveNetsAt c hist := rfl
  simp only [hl, c1, c2, c3, c4, c5, Bool.false_eq_true, if_false, Bool.not_true]

theorem mirrorOkA_of_ok (m : Mirror) (h : MirrorOk m) : MirrorOkA m := ⟨h.1, fun r hr => (h.2 r hr).2⟩

/-- a mirror written by a session without add-path holds path id 0 only -/
theorem get_nonzero (m : Mirror) (h : MirrorOk m) (net : Net) (w : Nat) (hw : w ≠ 0) : Mirror.get m net w = none := by
  cases hg : Mirror.get m net w with
  | none => rfl
  | some r =>
    have := mem_of_get m net w r hg
    exact absurd ((h.2 r this.1).1 ▸ this.2.2).symm hw

/-- At any point of a run at which the invariant and `pointOkB` hold, the flushed neighbour view
    passes the comparison with the fresh dump. -/
theorem point_ok (c : Case01) (hist : List Op) (W : World) (g : Gh) (hJ : J c.sess.max W g)
    (hp : pointOkB c hist W g = true) (reuse overtaken : Nat) (sfx : String) :
    Spec01.pointCheck c hist reuse overtaken W.st.flush.mirror (freshDump W.st.sess W.rib) sfx = .ok := by
  simp only [pointOkB, Bool.and_eq_true, Bool.not_eq_true'] at hp
  obtain ⟨⟨⟨⟨hok, hst⟩, hsF⟩, hview⟩, hlive⟩ := hp
  have hlive' : ∀ r ∈ freshDump W.st.sess W.rib, (liveNetsAt c hist).contains r.net = true :=
    fun r hr => (List.all_eq_true.mp hlive) r hr
  obtain ⟨_, hmax, hmode⟩ := hJ hok
  rcases hmode with ⟨hm, E, S, hcur⟩ | ⟨hm, E, S, hcur⟩
  · -- session without add-path
    have hcur' := hcur hst
    simp only [snapChk, viewMatchChk, hm, if_true] at hsF hview
    have hmax1 : W.st.sess.max = 1 := hmax.trans hm
    have hfin := sinv_flush S
    have Sd := sinv_establish W.st.sess hmax1 W.rib (snapshotB_sound hsF)
    have hdump := sinv_flush Sd
    have hokF : MirrorOk W.st.flush.mirror := by
      have := hfin.mok; simpa [mbOf, SessState.flush, PendingTx.drain] using this
    have hokD : MirrorOk (freshDump W.st.sess W.rib) := by
      have := hdump.mok
      simpa [mbOf, SessState.flush, PendingTx.drain, freshDump] using this
    apply pointCheck_of_get_eq
    · exact mirrorOkA_of_ok _ hokF
    · exact mirrorOkA_of_ok _ hokD
    rotate_left
    · exact hlive'
    intro net w
    by_cases hw : w = 0
    · subst hw
      have e1 := converged S net
      have e2 : Mirror.get (freshDump W.st.sess W.rib) net 0 =
          wantRoute W.st.sess.exp (viewOf (snapshotOf W.st.sess W.rib)) net 0 :=
        converged Sd net
      rw [e1, e2]
      have hE : wantRoute (E net) g.V net 0 = wantRoute W.st.sess.exp g.V net 0 := by
        cases hf : g.V.find net with
        | none =>
          rw [wantRoute_absent _ (S.inv.mode.2.2 net) _ _ hf, wantRoute_absent _ (by rw [exp_max]; exact hmax1) _ _ hf]
        | some x =>
          have hxm := View.find_mem _ net x hf
          have := hcur' x hxm.1
          rw [hxm.2] at this; rw [this]
      rw [hE]
      exact wantRoute_head _ hmax1 _ _ net (headsMatchB_sound S.inv.vwf hview net)
    · rw [get_nonzero _ hokF net w hw, get_nonzero _ hokD net w hw]
  · -- add-path session
    have hcur' := hcur hst
    simp only [snapChk, viewMatchChk, hm, if_false] at hsF hview
    have hmaxA : W.st.sess.max ≠ 1 := by rw [hmax]; exact hm
    have Sd := sinv_establishA W.st.sess hmaxA W.rib (snapshotAB_sound hsF)
    apply pointCheck_of_get_eq
    · exact flush_mirrorOkA S
    · exact flush_mirrorOkA Sd
    rotate_left
    · exact hlive'
    · intro net w
      have e1 := convergedA S net w
      have e2 := fresh_dumpA W.st.sess hmaxA W.rib (snapshotAB_sound hsF) net w
      have e3 := wantA_current E g.V W.st.sess.exp S.inv.ap
        (fun n x => (S.inv.winE n x).1) hcur' net w
      have e4 : wantRouteA W.st.sess.exp g.V net w =
          wantRouteA W.st.sess.exp (viewOf (snapshotOf W.st.sess W.rib)) net w := by
        simp only [wantRouteA]
        rw [pathsMatchB_sound S.inv.vwf hview net]
      exact (e1.trans (e3.trans e4)).trans e2.symm

/-- every flush recorded so far that left the channel empty passes the checker -/
def QOk (c : Case01) (w : World) (g : Gh) : Prop :=
  g.okq = true → ∀ q ∈ w.quiet, Spec01.quietCheck c q = .ok

theorem okq_mono (c : Case01) (w : World) (g : Gh) (op : Op) (h : (ghostStep c w g op).okq = true) : g.okq = true := by
  cases op with
  | deliver n =>
    simp only [ghostStep] at h
    -- delivery does not touch `okq`
    have : ∀ (n : Nat) (q : List Ev) (g : Gh), (ghostDeliverN w.rib c.sess.max n q g).okq = g.okq := by
      intro n
      induction n with
      | zero => intro q g; rfl
      | succ n ih =>
        intro q g
        cases q with
        | nil => rfl
        | cons e rest =>
          simp only [ghostDeliverN]
          rw [ih]
          cases e <;> rfl
    rw [this] at h; exact h
  | flush => simp only [ghostStep, Bool.and_eq_true] at h; exact h.1
  | _ => exact h

theorem step_q (c : Case01) (w : World) (g : Gh) (hJ : J c.sess.max w g) (hQ : QOk c w g) (op : Op) :
    QOk c (World.step c w op) (ghostStep c w g op) := by
  intro hokq
  have hq0 := okq_mono c w g op hokq
  cases op with
  | flush =>
    simp only [ghostStep, Bool.and_eq_true, Bool.or_eq_true, Bool.not_eq_true'] at hokq
    simp only [World.step]
    intro q hq
    by_cases he : w.queue.isEmpty = true
    · simp only [he, if_true, List.mem_append, List.mem_singleton] at hq
      rcases hq with hq | rfl
      · exact hQ hq0 q hq
      · have hp : pointOkB c (c.pre ++ Spec01.uptoFlush c.ops w.flushes.length) w g = true := by
          rcases hokq.2 with h | h
          · rw [he] at h; cases h
          · exact h
        have := point_ok c _ w g hJ hp w.st.flush.reuse w.st.flush.overtaken s!" at={w.flushes.length}"
        have hs : w.st.flush.sess = w.st.sess := rfl
        simp only [Spec01.quietCheck, hs]
        exact this
    · simp only [he, Bool.false_eq_true, if_false] at hq
      exact hQ hq0 q hq
  | ann s p rpid a nh => intro q hq; exact hQ hq0 q (by simpa [World.step] using hq)
  | wd s p rpid => intro q hq; exact hQ hq0 q (by simpa [World.step] using hq)
  | down s => intro q hq; exact hQ hq0 q (by simpa [World.step] using hq)
  | llgr s => intro q hq; exact hQ hq0 q (by simpa [World.step] using hq)
  | nh a up => intro q hq; exact hQ hq0 q (by simpa [World.step] using hq)
  | reset k => intro q hq; exact hQ hq0 q (by simpa [World.step] using hq)
  | greset k => intro q hq; exact hQ hq0 q (by simpa [World.step] using hq)
  | rtceor => intro q hq; exact hQ hq0 q (by simpa [World.step] using hq)
  | deliver n => intro q hq; exact hQ hq0 q (by simpa [World.step] using hq)

theorem run_inv_Q (c : Case01) (ops : List Op) (s : World × Gh) (hJ : J c.sess.max s.1 s.2) (hQ : QOk c s.1 s.2) :
    QOk c (ops.foldl (stepWG c) s).1 (ops.foldl (stepWG c) s).2 := by
  induction ops generalizing s with
  | nil => exact hQ
  | cons op rest ih => exact ih _ (step_inv c s.1 s.2 hJ op) (step_q c s.1 s.2 hJ hQ op)

/-- **Master theorem**: the C01 reference checker accepts every run of the model whose computed
    hypotheses hold, for a session with or without add-path: at every flush that leaves the channel
    empty and at the end of the history. -/
theorem check_run_ok (c : Case01) (h : okRun c = true) : Spec01.check c (run01 c) = .ok := by
  simp only [okRun, Bool.and_eq_true] at h
  obtain ⟨⟨⟨⟨hrtc, _⟩, hs0⟩, hokq⟩, hp⟩ := h
  have hplain : run01 c = run01Plain c := by
    simp only [run01]
    cases hc : c.rtc with
    | none => rfl
    | some i => rw [hc] at hrtc; cases hrtc
  rw [hplain]
  -- the invariant holds initially
  have J0 : J c.sess.max (world0 c) (gh0 c) := by
    intro _
    refine ⟨rfl, rfl, ?_⟩
    by_cases hm : c.sess.max = 1
    · left
      simp only [snapChk, hm, if_true] at hs0
      exact ⟨hm, fun _ => c.sess.exp, sinv_establish c.sess hm (rib0Of c).1 (snapshotB_sound hs0),
        fun _ x _ => by simp [world0, establish]⟩
    · right
      simp only [snapChk, hm, if_false] at hs0
      exact ⟨hm, fun _ _ => c.sess.exp, sinv_establishA c.sess hm (rib0Of c).1 (snapshotAB_sound hs0),
        fun _ x _ _ => by simp [world0, establish]⟩
  have Q0 : QOk c (world0 c) (gh0 c) := by intro _ q hq; cases hq
  -- and after the whole run, final delivery included
  have J1 := run_inv_WG c c.ops (world0 c, gh0 c) J0
  have Q1 := run_inv_Q c c.ops (world0 c, gh0 c) J0 Q0
  have J2 := step_inv c _ _ J1 (.deliver (c.ops.foldl (stepWG c) (world0 c, gh0 c)).1.queue.length)
  have Q2 := step_q c _ _ J1 Q1 (.deliver (c.ops.foldl (stepWG c) (world0 c, gh0 c)).1.queue.length)
  have J2' : J c.sess.max (finalWG c).1 (finalWG c).2 := J2
  have Q2' : QOk c (finalWG c).1 (finalWG c).2 := Q2
  rw [run01_eq]
  clear J2 J1 J0 Q2 Q1 Q0
  generalize finalWG c = W at *
  have hq := Q2' hokq
  have hfin := point_ok c (c.pre ++ c.ops) W.1 W.2 J2' hp W.1.st.flush.reuse W.1.st.flush.overtaken ""
  simp only [Spec01.check]
  have hnone : W.1.quiet.find? (fun q => Spec01.quietCheck c q != .ok) = none := by
    rw [List.find?_eq_none]
    intro q hqm
    simp [hq q hqm]
  rw [hnone]
  exact hfin

end Rbgp.Export.Conv
