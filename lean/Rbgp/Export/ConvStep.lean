/-
  Rbgp.Export.ConvStep — C01, part 3: one delivered change preserves the invariant
  (non-add-path session).
-/
import Rbgp.Export.Conv
namespace Rbgp.Export.Conv
open Rbgp.Export

/-! ### small facts -/

theorem plain_key (p : PendingTx) (h : p.addpathTx = false) (d pid : Nat) : p.key d pid = (d, 0) := by
  simp [PendingTx.key, h]

theorem map_key (m : ExportMap) (h : m.addpath = false) (d pid : Nat) : m.key d pid = (d, 0) := by
  simp [ExportMap.key, h]

theorem mem_markSent (m : ExportMap) (h : m.addpath = false) (d : Nat) (k : Nat × Nat) :
    k ∈ (m.markSent d 0).sent ↔ k ∈ m.sent ∨ k = (d, 0) := by
  simp only [ExportMap.markSent, map_key m h]
  by_cases hc : m.sent.contains (d, 0) = true
  · simp only [hc, if_true]
    constructor
    · intro hk; exact Or.inl hk
    · rintro (hk | rfl)
      · exact hk
      · simpa using hc
  · simp only [hc, Bool.false_eq_true, if_false, List.mem_append, List.mem_singleton]

theorem nodup_markSent (m : ExportMap) (h : m.addpath = false) (d : Nat) (hn : m.sent.Nodup) :
    (m.markSent d 0).sent.Nodup := by
  simp only [ExportMap.markSent, map_key m h]
  by_cases hc : m.sent.contains (d, 0) = true
  · simp only [hc, if_true]; exact hn
  · simp only [hc, Bool.false_eq_true, if_false]
    apply List.nodup_append.mpr
    refine ⟨hn, by simp, ?_⟩
    intro a ha b hb
    simp only [List.mem_singleton] at hb
    subst hb
    intro heq; subst heq
    apply hc; simpa using ha

theorem mem_markWithdrawn (m : ExportMap) (h : m.addpath = false) (d : Nat) (k : Nat × Nat) :
    k ∈ (m.markWithdrawn d 0).sent ↔ k ∈ m.sent ∧ k ≠ (d, 0) := by
  simp [ExportMap.markWithdrawn, map_key m h, List.mem_filter]

theorem wasSent_iff (m : ExportMap) (d : Nat) (hz : ∀ k ∈ m.sent, k.2 = 0) :
    m.wasSent d = true ↔ (d, 0) ∈ m.sent := by
  simp only [ExportMap.wasSent, List.any_eq_true, decide_eq_true_eq]
  constructor
  · rintro ⟨k, hk, hd⟩
    have := hz k hk
    have : k = (d, 0) := by cases k; simp_all
    rw [← this]; exact hk
  · intro h; exact ⟨(d, 0), h, rfl⟩

/-- the target of a non-add-path session only looks at the best path -/
theorem target_plain_head (e : Exp) (h : e.max = 1) (ps qs : List Path) (hh : ps.head? = qs.head?) :
    target e ps = target e qs := by
  simp only [target, h, if_true, hh]

theorem target_plain_nil (e : Exp) (h : e.max = 1) : target e [] = [] := by
  simp [target, h]

theorem target_plain_cases (e : Exp) (h : e.max = 1) (ps : List Path) :
    target e ps = [] ∨ ∃ r, target e ps = [(0, r)] := by
  simp only [target, h, if_true]
  cases ps.head? with
  | none => left; rfl
  | some b =>
    simp only
    split
    · cases e.xform b with
      | none => left; rfl
      | some r => right; exact ⟨r, rfl⟩
    · left; rfl

theorem mem_eraseKey {α} (k : TxKey) (l : List (TxKey × α)) (x : TxKey × α) :
    x ∈ PendingTx.eraseKey k l ↔ x ∈ l ∧ x.1 ≠ k := by
  simp [PendingTx.eraseKey, List.mem_filter]

theorem keysNodup_erase {α} (k : TxKey) (l : List (TxKey × α)) (h : keysNodup l) :
    keysNodup (PendingTx.eraseKey k l) := by
  simp only [keysNodup, PendingTx.eraseKey] at h ⊢
  exact (List.Nodup.sublist (List.Sublist.map _ (List.filter_sublist)) h)

theorem keysNodup_erase_append {α} (k : TxKey) (v : α) (l : List (TxKey × α)) (h : keysNodup l) :
    keysNodup (PendingTx.eraseKey k l ++ [(k, v)]) := by
  have h1 := keysNodup_erase k l h
  simp only [keysNodup, List.map_append, List.map_cons, List.map_nil] at h1 ⊢
  apply List.nodup_append.mpr
  refine ⟨h1, by simp, ?_⟩
  intro a ha b hb
  simp only [List.mem_singleton] at hb
  subst hb
  rcases List.mem_map.mp ha with ⟨x, hx, rfl⟩
  exact ((mem_eraseKey b l x).mp hx).2

/-- with unique keys, `lookup` is membership -/
theorem lookup_of_mem {α} (l : List (TxKey × α)) (h : keysNodup l) (x : TxKey × α) (hx : x ∈ l) :
    lookup x.1 l = some x.2 := by
  simp only [lookup]
  induction l with
  | nil => cases hx
  | cons y rest ih =>
    simp only [keysNodup, List.map_cons, List.nodup_cons] at h
    rw [List.find?_cons]
    rcases List.mem_cons.mp hx with rfl | hm
    · simp
    · have : ¬ y.1 = x.1 := by
        intro heq; apply h.1; rw [heq]; exact List.mem_map_of_mem hm
      simp only [this, decide_false]
      exact ih h.2 hm

theorem mem_of_lookup {α} (l : List (TxKey × α)) (k : TxKey) (v : α) (h : lookup k l = some v) : (k, v) ∈ l := by
  simp only [lookup] at h
  cases hf : l.find? (fun x => decide (x.1 = k)) with
  | none => simp [hf] at h
  | some x =>
    simp only [hf, Option.map_some, Option.some.injEq] at h
    have hm := List.mem_of_find?_eq_some hf
    have hk : x.1 = k := by simpa using List.find?_some hf
    obtain ⟨a, b⟩ := x
    simp only at hk h; subst hk; subst h; exact hm

/-! ### how one sink call changes the pending state -/

theorem wdl_iff (p : PendingTx) (net : Net) (w : Nat) :
    wdl p net w = true ↔ (w, net) ∈ p.stray ∨ ∃ x ∈ p.unreach, x.1.2 = w ∧ x.2 = net := by
  simp [wdl, List.any_eq_true]

theorem reach_doReach (p : PendingTx) (d : Nat) (net : Net) (pid : Nat) (nh : Option Nh) (as : Attrs) (k : TxKey) :
    lookup k (p.doReach d net pid nh as).reach =
      if k = p.key d pid then some (net, as, nh) else lookup k p.reach := by
  simp only [PendingTx.doReach]; exact lookup_erase_append _ _ _ _

theorem reach_doUnreach (p : PendingTx) (d : Nat) (net : Net) (pid : Nat) (k : TxKey) :
    lookup k (p.doUnreach d net pid).reach = if k = p.key d pid then none else lookup k p.reach := by
  simp only [PendingTx.doUnreach]; exact lookup_erase _ _ _

/-- a reach for `net` leaves pending withdrawals of every other prefix in place (moved to
    `stray` when they sat under the same key) -/
theorem wdl_doReach_other (p : PendingTx) (hk : keysNodup p.unreach) (d : Nat) (net net' : Net) (pid w : Nat)
    (nh : Option Nh) (as : Attrs) (hne : net' ≠ net) :
    wdl (p.doReach d net pid nh as) net' w = wdl p net' w := by
  rw [Bool.eq_iff_iff, wdl_iff, wdl_iff]
  simp only [PendingTx.doReach]
  constructor
  · rintro (hs | ⟨x, hx, hw, hn⟩)
    · cases hf : p.unreach.find? (fun x => decide (x.1 = p.key d pid)) with
      | none => simp only [hf] at hs; exact Or.inl hs
      | some e =>
        obtain ⟨k', old⟩ := e
        simp only [hf] at hs
        split at hs
        · rcases List.mem_append.mp hs with h | h
          · exact Or.inl h
          · simp only [List.mem_singleton, Prod.mk.injEq] at h
            right
            have hm := List.mem_of_find?_eq_some hf
            have hk' : k' = p.key d pid := by simpa using List.find?_some hf
            exact ⟨(k', old), hm, by rw [hk']; exact h.1.symm, h.2.symm⟩
        · exact Or.inl hs
    · exact Or.inr ⟨x, ((mem_eraseKey _ _ x).mp hx).1, hw, hn⟩
  · rintro (hs | ⟨x, hx, hw, hn⟩)
    · left
      split
      · split
        · exact List.mem_append_left _ hs
        · exact hs
      · exact hs
    · by_cases hxk : x.1 = p.key d pid
      · left
        have hl := lookup_of_mem p.unreach hk x hx
        simp only [lookup] at hl
        cases hf : p.unreach.find? (fun y => decide (y.1 = x.1)) with
        | none => simp [hf] at hl
        | some e =>
          simp only [hf, Option.map_some, Option.some.injEq] at hl
          rw [hxk] at hf
          simp only [hf]
          have : e.2 ≠ net := by rw [hl, hn]; exact hne
          simp only [this, ne_eq, not_false_eq_true, if_true]
          apply List.mem_append_right
          simp only [List.mem_singleton, Prod.mk.injEq]
          exact ⟨by rw [← hxk]; exact hw.symm, by rw [hl, hn]⟩
      · exact Or.inr ⟨x, (mem_eraseKey _ _ x).mpr ⟨hx, hxk⟩, hw, hn⟩

theorem wdl_doUnreach_self (p : PendingTx) (d : Nat) (net : Net) (pid : Nat) :
    wdl (p.doUnreach d net pid) net (p.key d pid).2 = true := by
  rw [wdl_iff]
  right
  exact ⟨(p.key d pid, net), by simp [PendingTx.doUnreach], rfl, rfl⟩

/-- a withdrawal for `net` leaves pending withdrawals of other prefixes in place, provided the entry
    it overwrites (same key) is one of `net` itself -/
theorem wdl_doUnreach_other (p : PendingTx) (d : Nat) (net net' : Net) (pid w : Nat)
    (hown : ∀ x ∈ p.unreach, x.1 = p.key d pid → x.2 = net) (hne : net' ≠ net) :
    wdl (p.doUnreach d net pid) net' w = wdl p net' w := by
  rw [Bool.eq_iff_iff, wdl_iff, wdl_iff]
  simp only [PendingTx.doUnreach]
  constructor
  · rintro (hs | ⟨x, hx, hw, hn⟩)
    · exact Or.inl hs
    · rcases List.mem_append.mp hx with h | h
      · exact Or.inr ⟨x, ((mem_eraseKey _ _ x).mp h).1, hw, hn⟩
      · simp only [List.mem_singleton] at h
        subst h
        exact absurd hn.symm hne
  · rintro (hs | ⟨x, hx, hw, hn⟩)
    · exact Or.inl hs
    · right
      by_cases hxk : x.1 = p.key d pid
      · exact absurd ((hown x hx hxk).symm.trans hn).symm hne
      · exact ⟨x, List.mem_append_left _ ((mem_eraseKey _ _ x).mpr ⟨hx, hxk⟩), hw, hn⟩

/-! ### the view after an admissible change -/

theorem wf_update (V : View) (hw : V.wf) (u : Change Net) (ha : Admissible V u) :
    (V.update u.net u.destId u.paths).wf := by
  obtain ⟨hn, hi, hp⟩ := hw
  have hsubN : ((V.filter (fun x => decide (x.net ≠ u.net))).map (·.net)).Nodup :=
    List.Nodup.sublist (List.Sublist.map _ List.filter_sublist) hn
  have hsubI : ((V.filter (fun x => decide (x.net ≠ u.net))).map (·.id)).Nodup :=
    List.Nodup.sublist (List.Sublist.map _ List.filter_sublist) hi
  have hpf : ∀ x ∈ V.filter (fun x => decide (x.net ≠ u.net)), x.paths ≠ [] :=
    fun x hx => hp x (List.mem_filter.mp hx).1
  simp only [View.update]
  cases hps : u.paths with
  | nil => simp only [List.isEmpty_nil, if_true]; exact ⟨hsubN, hsubI, hpf⟩
  | cons a rest =>
    simp only [List.isEmpty_cons, Bool.false_eq_true, if_false]
    refine ⟨?_, ?_, ?_⟩
    · simp only [List.map_append, List.map_cons, List.map_nil]
      apply List.nodup_append.mpr
      refine ⟨hsubN, by simp, ?_⟩
      intro n hn' b hb
      simp only [List.mem_singleton] at hb; subst hb
      rcases List.mem_map.mp hn' with ⟨x, hx, rfl⟩
      have := (List.mem_filter.mp hx).2
      simpa using this
    · simp only [List.map_append, List.map_cons, List.map_nil]
      apply List.nodup_append.mpr
      refine ⟨hsubI, by simp, ?_⟩
      intro n hn' b hb
      simp only [List.mem_singleton] at hb; subst hb
      rcases List.mem_map.mp hn' with ⟨x, hx, rfl⟩
      have hx' := List.mem_filter.mp hx
      intro heq
      have := ha.idFree x hx'.1 heq
      simp [this] at hx'
    · intro x hx
      rcases List.mem_append.mp hx with h | h
      · exact hpf x h
      · simp only [List.mem_singleton] at h; subst h; simp

/-- export behaviour per prefix after `net` was processed under `e'` -/
def setE (E : Net → Exp) (net : Net) (e' : Exp) : Net → Exp := fun n => if n = net then e' else E n

theorem idOf_some_mem (V : View) (net : Net) (d : Nat) (h : V.idOf net = some d) :
    ∃ x ∈ V, x.net = net ∧ x.id = d := by
  simp only [View.idOf] at h
  cases hf : V.find net with
  | none => simp [hf] at h
  | some x =>
    simp only [hf, Option.map_some, Option.some.injEq] at h
    exact ⟨x, (View.find_mem V net x hf).1, (View.find_mem V net x hf).2, h⟩

theorem idOf_of_mem (V : View) (hw : V.wf) (x : VEntry) (h : x ∈ V) : V.idOf x.net = some x.id := by
  simp [View.idOf, View.find_of_mem V hw x h]

theorem paths_of_mem (V : View) (hw : V.wf) (x : VEntry) (h : x ∈ V) : V.paths x.net = x.paths := by
  simp [View.paths, View.find_of_mem V hw x h]

/-- another prefix never sits under the destination id of an admissible change -/
theorem other_id_ne (V : View) (u : Change Net) (ha : Admissible V u) (net' : Net) (d' : Nat)
    (hne : net' ≠ u.net) (h : V.idOf net' = some d') : d' ≠ u.destId := by
  obtain ⟨x, hx, hxn, hxi⟩ := idOf_some_mem V net' d' h
  intro heq
  have := ha.idFree x hx (hxi.trans heq)
  exact hne (hxn.symm.trans this)

theorem self_id (V : View) (u : Change Net) (ha : Admissible V u) (d' : Nat)
    (h : V.idOf u.net = some d') : d' = u.destId := by
  obtain ⟨x, hx, hxn, hxi⟩ := idOf_some_mem V u.net d' h
  exact hxi.symm.trans (ha.idKept x hx hxn)

/-! ### the three outcomes of the non-add-path branch -/

theorem addpath_markSent (m : ExportMap) (d w : Nat) : (m.markSent d w).addpath = m.addpath := by
  simp only [ExportMap.markSent]; split <;> rfl

theorem tlookup_single (as : Attrs) (nh : Option Nh) : tlookup 0 [(0, (as, nh))] = some (as, nh) := by
  simp [tlookup]

theorem sent_zero {E : Net → Exp} {V : View} {m : ExportMap} {p : PendingTx} {mb : Mirror}
    (I : Inv E V m p mb) : ∀ k ∈ m.sent, k.2 = 0 := by
  intro k hk
  have := (I.mapIff k.1 k.2).mp hk
  exact this.1

/-- outcome "advertise": `mark_sent` + `sink.reach` -/
theorem inv_reach {E : Net → Exp} {V : View} {m : ExportMap} {p : PendingTx} {mb : Mirror}
    (I : Inv E V m p mb) (u : Change Net) (ha : Admissible V u) (e' : Exp) (he : e'.max = 1)
    (as : Attrs) (nh : Option Nh) (hT : target e' u.paths = [(0, (as, nh))]) :
    Inv (setE E u.net e') (V.update u.net u.destId u.paths) (m.markSent u.destId 0)
      (p.doReach u.destId u.net 0 nh as) mb := by
  obtain ⟨hma, hpa, hEm⟩ := I.mode
  have hkey : p.key u.destId 0 = (u.destId, 0) := plain_key p hpa _ _
  have hps : u.paths ≠ [] := by
    intro h; rw [h, target_plain_nil e' he] at hT; cases hT
  have hV' := wf_update V I.vwf u ha
  have hid_self : (V.update u.net u.destId u.paths).idOf u.net = some u.destId := by
    rw [View.idOf_update]; simp [hps]
  have hid_other : ∀ net', net' ≠ u.net → (V.update u.net u.destId u.paths).idOf net' = V.idOf net' := by
    intro net' hne; rw [View.idOf_update]; simp [hne]
  have hpaths_other : ∀ net', net' ≠ u.net → (V.update u.net u.destId u.paths).paths net' = V.paths net' := by
    intro net' hne; rw [View.paths_update]; simp [hne]
  refine
    { vwf := hV'
      mode := ⟨by rw [addpath_markSent]; exact hma, hpa, ?_⟩
      eff := ?_
      mapIff := ?_
      reachOwn := ?_
      unreachOwn := ?_
      strayZero := ?_
      reachKeys := ?_
      unreachKeys := ?_
      sentNodup := nodup_markSent m hma _ I.sentNodup }
  · intro n; simp only [setE]; split
    · exact he
    · exact hEm n
  · -- eff
    intro net'
    by_cases hn : net' = u.net
    · subst hn
      simp only [effGet, hid_self, Option.bind_some, reach_doReach, hkey, if_true]
      simp only [wantRoute, View.paths_update, if_true, setE, hT, tlookup_single, Option.map_some]
    · have hE : setE E u.net e' net' = E net' := by simp [setE, hn]
      rw [wantRoute, hE, hpaths_other net' hn, ← wantRoute, ← I.eff net']
      simp only [effGet, hid_other net' hn]
      have hreach : (V.idOf net').bind (fun d => lookup (d, 0) (p.doReach u.destId u.net 0 nh as).reach) =
          (V.idOf net').bind (fun d => lookup (d, 0) p.reach) := by
        cases hid : V.idOf net' with
        | none => rfl
        | some d' =>
          have hd := other_id_ne V u ha net' d' hn hid
          simp only [Option.bind_some, reach_doReach, hkey]
          have : ¬ ((d', 0) : TxKey) = (u.destId, 0) := by simp [hd]
          simp [this]
      rw [hreach, wdl_doReach_other p I.unreachKeys _ _ _ _ _ _ _ hn]
  · -- mapIff
    intro d w
    rw [mem_markSent m hma]
    constructor
    · rintro (h | h)
      · obtain ⟨hw, x, hx, hxi, hxt⟩ := (I.mapIff d w).mp h
        refine ⟨hw, ?_⟩
        by_cases hxn : x.net = u.net
        · have := ha.idKept x hx hxn
          refine ⟨⟨u.net, u.destId, u.paths⟩, ?_, by rw [← hxi, this], ?_⟩
          · exact (View.mem_update _ _ _ _ _).mpr (Or.inr ⟨hps, rfl⟩)
          · simp [setE, hT]
        · refine ⟨x, (View.mem_update _ _ _ _ _).mpr (Or.inl ⟨hx, hxn⟩), hxi, ?_⟩
          simpa [setE, hxn] using hxt
      · simp only [Prod.mk.injEq] at h
        refine ⟨h.2, ⟨u.net, u.destId, u.paths⟩, (View.mem_update _ _ _ _ _).mpr (Or.inr ⟨hps, rfl⟩), h.1.symm, ?_⟩
        simp [setE, hT]
    · rintro ⟨hw, x, hx, hxi, hxt⟩
      rcases (View.mem_update _ _ _ _ _).mp hx with ⟨hxV, hxn⟩ | ⟨_, rfl⟩
      · left
        exact (I.mapIff d w).mpr ⟨hw, x, hxV, hxi, by simpa [setE, hxn] using hxt⟩
      · right; simp only at hxi; rw [hw, ← hxi]
  · -- reachOwn
    intro x hx
    simp only [PendingTx.doReach, hkey] at hx
    rcases List.mem_append.mp hx with h | h
    · obtain ⟨hxm, hxk⟩ := (mem_eraseKey _ _ x).mp h
      obtain ⟨hz, hown, hsent⟩ := I.reachOwn x hxm
      have hxd : x.1.1 ≠ u.destId := by
        intro heq; apply hxk
        cases hx1 : x.1; simp_all
      have hxn : x.2.1 ≠ u.net := by
        intro heq
        rw [heq] at hown
        exact hxd (self_id V u ha _ hown)
      refine ⟨hz, by rw [hid_other _ hxn]; exact hown, (mem_markSent m hma _ _).mpr (Or.inl hsent)⟩
    · simp only [List.mem_singleton] at h
      subst h
      exact ⟨rfl, hid_self, (mem_markSent m hma _ _).mpr (Or.inr rfl)⟩
  · -- unreachOwn
    intro x hx
    simp only [PendingTx.doReach, hkey] at hx
    obtain ⟨hxm, hxk⟩ := (mem_eraseKey _ _ x).mp hx
    obtain ⟨hz, hown⟩ := I.unreachOwn x hxm
    refine ⟨hz, ?_⟩
    intro hs
    rcases (mem_markSent m hma _ _).mp hs with h | h
    · have ho := hown h
      have hxn : x.2 ≠ u.net := by
        intro heq
        rw [heq] at ho
        have := self_id V u ha _ ho
        apply hxk
        cases hx1 : x.1; simp_all
      rw [hid_other _ hxn]; exact ho
    · exact absurd h hxk
  · -- strayZero
    intro x hx
    simp only [PendingTx.doReach, hkey] at hx
    split at hx
    · split at hx
      · rcases List.mem_append.mp hx with h | h
        · exact I.strayZero x h
        · simp only [List.mem_singleton] at h; subst h; rfl
      · exact I.strayZero x hx
    · exact I.strayZero x hx
  · simp only [PendingTx.doReach]; exact keysNodup_erase_append _ _ _ I.reachKeys
  · simp only [PendingTx.doReach]; exact keysNodup_erase _ _ I.unreachKeys

/-- whoever has destination id `d` in the export map of a session about to process `u` is `u.net` -/
theorem sent_owner {E : Net → Exp} {V : View} {m : ExportMap} {p : PendingTx} {mb : Mirror}
    (I : Inv E V m p mb) (u : Change Net) (ha : Admissible V u) (h : (u.destId, 0) ∈ m.sent) :
    V.idOf u.net = some u.destId := by
  obtain ⟨_, x, hx, hxi, _⟩ := (I.mapIff u.destId 0).mp h
  have := ha.idFree x hx hxi
  rw [← this, ← hxi]; exact idOf_of_mem V I.vwf x hx

/-- outcome "withdraw": `mark_withdrawn` + `sink.unreach` -/
theorem inv_unreach {E : Net → Exp} {V : View} {m : ExportMap} {p : PendingTx} {mb : Mirror}
    (I : Inv E V m p mb) (u : Change Net) (ha : Admissible V u) (e' : Exp) (he : e'.max = 1)
    (hT : target e' u.paths = []) (hsent : (u.destId, 0) ∈ m.sent) :
    Inv (setE E u.net e') (V.update u.net u.destId u.paths) (m.markWithdrawn u.destId 0)
      (p.doUnreach u.destId u.net 0) mb := by
  obtain ⟨hma, hpa, hEm⟩ := I.mode
  have hkey : p.key u.destId 0 = (u.destId, 0) := plain_key p hpa _ _
  have hV' := wf_update V I.vwf u ha
  have hown_self := sent_owner I u ha hsent
  have hid_other : ∀ net', net' ≠ u.net → (V.update u.net u.destId u.paths).idOf net' = V.idOf net' := by
    intro net' hne; rw [View.idOf_update]; simp [hne]
  have hpaths_other : ∀ net', net' ≠ u.net → (V.update u.net u.destId u.paths).paths net' = V.paths net' := by
    intro net' hne; rw [View.paths_update]; simp [hne]
  -- an unreach entry under the key being overwritten belongs to this prefix
  have hover : ∀ x ∈ p.unreach, x.1 = p.key u.destId 0 → x.2 = u.net := by
    intro x hx hk
    rw [hkey] at hk
    have ho := (I.unreachOwn x hx).2 (by rw [hk]; exact hsent)
    obtain ⟨y, hy, hyn, hyi⟩ := idOf_some_mem V x.2 x.1.1 ho
    have : y.id = u.destId := by rw [hyi, hk]
    exact hyn.symm.trans (ha.idFree y hy this)
  refine
    { vwf := hV'
      mode := ⟨hma, hpa, ?_⟩
      eff := ?_
      mapIff := ?_
      reachOwn := ?_
      unreachOwn := ?_
      strayZero := I.strayZero
      reachKeys := ?_
      unreachKeys := ?_
      sentNodup := ?_ }
  · intro n; simp only [setE]; split
    · exact he
    · exact hEm n
  · intro net'
    by_cases hn : net' = u.net
    · subst hn
      have hw : wantRoute (setE E u.net e' u.net) (V.update u.net u.destId u.paths) u.net 0 = none := by
        simp [wantRoute, View.paths_update, setE, hT, tlookup]
      rw [hw]
      simp only [effGet]
      have hreach : ((V.update u.net u.destId u.paths).idOf u.net).bind
          (fun d => lookup (d, 0) (p.doUnreach u.destId u.net 0).reach) = none := by
        rw [View.idOf_update]
        simp only [if_true]
        split
        · rfl
        · simp [reach_doUnreach, hkey]
      rw [hreach]
      have := wdl_doUnreach_self p u.destId u.net 0
      rw [hkey] at this
      simp [this]
    · have hE : setE E u.net e' net' = E net' := by simp [setE, hn]
      rw [wantRoute, hE, hpaths_other net' hn, ← wantRoute, ← I.eff net']
      simp only [effGet, hid_other net' hn]
      have hreach : (V.idOf net').bind (fun d => lookup (d, 0) (p.doUnreach u.destId u.net 0).reach) =
          (V.idOf net').bind (fun d => lookup (d, 0) p.reach) := by
        cases hid : V.idOf net' with
        | none => rfl
        | some d' =>
          have hd := other_id_ne V u ha net' d' hn hid
          simp only [Option.bind_some, reach_doUnreach, hkey]
          have : ¬ ((d', 0) : TxKey) = (u.destId, 0) := by simp [hd]
          simp [this]
      rw [hreach, wdl_doUnreach_other p _ _ _ _ _ hover hn]
  · intro d w
    rw [mem_markWithdrawn m hma]
    constructor
    · rintro ⟨h, hne⟩
      obtain ⟨hw, x, hx, hxi, hxt⟩ := (I.mapIff d w).mp h
      refine ⟨hw, ?_⟩
      have hxn : x.net ≠ u.net := by
        intro heq
        have := ha.idKept x hx heq
        apply hne; rw [hw, ← hxi, this]
      exact ⟨x, (View.mem_update _ _ _ _ _).mpr (Or.inl ⟨hx, hxn⟩), hxi, by simpa [setE, hxn] using hxt⟩
    · rintro ⟨hw, x, hx, hxi, hxt⟩
      rcases (View.mem_update _ _ _ _ _).mp hx with ⟨hxV, hxn⟩ | ⟨_, rfl⟩
      · refine ⟨(I.mapIff d w).mpr ⟨hw, x, hxV, hxi, by simpa [setE, hxn] using hxt⟩, ?_⟩
        intro heq
        simp only [Prod.mk.injEq] at heq
        exact hxn (ha.idFree x hxV (hxi.trans heq.1))
      · simp [setE, hT] at hxt
  · intro x hx
    simp only [PendingTx.doUnreach, hkey] at hx
    obtain ⟨hxm, hxk⟩ := (mem_eraseKey _ _ x).mp hx
    obtain ⟨hz, hown, hs⟩ := I.reachOwn x hxm
    have hxd : x.1.1 ≠ u.destId := by
      intro heq; apply hxk
      cases hx1 : x.1; simp_all
    have hxn : x.2.1 ≠ u.net := by
      intro heq
      rw [heq] at hown
      exact hxd (self_id V u ha _ hown)
    exact ⟨hz, by rw [hid_other _ hxn]; exact hown, (mem_markWithdrawn m hma _ _).mpr ⟨hs, hxk⟩⟩
  · intro x hx
    simp only [PendingTx.doUnreach, hkey] at hx
    rcases List.mem_append.mp hx with h | h
    · obtain ⟨hxm, hxk⟩ := (mem_eraseKey _ _ x).mp h
      obtain ⟨hz, hown⟩ := I.unreachOwn x hxm
      refine ⟨hz, ?_⟩
      intro hs
      have ho := hown ((mem_markWithdrawn m hma _ _).mp hs).1
      have hxn : x.2 ≠ u.net := by
        intro heq
        rw [heq] at ho
        have := self_id V u ha _ ho
        apply hxk
        cases hx1 : x.1; simp_all
      rw [hid_other _ hxn]; exact ho
    · simp only [List.mem_singleton] at h
      subst h
      refine ⟨rfl, ?_⟩
      intro hs
      exact absurd rfl ((mem_markWithdrawn m hma _ _).mp hs).2
  · simp only [PendingTx.doUnreach]; exact keysNodup_erase _ _ I.reachKeys
  · simp only [PendingTx.doUnreach]; exact keysNodup_erase_append _ _ _ I.unreachKeys
  · simp only [ExportMap.markWithdrawn]
    exact List.Nodup.sublist List.filter_sublist I.sentNodup

/-- outcome "nothing": the change is skipped (`best_changed = false`), or there is nothing to
    advertise and nothing was advertised -/
theorem inv_skip {E : Net → Exp} {V : View} {m : ExportMap} {p : PendingTx} {mb : Mirror}
    (I : Inv E V m p mb) (u : Change Net) (ha : Admissible V u) (e' : Exp) (he : e'.max = 1)
    (hcase : (u.bestChanged = false ∧ e' = E u.net) ∨
             (target e' u.paths = [] ∧ (u.destId, 0) ∉ m.sent)) :
    Inv (setE E u.net e') (V.update u.net u.destId u.paths) m p mb := by
  obtain ⟨hma, hpa, hEm⟩ := I.mode
  have hV' := wf_update V I.vwf u ha
  have hid_other : ∀ net', net' ≠ u.net → (V.update u.net u.destId u.paths).idOf net' = V.idOf net' := by
    intro net' hne; rw [View.idOf_update]; simp [hne]
  have hpaths_other : ∀ net', net' ≠ u.net → (V.update u.net u.destId u.paths).paths net' = V.paths net' := by
    intro net' hne; rw [View.paths_update]; simp [hne]
  -- the target for this prefix is what it was
  have hTsame : target e' u.paths = target (E u.net) (V.paths u.net) := by
    rcases hcase with ⟨hb, hee⟩ | ⟨hT, hns⟩
    · rw [hee]; exact (target_plain_head _ (hEm _) _ _ (ha.bestSame hb)).symm
    · rw [hT]
      cases hf : V.find u.net with
      | none => simp [View.paths, hf, target_plain_nil _ (hEm _)]
      | some x =>
        have hxm := View.find_mem V u.net x hf
        have hxi := ha.idKept x hxm.1 hxm.2
        by_cases ht : target (E x.net) x.paths = []
        · rw [hxm.2] at ht
          simp [View.paths, hf, ht]
        · exact absurd ((I.mapIff u.destId 0).mpr ⟨rfl, x, hxm.1, hxi, ht⟩) hns
  -- no reach entry of this prefix can make the id matter
  have hidsame : ((V.update u.net u.destId u.paths).idOf u.net).bind (fun d => lookup (d, 0) p.reach) =
      (V.idOf u.net).bind (fun d => lookup (d, 0) p.reach) := by
    rcases hcase with ⟨hb, _⟩ | ⟨_, hns⟩
    · have hh := ha.bestSame hb
      rw [View.idOf_update]
      simp only [if_true]
      by_cases hps : u.paths = []
      · simp only [hps, if_true, List.head?_nil] at hh ⊢
        cases hf : V.find u.net with
        | none => simp [View.idOf, hf]
        | some x =>
          have hxm := View.find_mem V u.net x hf
          have := I.vwf.2.2 x hxm.1
          simp only [View.paths, hf, Option.map_some, Option.getD_some] at hh
          cases hxp : x.paths with
          | nil => exact absurd hxp this
          | cons a rest => rw [hxp] at hh; simp at hh
      · simp only [hps, if_false]
        cases hf : V.find u.net with
        | none =>
          simp only [View.paths, hf, Option.map_none, Option.getD_none, List.head?_nil] at hh
          cases hup : u.paths with
          | nil => exact absurd hup hps
          | cons a rest => rw [hup] at hh; simp at hh
        | some x =>
          have hxm := View.find_mem V u.net x hf
          simp [View.idOf, hf, ha.idKept x hxm.1 hxm.2]
    · have hnone : ∀ d, d = u.destId → lookup (d, 0) p.reach = none := by
        intro d hd
        cases hl : lookup (d, 0) p.reach with
        | none => rfl
        | some v =>
          have := (I.reachOwn _ (mem_of_lookup _ _ _ hl)).2.2
          rw [hd] at this; exact absurd this hns
      have h1 : ((V.update u.net u.destId u.paths).idOf u.net).bind (fun d => lookup (d, 0) p.reach) = none := by
        rw [View.idOf_update]
        simp only [if_true]
        split
        · rfl
        · simp [hnone u.destId rfl]
      rw [h1]
      cases hid : V.idOf u.net with
      | none => rfl
      | some d => simp [hnone d (self_id V u ha d hid)]
  refine
    { vwf := hV'
      mode := ⟨hma, hpa, ?_⟩
      eff := ?_
      mapIff := ?_
      reachOwn := ?_
      unreachOwn := ?_
      strayZero := I.strayZero
      reachKeys := I.reachKeys
      unreachKeys := I.unreachKeys
      sentNodup := I.sentNodup }
  · intro n; simp only [setE]; split
    · exact he
    · exact hEm n
  · intro net'
    by_cases hn : net' = u.net
    · subst hn
      have hw : wantRoute (setE E u.net e' u.net) (V.update u.net u.destId u.paths) u.net 0 =
          wantRoute (E u.net) V u.net 0 := by
        simp only [wantRoute, View.paths_update, if_true, setE, hTsame]
      rw [hw, ← I.eff u.net]
      simp only [effGet, hidsame]
    · have hE : setE E u.net e' net' = E net' := by simp [setE, hn]
      rw [wantRoute, hE, hpaths_other net' hn, ← wantRoute, ← I.eff net']
      simp only [effGet, hid_other net' hn]
  · intro d w
    rw [I.mapIff d w]
    constructor
    · rintro ⟨hw, x, hx, hxi, hxt⟩
      refine ⟨hw, ?_⟩
      by_cases hxn : x.net = u.net
      · have hxp := paths_of_mem V I.vwf x hx
        rw [hxn] at hxp hxt
        rw [← hxp, ← hTsame] at hxt
        have hps : u.paths ≠ [] := by
          intro h; rw [h, target_plain_nil e' he] at hxt; exact hxt rfl
        refine ⟨⟨u.net, u.destId, u.paths⟩, (View.mem_update _ _ _ _ _).mpr (Or.inr ⟨hps, rfl⟩), ?_, ?_⟩
        · rw [← hxi]; exact (ha.idKept x hx hxn).symm
        · simpa [setE] using hxt
      · exact ⟨x, (View.mem_update _ _ _ _ _).mpr (Or.inl ⟨hx, hxn⟩), hxi, by simpa [setE, hxn] using hxt⟩
    · rintro ⟨hw, x, hx, hxi, hxt⟩
      refine ⟨hw, ?_⟩
      rcases (View.mem_update _ _ _ _ _).mp hx with ⟨hxV, hxn⟩ | ⟨_, rfl⟩
      · exact ⟨x, hxV, hxi, by simpa [setE, hxn] using hxt⟩
      · simp only [setE, if_true] at hxt hxi
        rw [hTsame] at hxt
        cases hf : V.find u.net with
        | none => simp [View.paths, hf, target_plain_nil _ (hEm _)] at hxt
        | some y =>
          have hym := View.find_mem V u.net y hf
          refine ⟨y, hym.1, ?_, ?_⟩
          · rw [← hxi]; exact ha.idKept y hym.1 hym.2
          · simpa [View.paths, hf, hym.2] using hxt
  · intro x hx
    obtain ⟨hz, hown, hs⟩ := I.reachOwn x hx
    refine ⟨hz, ?_, hs⟩
    by_cases hxn : x.2.1 = u.net
    · -- the reach entry is of this prefix: its key is (destId, 0), which is in the export map, so the
      -- prefix is in the view with paths whose target is not empty; it stays in the view
      rw [hxn] at hown ⊢
      have hd := self_id V u ha _ hown
      obtain ⟨_, y, hy, hyi, hyt⟩ := (I.mapIff x.1.1 x.1.2).mp hs
      have hyn : y.net = u.net := ha.idFree y hy (hyi.trans hd)
      have hyp := paths_of_mem V I.vwf y hy
      rw [hyn] at hyp hyt
      rw [← hyp, ← hTsame] at hyt
      have hps : u.paths ≠ [] := by
        intro h; rw [h, target_plain_nil e' he] at hyt; exact hyt rfl
      rw [View.idOf_update]; simp [hps, hd]
    · rw [hid_other _ hxn]; exact hown
  · intro x hx
    obtain ⟨hz, hown⟩ := I.unreachOwn x hx
    refine ⟨hz, ?_⟩
    intro hs
    have ho := hown hs
    by_cases hxn : x.2 = u.net
    · rw [hxn] at ho ⊢
      have hd := self_id V u ha _ ho
      obtain ⟨_, y, hy, hyi, hyt⟩ := (I.mapIff x.1.1 x.1.2).mp hs
      have hyn : y.net = u.net := ha.idFree y hy (hyi.trans hd)
      have hyp := paths_of_mem V I.vwf y hy
      rw [hyn] at hyp hyt
      rw [← hyp, ← hTsame] at hyt
      have hps : u.paths ≠ [] := by
        intro h; rw [h, target_plain_nil e' he] at hyt; exact hyt rfl
      rw [View.idOf_update]; simp [hps, hd]
    · rw [hid_other _ hxn]; exact ho

end Rbgp.Export.Conv
