/-
  Rbgp.Export.Proofs — lemmas behind the C09 theorems (statements are in Props.lean).

  Part A: the canonical sort of an observation does not change what the spec looks at.
  Part B: what `exportOne` can return.
  Part C: how each stage of the export pipeline acts on "the attributes with code k".
-/
import Rbgp.Export.Model
import Rbgp.Export.Spec
namespace Rbgp.Export.Proofs
open Rbgp.Export Rbgp.Export.Attr

/-! ## A. sortByCode -/

theorem filter_insertByCode (c : Nat) (a : Attr) (l : Attrs) :
    (insertByCode a l).filter (fun x => x.code = c) =
      if a.code = c then a :: l.filter (fun x => x.code = c) else l.filter (fun x => x.code = c) := by
  induction l with
  | nil => by_cases h : a.code = c <;> simp [insertByCode, h]
  | cons b rest ih =>
    simp only [insertByCode]
    split
    · by_cases h : a.code = c <;> simp [h]
    · rename_i hgt
      simp only [List.filter_cons, ih]
      by_cases h : a.code = c
      · have hb : ¬ b.code = c := by omega
        simp [h, hb]
      · simp [h]

theorem filter_sortByCode (c : Nat) (as : Attrs) :
    (sortByCode as).filter (fun x => x.code = c) = as.filter (fun x => x.code = c) := by
  induction as with
  | nil => rfl
  | cons a rest ih =>
    simp only [sortByCode, List.foldr_cons] at ih ⊢
    rw [filter_insertByCode, ih]
    by_cases h : a.code = c <;> simp [h]

theorem any_insertByCode (f : Attr → Bool) (a : Attr) (l : Attrs) :
    (insertByCode a l).any f = (f a || l.any f) := by
  induction l with
  | nil => simp [insertByCode]
  | cons b rest ih =>
    simp only [insertByCode]
    split
    · simp
    · simp only [List.any_cons, ih]
      cases f a <;> cases f b <;> simp

theorem any_sortByCode (f : Attr → Bool) (as : Attrs) : (sortByCode as).any f = as.any f := by
  induction as with
  | nil => rfl
  | cons a rest ih =>
    simp only [sortByCode, List.foldr_cons] at ih ⊢
    rw [any_insertByCode, ih]; rfl

theorem withCode_sort (c : Nat) (as : Attrs) : Spec.withCode c (sortByCode as) = Spec.withCode c as := by
  simp only [Spec.withCode]
  have := filter_sortByCode c as
  simpa using this

theorem present_sort (c : Nat) (as : Attrs) : Spec.present c (sortByCode as) = Spec.present c as := by
  simp only [Spec.present]; exact any_sortByCode _ as

theorem pathOf_sort (as : Attrs) : Spec.pathOf (sortByCode as) = Spec.pathOf as := by
  simp only [Spec.pathOf, withCode_sort]

theorem wordsOf_sort (c : Nat) (as : Attrs) : Spec.wordsOf c (sortByCode as) = Spec.wordsOf c as := by
  simp only [Spec.wordsOf, withCode_sort]

theorem valueOf_sort (c : Nat) (as : Attrs) : Spec.valueOf c (sortByCode as) = Spec.valueOf c as := by
  simp only [Spec.valueOf, withCode_sort]

/-! ## B. what `exportOne` returns -/

theorem exportOne_cases (c : ExportCase) :
    exportOne c = .suppressed ∨
    (visible c.sess c.path = true ∧
      ∃ as nh pid, xform c.sess c.path = some (as, nh) ∧ exportOne c = .reach pid nh (sortByCode as)) := by
  unfold exportOne processNlriChange
  simp only [Sess.exp]
  by_cases hmax : c.sess.max = 1
  · simp only [hmax, if_true]
    by_cases hv : visible c.sess c.path = true
    · cases hx : xform c.sess c.path with
      | none => left; simp [hv, hx, ExportMap.wasSent, ExportMap.empty]
      | some r =>
        right
        refine ⟨hv, r.1, r.2, 0, rfl, ?_⟩
        simp [hv, hx]
    · left
      simp [hv, ExportMap.wasSent, ExportMap.empty]
  · simp only [hmax, if_false]
    by_cases hv : visible c.sess c.path = true
    · by_cases h0 : c.sess.max = 0
      · left; simp [h0, ExportMap.sentPathIds, ExportMap.empty]
      · have htake : List.take c.sess.max [c.path] = [c.path] := by
          cases hm : c.sess.max with
          | zero => exact absurd hm h0
          | succ n => simp
        cases hx : xform c.sess c.path with
        | none => left; simp [hv, htake, hx, ExportMap.sentPathIds, ExportMap.empty]
        | some r =>
          right
          refine ⟨hv, r.1, r.2, c.path.pid, rfl, ?_⟩
          simp [hv, htake, hx, ExportMap.sentPathIds, ExportMap.empty, ExportMap.containsPath,
                ExportMap.key]
    · left
      simp [hv, ExportMap.sentPathIds, ExportMap.empty]

/-! ## C. the attributes with code k, stage by stage -/

abbrev W (k : Nat) (as : Attrs) : Attrs := Spec.withCode k as

theorem W_nil (k : Nat) : W k [] = [] := rfl

theorem W_cons (k : Nat) (a : Attr) (as : Attrs) :
    W k (a :: as) = if a.code = k then a :: W k as else W k as := by
  simp only [W, Spec.withCode, List.filter_cons]
  by_cases h : a.code = k <;> simp [h]

theorem W_append (k : Nat) (as bs : Attrs) : W k (as ++ bs) = W k as ++ W k bs := by
  simp [W, Spec.withCode]

theorem W_single (k : Nat) (a : Attr) : W k [a] = if a.code = k then [a] else [] := by
  rw [W_cons]; rfl

theorem W_dropCode (k c : Nat) (as : Attrs) :
    W k (dropCode c as) = if k = c then [] else W k as := by
  induction as with
  | nil => simp [dropCode, W, Spec.withCode]
  | cons a rest ih =>
    simp only [dropCode, List.filter_cons] at ih ⊢
    by_cases hc : a.code = c
    · simp only [hc, ne_eq, not_true_eq_false, decide_false, Bool.false_eq_true, if_false, ih]
      by_cases hk : k = c
      · simp [hk]
      · have : ¬ a.code = k := by omega
        simp [hk, W_cons, this]
    · simp only [ne_eq, hc, not_false_eq_true, decide_true, if_true, W_cons, ih]
      by_cases hk : k = c
      · subst hk
        simp [hc]
      · simp [hk]

theorem present_eq (k : Nat) (as : Attrs) : Spec.present k as = !(W k as).isEmpty := by
  induction as with
  | nil => rfl
  | cons a rest ih =>
    simp only [Spec.present, List.any_cons] at ih ⊢
    rw [W_cons, ih]
    by_cases h : a.code = k <;> simp [h]

theorem hasCode_eq (k : Nat) (as : Attrs) : hasCode k as = Spec.present k as := rfl

theorem findCode_eq (k : Nat) (as : Attrs) : findCode k as = (W k as).head? := by
  simp only [findCode, W, Spec.withCode]
  exact List.head?_filter.symm

theorem W_filter_other (k : Nat) (q : Attr → Bool) (as : Attrs)
    (h : ∀ a, a.code = k → q a = true) : W k (as.filter q) = W k as := by
  induction as with
  | nil => rfl
  | cons a rest ih =>
    simp only [List.filter_cons]
    by_cases hq : q a = true
    · simp only [hq, if_true, W_cons, ih]
    · simp only [hq, Bool.false_eq_true, if_false, ih, W_cons]
      have : ¬ a.code = k := fun hk => hq (h a hk)
      simp [this]

theorem W_map_other (k : Nat) (f : Attr → Attr) (as : Attrs)
    (hcode : ∀ a, (f a).code = a.code) (hid : ∀ a, a.code = k → f a = a) :
    W k (as.map f) = W k as := by
  induction as with
  | nil => rfl
  | cons a rest ih =>
    simp only [List.map_cons, W_cons, ih, hcode]
    by_cases h : a.code = k
    · simp [h, hid a h]
    · simp [h]

theorem W_map_all (k : Nat) (f : Attr → Attr) (as : Attrs) (hcode : ∀ a, (f a).code = a.code) :
    W k (as.map f) = (W k as).map f := by
  induction as with
  | nil => rfl
  | cons a rest ih =>
    simp only [List.map_cons, W_cons, ih, hcode]
    by_cases h : a.code = k <;> simp [h]

/-- nothing with code k ⇒ membership facts -/
theorem W_eq_nil_iff (k : Nat) (as : Attrs) : W k as = [] ↔ ∀ a ∈ as, a.code ≠ k := by
  simp [W, Spec.withCode, List.filter_eq_nil_iff]

theorem mem_W (k : Nat) (a : Attr) (as : Attrs) : a ∈ W k as ↔ a ∈ as ∧ a.code = k := by
  simp [W, Spec.withCode]

/-! ### well-formed attributes: what a code says about the constructor -/

def AllWf (as : Attrs) : Prop := ∀ a ∈ as, a.wf = true

theorem allWf_of_all {as : Attrs} (h : as.all Attr.wf = true) : AllWf as := by
  intro a ha; exact (List.all_eq_true.mp h) a ha

theorem wf_code2 {a : Attr} (h : a.wf = true) (hc : a.code = 2) :
    ∃ segs, a = .aspath segs ∧ segs.all segWf = true := by
  cases a with
  | val c v => simp [Attr.wf, Attr.code] at h hc; omega
  | aspath segs => exact ⟨segs, rfl, by simpa [Attr.wf] using h⟩
  | words c ws => simp [Attr.wf, Attr.code] at h hc; omega
  | bin c bs => simp [Attr.wf, Attr.code] at h hc; omega
  | opq c f bs => simp [Attr.wf, Attr.code] at h hc; subst hc; simp [canonicalFlags] at h

theorem wf_words {a : Attr} (h : a.wf = true) (k : Nat) (hk : k = 8 ∨ k = 10) (hc : a.code = k) :
    ∃ ws, a = .words k ws := by
  cases a with
  | val c v => simp [Attr.wf, Attr.code] at h hc; omega
  | aspath segs => simp [Attr.code] at hc; omega
  | words c ws => simp [Attr.code] at hc; subst hc; exact ⟨ws, rfl⟩
  | bin c bs => simp [Attr.wf, Attr.code] at h hc; omega
  | opq c f bs =>
    simp [Attr.wf, Attr.code] at h hc; subst hc
    rcases hk with hk | hk <;> subst hk <;> simp [canonicalFlags] at h

theorem wf_val {a : Attr} (h : a.wf = true) (k : Nat) (hk : k = 4 ∨ k = 5 ∨ k = 9) (hc : a.code = k) :
    ∃ v, a = .val k v := by
  cases a with
  | val c v => simp [Attr.code] at hc; subst hc; exact ⟨v, rfl⟩
  | aspath segs => simp [Attr.code] at hc; omega
  | words c ws => simp [Attr.wf, Attr.code] at h hc; omega
  | bin c bs => simp [Attr.wf, Attr.code] at h hc; omega
  | opq c f bs =>
    simp [Attr.wf, Attr.code] at h hc; subst hc
    rcases hk with hk | hk | hk <;> subst hk <;> simp [canonicalFlags] at h

theorem wf_opq_code {a : Attr} (h : a.wf = true) (ho : a.isOpaque = true) :
    canonicalFlags a.code = none := by
  cases a with
  | opq c f bs =>
    simp only [Attr.wf, Bool.and_eq_true, decide_eq_true_eq] at h
    simpa [Attr.code] using h.1
  | _ => simp [Attr.isOpaque] at ho

theorem wf_known_not_opaque {a : Attr} (h : a.wf = true) (hk : (canonicalFlags a.code).isSome = true) :
    a.isOpaque = false := by
  cases ho : a.isOpaque with
  | false => rfl
  | true => rw [wf_opq_code h ho] at hk; simp at hk

/-! ### AllWf is preserved by every stage -/

theorem allWf_filter {as : Attrs} (q : Attr → Bool) (h : AllWf as) : AllWf (as.filter q) :=
  fun a ha => h a (List.mem_filter.mp ha).1

theorem allWf_append {as bs : Attrs} (h1 : AllWf as) (h2 : AllWf bs) : AllWf (as ++ bs) := by
  intro a ha
  rcases List.mem_append.mp ha with h | h
  · exact h1 a h
  · exact h2 a h

theorem allWf_map {as : Attrs} (f : Attr → Attr) (hf : ∀ a, a.wf = true → (f a).wf = true)
    (h : AllWf as) : AllWf (as.map f) := by
  intro a ha
  rcases List.mem_map.mp ha with ⟨b, hb, rfl⟩
  exact hf b (h b hb)

theorem allWf_single {a : Attr} (h : a.wf = true) : AllWf [a] := by
  intro b hb; simp at hb; subst hb; exact h

theorem segWf_prepend (asn : Nat) {segs : List Seg} (h : segs.all segWf = true) :
    (asPathPrepend asn segs).all segWf = true := by
  cases segs with
  | nil => simp [asPathPrepend, segWf]
  | cons s rest =>
    obtain ⟨t, as⟩ := s
    simp only [asPathPrepend]
    split
    · rename_i hc
      simp only [List.all_cons, segWf, Bool.and_eq_true, decide_eq_true_eq] at h ⊢
      refine ⟨⟨by omega, by omega, ?_⟩, h.2⟩
      simp only [List.length_cons]; omega
    · simp only [List.all_cons, Bool.and_eq_true] at h ⊢
      exact ⟨by simp [segWf], h⟩

theorem segWf_prependConfed (asn : Nat) {segs : List Seg} (h : segs.all segWf = true) :
    (asPathPrependConfed asn segs).all segWf = true := by
  cases segs with
  | nil => simp [asPathPrependConfed, segWf]
  | cons s rest =>
    obtain ⟨t, as⟩ := s
    simp only [asPathPrependConfed]
    split
    · rename_i hc
      simp only [List.all_cons, segWf, Bool.and_eq_true, decide_eq_true_eq] at h ⊢
      refine ⟨⟨by omega, by omega, ?_⟩, h.2⟩
      simp only [List.length_cons]; omega
    · simp only [List.all_cons, Bool.and_eq_true] at h ⊢
      exact ⟨by simp [segWf], h⟩

theorem segWf_strip {segs : List Seg} (h : segs.all segWf = true) :
    (asPathStripConfed segs).all segWf = true := by
  simp only [asPathStripConfed, List.all_eq_true] at h ⊢
  intro s hs
  exact h s (List.mem_filter.mp hs).1

theorem allWf_mapAsPath {as : Attrs} (f : List Seg → List Seg)
    (hf : ∀ segs, segs.all segWf = true → (f segs).all segWf = true) (h : AllWf as) :
    AllWf (mapAsPath f as) := by
  apply allWf_map _ _ h
  intro a ha
  cases a with
  | aspath segs => simp only [Attr.wf] at ha ⊢; exact hf segs ha
  | _ => exact ha

theorem allWf_prePolicy (c : Ctx) {as : Attrs} (nh : Option Nh) (fam : Fam) (loc : Bool)
    (h : AllWf as) : AllWf (prePolicyDefaults c as nh fam loc).1 := by
  simp only [prePolicyDefaults]
  split
  · exact allWf_filter _ h
  · exact h

theorem allWf_policyComm (pol : Policy) {as : Attrs} (h : AllWf as) : AllWf (policyComm pol as) := by
  simp only [policyComm]
  split
  · exact h
  · exact allWf_append (allWf_filter _ h) (allWf_single (by simp [Attr.wf, COMMUNITY]))

theorem allWf_policyMed (pol : Policy) {as : Attrs} (h : AllWf as) : AllWf (policyMed pol as) := by
  simp only [policyMed]
  split
  · exact h
  · exact allWf_append (allWf_filter _ h) (allWf_single (by simp [Attr.wf, MED]))

theorem allWf_policy (pol : Policy) {as : Attrs} (nh o : Option Nh) (la pa : Addr) (h : AllWf as) :
    AllWf (applyPolicy pol as nh o la pa).2.1 := by
  simp only [applyPolicy]
  split
  · exact allWf_policyMed _ (allWf_policyComm _ h)
  · exact h

theorem allWf_rrReflect {as : Attrs} (rid cid : Nat) (h : AllWf as) : AllWf (rrReflectAttrs as rid cid) := by
  simp only [rrReflectAttrs]
  apply allWf_append
  · split
    · exact allWf_filter _ h
    · exact allWf_append (allWf_filter _ h) (allWf_single (by simp [Attr.wf, ORIGINATOR_ID]))
  · exact allWf_single (by simp [Attr.wf, CLUSTER_LIST])

theorem allWf_reflectStage (s : Sess) (p : Path) {as : Attrs} (h : AllWf as) : AllWf (reflectStage s p as) := by
  simp only [reflectStage]
  split
  · split
    · exact allWf_rrReflect _ _ h
    · exact h
  · exact h

theorem allWf_withLlgr {as : Attrs} (h : AllWf as) : AllWf (withLlgrStaleCommunity as) := by
  simp only [withLlgrStaleCommunity]
  split
  · split
    · exact h
    · apply allWf_map _ _ h
      intro a ha
      split
      · simp [Attr.wf, COMMUNITY]
      · exact ha
  · exact allWf_append h (allWf_single (by simp [Attr.wf, COMMUNITY]))

theorem allWf_llgrStage (p : Path) {as : Attrs} (h : AllWf as) : AllWf (llgrStage p as) := by
  simp only [llgrStage]; split
  · exact allWf_withLlgr h
  · exact h

theorem allWf_insertLp {as : Attrs} (h : AllWf as) : AllWf (insertLp as) := by
  induction as with
  | nil => exact allWf_single (by simp [Attr.wf, LOCAL_PREF])
  | cons a rest ih =>
    simp only [insertLp]
    split
    · intro b hb
      rcases List.mem_cons.mp hb with rfl | hb
      · exact h _ (List.mem_cons_self ..)
      · exact ih (fun x hx => h x (List.mem_cons_of_mem _ hx)) b hb
    · intro b hb
      rcases List.mem_cons.mp hb with rfl | hb
      · simp [Attr.wf, LOCAL_PREF]
      · exact h b hb

theorem orPartial_lt {f : Nat} (h : f < 256) : orPartial f < 256 := by
  simp only [orPartial]; split <;> omega

theorem allWf_opaquePass {as : Attrs} (h : AllWf as) : AllWf (opaquePass as) := by
  simp only [opaquePass]
  split
  · exact h
  · intro a ha
    rcases List.mem_filterMap.mp ha with ⟨b, hb, hf⟩
    have hbw := h b hb
    by_cases ho : b.isOpaque = true
    · simp only [ho, Bool.not_true, Bool.false_eq_true, if_false] at hf
      split at hf
      · cases hf
        cases b with
        | opq c f bs =>
          simp only [Attr.wf, withPartialBit, Bool.and_eq_true, decide_eq_true_eq] at hbw ⊢
          exact ⟨hbw.1, orPartial_lt hbw.2⟩
        | _ => simp [Attr.isOpaque] at ho
      · cases hf
    · simp only [ho, Bool.not_false, if_true, Option.some.injEq] at hf
      subst hf; exact hbw

/-! ### W through the stages -/

theorem W_prePolicy (c : Ctx) (as : Attrs) (nh : Option Nh) (fam : Fam) (loc : Bool) (k : Nat) :
    W k (prePolicyDefaults c as nh fam loc).1 = if c.role = .ebgp ∧ k = 4 then [] else W k as := by
  simp only [prePolicyDefaults]
  by_cases hr : c.role = .ebgp
  · by_cases hm : hasCode MED as = true
    · simp only [hr, hm, and_self, if_true, true_and]
      rw [W_dropCode]; simp [MED]
      by_cases hk : k = 4 <;> simp [hk]
    · simp only [hr, hm, and_false, if_false, true_and]
      by_cases hk : k = 4
      · subst hk
        have : Spec.present 4 as = false := by simpa [hasCode_eq, MED] using hm
        rw [present_eq] at this
        cases hw : W 4 as with
        | nil => simp [hw]
        | cons x xs => simp [hw] at this
      · simp [hk]
  · simp [hr]

theorem W_policyComm (pol : Policy) (as : Attrs) (k : Nat) (hk : k ≠ 8) :
    W k (policyComm pol as) = W k as := by
  simp only [policyComm]
  split
  · rfl
  · rw [W_append, W_dropCode, W_single]
    simp [COMMUNITY, Attr.code, hk, Ne.symm hk]

theorem W_policyMed_other (pol : Policy) (as : Attrs) (k : Nat) (hk : k ≠ 4) :
    W k (policyMed pol as) = W k as := by
  simp only [policyMed]
  split
  · rfl
  · rw [W_append, W_dropCode, W_single]
    simp [MED, Attr.code, hk, Ne.symm hk]

theorem W_policy_other (pol : Policy) (as : Attrs) (nh o : Option Nh) (la pa : Addr) (k : Nat)
    (h4 : k ≠ 4) (h8 : k ≠ 8) : W k (applyPolicy pol as nh o la pa).2.1 = W k as := by
  simp only [applyPolicy]
  split
  · rw [W_policyMed_other _ _ _ h4, W_policyComm _ _ _ h8]
  · rfl

theorem W4_policy (pol : Policy) (as : Attrs) (nh o : Option Nh) (la pa : Addr) (h : W 4 as = []) :
    W 4 (applyPolicy pol as nh o la pa).2.1 =
      match pol.med with
      | none => []
      | some act => if policyMatched pol as then [val 4 (medValue act 0)] else [] := by
  simp only [applyPolicy]
  have hc : W 4 (policyComm pol as) = [] := by rw [W_policyComm _ _ _ (by decide)]; exact h
  by_cases hm : policyMatched pol as = true
  · simp only [hm, if_true]
    simp only [policyMed]
    cases hmed : pol.med with
    | none => simpa using hc
    | some act =>
      simp only
      rw [W_append, W_dropCode, W_single]
      have hf : findCode 4 (policyComm pol as) = none := by
        rw [findCode_eq, hc]; rfl
      simp [MED, Attr.code, hf]
  · simp only [hm, Bool.false_eq_true, if_false]
    cases hmed : pol.med <;> simp [h]

theorem W_rrReflect_other (as : Attrs) (rid cid k : Nat) (h9 : k ≠ 9) (h10 : k ≠ 10) :
    W k (rrReflectAttrs as rid cid) = W k as := by
  simp only [rrReflectAttrs]
  rw [W_append, W_single]
  split
  · rw [W_dropCode]; simp [CLUSTER_LIST, Attr.code, h10, Ne.symm h10]
  · rw [W_append, W_dropCode, W_single]
    simp [CLUSTER_LIST, ORIGINATOR_ID, Attr.code, h10, Ne.symm h10, Ne.symm h9]

theorem W10_rrReflect (as : Attrs) (rid cid : Nat) :
    W 10 (rrReflectAttrs as rid cid) =
      [words 10 (cid :: ((findCode 10 as).bind words?).getD [])] := by
  simp only [rrReflectAttrs]
  rw [W_append, W_single]
  split
  · rw [W_dropCode]; simp [CLUSTER_LIST, Attr.code]
  · rw [W_append, W_dropCode, W_single]; simp [CLUSTER_LIST, ORIGINATOR_ID, Attr.code]

theorem present9_rrReflect (as : Attrs) (rid cid : Nat) :
    Spec.present 9 (rrReflectAttrs as rid cid) = true := by
  rw [present_eq]
  simp only [rrReflectAttrs]
  rw [W_append, W_single]
  split
  · rename_i h
    rw [W_dropCode]
    have : Spec.present 9 as = true := by simpa [hasCode_eq, ORIGINATOR_ID] using h
    rw [present_eq] at this
    simp [CLUSTER_LIST, Attr.code]
    intro hn; simp [hn] at this
  · rw [W_append, W_dropCode, W_single]; simp [CLUSTER_LIST, ORIGINATOR_ID, Attr.code]

theorem W_withLlgr_other (as : Attrs) (k : Nat) (hk : k ≠ 8) :
    W k (withLlgrStaleCommunity as) = W k as := by
  simp only [withLlgrStaleCommunity]
  split
  · split
    · rfl
    · apply W_map_other
      · intro a; split
        · rename_i h; simp [Attr.code, COMMUNITY] at h ⊢; exact h.symm
        · rfl
      · intro a ha
        have : ¬ a.code = COMMUNITY := by simp [COMMUNITY]; omega
        simp [this]
  · rw [W_append, W_single]; simp [COMMUNITY, Attr.code, Ne.symm hk]

theorem W_llgrStage_other (p : Path) (as : Attrs) (k : Nat) (hk : k ≠ 8) :
    W k (llgrStage p as) = W k as := by
  simp only [llgrStage]; split
  · exact W_withLlgr_other _ _ hk
  · rfl

theorem W_reflectStage_other (s : Sess) (p : Path) (as : Attrs) (k : Nat) (h9 : k ≠ 9) (h10 : k ≠ 10) :
    W k (reflectStage s p as) = W k as := by
  simp only [reflectStage]
  split
  · split
    · exact W_rrReflect_other _ _ _ _ h9 h10
    · rfl
  · rfl

/-- LLGR_STALE ends up in the first COMMUNITY attribute -/
theorem wordsOf8_withLlgr (as : Attrs) (h : AllWf as) :
    (Spec.wordsOf 8 (withLlgrStaleCommunity as)).contains LLGR_STALE = true := by
  simp only [withLlgrStaleCommunity]
  cases hw : W 8 as with
  | nil =>
    have hf : findCode COMMUNITY as = none := by rw [findCode_eq]; show (W 8 as).head? = none; rw [hw]; rfl
    simp only [hf, Option.bind_none]
    show (Spec.wordsOf 8 (as ++ [words COMMUNITY [LLGR_STALE]])).contains LLGR_STALE = true
    simp only [Spec.wordsOf]
    have : Spec.withCode 8 (as ++ [words COMMUNITY [LLGR_STALE]]) = [words COMMUNITY [LLGR_STALE]] := by
      show W 8 _ = _
      rw [W_append, hw, W_single]; simp [COMMUNITY, Attr.code]
    rw [this]; simp
  | cons x xs =>
    have hx : x ∈ W 8 as := by rw [hw]; exact List.mem_cons_self ..
    have hxm := (mem_W 8 x as).mp hx
    obtain ⟨ws, rfl⟩ := wf_words (h x hxm.1) 8 (Or.inl rfl) hxm.2
    have hf : findCode COMMUNITY as = some (words 8 ws) := by
      rw [findCode_eq]; show (W 8 as).head? = _; rw [hw]; rfl
    simp only [hf, Option.bind_some, words?]
    split
    · rename_i hc
      simp only [Spec.wordsOf]
      show (match W 8 as with | (.words _ ws) :: _ => ws | _ => []).contains LLGR_STALE = true
      rw [hw]; exact hc
    · simp only [Spec.wordsOf]
      have : Spec.withCode 8 (as.map (fun a => if a.code = COMMUNITY then words COMMUNITY (ws ++ [LLGR_STALE]) else a)) =
          (W 8 as).map (fun a => if a.code = COMMUNITY then words COMMUNITY (ws ++ [LLGR_STALE]) else a) := by
        apply W_map_all
        intro a; split
        · rename_i h; simp [Attr.code, COMMUNITY] at h ⊢; exact h.symm
        · rfl
      rw [this, hw]
      simp [COMMUNITY, Attr.code]

/-! ### export_attrs -/

theorem W_opaqueFilterMap (k : Nat) (as : Attrs) (h : ∀ a ∈ as, a.code = k → a.isOpaque = false) :
    W k (as.filterMap (fun a =>
      if !a.isOpaque then some a else if a.isTransitive then some a.withPartialBit else none)) = W k as := by
  induction as with
  | nil => rfl
  | cons a rest ih =>
    have ih' := ih (fun x hx => h x (List.mem_cons_of_mem _ hx))
    by_cases ho : a.isOpaque = true
    · have hk : ¬ a.code = k := by
        intro hk; have := h a (List.mem_cons_self ..) hk; simp [ho] at this
      have hk' : ¬ (a.withPartialBit).code = k := by
        cases a <;> simp_all [withPartialBit, Attr.code]
      by_cases ht : a.isTransitive = true
      · simp only [List.filterMap_cons, ho, ht, Bool.not_true, Bool.false_eq_true, if_false, if_true]
        rw [W_cons, W_cons, ih']; simp [hk, hk']
      · simp only [List.filterMap_cons, ho, ht, Bool.not_true, Bool.false_eq_true, if_false]
        rw [W_cons, ih']; simp [hk]
    · simp only [List.filterMap_cons, ho, Bool.not_false, if_true]
      rw [W_cons, W_cons, ih']

theorem W_opaquePass (k : Nat) (as : Attrs) (h : ∀ a ∈ as, a.code = k → a.isOpaque = false) :
    W k (opaquePass as) = W k as := by
  simp only [opaquePass]
  split
  · rfl
  · exact W_opaqueFilterMap k as h

theorem known_not_opaque (k : Nat) (hk : (canonicalFlags k).isSome = true) {as : Attrs} (h : AllWf as) :
    ∀ a ∈ as, a.code = k → a.isOpaque = false := by
  intro a ha hc
  exact wf_known_not_opaque (h a ha) (by rw [hc]; exact hk)

theorem W_mapAsPath_other (f : List Seg → List Seg) (as : Attrs) (k : Nat) (hk : k ≠ 2) :
    W k (mapAsPath f as) = W k as := by
  apply W_map_other
  · intro a; cases a <;> rfl
  · intro a ha; cases a <;> simp_all [Attr.code]

theorem W2_mapAsPath (f : List Seg → List Seg) (as : Attrs) (h : AllWf as) :
    W 2 (mapAsPath f as) = (W 2 as).map (fun a => match a with | .aspath s => .aspath (f s) | a => a) := by
  apply W_map_all
  intro a; cases a <;> rfl

theorem W_insertLp (as : Attrs) (k : Nat) (hk : k ≠ 5) : W k (insertLp as) = W k as := by
  induction as with
  | nil => simp [insertLp, W_single, W_nil, LOCAL_PREF, Attr.code, Ne.symm hk]
  | cons a rest ih =>
    simp only [insertLp]
    split
    · rw [W_cons, W_cons, ih]
    · rw [W_cons]; simp [LOCAL_PREF, Attr.code, Ne.symm hk]

theorem present5_insertLp (as : Attrs) : Spec.present 5 (insertLp as) = true := by
  induction as with
  | nil => simp [insertLp, Spec.present, LOCAL_PREF, Attr.code]
  | cons a rest ih =>
    simp only [insertLp]
    split
    · simp only [Spec.present, List.any_cons] at ih ⊢; simp [ih]
    · simp [Spec.present, LOCAL_PREF, Attr.code]

theorem exportAttrs_eq (c : Ctx) (as : Attrs) : exportAttrs c as = opaquePass (roleAttrs c as) := rfl

theorem allWf_roleAttrs (c : Ctx) {as : Attrs} (h : AllWf as) : AllWf (roleAttrs c as) := by
  simp only [roleAttrs]
  cases c.role with
  | rsClient => exact h
  | ibgp =>
    simp only [injectLocalPrefIfAbsent]; split
    · exact h
    · exact allWf_insertLp h
  | rrClient =>
    simp only [injectLocalPrefIfAbsent]; split
    · exact h
    · exact allWf_insertLp h
  | confed =>
    simp only
    have hm := allWf_mapAsPath (asPathPrependConfed c.localAsn) (fun _ hs => segWf_prependConfed _ hs) h
    split
    · exact hm
    · exact allWf_append hm (allWf_single (by simp [Attr.wf, asPathPrependConfed, segWf]))
  | ebgp =>
    simp only
    have hm := allWf_mapAsPath (fun s => asPathPrepend (if c.confedId ≠ 0 then c.confedId else c.localAsn) (asPathStripConfed s))
      (fun _ hs => segWf_prepend _ (segWf_strip hs)) (allWf_filter (fun a =>
          !(a.code = LOCAL_PREF ∨ a.code = ORIGINATOR_ID ∨ a.code = CLUSTER_LIST ∨ a.code = AIGP)) h)
    split
    · exact hm
    · exact allWf_append hm (allWf_single (by simp [Attr.wf, asPathPrepend, segWf]))

theorem allWf_exportAttrs (c : Ctx) {as : Attrs} (h : AllWf as) : AllWf (exportAttrs c as) :=
  allWf_opaquePass (allWf_roleAttrs c h)

/-- for a known code, the opaque pass is invisible -/
theorem W_exportAttrs_known (c : Ctx) (as : Attrs) (h : AllWf as) (k : Nat)
    (hk : (canonicalFlags k).isSome = true) : W k (exportAttrs c as) = W k (roleAttrs c as) := by
  rw [exportAttrs_eq]
  exact W_opaquePass k _ (known_not_opaque k hk (allWf_roleAttrs c h))

/-! ### small facts used by the clauses -/

theorem W_filter_none (k : Nat) (q : Attr → Bool) (as : Attrs) (h : ∀ a, a.code = k → q a = false) :
    W k (as.filter q) = [] := by
  rw [W_eq_nil_iff]
  intro a ha hk
  have := (List.mem_filter.mp ha).2
  rw [h a hk] at this; cases this

theorem distinct_W (k : Nat) (as : Attrs) (h : Spec.codesDistinct as = true) :
    W k as = [] ∨ ∃ a, W k as = [a] := by
  induction as with
  | nil => left; rfl
  | cons a rest ih =>
    simp only [Spec.codesDistinct, Bool.and_eq_true, Bool.not_eq_true'] at h
    rw [W_cons]
    by_cases hk : a.code = k
    · right
      refine ⟨a, ?_⟩
      have : W k rest = [] := by
        have hp := h.1
        rw [hk, present_eq] at hp
        cases hw : W k rest with
        | nil => rfl
        | cons x xs => simp [hw] at hp
      simp [hk, this]
    · simp only [hk, if_false]; exact ih h.2

theorem strip_eq (segs : List Seg) :
    segs.filter (fun sg => !Spec.isConfedSeg sg) = asPathStripConfed segs := by
  simp only [asPathStripConfed, Spec.isConfedSeg]
  congr 1
  funext sg
  by_cases h3 : sg.1 = 3 <;> by_cases h4 : sg.1 = 4 <;> simp [h3, h4]

theorem all_len_of_segWf {segs : List Seg} (h : segs.all segWf = true) :
    segs.all (fun s => s.2.length ≤ 255) = true := by
  simp only [List.all_eq_true, segWf, Bool.and_eq_true, decide_eq_true_eq] at h ⊢
  intro s hs; exact (h s hs).2.2

theorem prependedOnce_prepend (asn : Nat) (base : List Seg) (h : base.all segWf = true) :
    Spec.prependedOnce 2 asn base (asPathPrepend asn base) = true := by
  have hall := all_len_of_segWf (segWf_prepend asn h)
  simp only [Spec.prependedOnce, hall, Bool.true_and]
  cases base with
  | nil => simp [asPathPrepend]
  | cons s rest =>
    obtain ⟨t, as⟩ := s
    simp only [asPathPrepend]
    split
    · rename_i hc; simp [hc.1]
    · simp

theorem prependedOnce_prependConfed (asn : Nat) (base : List Seg) (h : base.all segWf = true) :
    Spec.prependedOnce 3 asn base (asPathPrependConfed asn base) = true := by
  have hall := all_len_of_segWf (segWf_prependConfed asn h)
  simp only [Spec.prependedOnce, hall, Bool.true_and]
  cases base with
  | nil => simp [asPathPrependConfed]
  | cons s rest =>
    obtain ⟨t, as⟩ := s
    simp only [asPathPrependConfed]
    split
    · rename_i hc; simp [hc.1]
    · simp

theorem nhAddr_eq (n : Nh) : Spec.nhAddr n = n.addr := by cases n <;> rfl
theorem unspecified_eq (a : Addr) : Spec.unspecified a = a.isUnspecified := by cases a <;> rfl

theorem selfNh_addr (c : Ctx) : (selfNh c).addr = c.localAddr := by
  simp only [selfNh]
  cases c.localAddr with
  | v4 a => rfl
  | v6 a => cases c.linkAddr <;> rfl

theorem clamp_eq (i : Int) : clampU32 i = Spec.clamp32 i := rfl

theorem medValue_zero (act : MedAct) : medValue act 0 = Spec.policyMed act := by
  cases act with
  | set v => rfl
  | mod d => simp [medValue, Spec.policyMed, clamp_eq]

theorem orPartial_bits (f : Nat) (ht : f / 64 % 2 = 1) :
    orPartial f / 32 % 2 = 1 ∧ orPartial f / 64 % 2 = 1 ∧ (orPartial f = f ∨ orPartial f = f + 32) := by
  simp only [orPartial]
  split <;> omega

/-! ## D. the pipeline, summarised -/

/-- the attribute list between the policy stage and `export_attrs` -/
def mid (s : Sess) (p : Path) (as1 : Attrs) : Attrs := llgrStage p (reflectStage s p as1)

theorem xform_some {s : Sess} {p : Path} {out : Attrs} {nh : Option Nh}
    (h : xform s p = some (out, nh)) :
    ∃ as1, policyStage s p = some (as1, nh) ∧
      out = exportAttrs s.ctx (mid s p as1) := by
  simp only [xform] at h
  cases hp : policyStage s p with
  | none => simp [hp] at h
  | some r =>
    simp only [hp, Option.map_some, Option.some.injEq, Prod.mk.injEq] at h
    exact ⟨r.1, by rw [← h.2], h.1.symm⟩

theorem policyStage_cases {s : Sess} {p : Path} {as1 : Attrs} {nh : Option Nh}
    (h : policyStage s p = some (as1, nh)) :
    (s.policy = none ∧ as1 = (prePolicyDefaults s.ctx p.attrs p.nh s.fam p.src.isLocal).1 ∧
        nh = (prePolicyDefaults s.ctx p.attrs p.nh s.fam p.src.isLocal).2) ∨
    (∃ pol, s.policy = some pol ∧
        as1 = (applyPolicy pol (prePolicyDefaults s.ctx p.attrs p.nh s.fam p.src.isLocal).1
                 (prePolicyDefaults s.ctx p.attrs p.nh s.fam p.src.isLocal).2 p.nh s.ctx.localAddr s.remoteAddr).2.1 ∧
        nh = (applyPolicy pol (prePolicyDefaults s.ctx p.attrs p.nh s.fam p.src.isLocal).1
                 (prePolicyDefaults s.ctx p.attrs p.nh s.fam p.src.isLocal).2 p.nh s.ctx.localAddr s.remoteAddr).2.2) := by
  simp only [policyStage] at h
  cases hp : s.policy with
  | none =>
    left
    simp only [hp, Option.some.injEq] at h
    exact ⟨rfl, by rw [h], by rw [h]⟩
  | some pol =>
    right
    simp only [hp] at h
    by_cases hr : (applyPolicy pol (prePolicyDefaults s.ctx p.attrs p.nh s.fam p.src.isLocal).1
                 (prePolicyDefaults s.ctx p.attrs p.nh s.fam p.src.isLocal).2 p.nh s.ctx.localAddr s.remoteAddr).1 = .reject
    · simp [hr] at h
    · simp only [hr, if_false, Option.some.injEq] at h
      exact ⟨pol, rfl, by rw [h], by rw [h]⟩

theorem policyStage_wf {s : Sess} {p : Path} {as1 : Attrs} {nh : Option Nh}
    (h : policyStage s p = some (as1, nh)) (hw : AllWf p.attrs) : AllWf as1 := by
  have h0 := allWf_prePolicy s.ctx p.nh s.fam p.src.isLocal hw
  rcases policyStage_cases h with ⟨_, e, _⟩ | ⟨pol, _, e, _⟩
  · rw [e]; exact h0
  · rw [e]; exact allWf_policy pol _ _ _ _ h0

theorem policyStage_other {s : Sess} {p : Path} {as1 : Attrs} {nh : Option Nh}
    (h : policyStage s p = some (as1, nh)) (k : Nat) (h4 : k ≠ 4) (h8 : k ≠ 8) :
    W k as1 = W k p.attrs := by
  have h0' : W k (prePolicyDefaults s.ctx p.attrs p.nh s.fam p.src.isLocal).1 = W k p.attrs := by
    rw [W_prePolicy]; simp [h4]
  rcases policyStage_cases h with ⟨_, e, _⟩ | ⟨pol, _, e, _⟩
  · rw [e]; exact h0'
  · rw [e, W_policy_other _ _ _ _ _ _ _ h4 h8]; exact h0'

/-- MED after the policy stage towards an eBGP receiver: absent, or what the MED action makes of a
    route without MED -/
theorem policyStage_med_ebgp {s : Sess} {p : Path} {as1 : Attrs} {nh : Option Nh}
    (h : policyStage s p = some (as1, nh)) (hr : s.ctx.role = .ebgp) :
    match s.policy with
    | none => W 4 as1 = []
    | some pol => match pol.med with
        | none => W 4 as1 = []
        | some act => W 4 as1 = [] ∨ W 4 as1 = [val 4 (medValue act 0)] := by
  have h0 : W 4 (prePolicyDefaults s.ctx p.attrs p.nh s.fam p.src.isLocal).1 = [] := by
    rw [W_prePolicy]; simp [hr]
  rcases policyStage_cases h with ⟨hp, e, _⟩ | ⟨pol, hp, e, _⟩
  · simp only [hp]; rw [e]; exact h0
  · simp only [hp]
    have := W4_policy pol _ (prePolicyDefaults s.ctx p.attrs p.nh s.fam p.src.isLocal).2 p.nh
      s.ctx.localAddr s.remoteAddr h0
    rw [← e] at this
    cases hm : pol.med with
    | none => simpa [hm] using this
    | some act =>
      simp only [hm] at this ⊢
      split at this
      · right; exact this
      · left; exact this

theorem policyNh_none (pol : Policy) (nh o : Option Nh) (la pa : Addr) (h : pol.nh = none) :
    policyNh pol nh o la pa = nh := by simp [policyNh, h]

/-- next hop after the policy stage when no next-hop action is configured -/
theorem policyStage_nh {s : Sess} {p : Path} {as1 : Attrs} {nh : Option Nh}
    (h : policyStage s p = some (as1, nh))
    (hpol : ∀ pol, s.policy = some pol → pol.nh = none) :
    nh = exportNexthop s.ctx p.nh s.fam p.src.isLocal := by
  rcases policyStage_cases h with ⟨_, _, e⟩ | ⟨pol, hp, _, e⟩
  · rw [e]; rfl
  · rw [e]
    simp only [applyPolicy]
    split
    · simp only [policyNh_none _ _ _ _ _ (hpol pol hp)]; rfl
    · rfl

def pathOfList : Attrs → List Seg
  | (.aspath segs) :: _ => segs
  | _ => []
def wordsOfList : Attrs → List Nat
  | (.words _ ws) :: _ => ws
  | _ => []
def valueOfList : Attrs → Option Nat
  | (.val _ v) :: _ => some v
  | _ => none

theorem pathOf_eq (as : Attrs) : Spec.pathOf as = pathOfList (W 2 as) := by
  simp only [Spec.pathOf, pathOfList]; rfl
theorem wordsOf_eq (k : Nat) (as : Attrs) : Spec.wordsOf k as = wordsOfList (W k as) := by
  simp only [Spec.wordsOf, wordsOfList]; rfl
theorem valueOf_eq (k : Nat) (as : Attrs) : Spec.valueOf k as = valueOfList (W k as) := by
  simp only [Spec.valueOf, valueOfList]; rfl

theorem pathOf_W {as : Attrs} {l : Attrs} (h : W 2 as = l) : Spec.pathOf as = pathOfList l := by
  rw [pathOf_eq, h]
theorem wordsOf_W {as : Attrs} {l : Attrs} (k : Nat) (h : W k as = l) : Spec.wordsOf k as = wordsOfList l := by
  rw [wordsOf_eq, h]
theorem valueOf_W {as : Attrs} {l : Attrs} (k : Nat) (h : W k as = l) : Spec.valueOf k as = valueOfList l := by
  rw [valueOf_eq, h]

theorem mid_wf (s : Sess) (p : Path) {as1 : Attrs} (h : AllWf as1) : AllWf (mid s p as1) :=
  allWf_llgrStage p (allWf_reflectStage s p h)

theorem mid_other (s : Sess) (p : Path) (as1 : Attrs) (k : Nat) (h8 : k ≠ 8) (h9 : k ≠ 9) (h10 : k ≠ 10) :
    W k (mid s p as1) = W k as1 := by
  simp only [mid]
  rw [W_llgrStage_other _ _ _ h8, W_reflectStage_other _ _ _ _ h9 h10]

end Rbgp.Export.Proofs
