/-
  Rbgp.Export.ConvAHistory — C01, add-path sessions, part 6: soft reset OUT / route refresh, and
  histories of an established add-path session; convergence.
-/
import Rbgp.Export.ConvADump
import Rbgp.Export.ConvHistory
namespace Rbgp.Export.ConvA
open Rbgp.Export Rbgp.Export.Conv

def setEA (E : Net → Nat → Exp) (net : Net) (e' : Exp) : Net → Nat → Exp := fun n w => if n = net then e' else E n w

/-- a refresh re-evaluates every path id of the prefix -/
theorem stepEA_resend (E : Net → Nat → Exp) (V : View) (u : Change Net) (e : Exp) (h : u.anyChanged = true) :
    stepEA E V u e true = setEA E u.net e := by
  funext n w
  simp [stepEA, setEA, h, skipB]

/-- outside a refresh, and when everything in the view was last processed under `e`, so is everything
    in the view after the change -/
theorem stepEA_current (E : Net → Nat → Exp) (V : View) (hw : V.wf) (u : Change Net) (e : Exp) (resend : Bool)
    (ha : AdmA V u resend) (he : e.max ≠ 1)
    (hcur : ∀ y ∈ V, ∀ w, E y.net w = e) :
    ∀ x ∈ V.update u.net u.destId u.paths, ∀ w, stepEA E V u e resend x.net w = e := by
  intro x hx w
  simp only [stepEA]
  split
  · rfl
  · rename_i hc
    rcases (View.mem_update _ _ _ _ _).mp hx with ⟨hv, _⟩ | ⟨hps, rfl⟩
    · exact hcur x hv w
    · simp only [decide_true, Bool.and_true, Bool.and_eq_true, Bool.not_eq_true', not_and, Bool.not_eq_false] at hc
      -- the prefix was in the view already
      have hne : V.paths u.net ≠ [] := by
        cases hany : u.anyChanged with
        | false => rw [ha.anySame hany]; exact hps
        | true =>
          have hsk := hc hany
          simp only [skipB, Bool.and_eq_true, Option.isSome_iff_ne_none] at hsk
          intro hnil
          apply hsk.2
          simp only [Tof]
          rw [hnil]
          cases hm : (E u.net w).max == 1 with
          | true => simp [target, (by simpa using hm : (E u.net w).max = 1), tlookup]
          | false => rw [target_nil_ap _ (by simpa using hm)]; rfl
      obtain ⟨y, hy, hyn, _⟩ := paths_ne_idOf V u.net hne
      have := hcur y hy w
      rw [hyn] at this; exact this

/-! ## soft reset OUT / route refresh, run when the session has caught up with the RIB -/

structure SnapMatchesA (V : View) (cs : List (Change Net)) : Prop where
  snap : SnapshotA cs
  ids : ∀ c ∈ cs, V.idOf c.net = some c.destId
  cover : ∀ x ∈ V, ∃ c ∈ cs, c.net = x.net

def refreshEA (E : Net → Nat → Exp) (cs : List (Change Net)) (e' : Exp) : Net → Nat → Exp :=
  cs.foldl (fun E c => setEA E c.net e') E

theorem refreshEA_other (E : Net → Nat → Exp) (cs : List (Change Net)) (e' : Exp) (net : Net)
    (h : net ∉ cs.map (·.net)) (w : Nat) : refreshEA E cs e' net w = E net w := by
  induction cs generalizing E with
  | nil => rfl
  | cons c rest ih =>
    simp only [List.map_cons, List.mem_cons, not_or] at h
    simp only [refreshEA, List.foldl_cons] at ih ⊢
    rw [ih _ h.2]; simp [setEA, h.1]

theorem refreshEA_mem (E : Net → Nat → Exp) (cs : List (Change Net)) (e' : Exp) (net : Net)
    (h : net ∈ cs.map (·.net)) (w : Nat) : refreshEA E cs e' net w = e' := by
  induction cs generalizing E with
  | nil => cases h
  | cons c rest ih =>
    simp only [refreshEA, List.foldl_cons] at ih ⊢
    by_cases hr : net ∈ rest.map (·.net)
    · exact ih _ hr
    · have := refreshEA_other (setEA E c.net e') rest e' net hr w
      simp only [refreshEA] at this
      rw [this]
      simp only [List.map_cons, List.mem_cons] at h
      rcases h with h | h
      · simp [setEA, h]
      · exact absurd h hr

theorem admA_of_idOf (V : View) (hw : V.wf) (c : Change Net) (hid : V.idOf c.net = some c.destId)
    (hany : c.anyChanged = true) (hn : (c.paths.map (·.pid)).Nodup) : AdmA V c true := by
  obtain ⟨y, hy, hyn, hyi⟩ := idOf_some_mem V c.net c.destId hid
  refine ⟨?_, ?_, ?_, ?_, hn⟩
  · intro x hx hxi
    have := mem_unique_id V hw x y hx hy (hxi.trans hyi.symm)
    rw [this]; exact hyn
  · intro x hx hxn
    have := mem_unique_net V hw x y hx hy (hxn.trans hyn.symm)
    rw [this]; exact hyi
  · intro h; rw [hany] at h; cases h
  · intro h; cases h

theorem sinv_foldHandleA {E : Net → Nat → Exp} {V : View} {st : SessState} (S : SInvA E V st)
    (cs : List (Change Net)) (hs : SnapshotA cs) (hid : ∀ c ∈ cs, V.idOf c.net = some c.destId) :
    SInvA (refreshEA E cs st.sess.exp) (viewRefresh V cs) (cs.foldl (fun st c => st.handle c true) st) := by
  induction cs generalizing E V st with
  | nil => exact S
  | cons c rest ih =>
    simp only [List.foldl_cons, refreshEA, viewRefresh]
    have hany := hs.any c (by simp)
    have hadm := admA_of_idOf V S.inv.vwf c (hid c (by simp)) hany (hs.pids c (by simp))
    have hstep := sinv_handleA S c true hadm
    rw [stepEA_resend _ _ _ _ hany] at hstep
    have hs' : SnapshotA rest :=
      ⟨⟨(List.nodup_cons.mp hs.snap.nets).2, (List.nodup_cons.mp hs.snap.ids).2,
        fun x hx => hs.snap.nonempty x (List.mem_cons_of_mem _ hx), fun x hx => hs.snap.flags x (List.mem_cons_of_mem _ hx)⟩,
       fun x hx => hs.any x (List.mem_cons_of_mem _ hx), fun x hx => hs.pids x (List.mem_cons_of_mem _ hx)⟩
    have hid' : ∀ c' ∈ rest, (V.update c.net c.destId c.paths).idOf c'.net = some c'.destId := by
      intro c' hc'
      have hne : c'.net ≠ c.net := by
        intro heq
        have := (List.nodup_cons.mp hs.snap.nets).1
        apply this
        show c.net ∈ List.map (·.net) rest
        rw [← heq]; exact List.mem_map_of_mem hc'
      rw [View.idOf_update]; simp only [hne, if_false]
      exact hid c' (List.mem_cons_of_mem _ hc')
    have := ih hstep hs' hid'
    have hsess : (st.handle c true).sess = st.sess := rfl
    rw [hsess] at this
    exact this

/-- `export_invariant` (soft reset OUT / route refresh with the session caught up), add-path -/
theorem sinv_refreshA {E : Net → Nat → Exp} {V : View} {st : SessState} (S : SInvA E V st)
    (cs : List (Change Net)) (hm : SnapMatchesA V cs) :
    SInvA (refreshEA E cs st.sess.exp) (viewRefresh V cs) (refreshS st cs) := by
  have := sinv_foldHandleA S cs hm.snap hm.ids
  have hsess : (cs.foldl (fun st c => st.handle c true) st).sess = st.sess := sess_foldHandle st cs
  refine ⟨?_, this.buf, this.mok⟩
  have hI := this.inv
  rw [hsess] at hI
  refine ⟨hI.vwf, hI.pids, ?_, ?_, ?_⟩
  · simp only [refreshS]; rw [hsess]; exact hI.ap
  · simp only [refreshS]; rw [hsess]; exact hI.winE
  · exact
      { inj := hI.inv.inj
        mode := hI.inv.mode
        eff := hI.inv.eff
        tOwn := hI.inv.tOwn
        mapIff := hI.inv.mapIff
        reachOwn := hI.inv.reachOwn
        unreachOwn := hI.inv.unreachOwn
        reachKeys := hI.inv.reachKeys
        unreachKeys := hI.inv.unreachKeys
        sentNodup := hI.inv.sentNodup }

theorem refresh_currentA {E : Net → Nat → Exp} (V : View) (cs : List (Change Net)) (hm : SnapMatchesA V cs) (e' : Exp) :
    ∀ x ∈ viewRefresh V cs, ∀ w, refreshEA E cs e' x.net w = e' := by
  intro x hx w
  apply refreshEA_mem
  rcases mem_viewRefresh_net V cs x hx with h | h
  · exact h
  · obtain ⟨c, hc, hcn⟩ := hm.cover x h
    rw [← hcn]; exact List.mem_map_of_mem hc

/-- a replaced export policy changes neither the window nor the invariant -/
theorem sinv_policyA {E : Net → Nat → Exp} {V : View} {st : SessState} (S : SInvA E V st) (pol : Option Policy) :
    SInvA E V { st with sess := { st.sess with policy := pol } } :=
  ⟨⟨S.inv.vwf, S.inv.pids, S.inv.ap, S.inv.winE, S.inv.inv⟩, S.buf, S.mok⟩

/-! ## histories -/

/-- every delivered change is one the RIB may emit for the view at that moment, and every refresh
    runs when the session has caught up with the RIB -/
def AdmSeqA : View → List SEv → Prop
  | _, [] => True
  | V, .change u :: rest => AdmA V u false ∧ AdmSeqA (V.update u.net u.destId u.paths) rest
  | V, .flush :: rest => AdmSeqA V rest
  | V, .policy _ :: rest => AdmSeqA V rest
  | V, .refresh cs :: rest => SnapMatchesA V cs ∧ AdmSeqA (viewRefresh V cs) rest

theorem run_invA (evs : List SEv) :
    ∀ (E : Net → Nat → Exp) (V : View) (st : SessState) (stale : Bool), SInvA E V st →
      (stale = false → ∀ x ∈ V, ∀ w, E x.net w = st.sess.exp) → AdmSeqA V evs →
      ∃ E', SInvA E' (viewAfter V evs) (runS st evs) ∧
        (staleAfter stale evs = false → ∀ x ∈ viewAfter V evs, ∀ w, E' x.net w = (runS st evs).sess.exp) := by
  induction evs with
  | nil => intro E V st stale S hc _; exact ⟨E, S, hc⟩
  | cons ev rest ih =>
    intro E V st stale S hc hadm
    cases ev with
    | change u =>
      simp only [AdmSeqA] at hadm
      have hstep := sinv_handleA S u false hadm.1
      refine ih _ _ _ stale hstep ?_ hadm.2
      intro hs
      exact stepEA_current E V S.inv.vwf u st.sess.exp false hadm.1 S.inv.ap (hc hs)
    | flush =>
      simp only [AdmSeqA] at hadm
      exact ih _ _ _ stale (sinv_flushA S) hc hadm
    | policy pol =>
      simp only [AdmSeqA] at hadm
      refine ih _ _ _ true (sinv_policyA S pol) ?_ hadm
      intro h; cases h
    | refresh cs =>
      simp only [AdmSeqA] at hadm
      have hstep := sinv_refreshA S cs hadm.1
      refine ih _ _ _ false hstep ?_ hadm.2
      intro _ x hx w
      have hsess : (refreshS st cs).sess = st.sess := by simp only [refreshS]; rw [sess_foldHandle]
      show refreshEA E cs st.sess.exp x.net w = (refreshS st cs).sess.exp
      rw [hsess]
      exact refresh_currentA V cs hadm.1 st.sess.exp x hx w

/-- what an add-path session with behaviour `e` advertises for the view -/
def wantRouteA (e : Exp) (V : View) (net : Net) (w : Nat) : Option Route :=
  (tlookup w (target e (V.paths net))).map (routeAt net w)

theorem wantA_current (E : Net → Nat → Exp) (V : View) (e : Exp) (he : e.max ≠ 1)
    (hE : ∀ net w, (E net w).max ≠ 1) (hcur : ∀ x ∈ V, ∀ w, E x.net w = e) (net : Net) (w : Nat) :
    wantA E V net w = wantRouteA e V net w := by
  simp only [wantA, wantRouteA, Tof]
  cases hf : V.find net with
  | none =>
    have : V.paths net = [] := by simp [View.paths, hf]
    rw [this, target_nil_ap _ (hE net w), target_nil_ap _ he]
  | some x =>
    have hxm := View.find_mem V net x hf
    have := hcur x hxm.1 w
    rw [hxm.2] at this; rw [this]

/-- `convergence` (add-path session): after any history of admissible changes, flushes,
    export-policy changes and in-order refreshes in which no policy change is left without its soft
    reset, the flushed neighbour view holds for every prefix and path id exactly what the top-N
    window of the last delivered paths exports to under the current policy -/
theorem convergenceA (sess : Sess) (hm : sess.max ≠ 1) (rib0 : Rib) (h0 : SnapshotA (snapshotOf sess rib0))
    (evs : List SEv) (hadm : AdmSeqA (viewOf (snapshotOf sess rib0)) evs)
    (hfresh : staleAfter false evs = false) (net : Net) (w : Nat) :
    Mirror.get (runS (establish sess rib0) evs).flush.mirror net w =
      wantRouteA (runS (establish sess rib0) evs).sess.exp (viewAfter (viewOf (snapshotOf sess rib0)) evs) net w := by
  have S0 := sinv_establishA sess hm rib0 h0
  obtain ⟨E', S', hcur⟩ := run_invA evs (fun _ _ => sess.exp) _ (establish sess rib0) false S0
    (fun _ x _ _ => by simp [establish]) hadm
  rw [convergedA S' net w]
  exact wantA_current E' _ _ S'.inv.ap (fun n x => (S'.inv.winE n x).1) (hcur hfresh) net w

/-- what a brand-new add-path session is sent -/
theorem fresh_dumpA (sess : Sess) (hm : sess.max ≠ 1) (rib : Rib) (h : SnapshotA (snapshotOf sess rib)) (net : Net) (w : Nat) :
    Mirror.get (freshDump sess rib) net w = wantRouteA sess.exp (viewOf (snapshotOf sess rib)) net w := by
  have S := sinv_establishA sess hm rib h
  have := convergedA S net w
  rw [wantA_current _ _ sess.exp hm (fun _ _ => hm) (fun _ _ _ => rfl)] at this
  exact this

end Rbgp.Export.ConvA
