/-
  Rbgp.Export.Props — C09: routes are propagated only where BGP allows, with correctly
  rewritten attributes.  Statements only; proofs are `exact` calls into Proofs / ProofsClauses.

  Vocabulary: `exportOne c` is what the model of `process_nlri_change` hands to the sink when the
  path `c.path` is offered to the session `c.sess` (an empty export map): `suppressed` or
  `reach pid nexthop attributes`.  `xform s p = some (out, nh)` is the rewrite of a visible,
  policy-accepted path.  `Spec.wfExport c`: attribute sets as the decoder builds them (one
  attribute per code, well-formed), iBGP / RR-client sources have remote AS = local AS.
-/
import Rbgp.Export.ProofsClauses
namespace Rbgp.Export.Props
open Rbgp.Export Rbgp.Export.Attr

/-! ## master theorems: the reference checker accepts every run of the model -/

/-- export half: for every receiver that is not a route-server client, every source, policy and
    attribute set -/
theorem check_run_ok (c : ExportCase) (hrs : c.sess.ctx.role ≠ .rsClient) :
    Spec.checkExport c (exportOne c) = .ok :=
  Proofs.checkExport_exportOne c hrs

/-- ... and for every receiver, route-server clients included, every sentence of the statement but
    the one finding F09-rs-client-internal-attributes is about ("rs-client-internal-attribute-sent") holds on what is sent -/
theorem check_run_all_but_rs {c : ExportCase} {out : Attrs} {nh : Option Nh} (hwf : Spec.wfExport c = true)
    (hv : visible c.sess c.path = true) (hx : xform c.sess c.path = some (out, nh)) :
    ∀ x ∈ Spec.exportClauses c nh (sortByCode out), x.2 ≠ "rs-client-internal-attribute-sent" → x.1 = false :=
  Proofs.clauses_exportOne hwf hv hx

/-- liveness of the model (the checker accepts `suppressed` everywhere, the model does not suppress
    everywhere): an advertisement is produced exactly when the path passes echo prevention, split
    horizon and RS isolation, the export policy accepts it and the window is not empty -/
theorem advertised_iff (c : ExportCase) :
    Proofs.isReach (exportOne c) =
      (visible c.sess c.path && (xform c.sess c.path).isSome && (c.sess.max != 0)) :=
  Proofs.exportOne_isReach c

/-- the full-strength statement: every receiver -/
def C09_full : Prop := ∀ c : ExportCase, Spec.checkExport c (exportOne c) = .ok

/-- a route-server client's LOCAL_PREF / ORIGINATOR_ID reach the other clients (finding F09-rs-client-internal-attributes) -/
def caseRsLeak : ExportCase :=
  { sess := ⟨⟨.rsClient, 65001, .v4 167772417, none, 0⟩, .v4 167772161, none, none, .ipv4, 1⟩,
    path := { pid := 1, src := ⟨.peer, .v4 167772162, 65002, 65001, 33686018, .rsClient, false⟩,
              nh := some (.v4 167772162), attrs := [.val 1 0, .aspath [(2, [65002])], .val 5 200, .val 9 84215045] } }

theorem C09_full_fails : ¬ C09_full := by
  intro h
  have := h caseRsLeak
  revert this
  decide

/-- a route that turns LLGR-stale after it was advertised is advertised again, with LLGR_STALE and
    rewritten as any advertisement of a stale route (`exportTwice`: send, `restale_llgr`, re-feed) -/
theorem check_stale_ok (c : ExportCase) (hrs : c.sess.ctx.role ≠ .rsClient) :
    Spec.checkExport2 c (exportTwice c).1 (exportTwice c).2 = .ok :=
  Proofs.checkExport2_exportTwice c hrs

/-- the second half of `exportTwice` is a fresh export of the stale route -/
theorem stale_is_readvertised (c : ExportCase) :
    exportTwice c = (exportOne c, Proofs.toObs2 (exportOne (Spec.staleCase c))) :=
  Proofs.exportTwice_eq c

/-! ## wire cases (two real sessions of one configured router): no theorem of their own; the model
    `WireCase.run` composes `rxInstalled` and `exportOne` on the session parameters
    `accept_connection` derives.  The full-strength statement over configurations fails twice: -/

def C09_wire_full : Prop := ∀ w : WireCase, Spec.checkWire w w.run = .ok

/-- finding F09-cluster-loop-non-ibgp-session: the CLUSTER_LIST loop test is skipped on sessions that are not iBGP -/
def wireClusterLoop : WireCase :=
  { asn := 65001, rid := 16843009, confed := some (65100, [65101]), localAddr := .v4 2130706433,
    src := ⟨.v4 2130706434, 65101, 0, 33686018, false, false, none⟩, dst := none, dstFirst := false,
    nh := .v4 2130706434, attrs := [.val 1 0, .aspath [(3, [65101])], .val 5 100, .words 10 [16843009]] }

/-- finding F09-member-as-loop-external-session: towards a neighbour outside the confederation only the confederation id is looked
    for in the AS_PATH, not the router's own (member) AS -/
def wireMemberAsLoop : WireCase :=
  { asn := 65001, rid := 16843009, confed := some (65100, [65101]), localAddr := .v4 2130706433,
    src := ⟨.v4 2130706434, 65002, 0, 33686018, false, false, none⟩, dst := none, dstFirst := false,
    nh := .v4 2130706434, attrs := [.val 1 0, .aspath [(2, [65002, 65001])]] }

theorem C09_wire_full_fails : ¬ C09_wire_full := by
  intro h
  have := h wireClusterLoop
  revert this
  decide

example : Spec.checkWire wireMemberAsLoop wireMemberAsLoop.run = .fail "as-loop-route-installed" := by decide
example : Spec.checkWire wireClusterLoop wireClusterLoop.run = .fail "cluster-loop-route-installed" := by decide

/-- inbound half: a looping UPDATE is never installed -/
theorem check_rx_ok (c : RxCase) : Spec.checkRx c (rxInstalled c) = .ok :=
  Proofs.checkRx_rxInstalled c

/-! ## propagation -/

/-- never advertised back to the peer it was learned from -/
theorem no_echo (c : ExportCase) (h : c.path.src.addr = c.sess.remoteAddr) :
    exportOne c = .suppressed := Proofs.no_echo c h

/-- never from one non-client iBGP peer to another (route-reflector or not) -/
theorem no_nonclient_to_nonclient (c : ExportCase)
    (hpeer : c.path.src.kind = .peer) (hasn : c.path.src.remoteAsn = c.path.src.localAsn)
    (hsrc : c.path.src.role ≠ .rrClient) (hdst : c.sess.ctx.role = .ibgp) :
    exportOne c = .suppressed := Proofs.no_nonclient_to_nonclient c hpeer hasn hsrc hdst

/-- never across the route-server / non-route-server boundary -/
theorem rs_isolation (c : ExportCase)
    (h : (c.path.src.role = .rsClient) ≠ (c.sess.ctx.role = .rsClient)) :
    exportOne c = .suppressed := Proofs.rs_isolation c h

/-! ## inbound loop checks -/

/-- AS_PATH contains the local AS, or the confederation id when one is configured -/
theorem as_loop_rejected (c : RxCase) (segs : List Seg)
    (hf : findCode AS_PATH c.attrs = some (.aspath segs))
    (h : (segs.flatMap (·.2)).contains c.localAsn = true ∨
         (c.confedId ≠ 0 ∧ (segs.flatMap (·.2)).contains c.confedId = true)) :
    rxInstalled c = false := Proofs.as_loop_rejected c segs hf h

/-- ORIGINATOR_ID is the local router-id -/
theorem originator_loop_rejected (c : RxCase) (v : Nat)
    (hf : findCode ORIGINATOR_ID c.attrs = some (.val ORIGINATOR_ID v)) (h : v = c.routerId) :
    rxInstalled c = false := Proofs.originator_loop_rejected c v hf h

/-- CLUSTER_LIST contains the local cluster-id -/
theorem cluster_loop_rejected (c : RxCase) (cid : Nat) (ws : List Nat) (hc : c.cluster = some cid)
    (hf : findCode CLUSTER_LIST c.attrs = some (.words CLUSTER_LIST ws)) (h : cid ∈ ws) :
    rxInstalled c = false := Proofs.cluster_loop_rejected c cid ws hc hf h

/-- only reflected routes gain reflection attributes: a locally originated, kernel or eBGP-learned
    route reaches an iBGP peer with the ORIGINATOR_ID / CLUSTER_LIST it had (none, usually) -/
theorem nonreflected_keeps_originator_and_cluster {c : ExportCase} {out : Attrs} {nh : Option Nh}
    (hwf : Spec.wfExport c = true) (hv : visible c.sess c.path = true)
    (hx : xform c.sess c.path = some (out, nh)) : Spec.badSpuriousReflect c (sortByCode out) = false :=
  Proofs.badSpuriousReflect_false hwf hv hx

/-! ## to eBGP peers -/

/-- exactly one AS_PATH is sent and it is the received path with the confederation segments
    removed and the visible AS (confederation id if configured, else the local AS) prepended -/
theorem ebgp_prepend_once_after_strip {c : ExportCase} {out : Attrs} {nh : Option Nh}
    (hwf : Spec.wfExport c = true) (hr : c.sess.ctx.role = .ebgp)
    (hx : xform c.sess c.path = some (out, nh)) :
    (Spec.withCode 2 out).length = 1 ∧
    Spec.pathOf out = asPathPrepend (Spec.visibleAs c) (asPathStripConfed (Spec.pathOf c.path.attrs)) :=
  Proofs.ebgp_path hwf hr hx

/-- the first AS of a prepended path is the prepended one -/
theorem prepend_first_as (a : Nat) (segs : List Seg) : Proofs.firstAs (asPathPrepend a segs) = some a :=
  Proofs.prepend_first_as a segs

/-- exactly one more hop -/
theorem prepend_hops (a : Nat) (segs : List Seg) :
    asPathLength (asPathPrepend a segs) = asPathLength segs + 1 := Proofs.prepend_hops a segs

/-- no confederation segment survives -/
theorem prepend_strip_no_confed (a : Nat) (segs : List Seg) :
    ∀ s ∈ asPathPrepend a (asPathStripConfed segs), s.1 ≠ 3 ∧ s.1 ≠ 4 :=
  Proofs.prepend_strip_no_confed a segs

/-- a full 255-AS leading sequence gets a fresh segment -/
theorem prepend_full_segment_fresh (a : Nat) (as : List Nat) (rest : List Seg) (h : as.length = 255) :
    asPathPrepend a ((2, as) :: rest) = (2, [a]) :: (2, as) :: rest :=
  Proofs.prepend_full_segment_fresh a as rest h

/-- LOCAL_PREF, ORIGINATOR_ID, CLUSTER_LIST, AIGP are never sent; MED is not sent unless an
    export-policy MED action sets one -/
theorem ebgp_strips_lp_orig_cluster_aigp_med {c : ExportCase} {out : Attrs} {nh : Option Nh}
    (hwf : Spec.wfExport c = true) (hr : c.sess.ctx.role = .ebgp)
    (hx : xform c.sess c.path = some (out, nh)) :
    Spec.present 5 out = false ∧ Spec.present 9 out = false ∧ Spec.present 10 out = false ∧
    Spec.present 26 out = false ∧
    ((∀ pol, c.sess.policy = some pol → pol.med = none) → Spec.present 4 out = false) :=
  Proofs.ebgp_strips hwf hr hx

/-- next hop self, except: an export-policy next-hop action, a locally injected route with an
    explicit (not unspecified) next hop, a family without next hop (Flowspec) -/
theorem ebgp_nexthop_self {c : ExportCase} {out : Attrs} {nh : Option Nh}
    (hr : c.sess.ctx.role = .ebgp) (hx : xform c.sess c.path = some (out, nh))
    (hpol : ∀ pol, c.sess.policy = some pol → pol.nh = none)
    (hloc : ¬ (c.path.src.isLocal = true ∧ ∃ n, c.path.nh = some n ∧ n.addr.isUnspecified = false))
    (hfs : ¬ (c.sess.fam.isFlowspec = true ∧ c.path.nh = none)) :
    nh = some (selfNh c.sess.ctx) := Proofs.ebgp_nexthop_self hr hx hpol hloc hfs

/-! ## to iBGP peers -/

theorem ibgp_local_pref_present {c : ExportCase} {out : Attrs} {nh : Option Nh}
    (hwf : Spec.wfExport c = true) (hr : c.sess.ctx.role = .ibgp ∨ c.sess.ctx.role = .rrClient)
    (hx : xform c.sess c.path = some (out, nh)) : Spec.present 5 out = true :=
  Proofs.ibgp_local_pref_present hwf hr hx

/-- the AS_PATH attribute is the received one; the next hop is the received one unless an
    export-policy action touches it or a locally injected route left it unspecified -/
theorem ibgp_path_nh_untouched {c : ExportCase} {out : Attrs} {nh : Option Nh}
    (hwf : Spec.wfExport c = true) (hr : c.sess.ctx.role = .ibgp ∨ c.sess.ctx.role = .rrClient)
    (hx : xform c.sess c.path = some (out, nh)) :
    Spec.withCode 2 out = Spec.withCode 2 c.path.attrs ∧
    ((∀ pol, c.sess.policy = some pol → pol.nh = none) → ∀ n, c.path.nh = some n →
      ¬ (c.path.src.isLocal = true ∧ n.addr.isUnspecified = true) → nh = some n) :=
  Proofs.ibgp_path_nh_untouched hwf hr hx

/-- a reflected route carries an ORIGINATOR_ID and a CLUSTER_LIST that starts with the cluster-id -/
theorem reflect_adds_originator_and_cluster {c : ExportCase} {out : Attrs} {nh : Option Nh}
    (hwf : Spec.wfExport c = true) (hr : c.sess.ctx.role = .ibgp ∨ c.sess.ctx.role = .rrClient)
    (hl : isIbgpLearned c.path.src = true) (cid : Nat) (hc : c.sess.cluster = some cid)
    (hx : xform c.sess c.path = some (out, nh)) :
    Spec.present 9 out = true ∧ ∃ rest, Spec.withCode 10 out = [.words 10 (cid :: rest)] :=
  Proofs.reflect_adds hwf hr hl cid hc hx

/-! ## to confed-eBGP peers -/

/-- the member AS is prepended once, in a confederation sequence, to the unmodified path -/
theorem confed_member_in_confed_seq {c : ExportCase} {out : Attrs} {nh : Option Nh}
    (hwf : Spec.wfExport c = true) (hr : c.sess.ctx.role = .confed)
    (hx : xform c.sess c.path = some (out, nh)) :
    Spec.prependedOnce 3 c.sess.ctx.localAsn (Spec.pathOf c.path.attrs) (Spec.pathOf out) = true ∧
    Proofs.firstAs (Spec.pathOf out) = some c.sess.ctx.localAsn :=
  Proofs.confed_path hwf hr hx

/-! ## every role -/

theorem llgr_stale_community_present {c : ExportCase} {out : Attrs} {nh : Option Nh}
    (hwf : Spec.wfExport c = true) (hl : c.path.src.llgr = true)
    (hx : xform c.sess c.path = some (out, nh)) :
    (Spec.wordsOf 8 out).contains LLGR_STALE = true := Proofs.llgr_present hwf hl hx

/-- an unknown transitive attribute is forwarded, same code and payload, Partial bit set -/
theorem opaque_transitive_partial {c : ExportCase} {out : Attrs} {nh : Option Nh}
    (hwf : Spec.wfExport c = true) (hx : xform c.sess c.path = some (out, nh))
    (code f : Nat) (bs : List Nat) (ha : Attr.opq code f bs ∈ c.path.attrs) (ht : f / 64 % 2 = 1) :
    Attr.opq code (orPartial f) bs ∈ out := Proofs.opaque_transitive_partial hwf hx code f bs ha ht

/-- whatever unknown attribute leaves `export_attrs` has the Transitive bit: non-transitive ones
    are dropped -/
theorem opaque_nontransitive_dropped (ctx : Ctx) (as : Attrs) (code f : Nat) (bs : List Nat)
    (h : Attr.opq code f bs ∈ exportAttrs ctx as) : f / 64 % 2 = 1 :=
  Proofs.opaque_nontransitive_dropped ctx as code f bs h

/-! ## non-vacuity: the hypotheses are satisfiable and the conclusions are about real advertisements -/

def ebgpCtx : Ctx := ⟨.ebgp, 65001, .v4 167772417, none, 65100⟩
def ibgpCtx : Ctx := ⟨.rrClient, 65001, .v4 167772417, none, 0⟩
def confedCtx : Ctx := ⟨.confed, 65001, .v4 167772417, none, 65100⟩
def ebgpSrc : Source := ⟨.peer, .v4 167772162, 65002, 65001, 33686018, .ebgp, true⟩
def ibgpSrc : Source := ⟨.peer, .v4 167772164, 65001, 65001, 67372036, .ibgp, false⟩
def sampleAttrs : Attrs :=
  [.val 1 0, .aspath [(3, [65101]), (2, [65010, 65011])], .val 4 10, .val 5 200,
   .words 8 [4259840100], .bin 26 [1, 0, 11, 0, 0, 0, 0, 0, 0, 0, 100], .opq 200 192 [1, 2], .opq 201 128 [3]]
def samplePath (src : Source) : Path := { pid := 1, src := src, nh := some (.v4 167772418), attrs := sampleAttrs }
def sess (ctx : Ctx) (cluster : Option Nat) : Sess := ⟨ctx, .v4 167772161, cluster, none, .ipv4, 1⟩

/-- eBGP receiver in a confederation: confed segment stripped, confederation id prepended, MED /
    LOCAL_PREF / AIGP removed, LLGR_STALE added, unknown transitive forwarded with Partial, unknown
    non-transitive dropped, next hop self -/
example : exportOne ⟨sess ebgpCtx none, samplePath ebgpSrc⟩ =
    .reach 0 (some (.v4 167772417))
      [.val 1 0, .aspath [(2, [65100, 65010, 65011])],
       .words 8 [4259840100, 4294901766], .opq 200 224 [1, 2]] := by decide

example : Spec.wfExport ⟨sess ebgpCtx none, samplePath ebgpSrc⟩ = true := by decide

/-- reflection to an RR client: path and next hop untouched, ORIGINATOR_ID and cluster-id added -/
example : exportOne ⟨sess ibgpCtx (some 16909060), samplePath ibgpSrc⟩ =
    .reach 0 (some (.v4 167772418))
      [.val 1 0, .aspath [(3, [65101]), (2, [65010, 65011])], .val 4 10, .val 5 200,
       .words 8 [4259840100], .val 9 67372036, .words 10 [16909060],
       .bin 26 [1, 0, 11, 0, 0, 0, 0, 0, 0, 0, 100], .opq 200 224 [1, 2]] := by decide

/-- confed-eBGP receiver: member AS joins the leading confed sequence -/
example : exportOne ⟨sess confedCtx none, samplePath ebgpSrc⟩ =
    .reach 0 (some (.v4 167772417))
      [.val 1 0, .aspath [(3, [65001, 65101]), (2, [65010, 65011])], .val 4 10, .val 5 200,
       .words 8 [4259840100, 4294901766], .bin 26 [1, 0, 11, 0, 0, 0, 0, 0, 0, 0, 100],
       .opq 200 224 [1, 2]] := by decide

/-- a full 255-AS leading sequence is not grown: the visible AS gets a segment of its own -/
example : asPathPrepend 65100 [(2, List.replicate 255 65010)] = [(2, [65100]), (2, List.replicate 255 65010)] :=
  prepend_full_segment_fresh _ _ _ List.length_replicate

/-- non-client to non-client: suppressed; echo: suppressed -/
example : exportOne ⟨sess ⟨.ibgp, 65001, .v4 167772417, none, 0⟩ (some 16909060), samplePath ibgpSrc⟩ = .suppressed := by
  decide
example : exportOne ⟨{ sess ebgpCtx none with remoteAddr := .v4 167772162 }, samplePath ebgpSrc⟩ = .suppressed := by
  decide

/-- the three inbound loops -/
example : rxInstalled ⟨65001, 65100, 16843009, some 16909060, .ibgp, [.val 1 0, .aspath [(2, [65002, 65100])]]⟩ = false := by
  decide
example : rxInstalled ⟨65001, 0, 16843009, some 16909060, .ibgp, [.val 1 0, .aspath [(2, [65002])], .val 9 16843009]⟩ = false := by
  decide
example : rxInstalled ⟨65001, 0, 16843009, some 16909060, .ibgp, [.val 1 0, .aspath [(2, [65002])], .words 10 [1, 16909060]]⟩ = false := by
  decide
example : rxInstalled ⟨65001, 0, 16843009, some 16909060, .ibgp, [.val 1 0, .aspath [(2, [65002])], .words 10 [1]]⟩ = true := by
  decide

#print axioms check_run_ok
/-- non-vacuity at the route-server boundary, in the add-path branch and for the two singleton sources -/
def rsSrc : Source := ⟨.peer, .v4 167772162, 65002, 65001, 33686018, .rsClient, false⟩
example : Proofs.isReach (exportOne ⟨sess ⟨.rsClient, 65001, .v4 167772417, none, 0⟩ none, samplePath rsSrc⟩) = true := by decide
example : exportOne ⟨sess ⟨.rsClient, 65001, .v4 167772417, none, 0⟩ none, samplePath ebgpSrc⟩ = .suppressed := by decide
example : exportOne ⟨sess ebgpCtx none, samplePath rsSrc⟩ = .suppressed := by decide
example : Proofs.isReach (exportOne ⟨{ sess ebgpCtx none with max := 3 }, samplePath ebgpSrc⟩) = true := by decide
example : Proofs.isReach (exportOne ⟨sess ⟨.ibgp, 65001, .v4 167772417, none, 0⟩ none,
    samplePath ⟨.kernel, .v4 0, 0, 0, 0, .ibgp, false⟩⟩) = true := by decide
example : Proofs.isReach (exportOne ⟨sess ⟨.ibgp, 65001, .v4 167772417, none, 0⟩ (some 16909060),
    samplePath ⟨.locl, .v4 0, 0, 0, 0, .ibgp, false⟩⟩) = true := by decide
example : (exportTwice ⟨sess ebgpCtx none, samplePath { ebgpSrc with llgr := false }⟩).2 ≠ .nothing := by decide

#print axioms advertised_iff
#print axioms check_run_all_but_rs
#print axioms C09_full_fails
#print axioms check_stale_ok
#print axioms stale_is_readvertised
#print axioms C09_wire_full_fails
#print axioms nonreflected_keeps_originator_and_cluster
#print axioms check_rx_ok
#print axioms no_echo
#print axioms no_nonclient_to_nonclient
#print axioms rs_isolation
#print axioms as_loop_rejected
#print axioms originator_loop_rejected
#print axioms cluster_loop_rejected
#print axioms ebgp_prepend_once_after_strip
#print axioms ebgp_strips_lp_orig_cluster_aigp_med
#print axioms ebgp_nexthop_self
#print axioms ibgp_local_pref_present
#print axioms ibgp_path_nh_untouched
#print axioms reflect_adds_originator_and_cluster
#print axioms confed_member_in_confed_seq
#print axioms llgr_stale_community_present
#print axioms opaque_transitive_partial
#print axioms opaque_nontransitive_dropped

end Rbgp.Export.Props
