/-
  Rbgp.Export.ConvBase — algebra of the neighbour's mirror and of `PendingTx` (C01, part 1).
-/
import Rbgp.Export.Pipeline
namespace Rbgp.Export.Conv
open Rbgp.Export

/-! ## the mirror as a finite map (prefix, path id) ↦ route -/

def Mirror.get (m : Mirror) (net : Net) (pid : Nat) : Option Route :=
  m.find? (fun r => r.net = net ∧ r.pid = pid)

theorem get_del (m : Mirror) (net : Net) (pid : Nat) (net' : Net) (pid' : Nat) :
    Mirror.get (m.del net pid) net' pid' =
      if net' = net ∧ pid' = pid then none else Mirror.get m net' pid' := by
  induction m with
  | nil => simp [Mirror.get, Mirror.del]
  | cons r rest ih =>
    simp only [Mirror.get, Mirror.del, List.filter_cons] at ih ⊢
    by_cases hk : r.net = net ∧ r.pid = pid
    · simp only [hk, and_self, decide_true, Bool.not_true, Bool.false_eq_true, if_false]
      rw [ih]
      by_cases hq : net' = net ∧ pid' = pid
      · simp [hq]
      · simp only [hq, if_false, List.find?_cons]
        have : ¬ (r.net = net' ∧ r.pid = pid') := by
          intro h; apply hq; exact ⟨h.1 ▸ hk.1, h.2 ▸ hk.2⟩
        simp [this]
    · simp only [hk, decide_false, Bool.not_false, if_true, List.find?_cons]
      by_cases hr : r.net = net' ∧ r.pid = pid'
      · have : ¬ (net' = net ∧ pid' = pid) := by
          intro h; apply hk; exact ⟨hr.1.trans h.1, hr.2.trans h.2⟩
        simp [hr, this]
      · simp only [hr, decide_false, Bool.false_eq_true]
        exact ih

theorem get_append_single (m : Mirror) (r : Route) (net' : Net) (pid' : Nat) :
    Mirror.get (m ++ [r]) net' pid' =
      match Mirror.get m net' pid' with
      | some x => some x
      | none => if r.net = net' ∧ r.pid = pid' then some r else none := by
  simp only [Mirror.get, List.find?_append]
  cases h : List.find? (fun r => decide (r.net = net' ∧ r.pid = pid')) m with
  | some x => simp
  | none =>
    by_cases hr : r.net = net' ∧ r.pid = pid'
    · simp [List.find?_cons, hr]
    · simp only [Option.none_or, List.find?_cons, hr, decide_false, List.find?_nil, if_false]

theorem get_set (m : Mirror) (r : Route) (net' : Net) (pid' : Nat) :
    Mirror.get (m.set r) net' pid' =
      if net' = r.net ∧ pid' = r.pid then some r else Mirror.get m net' pid' := by
  simp only [Mirror.set, get_append_single, get_del]
  by_cases h : net' = r.net ∧ pid' = r.pid
  · simp [h]
  · simp only [h, if_false]
    cases hg : Mirror.get m net' pid' with
    | some x => rfl
    | none =>
      have : ¬ (r.net = net' ∧ r.pid = pid') := fun h' => h ⟨h'.1.symm, h'.2.symm⟩
      simp [this]

/-! ## association lists keyed by `TxKey` -/

def lookup {α} (k : TxKey) (l : List (TxKey × α)) : Option α := (l.find? (·.1 = k)).map (·.2)

theorem find_filter_self {α} (k : TxKey) (l : List (TxKey × α)) :
    (l.filter (fun x => decide (x.1 ≠ k))).find? (fun x => decide (x.1 = k)) = none := by
  rw [List.find?_eq_none]
  intro x hx
  have := (List.mem_filter.mp hx).2
  simpa using this

theorem find_filter_ne {α} (k k' : TxKey) (h : k' ≠ k) (l : List (TxKey × α)) :
    (l.filter (fun x => decide (x.1 ≠ k))).find? (fun x => decide (x.1 = k')) =
      l.find? (fun x => decide (x.1 = k')) := by
  induction l with
  | nil => rfl
  | cons x rest ih =>
    by_cases hx : x.1 = k
    · have hx' : ¬ x.1 = k' := fun h' => h (h'.symm.trans hx)
      rw [List.filter_cons]
      simp only [ne_eq, hx, not_true_eq_false, decide_false, Bool.false_eq_true, if_false]
      rw [List.find?_cons]
      simp only [hx', decide_false]
      exact ih
    · rw [List.filter_cons]
      simp only [ne_eq, hx, not_false_eq_true, decide_true, if_true]
      rw [List.find?_cons, List.find?_cons, ih]

theorem lookup_erase_append {α} (k k' : TxKey) (v : α) (l : List (TxKey × α)) :
    lookup k' (PendingTx.eraseKey k l ++ [(k, v)]) = if k' = k then some v else lookup k' l := by
  simp only [lookup, PendingTx.eraseKey, List.find?_append]
  by_cases h : k' = k
  · subst h
    rw [find_filter_self]
    simp [List.find?_cons]
  · simp only [h, if_false]
    rw [find_filter_ne k k' h]
    cases hf : List.find? (fun x => decide (x.1 = k')) l with
    | some y => simp
    | none => simp [List.find?_cons, Ne.symm h]

theorem lookup_erase {α} (k k' : TxKey) (l : List (TxKey × α)) :
    lookup k' (PendingTx.eraseKey k l) = if k' = k then none else lookup k' l := by
  simp only [lookup, PendingTx.eraseKey]
  by_cases h : k' = k
  · subst h
    rw [find_filter_self]; simp
  · simp only [h, if_false]
    rw [find_filter_ne k k' h]

/-! ## `pending_last_writer_wins` -/

def opKey (p : PendingTx) : SinkOp Net → TxKey
  | .reach d _ pid _ _ => p.key d pid
  | .unreach d _ pid => p.key d pid

theorem key_doReach (p : PendingTx) (d : Nat) (net : Net) (pid : Nat) (nh : Option Nh) (as : Attrs) (d' pid' : Nat) :
    (p.doReach d net pid nh as).key d' pid' = p.key d' pid' := rfl
theorem key_doUnreach (p : PendingTx) (d : Nat) (net : Net) (pid : Nat) (d' pid' : Nat) :
    (p.doUnreach d net pid).key d' pid' = p.key d' pid' := rfl

theorem addpath_apply (p : PendingTx) (o : SinkOp Net) : (p.apply o).addpathTx = p.addpathTx := by
  cases o <;> rfl

theorem addpath_applyOps (p : PendingTx) (ops : List (SinkOp Net)) : (applyOps p ops).addpathTx = p.addpathTx := by
  induction ops generalizing p with
  | nil => rfl
  | cons o rest ih => simp only [applyOps, List.foldl_cons] at ih ⊢; rw [ih, addpath_apply]

/-- the last operation of `ops` on key `k` -/
def lastOn (p : PendingTx) (k : TxKey) : List (SinkOp Net) → Option (SinkOp Net)
  | [] => none
  | o :: rest =>
      match lastOn p k rest with
      | some x => some x
      | none => if opKey p o = k then some o else none

/-- Per key, the two maps of `PendingTx` hold exactly the last operation: a reach is in `reach`
    only, a withdrawal in `unreach` only. -/
theorem last_writer_step (p : PendingTx) (o : SinkOp Net) (k : TxKey) :
    (opKey p o = k →
      match o with
      | .reach _ net _ nh as => lookup k (p.apply o).reach = some (net, as, nh) ∧ lookup k (p.apply o).unreach = none
      | .unreach _ net _ => lookup k (p.apply o).reach = none ∧ lookup k (p.apply o).unreach = some net) ∧
    (opKey p o ≠ k →
      lookup k (p.apply o).reach = lookup k p.reach ∧ lookup k (p.apply o).unreach = lookup k p.unreach) := by
  cases o with
  | reach d net pid nh as =>
    simp only [opKey, PendingTx.apply, PendingTx.doReach]
    constructor
    · intro h; subst h
      exact ⟨by rw [lookup_erase_append]; simp, by rw [lookup_erase]; simp⟩
    · intro h
      exact ⟨by rw [lookup_erase_append]; simp [Ne.symm h], by rw [lookup_erase]; simp [Ne.symm h]⟩
  | unreach d net pid =>
    simp only [opKey, PendingTx.apply, PendingTx.doUnreach]
    constructor
    · intro h; subst h
      exact ⟨by rw [lookup_erase]; simp, by rw [lookup_erase_append]; simp⟩
    · intro h
      exact ⟨by rw [lookup_erase]; simp [Ne.symm h], by rw [lookup_erase_append]; simp [Ne.symm h]⟩

theorem opKey_apply (p : PendingTx) (o o' : SinkOp Net) : opKey (p.apply o) o' = opKey p o' := by
  cases o <;> cases o' <;> rfl

theorem lastOn_apply (p : PendingTx) (o : SinkOp Net) (k : TxKey) (ops : List (SinkOp Net)) :
    lastOn (p.apply o) k ops = lastOn p k ops := by
  induction ops with
  | nil => rfl
  | cons o' rest ih => simp only [lastOn, ih, opKey_apply]

/-- `pending_last_writer_wins` -/
theorem last_writer (p : PendingTx) (ops : List (SinkOp Net)) (k : TxKey) :
    match lastOn p k ops with
    | none => lookup k (applyOps p ops).reach = lookup k p.reach ∧
              lookup k (applyOps p ops).unreach = lookup k p.unreach
    | some (.reach _ net _ nh as) =>
        lookup k (applyOps p ops).reach = some (net, as, nh) ∧ lookup k (applyOps p ops).unreach = none
    | some (.unreach _ net _) =>
        lookup k (applyOps p ops).reach = none ∧ lookup k (applyOps p ops).unreach = some net := by
  induction ops generalizing p with
  | nil => simp [lastOn, applyOps]
  | cons o rest ih =>
    have ih' := ih (p.apply o)
    rw [lastOn_apply] at ih'
    have hs := last_writer_step p o k
    simp only [lastOn]
    have happ : applyOps p (o :: rest) = applyOps (p.apply o) rest := rfl
    rw [happ]
    cases hl : lastOn p k rest with
    | some x =>
      rw [hl] at ih'
      cases x <;> exact ih'
    | none =>
      rw [hl] at ih'
      simp only at ih'
      by_cases hk : opKey p o = k
      · simp only [hk, if_true]
        have := hs.1 hk
        cases o with
        | reach d net pid nh as => simp only at this ⊢; exact ⟨ih'.1.trans this.1, ih'.2.trans this.2⟩
        | unreach d net pid => simp only at this ⊢; exact ⟨ih'.1.trans this.1, ih'.2.trans this.2⟩
      · simp only [hk, if_false]
        have := hs.2 hk
        exact ⟨ih'.1.trans this.1, ih'.2.trans this.2⟩

/-- a withdrawal queued for one prefix survives a later reach of *another* prefix under the same
    key (the destination id was re-used): it moves to `stray`, which only `drain` empties -/
theorem withdrawal_survives_id_reuse (p : PendingTx) (d : Nat) (net old : Net) (pid : Nat)
    (nh : Option Nh) (as : Attrs) (h : lookup (p.key d pid) p.unreach = some old) (hne : old ≠ net) :
    ((p.key d pid).2, old) ∈ (p.doReach d net pid nh as).stray := by
  simp only [lookup] at h
  cases hf : p.unreach.find? (fun x => decide (x.1 = p.key d pid)) with
  | none => simp [hf] at h
  | some e =>
    obtain ⟨k', o'⟩ := e
    simp only [hf, Option.map_some, Option.some.injEq] at h
    subst h
    simp only [PendingTx.doReach, hf]
    simp [hne]

theorem stray_mono_apply (p : PendingTx) (o : SinkOp Net) (x : Nat × Net) (h : x ∈ p.stray) :
    x ∈ (p.apply o).stray := by
  cases o with
  | reach d net pid nh as =>
    simp only [PendingTx.apply, PendingTx.doReach]
    split
    · split
      · exact List.mem_append_left _ h
      · exact h
    · exact h
  | unreach d net pid => exact h

/-- in what `drain` emits, every withdrawal (stray ones included) precedes every announcement of the
    incremental part -/
theorem drain_shape (p : PendingTx) :
    (p.drain).1 = p.buffered ++
      (if p.unreach.isEmpty && p.stray.isEmpty then []
       else [Msg.unreach (p.stray ++ p.unreach.map (fun e => (e.1.2, e.2)))]) ++
      p.reach.map (fun e => Msg.reach [(e.1.2, e.2.1)] e.2.2.2 e.2.2.1) ++
      (if p.pendingEor then [Msg.eor] else []) := rfl

end Rbgp.Export.Conv
