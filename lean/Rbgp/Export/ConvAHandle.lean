/-
  Rbgp.Export.ConvAHandle — C01, add-path sessions, part 3: the invariant over the session's view;
  `handle_prefix_update` / one step of `do_route_refresh` of an admissible change keeps it.
-/
import Rbgp.Export.ConvAStep
namespace Rbgp.Export.ConvA
open Rbgp.Export Rbgp.Export.Conv

/-- what the neighbour must hold: per (prefix, path id) the export, under the behaviour the id was
    last processed with, of the paths last delivered for the prefix -/
def Tof (E : Net → Nat → Exp) (V : View) : Tgt := fun net w => tlookup w (target (E net w) (V.paths net))

/-- A change the RIB may emit when the session's view is `V`, as far as an add-path session depends
    on it (what C06 establishes about the change stream):
    * the destination id belongs to this prefix or to none in the view (`destid_stable`);
    * `any_changed = false` means the visible paths are the same as before;
    * outside a refresh: a path that keeps its local path id and is not reported as replaced is
      the same path (same attributes, next hop, source);
    * local path ids are unique within the destination. -/
structure AdmA (V : View) (u : Change Net) (resend : Bool) : Prop where
  idFree : ∀ x ∈ V, x.id = u.destId → x.net = u.net
  idKept : ∀ x ∈ V, x.net = u.net → x.id = u.destId
  anySame : u.anyChanged = false → V.paths u.net = u.paths
  pidSame : resend = false → ∀ p ∈ u.paths, ∀ q ∈ V.paths u.net, p.pid = q.pid → u.replaced ≠ some p.pid → p = q
  pidsNodup : (u.paths.map (·.pid)).Nodup

/-- The invariant of an add-path session between two deliveries.  `e0` fixes the window (the three
    per-peer filters and `effective_max`), which no policy change alters. -/
structure InvA (e0 : Exp) (E : Net → Nat → Exp) (V : View) (m : ExportMap) (p : PendingTx) (mb : Mirror) : Prop where
  vwf : V.wf
  pids : ∀ x ∈ V, (x.paths.map (·.pid)).Nodup
  ap : e0.max ≠ 1
  winE : ∀ net w, (E net w).max ≠ 1 ∧ ∀ ps, win (E net w) ps = win e0 ps
  inv : InvT V.idOf (Tof E V) m p mb

/-- the announcement loop leaves path id `w` alone -/
def skipB (E : Net → Nat → Exp) (V : View) (u : Change Net) (e : Exp) (resend : Bool) (w : Nat) : Bool :=
  !resend && !(decide (u.replaced = some w)) && (tlookup w (target e u.paths)).isSome && (Tof E V u.net w).isSome

/-- export behaviour per (prefix, path id) after the change: everything of the prefix is re-evaluated
    under the current behaviour except the ids the loop skips -/
def stepEA (E : Net → Nat → Exp) (V : View) (u : Change Net) (e : Exp) (resend : Bool) : Net → Nat → Exp :=
  fun n w => if (u.anyChanged && decide (n = u.net) && !(skipB E V u e resend w)) = true then e else E n w

theorem paths_nodup (V : View) (hw : V.wf) (hp : ∀ x ∈ V, (x.paths.map (·.pid)).Nodup) (net : Net) :
    ((V.paths net).map (·.pid)).Nodup := by
  simp only [View.paths]
  cases hf : V.find net with
  | none => simp
  | some x => simpa using hp x (View.find_mem V net x hf).1

theorem paths_nil_idOf (V : View) (hw : V.wf) (net : Net) (h : V.paths net = []) : V.idOf net = none := by
  simp only [View.paths, View.idOf] at h ⊢
  cases hf : V.find net with
  | none => rfl
  | some x =>
    simp only [hf, Option.map_some, Option.getD_some] at h
    exact absurd h (hw.2.2 x (View.find_mem V net x hf).1)

theorem paths_ne_idOf (V : View) (net : Net) (h : V.paths net ≠ []) : ∃ x ∈ V, x.net = net ∧ V.idOf net = some x.id := by
  simp only [View.paths, View.idOf] at h ⊢
  cases hf : V.find net with
  | none => simp [hf] at h
  | some x => exact ⟨x, (View.find_mem V net x hf).1, (View.find_mem V net x hf).2, by simp⟩

theorem target_nil_ap (e : Exp) (h : e.max ≠ 1) : target e [] = [] := by
  simp [target_ap e h, win]

/-- an id of the window that was advertised and is not reported as replaced stands for the same path,
    so what it exports to (under whatever behaviour) did not move -/
theorem tl_same (e e' : Exp) (he : e.max ≠ 1) (he' : e'.max ≠ 1) (hwin : ∀ ps, win e' ps = win e ps)
    (up vp : List Path) (hnu : (up.map (·.pid)).Nodup) (hnv : (vp.map (·.pid)).Nodup) (x : Nat)
    (h1 : tlookup x (target e up) ≠ none) (h2 : tlookup x (target e' vp) ≠ none)
    (hsame : ∀ p ∈ up, ∀ q ∈ vp, p.pid = q.pid → p.pid = x → p = q) :
    tlookup x (target e' up) = tlookup x (target e' vp) := by
  rw [tlookup_target e he up hnu] at h1
  rw [tlookup_target e' he' vp hnv] at h2 ⊢
  rw [tlookup_target e' he' up hnu, hwin up]
  cases hf1 : (win e up).find? (fun p => decide (p.pid = x)) with
  | none => rw [hf1] at h1; exact absurd rfl h1
  | some p =>
    cases hf2 : (win e' vp).find? (fun p => decide (p.pid = x)) with
    | none => rw [hf2] at h2; exact absurd rfl h2
    | some q =>
      have hp := List.mem_of_find?_eq_some hf1
      have hq := List.mem_of_find?_eq_some hf2
      have hpx : p.pid = x := by simpa using List.find?_some hf1
      have hqx : q.pid = x := by simpa using List.find?_some hf2
      have := hsame p (win_subset e up p hp) q (win_subset e' vp q hq) (hpx.trans hqx.symm) hpx
      rw [this]

theorem wf_updateA (V : View) (hw : V.wf) (u : Change Net) (resend : Bool) (ha : AdmA V u resend) :
    (V.update u.net u.destId u.paths).wf := by
  have : Admissible V { u with bestChanged := true } :=
    ⟨ha.idFree, ha.idKept, fun h => by cases h⟩
  exact wf_update V hw { u with bestChanged := true } this

/-- the abstract invariant once the prefix of the change holds its destination id -/
theorem own_step {e0 : Exp} {E : Net → Nat → Exp} {V : View} {m : ExportMap} {p : PendingTx} {mb : Mirror}
    (I : InvA e0 E V m p mb) (u : Change Net) (resend : Bool) (ha : AdmA V u resend) :
    InvT (updOwn V.idOf u.net (some u.destId)) (Tof E V) m p mb := by
  cases ho : V.idOf u.net with
  | none =>
    apply invT_acquire I.inv u.net u.destId ho
    intro n hn
    obtain ⟨x, hx, hxn, hxi⟩ := idOf_some_mem V n u.destId hn
    have := ha.idFree x hx hxi
    rw [← hxn, this, ho] at hn; cases hn
  | some d' =>
    obtain ⟨x, hx, hxn, hxi⟩ := idOf_some_mem V u.net d' ho
    have hd : d' = u.destId := hxi.symm.trans (ha.idKept x hx hxn)
    have : updOwn V.idOf u.net (some u.destId) = V.idOf := by
      funext n
      simp only [updOwn]
      split
      · rename_i h; rw [h, ho, hd]
      · rfl
    rw [this]; exact I.inv

/-- `export_invariant`, delivery half, add-path session -/
theorem inv_handleA {e0 : Exp} {E : Net → Nat → Exp} {V : View} {m : ExportMap} {p : PendingTx} {mb : Mirror}
    (I : InvA e0 E V m p mb) (u : Change Net) (resend : Bool) (ha : AdmA V u resend)
    (e : Exp) (he : e.max ≠ 1) (hwin : ∀ ps, win e ps = win e0 ps) :
    InvA e0 (stepEA E V u e resend) (V.update u.net u.destId u.paths)
      (processNlriChange e u m resend).1 (applyOps p (processNlriChange e u m resend).2) mb := by
  have hwf' := wf_updateA V I.vwf u resend ha
  have hpids' : ∀ x ∈ V.update u.net u.destId u.paths, (x.paths.map (·.pid)).Nodup := by
    intro x hx
    rcases (View.mem_update _ _ _ _ _).mp hx with ⟨hv, _⟩ | ⟨_, rfl⟩
    · exact I.pids x hv
    · exact ha.pidsNodup
  have hwinE' : ∀ net w, (stepEA E V u e resend net w).max ≠ 1 ∧ ∀ ps, win (stepEA E V u e resend net w) ps = win e0 ps := by
    intro net w
    simp only [stepEA]
    split
    · exact ⟨he, hwin⟩
    · exact I.winE net w
  refine ⟨hwf', hpids', I.ap, hwinE', ?_⟩
  cases hany : u.anyChanged with
  | false =>
    -- nothing is done; the view does not move either
    have hproc : processNlriChange e u m resend = (m, []) := by rw [process_ap e he]; simp [hany]
    rw [hproc]
    have hps := ha.anySame hany
    have hE : stepEA E V u e resend = E := by
      funext n w; simp [stepEA, hany]
    have hid : (V.update u.net u.destId u.paths).idOf = V.idOf := by
      funext n
      rw [View.idOf_update]
      by_cases hn : n = u.net
      · simp only [hn, if_true]
        by_cases hp : u.paths = []
        · simp only [hp, if_true]
          exact (paths_nil_idOf V I.vwf u.net (by rw [hps, hp])).symm
        · simp only [hp, if_false]
          obtain ⟨x, hx, hxn, hxi⟩ := paths_ne_idOf V u.net (by rw [hps]; exact hp)
          rw [hxi, ha.idKept x hx hxn]
      · simp [hn]
    have hT : Tof E (V.update u.net u.destId u.paths) = Tof E V := by
      funext n w
      simp only [Tof, View.paths_update]
      by_cases hn : n = u.net
      · simp only [hn, if_true, hps]
      · simp [hn]
    rw [hE, hid, hT]
    simpa [applyOps] using I.inv
  | true =>
    have I1 := own_step I u resend ha
    have hown1 : updOwn V.idOf u.net (some u.destId) u.net = some u.destId := by simp [updOwn]
    obtain ⟨T', I', hoth, hnone, hsome⟩ := inv_processT I1 e he u hown1 hany ha.pidsNodup resend
    -- the new table is the table of the new view
    have hT : T' = Tof (stepEA E V u e resend) (V.update u.net u.destId u.paths) := by
      funext n x
      simp only [Tof, View.paths_update, stepEA, hany, Bool.true_and]
      by_cases hn : n = u.net
      · subst hn
        simp only [decide_true, Bool.true_and, if_true]
        cases htl : tlookup x (target e u.paths) with
        | none =>
          rw [hnone x htl]
          have : skipB E V u e resend x = false := by simp [skipB, htl]
          simp [this, htl]
        | some r =>
          have hs := hsome x r htl
          by_cases hsk : skipB E V u e resend x = true
          · simp only [hsk, Bool.not_true, Bool.false_eq_true, if_false]
            simp only [skipB, Bool.and_eq_true, Bool.not_eq_true', decide_eq_false_iff_not, Option.isSome_iff_ne_none] at hsk
            obtain ⟨⟨⟨hr, hrep⟩, _⟩, hTs⟩ := hsk
            have hskip : SkipC (Tof E V) u.net u.replaced resend x := ⟨hTs, hrep, hr⟩
            rw [hs.1 hskip]
            simp only [Tof]
            symm
            apply tl_same e (E u.net x) he (I.winE u.net x).1
              (fun ps => by rw [(I.winE u.net x).2 ps, hwin ps]) u.paths (V.paths u.net) ha.pidsNodup
              (paths_nodup V I.vwf I.pids u.net) x (by rw [htl]; simp) hTs
            intro p hp q hq hpq hpx
            exact ha.pidSame hr p hp q hq hpq (by rw [hpx]; exact hrep)
          · have hsk' : skipB E V u e resend x = false := by simpa using hsk
            simp only [hsk', Bool.not_false, if_true]
            have hnskip : ¬ SkipC (Tof E V) u.net u.replaced resend x := by
              rintro ⟨h1, h2, h3⟩
              apply hsk
              simp only [skipB, Bool.and_eq_true, Bool.not_eq_true', decide_eq_false_iff_not, Option.isSome_iff_ne_none]
              exact ⟨⟨⟨h3, h2⟩, by rw [htl]; simp⟩, h1⟩
            rw [hs.2 hnskip, htl]
      · simp only [hn, decide_false, Bool.false_and, Bool.false_eq_true, if_false]
        rw [hoth n x hn]
        rfl
    by_cases hp : u.paths = []
    · -- the prefix leaves the view: its id is released
      have hrow : ∀ w, T' u.net w = none := by
        intro w
        apply hnone
        rw [hp, target_nil_ap e he]; rfl
      have I2 := invT_release I' u.net hrow
      have hid : updOwn (updOwn V.idOf u.net (some u.destId)) u.net none = (V.update u.net u.destId u.paths).idOf := by
        funext n
        rw [View.idOf_update]
        simp only [updOwn]
        by_cases hn : n = u.net
        · simp [hn, hp]
        · simp [hn]
      rw [hid, hT] at I2
      exact I2
    · have hid : updOwn V.idOf u.net (some u.destId) = (V.update u.net u.destId u.paths).idOf := by
        funext n
        rw [View.idOf_update]
        simp only [updOwn]
        by_cases hn : n = u.net
        · simp [hn, hp]
        · simp [hn]
      rw [hid, hT] at I'
      exact I'

end Rbgp.Export.ConvA
