/-
  Rbgp.Export.RibAdm — C01: what the RIB model itself guarantees about the changes it emits.

  The session theorems (`Conv`, `ConvA`) take the admissibility of every delivered change as a
  hypothesis; `okRun` evaluates it along the run.  The part of admissibility that is about
  destination ids — the id of a change belongs to its prefix and to no other prefix of the table
  (`Admissible.idFree`, `idKept`) — is proved here from the RIB model, for `Table::insert`,
  `Table::remove` and `Table::drop` on a consistent shard (`RibIds.ShardOk`).

  What stays a hypothesis evaluated along the run (see DESIGN / CONFIG level_note):
  * `bestSame` / `anySame` / `pidSame`: the flags and the path list of a change describe the
    difference to the previous visible path list of the destination (this needs "attribute-Arc
    identities are unique" and the ranking model; it is C06's statement for this RIB model);
  * that the session's view lags the RIB by exactly the changes still queued (in-order delivery),
    so that "admissible for the RIB's own view when emitted" is "admissible for the session's view
    when delivered";
  * that the paths last delivered are the RIB's at a quiet point (`viewMatchChk`) and that the RIB
    holds announced prefixes only (`liveNets`).
-/
import Rbgp.Export.RibIds
import Rbgp.Export.Conv
namespace Rbgp.Export.RibAdm
open Rbgp.Export Rbgp.Export.RibIds Rbgp.Export.Conv

/-- the ids the table holds, as a view: one entry per destination (paths are irrelevant here) -/
def idView (s : Shard) : View := s.dests.map (fun d => ⟨d.net, d.id, []⟩)

/-- the two id conditions of `Admissible` / `AdmA` -/
structure IdAdm (V : View) (u : Change Net) : Prop where
  idFree : ∀ x ∈ V, x.id = u.destId → x.net = u.net
  idKept : ∀ x ∈ V, x.net = u.net → x.id = u.destId

theorem idAdm_of (s s' : Shard) (h' : ShardOk s') (u : Change Net)
    (hkeep : ∀ d ∈ s.dests, d.net = u.net ∨ ∃ d' ∈ s'.dests, d'.net = d.net ∧ d'.id = d.id)
    (hkeepSelf : ∀ d ∈ s.dests, d.net = u.net → d.id = u.destId)
    (hnew : (∃ d' ∈ s'.dests, d'.net = u.net ∧ d'.id = u.destId) ∨ ∀ d ∈ s.dests, d.id = u.destId → d.net = u.net) :
    IdAdm (idView s) u := by
  constructor
  · intro x hx hxi
    rcases List.mem_map.mp hx with ⟨d, hd, rfl⟩
    simp only at hxi ⊢
    rcases hnew with ⟨d1, hd1, hn1, hi1⟩ | hfree
    · rcases hkeep d hd with h | ⟨d2, hd2, hn2, hi2⟩
      · exact h
      · have : d2 = d1 := uniq_of_nodup_map (·.id) s'.dests h'.ids hd2 hd1 (hi2.trans (hxi.trans hi1.symm))
        rw [← hn2, this, hn1]
    · exact hfree d hd hxi
  · intro x hx hxn
    rcases List.mem_map.mp hx with ⟨d, hd, rfl⟩
    exact hkeepSelf d hd hxn

theorem ite_none_some {α} {c : Prop} [Decidable c] {x u : α}
    (h : (if c then none else some x) = some u) : x = u := by
  split at h
  · cases h
  · exact Option.some.inj h

/-- the change of an insertion names the id its prefix holds afterwards -/
theorem insert_change (s : Shard) (net : Net) (srcIdx : Nat) (src : Source) (rpid : Nat) (nh : Option Nh)
    (attrs : Attrs) (aid : Nat) (filtered nhInvalid : Bool) (u : Change Net)
    (hu : (s.insert net srcIdx src rpid nh attrs aid filtered nhInvalid).2 = some u) :
    u.net = net ∧ ∃ d' ∈ (s.insert net srcIdx src rpid nh attrs aid filtered nhInvalid).1.dests,
      d'.net = net ∧ d'.id = u.destId := by
  simp only [Shard.insert] at hu ⊢
  cases hf : s.dests.find? (·.net = net) with
  | some d =>
    have hdm := List.mem_of_find?_eq_some hf
    have hdn : d.net = net := by simpa using List.find?_some hf
    have hany : s.dests.any (·.net = net) = true := List.any_eq_true.mpr ⟨d, hdm, by simpa using hdn⟩
    simp only [hf, hany, if_true] at hu ⊢
    have hx := ite_none_some hu
    subst hx
    exact ⟨rfl, _, List.mem_map.mpr ⟨d, hdm, if_pos hdn⟩, hdn, rfl⟩
  | none =>
    have hany : s.dests.any (·.net = net) = false := by
      rw [Bool.eq_false_iff]; intro h'
      obtain ⟨x, hx, hxn⟩ := List.any_eq_true.mp h'
      have := List.find?_eq_none.mp hf x hx
      simp at hxn; simp [hxn] at this
    simp only [hf, hany, Bool.false_eq_true, if_false] at hu ⊢
    have hx := ite_none_some hu
    subst hx
    exact ⟨rfl, _, List.mem_append_right _ (List.mem_singleton.mpr rfl), rfl, rfl⟩

/-- `destid_stable` as the session needs it: the change `Table::insert` emits is id-admissible for
    the table it was applied to -/
theorem insert_idAdm (s : Shard) (h : ShardOk s) (hroom : s.used.length + 1 < 16777216)
    (net : Net) (srcIdx : Nat) (src : Source) (rpid : Nat) (nh : Option Nh) (attrs : Attrs) (aid : Nat)
    (filtered nhInvalid : Bool) (u : Change Net)
    (hu : (s.insert net srcIdx src rpid nh attrs aid filtered nhInvalid).2 = some u) :
    IdAdm (idView s) u := by
  obtain ⟨hok', hkeep⟩ := insert_ok s h hroom net srcIdx src rpid nh attrs aid filtered nhInvalid
  obtain ⟨hnet, d1, hd1, hn1, hi1⟩ := insert_change s net srcIdx src rpid nh attrs aid filtered nhInvalid u hu
  apply idAdm_of s _ hok' u
  · intro d hd; exact Or.inr (hkeep d hd)
  · intro d hd hdn
    obtain ⟨d2, hd2, hn2, hi2⟩ := hkeep d hd
    have : d2 = d1 := uniq_of_nodup_map (·.net) _ hok'.nets hd2 hd1 (by rw [hn2, hdn, hnet, hn1])
    rw [← hi2, this, hi1]
  · exact Or.inl ⟨d1, hd1, by rw [hn1, hnet], hi1⟩

/-- the change of a withdrawal names the id its prefix held -/
theorem remove_change (s : Shard) (net : Net) (src : Source) (rpid : Nat) (u : Change Net)
    (hu : (s.remove net src rpid).2 = some u) :
    u.net = net ∧ ∃ d ∈ s.dests, d.net = net ∧ d.id = u.destId := by
  simp only [Shard.remove] at hu
  cases hf : s.dests.find? (·.net = net) with
  | none => simp [hf] at hu
  | some d =>
    have hdm := List.mem_of_find?_eq_some hf
    have hdn : d.net = net := by simpa using List.find?_some hf
    simp only [hf] at hu
    split at hu
    · cases hu
    · split at hu
      · split at hu
        · simp only [Option.some.injEq] at hu; subst hu; exact ⟨rfl, d, hdm, hdn, rfl⟩
        · cases hu
      · split at hu
        · cases hu
        · simp only [Option.some.injEq] at hu; subst hu; exact ⟨rfl, d, hdm, hdn, rfl⟩

theorem remove_idAdm (s : Shard) (h : ShardOk s) (net : Net) (src : Source) (rpid : Nat) (u : Change Net)
    (hu : (s.remove net src rpid).2 = some u) : IdAdm (idView s) u := by
  obtain ⟨hnet, d0, hd0, hn0, hi0⟩ := remove_change s net src rpid u hu
  constructor
  · intro x hx hxi
    rcases List.mem_map.mp hx with ⟨d, hd, rfl⟩
    simp only at hxi ⊢
    have : d = d0 := uniq_of_nodup_map (·.id) s.dests h.ids hd hd0 (hxi.trans hi0.symm)
    rw [this, hn0, hnet]
  · intro x hx hxn
    rcases List.mem_map.mp hx with ⟨d, hd, rfl⟩
    simp only at hxn ⊢
    have : d = d0 := uniq_of_nodup_map (·.net) s.dests h.nets hd hd0 (by rw [hxn, hnet, hn0])
    rw [this, hi0]

/-- every change a peer-down emits is id-admissible for the table it was applied to -/
theorem drop_idAdm (s : Shard) (h : ShardOk s) (addr : Addr) (u : Change Net) (hu : u ∈ (s.drop addr).2) :
    IdAdm (idView s) u := by
  obtain ⟨_, _, _, hch⟩ := drop_ok s h addr
  obtain ⟨d0, hd0, hn0, hi0, _⟩ := hch u hu
  constructor
  · intro x hx hxi
    rcases List.mem_map.mp hx with ⟨d, hd, rfl⟩
    simp only at hxi ⊢
    have : d = d0 := uniq_of_nodup_map (·.id) s.dests h.ids hd hd0 (hxi.trans hi0)
    rw [this, hn0]
  · intro x hx hxn
    rcases List.mem_map.mp hx with ⟨d, hd, rfl⟩
    simp only at hxn ⊢
    have : d = d0 := uniq_of_nodup_map (·.net) s.dests h.nets hd hd0 (hxn.trans hn0)
    rw [this, hi0]

end Rbgp.Export.RibAdm
