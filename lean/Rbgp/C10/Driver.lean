import Rbgp.Gr.Helper.Codec
import Rbgp.Gr.Helper.Spec
namespace Rbgp.C10
open Rbgp Rbgp.Term Rbgp.Gr.Helper Rbgp.Gr.Helper.Codec

/-! `bfs` mode (generator support): every reachable state of the model of `GrState` × every input. -/

def subsets : List Nat → List (List Nat)
  | [] => [[]]
  | a :: l => let r := subsets l; r ++ r.map (a :: ·)

def pureAlphabet : List GIn :=
  let sets := subsets [0, 1]
  let opts : List (Option (List Fam)) := none :: (sets.filter (!·.isEmpty)).map some
  (opts.flatMap fun g => opts.map fun l => GIn.dropped g l) ++ sets.map GIn.established ++
  [0, 1, 2].map GIn.eor ++ [GIn.timer] ++ [0, 1, 2].map GIn.llgrTimer

def canonG : GInner → GInner
  | .idle => .idle
  | .peerRestarting s l => .peerRestarting (sortN s) (l.map sortN)
  | .llgrStaling r => .llgrStaling (sortN r)
  | .peerReconnected p f => .peerReconnected (sortN p) f

partial def bfsLoop (frontier : List (GInner × List GIn)) (seen : List GInner) (acc : List (List GIn)) : List (List GIn) :=
  match frontier with
  | [] => acc
  | (m, path) :: rest =>
      let succs := pureAlphabet.map fun i => (canonG (gprocess m i).1, path ++ [i])
      let acc' := acc ++ succs.map (·.2)
      let (seen', fresh) := succs.foldl (fun (sf : List GInner × List (GInner × List GIn)) s =>
        if sf.1.contains s.1 then sf else (s.1 :: sf.1, sf.2 ++ [s])) (seen, [])
      bfsLoop (rest ++ fresh) seen' acc'

def bfsCases : String :=
  "\n".intercalate ((bfsLoop [(.idle, [])] [.idle] []).map fun p => toStr (tag "pure" (p.map ginT)))

def verdictStr : Spec.Verdict → String
  | .ok => "ok"
  | .fail i c => s!"fail step={i} clause={c}"

/-- mode `model`: case ↦ observation of the model;
    mode `oracle`: case TAB observation ↦ verdict of the C10 reference checker
    (pure-machine cases are correspondence-only: the oracle has nothing to say about them). -/
def handler (mode : String) (line : String) : String :=
  match mode with
  | "model" =>
      match (parse line).bind caseOf? with
      | some (.glue evs) => toStr (traceT (run evs))
      | some (.pure ins) => toStr (ptraceT (runPure .idle ins))
      | none => "(bad-case)"
  | "oracle" =>
      match parseMany line with
      | some [c, o] =>
          match caseOf? c with
          | some (.glue evs) =>
              match traceOf? o with
              | some tr => verdictStr (Spec.check evs tr)
              | none => if toStr o == "(bad-case)" then "(bad-case)" else "fail step=0 clause=unparsable-observation"
          | some (.pure _) => if toStr o == "(panic)" then "fail step=0 clause=panic" else "ok"
          | none => "(bad-case)"
      | _ => "(bad-line)"
  | "bfs" => bfsCases
  | _ => "(bad-mode)"

end Rbgp.C10
