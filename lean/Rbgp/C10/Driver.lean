import Rbgp.Gr.Helper.Codec
import Rbgp.Gr.Helper.Spec
namespace Rbgp.C10
open Rbgp Rbgp.Term Rbgp.Gr.Helper Rbgp.Gr.Helper.Codec

def verdictStr : Spec.Verdict → String
  | .ok => "ok"
  | .fail i c => s!"fail step={i} clause={c}"

/-- mode `model`: case ↦ observation of the model;
    mode `oracle`: case TAB observation ↦ verdict of the C10 reference checker
    (pure-machine cases are correspondence-only: the oracle has nothing to say about them). -/
def handler (mode : String) (line : String) : String :=
  match mode with
  | "model" =>
      match (parse line).bind caseOf? with
      | some (.glue evs) => toStr (traceT (run evs))
      | some (.pure ins) => toStr (ptraceT (runPure .idle ins))
      | none => "(bad-case)"
  | "oracle" =>
      match parseMany line with
      | some [c, o] =>
          match caseOf? c with
          | some (.glue evs) =>
              match traceOf? o with
              | some tr => verdictStr (Spec.check evs tr)
              | none => if toStr o == "(bad-case)" then "(bad-case)" else "fail step=0 clause=unparsable-observation"
          | some (.pure _) => if toStr o == "(panic)" then "fail step=0 clause=panic" else "ok"
          | none => "(bad-case)"
      | _ => "(bad-line)"
  | _ => "(bad-mode)"

end Rbgp.C10
