import Rbgp.Gr.Restarting.Codec
import Rbgp.Gr.Restarting.Spec
import Rbgp.Gr.Restarting.Wire
namespace Rbgp.C11
open Rbgp Rbgp.Term Rbgp.Gr.Restarting Rbgp.Gr.Restarting.Codec

/-! `bfs` mode (generator support): every reachable state of the model machine for the given
    configuration × every input of the alphabet, each state driven along a shortest input path. -/

def powerset : List Nat → List (List Nat)
  | [] => [[]]
  | a :: l => let r := powerset l; r ++ r.map (a :: ·)

def alphabet (peers : List Peer) (fams : List Fam) : List RIn :=
  peers.flatMap (fun p => (powerset fams).map (RIn.est p) ++ fams.map (RIn.eor p) ++ [RIn.wd p]) ++ [RIn.timer]

def canonState : RInner → RInner
  | .awaiting p d => .awaiting (canonPending p) d
  | .deferring p => .deferring (canonPending p)
  | .completed => .completed

partial def bfsLoop (alpha : List RIn) (frontier : List (RInner × List RIn)) (seen : List RInner)
    (acc : List (List RIn)) : List (List RIn) :=
  match frontier with
  | [] => acc
  | (m, path) :: rest =>
      let succs := alpha.map fun i => ((canonState (process m i).1), path ++ [i])
      let acc' := acc ++ succs.map (·.2)
      let (seen', fresh) := succs.foldl (fun (sf : List RInner × List (RInner × List RIn)) s =>
        if sf.1.contains s.1 then sf else (s.1 :: sf.1, sf.2 ++ [s])) (seen, [])
      bfsLoop alpha (rest ++ fresh) seen' acc'

/-- `(bfs (peers ...) (dur ..) (pre ev...) (post ev...))` ↦ newline-separated case lines -/
def bfsCases (t : Term) : Option String :=
  match t with
  | .list [.atom "bfs", .list (.atom "peers" :: ps), .list [.atom "dur", d], .list (.atom "pre" :: pre),
           .list (.atom "post" :: post)] => do
      let peers ← ps.mapM cfgPeerOf?
      let dur ← asOpt? asNat? d
      let pre ← pre.mapM evOf?
      let post ← post.mapM evOf?
      let cfg : Cfg := { peers := peers, dur := dur }
      let m0 := canonState (Rbgp.Gr.Restarting.new peers dur).1
      let ps := (peers.map (·.1) ++ [maxPeer - 1]).eraseDups
      let fs := (List.range maxFam)
      let paths := bfsLoop (alphabet ps fs) [(m0, [])] [m0] []
      pure ("\n".intercalate (paths.map fun p => toStr (caseT cfg (pre ++ p.map Ev.rd ++ post))))
  | _ => none

def verdictStr : Spec.Verdict → String
  | .ok => "ok"
  | .fail i c => s!"fail step={i} clause={c}"

/-- mode `model`: case ↦ observation of the model;
    mode `oracle`: case TAB observation ↦ verdict of the C11 reference checker. -/
def handler (mode : String) (line : String) : String :=
  match mode with
  | "model" =>
      match (parse line).bind caseOf? with
      | some (cfg, evs) => toStr (traceT (run cfg evs))
      | none =>
          -- socket-level cases have no model: they are judged by the oracle only
          if ((parse line).bind Wire.caseOf?).isSome then "(wire-not-modelled)" else "(bad-case)"
  | "oracle" =>
      match parseMany line with
      | some [c, o] =>
          if (Wire.caseOf? c).isSome then
            match Wire.caseOf? c, Wire.traceOf? o with
            | some (cfg, evs), some tr => verdictStr (Wire.check cfg evs tr)
            | _, _ => if toStr o == "(bad-case)" then "(bad-case)" else "fail step=0 clause=unparsable-observation"
          else
          match caseOf? c with
          | some (cfg, evs) =>
              match traceOf? o with
              | some tr => verdictStr (Spec.check cfg evs tr)
              | none => if toStr o == "(bad-case)" then "(bad-case)" else "fail step=0 clause=unparsable-observation"
          | none => "(bad-case)"
      | _ => "(bad-line)"
  | "bfs" => ((parse line).bind bfsCases).getD "(bad-case)"
  | _ => "(bad-mode)"

end Rbgp.C11
