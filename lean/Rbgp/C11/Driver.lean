import Rbgp.Gr.Restarting.Codec
import Rbgp.Gr.Restarting.Spec
namespace Rbgp.C11
open Rbgp Rbgp.Term Rbgp.Gr.Restarting Rbgp.Gr.Restarting.Codec

def verdictStr : Spec.Verdict → String
  | .ok => "ok"
  | .fail i c => s!"fail step={i} clause={c}"

/-- mode `model`: case ↦ observation of the model;
    mode `oracle`: case TAB observation ↦ verdict of the C11 reference checker. -/
def handler (mode : String) (line : String) : String :=
  match mode with
  | "model" =>
      match (parse line).bind caseOf? with
      | some (cfg, evs) => toStr (traceT (run cfg evs))
      | none => "(bad-case)"
  | "oracle" =>
      match parseMany line with
      | some [c, o] =>
          match caseOf? c with
          | some (cfg, evs) =>
              match traceOf? o with
              | some tr => verdictStr (Spec.check cfg evs tr)
              | none => if toStr o == "(bad-case)" then "(bad-case)" else "fail step=0 clause=unparsable-observation"
          | none => "(bad-case)"
      | _ => "(bad-line)"
  | _ => "(bad-mode)"

end Rbgp.C11
