/-
  Rbgp.Gr.Helper.Inv — the state invariant of the helper model and its preservation by every
  glue function (one lemma per function), plus the exact shape of what a session-down step does.
-/
import Rbgp.Gr.Helper.Proofs
namespace Rbgp.Gr.Helper

/-- the negotiated GR / LLGR family sets are non-empty sets of families of the session -/
def SessWF (s : Sess) : Prop :=
  (∀ n, s.gr = some n → n.fams ≠ [] ∧ ∀ f ∈ n.fams, f ∈ s.fams) ∧
  (∀ l, s.llgr = some l → l ≠ [] ∧ ∀ f ∈ l, f ∈ s.fams)

/-- which marked paths each `GrState` may still hold, and how they are marked -/
def Cover (g : G) : Prop :=
  match g.gs with
  | .idle => ∀ x ∈ g.rib, marked x = false
  | .peerRestarting S _ =>
      (∀ x ∈ g.rib, marked x = true → x.fam ∈ S) ∧ (∀ x ∈ g.rib, x.fam ∈ S → x.stale = true)
  | .llgrStaling rem =>
      (∀ x ∈ g.rib, marked x = true → x.fam ∈ rem) ∧ (∀ x ∈ g.rib, x.fam ∈ rem → x.llgr = true)
  | .peerReconnected P fl =>
      ∀ x ∈ g.rib, marked x = true →
        x.fam ∈ P ∧ (if fl then x.llgr = true else x.stale = true) ∧
        ∃ s n, g.sess = some s ∧ s.gr = some n ∧ x.fam ∈ n.fams

structure Inv (g : G) : Prop where
  live : ∀ s, g.sess = some s → SessWF s ∧ g.grTimer = false ∧ g.llgrTimers = [] ∧
          (g.gs = .idle ∨ ∃ P fl, g.gs = .peerReconnected P fl)
  timerGr : g.grTimer = true ↔ ∃ S L, g.gs = .peerRestarting S L
  timerLl : ∀ f, f ∈ g.llgrTimers ↔ ∃ rem, g.gs = .llgrStaling rem ∧ f ∈ rem
  cover : Cover g

theorem inv_init : Inv {} := by
  refine ⟨fun s h => by simp at h, by simp, fun f => by simp, ?_⟩
  simp [Cover]

/-- End-of-RIB is awaited for these families (model side of the property's third disjunct) -/
def awaitingOf (g : G) : List Fam :=
  match g.gs with
  | .peerReconnected P _ => if g.sess.isSome then P else []
  | _ => []

/-- `stale_implies_pending`, state form: the invariant gives property clause (2). -/
theorem Inv.pending {g : G} (h : Inv g) (x : Route) (hx : x ∈ g.rib) (hm : marked x = true) :
    g.grTimer = true ∨ x.fam ∈ g.llgrTimers ∨ (g.sess.isSome = true ∧ x.fam ∈ awaitingOf g) := by
  have hc := h.cover
  unfold Cover at hc
  cases hgs : g.gs with
  | idle => rw [hgs] at hc; have := hc x hx; rw [hm] at this; cases this
  | peerRestarting S L => exact Or.inl (h.timerGr.mpr ⟨S, L, hgs⟩)
  | llgrStaling rem =>
      rw [hgs] at hc
      exact Or.inr (Or.inl ((h.timerLl x.fam).mpr ⟨rem, hgs, hc.1 x hx hm⟩))
  | peerReconnected P fl =>
      rw [hgs] at hc
      obtain ⟨hp, _, s, n, hs, _, _⟩ := hc x hx hm
      refine Or.inr (Or.inr ⟨by simp [hs], ?_⟩)
      simp [awaitingOf, hgs, hs, hp]

theorem llgrTimers_nil_of {g : G} (h : Inv g) (hn : ∀ rem, g.gs ≠ .llgrStaling rem) : g.llgrTimers = [] := by
  cases hl : g.llgrTimers with
  | nil => rfl
  | cons f l =>
      obtain ⟨rem, hr, _⟩ := (h.timerLl f).mp (by simp [hl])
      exact absurd hr (hn rem)

theorem grTimer_false_of {g : G} (h : Inv g) (hn : ∀ S L, g.gs ≠ .peerRestarting S L) : g.grTimer = false := by
  cases hg : g.grTimer with
  | false => rfl
  | true => obtain ⟨S, L, hs⟩ := h.timerGr.mp hg; exact absurd hs (hn S L)

/-! ## announcements -/

theorem mem_insert {r : Rib} {x y : Route} :
    y ∈ r.insert x ↔ (y = x ∨ (y ∈ r ∧ ¬(y.fam = x.fam ∧ y.pfx = x.pfx))) := by
  simp only [Rib.insert, List.mem_append, List.mem_filter, List.mem_singleton, Bool.not_eq_eq_eq_not, Bool.not_true,
    Bool.and_eq_false_imp, decide_eq_true_eq, decide_eq_false_iff_not]
  constructor
  · rintro (⟨h1, h2⟩ | h)
    · exact Or.inr ⟨h1, fun ⟨a, b⟩ => h2 a b⟩
    · exact Or.inl h
  · rintro (h | ⟨h1, h2⟩)
    · exact Or.inr h
    · exact Or.inl ⟨h1, fun a b => h2 ⟨a, b⟩⟩

theorem inv_ann {g : G} (h : Inv g) {s : Sess} (hs : g.sess = some s) (f : Fam) (n : Nat) (nl lc : Bool) :
    Inv { g with rib := g.rib.insert { fam := f, pfx := n, noLlgr := nl, lsc := lc } } := by
  have hnew : marked { fam := f, pfx := n, noLlgr := nl, lsc := lc } = false := rfl
  refine ⟨h.live, h.timerGr, h.timerLl, ?_⟩
  have hc := h.cover
  obtain ⟨_, _, _, hgs⟩ := h.live s hs
  unfold Cover at hc ⊢
  rcases hgs with hgs | ⟨P, fl, hgs⟩
  · simp only [hgs] at hc ⊢
    intro y hy
    rcases mem_insert.mp hy with rfl | ⟨hy, _⟩
    · exact hnew
    · exact hc y hy
  · simp only [hgs] at hc ⊢
    intro y hy hm
    rcases mem_insert.mp hy with rfl | ⟨hy, _⟩
    · rw [hnew] at hm; cases hm
    · exact hc y hy hm

/-! ## `GrState::process`, equation by equation -/

theorem gp_idle_est (fs : List Fam) : gprocess .idle (.established fs) = (.idle, []) := rfl

theorem gp_pr_est (S : List Fam) (L : Option (List Fam)) (fs : List Fam) :
    gprocess (.peerRestarting S L) (.established fs) =
      (if (dedup fs).isEmpty then .idle else .peerReconnected (dedup fs) false,
       [GOut.stopTimer] ++ (if (S.filter (fun f => !(dedup fs).contains f)).isEmpty then []
          else [.deleteStale (S.filter (fun f => !(dedup fs).contains f))])) := by
  cases L <;> rfl

theorem gp_ls_est (rem fs : List Fam) :
    gprocess (.llgrStaling rem) (.established fs) =
      (if (dedup fs).isEmpty then GInner.idle else .peerReconnected (dedup fs) true,
       [GOut.stopLlgrTimers] ++ (if (rem.filter (fun f => !(dedup fs).contains f)).isEmpty then []
          else [.deleteLlgrStale (rem.filter (fun f => !(dedup fs).contains f))])) := rfl

theorem gp_prc_est (P : List Fam) (fl : Bool) (fs : List Fam) :
    gprocess (.peerReconnected P fl) (.established fs) = (.peerReconnected P fl, []) := by
  cases fl <;> rfl

theorem gp_drop_some (s : GInner) (S : List Fam) (L : Option (List Fam)) (h : ∀ rem, s ≠ .llgrStaling rem) :
    gprocess s (.dropped (some S) L) = (.peerRestarting S L, [.startTimer]) := by
  cases s with
  | llgrStaling rem => exact absurd rfl (h rem)
  | idle => rfl
  | peerRestarting a b => cases b <;> rfl
  | peerReconnected a b => cases b <;> rfl

theorem gp_drop_llgr (s : GInner) (lp : List Fam) (h : ∀ rem, s ≠ .llgrStaling rem) :
    gprocess s (.dropped none (some lp)) = (.llgrStaling (dedup lp), [.startLlgrTimers lp]) := by
  cases s with
  | llgrStaling rem => exact absurd rfl (h rem)
  | idle => rfl
  | peerRestarting a b => cases b <;> rfl
  | peerReconnected a b => cases b <;> rfl

theorem gp_drop_none (s : GInner) : gprocess s (.dropped none none) = (s, []) := by
  cases s with
  | llgrStaling rem => rfl
  | idle => rfl
  | peerRestarting a b => cases b <;> rfl
  | peerReconnected a b => cases b <;> rfl

theorem gp_pr_timer_llgr (S lp : List Fam) :
    gprocess (.peerRestarting S (some lp)) .timer = (.llgrStaling (dedup lp), [.startLlgrTimers lp]) := rfl

theorem gp_pr_timer_none (S : List Fam) :
    gprocess (.peerRestarting S none) .timer = (.idle, [.deleteStale S]) := rfl

theorem gp_ls_llgrTimer (rem : List Fam) (f : Fam) :
    gprocess (.llgrStaling rem) (.llgrTimer f) =
      (if (rem.filter (· ≠ f)).isEmpty then .idle else .llgrStaling (rem.filter (· ≠ f)), [.deleteLlgrStale [f]]) := rfl

theorem gp_prc_eor (P : List Fam) (fl : Bool) (f : Fam) :
    gprocess (.peerReconnected P fl) (.eor f) =
      (if (P.filter (· ≠ f)).isEmpty then .idle else .peerReconnected (P.filter (· ≠ f)) fl,
       [if fl then .deleteLlgrStale [f] else .deleteStale [f]]) := by
  cases fl <;> rfl

theorem gp_idle_eor (f : Fam) : gprocess .idle (.eor f) = (.idle, []) := rfl

theorem gp_pr_eor (S : List Fam) (L : Option (List Fam)) (f : Fam) :
    gprocess (.peerRestarting S L) (.eor f) = (.peerRestarting S L, []) := by cases L <;> rfl
theorem gp_ls_eor (rem : List Fam) (f : Fam) :
    gprocess (.llgrStaling rem) (.eor f) = (.llgrStaling rem, []) := rfl
theorem gp_idle_llgrTimer (f : Fam) : gprocess .idle (.llgrTimer f) = (.idle, []) := rfl
theorem gp_pr_llgrTimer (S : List Fam) (L : Option (List Fam)) (f : Fam) :
    gprocess (.peerRestarting S L) (.llgrTimer f) = (.peerRestarting S L, []) := by cases L <;> rfl
theorem gp_prc_llgrTimer (P : List Fam) (fl : Bool) (f : Fam) :
    gprocess (.peerReconnected P fl) (.llgrTimer f) = (.peerReconnected P fl, []) := by cases fl <;> rfl

/-! ## closed forms of the glue functions -/

theorem each_nil (r : Rib) (op : Rib → Fam → Rib) : r.each [] op = r := rfl

theorem outs_pr_est (d : List Fam) :
    ([GOut.stopTimer] ++ (if d.isEmpty then [] else [GOut.deleteStale d])).contains GOut.stopLlgrTimers = false ∧
    collectDelete ([GOut.stopTimer] ++ (if d.isEmpty then [] else [GOut.deleteStale d])) = d ∧
    collectDeleteLlgr ([GOut.stopTimer] ++ (if d.isEmpty then [] else [GOut.deleteStale d])) = [] := by
  cases d with
  | nil => exact ⟨rfl, rfl, rfl⟩
  | cons a l => refine ⟨rfl, ?_, rfl⟩; simp [collectDelete]

theorem outs_ls_est (d : List Fam) :
    ([GOut.stopLlgrTimers] ++ (if d.isEmpty then [] else [GOut.deleteLlgrStale d])).contains GOut.stopLlgrTimers = true ∧
    collectDelete ([GOut.stopLlgrTimers] ++ (if d.isEmpty then [] else [GOut.deleteLlgrStale d])) = [] ∧
    collectDeleteLlgr ([GOut.stopLlgrTimers] ++ (if d.isEmpty then [] else [GOut.deleteLlgrStale d])) = d := by
  cases d with
  | nil => exact ⟨rfl, rfl, rfl⟩
  | cons a l => refine ⟨rfl, rfl, ?_⟩; simp [collectDeleteLlgr]

theorem onEst_idle (g : G) (hgs : g.gs = .idle) (fs : List Fam) (lr : Bool) :
    onEstablished g fs lr = { g with grTimer := false } := by
  unfold onEstablished
  simp only [hgs, gp_idle_est, List.contains_nil, Bool.false_eq_true, ↓reduceIte, collectDelete, collectDeleteLlgr,
    List.flatMap_nil, each_nil]

theorem onEst_prc (g : G) (P : List Fam) (fl : Bool) (hgs : g.gs = .peerReconnected P fl) (fs : List Fam) (lr : Bool) :
    onEstablished g fs lr = { g with grTimer := false } := by
  unfold onEstablished
  simp only [hgs, gp_prc_est, List.contains_nil, Bool.false_eq_true, ↓reduceIte, collectDelete, collectDeleteLlgr,
    List.flatMap_nil, each_nil]

theorem onEst_pr (g : G) (S : List Fam) (L : Option (List Fam)) (hgs : g.gs = .peerRestarting S L)
    (fs : List Fam) (lr : Bool) :
    onEstablished g fs lr =
      { g with grTimer := false,
               gs := if (dedup fs).isEmpty then .idle else .peerReconnected (dedup fs) false,
               rib := g.rib.filter (fun x => !((S.filter fun f => !(dedup fs).contains f).contains x.fam && x.stale)) } := by
  unfold onEstablished
  obtain ⟨h1, h2, h3⟩ := outs_pr_est (S.filter fun f => !(dedup fs).contains f)
  simp only [hgs, gp_pr_est, h1, h2, h3, Bool.false_eq_true, ↓reduceIte, each_nil, each_dropStale]

theorem onEst_ls (g : G) (rem : List Fam) (hgs : g.gs = .llgrStaling rem) (fs : List Fam) (lr : Bool) :
    onEstablished g fs lr =
      { g with grTimer := false, llgrTimers := [],
               gs := if (dedup fs).isEmpty then .idle else .peerReconnected (dedup fs) true,
               rib := g.rib.filter (fun x => !((rem.filter fun f => !(dedup fs).contains f).contains x.fam && x.llgr)) } := by
  unfold onEstablished
  obtain ⟨h1, h2, h3⟩ := outs_ls_est (rem.filter fun f => !(dedup fs).contains f)
  simp only [hgs, gp_ls_est, h1, h2, h3, ↓reduceIte, each_nil, each_dropLlgrStale]

theorem onEor_idle (g : G) (hgs : g.gs = .idle) (f : Fam) : onEor g f = g := by
  unfold onEor
  simp only [hgs, gp_idle_eor, collectDelete, collectDeleteLlgr, List.flatMap_nil, each_nil]
  cases g; simp_all

theorem onEor_prc (g : G) (P : List Fam) (fl : Bool) (hgs : g.gs = .peerReconnected P fl) (f : Fam) :
    onEor g f =
      { g with gs := if (P.filter (· ≠ f)).isEmpty then .idle else .peerReconnected (P.filter (· ≠ f)) fl,
               rib := g.rib.filter (fun x => !(decide (x.fam = f) && (if fl then x.llgr else x.stale))) } := by
  unfold onEor
  cases fl with
  | false =>
      simp only [hgs, gp_prc_eor, Bool.false_eq_true, ↓reduceIte, collectDelete, collectDeleteLlgr, List.flatMap_cons,
        List.flatMap_nil, List.append_nil, each_nil, each_dropStale]
      congr 2; funext x; by_cases h : x.fam = f <;> simp [h, eq_comm]
  | true =>
      simp only [hgs, gp_prc_eor, ↓reduceIte, collectDelete, collectDeleteLlgr, List.flatMap_cons,
        List.flatMap_nil, List.append_nil, each_nil, each_dropLlgrStale]
      congr 2; funext x; by_cases h : x.fam = f <;> simp [h, eq_comm]

theorem spawn_closed (g : G) (fs : List Fam) :
    spawnLlgrTimers g fs = { g with rib := g.rib.filterMap (mkAll fs), llgrTimers := dedup (g.llgrTimers ++ fs) } := by
  unfold spawnLlgrTimers; rw [each_markLlgrStale]

theorem grExp_llgr (g : G) (S lp : List Fam) (hgs : g.gs = .peerRestarting S (some lp)) :
    grTimerExpired g =
      { g with gs := .llgrStaling (dedup lp),
               rib := (g.rib.filter (fun x => !(!lp.contains x.fam && x.stale))).filterMap (mkAll lp),
               llgrTimers := dedup (g.llgrTimers ++ lp) } := by
  unfold grTimerExpired
  simp only [hgs, gp_pr_timer_llgr, collectDelete, List.flatMap_cons, List.flatMap_nil, List.append_nil, each_nil,
    llgrStart, List.findSome?_cons, spawn_closed]

theorem grExp_none (g : G) (S : List Fam) (hgs : g.gs = .peerRestarting S none) :
    grTimerExpired g = { g with gs := .idle, rib := g.rib.filter (fun x => !S.contains x.fam) } := by
  unfold grTimerExpired
  simp only [hgs, gp_pr_timer_none, collectDelete, List.flatMap_cons, List.flatMap_nil, List.append_nil, llgrStart,
    List.findSome?_cons, List.findSome?_nil, each_dropFam]

theorem llgrExp_ls (g : G) (rem : List Fam) (hgs : g.gs = .llgrStaling rem) (f : Fam) :
    llgrTimerExpired g f =
      { g with gs := if (rem.filter (· ≠ f)).isEmpty then .idle else .llgrStaling (rem.filter (· ≠ f)),
               rib := g.rib.filter (fun x => !(decide (x.fam = f) && x.llgr)) } := by
  unfold llgrTimerExpired
  simp only [hgs, gp_ls_llgrTimer, collectDeleteLlgr, List.flatMap_cons, List.flatMap_nil, List.append_nil,
    each_dropLlgrStale]
  congr 2; funext x; by_cases h : x.fam = f <;> simp [h, eq_comm]

theorem applyDisc_none (g : G) : applyDisconnect g none none = g := by
  simp [applyDisconnect]

theorem applyDisc_gr (g : G) (n : NegGr) (llgr : Option (List Fam)) (h : ∀ rem, g.gs ≠ .llgrStaling rem) :
    applyDisconnect g (some n) llgr =
      { g with grTimer := true, gs := .peerRestarting (helperStaleFamilies n llgr) llgr } := by
  unfold applyDisconnect
  simp only [Option.isSome_some, Bool.true_or, ↓reduceIte, Option.map_some, gp_drop_some g.gs _ _ h,
    List.foldl_cons, List.foldl_nil]

theorem applyDisc_llgr (g : G) (lp : List Fam) (h : ∀ rem, g.gs ≠ .llgrStaling rem) :
    applyDisconnect g none (some lp) =
      { g with grTimer := false, gs := .llgrStaling (dedup lp),
               rib := g.rib.filterMap (mkAll lp), llgrTimers := dedup (g.llgrTimers ++ lp) } := by
  unfold applyDisconnect
  simp only [Option.isSome_none, Option.isSome_some, Bool.false_or, ↓reduceIte, Option.map_none,
    gp_drop_llgr g.gs _ h, List.foldl_cons, List.foldl_nil, spawn_closed]

/-! ## preservation of the invariant -/

theorem inv_established {g : G} (h : Inv g) (hs : g.sess = none) (s : Sess) (hw : SessWF s) (lr : Bool) :
    Inv (onEstablished { g with sess := some s } ((s.gr.map (·.fams)).getD []) lr) := by
  obtain ⟨gs0, grT, llT, sess0, ad, rib0⟩ := g
  simp only at hs; subst hs
  have hc := h.cover
  unfold Cover at hc
  simp only at hc
  generalize hfs : (s.gr.map (·.fams)).getD [] = fs
  have hgr : ∀ f, f ∈ dedup fs → ∃ n, s.gr = some n ∧ f ∈ n.fams := by
    intro f hf
    rw [mem_dedup] at hf
    cases hg : s.gr with
    | none => rw [hg] at hfs; simp at hfs; subst hfs; simp at hf
    | some n => rw [hg] at hfs; simp at hfs; exact ⟨n, rfl, hfs ▸ hf⟩
  cases hgs : gs0 with
  | idle =>
      subst hgs
      rw [onEst_idle _ rfl]
      have hl : llT = [] := llgrTimers_nil_of h (by simp)
      refine ⟨fun s' hs' => ?_, by simp, fun f => by simp [hl], ?_⟩
      · simp only [Option.some.injEq] at hs'; subst hs'
        exact ⟨hw, rfl, hl, Or.inl rfl⟩
      · simp only [Cover] at hc ⊢; exact hc
  | peerReconnected P fl =>
      subst hgs
      rw [onEst_prc _ P fl rfl]
      have hl : llT = [] := llgrTimers_nil_of h (by simp)
      refine ⟨fun s' hs' => ?_, by simp, fun f => by simp [hl], ?_⟩
      · simp only [Option.some.injEq] at hs'; subst hs'
        exact ⟨hw, rfl, hl, Or.inr ⟨P, fl, rfl⟩⟩
      · simp only [Cover] at hc ⊢
        intro x hx hm
        obtain ⟨_, _, s0, _, hs0, _⟩ := hc x hx hm
        cases hs0
  | peerRestarting S L =>
      subst hgs
      rw [onEst_pr _ S L rfl]
      have hl : llT = [] := llgrTimers_nil_of h (by simp)
      have hsurv : ∀ x, x ∈ rib0.filter (fun x => !((S.filter fun f => !(dedup fs).contains f).contains x.fam && x.stale)) →
          marked x = true → x ∈ rib0 ∧ x.stale = true ∧ x.fam ∈ dedup fs := by
        intro x hx hm
        rw [List.mem_filter] at hx
        obtain ⟨hx, hk⟩ := hx
        have hS := hc.1 x hx hm
        have hst := hc.2 x hx hS
        refine ⟨hx, hst, ?_⟩
        rw [hst, Bool.and_true] at hk
        have hk' : x.fam ∉ S.filter (fun f => !(dedup fs).contains f) := by
          intro hmem; rw [List.contains_iff_mem.mpr hmem] at hk; cases hk
        rw [List.mem_filter] at hk'
        have : ¬ ((!(dedup fs).contains x.fam) = true) := fun h2 => hk' ⟨hS, h2⟩
        simpa using this
      by_cases he : (dedup fs).isEmpty = true
      · simp only [he, ↓reduceIte]
        refine ⟨fun s' hs' => ?_, by simp, fun f => by simp [hl], ?_⟩
        · simp only [Option.some.injEq] at hs'; subst hs'
          exact ⟨hw, rfl, hl, Or.inl rfl⟩
        · simp only [Cover]
          intro x hx
          cases hm : marked x with
          | false => rfl
          | true =>
              have := (hsurv x hx hm).2.2
              rw [List.isEmpty_iff.mp he] at this; simp at this
      · simp only [he, Bool.false_eq_true, ↓reduceIte]
        refine ⟨fun s' hs' => ?_, by simp, fun f => by simp [hl], ?_⟩
        · simp only [Option.some.injEq] at hs'; subst hs'
          exact ⟨hw, rfl, hl, Or.inr ⟨_, _, rfl⟩⟩
        · simp only [Cover]
          intro x hx hm
          obtain ⟨_, hst, hin⟩ := hsurv x hx hm
          obtain ⟨n, hn, hfn⟩ := hgr x.fam hin
          exact ⟨hin, by simpa using hst, s, n, rfl, hn, hfn⟩
  | llgrStaling rem =>
      subst hgs
      rw [onEst_ls _ rem rfl]
      have hsurv : ∀ x, x ∈ rib0.filter (fun x => !((rem.filter fun f => !(dedup fs).contains f).contains x.fam && x.llgr)) →
          marked x = true → x ∈ rib0 ∧ x.llgr = true ∧ x.fam ∈ dedup fs := by
        intro x hx hm
        rw [List.mem_filter] at hx
        obtain ⟨hx, hk⟩ := hx
        have hS := hc.1 x hx hm
        have hst := hc.2 x hx hS
        refine ⟨hx, hst, ?_⟩
        rw [hst, Bool.and_true] at hk
        have hk' : x.fam ∉ rem.filter (fun f => !(dedup fs).contains f) := by
          intro hmem; rw [List.contains_iff_mem.mpr hmem] at hk; cases hk
        rw [List.mem_filter] at hk'
        have : ¬ ((!(dedup fs).contains x.fam) = true) := fun h2 => hk' ⟨hS, h2⟩
        simpa using this
      by_cases he : (dedup fs).isEmpty = true
      · simp only [he, ↓reduceIte]
        refine ⟨fun s' hs' => ?_, by simp, fun f => by simp, ?_⟩
        · simp only [Option.some.injEq] at hs'; subst hs'
          exact ⟨hw, rfl, rfl, Or.inl rfl⟩
        · simp only [Cover]
          intro x hx
          cases hm : marked x with
          | false => rfl
          | true =>
              have := (hsurv x hx hm).2.2
              rw [List.isEmpty_iff.mp he] at this; simp at this
      · simp only [he, Bool.false_eq_true, ↓reduceIte]
        refine ⟨fun s' hs' => ?_, by simp, fun f => by simp, ?_⟩
        · simp only [Option.some.injEq] at hs'; subst hs'
          exact ⟨hw, rfl, rfl, Or.inr ⟨_, _, rfl⟩⟩
        · simp only [Cover]
          intro x hx hm
          obtain ⟨_, hst, hin⟩ := hsurv x hx hm
          obtain ⟨n, hn, hfn⟩ := hgr x.fam hin
          exact ⟨hin, by simpa using hst, s, n, rfl, hn, hfn⟩

/-- timers armed by a step come with their NO_LLGR routes already dropped (property clause 5) -/
def NoLlgrOk (g g' : G) : Prop :=
  ∀ f ∈ g'.llgrTimers, f ∈ g.llgrTimers ∨ ∀ x ∈ g'.rib, x.fam = f → x.noLlgr = false

theorem noLlgrOk_of_timers_sub {g g' : G} (h : ∀ f ∈ g'.llgrTimers, f ∈ g.llgrTimers) : NoLlgrOk g g' :=
  fun f hf => Or.inl (h f hf)

theorem inv_eor {g : G} (h : Inv g) {s : Sess} (hs : g.sess = some s) (f : Fam) : Inv (onEor g f) := by
  obtain ⟨hw, hgt, hlt, hgs⟩ := h.live s hs
  have hc := h.cover
  rcases hgs with hgs | ⟨P, fl, hgs⟩
  · rw [onEor_idle g hgs]; exact h
  · rw [onEor_prc g P fl hgs]
    unfold Cover at hc
    rw [hgs] at hc
    simp only at hc
    have hsurv : ∀ y, y ∈ g.rib.filter (fun x => !(decide (x.fam = f) && (if fl then x.llgr else x.stale))) →
        marked y = true → y ∈ g.rib ∧ y.fam ∈ P.filter (· ≠ f) := by
      intro y hy hm
      rw [List.mem_filter] at hy
      obtain ⟨hy, hk⟩ := hy
      obtain ⟨hp, hkind, _⟩ := hc y hy hm
      refine ⟨hy, ?_⟩
      have hne : y.fam ≠ f := by
        intro he
        cases fl with
        | true => simp only [↓reduceIte] at hkind hk; simp [he, hkind] at hk
        | false => simp only [Bool.false_eq_true, ↓reduceIte] at hkind hk; simp [he, hkind] at hk
      simp [hp, hne]
    by_cases he : (P.filter (· ≠ f)).isEmpty = true
    · simp only [he, ↓reduceIte]
      refine ⟨fun s' hs' => ?_, by simp [hgt], fun f' => by simp [hlt], ?_⟩
      · have : s' = s := by simpa [hs] using hs'.symm
        subst this; exact ⟨hw, hgt, hlt, Or.inl rfl⟩
      · simp only [Cover]
        intro y hy
        cases hm : marked y with
        | false => rfl
        | true =>
            have := (hsurv y hy hm).2
            rw [List.isEmpty_iff.mp he] at this; simp at this
    · simp only [he, Bool.false_eq_true, ↓reduceIte]
      refine ⟨fun s' hs' => ?_, by simp [hgt], fun f' => by simp [hlt], ?_⟩
      · have : s' = s := by simpa [hs] using hs'.symm
        subst this; exact ⟨hw, hgt, hlt, Or.inr ⟨_, _, rfl⟩⟩
      · simp only [Cover]
        intro y hy hm
        obtain ⟨hy', hp'⟩ := hsurv y hy hm
        obtain ⟨_, hkind, hex⟩ := hc y hy' hm
        exact ⟨hp', hkind, hex⟩

theorem eor_timers {g : G} (h : Inv g) {s : Sess} (hs : g.sess = some s) (f : Fam) :
    (onEor g f).llgrTimers = g.llgrTimers ∧ (onEor g f).grTimer = g.grTimer ∧ (onEor g f).sess = g.sess ∧
    (onEor g f).adminDown = g.adminDown := by
  obtain ⟨_, _, _, hgs⟩ := h.live s hs
  rcases hgs with hgs | ⟨P, fl, hgs⟩
  · rw [onEor_idle g hgs]; simp
  · rw [onEor_prc g P fl hgs]; simp

/-! ## the end of an established session -/

theorem familiesToDrop_none (fams : List Fam) : familiesToDrop fams none none = fams := by
  simp [familiesToDrop]

theorem mem_familiesToDrop {fams : List Fam} {gr : Option NegGr} {llgr : Option (List Fam)} {f : Fam} :
    f ∈ familiesToDrop fams gr llgr ↔
      (f ∈ fams ∧ f ∉ (gr.map (·.fams)).getD [] ∧ f ∉ llgr.getD []) := by
  simp [familiesToDrop]

theorem mem_helperStale {n : NegGr} {llgr : Option (List Fam)} {f : Fam} :
    f ∈ helperStaleFamilies n llgr ↔ (f ∈ n.fams ∨ f ∈ llgr.getD []) := by
  simp only [helperStaleFamilies, List.mem_append, mem_dedup, List.mem_filter, Bool.not_eq_eq_eq_not, Bool.not_true,
    List.contains_eq_mem, decide_eq_false_iff_not]
  constructor
  · rintro (h | ⟨h, _⟩)
    · exact Or.inl h
    · exact Or.inr h
  · rintro (h | h)
    · exact Or.inl h
    · by_cases hn : f ∈ n.fams
      · exact Or.inl hn
      · exact Or.inr ⟨h, hn⟩

/-- no helper mode: every family of the session is dropped, nothing else changes -/
theorem sessionDown_none {g : G} {s : Sess} (hs : g.sess = some s) (reason : Reason)
    (h1 : helperGr s reason g.adminDown = none) (h2 : helperLlgr s reason g.adminDown = none) :
    sessionDown g reason = { g with sess := none, rib := g.rib.filter (fun x => !s.fams.contains x.fam) } := by
  unfold sessionDown
  simp only [hs, h1, h2, familiesToDrop_none, each_nil, each_dropFam, applyDisc_none]
  by_cases he : s.fams.isEmpty = true
  · have := List.isEmpty_iff.mp he
    simp only [he, ↓reduceIte, this, List.contains_nil, Bool.not_false]
    congr 1
    exact (List.filter_eq_self.mpr (by simp)).symm
  · simp [he]

/-- helper mode with a restart timer -/
theorem sessionDown_gr {g : G} (h : Inv g) {s : Sess} (hs : g.sess = some s) (reason : Reason) (n : NegGr)
    (h1 : helperGr s reason g.adminDown = some n) :
    sessionDown g reason =
      { g with sess := none, grTimer := true,
               gs := .peerRestarting (helperStaleFamilies n (helperLlgr s reason g.adminDown)) (helperLlgr s reason g.adminDown),
               rib := (g.rib.filter (fun x => !(familiesToDrop s.fams (some n) (helperLlgr s reason g.adminDown)).contains x.fam)).map
                  (fun x => if (helperStaleFamilies n (helperLlgr s reason g.adminDown)).contains x.fam
                            then { x with stale := true } else x) } := by
  obtain ⟨hw, _, _, hgs⟩ := h.live s hs
  have hn : s.gr = some n := by
    unfold helperGr at h1
    split at h1
    · cases h1
    · cases hg : s.gr with
      | none => simp [hg] at h1
      | some m => simp only [hg] at h1; split at h1 <;> simp_all
  have hne : s.fams.isEmpty = false := by
    obtain ⟨hne, hsub⟩ := hw.1 n hn
    cases hf : n.fams with
    | nil => exact absurd hf hne
    | cons a l =>
        have := hsub a (by simp [hf])
        cases hsf : s.fams with
        | nil => rw [hsf] at this; simp at this
        | cons b m => rfl
  unfold sessionDown
  simp only [hs, h1, hne, Bool.false_eq_true, ↓reduceIte, each_dropFam, each_restale]
  rw [applyDisc_gr]
  rcases hgs with hgs | ⟨P, fl, hgs⟩ <;> simp [hgs]

/-- helper mode without GR: the LLGR stale period starts at once -/
theorem sessionDown_llgr {g : G} (h : Inv g) {s : Sess} (hs : g.sess = some s) (reason : Reason) (lp : List Fam)
    (h1 : helperGr s reason g.adminDown = none) (h2 : helperLlgr s reason g.adminDown = some lp) :
    sessionDown g reason =
      { g with sess := none, grTimer := false, gs := .llgrStaling (dedup lp),
               rib := (g.rib.filter (fun x => !(familiesToDrop s.fams none (some lp)).contains x.fam)).filterMap (mkAll lp),
               llgrTimers := dedup (g.llgrTimers ++ lp) } := by
  obtain ⟨hw, _, _, hgs⟩ := h.live s hs
  have hl : s.llgr = some lp := by
    unfold helperLlgr at h2
    split at h2
    · cases h2
    · split at h2
      · exact h2
      · cases h2
  have hne : s.fams.isEmpty = false := by
    obtain ⟨hne, hsub⟩ := hw.2 lp hl
    cases hf : lp with
    | nil => exact absurd hf hne
    | cons a l =>
        have := hsub a (by simp [hf])
        cases hsf : s.fams with
        | nil => rw [hsf] at this; simp at this
        | cons b m => rfl
  unfold sessionDown
  simp only [hs, h1, h2, hne, Bool.false_eq_true, ↓reduceIte, each_dropFam, each_nil]
  rw [applyDisc_llgr]
  rcases hgs with hgs | ⟨P, fl, hgs⟩ <;> simp [hgs]

theorem helperGr_some {s : Sess} {reason : Reason} {ad : Bool} {n : NegGr}
    (h : helperGr s reason ad = some n) : s.gr = some n ∧ ad = false ∧ grApplies reason n.nbit = true := by
  unfold helperGr at h
  split at h
  · cases h
  · rename_i had
    cases hg : s.gr with
    | none => simp [hg] at h
    | some m =>
        simp only [hg] at h
        split at h
        · rename_i ha; cases h; exact ⟨rfl, by simpa using had, ha⟩
        · cases h

theorem helperLlgr_some {s : Sess} {reason : Reason} {ad : Bool} {lp : List Fam}
    (h : helperLlgr s reason ad = some lp) :
    s.llgr = some lp ∧ ad = false ∧ ((helperGr s reason false).isSome = true ∨ reason = .io) := by
  unfold helperLlgr at h
  split at h
  · cases h
  · rename_i had
    split at h
    · rename_i hc; exact ⟨h, by simpa using had, by simpa using hc⟩
    · cases h

theorem inv_sessionDown {g : G} (h : Inv g) (reason : Reason) :
    Inv (sessionDown g reason) ∧ NoLlgrOk g (sessionDown g reason) := by
  cases hs : g.sess with
  | none =>
      have : sessionDown g reason = g := by simp [sessionDown, hs]
      rw [this]; exact ⟨h, noLlgrOk_of_timers_sub fun f hf => hf⟩
  | some s =>
      obtain ⟨hw, hgt, hlt, hgs⟩ := h.live s hs
      have hc := h.cover
      unfold Cover at hc
      cases h1 : helperGr s reason g.adminDown with
      | some n =>
          obtain ⟨hn, _, _⟩ := helperGr_some h1
          rw [sessionDown_gr h hs reason n h1]
          generalize helperLlgr s reason g.adminDown = ll
          refine ⟨⟨fun s' hs' => by simp at hs', by simp, fun f => by simp [hlt], ?_⟩,
            noLlgrOk_of_timers_sub fun f hf => by simpa using hf⟩
          simp only [Cover]
          refine ⟨fun y hy hm => ?_, fun y hy hf => ?_⟩
          · simp only [List.mem_map, List.mem_filter] at hy
            obtain ⟨x, ⟨hx, _⟩, rfl⟩ := hy
            by_cases hS : (helperStaleFamilies n ll).contains x.fam = true
            · rw [if_pos hS]; simpa using hS
            · simp only [hS, Bool.false_eq_true, ↓reduceIte] at hm ⊢
              exfalso
              rcases hgs with hgs | ⟨P, fl, hgs⟩
              · rw [hgs] at hc; have := hc x hx; rw [hm] at this; cases this
              · rw [hgs] at hc
                obtain ⟨_, _, s0, n0, hs0, hn0, hf0⟩ := hc x hx hm
                rw [hs] at hs0; cases hs0
                rw [hn] at hn0; cases hn0
                exact hS (by simpa using mem_helperStale.mpr (Or.inl hf0))
          · simp only [List.mem_map, List.mem_filter] at hy
            obtain ⟨x, ⟨hx, _⟩, rfl⟩ := hy
            by_cases hS : (helperStaleFamilies n ll).contains x.fam = true
            · rw [if_pos hS]
            · simp only [hS, Bool.false_eq_true, ↓reduceIte] at hf
              exact absurd (by simpa using hf) hS
      | none =>
          cases h2 : helperLlgr s reason g.adminDown with
          | none =>
              rw [sessionDown_none hs reason h1 h2]
              refine ⟨⟨fun s' hs' => by simp at hs', h.timerGr, h.timerLl, ?_⟩,
                noLlgrOk_of_timers_sub fun f hf => by simpa using hf⟩
              simp only [Cover]
              rcases hgs with hgs | ⟨P, fl, hgs⟩
              · rw [hgs] at hc ⊢
                intro y hy
                exact hc y (List.mem_filter.mp hy).1
              · rw [hgs] at hc ⊢
                intro y hy hm
                rw [List.mem_filter] at hy
                obtain ⟨_, _, s0, n0, hs0, hn0, hf0⟩ := hc y hy.1 hm
                rw [hs] at hs0; cases hs0
                have : y.fam ∈ s.fams := (hw.1 n0 hn0).2 _ hf0
                simp [this] at hy
          | some lp =>
              obtain ⟨hl, had, hio⟩ := helperLlgr_some h2
              rw [sessionDown_llgr h hs reason lp h1 h2]
              -- GR was not negotiated on this session (else an eligible reason would have kept it)
              have hnogr : s.gr = none := by
                cases hg : s.gr with
                | none => rfl
                | some m =>
                    exfalso
                    rw [had] at h1
                    rcases hio with hio | hio
                    · rw [h1] at hio; cases hio
                    · subst hio
                      simp [helperGr, hg, grApplies] at h1
              refine ⟨⟨fun s' hs' => by simp at hs', by simp, fun f => by simp [hlt, mem_dedup], ?_⟩, ?_⟩
              · simp only [Cover]
                refine ⟨fun y hy hm => ?_, fun y hy hf => ?_⟩
                · rw [List.mem_filterMap] at hy
                  obtain ⟨x, hx, hxy⟩ := hy
                  rw [List.mem_filter] at hx
                  unfold mkAll at hxy
                  by_cases hin : lp.contains x.fam = true
                  · simp only [hin, ↓reduceIte] at hxy
                    split at hxy
                    · cases hxy
                    · cases hxy; simpa [mem_dedup] using hin
                  · simp only [hin, Bool.false_eq_true, ↓reduceIte, Option.some.injEq] at hxy
                    subst hxy
                    exfalso
                    rcases hgs with hgs | ⟨P, fl, hgs⟩
                    · rw [hgs] at hc; have := hc x hx.1; rw [hm] at this; cases this
                    · rw [hgs] at hc
                      obtain ⟨_, _, s0, n0, hs0, hn0, _⟩ := hc x hx.1 hm
                      rw [hs] at hs0; cases hs0
                      rw [hnogr] at hn0; cases hn0
                · rw [List.mem_filterMap] at hy
                  obtain ⟨x, hx, hxy⟩ := hy
                  unfold mkAll at hxy
                  by_cases hin : lp.contains x.fam = true
                  · simp only [hin, ↓reduceIte] at hxy
                    split at hxy
                    · cases hxy
                    · cases hxy; rfl
                  · simp only [hin, Bool.false_eq_true, ↓reduceIte, Option.some.injEq] at hxy
                    subst hxy
                    exact absurd (by simpa [mem_dedup] using hf) hin
              · intro f hf
                simp only [mem_dedup, List.mem_append] at hf
                rcases hf with hf | hf
                · exact Or.inl hf
                · refine Or.inr fun y hy hyf => ?_
                  simp only at hy
                  rw [List.mem_filterMap] at hy
                  obtain ⟨x, _, hxy⟩ := hy
                  unfold mkAll at hxy
                  by_cases hin : lp.contains x.fam = true
                  · simp only [hin, ↓reduceIte] at hxy
                    split at hxy
                    · cases hxy
                    · rename_i hnl; cases hxy; simpa using hnl
                  · simp only [hin, Bool.false_eq_true, ↓reduceIte, Option.some.injEq] at hxy
                    subst hxy
                    exact absurd (by simpa [hyf] using hf) hin

/-! ## timers -/

theorem sess_none_of_grTimer {g : G} (h : Inv g) (ht : g.grTimer = true) : g.sess = none := by
  cases hs : g.sess with
  | none => rfl
  | some s => have := (h.live s hs).2.1; rw [ht] at this; cases this

theorem sess_none_of_ls {g : G} (h : Inv g) {rem : List Fam} (hgs : g.gs = .llgrStaling rem) : g.sess = none := by
  cases hs : g.sess with
  | none => rfl
  | some s =>
      rcases (h.live s hs).2.2.2 with h1 | ⟨P, fl, h1⟩ <;> rw [hgs] at h1 <;> cases h1

/-- restart-timer expiry from a state satisfying the invariant with the timer armed -/
theorem inv_grExpired {g : G} (h : Inv g) (ht : g.grTimer = true) :
    Inv (grTimerExpired { g with grTimer := false }) ∧ NoLlgrOk g (grTimerExpired { g with grTimer := false }) ∧
    (grTimerExpired { g with grTimer := false }).sess = none ∧
    (grTimerExpired { g with grTimer := false }).adminDown = g.adminDown ∧
    (grTimerExpired { g with grTimer := false }).grTimer = false := by
  obtain ⟨S, L, hgs⟩ := h.timerGr.mp ht
  have hsn := sess_none_of_grTimer h ht
  have hlt := llgrTimers_nil_of h (by simp [hgs])
  have hc := h.cover
  unfold Cover at hc
  rw [hgs] at hc
  simp only at hc
  cases L with
  | none =>
      rw [grExp_none _ S (by simpa using hgs)]
      refine ⟨⟨fun s hs => by simp [hsn] at hs, by simp, fun f => by simp [hlt], ?_⟩,
        noLlgrOk_of_timers_sub fun f hf => by simpa using hf, hsn, rfl, rfl⟩
      simp only [Cover]
      intro y hy
      rw [List.mem_filter] at hy
      cases hm : marked y with
      | false => rfl
      | true =>
          have := hc.1 y hy.1 hm
          simp [this] at hy
  | some lp =>
      rw [grExp_llgr _ S lp (by simpa using hgs)]
      refine ⟨⟨fun s hs => by simp [hsn] at hs, by simp, fun f => by simp [hlt, mem_dedup], ?_⟩, ?_, hsn, rfl, rfl⟩
      · simp only [Cover]
        refine ⟨fun y hy hm => ?_, fun y hy hf => ?_⟩
        · rw [List.mem_filterMap] at hy
          obtain ⟨x, hx, hxy⟩ := hy
          rw [List.mem_filter] at hx
          unfold mkAll at hxy
          by_cases hin : lp.contains x.fam = true
          · simp only [hin, ↓reduceIte] at hxy
            split at hxy
            · cases hxy
            · cases hxy; simpa [mem_dedup] using hin
          · simp only [hin, Bool.false_eq_true, ↓reduceIte, Option.some.injEq] at hxy
            subst hxy
            exfalso
            have hS := hc.1 x hx.1 hm
            have hst := hc.2 x hx.1 hS
            have hk := hx.2
            have hin' : lp.contains x.fam = false := by simpa using hin
            rw [hin', hst] at hk; cases hk
        · rw [List.mem_filterMap] at hy
          obtain ⟨x, hx, hxy⟩ := hy
          unfold mkAll at hxy
          by_cases hin : lp.contains x.fam = true
          · simp only [hin, ↓reduceIte] at hxy
            split at hxy
            · cases hxy
            · cases hxy; rfl
          · simp only [hin, Bool.false_eq_true, ↓reduceIte, Option.some.injEq] at hxy
            subst hxy
            exact absurd (by simpa [mem_dedup] using hf) hin
      · intro f hf
        simp only [mem_dedup, List.mem_append] at hf
        rcases hf with hf | hf
        · exact Or.inl hf
        · refine Or.inr fun y hy hyf => ?_
          simp only at hy
          rw [List.mem_filterMap] at hy
          obtain ⟨x, _, hxy⟩ := hy
          unfold mkAll at hxy
          by_cases hin : lp.contains x.fam = true
          · simp only [hin, ↓reduceIte] at hxy
            split at hxy
            · cases hxy
            · rename_i hnl; cases hxy; simpa using hnl
          · simp only [hin, Bool.false_eq_true, ↓reduceIte, Option.some.injEq] at hxy
            subst hxy
            exact absurd (by simpa [hyf] using hf) hin

theorem inv_fireGr {g : G} (h : Inv g) : Inv (fireGr g) ∧ NoLlgrOk g (fireGr g) := by
  unfold fireGr
  by_cases ht : g.grTimer = true
  · simp only [ht, ↓reduceIte]
    exact ⟨(inv_grExpired h ht).1, (inv_grExpired h ht).2.1⟩
  · simp only [ht, Bool.false_eq_true, ↓reduceIte]
    exact ⟨h, noLlgrOk_of_timers_sub fun f hf => hf⟩

theorem inv_fireLlgr {g : G} (h : Inv g) (f : Fam) : Inv (fireLlgr g f) ∧ NoLlgrOk g (fireLlgr g f) := by
  unfold fireLlgr
  by_cases hf : g.llgrTimers.contains f = true
  · simp only [hf, ↓reduceIte]
    obtain ⟨rem, hgs, hfr⟩ := (h.timerLl f).mp (by simpa using hf)
    have hsn := sess_none_of_ls h hgs
    have hgt := grTimer_false_of h (by simp [hgs])
    have hc := h.cover
    unfold Cover at hc
    rw [hgs] at hc
    simp only at hc
    rw [llgrExp_ls _ rem (by simpa using hgs)]
    have hsurv : ∀ y, y ∈ g.rib.filter (fun x => !(decide (x.fam = f) && x.llgr)) → marked y = true →
        y ∈ g.rib ∧ y.fam ∈ rem.filter (· ≠ f) := by
      intro y hy hm
      rw [List.mem_filter] at hy
      have hr := hc.1 y hy.1 hm
      have hl := hc.2 y hy.1 hr
      refine ⟨hy.1, ?_⟩
      have hne : y.fam ≠ f := by intro he; simp [he, hl] at hy
      simp [hr, hne]
    have htl : ∀ f', f' ∈ g.llgrTimers.filter (· ≠ f) ↔ f' ∈ rem.filter (· ≠ f) := by
      intro f'
      simp only [List.mem_filter]
      constructor
      · rintro ⟨h1, h2⟩
        obtain ⟨rem', hr', hf'⟩ := (h.timerLl f').mp h1
        rw [hgs] at hr'; cases hr'; exact ⟨hf', h2⟩
      · rintro ⟨h1, h2⟩; exact ⟨(h.timerLl f').mpr ⟨rem, hgs, h1⟩, h2⟩
    refine ⟨?_, noLlgrOk_of_timers_sub fun f' hf' => ?_⟩
    · by_cases he : (rem.filter (· ≠ f)).isEmpty = true
      · simp only [he, ↓reduceIte]
        refine ⟨fun s hs => by simp [hsn] at hs, by simp [hgt], fun f' => ?_, ?_⟩
        · simp only [reduceCtorEq, false_and, exists_false, iff_false]
          intro hm; have := (htl f').mp hm; rw [List.isEmpty_iff.mp he] at this; simp at this
        · simp only [Cover]
          intro y hy
          cases hm : marked y with
          | false => rfl
          | true => have := (hsurv y hy hm).2; rw [List.isEmpty_iff.mp he] at this; simp at this
      · simp only [he, Bool.false_eq_true, ↓reduceIte]
        refine ⟨fun s hs => by simp [hsn] at hs, by simp [hgt], fun f' => ?_, ?_⟩
        · simp only [GInner.llgrStaling.injEq, exists_eq_left']
          exact htl f'
        · simp only [Cover]
          exact ⟨fun y hy hm => (hsurv y hy hm).2, fun y hy hfy => hc.2 y (List.mem_filter.mp hy).1 (List.mem_filter.mp hfy).1⟩
    · by_cases he : (rem.filter (· ≠ f)).isEmpty = true
      · rw [if_pos he] at hf'; exact (List.mem_filter.mp hf').1
      · rw [if_neg he] at hf'; exact (List.mem_filter.mp hf').1
  · simp only [hf, Bool.false_eq_true, ↓reduceIte]
    exact ⟨h, noLlgrOk_of_timers_sub fun f hf => hf⟩

/-! ## `force_down` -/

/-- state during the drain of the LLGR timers: no session, no timer slot occupied, the machine in
    `LlgrStaling rem` (or already `Idle`), and the marked paths all LLGR-stale within `rem` -/
structure Draining (g : G) (rem : List Fam) : Prop where
  sess : g.sess = none
  grT : g.grTimer = false
  llT : g.llgrTimers = []
  gs : g.gs = .llgrStaling rem ∨ (g.gs = .idle ∧ rem = [])
  cov1 : ∀ x ∈ g.rib, marked x = true → x.fam ∈ rem
  cov2 : ∀ x ∈ g.rib, x.fam ∈ rem → x.llgr = true

theorem llgrExp_idle (g : G) (hgs : g.gs = .idle) (f : Fam) : llgrTimerExpired g f = g := by
  unfold llgrTimerExpired
  simp only [hgs, gp_idle_llgrTimer, collectDeleteLlgr, List.flatMap_nil, each_nil]
  cases g; simp_all

theorem draining_step {g : G} {rem : List Fam} (h : Draining g rem) (f : Fam) :
    Draining (llgrTimerExpired g f) (rem.filter (· ≠ f)) ∧ (llgrTimerExpired g f).adminDown = g.adminDown := by
  rcases h.gs with hgs | ⟨hgs, hrem⟩
  · rw [llgrExp_ls g rem hgs]
    have hsurv : ∀ y, y ∈ g.rib.filter (fun x => !(decide (x.fam = f) && x.llgr)) → marked y = true →
        y.fam ∈ rem.filter (· ≠ f) := by
      intro y hy hm
      rw [List.mem_filter] at hy
      have hr := h.cov1 y hy.1 hm
      have hl := h.cov2 y hy.1 hr
      have hne : y.fam ≠ f := by intro he; simp [he, hl] at hy
      simp [hr, hne]
    refine ⟨⟨h.sess, h.grT, h.llT, ?_, hsurv, fun y hy hfy => h.cov2 y (List.mem_filter.mp hy).1 (List.mem_filter.mp hfy).1⟩, rfl⟩
    by_cases he : (rem.filter (· ≠ f)).isEmpty = true
    · rw [if_pos he]; exact Or.inr ⟨rfl, List.isEmpty_iff.mp he⟩
    · rw [if_neg he]; exact Or.inl rfl
  · rw [llgrExp_idle g hgs]
    subst hrem
    exact ⟨⟨h.sess, h.grT, h.llT, Or.inr ⟨hgs, by simp⟩, by simpa using h.cov1, by simp⟩, rfl⟩

theorem draining_fold {g : G} {rem : List Fam} (h : Draining g rem) (l : List Fam) :
    Draining (l.foldl llgrTimerExpired g) (rem.filter (fun f => !l.contains f)) ∧
    (l.foldl llgrTimerExpired g).adminDown = g.adminDown := by
  induction l generalizing g rem with
  | nil =>
      have : rem.filter (fun f => !([] : List Fam).contains f) = rem := List.filter_eq_self.mpr (by simp)
      rw [this]
      exact ⟨h, rfl⟩
  | cons f l ih =>
      obtain ⟨h1, h2⟩ := draining_step h f
      obtain ⟨h3, h4⟩ := ih h1
      simp only [List.foldl_cons]
      rw [List.filter_filter] at h3
      have : (fun a => (!l.contains a) && decide (a ≠ f)) = fun a => !(f :: l).contains a := by
        funext a; by_cases ha : a = f <;> simp [ha, eq_comm]
      rw [this] at h3
      exact ⟨h3, h4.trans h2⟩

theorem inv_of_draining_nil {g : G} (h : Draining g []) : Inv g := by
  refine ⟨fun s hs => (by rw [h.sess] at hs; cases hs), ?_, ?_, ?_⟩
  · rcases h.gs with hgs | ⟨hgs, _⟩ <;> simp [h.grT, hgs]
  · intro f
    rcases h.gs with hgs | ⟨hgs, _⟩ <;> simp [h.llT, hgs]
  · unfold Cover
    have hno : ∀ x ∈ g.rib, marked x = false := by
      intro x hx
      cases hm : marked x with
      | false => rfl
      | true => have := h.cov1 x hx hm; simp at this
    rcases h.gs with hgs | ⟨hgs, _⟩
    · rw [hgs]; exact ⟨fun x hx hm => (by rw [hno x hx] at hm; cases hm), fun x hx hf => (by simp at hf)⟩
    · rw [hgs]; exact hno

theorem forceDown_armed (g : G) (ht : g.grTimer = true) (hlt : g.llgrTimers = []) :
    forceDown g =
      sessionDown ((sortNat (grTimerExpired { g with grTimer := false }).llgrTimers).foldl llgrTimerExpired
        { grTimerExpired { g with grTimer := false } with llgrTimers := [] }) .admin := by
  obtain ⟨gs0, grT, llT, sess0, ad, rib0⟩ := g
  simp only at ht hlt; subst ht hlt
  simp [forceDown, sortNat]

theorem forceDown_quiet (g : G) (ht : g.grTimer = false) (hlt : g.llgrTimers = []) :
    forceDown g = sessionDown g .admin := by
  obtain ⟨gs0, grT, llT, sess0, ad, rib0⟩ := g
  simp only at ht hlt; subst ht hlt
  simp [forceDown, sortNat]

theorem forceDown_llgr (g : G) (ht : g.grTimer = false) :
    forceDown g = sessionDown ((sortNat g.llgrTimers).foldl llgrTimerExpired { g with llgrTimers := [] }) .admin := by
  obtain ⟨gs0, grT, llT, sess0, ad, rib0⟩ := g
  simp only at ht; subst ht
  simp [forceDown]

/-- all armed LLGR timers are fired at once (no session, restart timer not armed): helper mode is over -/
theorem inv_drainAll {g : G} (h : Inv g) (hs : g.sess = none) (hgt : g.grTimer = false) :
    Inv ((sortNat g.llgrTimers).foldl llgrTimerExpired { g with llgrTimers := [] }) ∧
    ((sortNat g.llgrTimers).foldl llgrTimerExpired { g with llgrTimers := [] }).sess = none ∧
    ((sortNat g.llgrTimers).foldl llgrTimerExpired { g with llgrTimers := [] }).grTimer = false ∧
    ((sortNat g.llgrTimers).foldl llgrTimerExpired { g with llgrTimers := [] }).llgrTimers = [] ∧
    ((sortNat g.llgrTimers).foldl llgrTimerExpired { g with llgrTimers := [] }).adminDown = g.adminDown := by
  have hcase : (∃ rem, g.gs = .llgrStaling rem) ∨ g.llgrTimers = [] := by
    cases hgs : g.gs with
    | llgrStaling rem => exact Or.inl ⟨rem, rfl⟩
    | idle => exact Or.inr (llgrTimers_nil_of h (by simp [hgs]))
    | peerReconnected P fl => exact Or.inr (llgrTimers_nil_of h (by simp [hgs]))
    | peerRestarting S L => exact Or.inr (llgrTimers_nil_of h (by simp [hgs]))
  rcases hcase with ⟨rem, hgs⟩ | hlt
  · have hc := h.cover
    unfold Cover at hc
    rw [hgs] at hc
    have hd : Draining ({ g with llgrTimers := [] } : G) rem := ⟨hs, hgt, rfl, Or.inl hgs, hc.1, hc.2⟩
    obtain ⟨hd', had⟩ := draining_fold hd (sortNat g.llgrTimers)
    have hnil : rem.filter (fun f => !(sortNat g.llgrTimers).contains f) = [] := by
      apply List.filter_eq_nil_iff.mpr
      intro f hf
      have : f ∈ g.llgrTimers := (h.timerLl f).mpr ⟨rem, hgs, hf⟩
      simp [mem_sortNat, this]
    rw [hnil] at hd'
    exact ⟨inv_of_draining_nil hd', hd'.sess, hd'.grT, hd'.llT, had⟩
  · have e1 : ({ g with llgrTimers := [] } : G) = g := by
      obtain ⟨gs0, grT, llT, sess0, ad, rib0⟩ := g
      simp only at hlt; subst hlt; rfl
    rw [e1, hlt]
    simp only [sortNat, List.foldr_nil, List.foldl_nil]
    refine ⟨h, hs, hgt, ?_, ?_⟩
    · first | exact hlt | trivial
    · first | rfl | trivial

/-- `force_down`: afterwards the invariant holds, no session, no timer armed -/
theorem inv_forceDown' {g : G} (h : Inv g) :
    Inv (forceDown g) ∧ NoLlgrOk g (forceDown g) ∧ (forceDown g).sess = none ∧
    (forceDown g).adminDown = g.adminDown ∧ (forceDown g).grTimer = false ∧ (forceDown g).llgrTimers = [] := by
  by_cases ht : g.grTimer = true
  · obtain ⟨S, L, hgs⟩ := h.timerGr.mp ht
    have hlt := llgrTimers_nil_of h (by simp [hgs])
    obtain ⟨hi, _, hsn, had, hgf⟩ := inv_grExpired h ht
    rw [forceDown_armed g ht hlt]
    obtain ⟨d1, d2, d3, d4, d5⟩ := inv_drainAll hi hsn hgf
    have : sessionDown ((sortNat (grTimerExpired { g with grTimer := false }).llgrTimers).foldl llgrTimerExpired
        { grTimerExpired { g with grTimer := false } with llgrTimers := [] }) .admin =
        (sortNat (grTimerExpired { g with grTimer := false }).llgrTimers).foldl llgrTimerExpired
        { grTimerExpired { g with grTimer := false } with llgrTimers := [] } := by
      simp [sessionDown, d2]
    rw [this]
    exact ⟨d1, noLlgrOk_of_timers_sub fun f hf => (by rw [d4] at hf; cases hf), d2, d5.trans had, d3, d4⟩
  · have htf : g.grTimer = false := by simpa using ht
    cases hs : g.sess with
    | none =>
        obtain ⟨d1, d2, d3, d4, d5⟩ := inv_drainAll h hs htf
        rw [forceDown_llgr g htf]
        have : sessionDown ((sortNat g.llgrTimers).foldl llgrTimerExpired { g with llgrTimers := [] }) .admin =
            (sortNat g.llgrTimers).foldl llgrTimerExpired { g with llgrTimers := [] } := by
          simp [sessionDown, d2]
        rw [this]
        exact ⟨d1, noLlgrOk_of_timers_sub fun f hf => (by rw [d4] at hf; cases hf), d2, d5, d3, d4⟩
    | some s =>
        obtain ⟨_, _, hlt, _⟩ := h.live s hs
        rw [forceDown_quiet g htf hlt]
        obtain ⟨i1, i2⟩ := inv_sessionDown h .admin
        obtain ⟨F1a, F1b⟩ : helperGr s .admin g.adminDown = none ∧ helperLlgr s .admin g.adminDown = none := by
          cases had : g.adminDown with
          | true => simp [helperGr, helperLlgr]
          | false => cases hg : s.gr <;> simp [helperGr, helperLlgr, hg, grApplies]
        have hsd := sessionDown_none hs .admin F1a F1b
        refine ⟨i1, i2, ?_, ?_, ?_, ?_⟩ <;> rw [hsd]
        · exact htf
        · exact hlt

theorem inv_forceDown {g : G} (h : Inv g) : Inv (forceDown g) ∧ NoLlgrOk g (forceDown g) :=
  ⟨(inv_forceDown' h).1, (inv_forceDown' h).2.1⟩

/-! ## every event -/

/-- what a session negotiates is well-formed: non-empty sets of session families -/
theorem sessWF_negotiate (fams : List Fam) (gr : Option NegGr) (llgr : Option (List Fam)) :
    SessWF (negotiate fams gr llgr) := by
  refine ⟨fun n hn => ?_, fun l hl => ?_⟩
  · cases gr with
    | none => simp [negotiate] at hn
    | some m =>
        simp only [negotiate] at hn
        split at hn
        · cases hn
        · rename_i hne
          cases hn
          refine ⟨fun he => hne (by simp only at he; rw [he]; rfl), fun f hf => ?_⟩
          simp only [negotiate]
          exact (List.mem_filter.mp hf).1
  · cases llgr with
    | none => simp [negotiate] at hl
    | some m =>
        simp only [negotiate] at hl
        split at hl
        · cases hl
        · rename_i hne
          cases hl
          refine ⟨fun he => hne (by rw [he]; rfl), fun f hf => ?_⟩
          simp only [negotiate]
          exact (List.mem_filter.mp hf).1

theorem fireLlgr_sub (g : G) (f : Fam) :
    (∀ f' ∈ (fireLlgr g f).llgrTimers, f' ∈ g.llgrTimers) ∧ (∀ x ∈ (fireLlgr g f).rib, x ∈ g.rib) := by
  unfold fireLlgr
  by_cases hf : g.llgrTimers.contains f = true
  · rw [if_pos hf]
    unfold llgrTimerExpired
    simp only
    refine ⟨fun f' hf' => (List.mem_filter.mp hf').1, fun x hx => ?_⟩
    rw [each_dropLlgrStale] at hx
    exact (List.mem_filter.mp hx).1
  · rw [if_neg hf]; exact ⟨fun _ h => h, fun _ h => h⟩

theorem inv_fireLlgr_fold {g0 g : G} (h : Inv g) (hn : NoLlgrOk g0 g) (l : List Fam) :
    Inv (l.foldl fireLlgr g) ∧ NoLlgrOk g0 (l.foldl fireLlgr g) := by
  induction l generalizing g with
  | nil => exact ⟨h, hn⟩
  | cons f l ih =>
      simp only [List.foldl_cons]
      apply ih (inv_fireLlgr h f).1
      intro f' hf'
      obtain ⟨h1, h2⟩ := fireLlgr_sub g f
      rcases hn f' (h1 f' hf') with h3 | h3
      · exact Or.inl h3
      · exact Or.inr fun x hx hxf => h3 x (h2 x hx) hxf

theorem inv_adminDown {g : G} (h : Inv g) (b : Bool) : Inv { g with adminDown := b } :=
  ⟨h.live, h.timerGr, h.timerLl, h.cover⟩

theorem onEst_timers_sub (g : G) (fs : List Fam) (lr : Bool) :
    ∀ f ∈ (onEstablished g fs lr).llgrTimers, f ∈ g.llgrTimers := by
  cases hgs : g.gs with
  | idle => rw [onEst_idle g hgs]; exact fun f hf => hf
  | peerReconnected P fl => rw [onEst_prc g P fl hgs]; exact fun f hf => hf
  | peerRestarting S L => rw [onEst_pr g S L hgs]; exact fun f hf => hf
  | llgrStaling rem => rw [onEst_ls g rem hgs]; intro f hf; cases hf

theorem onEst_fields (g : G) (fs : List Fam) (lr : Bool) :
    (onEstablished g fs lr).sess = g.sess ∧ (onEstablished g fs lr).adminDown = g.adminDown := by
  cases hgs : g.gs with
  | idle => rw [onEst_idle g hgs]; exact ⟨rfl, rfl⟩
  | peerReconnected P fl => rw [onEst_prc g P fl hgs]; exact ⟨rfl, rfl⟩
  | peerRestarting S L => rw [onEst_pr g S L hgs]; exact ⟨rfl, rfl⟩
  | llgrStaling rem => rw [onEst_ls g rem hgs]; exact ⟨rfl, rfl⟩

/-- The invariant is inductive: every in-domain event preserves it (and arms LLGR timers only
    after dropping the NO_LLGR routes of their families).  No side condition on the event. -/
theorem step_inv {g : G} (h : Inv g) (ev : Ev) : Inv (step g ev) ∧ NoLlgrOk g (step g ev) := by
  cases ev with
  | est fams gr llgr lr =>
      cases hs : g.sess with
      | some s => simp only [step, hs]; exact ⟨h, noLlgrOk_of_timers_sub fun f hf => hf⟩
      | none =>
          simp only [step, hs]
          exact ⟨inv_established h hs _ (sessWF_negotiate fams gr llgr) lr,
            noLlgrOk_of_timers_sub (onEst_timers_sub _ _ _)⟩
  | ann f n nl lc =>
      cases hs : g.sess with
      | none => simp only [step, hs]; exact ⟨h, noLlgrOk_of_timers_sub fun f hf => hf⟩
      | some s =>
          simp only [step, hs]
          by_cases hc : s.fams.contains f = true
          · simp only [hc, ↓reduceIte]
            have h1 := inv_ann h hs f n nl lc
            simp only [hs] at h1
            exact ⟨h1, noLlgrOk_of_timers_sub fun f hf => hf⟩
          · simp only [hc, Bool.false_eq_true, ↓reduceIte]; exact ⟨h, noLlgrOk_of_timers_sub fun f hf => hf⟩
  | eor f =>
      cases hs : g.sess with
      | none => simp only [step, hs]; exact ⟨h, noLlgrOk_of_timers_sub fun f hf => hf⟩
      | some s =>
          simp only [step, hs]
          by_cases hc : s.gr.isSome = true
          · simp only [hc, ↓reduceIte]
            exact ⟨inv_eor h hs f, noLlgrOk_of_timers_sub fun f' hf' => by rw [(eor_timers h hs f).1] at hf'; exact hf'⟩
          · simp only [hc, Bool.false_eq_true, ↓reduceIte]; exact ⟨h, noLlgrOk_of_timers_sub fun f hf => hf⟩
  | down r => exact inv_sessionDown h r
  | attempt => simp only [step, attemptEnds, applyDisc_none]; exact ⟨h, noLlgrOk_of_timers_sub fun f hf => hf⟩
  | grTimer => exact inv_fireGr h
  | llgrTimer f => exact inv_fireLlgr h f
  | force => exact inv_forceDown h
  | disable =>
      simp only [step]
      by_cases ha : g.adminDown = true
      · simp only [ha, ↓reduceIte]; exact ⟨h, noLlgrOk_of_timers_sub fun f hf => hf⟩
      · simp only [ha, Bool.false_eq_true, ↓reduceIte]
        exact inv_forceDown (inv_adminDown h true)
  | enable => exact ⟨inv_adminDown h false, noLlgrOk_of_timers_sub fun f hf => hf⟩
  | wait => exact inv_fireLlgr_fold (inv_fireGr h).1 (inv_fireGr h).2 _

end Rbgp.Gr.Helper
