/- Term encoding of C10 cases and observations (canonical: sets are sorted here and in the harness). -/
import Rbgp.Term
import Rbgp.Gr.Helper.Model
namespace Rbgp.Gr.Helper.Codec
open Rbgp Rbgp.Term Rbgp.Gr.Helper

def sortN (l : List Nat) : List Nat := l.mergeSort (fun a b => a ≤ b)

def maxFam : Nat := 3
def maxPfx : Nat := 3

def famOf? (t : Term) : Option Fam := do
  let n ← asNat? t
  if n < maxFam then some n else none
def pfxOf? (t : Term) : Option Nat := do
  let n ← asNat? t
  if n < maxPfx then some n else none
def famsOf? (t : Term) : Option (List Fam) := asListOf? famOf? t
/-- negotiated family lists are never empty (`negotiate_gr` / `negotiate_llgr` return `None` then) -/
def famsNeOf? (t : Term) : Option (List Fam) := do
  let l ← famsOf? t
  if l.isEmpty then none else some l

def negGrOf? : Term → Option NegGr
  | .list [fs, nb] => do pure { fams := (← famsOf? fs), nbit := (← asBool? nb) }
  | _ => none

def codeOf? (t : Term) : Option Nat := do
  let n ← asNat? t
  if n < 8 then some n else none
def subOf? (t : Term) : Option Nat := do
  let n ← asNat? t
  if n < 12 then some n else none

def reasonOf? : Term → Option Reason
  | .atom "io" => some .io
  | .atom "hold" => some .hold
  | .list [.atom "rnotif", c, s] => do pure (.remoteNotif (← codeOf? c) (← subOf? s))
  | .list [.atom "lnotif", c, s] => do pure (.localNotif (← codeOf? c) (← subOf? s))
  | .atom "fsm" => some .fsmError
  | .atom "admin" => some .admin
  | _ => none
def reasonT : Reason → Term
  | .io => sym "io" | .hold => sym "hold"
  | .remoteNotif c s => tag "rnotif" [nat c, nat s]
  | .localNotif c s => tag "lnotif" [nat c, nat s]
  | .fsmError => sym "fsm" | .admin => sym "admin"

def evOf? : Term → Option Ev
  | .list [.atom "est", fs, gr, ll, lr] => do
      pure (.est (← famsOf? fs) (← asOpt? negGrOf? gr) (← asOpt? famsOf? ll) (← asBool? lr))
  | .list [.atom "ann", f, n, nl, lc] => do pure (.ann (← famOf? f) (← pfxOf? n) (← asBool? nl) (← asBool? lc))
  | .list [.atom "eor", f] => (famOf? f).map .eor
  | .list [.atom "down", r] => (reasonOf? r).map .down
  | .atom "attempt" => some .attempt
  | .atom "gr-timer" => some .grTimer
  | .list [.atom "llgr-timer", f] => (famOf? f).map .llgrTimer
  | .atom "force" => some .force
  | .atom "disable" => some .disable
  | .atom "enable" => some .enable
  | .atom "wait" => some .wait
  | _ => none

def evT : Ev → Term
  | .est fs gr ll lr => tag "est" [ofList nat fs, opt (fun g => list [ofList nat g.fams, bool g.nbit]) gr,
      opt (ofList nat) ll, bool lr]
  | .ann f n nl lc => tag "ann" [nat f, nat n, bool nl, bool lc]
  | .eor f => tag "eor" [nat f]
  | .down r => tag "down" [reasonT r]
  | .attempt => sym "attempt"
  | .grTimer => sym "gr-timer"
  | .llgrTimer f => tag "llgr-timer" [nat f]
  | .force => sym "force"
  | .disable => sym "disable"
  | .enable => sym "enable"
  | .wait => sym "wait"

def ginOf? : Term → Option GIn
  | .list [.atom "dropped", gr, ll] => do pure (.dropped (← asOpt? famsOf? gr) (← asOpt? famsOf? ll))
  | .list [.atom "established", fs] => (famsOf? fs).map .established
  | .list [.atom "eor", f] => (famOf? f).map .eor
  | .atom "timer" => some .timer
  | .list [.atom "llgr-timer", f] => (famOf? f).map .llgrTimer
  | _ => none
def ginT : GIn → Term
  | .dropped gr ll => tag "dropped" [opt (ofList nat) gr, opt (ofList nat) ll]
  | .established fs => tag "established" [ofList nat fs]
  | .eor f => tag "eor" [nat f]
  | .timer => sym "timer"
  | .llgrTimer f => tag "llgr-timer" [nat f]

inductive Case where
  | glue (evs : List Ev)
  | pure (ins : List GIn)

/-- What a script can ask of a remote speaker on a real TCP session (`(glue-tcp ...)`): a session is opened
    only when none can be up and the peer is not administratively down; it ends by the socket being
    closed, by a NOTIFICATION from the speaker or by an FSM error; no real-time `wait`. -/
def tcpOkFrom (maybeUp admin : Bool) (fams : List Fam) : List Ev → Bool
  | [] => true
  | .est fs _ _ _ :: es => !maybeUp && !admin && tcpOkFrom true admin fs es
  | .down r :: es =>
      (match r with | .io => true | .remoteNotif .. => true | .fsmError => true | _ => false) &&
        tcpOkFrom false admin fams es
  | .attempt :: es => !maybeUp && tcpOkFrom maybeUp admin fams es
  | .force :: es => tcpOkFrom false admin fams es
  | .disable :: es => tcpOkFrom false true fams es
  | .enable :: es => tcpOkFrom maybeUp false fams es
  | .wait :: _ => false
  -- the End-of-RIB marker of IPv4 unicast is the empty UPDATE and can always be sent; the marker of
  -- another family needs that family on the session
  | .eor f :: es => (f = 0 || !maybeUp || fams.contains f) && tcpOkFrom maybeUp admin fams es
  | _ :: es => tcpOkFrom maybeUp admin fams es

def tcpOk (evs : List Ev) : Bool := tcpOkFrom false false [] evs

/-- `(glue ev ...)`, `(glue-short ev ...)` / `(glue-real ev ...)` (1 s timers on the paused / the real clock;
    only there may `wait` occur), `(glue-tcp ev ...)`
    (the same events over a real TCP session, where possible) or `(pure in ...)` -/
def caseOf? : Term → Option Case
  | .list (.atom "glue" :: evs) => do
      let evs ← evs.mapM evOf?
      if evs.contains .wait then none else pure (.glue evs)
  | .list (.atom "glue-short" :: evs) => (evs.mapM evOf?).map .glue
  | .list (.atom "glue-real" :: evs) => (evs.mapM evOf?).map .glue
  | .list (.atom "glue-tcp" :: evs) => do
      let evs ← evs.mapM evOf?
      if tcpOk evs then pure (.glue evs) else none
  | .list (.atom "pure" :: ins) => (ins.mapM ginOf?).map .pure
  | _ => none

/-! observations -/

def routeKey (r : RouteObs) : Nat := r.fam * 100 + r.pfx

def routeT (r : RouteObs) : Term :=
  list [nat r.fam, nat r.pfx, bool r.stale, bool r.llgr, bool r.noLlgr, bool r.lsc]
def routeOf? : Term → Option RouteObs
  | .list [f, n, s, l, nl, lc] => do
      pure { fam := (← asNat? f), pfx := (← asNat? n), stale := (← asBool? s), llgr := (← asBool? l),
             noLlgr := (← asBool? nl), lsc := (← asBool? lc) }
  | _ => none

def obsT (o : Obs) : Term :=
  list [tag "rib" ((o.routes.mergeSort (fun a b => routeKey a ≤ routeKey b)).map routeT), bool o.grTimer,
        tag "llt" ((sortN o.llgrTimers).map nat), bool o.restarting, bool o.up]
def obsOf? : Term → Option Obs
  | .list [.list (.atom "rib" :: rs), gt, .list (.atom "llt" :: fs), pr, up] => do
      pure { routes := (← rs.mapM routeOf?), grTimer := (← asBool? gt), llgrTimers := (← fs.mapM asNat?),
             restarting := (← asBool? pr), up := (← asBool? up) }
  | _ => none

def goutT : GOut → Term
  | .startTimer => sym "start-timer"
  | .stopTimer => sym "stop-timer"
  | .deleteStale fs => tag "del-stale" [ofList nat (sortN fs)]
  | .startLlgrTimers fs => tag "start-llgr" [ofList nat (sortN fs)]
  | .stopLlgrTimers => sym "stop-llgr"
  | .deleteLlgrStale fs => tag "del-llgr" [ofList nat (sortN fs)]

def traceT (tr : List Obs) : Term := tag "trace" (tr.map obsT)
def traceOf? : Term → Option (List Obs)
  | .list (.atom "trace" :: ts) => ts.mapM obsOf?
  | _ => none

def ptraceT (tr : List (List GOut × Bool)) : Term :=
  tag "ptrace" (tr.map fun e => list [list (e.1.map goutT), bool e.2])

end Rbgp.Gr.Helper.Codec
